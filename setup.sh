#!/bin/bash
# Build the framework from files on disk only (offline): regenerate tables from /repo, build Lean.
set -e
cd "$(dirname "$0")"
mkdir -p out evidence replays
/venv/bin/python - <<'PY'
import sys, os
sys.path.insert(0, "harness")
import common
ok, msg = common.translate_tables()
print("translate_tables:", msg)
PY
cd lean && lake build 2>&1 | tail -3
