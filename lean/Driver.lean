import Driver.Basic
import Driver.StorageOps
import Driver.LocationOps
import Driver.StageOps
import Driver.DamageOps
import Driver.SerialOps
import Driver.ShardOps
import Driver.ChunkOps
import Driver.FlattenOps
import Driver.RngOps
import Driver.CollectiveOps
import Driver.SnapshotOps
import Driver.WorldOps
import Driver.GlobOps
import Driver.JsonOps
import Driver.CommitOps
import Driver.SchedOps
import Driver.ManifestOpsOps
import Driver.PartitionOps
open Lean Ts.Drv

namespace Ts.Drv

/-- All registered op handlers; first match wins. -/
def handlers : List Handler := [
  PartitionOps.handle,
  ManifestOpsOps.handle,
  SchedOps.handle,
  CommitOps.handle,
  JsonOps.handle,
  SnapshotOps.handle,
  WorldOps.handle,
  GlobOps.handle,
  CollectiveOps.handle,
  RngOps.handle,
  FlattenOps.handle,
  ChunkOps.handle,
  ShardOps.handle,
  SerialOps.handle,
  StorageOps.handle,
  LocationOps.handle,
  StageOps.handle,
  DamageOps.handle
]

def dispatch (line : String) : Json :=
  match Lean.Json.parse line with
  | .error e => Json.mkObj [("error", s!"parse: {e}")]
  | .ok j =>
    match getStr j "op" with
    | .error e => Json.mkObj [("error", e)]
    | .ok op =>
      let rec go : List Handler → Json
        | [] => Json.mkObj [("error", s!"unknown op {op}")]
        | h :: hs => match h op j with
          | none => go hs
          | some (.ok r) => r
          | some (.error e) => Json.mkObj [("error", e)]
      go handlers

end Ts.Drv
