import TsGen.Tables
