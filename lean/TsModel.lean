import TsModel.Storage
import TsModel.Serial
import TsModel.Shard
import TsModel.Chunk
import TsModel.Slab
import TsModel.BatchRead
import TsModel.Path
import TsModel.Flatten
