import TsModel.Storage
import TsModel.Serial
import TsModel.Shard
