import TsModel.Storage
