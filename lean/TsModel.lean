import TsModel.Storage
import TsModel.Serial
