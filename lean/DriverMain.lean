import Driver
open Lean Ts.Drv

partial def loop (hin hout : IO.FS.Stream) : IO Unit := do
  let line ← hin.getLine
  if line.isEmpty then return ()
  let t := line.trimAscii.toString
  if t.isEmpty then loop hin hout else
  hout.putStrLn (dispatch t).compress
  hout.flush
  loop hin hout

def main : IO Unit := do
  loop (← IO.getStdin) (← IO.getStdout)
