import TsModel.Snapshot
import TsProofs.Properties.C16
import TsProofs.Properties.C17
/-! Composition lemmas for the data plane of take/restore (C01, C18). -/
namespace Ts.Snapshot
open Ts.Storage (Bytes slice)
open Ts.Slab Ts.BatchRead Ts.Chunk

theorem mapE_ok' {α β : Type} (f : α → Except Err β) (g : α → β) (l : List α)
    (h : ∀ x ∈ l, f x = .ok (g x)) : mapE f l = .ok (l.map g) := by
  induction l with
  | nil => rfl
  | cons x xs ih =>
    have hx := h x (by simp)
    have := ih (fun y hy => h y (by simp [hy]))
    simp [mapE, hx, this]

theorem unitLoc_eq_entryOf (r : WReq UnitId) (o : Option Place) : unitLoc r o = entryOf r o := by
  cases o <;> rfl

theorem readUnit_eq_want (store : Loc UnitId → Option Bytes) (u : UnitLoc) (f : Bytes)
    (h : store u.1 = some f) : readUnit store u = .ok (want store ⟨u.1, u.2, 0⟩) := by
  obtain ⟨l, r⟩ := u
  simp only at h
  cases r with
  | none => simp [readUnit, want, h]
  | some p => obtain ⟨lo, hi⟩ := p; simp [readUnit, want, h]

/-- The manifest's `(location, byte range)` for a unit really holds `bs`: the object exists, the range is inside
it, and the range's bytes (or the whole object) are `bs`. -/
def UnitStored {L : Type} (store : L → Option Bytes) (u : ULoc L) (bs : Bytes) : Prop :=
  ∃ f, store u.1 = some f ∧
    match u.2 with
    | none => bs = f
    | some (lo, hi) => lo ≤ hi ∧ hi ≤ f.length ∧ bs = slice f lo hi

theorem readUnit_of_stored {L : Type} (store : L → Option Bytes) (u : ULoc L) (bs : Bytes)
    (h : UnitStored store u bs) : readUnit store u = .ok bs := by
  obtain ⟨f, hf, hm⟩ := h
  obtain ⟨l, r⟩ := u
  simp only at hf hm
  cases r with
  | none => simp only at hm; simp [readUnit, hf, hm]
  | some p => obtain ⟨lo, hi⟩ := p; simp only at hm; simp [readUnit, hf, hm.2.2]

/-- A tiled read (`prepare_read_tiled`, any buffer limit ≥ 1) of a stored unit returns the same bytes. -/
theorem readTiled_of_stored {L : Type} (store : L → Option Bytes) (limit : Nat) (hlim : 1 ≤ limit)
    (u : ULoc L) (bs : Bytes) (h : UnitStored store u bs) (es : Nat) (shape : List Nat)
    (hsz : Ts.Chunk.numel shape * es = bs.length) : readTiled store limit es shape u = .ok bs := by
  obtain ⟨f, hf, hm⟩ := h
  obtain ⟨ts, hts, hflat⟩ := Ts.C16.C16_tile_bytes_concat shape true es limit u.2 f hlim (Or.inl rfl)
  have hreads : mapE (fun t : Ts.Chunk.Tile => readUnit store (u.1, some (t.lo, t.hi))) ts
      = .ok (ts.map (fun t => slice f t.lo t.hi)) := by
    apply mapE_ok'
    intro t _
    simp [readUnit, hf]
  have hwhole : slice f (baseOf u.2) (baseOf u.2 + es * Ts.Chunk.numel shape) = bs := by
    rw [Nat.mul_comm es, hsz]
    obtain ⟨l, r⟩ := u
    cases r with
    | none =>
      simp only at hm
      subst hm
      simp only [baseOf, Nat.zero_add]
      exact slice_all _
    | some p =>
      obtain ⟨lo, hi⟩ := p
      simp only at hm
      obtain ⟨h1, h2, h3⟩ := hm
      have hl : bs.length = hi - lo := by rw [h3]; exact slice_length f lo hi h2
      simp only [baseOf]
      rw [hl, h3]
      congr 1
      omega
  simp only [readTiled, hts, hreads, Except.map, hflat, hwhole]

/-- With slab batching on: every unit's recorded location holds the bytes its stager exported. -/
theorem stored_batched (wb : List (WReq UnitId × Bytes)) (thr : Nat) (hthr : 1 ≤ thr)
    (hpaths : (wb.map (·.1.path)).Nodup)
    (hsz : ∀ x ∈ wb, batchable x.1 = true → x.2.length = x.1.size)
    (e : (WReq UnitId × Bytes) × Option Place) (he : e ∈ wb.zip (place thr (wb.map (·.1)) 0 0)) :
    UnitStored (written wb (place thr (wb.map (·.1)) 0 0)) (unitLoc e.1.1 e.2) e.1.2 := by
  obtain ⟨f, hf, hb, hw⟩ := entry_read wb thr hthr hpaths hsz e he 0
  rw [unitLoc_eq_entryOf]
  refine ⟨f, hf, ?_⟩
  cases hr : (entryOf e.1.1 e.2).2 with
  | none =>
    simp only
    have : want (written wb (place thr (wb.map (·.1)) 0 0)) ⟨(entryOf e.1.1 e.2).1, (entryOf e.1.1 e.2).2, 0⟩ = f := by
      simp [want, hf, hr]
    rw [← hw, this]
  | some p =>
    obtain ⟨lo, hi⟩ := p
    simp only
    obtain ⟨h1, h2, _⟩ := hb lo hi hr
    have : want (written wb (place thr (wb.map (·.1)) 0 0)) ⟨(entryOf e.1.1 e.2).1, (entryOf e.1.1 e.2).2, 0⟩ = slice f lo hi := by
      simp [want, hf, hr]
    exact ⟨h1, h2, by rw [← hw, this]⟩

theorem find_by_path (l : List ((WReq UnitId × Bytes) × Option Place))
    (hpw : l.Pairwise (fun a b => a.1.1.path ≠ b.1.1.path))
    (hnone : ∀ x ∈ l, x.2 = none)
    (e : (WReq UnitId × Bytes) × Option Place) (he : e ∈ l) :
    l.find? (fun x => x.2.isNone && x.1.1.path == e.1.1.path) = some e := by
  induction l with
  | nil => cases he
  | cons x xs ih =>
    rw [List.pairwise_cons] at hpw
    rcases List.mem_cons.mp he with rfl | hm
    · simp [List.find?, hnone e (by simp)]
    · have hne : x.1.1.path ≠ e.1.1.path := hpw.1 e hm
      have : (x.2.isNone && x.1.1.path == e.1.1.path) = false := by simp [hne]
      rw [List.find?, this]
      exact ih hpw.2 (fun y hy => hnone y (by simp [hy])) hm

/-- With batching disabled: every unit is stored whole under its own location. -/
theorem stored_plain (wb : List (WReq UnitId × Bytes)) (hpaths : (wb.map (·.1.path)).Nodup)
    (e : (WReq UnitId × Bytes) × Option Place) (he : e ∈ wb.zip (wb.map (fun _ => (none : Option Place)))) :
    UnitStored (written wb (wb.map (fun _ => none))) (unitLoc e.1.1 e.2) e.1.2 := by
  have hnone : ∀ x ∈ wb.zip (wb.map (fun _ => (none : Option Place))), x.2 = none := by
    intro x hx
    have h2 := (List.of_mem_zip hx).2
    rw [List.mem_map] at h2
    obtain ⟨_, _, h⟩ := h2
    exact h.symm
  have hpw : (wb.zip (wb.map (fun _ => (none : Option Place)))).Pairwise (fun a b => a.1.1.path ≠ b.1.1.path) := by
    have h1 : (wb.zip (wb.map (fun _ => (none : Option Place)))).map (·.1) = wb := List.map_fst_zip (by simp)
    have h2 : ((wb.zip (wb.map (fun _ => (none : Option Place)))).map (·.1)).Pairwise (fun a b => a.1.path ≠ b.1.path) := by
      rw [h1]; simpa [List.Nodup, List.pairwise_map] using hpaths
    rwa [List.pairwise_map] at h2
  have hf := find_by_path _ hpw hnone e he
  have he2 : e.2 = none := hnone e he
  refine ⟨e.1.2, by simp [unitLoc, he2, written, hf], by simp [unitLoc, he2]⟩

/-! ## per-leaf write requests -/

theorem numel_eq (shape : List Nat) : Ts.Chunk.numel shape = Ts.Serial.numel shape := by
  induction shape with
  | nil => rfl
  | cons d r ih => simp [Ts.Chunk.numel, Ts.Serial.numel, ih]

/-- Leaves the data-plane theorem ranges over: tensors of a buffer-protocol dtype with torch's size
invariant (everything else travels as an opaque blob). -/
def LeafOk : Leaf → Prop
  | .tensor t => t.dtype ∈ Ts.Gen.bufferProtocolDtypes ∧ t.WF
  | .blob _ => True

/-- The write requests of a tensor leaf: one raw request, or one per dim-0 piece. -/
theorem leafWrites_tensor (cfg : Cfg) (hc : 1 ≤ cfg.chunk) (i : Nat) (t : Ts.Serial.Tensor)
    (hd : t.dtype ∈ Ts.Gen.bufferProtocolDtypes) (hwf : t.WF) :
    ∃ es, Ts.Serial.torchItemsize t.dtype = some es ∧ 0 < es ∧
      t.bytes.length = Ts.Chunk.numel t.shape * es ∧
      ((leafWrites cfg i (.tensor t)
          = .ok [(⟨(i, none), true, true, false, Ts.Chunk.numel t.shape * es⟩, t.bytes)]) ∨
       (∃ ps, pieces t.shape es cfg.chunk = .ok ps ∧ ps ≠ [] ∧
          Consec 0 (ps.map (fun p => (p.1, p.1 + p.2))) (normShape t.shape).1 ∧
          (∀ p ∈ ps, 0 < p.2) ∧ 0 < Ts.Chunk.numel t.shape * es ∧
          leafWrites cfg i (.tensor t) = .ok (ps.map (fun p =>
            (⟨(i, some p), true, true, false, p.2 * rowBytes t.shape es⟩, pieceBytes t.shape es t.bytes p))))) := by
  obtain ⟨es, f⟩ := Ts.Serial.bp_facts hd
  have hlen : t.bytes.length = Ts.Chunk.numel t.shape * es := by
    rw [(Ts.Serial.wf_iff f.itemsize).1 hwf, numel_eq, Nat.mul_comm]
  refine ⟨es, f.itemsize, f.pos, hlen, ?_⟩
  have hmv := Ts.Serial.asMemoryview_eq hd hwf
  rcases Ts.C16.C16_plan_tensor_write_total t.shape es cfg.chunk hc with ⟨_, hplan⟩ | ⟨hgt, cs, _, _, hplan⟩
  · left
    simp [leafWrites, f.itemsize, hmv, hplan]
  · right
    have hpos : 0 < Ts.Chunk.numel t.shape * es := by omega
    obtain ⟨ps, he, hne, hcs, hall⟩ := pieces_spec t.shape es cfg.chunk hc hpos
    refine ⟨ps, he, hne, hcs, fun p hp => (hall p hp).1, hpos, ?_⟩
    simp [leafWrites, f.itemsize, hmv, hplan, he]

/-! ## restoring one leaf from its units -/

theorem mapE_ok {α β : Type} (f : α → Except Err β) (g : α → β) (l : List α)
    (h : ∀ x ∈ l, f x = .ok (g x)) : mapE f l = .ok (l.map g) := by
  induction l with
  | nil => rfl
  | cons x xs ih =>
    have hx := h x (by simp)
    have := ih (fun y hy => h y (by simp [hy]))
    simp [mapE, hx, this]

/-- The chunk pieces as `(byte range in the tensor, exported bytes)`. -/
def pieceMembers (shape : List Nat) (es : Nat) (b : Bytes) (ps : List (Nat × Nat)) : List ((Nat × Nat) × Bytes) :=
  ps.map (fun p => (pieceRange shape es p, pieceBytes shape es b p))

/-- Re-assembling a chunked tensor: writing every chunk's bytes at its dim-0 position, in any completion
order, rebuilds exactly the tensor's bytes. -/
theorem assemble_chunks (shape : List Nat) (es maxBytes : Nat) (b : Bytes) (hthr : 1 ≤ maxBytes)
    (hpos : 0 < Ts.Chunk.numel shape * es) (hb : b.length = Ts.Chunk.numel shape * es)
    (ps : List (Nat × Nat)) (hps : pieces shape es maxBytes = .ok ps)
    (done : List ((Nat × Nat) × Bytes)) (hperm : done.Perm (pieceMembers shape es b ps)) :
    Ts.Slab.stage (Ts.Chunk.numel shape * es) done = .ok b := by
  obtain ⟨ps', he, _, hc, hall⟩ := pieces_spec shape es maxBytes hthr hpos
  rw [hps] at he; cases he
  obtain ⟨ps'', he2, hflat, hlen⟩ := Ts.C16.C16_chunk_bytes_concat shape es maxBytes b hthr hpos hb
  rw [hps] at he2; cases he2
  have hsc := consec_scale (rowBytes shape es) ps 0 _ hc
  have htot : (normShape shape).1 * rowBytes shape es = Ts.Chunk.numel shape * es := by
    rw [← numel_normShape shape]; simp [rowBytes, Nat.mul_assoc]
  rw [Nat.zero_mul, htot] at hsc
  have hrow : 0 < rowBytes shape es := by
    rcases Nat.eq_zero_or_pos (rowBytes shape es) with h | h
    · rw [← htot, h] at hpos; simp at hpos
    · exact h
  have hkeys : (pieceMembers shape es b ps).map (·.1) = ps.map (fun p => (p.1 * rowBytes shape es, (p.1 + p.2) * rowBytes shape es)) := by
    simp [pieceMembers, pieceRange]
  have hcons : Consec 0 ((pieceMembers shape es b ps).map (·.1)) (Ts.Chunk.numel shape * es) := by
    rw [hkeys]; exact hsc
  have hlen' : ∀ m ∈ pieceMembers shape es b ps, m.2.length = m.1.2 - m.1.1 := by
    intro m hm
    simp only [pieceMembers, List.mem_map] at hm
    obtain ⟨p, hp, rfl⟩ := hm
    rw [hlen p hp]
    simp only [Chunk.nbytes, numel_toChunk, pieceRange, rowBytes, Nat.add_mul, Nat.mul_assoc]
    omega
  -- ranges of distinct pieces are distinct (each is non-empty and they are consecutive)
  have hdist : (pieceMembers shape es b ps).Pairwise (fun a c => a.1 ≠ c.1) := by
    have hpw := hcons.pairwise
    rw [List.pairwise_map] at hpw
    refine hpw.imp_of_mem ?_
    intro a c ha hc' hle heq
    have hla := hlen' a ha
    simp only [pieceMembers, List.mem_map] at ha
    obtain ⟨p, hp, rfl⟩ := ha
    have hp2 := (hall p hp).1
    simp only [pieceRange] at hle heq
    rw [← heq] at hle
    simp only at hle
    have : p.1 * rowBytes shape es < (p.1 + p.2) * rowBytes shape es := by
      apply Nat.mul_lt_mul_of_pos_right _ hrow; omega
    omega
  have hd := dictOfList_eq_self _ hdist
  obtain ⟨slab, hs, _, hfl, _⟩ := Ts.C16.C16_slab_stage (Ts.Chunk.numel shape * es) (pieceMembers shape es b ps) done
    hcons hlen' (by rw [hd]; exact hperm)
  rw [hs, hfl]
  simp only [pieceMembers, List.map_map]
  exact congrArg _ hflat

/-- The same into an existing buffer of the tensor's size (in-place restore of a chunked tensor): the old contents
are overwritten completely. -/
theorem assemble_chunks_onto (init : Bytes) (shape : List Nat) (es maxBytes : Nat) (b : Bytes) (hthr : 1 ≤ maxBytes)
    (hpos : 0 < Ts.Chunk.numel shape * es) (hb : b.length = Ts.Chunk.numel shape * es)
    (ps : List (Nat × Nat)) (hps : pieces shape es maxBytes = .ok ps)
    (done : List ((Nat × Nat) × Bytes)) (hperm : done.Perm (pieceMembers shape es b ps))
    (hinit : init.length = Ts.Chunk.numel shape * es) :
    Ts.Slab.stageOnto init done = .ok b := by
  obtain ⟨ps', he, _, hc, hall⟩ := pieces_spec shape es maxBytes hthr hpos
  rw [hps] at he; cases he
  obtain ⟨ps'', he2, hflat, hlen⟩ := Ts.C16.C16_chunk_bytes_concat shape es maxBytes b hthr hpos hb
  rw [hps] at he2; cases he2
  have hsc := consec_scale (rowBytes shape es) ps 0 _ hc
  have htot : (normShape shape).1 * rowBytes shape es = Ts.Chunk.numel shape * es := by
    rw [← numel_normShape shape]; simp [rowBytes, Nat.mul_assoc]
  rw [Nat.zero_mul, htot] at hsc
  have hrow : 0 < rowBytes shape es := by
    rcases Nat.eq_zero_or_pos (rowBytes shape es) with h | h
    · rw [← htot, h] at hpos; simp at hpos
    · exact h
  have hkeys : (pieceMembers shape es b ps).map (·.1) = ps.map (fun p => (p.1 * rowBytes shape es, (p.1 + p.2) * rowBytes shape es)) := by
    simp [pieceMembers, pieceRange]
  have hcons : Consec 0 ((pieceMembers shape es b ps).map (·.1)) (Ts.Chunk.numel shape * es) := by
    rw [hkeys]; exact hsc
  have hlen' : ∀ m ∈ pieceMembers shape es b ps, m.2.length = m.1.2 - m.1.1 := by
    intro m hm
    simp only [pieceMembers, List.mem_map] at hm
    obtain ⟨p, hp, rfl⟩ := hm
    rw [hlen p hp]
    simp only [Chunk.nbytes, numel_toChunk, pieceRange, rowBytes, Nat.add_mul, Nat.mul_assoc]
    omega
  -- ranges of distinct pieces are distinct (each is non-empty and they are consecutive)
  have hdist : (pieceMembers shape es b ps).Pairwise (fun a c => a.1 ≠ c.1) := by
    have hpw := hcons.pairwise
    rw [List.pairwise_map] at hpw
    refine hpw.imp_of_mem ?_
    intro a c ha hc' hle heq
    have hla := hlen' a ha
    simp only [pieceMembers, List.mem_map] at ha
    obtain ⟨p, hp, rfl⟩ := ha
    have hp2 := (hall p hp).1
    simp only [pieceRange] at hle heq
    rw [← heq] at hle
    simp only at hle
    have : p.1 * rowBytes shape es < (p.1 + p.2) * rowBytes shape es := by
      apply Nat.mul_lt_mul_of_pos_right _ hrow; omega
    omega
  have hd := dictOfList_eq_self _ hdist
  obtain ⟨slab, hs, _, hfl, _⟩ := Ts.Slab.stageOnto_spec (Ts.Chunk.numel shape * es) init hinit (pieceMembers shape es b ps) done
    hcons hlen' (by rw [hd]; exact hperm)
  rw [hs, hfl]
  simp only [pieceMembers, List.map_map]
  exact congrArg _ hflat

/-- One leaf, any location type: if every write unit of the leaf is recorded at a location that holds the
unit's staged bytes, the recorded entry restores exactly the leaf — plain tensor, chunked tensor (chunks
consumed in any order, possibly stored by different writers) or blob. -/
theorem restoreLeafG_ok {L : Type} (cfg : Cfg) (hc : 1 ≤ cfg.chunk) (store : L → Option Bytes)
    (rd : Nat → List Nat → ULoc L → Except Err Bytes)
    (hrd : ∀ u bs es shape, UnitStored store u bs → Ts.Chunk.numel shape * es = bs.length → rd es shape u = .ok bs)
    (order : List ((Nat × Nat) × ULoc L) → List ((Nat × Nat) × ULoc L))
    (horder : ∀ cs, (order cs).Perm cs)
    (i : Nat) (l : Leaf) (hl : LeafOk l) (ws : List (WReq UnitId × Bytes)) (hws : leafWrites cfg i l = .ok ws)
    (pls : List (ULoc L)) (hlen : pls.length = ws.length)
    (hst : ∀ e ∈ ws.zip pls, UnitStored store e.2 e.1.2) :
    ∃ en, entryOfUnits l (ws.zip pls) = .ok en ∧ restoreLeafWith store rd order en = .ok l := by
  cases l with
  | blob p =>
    simp only [leafWrites, Except.ok.injEq] at hws
    subst hws
    match pls, hlen with
    | [o], _ =>
      refine ⟨.blob o, by simp [entryOfUnits], ?_⟩
      have := readUnit_of_stored _ _ _ (hst ((⟨(i, none), false, false, false, p.length⟩, p), o) (by simp))
      simp only at this
      simp [restoreLeafWith, this, Except.map]
  | tensor t =>
    obtain ⟨hd, hwf⟩ := hl
    obtain ⟨es, hes, hespos, hblen, hcase⟩ := leafWrites_tensor cfg hc i t hd hwf
    have hfm : Ts.Serial.fromMemoryview t.dtype t.shape t.bytes = .ok t := by
      have := Ts.Serial.fromMemoryview_ok hes hespos t.shape t.bytes (by rw [hblen, numel_eq, Nat.mul_comm])
      simpa using this
    rcases hcase with hplain | ⟨ps, hps, hne, hcons, hpos2, hnum, hchunked⟩
    · rw [hplain] at hws
      simp only [Except.ok.injEq] at hws
      subst hws
      match pls, hlen with
      | [o], _ =>
        refine ⟨.tensor t.dtype t.shape o, by simp [entryOfUnits], ?_⟩
        have := hrd _ _ es t.shape (hst ((⟨(i, none), true, true, false, Ts.Chunk.numel t.shape * es⟩, t.bytes), o) (by simp))
          (by simp only; exact hblen.symm)
        simp only at this
        simp [restoreLeafWith, hes, this, hfm]
    · rw [hchunked] at hws
      simp only [Except.ok.injEq] at hws
      subst hws
      -- the units, and what each of them carries
      generalize hU : (ps.map (fun p => ((⟨(i, some p), true, true, false, p.2 * rowBytes t.shape es⟩ : WReq UnitId),
          pieceBytes t.shape es t.bytes p))).zip pls = units at *
      have hfst : units.map (·.1) = ps.map (fun p => ((⟨(i, some p), true, true, false, p.2 * rowBytes t.shape es⟩ : WReq UnitId),
          pieceBytes t.shape es t.bytes p)) := by
        rw [← hU]; exact List.map_fst_zip (by simp [hlen])
      have hunit : ∀ x ∈ units, ∃ p ∈ ps, x.1.1.path.2 = some p ∧ x.1.2 = pieceBytes t.shape es t.bytes p := by
        intro x hx
        have : x.1 ∈ units.map (·.1) := List.mem_map_of_mem hx
        rw [hfst, List.mem_map] at this
        obtain ⟨p, hp, hxp⟩ := this
        exact ⟨p, hp, by rw [← hxp], by rw [← hxp]⟩
      have hpieces : units.map (fun x => x.1.1.path.2.getD (0, 0)) = ps := by
        have : units.map (fun x => x.1.1.path.2.getD (0, 0)) = (units.map (·.1)).map (fun w => w.1.path.2.getD (0, 0)) := by
          rw [List.map_map]; rfl
        rw [this, hfst, List.map_map]
        calc List.map _ ps = List.map id ps := List.map_congr_left (fun p _ => rfl)
          _ = ps := List.map_id ps
      have hune : units ≠ [] := by
        intro h; rw [h] at hpieces; simp at hpieces; exact hne hpieces
      obtain ⟨e, rest, hcons'⟩ := List.exists_cons_of_ne_nil hune
      obtain ⟨p0, _, hp0, _⟩ := hunit e (by rw [hcons']; simp)
      let chunks := units.map (fun x => (x.1.1.path.2.getD (0, 0), x.2))
      refine ⟨.chunked t.dtype t.shape chunks, ?_, ?_⟩
      · rw [hcons']; simp only [entryOfUnits, hp0, chunks, hcons']
      · -- reads of the chunks, in the consumers' completion order
        have hplen : ∀ p ∈ ps, Ts.Chunk.numel (p.2 :: (normShape t.shape).2) * es = (pieceBytes t.shape es t.bytes p).length := by
          intro p hp
          obtain ⟨ps', he2, _, hl2⟩ := Ts.C16.C16_chunk_bytes_concat t.shape es cfg.chunk t.bytes hc hnum hblen
          rw [hps] at he2; cases he2
          rw [hl2 p hp]
          simp [Chunk.nbytes, numel_toChunk, Ts.Chunk.numel]
        have hchunk : ∀ c ∈ order chunks,
            (rd es (c.1.2 :: (normShape t.shape).2) c.2).map (fun b => (pieceRange t.shape es c.1, b))
              = .ok (pieceRange t.shape es c.1, pieceBytes t.shape es t.bytes c.1) := by
          intro c hcm
          have hc2 : c ∈ chunks := (horder chunks).mem_iff.mp hcm
          simp only [chunks, List.mem_map] at hc2
          obtain ⟨x, hx, rfl⟩ := hc2
          obtain ⟨p, hpm, hp, hb⟩ := hunit x hx
          simp only [hp, Option.getD_some]
          have hs := hst x hx
          rw [hb] at hs
          rw [hrd _ _ es (p.2 :: (normShape t.shape).2) hs (hplen p hpm)]; rfl
        have hmap := mapE_ok _ (fun c => (pieceRange t.shape es c.1, pieceBytes t.shape es t.bytes c.1)) (order chunks) hchunk
        have hperm : ((order chunks).map (fun c => (pieceRange t.shape es c.1, pieceBytes t.shape es t.bytes c.1))).Perm
            (pieceMembers t.shape es t.bytes ps) := by
          have h1 := (horder chunks).map (fun c => (pieceRange t.shape es c.1, pieceBytes t.shape es t.bytes c.1))
          refine h1.trans ?_
          have : chunks.map (fun c => (pieceRange t.shape es c.1, pieceBytes t.shape es t.bytes c.1))
              = pieceMembers t.shape es t.bytes ps := by
            simp only [chunks, pieceMembers, List.map_map]
            rw [← hpieces, List.map_map]; rfl
          rw [this]
        have hstg := assemble_chunks t.shape es cfg.chunk t.bytes hc hnum hblen ps hps _ hperm
        simp only [restoreLeafWith, hes, hmap, hstg, hfm]

/-- One leaf with an explicit restore target: `none`, a pre-allocated tensor of the saved dtype and shape with ANY old
contents (filled in place, chunk by chunk for a chunked entry), or a tensor of another dtype / shape (replaced by a
fresh one) — the restored leaf is exactly the saved one in every case. -/
theorem restoreLeafInto_ok {L : Type} (cfg : Cfg) (hc : 1 ≤ cfg.chunk) (store : L → Option Bytes)
    (rd : Nat → List Nat → ULoc L → Except Err Bytes)
    (hrd : ∀ u bs es shape, UnitStored store u bs → Ts.Chunk.numel shape * es = bs.length → rd es shape u = .ok bs)
    (order : List ((Nat × Nat) × ULoc L) → List ((Nat × Nat) × ULoc L))
    (horder : ∀ cs, (order cs).Perm cs)
    (i : Nat) (l : Leaf) (hl : LeafOk l) (ws : List (WReq UnitId × Bytes)) (hws : leafWrites cfg i l = .ok ws)
    (pls : List (ULoc L)) (hlen : pls.length = ws.length)
    (hst : ∀ e ∈ ws.zip pls, UnitStored store e.2 e.1.2)
    (dst : Option Ts.Serial.Tensor) (hdst : ∀ t, dst = some t → t.WF) :
    ∃ en, entryOfUnits l (ws.zip pls) = .ok en ∧ restoreLeafInto store rd order dst en = .ok l := by
  cases l with
  | blob p =>
    simp only [leafWrites, Except.ok.injEq] at hws
    subst hws
    match pls, hlen with
    | [o], _ =>
      refine ⟨.blob o, by simp [entryOfUnits], ?_⟩
      have := readUnit_of_stored _ _ _ (hst ((⟨(i, none), false, false, false, p.length⟩, p), o) (by simp))
      simp only at this
      simp [restoreLeafInto, this, Except.map]
  | tensor t =>
    obtain ⟨hd, hwf⟩ := hl
    obtain ⟨es, hes, hespos, hblen, hcase⟩ := leafWrites_tensor cfg hc i t hd hwf
    have hfm : Ts.Serial.fromMemoryview t.dtype t.shape t.bytes = .ok t := by
      have := Ts.Serial.fromMemoryview_ok hes hespos t.shape t.bytes (by rw [hblen, numel_eq, Nat.mul_comm])
      simpa using this
    rcases hcase with hplain | ⟨ps, hps, hne, hcons, hpos2, hnum, hchunked⟩
    · rw [hplain] at hws
      simp only [Except.ok.injEq] at hws
      subst hws
      match pls, hlen with
      | [o], _ =>
        refine ⟨.tensor t.dtype t.shape o, by simp [entryOfUnits], ?_⟩
        have := hrd _ _ es t.shape (hst ((⟨(i, none), true, true, false, Ts.Chunk.numel t.shape * es⟩, t.bytes), o) (by simp))
          (by simp only; exact hblen.symm)
        simp only at this
        simp [restoreLeafInto, hes, this, hfm]
    · rw [hchunked] at hws
      simp only [Except.ok.injEq] at hws
      subst hws
      -- the units, and what each of them carries
      generalize hU : (ps.map (fun p => ((⟨(i, some p), true, true, false, p.2 * rowBytes t.shape es⟩ : WReq UnitId),
          pieceBytes t.shape es t.bytes p))).zip pls = units at *
      have hfst : units.map (·.1) = ps.map (fun p => ((⟨(i, some p), true, true, false, p.2 * rowBytes t.shape es⟩ : WReq UnitId),
          pieceBytes t.shape es t.bytes p)) := by
        rw [← hU]; exact List.map_fst_zip (by simp [hlen])
      have hunit : ∀ x ∈ units, ∃ p ∈ ps, x.1.1.path.2 = some p ∧ x.1.2 = pieceBytes t.shape es t.bytes p := by
        intro x hx
        have : x.1 ∈ units.map (·.1) := List.mem_map_of_mem hx
        rw [hfst, List.mem_map] at this
        obtain ⟨p, hp, hxp⟩ := this
        exact ⟨p, hp, by rw [← hxp], by rw [← hxp]⟩
      have hpieces : units.map (fun x => x.1.1.path.2.getD (0, 0)) = ps := by
        have : units.map (fun x => x.1.1.path.2.getD (0, 0)) = (units.map (·.1)).map (fun w => w.1.path.2.getD (0, 0)) := by
          rw [List.map_map]; rfl
        rw [this, hfst, List.map_map]
        calc List.map _ ps = List.map id ps := List.map_congr_left (fun p _ => rfl)
          _ = ps := List.map_id ps
      have hune : units ≠ [] := by
        intro h; rw [h] at hpieces; simp at hpieces; exact hne hpieces
      obtain ⟨e, rest, hcons'⟩ := List.exists_cons_of_ne_nil hune
      obtain ⟨p0, _, hp0, _⟩ := hunit e (by rw [hcons']; simp)
      let chunks := units.map (fun x => (x.1.1.path.2.getD (0, 0), x.2))
      refine ⟨.chunked t.dtype t.shape chunks, ?_, ?_⟩
      · rw [hcons']; simp only [entryOfUnits, hp0, chunks, hcons']
      · -- reads of the chunks, in the consumers' completion order
        have hplen : ∀ p ∈ ps, Ts.Chunk.numel (p.2 :: (normShape t.shape).2) * es = (pieceBytes t.shape es t.bytes p).length := by
          intro p hp
          obtain ⟨ps', he2, _, hl2⟩ := Ts.C16.C16_chunk_bytes_concat t.shape es cfg.chunk t.bytes hc hnum hblen
          rw [hps] at he2; cases he2
          rw [hl2 p hp]
          simp [Chunk.nbytes, numel_toChunk, Ts.Chunk.numel]
        have hchunk : ∀ c ∈ order chunks,
            (rd es (c.1.2 :: (normShape t.shape).2) c.2).map (fun b => (pieceRange t.shape es c.1, b))
              = .ok (pieceRange t.shape es c.1, pieceBytes t.shape es t.bytes c.1) := by
          intro c hcm
          have hc2 : c ∈ chunks := (horder chunks).mem_iff.mp hcm
          simp only [chunks, List.mem_map] at hc2
          obtain ⟨x, hx, rfl⟩ := hc2
          obtain ⟨p, hpm, hp, hb⟩ := hunit x hx
          simp only [hp, Option.getD_some]
          have hs := hst x hx
          rw [hb] at hs
          rw [hrd _ _ es (p.2 :: (normShape t.shape).2) hs (hplen p hpm)]; rfl
        have hmap := mapE_ok _ (fun c => (pieceRange t.shape es c.1, pieceBytes t.shape es t.bytes c.1)) (order chunks) hchunk
        have hperm : ((order chunks).map (fun c => (pieceRange t.shape es c.1, pieceBytes t.shape es t.bytes c.1))).Perm
            (pieceMembers t.shape es t.bytes ps) := by
          have h1 := (horder chunks).map (fun c => (pieceRange t.shape es c.1, pieceBytes t.shape es t.bytes c.1))
          refine h1.trans ?_
          have : chunks.map (fun c => (pieceRange t.shape es c.1, pieceBytes t.shape es t.bytes c.1))
              = pieceMembers t.shape es t.bytes ps := by
            simp only [chunks, pieceMembers, List.map_map]
            rw [← hpieces, List.map_map]; rfl
          rw [this]
        have hinit : (destBytes t.dtype t.shape es dst).length = Ts.Chunk.numel t.shape * es := by
          unfold destBytes
          cases dst with
          | none => simp
          | some d =>
            simp only
            split
            · rename_i hm
              have hw := hdst d rfl
              unfold Ts.Serial.Tensor.WF at hw
              rw [hm.1, hes] at hw
              simp only [Option.map_some, Option.some.injEq] at hw
              rw [← hw, hm.2, numel_eq, Nat.mul_comm]
            · simp
        have hstg := assemble_chunks_onto _ t.shape es cfg.chunk t.bytes hc hnum hblen ps hps _ hperm hinit
        simp only [restoreLeafInto, hes, hmap, hstg, hfm]

/-- One leaf: from the placements of its own write units and the fact that every unit reads back its staged
bytes, the recorded entry restores exactly the leaf — plain tensor, chunked tensor (chunks consumed in any
order) or blob. -/
theorem restoreLeafWith_ok (cfg : Cfg) (hc : 1 ≤ cfg.chunk) (store : Loc UnitId → Option Bytes)
    (rd : Nat → List Nat → UnitLoc → Except Err Bytes)
    (hrd : ∀ u bs es shape, UnitStored store u bs → Ts.Chunk.numel shape * es = bs.length → rd es shape u = .ok bs)
    (order : List ((Nat × Nat) × UnitLoc) → List ((Nat × Nat) × UnitLoc))
    (horder : ∀ cs, (order cs).Perm cs)
    (i : Nat) (l : Leaf) (hl : LeafOk l) (ws : List (WReq UnitId × Bytes)) (hws : leafWrites cfg i l = .ok ws)
    (pls : List (Option Place)) (hlen : pls.length = ws.length)
    (hst : ∀ e ∈ ws.zip pls, UnitStored store (unitLoc e.1.1 e.2) e.1.2) :
    ∃ en, entryOfLeaf l (ws.zip pls) = .ok en ∧ restoreLeafWith store rd order en = .ok l := by
  cases l with
  | blob p =>
    simp only [leafWrites, Except.ok.injEq] at hws
    subst hws
    match pls, hlen with
    | [o], _ =>
      refine ⟨.blob (unitLoc ⟨(i, none), false, false, false, p.length⟩ o), by simp [entryOfLeaf], ?_⟩
      have := readUnit_of_stored _ _ _ (hst ((⟨(i, none), false, false, false, p.length⟩, p), o) (by simp))
      simp only at this
      simp [restoreLeafWith, this, Except.map]
  | tensor t =>
    obtain ⟨hd, hwf⟩ := hl
    obtain ⟨es, hes, hespos, hblen, hcase⟩ := leafWrites_tensor cfg hc i t hd hwf
    have hfm : Ts.Serial.fromMemoryview t.dtype t.shape t.bytes = .ok t := by
      have := Ts.Serial.fromMemoryview_ok hes hespos t.shape t.bytes (by rw [hblen, numel_eq, Nat.mul_comm])
      simpa using this
    rcases hcase with hplain | ⟨ps, hps, hne, hcons, hpos2, hnum, hchunked⟩
    · rw [hplain] at hws
      simp only [Except.ok.injEq] at hws
      subst hws
      match pls, hlen with
      | [o], _ =>
        refine ⟨.tensor t.dtype t.shape (unitLoc ⟨(i, none), true, true, false, Ts.Chunk.numel t.shape * es⟩ o),
          by simp [entryOfLeaf], ?_⟩
        have := hrd _ _ es t.shape (hst ((⟨(i, none), true, true, false, Ts.Chunk.numel t.shape * es⟩, t.bytes), o) (by simp))
          (by simp only; exact hblen.symm)
        simp only at this
        simp [restoreLeafWith, hes, this, hfm]
    · rw [hchunked] at hws
      simp only [Except.ok.injEq] at hws
      subst hws
      -- the units, and what each of them carries
      generalize hU : (ps.map (fun p => ((⟨(i, some p), true, true, false, p.2 * rowBytes t.shape es⟩ : WReq UnitId),
          pieceBytes t.shape es t.bytes p))).zip pls = units at *
      have hfst : units.map (·.1) = ps.map (fun p => ((⟨(i, some p), true, true, false, p.2 * rowBytes t.shape es⟩ : WReq UnitId),
          pieceBytes t.shape es t.bytes p)) := by
        rw [← hU]; exact List.map_fst_zip (by simp [hlen])
      have hunit : ∀ x ∈ units, ∃ p ∈ ps, x.1.1.path.2 = some p ∧ x.1.2 = pieceBytes t.shape es t.bytes p := by
        intro x hx
        have : x.1 ∈ units.map (·.1) := List.mem_map_of_mem hx
        rw [hfst, List.mem_map] at this
        obtain ⟨p, hp, hxp⟩ := this
        exact ⟨p, hp, by rw [← hxp], by rw [← hxp]⟩
      have hpieces : units.map (fun x => x.1.1.path.2.getD (0, 0)) = ps := by
        have : units.map (fun x => x.1.1.path.2.getD (0, 0)) = (units.map (·.1)).map (fun w => w.1.path.2.getD (0, 0)) := by
          rw [List.map_map]; rfl
        rw [this, hfst, List.map_map]
        calc List.map _ ps = List.map id ps := List.map_congr_left (fun p _ => rfl)
          _ = ps := List.map_id ps
      have hune : units ≠ [] := by
        intro h; rw [h] at hpieces; simp at hpieces; exact hne hpieces
      obtain ⟨e, rest, hcons'⟩ := List.exists_cons_of_ne_nil hune
      obtain ⟨p0, _, hp0, _⟩ := hunit e (by rw [hcons']; simp)
      let chunks := units.map (fun x => (x.1.1.path.2.getD (0, 0), unitLoc x.1.1 x.2))
      refine ⟨.chunked t.dtype t.shape chunks, ?_, ?_⟩
      · rw [hcons']; simp only [entryOfLeaf, hp0, chunks, hcons']
      · -- reads of the chunks, in the consumers' completion order
        have hplen : ∀ p ∈ ps, Ts.Chunk.numel (p.2 :: (normShape t.shape).2) * es = (pieceBytes t.shape es t.bytes p).length := by
          intro p hp
          obtain ⟨ps', he2, _, hl2⟩ := Ts.C16.C16_chunk_bytes_concat t.shape es cfg.chunk t.bytes hc hnum hblen
          rw [hps] at he2; cases he2
          rw [hl2 p hp]
          simp [Chunk.nbytes, numel_toChunk, Ts.Chunk.numel]
        have hchunk : ∀ c ∈ order chunks,
            (rd es (c.1.2 :: (normShape t.shape).2) c.2).map (fun b => (pieceRange t.shape es c.1, b))
              = .ok (pieceRange t.shape es c.1, pieceBytes t.shape es t.bytes c.1) := by
          intro c hcm
          have hc2 : c ∈ chunks := (horder chunks).mem_iff.mp hcm
          simp only [chunks, List.mem_map] at hc2
          obtain ⟨x, hx, rfl⟩ := hc2
          obtain ⟨p, hpm, hp, hb⟩ := hunit x hx
          simp only [hp, Option.getD_some]
          have hs := hst x hx
          rw [hb] at hs
          rw [hrd _ _ es (p.2 :: (normShape t.shape).2) hs (hplen p hpm)]; rfl
        have hmap := mapE_ok _ (fun c => (pieceRange t.shape es c.1, pieceBytes t.shape es t.bytes c.1)) (order chunks) hchunk
        have hperm : ((order chunks).map (fun c => (pieceRange t.shape es c.1, pieceBytes t.shape es t.bytes c.1))).Perm
            (pieceMembers t.shape es t.bytes ps) := by
          have h1 := (horder chunks).map (fun c => (pieceRange t.shape es c.1, pieceBytes t.shape es t.bytes c.1))
          refine h1.trans ?_
          have : chunks.map (fun c => (pieceRange t.shape es c.1, pieceBytes t.shape es t.bytes c.1))
              = pieceMembers t.shape es t.bytes ps := by
            simp only [chunks, pieceMembers, List.map_map]
            rw [← hpieces, List.map_map]; rfl
          rw [this]
        have hstg := assemble_chunks t.shape es cfg.chunk t.bytes hc hnum hblen ps hps _ hperm
        simp only [restoreLeafWith, hes, hmap, hstg, hfm]

/-! ## all write requests of a rank -/

theorem pieces_nodup (ps : List (Nat × Nat)) (d : Nat)
    (hc : Consec 0 (ps.map (fun p => (p.1, p.1 + p.2))) d) (hpos : ∀ p ∈ ps, 0 < p.2) : ps.Nodup := by
  have hpw := hc.pairwise
  rw [List.pairwise_map] at hpw
  refine hpw.imp_of_mem ?_
  intro a b ha _ hle heq
  subst heq
  have := hpos a ha
  simp only at hle
  omega

/-- Facts about the write requests of one admissible leaf. -/
theorem leafWrites_facts (cfg : Cfg) (hc : 1 ≤ cfg.chunk) (i : Nat) (l : Leaf) (hl : LeafOk l) :
    ∃ ws, leafWrites cfg i l = .ok ws ∧ (∀ x ∈ ws, x.1.path.1 = i) ∧ (ws.map (·.1.path)).Nodup ∧
      (∀ x ∈ ws, batchable x.1 = true → x.2.length = x.1.size) := by
  cases l with
  | blob p => exact ⟨_, rfl, by simp, by simp, by simp [batchable]⟩
  | tensor t =>
    obtain ⟨hd, hwf⟩ := hl
    obtain ⟨es, _, _, hblen, hcase⟩ := leafWrites_tensor cfg hc i t hd hwf
    rcases hcase with hplain | ⟨ps, hps, _, hcons, hpos2, hnum, hchunked⟩
    · exact ⟨_, hplain, by simp, by simp, by simp [hblen]⟩
    · refine ⟨_, hchunked, ?_, ?_, ?_⟩
      · intro x hx; simp only [List.mem_map] at hx; obtain ⟨p, _, rfl⟩ := hx; rfl
      · rw [List.map_map]
        have hnd := pieces_nodup ps _ hcons hpos2
        simp only [List.Nodup, List.pairwise_map] at hnd ⊢
        refine hnd.imp ?_
        intro a b hab heq
        simp only [Function.comp, Prod.mk.injEq, Option.some.injEq, true_and] at heq
        exact hab heq
      · intro x hx _
        simp only [List.mem_map] at hx
        obtain ⟨p, hp, rfl⟩ := hx
        obtain ⟨ps', he2, _, hlen⟩ := Ts.C16.C16_chunk_bytes_concat t.shape es cfg.chunk t.bytes hc hnum hblen
        rw [hps] at he2; cases he2
        rw [hlen p hp]
        simp [Chunk.nbytes, numel_toChunk, rowBytes, Nat.mul_assoc]

theorem allWrites_cons (l : Leaf) (ws : List (WReq UnitId × Bytes)) (pw : List (Leaf × List (WReq UnitId × Bytes))) :
    allWrites ((l, ws) :: pw) = ws ++ allWrites pw := by
  simp [allWrites]

/-- `prepare_write` over all leaves of a rank never fails on admissible leaves; request paths are pairwise
distinct; batchable requests export exactly as many bytes as the slab batcher reserves for them. -/
theorem perLeaf_spec (cfg : Cfg) (hc : 1 ≤ cfg.chunk) : ∀ (leaves : List Leaf) (i : Nat),
    (∀ l ∈ leaves, LeafOk l) →
    ∃ pw, perLeaf cfg i leaves = .ok pw ∧ pw.map (·.1) = leaves ∧
      (∀ x ∈ allWrites pw, i ≤ x.1.path.1) ∧
      ((allWrites pw).map (·.1.path)).Nodup ∧
      (∀ x ∈ allWrites pw, batchable x.1 = true → x.2.length = x.1.size) ∧
      (∀ e ∈ pw, ∃ j, leafWrites cfg j e.1 = .ok e.2 ∧ LeafOk e.1)
  | [], i, _ => ⟨[], rfl, rfl, by simp [allWrites], by simp [allWrites], by simp [allWrites], by simp⟩
  | l :: ls, i, hok => by
    obtain ⟨ws, hws, hidx, hnd, hsz⟩ := leafWrites_facts cfg hc i l (hok l (by simp))
    obtain ⟨pw, hpw, hmap, hge, hnd', hsz', hall⟩ := perLeaf_spec cfg hc ls (i + 1) (fun x hx => hok x (by simp [hx]))
    refine ⟨(l, ws) :: pw, by simp [perLeaf, hws, hpw], by simp [hmap], ?_, ?_, ?_, ?_⟩
    · intro x hx
      rw [allWrites_cons, List.mem_append] at hx
      rcases hx with h | h
      · rw [hidx x h]; exact Nat.le_refl _
      · have := hge x h; omega
    · rw [allWrites_cons, List.map_append, List.nodup_append]
      refine ⟨hnd, hnd', ?_⟩
      intro a ha b hb heq
      simp only [List.mem_map] at ha hb
      obtain ⟨x, hx, rfl⟩ := ha
      obtain ⟨y, hy, rfl⟩ := hb
      have h1 := hidx x hx
      have h2 := hge y hy
      rw [heq] at h1; omega
    · intro x hx
      rw [allWrites_cons, List.mem_append] at hx
      rcases hx with h | h
      · exact hsz x h
      · exact hsz' x h
    · intro e he
      rcases List.mem_cons.mp he with rfl | h
      · exact ⟨i, hws, hok _ (by simp)⟩
      · exact hall e h

/-- Walking the leaves with their shares of the placement list: every recorded entry restores its leaf. -/
theorem walk_ok (cfg : Cfg) (hc : 1 ≤ cfg.chunk) (store : Loc UnitId → Option Bytes)
    (rd : Nat → List Nat → UnitLoc → Except Err Bytes)
    (hrd : ∀ u bs es shape, UnitStored store u bs → Ts.Chunk.numel shape * es = bs.length → rd es shape u = .ok bs)
    (order : List ((Nat × Nat) × UnitLoc) → List ((Nat × Nat) × UnitLoc)) (horder : ∀ cs, (order cs).Perm cs)
    (wbAll : List (WReq UnitId × Bytes)) (plAll : List (Option Place))
    (hreadAll : ∀ e ∈ wbAll.zip plAll, UnitStored store (unitLoc e.1.1 e.2) e.1.2) :
    ∀ (pw : List (Leaf × List (WReq UnitId × Bytes))) (pre : List (WReq UnitId × Bytes)) (ppre prest : List (Option Place)),
      wbAll = pre ++ allWrites pw → plAll = ppre ++ prest → ppre.length = pre.length →
      prest.length = (allWrites pw).length →
      (∀ e ∈ pw, ∃ j, leafWrites cfg j e.1 = .ok e.2 ∧ LeafOk e.1) →
      ∃ ens, entriesWalk pw prest = .ok ens ∧ mapE (restoreLeafWith store rd order) ens = .ok (pw.map (·.1))
  | [], _, _, _, _, _, _, _, _ => ⟨[], rfl, rfl⟩
  | (l, ws) :: rest, pre, ppre, prest, hwb, hpl, hlen1, hlen2, hall => by
    rw [allWrites_cons] at hwb hlen2
    have hlw : ws.length ≤ prest.length := by rw [hlen2, List.length_append]; omega
    have htake : (prest.take ws.length).length = ws.length := by rw [List.length_take]; omega
    obtain ⟨j, hj, hlok⟩ := hall (l, ws) (by simp)
    -- the leaf's units are members of the global zip
    have hmem : ∀ e ∈ ws.zip (prest.take ws.length), e ∈ wbAll.zip plAll := by
      intro e he
      have hsplit : prest = prest.take ws.length ++ prest.drop ws.length := (List.take_append_drop _ _).symm
      rw [hwb, hpl, hsplit, List.zip_append hlen1.symm, List.zip_append htake.symm]
      simp [he]
    obtain ⟨en, hen, hres⟩ := restoreLeafWith_ok cfg hc store rd hrd order horder j l hlok ws hj (prest.take ws.length) htake
      (fun e he => hreadAll e (hmem e he))
    obtain ⟨ens, hens, hrest⟩ := walk_ok cfg hc store rd hrd order horder wbAll plAll hreadAll rest (pre ++ ws)
      (ppre ++ prest.take ws.length) (prest.drop ws.length)
      (by rw [hwb, List.append_assoc])
      (by rw [hpl, List.append_assoc, List.take_append_drop])
      (by rw [List.length_append, List.length_append, hlen1, htake])
      (by rw [List.length_drop, hlen2, List.length_append]; omega)
      (fun e he => hall e (by simp [he]))
    refine ⟨en :: ens, by simp [entriesWalk, hen, hens], ?_⟩
    simp [mapE, hres, hrest]

end Ts.Snapshot
