import TsProofs.CommitFacts
/-! Termination: every enabled step of the async protocol strictly decreases a natural-number
measure, so no execution has more effective steps than the initial measure. Together with
`aprogress` (no deadlock) every maximal execution ends with all threads finished. -/
namespace Ts.Commit
open Ts.Barrier
set_option linter.unusedSimpArgs false
set_option linter.unusedVariables false

def sumTo (n : Nat) (f : Nat → Nat) : Nat := ((List.range n).map f).sum

theorem sumTo_succ (n : Nat) (f : Nat → Nat) : sumTo (n + 1) f = sumTo n f + f n := by
  simp [sumTo, List.range_succ]

theorem sumTo_congr (n : Nat) (f g : Nat → Nat) (h : ∀ k, k < n → g k = f k) : sumTo n g = sumTo n f := by
  induction n with
  | zero => rfl
  | succ n ih =>
    rw [sumTo_succ, sumTo_succ, ih (fun k hk => h k (by omega)), h n (by omega)]

theorem sumTo_upd_lt (n : Nat) (f g : Nat → Nat) (r : Nat) (hr : r < n) (hlt : g r < f r)
    (hoth : ∀ k, k ≠ r → g k = f k) : sumTo n g < sumTo n f := by
  induction n with
  | zero => omega
  | succ n ih =>
    rw [sumTo_succ, sumTo_succ]
    by_cases hrn : r = n
    · subst hrn
      rw [sumTo_congr r f g (fun k hk => hoth k (by omega))]
      omega
    · have := ih (by omega)
      rw [hoth n (fun e => hrn e.symm)]
      omega

/-- Upper bound on the control steps a thread can still take. -/
def pcRank (n : Nat) : PC → Nat
  | .done _ => 0
  | .fin _ => 1
  | .exc => 2
  | .departGet => 3
  | .arriveErr => 3
  | .depart => 4
  | .mEnd => 5
  | .mBegin => 6
  | .arriveGet k => 7 + (n - k)
  | .arrive => 8 + n
  | .io => 9 + n

def wRank : WSt → Nat
  | .idle => 2
  | .inflight => 1
  | _ => 0

def ameasure (cfg : Cfg) (s : AState) : Nat :=
  sumTo cfg.n (fun r => pcRank cfg.n (s.pc r) + sumTo (cfg.nw r) (fun w => wRank (s.ws r w)))

theorem actl_rank {cfg : Cfg} {s s' : AState} {r : Nat} (hs : actl? cfg s r = some s') :
    s'.ws = s.ws ∧ (∀ k, k ≠ r → s'.pc k = s.pc k) ∧
    pcRank cfg.n (s'.pc r) < pcRank cfg.n (s.pc r) := by
  cases hpc : s.pc r <;> simp only [actl?, hpc] at hs <;> repeat' (split at hs)
  all_goals (first | contradiction | skip)
  all_goals (injection hs with hs; subst hs)
  all_goals (refine ⟨rfl, fun k hk => by simp [upd, hk], ?_⟩)
  all_goals (simp only [upd, if_true, hpc, pcRank])
  all_goals omega

theorem wstep_rank {cfg : Cfg} {ws ws' : Nat → Nat → WSt} {r : Nat} {a : Act} {e : Ev}
    (hs : wstep? cfg ws r a = some (ws', e)) :
    ∃ w, w < cfg.nw r ∧ wRank (ws' r w) < wRank (ws r w) ∧
      ∀ r' w', (r' ≠ r ∨ w' ≠ w) → ws' r' w' = ws r' w' := by
  cases a with
  | ctl => simp [wstep?] at hs
  | wBegin w =>
    simp only [wstep?] at hs
    split at hs
    · rename_i h
      simp only [Option.some.injEq, Prod.mk.injEq] at hs
      obtain ⟨rfl, rfl⟩ := hs
      refine ⟨w, h.1, by simp [upd2, h.2, wRank], ?_⟩
      intro r' w' hne
      simp only [upd2]
      split
      · rename_i hh; omega
      · rfl
    · contradiction
  | wEnd w =>
    simp only [wstep?] at hs
    split at hs
    · rename_i h
      split at hs <;>
      · simp only [Option.some.injEq, Prod.mk.injEq] at hs
        obtain ⟨rfl, rfl⟩ := hs
        refine ⟨w, h.1, by simp [upd2, h.2, wRank], ?_⟩
        intro r' w' hne
        simp only [upd2]
        split
        · rename_i hh; omega
        · rfl
    · contradiction

/-- **Every enabled step strictly decreases the measure.** -/
theorem astep_measure_lt {cfg : Cfg} {s s' : AState} {l : Lbl} (hs : astep? cfg s l = some s') :
    ameasure cfg s' < ameasure cfg s := by
  unfold astep? at hs
  split at hs
  · rename_i hr
    split at hs
    · obtain ⟨hws, hoth, hlt⟩ := actl_rank hs
      apply sumTo_upd_lt cfg.n _ _ l.r hr
      · rw [hws]; omega
      · intro k hk; rw [hws, hoth k hk]
    · split at hs
      · injection hs with hs; subst hs
        rename_i hw
        obtain ⟨w, hwlt, hdec, hoth⟩ := wstep_rank hw
        rename_i ws' e
        apply sumTo_upd_lt cfg.n _ _ l.r hr
        · have := sumTo_upd_lt (cfg.nw l.r) (fun w => wRank (s.ws l.r w)) (fun w' => wRank (ws' l.r w')) w hwlt hdec
            (fun k hk => by show wRank (ws' l.r k) = wRank (s.ws l.r k); rw [hoth l.r k (.inr hk)])
          simp only
          omega
        · intro k hk
          simp only
          rw [sumTo_congr (cfg.nw k) _ _ (fun w' _ => by rw [hoth k w' (.inl hk)])]
      · contradiction
  · contradiction

/-- Number of labels of a schedule that were enabled when their turn came. -/
def effective (cfg : Cfg) : AState → List Lbl → Nat
  | _, [] => 0
  | s, l :: rest =>
    match astep? cfg s l with
    | some s' => 1 + effective cfg s' rest
    | none => effective cfg s rest

/-- **Bounded executions.** Along any schedule, the number of effective steps plus the measure of the
final state is at most the initial measure: no execution takes more than `ameasure` steps. -/
theorem effective_bound (cfg : Cfg) (sched : List Lbl) (s : AState) :
    effective cfg s sched + ameasure cfg (arun cfg s sched) ≤ ameasure cfg s := by
  induction sched generalizing s with
  | nil => simp [effective, arun]
  | cons l rest ih =>
    simp only [effective, arun, List.foldl_cons]
    cases hs : astep? cfg s l with
    | none => exact ih s
    | some s' =>
      have h1 := ih s'
      have h2 := astep_measure_lt hs
      simp only [arun] at h1
      simp only
      omega

theorem sumTo_const (n c : Nat) : sumTo n (fun _ => c) = c * n := by
  induction n with
  | zero => simp [sumTo]
  | succ n ih => rw [sumTo_succ, ih, Nat.mul_succ]

theorem ameasure_init (cfg : Cfg) (st : Store) :
    ameasure cfg (AState.init st) = sumTo cfg.n (fun r => 9 + cfg.n + 2 * cfg.nw r) := by
  unfold ameasure
  apply sumTo_congr
  intro k _
  simp only [AState.init, pcRank, wRank, sumTo_const]

end Ts.Commit
