import TsModel.World
import TsProofs.Snapshot
import TsProofs.Properties.C01
/-! Job-wide composition: W ranks take, replicated units are partitioned, every rank packs what it kept, any
rank restores from the job-wide store. -/
namespace Ts.World
open Ts.Storage (Bytes)
open Ts.Slab Ts.BatchRead Ts.Snapshot

theorem flat_cons (e : (PathId × Leaf) × List (WReq UnitId × Bytes)) (us) : flat (e :: us) = e.2 ++ flat us := by
  simp [flat]

/-- `prepare_write` over a rank's leaves (named by path) succeeds on admissible leaves; unit names are pairwise
distinct when the rank's paths are. -/
theorem rankUnits_spec (cfg : Cfg) (hc : 1 ≤ cfg.chunk) : ∀ (st : RankState),
    (∀ x ∈ st, LeafOk x.2) → (st.map (·.1)).Nodup →
    ∃ us, rankUnits cfg st = .ok us ∧ us.map (·.1) = st ∧
      (∀ e ∈ us, leafWrites cfg e.1.1 e.1.2 = .ok e.2) ∧
      (∀ x ∈ flat us, x.1.path.1 ∈ st.map (·.1)) ∧
      ((flat us).map (·.1.path)).Nodup ∧
      (∀ x ∈ flat us, batchable x.1 = true → x.2.length = x.1.size)
  | [], _, _ => ⟨[], rfl, rfl, by simp, by simp [flat], by simp [flat], by simp [flat]⟩
  | (p, l) :: rest, hok, hnd => by
    obtain ⟨ws, hws, hidx, hnd1, hsz⟩ := leafWrites_facts cfg hc p l (hok (p, l) (by simp))
    rw [List.map_cons, List.nodup_cons] at hnd
    obtain ⟨us, hus, hmap, hlw, hin, hnd2, hsz2⟩ := rankUnits_spec cfg hc rest (fun x hx => hok x (by simp [hx])) hnd.2
    refine ⟨((p, l), ws) :: us, by simp [rankUnits, hws, hus], by simp [hmap], ?_, ?_, ?_, ?_⟩
    · intro e he
      rcases List.mem_cons.mp he with rfl | h
      · exact hws
      · exact hlw e h
    · intro x hx
      rw [flat_cons, List.mem_append] at hx
      rcases hx with h | h
      · simp [hidx x h]
      · have := hin x h
        simp only [List.map_cons, List.mem_cons]
        exact Or.inr this
    · rw [flat_cons, List.map_append, List.nodup_append]
      refine ⟨hnd1, hnd2, ?_⟩
      intro a ha b hb heq
      simp only [List.mem_map] at ha hb
      obtain ⟨x, hx, rfl⟩ := ha
      obtain ⟨y, hy, rfl⟩ := hb
      have h1 := hidx x hx
      have h2 := hin y hy
      rw [heq] at h1
      rw [h1] at h2
      exact hnd.1 h2
    · intro x hx
      rw [flat_cons, List.mem_append] at hx
      rcases hx with h | h
      · exact hsz x h
      · exact hsz2 x h

theorem insertByPath_perm (x : WReq UnitId × Bytes) : ∀ l, (insertByPath x l).Perm (x :: l)
  | [] => List.Perm.refl _
  | y :: l => by
    unfold insertByPath
    split
    · exact List.Perm.refl _
    · exact ((insertByPath_perm x l).cons y).trans (List.Perm.swap x y l)

theorem sortByPath_perm : ∀ l, (sortByPath l).Perm l
  | [] => List.Perm.refl _
  | x :: l => (insertByPath_perm x (sortByPath l)).trans ((sortByPath_perm l).cons x)

/-- membership in what a rank keeps -/
theorem mem_kept (j : Job) (r : Nat) (all : List (WReq UnitId × Bytes)) (x : WReq UnitId × Bytes) :
    x ∈ kept j r all ↔ x ∈ all ∧ (if j.rep x.1.path.1 then j.owner x.1.path = r else True) := by
  unfold kept repKept privKept
  rw [List.mem_append, (sortByPath_perm _).mem_iff, List.mem_filter, List.mem_filter]
  by_cases hr : j.rep x.1.path.1 = true
  · simp [hr]
  · simp [hr]

theorem kept_nodup (j : Job) (r : Nat) (all : List (WReq UnitId × Bytes)) (hnd : (all.map (·.1.path)).Nodup) :
    ((kept j r all).map (·.1.path)).Nodup := by
  unfold kept
  rw [List.map_append, List.nodup_append]
  have hsub1 : ((repKept j r all).map (·.1.path)).Perm
      ((all.filter (fun x => j.rep x.1.path.1 && j.owner x.1.path == r)).map (·.1.path)) :=
    (sortByPath_perm _).map _
  have hnf1 : ((all.filter (fun x => j.rep x.1.path.1 && j.owner x.1.path == r)).map (·.1.path)).Nodup :=
    hnd.sublist ((List.filter_sublist).map _)
  refine ⟨hsub1.nodup_iff.mpr hnf1, hnd.sublist ((List.filter_sublist).map _), ?_⟩
  intro a ha b hb heq
  simp only [List.mem_map] at ha hb
  obtain ⟨x, hx, rfl⟩ := ha
  obtain ⟨y, hy, rfl⟩ := hb
  unfold repKept at hx
  unfold privKept at hy
  rw [(sortByPath_perm _).mem_iff, List.mem_filter] at hx
  rw [List.mem_filter] at hy
  have h1 : j.rep x.1.path.1 = true := by
    have := hx.2; simp only [Bool.and_eq_true] at this; exact this.1
  have h2 : j.rep y.1.path.1 = false := by
    have := hy.2; simpa using this
  rw [heq, h2] at h1
  cases h1

/-- looking a kept unit up by name finds it -/
theorem find_by_name (l : List ((WReq UnitId × Bytes) × Option Place))
    (hpw : l.Pairwise (fun a b => a.1.1.path ≠ b.1.1.path))
    (e : (WReq UnitId × Bytes) × Option Place) (he : e ∈ l) :
    l.find? (fun x => x.1.1.path == e.1.1.path) = some e := by
  induction l with
  | nil => cases he
  | cons x xs ih =>
    rw [List.pairwise_cons] at hpw
    rcases List.mem_cons.mp he with rfl | hm
    · simp
    · have hne : x.1.1.path ≠ e.1.1.path := hpw.1 e hm
      rw [List.find?_cons]
      have : (x.1.1.path == e.1.1.path) = false := by simpa using hne
      rw [this]
      exact ih hpw.2 hm

theorem zip_pairwise_of_nodup (k : List (WReq UnitId × Bytes)) (pl : List (Option Place))
    (hnd : (k.map (·.1.path)).Nodup) : (k.zip pl).Pairwise (fun a b => a.1.1.path ≠ b.1.1.path) := by
  induction k generalizing pl with
  | nil => simp
  | cons x xs ih =>
    cases pl with
    | nil => simp
    | cons o os =>
      rw [List.map_cons, List.nodup_cons] at hnd
      rw [List.zip_cons_cons, List.pairwise_cons]
      refine ⟨?_, ih os hnd.2⟩
      intro b hb heq
      have hb1 := (List.of_mem_zip hb).1
      exact hnd.1 (by rw [heq]; exact List.mem_map_of_mem (f := fun y : WReq UnitId × Bytes => y.1.path) hb1)

/-- Every unit a rank kept is recorded at a location of the job-wide store that holds the unit's bytes. -/
theorem kept_unit_stored (j : Job) (hs : 1 ≤ j.cfg.slab) (q : Nat) (k : List (WReq UnitId × Bytes))
    (hk : keptOf j q = .ok k) (hnd : (k.map (·.1.path)).Nodup)
    (hsz : ∀ x ∈ k, batchable x.1 = true → x.2.length = x.1.size)
    (x : WReq UnitId × Bytes) (hx : x ∈ k) :
    ∃ lr, locIn j.cfg k x.1.path = some lr ∧ UnitStored (wstore j) ((q, lr.1), lr.2) x.2 := by
  have hlen : (placements j.cfg k).length = k.length := placements_length j.cfg k
  -- the placement the rank's batcher gave to `x`
  obtain ⟨i, hi, hxi⟩ := List.getElem_of_mem hx
  have hi2 : i < (placements j.cfg k).length := by rw [hlen]; exact hi
  have hmem : (x, (placements j.cfg k)[i]) ∈ k.zip (placements j.cfg k) := by
    rw [← hxi]
    have : (k.zip (placements j.cfg k))[i]'(by rw [List.length_zip]; omega) = (k[i], (placements j.cfg k)[i]) :=
      List.getElem_zip
    rw [← this]
    exact List.getElem_mem _
  have hfind := find_by_name _ (zip_pairwise_of_nodup k (placements j.cfg k) hnd) _ hmem
  have hst := storedAll j.cfg hs k hnd hsz _ hmem
  refine ⟨unitLoc x.1 (placements j.cfg k)[i], ?_, ?_⟩
  · unfold locIn
    simp only at hfind
    rw [hfind]; rfl
  · obtain ⟨f, hf, hm⟩ := hst
    refine ⟨f, ?_, hm⟩
    simp only [wstore, hk]
    exact hf

/-- what the ranks of a well-formed job keep -/
theorem keptOf_spec (j : Job) (hc : 1 ≤ j.cfg.chunk) (hok : ∀ st ∈ j.states, ∀ x ∈ st, LeafOk x.2)
    (hnd : ∀ st ∈ j.states, (st.map (·.1)).Nodup) (q : Nat) (st : RankState) (hq : j.states[q]? = some st) :
    ∃ us, rankUnits j.cfg st = .ok us ∧ keptOf j q = .ok (kept j q (flat us)) ∧
      (∀ e ∈ us, leafWrites j.cfg e.1.1 e.1.2 = .ok e.2) ∧ us.map (·.1) = st ∧
      ((kept j q (flat us)).map (·.1.path)).Nodup ∧
      (∀ x ∈ kept j q (flat us), batchable x.1 = true → x.2.length = x.1.size) := by
  have hmem : st ∈ j.states := List.mem_of_getElem? hq
  obtain ⟨us, hus, hmap, hlw, _, hnd2, hsz⟩ := rankUnits_spec j.cfg hc st (hok st hmem) (hnd st hmem)
  refine ⟨us, hus, by simp [keptOf, hq, hus, Except.map], hlw, hmap, kept_nodup j q _ hnd2, ?_⟩
  intro x hx
  exact hsz x ((mem_kept j q _ x).mp hx).1

/-- a leaf's write units are among the rank's units -/
theorem units_mem_flat (us : List ((PathId × Leaf) × List (WReq UnitId × Bytes))) (p : PathId) (l : Leaf)
    (ws : List (WReq UnitId × Bytes)) (he : ((p, l), ws) ∈ us) (x : WReq UnitId × Bytes) (hx : x ∈ ws) : x ∈ flat us := by
  unfold flat
  rw [List.mem_flatten]
  exact ⟨ws, List.mem_map_of_mem (f := fun e : (PathId × Leaf) × List (WReq UnitId × Bytes) => e.2) he, hx⟩

theorem mem_units_of_mem_state (cfg : Cfg) (st : RankState) (us : List ((PathId × Leaf) × List (WReq UnitId × Bytes)))
    (hmap : us.map (·.1) = st) (hlw : ∀ e ∈ us, leafWrites cfg e.1.1 e.1.2 = .ok e.2)
    (p : PathId) (l : Leaf) (hpl : (p, l) ∈ st) (ws : List (WReq UnitId × Bytes)) (hws : leafWrites cfg p l = .ok ws) :
    ((p, l), ws) ∈ us := by
  rw [← hmap, List.mem_map] at hpl
  obtain ⟨e, he, heq⟩ := hpl
  have h := hlw e he
  obtain ⟨⟨p', l'⟩, ws'⟩ := e
  simp only at heq h
  cases heq
  rw [hws] at h
  cases h
  exact he

/-- A well-formed job: every rank's leaves are admissible and its paths distinct; a replicated path is on every
rank with the same value; the partition sends every unit to an existing rank. -/
structure Job.WF (j : Job) : Prop where
  chunk : 1 ≤ j.cfg.chunk
  slab : 1 ≤ j.cfg.slab
  leaves : ∀ st ∈ j.states, ∀ x ∈ st, LeafOk x.2
  paths : ∀ st ∈ j.states, (st.map (·.1)).Nodup
  repAll : ∀ p, j.rep p = true → ∀ st ∈ j.states, ∃ l, (p, l) ∈ st
  repSame : ∀ p, j.rep p = true → ∀ st₁ ∈ j.states, ∀ st₂ ∈ j.states, ∀ l₁ l₂, (p, l₁) ∈ st₁ → (p, l₂) ∈ st₂ → l₁ = l₂
  owner : ∀ u, j.owner u < j.states.length

/-- Every write unit of every leaf of every rank is recorded, in the committed manifest, at a location of the
job-wide store that holds exactly the bytes the unit's stager exported — whichever rank wrote it. -/
theorem unit_recorded (j : Job) (wf : j.WF) (r : Nat) (st : RankState) (hr : j.states[r]? = some st)
    (p : PathId) (l : Leaf) (hpl : (p, l) ∈ st) (ws : List (WReq UnitId × Bytes)) (hws : leafWrites j.cfg p l = .ok ws)
    (x : WReq UnitId × Bytes) (hx : x ∈ ws) :
    ∃ u, unitWLoc j r x.1.path = .ok u ∧ UnitStored (wstore j) u x.2 := by
  have hst : st ∈ j.states := List.mem_of_getElem? hr
  obtain ⟨_, _, hidx, _, _⟩ := leafWrites_facts j.cfg wf.chunk p l (wf.leaves st hst (p, l) hpl)
  have hxp : x.1.path.1 = p := by
    obtain ⟨ws', hws', hidx', _⟩ := leafWrites_facts j.cfg wf.chunk p l (wf.leaves st hst (p, l) hpl)
    rw [hws] at hws'; cases hws'
    exact hidx' x hx
  -- the writer and its state
  have hq : ∃ stq, j.states[writerOf j r x.1.path]? = some stq ∧ (p, l) ∈ stq ∧
      (if j.rep x.1.path.1 then j.owner x.1.path = writerOf j r x.1.path else True) := by
    unfold writerOf
    by_cases hrep : j.rep x.1.path.1 = true
    · simp only [hrep, if_true]
      have hlt := wf.owner x.1.path
      refine ⟨j.states[j.owner x.1.path], by simp [hlt], ?_, trivial⟩
      have hmem : j.states[j.owner x.1.path] ∈ j.states := List.getElem_mem _
      rw [hxp] at hrep
      obtain ⟨l', hl'⟩ := wf.repAll p hrep _ hmem
      have := wf.repSame p hrep st hst _ hmem l l' hpl hl'
      rw [this]; exact hl'
    · simp only [hrep]
      exact ⟨st, hr, hpl, by simp⟩
  obtain ⟨stq, hstq, hplq, hown⟩ := hq
  obtain ⟨us, _, hk, hlw, hmap, hnd, hsz⟩ := keptOf_spec j wf.chunk wf.leaves wf.paths _ stq hstq
  have hxk : x ∈ kept j (writerOf j r x.1.path) (flat us) := by
    rw [mem_kept]
    exact ⟨units_mem_flat us p l ws (mem_units_of_mem_state j.cfg stq us hmap hlw p l hplq ws hws) x hx, hown⟩
  obtain ⟨lr, hloc, hstored⟩ := kept_unit_stored j wf.slab _ _ hk hnd hsz x hxk
  refine ⟨((writerOf j r x.1.path, lr.1), lr.2), ?_, hstored⟩
  simp [unitWLoc, hk, hloc]

theorem mapE_ok_of (f : (WReq UnitId × Bytes) → Except Ts.Snapshot.Err (ULoc WLoc)) (ws : List (WReq UnitId × Bytes))
    (P : (WReq UnitId × Bytes) → ULoc WLoc → Prop)
    (h : ∀ x ∈ ws, ∃ u, f x = .ok u ∧ P x u) :
    ∃ locs, mapE f ws = .ok locs ∧ locs.length = ws.length ∧ ∀ e ∈ ws.zip locs, P e.1 e.2 := by
  induction ws with
  | nil => exact ⟨[], rfl, rfl, by simp⟩
  | cons x xs ih =>
    obtain ⟨u, hu, hp⟩ := h x (by simp)
    obtain ⟨locs, hl, hlen, hall⟩ := ih (fun y hy => h y (by simp [hy]))
    refine ⟨u :: locs, by simp [mapE, hu, hl], by simp [hlen], ?_⟩
    intro e he
    rw [List.zip_cons_cons, List.mem_cons] at he
    rcases he with rfl | he
    · exact hp
    · exact hall e he

/-- **Job-wide round trip.** In a well-formed job, for every rank `r` and every leaf of its state, the entry the
committed manifest holds for that leaf restores — from the job-wide store, with any admissible unit reader (one
ranged read, or tiled reads under any budget) and any completion order of chunk consumers — exactly the leaf. -/
theorem world_roundtrip (j : Job) (wf : j.WF)
    (rd : Nat → List Nat → ULoc WLoc → Except Ts.Snapshot.Err Bytes)
    (hrd : ∀ u bs es shape, UnitStored (wstore j) u bs → Ts.Chunk.numel shape * es = bs.length → rd es shape u = .ok bs)
    (order : List ((Nat × Nat) × ULoc WLoc) → List ((Nat × Nat) × ULoc WLoc)) (horder : ∀ cs, (order cs).Perm cs)
    (r : Nat) (st : RankState) (hr : j.states[r]? = some st) (p : PathId) (l : Leaf) (hpl : (p, l) ∈ st) :
    ∃ en, worldEntry j r p l = .ok en ∧ restoreLeafWith (wstore j) rd order en = .ok l := by
  have hst : st ∈ j.states := List.mem_of_getElem? hr
  have hl := wf.leaves st hst (p, l) hpl
  obtain ⟨ws, hws, _, _, _⟩ := leafWrites_facts j.cfg wf.chunk p l hl
  obtain ⟨locs, hlocs, hlen, hall⟩ := mapE_ok_of (fun x => unitWLoc j r x.1.path) ws
    (fun x u => UnitStored (wstore j) u x.2)
    (fun x hx => unit_recorded j wf r st hr p l hpl ws hws x hx)
  obtain ⟨en, hen, hres⟩ := restoreLeafG_ok j.cfg wf.chunk (wstore j) rd hrd order horder p l hl ws hws locs hlen hall
  exact ⟨en, by simp [worldEntry, hws, hlocs, hen], hres⟩

/-- the same with an explicit restore target on the restoring rank (in place / allocate / mismatching target) -/
theorem world_roundtrip_into (j : Job) (wf : j.WF)
    (rd : Nat → List Nat → ULoc WLoc → Except Ts.Snapshot.Err Bytes)
    (hrd : ∀ u bs es shape, UnitStored (wstore j) u bs → Ts.Chunk.numel shape * es = bs.length → rd es shape u = .ok bs)
    (order : List ((Nat × Nat) × ULoc WLoc) → List ((Nat × Nat) × ULoc WLoc)) (horder : ∀ cs, (order cs).Perm cs)
    (r : Nat) (st : RankState) (hr : j.states[r]? = some st) (p : PathId) (l : Leaf) (hpl : (p, l) ∈ st)
    (dst : Option Ts.Serial.Tensor) (hdst : ∀ t, dst = some t → t.WF) :
    ∃ en, worldEntry j r p l = .ok en ∧ restoreLeafInto (wstore j) rd order dst en = .ok l := by
  have hst : st ∈ j.states := List.mem_of_getElem? hr
  have hl := wf.leaves st hst (p, l) hpl
  obtain ⟨ws, hws, _, _, _⟩ := leafWrites_facts j.cfg wf.chunk p l hl
  obtain ⟨locs, hlocs, hlen, hall⟩ := mapE_ok_of (fun x => unitWLoc j r x.1.path) ws
    (fun x u => UnitStored (wstore j) u x.2)
    (fun x hx => unit_recorded j wf r st hr p l hpl ws hws x hx)
  obtain ⟨en, hen, hres⟩ := restoreLeafInto_ok j.cfg wf.chunk (wstore j) rd hrd order horder p l hl ws hws locs hlen hall dst hdst
  exact ⟨en, by simp [worldEntry, hws, hlocs, hen], hres⟩

/-- The entry of a replicated leaf does not depend on the rank whose manifest it is read from: it is the one
consolidated entry every restoring rank — including ranks beyond the saving world size — is given (C07). -/
theorem worldEntry_rep_indep (j : Job) (p : PathId) (l : Leaf) (hrep : j.rep p = true) (hc : 1 ≤ j.cfg.chunk)
    (hl : LeafOk l) (r r' : Nat) : worldEntry j r p l = worldEntry j r' p l := by
  obtain ⟨ws, hws, hidx, hnd', hsz'⟩ := leafWrites_facts j.cfg hc p l hl
  clear hnd' hsz'
  have : ∀ x ∈ ws, unitWLoc j r x.1.path = unitWLoc j r' x.1.path := by
    intro x hx
    have hp := hidx x hx
    simp [unitWLoc, writerOf, hp, hrep]
  have hm : mapE (fun x : WReq UnitId × Bytes => unitWLoc j r x.1.path) ws
      = mapE (fun x : WReq UnitId × Bytes => unitWLoc j r' x.1.path) ws := by
    clear hws hidx
    induction ws with
    | nil => rfl
    | cons x xs ih =>
      simp only [mapE]
      rw [this x (by simp), ih (fun y hy => this y (by simp [hy]))]
  simp only [worldEntry, hws, hm]

end Ts.World

/-! ## replicated bytes are written once by the whole job -/
namespace Ts.World
open Ts.Storage (Bytes)
open Ts.Slab Ts.BatchRead Ts.Snapshot

theorem sum_map_add {α : Type} (l : List α) (u v : α → Nat) :
    (l.map (fun r => u r + v r)).sum = (l.map u).sum + (l.map v).sum := by
  induction l with
  | nil => rfl
  | cons a l ih => simp only [List.map_cons, List.sum_cons, ih]; omega

theorem sum_indicator (W a c : Nat) :
    ((List.range W).map (fun r => if a = r then c else 0)).sum = if a < W then c else 0 := by
  induction W with
  | zero => simp
  | succ n ih =>
    rw [List.range_succ, List.map_append, List.sum_append, ih]
    simp only [List.map_cons, List.map_nil, List.sum_cons, List.sum_nil, Nat.add_zero]
    by_cases h1 : a < n
    · have : a ≠ n := by omega
      have h2 : a < n + 1 := by omega
      simp [h1, this, h2]
    · by_cases h3 : a = n
      · subst h3; simp
      · have h4 : ¬ a < n + 1 := by omega
        simp [h1, h3, h4]

/-- splitting a list by an owner function with values below `W` and summing the parts gives the whole sum -/
theorem sum_partition {α : Type} (l : List α) (g f : α → Nat) (W : Nat) (hg : ∀ x ∈ l, g x < W) :
    ((List.range W).map (fun r => ((l.filter (fun x => g x == r)).map f).sum)).sum = (l.map f).sum := by
  induction l with
  | nil =>
    simp only [List.filter_nil, List.map_nil, List.sum_nil]
    rw [List.sum_eq_zero_iff_forall_eq_nat]
    intro x hx
    rw [List.mem_map] at hx
    obtain ⟨_, _, rfl⟩ := hx
    rfl
  | cons x l ih =>
    have hx := hg x (by simp)
    have hrest := ih (fun y hy => hg y (by simp [hy]))
    have hfun : (fun r => (((x :: l).filter (fun y => g y == r)).map f).sum)
        = (fun r => (if g x = r then f x else 0) + ((l.filter (fun y => g y == r)).map f).sum) := by
      funext r
      by_cases h : g x = r
      · simp [List.filter_cons, h]
      · have : (g x == r) = false := by simpa using h
        simp [List.filter_cons, h]
    rw [hfun, sum_map_add, sum_indicator, hrest]
    simp [hx]

theorem nodup_of_map_nodup {α β : Type} (f : α → β) (l : List α) (h : (l.map f).Nodup) : l.Nodup := by
  unfold List.Nodup at h ⊢
  rw [List.pairwise_map] at h
  exact h.imp (fun hne heq => hne (congrArg f heq))

theorem mem_flat_iff (us : List ((PathId × Leaf) × List (WReq UnitId × Bytes))) (x : WReq UnitId × Bytes) :
    x ∈ flat us ↔ ∃ e ∈ us, x ∈ e.2 := by
  unfold flat
  rw [List.mem_flatten]
  constructor
  · rintro ⟨ws, hws, hx⟩
    rw [List.mem_map] at hws
    obtain ⟨e, he, rfl⟩ := hws
    exact ⟨e, he, hx⟩
  · rintro ⟨e, he, hx⟩
    exact ⟨e.2, List.mem_map_of_mem (f := fun e : (PathId × Leaf) × List (WReq UnitId × Bytes) => e.2) he, hx⟩

/-- the replicated share of what rank `r` keeps, as a multiset: the replicated units the partition gave it -/
theorem kept_rep_perm (j : Job) (r : Nat) (all : List (WReq UnitId × Bytes)) :
    ((kept j r all).filter (fun x => j.rep x.1.path.1)).Perm
      ((all.filter (fun x => j.rep x.1.path.1)).filter (fun x => j.owner x.1.path == r)) := by
  unfold kept repKept privKept
  rw [List.filter_append]
  have h2 : (all.filter (fun x => !j.rep x.1.path.1)).filter (fun x => j.rep x.1.path.1) = [] := by
    rw [List.filter_filter, List.filter_eq_nil_iff]
    intro a _
    cases j.rep a.1.path.1 <;> simp
  rw [h2, List.append_nil]
  have h1 := (sortByPath_perm (all.filter (fun x => j.rep x.1.path.1 && j.owner x.1.path == r))).filter
    (fun x => j.rep x.1.path.1)
  refine h1.trans ?_
  rw [List.filter_filter, List.filter_filter]
  apply List.Perm.of_eq
  apply List.filter_congr
  intro a _
  cases j.rep a.1.path.1 <;> cases (j.owner a.1.path == r) <;> rfl

/-- every rank prepares the same replicated units (as a set) -/
theorem rep_units_same (j : Job) (wf : j.WF) (r : Nat) (st st0 : RankState)
    (hr : j.states[r]? = some st) (h0 : j.states[0]? = some st0)
    (us us0 : List ((PathId × Leaf) × List (WReq UnitId × Bytes)))
    (hus : rankUnits j.cfg st = .ok us) (hus0 : rankUnits j.cfg st0 = .ok us0) :
    ((flat us).filter (fun x => j.rep x.1.path.1)).Perm ((flat us0).filter (fun x => j.rep x.1.path.1)) := by
  have hst : st ∈ j.states := List.mem_of_getElem? hr
  have hst0 : st0 ∈ j.states := List.mem_of_getElem? h0
  obtain ⟨us', hus', hmap, hlw, _, hnd, _⟩ := rankUnits_spec j.cfg wf.chunk st (wf.leaves st hst) (wf.paths st hst)
  rw [hus] at hus'; cases hus'
  obtain ⟨us0', hus0', hmap0, hlw0, _, hnd0, _⟩ := rankUnits_spec j.cfg wf.chunk st0 (wf.leaves st0 hst0) (wf.paths st0 hst0)
  rw [hus0] at hus0'; cases hus0'
  -- one direction of the membership, for any two ranks
  have key : ∀ (sa sb : RankState) (ua ub : List ((PathId × Leaf) × List (WReq UnitId × Bytes))),
      sa ∈ j.states → sb ∈ j.states → ua.map (·.1) = sa → ub.map (·.1) = sb →
      (∀ e ∈ ua, leafWrites j.cfg e.1.1 e.1.2 = .ok e.2) → (∀ e ∈ ub, leafWrites j.cfg e.1.1 e.1.2 = .ok e.2) →
      ∀ x, x ∈ flat ua → j.rep x.1.path.1 = true → x ∈ flat ub := by
    intro sa sb ua ub hsa hsb hma hmb hla hlb x hx hrep
    rw [mem_flat_iff] at hx
    obtain ⟨e, he, hxe⟩ := hx
    have hpl : e.1 ∈ sa := by rw [← hma]; exact List.mem_map_of_mem (f := fun e : (PathId × Leaf) × List (WReq UnitId × Bytes) => e.1) he
    have hle := hla e he
    obtain ⟨ws', hws', hidx, _, _⟩ := leafWrites_facts j.cfg wf.chunk e.1.1 e.1.2 (wf.leaves sa hsa e.1 hpl)
    rw [hle] at hws'; cases hws'
    have hp : x.1.path.1 = e.1.1 := hidx x hxe
    rw [hp] at hrep
    obtain ⟨l', hl'⟩ := wf.repAll e.1.1 hrep sb hsb
    have hsame := wf.repSame e.1.1 hrep sa hsa sb hsb e.1.2 l' hpl hl'
    have hmem := mem_units_of_mem_state j.cfg sb ub hmb hlb e.1.1 l' hl' e.2 (by rw [← hsame]; exact hle)
    exact units_mem_flat ub e.1.1 l' e.2 hmem x hxe
  have nd1 : ((flat us).filter (fun x => j.rep x.1.path.1)).Nodup :=
    (nodup_of_map_nodup _ _ hnd).sublist List.filter_sublist
  have nd2 : ((flat us0).filter (fun x => j.rep x.1.path.1)).Nodup :=
    (nodup_of_map_nodup _ _ hnd0).sublist List.filter_sublist
  rw [List.perm_ext_iff_of_nodup nd1 nd2]
  intro x
  simp only [List.mem_filter]
  constructor
  · rintro ⟨hx, hrep⟩
    exact ⟨key st st0 us us0 hst hst0 hmap hmap0 hlw hlw0 x hx hrep, hrep⟩
  · rintro ⟨hx, hrep⟩
    exact ⟨key st0 st us0 us hst0 hst hmap0 hmap hlw0 hlw x hx hrep, hrep⟩

/-- replicated payload bytes written by rank `r` -/
def repBytesOfRank (j : Job) (r : Nat) : Nat :=
  match keptOf j r with
  | .ok k => ((k.filter (fun x => j.rep x.1.path.1)).map (fun x => x.2.length)).sum
  | .error _ => 0

/-- **Replicated bytes are written once.** Summed over all ranks of a well-formed job, the replicated payload bytes
written equal the bytes of one copy of the replicated units (those of rank 0's state) — not world-size times it —
whatever the partition. -/
theorem world_replicated_bytes_once (j : Job) (wf : j.WF) (st0 : RankState) (h0 : j.states[0]? = some st0)
    (us0 : List ((PathId × Leaf) × List (WReq UnitId × Bytes))) (hus0 : rankUnits j.cfg st0 = .ok us0) :
    ((List.range j.states.length).map (repBytesOfRank j)).sum
      = (((flat us0).filter (fun x => j.rep x.1.path.1)).map (fun x => x.2.length)).sum := by
  have hper : ∀ r ∈ List.range j.states.length, repBytesOfRank j r
      = ((((flat us0).filter (fun x => j.rep x.1.path.1)).filter (fun x => j.owner x.1.path == r)).map (fun x => x.2.length)).sum := by
    intro r hr
    rw [List.mem_range] at hr
    have hst : j.states[r]? = some j.states[r] := by simp [hr]
    obtain ⟨us, hus, hk, _, _, _, _⟩ := keptOf_spec j wf.chunk wf.leaves wf.paths r _ hst
    unfold repBytesOfRank
    rw [hk]
    simp only
    apply List.Perm.sum_nat
    apply List.Perm.map
    refine (kept_rep_perm j r (flat us)).trans ?_
    exact (rep_units_same j wf r _ st0 hst h0 us us0 hus hus0).filter _
  have hmap : (List.range j.states.length).map (repBytesOfRank j)
      = (List.range j.states.length).map (fun r =>
          ((((flat us0).filter (fun x => j.rep x.1.path.1)).filter (fun x => j.owner x.1.path == r)).map (fun x => x.2.length)).sum) :=
    List.map_congr_left hper
  rw [hmap]
  exact sum_partition _ (fun x : WReq UnitId × Bytes => j.owner x.1.path) (fun x : WReq UnitId × Bytes => x.2.length) _ (fun x _ => wf.owner x.1.path)

end Ts.World

/-! ## the one-rank model is the `L = Loc UnitId` instance of the generic entry constructor -/
namespace Ts.Snapshot
open Ts.Slab

theorem entryOfLeaf_eq_entryOfUnits (l : Leaf) (xs : List ((WReq UnitId × Ts.Storage.Bytes) × Option Place)) :
    entryOfLeaf l xs = entryOfUnits l (xs.map (fun e => (e.1, unitLoc e.1.1 e.2))) := by
  cases l with
  | blob p =>
    match xs with
    | [] => rfl
    | [e] => rfl
    | _ :: _ :: _ => rfl
  | tensor t =>
    match xs with
    | [] => rfl
    | e :: es =>
      simp only [entryOfLeaf, entryOfUnits, List.map_cons]
      cases h : e.1.1.path.2 with
      | none =>
        cases es with
        | nil => simp
        | cons _ _ => simp
      | some p => simp [List.map_map, Function.comp]

end Ts.Snapshot
