import TsModel.World
import TsProofs.Snapshot
import TsProofs.Properties.C01
/-! Job-wide composition: W ranks take, replicated units are partitioned, every rank packs what it kept, any
rank restores from the job-wide store. -/
namespace Ts.World
open Ts.Storage (Bytes)
open Ts.Slab Ts.BatchRead Ts.Snapshot

theorem flat_cons (e : (PathId × Leaf) × List (WReq UnitId × Bytes)) (us) : flat (e :: us) = e.2 ++ flat us := by
  simp [flat]

/-- `prepare_write` over a rank's leaves (named by path) succeeds on admissible leaves; unit names are pairwise
distinct when the rank's paths are. -/
theorem rankUnits_spec (cfg : Cfg) (hc : 1 ≤ cfg.chunk) : ∀ (st : RankState),
    (∀ x ∈ st, LeafOk x.2) → (st.map (·.1)).Nodup →
    ∃ us, rankUnits cfg st = .ok us ∧ us.map (·.1) = st ∧
      (∀ e ∈ us, leafWrites cfg e.1.1 e.1.2 = .ok e.2) ∧
      (∀ x ∈ flat us, x.1.path.1 ∈ st.map (·.1)) ∧
      ((flat us).map (·.1.path)).Nodup ∧
      (∀ x ∈ flat us, batchable x.1 = true → x.2.length = x.1.size)
  | [], _, _ => ⟨[], rfl, rfl, by simp, by simp [flat], by simp [flat], by simp [flat]⟩
  | (p, l) :: rest, hok, hnd => by
    obtain ⟨ws, hws, hidx, hnd1, hsz⟩ := leafWrites_facts cfg hc p l (hok (p, l) (by simp))
    rw [List.map_cons, List.nodup_cons] at hnd
    obtain ⟨us, hus, hmap, hlw, hin, hnd2, hsz2⟩ := rankUnits_spec cfg hc rest (fun x hx => hok x (by simp [hx])) hnd.2
    refine ⟨((p, l), ws) :: us, by simp [rankUnits, hws, hus], by simp [hmap], ?_, ?_, ?_, ?_⟩
    · intro e he
      rcases List.mem_cons.mp he with rfl | h
      · exact hws
      · exact hlw e h
    · intro x hx
      rw [flat_cons, List.mem_append] at hx
      rcases hx with h | h
      · simp [hidx x h]
      · have := hin x h
        simp only [List.map_cons, List.mem_cons]
        exact Or.inr this
    · rw [flat_cons, List.map_append, List.nodup_append]
      refine ⟨hnd1, hnd2, ?_⟩
      intro a ha b hb heq
      simp only [List.mem_map] at ha hb
      obtain ⟨x, hx, rfl⟩ := ha
      obtain ⟨y, hy, rfl⟩ := hb
      have h1 := hidx x hx
      have h2 := hin y hy
      rw [heq] at h1
      rw [h1] at h2
      exact hnd.1 h2
    · intro x hx
      rw [flat_cons, List.mem_append] at hx
      rcases hx with h | h
      · exact hsz x h
      · exact hsz2 x h

/-- membership in what a rank keeps -/
theorem mem_kept (j : Job) (r : Nat) (all : List (WReq UnitId × Bytes)) (x : WReq UnitId × Bytes) :
    x ∈ kept j r all ↔ x ∈ all ∧ (if j.rep x.1.path.1 then j.owner x.1.path = r else True) := by
  unfold kept repKept privKept
  rw [List.mem_append, List.mem_mergeSort, List.mem_filter, List.mem_filter]
  by_cases hr : j.rep x.1.path.1 = true
  · simp [hr]
  · simp [hr]

theorem kept_nodup (j : Job) (r : Nat) (all : List (WReq UnitId × Bytes)) (hnd : (all.map (·.1.path)).Nodup) :
    ((kept j r all).map (·.1.path)).Nodup := by
  unfold kept
  rw [List.map_append, List.nodup_append]
  have hsub1 : ((repKept j r all).map (·.1.path)).Perm
      ((all.filter (fun x => j.rep x.1.path.1 && j.owner x.1.path == r)).map (·.1.path)) :=
    (List.mergeSort_perm _ _).map _
  have hnf1 : ((all.filter (fun x => j.rep x.1.path.1 && j.owner x.1.path == r)).map (·.1.path)).Nodup :=
    hnd.sublist ((List.filter_sublist).map _)
  refine ⟨hsub1.nodup_iff.mpr hnf1, hnd.sublist ((List.filter_sublist).map _), ?_⟩
  intro a ha b hb heq
  simp only [List.mem_map] at ha hb
  obtain ⟨x, hx, rfl⟩ := ha
  obtain ⟨y, hy, rfl⟩ := hb
  unfold repKept at hx
  unfold privKept at hy
  rw [List.mem_mergeSort, List.mem_filter] at hx
  rw [List.mem_filter] at hy
  have h1 : j.rep x.1.path.1 = true := by
    have := hx.2; simp only [Bool.and_eq_true] at this; exact this.1
  have h2 : j.rep y.1.path.1 = false := by
    have := hy.2; simpa using this
  rw [heq, h2] at h1
  cases h1

/-- looking a kept unit up by name finds it -/
theorem find_by_name (l : List ((WReq UnitId × Bytes) × Option Place))
    (hpw : l.Pairwise (fun a b => a.1.1.path ≠ b.1.1.path))
    (e : (WReq UnitId × Bytes) × Option Place) (he : e ∈ l) :
    l.find? (fun x => x.1.1.path == e.1.1.path) = some e := by
  induction l with
  | nil => cases he
  | cons x xs ih =>
    rw [List.pairwise_cons] at hpw
    rcases List.mem_cons.mp he with rfl | hm
    · simp
    · have hne : x.1.1.path ≠ e.1.1.path := hpw.1 e hm
      rw [List.find?_cons]
      have : (x.1.1.path == e.1.1.path) = false := by simpa using hne
      rw [this]
      exact ih hpw.2 hm

theorem zip_pairwise_of_nodup (k : List (WReq UnitId × Bytes)) (pl : List (Option Place))
    (hnd : (k.map (·.1.path)).Nodup) : (k.zip pl).Pairwise (fun a b => a.1.1.path ≠ b.1.1.path) := by
  induction k generalizing pl with
  | nil => simp
  | cons x xs ih =>
    cases pl with
    | nil => simp
    | cons o os =>
      rw [List.map_cons, List.nodup_cons] at hnd
      rw [List.zip_cons_cons, List.pairwise_cons]
      refine ⟨?_, ih os hnd.2⟩
      intro b hb heq
      have hb1 := (List.of_mem_zip hb).1
      exact hnd.1 (by rw [heq]; exact List.mem_map_of_mem (f := fun y : WReq UnitId × Bytes => y.1.path) hb1)

/-- Every unit a rank kept is recorded at a location of the job-wide store that holds the unit's bytes. -/
theorem kept_unit_stored (j : Job) (hs : 1 ≤ j.cfg.slab) (q : Nat) (k : List (WReq UnitId × Bytes))
    (hk : keptOf j q = .ok k) (hnd : (k.map (·.1.path)).Nodup)
    (hsz : ∀ x ∈ k, batchable x.1 = true → x.2.length = x.1.size)
    (x : WReq UnitId × Bytes) (hx : x ∈ k) :
    ∃ lr, locIn j.cfg k x.1.path = some lr ∧ UnitStored (wstore j) ((q, lr.1), lr.2) x.2 := by
  have hlen : (placements j.cfg k).length = k.length := placements_length j.cfg k
  -- the placement the rank's batcher gave to `x`
  obtain ⟨i, hi, hxi⟩ := List.getElem_of_mem hx
  have hi2 : i < (placements j.cfg k).length := by rw [hlen]; exact hi
  have hmem : (x, (placements j.cfg k)[i]) ∈ k.zip (placements j.cfg k) := by
    rw [← hxi]
    have : (k.zip (placements j.cfg k))[i]'(by rw [List.length_zip]; omega) = (k[i], (placements j.cfg k)[i]) :=
      List.getElem_zip
    rw [← this]
    exact List.getElem_mem _
  have hfind := find_by_name _ (zip_pairwise_of_nodup k (placements j.cfg k) hnd) _ hmem
  have hst := storedAll j.cfg hs k hnd hsz _ hmem
  refine ⟨unitLoc x.1 (placements j.cfg k)[i], ?_, ?_⟩
  · unfold locIn
    simp only at hfind
    rw [hfind]; rfl
  · obtain ⟨f, hf, hm⟩ := hst
    refine ⟨f, ?_, hm⟩
    simp only [wstore, hk]
    exact hf

/-- what the ranks of a well-formed job keep -/
theorem keptOf_spec (j : Job) (hc : 1 ≤ j.cfg.chunk) (hok : ∀ st ∈ j.states, ∀ x ∈ st, LeafOk x.2)
    (hnd : ∀ st ∈ j.states, (st.map (·.1)).Nodup) (q : Nat) (st : RankState) (hq : j.states[q]? = some st) :
    ∃ us, rankUnits j.cfg st = .ok us ∧ keptOf j q = .ok (kept j q (flat us)) ∧
      (∀ e ∈ us, leafWrites j.cfg e.1.1 e.1.2 = .ok e.2) ∧ us.map (·.1) = st ∧
      ((kept j q (flat us)).map (·.1.path)).Nodup ∧
      (∀ x ∈ kept j q (flat us), batchable x.1 = true → x.2.length = x.1.size) := by
  have hmem : st ∈ j.states := List.mem_of_getElem? hq
  obtain ⟨us, hus, hmap, hlw, _, hnd2, hsz⟩ := rankUnits_spec j.cfg hc st (hok st hmem) (hnd st hmem)
  refine ⟨us, hus, by simp [keptOf, hq, hus, Except.map], hlw, hmap, kept_nodup j q _ hnd2, ?_⟩
  intro x hx
  exact hsz x ((mem_kept j q _ x).mp hx).1

/-- a leaf's write units are among the rank's units -/
theorem units_mem_flat (us : List ((PathId × Leaf) × List (WReq UnitId × Bytes))) (p : PathId) (l : Leaf)
    (ws : List (WReq UnitId × Bytes)) (he : ((p, l), ws) ∈ us) (x : WReq UnitId × Bytes) (hx : x ∈ ws) : x ∈ flat us := by
  unfold flat
  rw [List.mem_flatten]
  exact ⟨ws, List.mem_map_of_mem (f := fun e : (PathId × Leaf) × List (WReq UnitId × Bytes) => e.2) he, hx⟩

theorem mem_units_of_mem_state (cfg : Cfg) (st : RankState) (us : List ((PathId × Leaf) × List (WReq UnitId × Bytes)))
    (hmap : us.map (·.1) = st) (hlw : ∀ e ∈ us, leafWrites cfg e.1.1 e.1.2 = .ok e.2)
    (p : PathId) (l : Leaf) (hpl : (p, l) ∈ st) (ws : List (WReq UnitId × Bytes)) (hws : leafWrites cfg p l = .ok ws) :
    ((p, l), ws) ∈ us := by
  rw [← hmap, List.mem_map] at hpl
  obtain ⟨e, he, heq⟩ := hpl
  have h := hlw e he
  obtain ⟨⟨p', l'⟩, ws'⟩ := e
  simp only at heq h
  cases heq
  rw [hws] at h
  cases h
  exact he

/-- A well-formed job: every rank's leaves are admissible and its paths distinct; a replicated path is on every
rank with the same value; the partition sends every unit to an existing rank. -/
structure Job.WF (j : Job) : Prop where
  chunk : 1 ≤ j.cfg.chunk
  slab : 1 ≤ j.cfg.slab
  leaves : ∀ st ∈ j.states, ∀ x ∈ st, LeafOk x.2
  paths : ∀ st ∈ j.states, (st.map (·.1)).Nodup
  repAll : ∀ p, j.rep p = true → ∀ st ∈ j.states, ∃ l, (p, l) ∈ st
  repSame : ∀ p, j.rep p = true → ∀ st₁ ∈ j.states, ∀ st₂ ∈ j.states, ∀ l₁ l₂, (p, l₁) ∈ st₁ → (p, l₂) ∈ st₂ → l₁ = l₂
  owner : ∀ u, j.owner u < j.states.length

/-- Every write unit of every leaf of every rank is recorded, in the committed manifest, at a location of the
job-wide store that holds exactly the bytes the unit's stager exported — whichever rank wrote it. -/
theorem unit_recorded (j : Job) (wf : j.WF) (r : Nat) (st : RankState) (hr : j.states[r]? = some st)
    (p : PathId) (l : Leaf) (hpl : (p, l) ∈ st) (ws : List (WReq UnitId × Bytes)) (hws : leafWrites j.cfg p l = .ok ws)
    (x : WReq UnitId × Bytes) (hx : x ∈ ws) :
    ∃ u, unitWLoc j r x.1.path = .ok u ∧ UnitStored (wstore j) u x.2 := by
  have hst : st ∈ j.states := List.mem_of_getElem? hr
  obtain ⟨_, _, hidx, _, _⟩ := leafWrites_facts j.cfg wf.chunk p l (wf.leaves st hst (p, l) hpl)
  have hxp : x.1.path.1 = p := by
    obtain ⟨ws', hws', hidx', _⟩ := leafWrites_facts j.cfg wf.chunk p l (wf.leaves st hst (p, l) hpl)
    rw [hws] at hws'; cases hws'
    exact hidx' x hx
  -- the writer and its state
  have hq : ∃ stq, j.states[writerOf j r x.1.path]? = some stq ∧ (p, l) ∈ stq ∧
      (if j.rep x.1.path.1 then j.owner x.1.path = writerOf j r x.1.path else True) := by
    unfold writerOf
    by_cases hrep : j.rep x.1.path.1 = true
    · simp only [hrep, if_true]
      have hlt := wf.owner x.1.path
      refine ⟨j.states[j.owner x.1.path], by simp [hlt], ?_, trivial⟩
      have hmem : j.states[j.owner x.1.path] ∈ j.states := List.getElem_mem _
      rw [hxp] at hrep
      obtain ⟨l', hl'⟩ := wf.repAll p hrep _ hmem
      have := wf.repSame p hrep st hst _ hmem l l' hpl hl'
      rw [this]; exact hl'
    · simp only [hrep]
      exact ⟨st, hr, hpl, by simp⟩
  obtain ⟨stq, hstq, hplq, hown⟩ := hq
  obtain ⟨us, _, hk, hlw, hmap, hnd, hsz⟩ := keptOf_spec j wf.chunk wf.leaves wf.paths _ stq hstq
  have hxk : x ∈ kept j (writerOf j r x.1.path) (flat us) := by
    rw [mem_kept]
    exact ⟨units_mem_flat us p l ws (mem_units_of_mem_state j.cfg stq us hmap hlw p l hplq ws hws) x hx, hown⟩
  obtain ⟨lr, hloc, hstored⟩ := kept_unit_stored j wf.slab _ _ hk hnd hsz x hxk
  refine ⟨((writerOf j r x.1.path, lr.1), lr.2), ?_, hstored⟩
  simp [unitWLoc, hk, hloc]

theorem mapE_ok_of (f : (WReq UnitId × Bytes) → Except Ts.Snapshot.Err (ULoc WLoc)) (ws : List (WReq UnitId × Bytes))
    (P : (WReq UnitId × Bytes) → ULoc WLoc → Prop)
    (h : ∀ x ∈ ws, ∃ u, f x = .ok u ∧ P x u) :
    ∃ locs, mapE f ws = .ok locs ∧ locs.length = ws.length ∧ ∀ e ∈ ws.zip locs, P e.1 e.2 := by
  induction ws with
  | nil => exact ⟨[], rfl, rfl, by simp⟩
  | cons x xs ih =>
    obtain ⟨u, hu, hp⟩ := h x (by simp)
    obtain ⟨locs, hl, hlen, hall⟩ := ih (fun y hy => h y (by simp [hy]))
    refine ⟨u :: locs, by simp [mapE, hu, hl], by simp [hlen], ?_⟩
    intro e he
    rw [List.zip_cons_cons, List.mem_cons] at he
    rcases he with rfl | he
    · exact hp
    · exact hall e he

/-- **Job-wide round trip.** In a well-formed job, for every rank `r` and every leaf of its state, the entry the
committed manifest holds for that leaf restores — from the job-wide store, with any admissible unit reader (one
ranged read, or tiled reads under any budget) and any completion order of chunk consumers — exactly the leaf. -/
theorem world_roundtrip (j : Job) (wf : j.WF)
    (rd : Nat → List Nat → ULoc WLoc → Except Ts.Snapshot.Err Bytes)
    (hrd : ∀ u bs es shape, UnitStored (wstore j) u bs → Ts.Chunk.numel shape * es = bs.length → rd es shape u = .ok bs)
    (order : List ((Nat × Nat) × ULoc WLoc) → List ((Nat × Nat) × ULoc WLoc)) (horder : ∀ cs, (order cs).Perm cs)
    (r : Nat) (st : RankState) (hr : j.states[r]? = some st) (p : PathId) (l : Leaf) (hpl : (p, l) ∈ st) :
    ∃ en, worldEntry j r p l = .ok en ∧ restoreLeafWith (wstore j) rd order en = .ok l := by
  have hst : st ∈ j.states := List.mem_of_getElem? hr
  have hl := wf.leaves st hst (p, l) hpl
  obtain ⟨ws, hws, _, _, _⟩ := leafWrites_facts j.cfg wf.chunk p l hl
  obtain ⟨locs, hlocs, hlen, hall⟩ := mapE_ok_of (fun x => unitWLoc j r x.1.path) ws
    (fun x u => UnitStored (wstore j) u x.2)
    (fun x hx => unit_recorded j wf r st hr p l hpl ws hws x hx)
  obtain ⟨en, hen, hres⟩ := restoreLeafG_ok j.cfg wf.chunk (wstore j) rd hrd order horder p l hl ws hws locs hlen hall
  exact ⟨en, by simp [worldEntry, hws, hlocs, hen], hres⟩

/-- The entry of a replicated leaf does not depend on the rank whose manifest it is read from: it is the one
consolidated entry every restoring rank — including ranks beyond the saving world size — is given (C07). -/
theorem worldEntry_rep_indep (j : Job) (p : PathId) (l : Leaf) (hrep : j.rep p = true) (hc : 1 ≤ j.cfg.chunk)
    (hl : LeafOk l) (r r' : Nat) : worldEntry j r p l = worldEntry j r' p l := by
  obtain ⟨ws, hws, hidx, hnd', hsz'⟩ := leafWrites_facts j.cfg hc p l hl
  clear hnd' hsz'
  have : ∀ x ∈ ws, unitWLoc j r x.1.path = unitWLoc j r' x.1.path := by
    intro x hx
    have hp := hidx x hx
    simp [unitWLoc, writerOf, hp, hrep]
  have hm : mapE (fun x : WReq UnitId × Bytes => unitWLoc j r x.1.path) ws
      = mapE (fun x : WReq UnitId × Bytes => unitWLoc j r' x.1.path) ws := by
    clear hws hidx
    induction ws with
    | nil => rfl
    | cons x xs ih =>
      simp only [mapE]
      rw [this x (by simp), ih (fun y hy => this y (by simp [hy]))]
  simp only [worldEntry, hws, hm]

end Ts.World
