import TsModel.Storage
/-! Helper lemmas for the storage model (C20). -/
namespace Ts.Storage

theorem lookup_write_same (fs : FS) (p : String) (b : Bytes) :
    (fs.write p b).lookup p = some b := by
  simp [FS.write, FS.lookup, List.find?]

theorem lookup_write_other (fs : FS) (p q : String) (b : Bytes) (h : q ≠ p) :
    (fs.write p b).lookup q = fs.lookup q := by
  have hpq : (p == q) = false := by
    simp; exact fun e => h e.symm
  simp only [FS.write, FS.lookup, List.find?, hpq]
  congr 1
  induction fs.files with
  | nil => rfl
  | cons e es ih =>
    by_cases he : e.1 == p
    · have : (e.1 == q) = false := by
        have := eq_of_beq he
        simp [this]; exact fun e' => h e'.symm
      simp [List.filter, he, List.find?, this, ih]
    · by_cases hq : e.1 == q
      · simp [List.filter, he, List.find?, hq]
      · simp [List.filter, he, List.find?, hq, ih]

/-- Final contents under a sequence of writes. -/
def writeAll (fs : FS) (ws : List (String × Bytes)) : FS :=
  ws.foldl (fun s w => s.write w.1 w.2) fs

theorem lookup_writeAll_notin (ws : List (String × Bytes)) (fs : FS) (q : String)
    (h : ∀ w ∈ ws, w.1 ≠ q) : (writeAll fs ws).lookup q = fs.lookup q := by
  induction ws generalizing fs with
  | nil => rfl
  | cons w ws ih =>
    simp only [writeAll, List.foldl] at *
    rw [ih (fs.write w.1 w.2) (fun w' hw' => h w' (List.mem_cons_of_mem _ hw'))]
    exact lookup_write_other fs w.1 q w.2 (fun e => h w (List.mem_cons_self) e.symm)

theorem lookup_writeAll_mem (ws : List (String × Bytes)) (fs : FS) (w : String × Bytes)
    (hw : w ∈ ws) (hd : ws.Pairwise (fun a b => a.1 ≠ b.1)) :
    (writeAll fs ws).lookup w.1 = some w.2 := by
  induction ws generalizing fs with
  | nil => cases hw
  | cons x xs ih =>
    simp only [writeAll, List.foldl]
    rw [List.pairwise_cons] at hd
    rcases List.mem_cons.mp hw with rfl | hmem
    · have := lookup_writeAll_notin xs (fs.write w.1 w.2) w.1
        (fun y hy e => hd.1 y hy e.symm)
      simp only [writeAll] at this
      rw [this, lookup_write_same]
    · exact ih (fs.write x.1 x.2) hmem hd.2

end Ts.Storage
