import TsModel.Entry
import TsProofs.Json
/-! Helper lemmas for the manifest entries (C14): `asdict` ↔ `from_yaml_obj`, goodness of the JSON value. -/
namespace Ts.Manifest
open Ts.Json Ts.Primitive

/-! ## field names are good strings, pairwise distinct per class -/
@[simp] theorem goodStr_kType : goodStr kType = true := by decide
@[simp] theorem goodStr_kLocation : goodStr kLocation = true := by decide
@[simp] theorem goodStr_kSerializer : goodStr kSerializer = true := by decide
@[simp] theorem goodStr_kDtype : goodStr kDtype = true := by decide
@[simp] theorem goodStr_kShape : goodStr kShape = true := by decide
@[simp] theorem goodStr_kReplicated : goodStr kReplicated = true := by decide
@[simp] theorem goodStr_kByteRange : goodStr kByteRange = true := by decide
@[simp] theorem goodStr_kOffsets : goodStr kOffsets = true := by decide
@[simp] theorem goodStr_kSizes : goodStr kSizes = true := by decide
@[simp] theorem goodStr_kTensor : goodStr kTensor = true := by decide
@[simp] theorem goodStr_kShards : goodStr kShards = true := by decide
@[simp] theorem goodStr_kChunks : goodStr kChunks = true := by decide
@[simp] theorem goodStr_kMesh : goodStr kMesh = true := by decide
@[simp] theorem goodStr_kDimMap : goodStr kDimMap = true := by decide
@[simp] theorem goodStr_kObjType : goodStr kObjType = true := by decide
@[simp] theorem goodStr_kKeys : goodStr kKeys = true := by decide
@[simp] theorem goodStr_kSerializedValue : goodStr kSerializedValue = true := by decide
@[simp] theorem goodStr_kReadable : goodStr kReadable = true := by decide
@[simp] theorem goodStr_kReadableValue : goodStr kReadableValue = true := by decide
@[simp] theorem goodStr_kVersion : goodStr kVersion = true := by decide
@[simp] theorem goodStr_kWorldSize : goodStr kWorldSize = true := by decide
@[simp] theorem goodStr_kManifest : goodStr kManifest = true := by decide
@[simp] theorem goodStr_tTensor : goodStr tTensor = true := by decide
@[simp] theorem goodStr_tShardedTensor : goodStr tShardedTensor = true := by decide
@[simp] theorem goodStr_tChunkedTensor : goodStr tChunkedTensor = true := by decide
@[simp] theorem goodStr_tDTensor : goodStr tDTensor = true := by decide
@[simp] theorem goodStr_tObject : goodStr tObject = true := by decide
@[simp] theorem goodStr_tList : goodStr tList = true := by decide
@[simp] theorem goodStr_tDict : goodStr tDict = true := by decide
@[simp] theorem goodStr_tOrderedDict : goodStr tOrderedDict = true := by decide
@[simp] theorem goodStr_tInt : goodStr tInt = true := by decide
@[simp] theorem goodStr_tStr : goodStr tStr = true := by decide
@[simp] theorem goodStr_tBool : goodStr tBool = true := by decide
@[simp] theorem goodStr_tBytes : goodStr tBytes = true := by decide
@[simp] theorem goodStr_tFloat : goodStr tFloat = true := by decide

theorem nodup_tensorKeys : [kType, kLocation, kSerializer, kDtype, kShape, kReplicated, kByteRange].Nodup := by decide
theorem nodup_shardKeys : [kOffsets, kSizes, kTensor].Nodup := by decide
theorem nodup_shardedKeys : [kType, kShards].Nodup := by decide
theorem nodup_chunkedKeys : [kType, kDtype, kShape, kChunks, kReplicated].Nodup := by decide
theorem nodup_dtensorKeys : [kType, kShards, kMesh, kDimMap].Nodup := by decide
theorem nodup_objectKeys : [kType, kLocation, kSerializer, kObjType, kReplicated].Nodup := by decide
theorem nodup_dictKeys : [kType, kKeys].Nodup := by decide
theorem nodup_primKeys : [kType, kSerializedValue, kReplicated, kReadable].Nodup := by decide
theorem nodup_mdKeys : [kVersion, kWorldSize, kManifest].Nodup := by decide

/-! ## asdict → from_yaml_obj -/

theorem mapE_map {α β : Type} (f : α → Value) (g : Value → Except Err β) (h : β → α) (l : List β)
    (hfg : ∀ x, g (f (h x)) = .ok x) : mapE g (l.map (fun x => f (h x))) = .ok l := by
  induction l with
  | nil => rfl
  | cons x l ih => simp [mapE, hfg, ih]

theorem mapE_ok {α β : Type} (f : β → α) (g : α → Except Err β) (l : List β)
    (hfg : ∀ x, g (f x) = .ok x) : mapE g (l.map f) = .ok l := by
  induction l with
  | nil => rfl
  | cons x l ih => simp [mapE, hfg, ih]

theorem asInts_ints (l : List Int) : asInts (ints l) = .ok l := by
  simp only [asInts, ints]
  exact mapE_ok Value.int asInt l (fun _ => rfl)

theorem asOptInts_optInts (o : Option (List Int)) : asOptInts (optInts o) = .ok o := by
  cases o with
  | none => rfl
  | some l =>
    have := asInts_ints l
    simp only [ints] at this
    simp [optInts, asOptInts, ints, this, Except.map]

theorem asOptStr_optStr (o : Option Str) : asOptStr (optStr o) = .ok o := by
  cases o <;> rfl

theorem asKeys_toValue (l : List Key) : asKeys (.arr (l.map Key.toValue)) = .ok l := by
  simp only [asKeys]
  exact mapE_ok Key.toValue asKey l (fun k => by cases k <;> rfl)

theorem asIntLists_toValue (l : List (List Int)) : asIntLists (.arr (l.map ints)) = .ok l := by
  simp only [asIntLists]
  exact mapE_ok ints asInts l asInts_ints

mutual
theorem asNested_toValue : (n : Nested) → asNested n.toValue = .ok n
  | .int i => rfl
  | .list l => by
    simp only [Nested.toValue, asNested, asNesteds_toValues l, Except.map]
theorem asNesteds_toValues : (l : List Nested) → asNesteds (Nested.toValue.toValues l) = .ok l
  | [] => rfl
  | n :: ns => by
    simp only [Nested.toValue.toValues, asNesteds, asNested_toValue n, asNesteds_toValues ns]
end

theorem tensorOfValue_toValue (t : TensorEntry) : tensorOfValue t.toValue = .ok t := by
  simp [TensorEntry.toValue, tensorOfValue, erase, kwargsOk, lookup, field, asStr, asBool, asInts_ints, asOptInts_optInts,
    kType, kLocation, kSerializer, kDtype, kShape, kReplicated, kByteRange, bind, Except.bind, pure, Except.pure]

theorem shardOfValue_toValue (s : Shard) : shardOfValue s.toValue = .ok s := by
  have ht := tensorOfValue_toValue s.tensor
  simp only [Shard.toValue, shardOfValue]
  have hl : lookup kTensor [(kOffsets, ints s.offsets), (kSizes, ints s.sizes), (kTensor, s.tensor.toValue)]
      = some s.tensor.toValue := by
    simp [lookup, kOffsets, kSizes, kTensor]
  simp only [hl, ht, bind, Except.bind]
  simp [kwargsOk, lookup, field, asInts_ints, kOffsets, kSizes, kTensor, bind, Except.bind, pure, Except.pure]

theorem shardsOfValue_toValue (l : List Shard) : shardsOfValue (.arr (l.map Shard.toValue)) = .ok l := by
  simp only [shardsOfValue]
  exact mapE_ok Shard.toValue shardOfValue l shardOfValue_toValue

theorem primTypeOfName_name (t : PrimType) : primTypeOfName (primTypeName t) = some t := by
  cases t <;> decide

theorem primTypeOfName_other (s : Str) (h : s = tTensor ∨ s = tShardedTensor ∨ s = tChunkedTensor ∨ s = tDTensor ∨ s = tObject) :
    primTypeOfName s = none := by
  rcases h with rfl | rfl | rfl | rfl | rfl <;> decide

/-- `from_yaml`'s dispatch inverts `asdict` on every entry kind, up to the discarded `readable`. -/
theorem entryOfValue_toValue (e : Entry) : entryOfValue e.toValue = .ok (some e.eraseReadable) := by
  cases e with
  | tensor t =>
    have ht := tensorOfValue_toValue t
    have hl : lookup kType (match t.toValue with | .obj o => o | _ => []) = some (.str tTensor) := by
      simp [TensorEntry.toValue, lookup]
    simp only [Entry.toValue, Entry.eraseReadable]
    simp only [TensorEntry.toValue] at ht hl ⊢
    simp only [entryOfValue, hl]
    rw [if_neg (by decide), if_neg (by decide), if_neg (by decide)]
    simp only [primTypeOfName_other tTensor (Or.inl rfl), if_true, ht, Except.map]
  | sharded shards =>
    have hs := shardsOfValue_toValue shards
    simp only [Entry.toValue, Entry.eraseReadable, entryOfValue]
    simp [lookup, erase, kwargsOk, hs, primTypeOfName_other tShardedTensor (Or.inr (Or.inl rfl)),
      show tShardedTensor ≠ tList by decide, show tShardedTensor ≠ tDict by decide,
      show tShardedTensor ≠ tOrderedDict by decide, show tShardedTensor ≠ tTensor by decide,
      kType, kShards, bind, Except.bind, pure, Except.pure]
  | chunked dtype shape chunks replicated =>
    have hs := shardsOfValue_toValue chunks
    simp only [Entry.toValue, Entry.eraseReadable, entryOfValue]
    simp [lookup, erase, kwargsOk, field, hs, asStr, asBool, asInts_ints,
      primTypeOfName_other tChunkedTensor (Or.inr (Or.inr (Or.inl rfl))),
      show tChunkedTensor ≠ tList by decide, show tChunkedTensor ≠ tDict by decide,
      show tChunkedTensor ≠ tOrderedDict by decide, show tChunkedTensor ≠ tTensor by decide,
      show tChunkedTensor ≠ tShardedTensor by decide,
      kType, kDtype, kShape, kChunks, kReplicated, bind, Except.bind, pure, Except.pure]
  | dtensor shards mesh dimMap =>
    have hs := shardsOfValue_toValue shards
    simp only [Entry.toValue, Entry.eraseReadable, entryOfValue]
    simp [lookup, erase, kwargsOk, field, hs, asNested_toValue, asIntLists_toValue,
      primTypeOfName_other tDTensor (Or.inr (Or.inr (Or.inr (Or.inl rfl)))),
      show tDTensor ≠ tList by decide, show tDTensor ≠ tDict by decide,
      show tDTensor ≠ tOrderedDict by decide, show tDTensor ≠ tTensor by decide,
      show tDTensor ≠ tShardedTensor by decide, show tDTensor ≠ tChunkedTensor by decide,
      kType, kShards, kMesh, kDimMap, bind, Except.bind, pure, Except.pure]
  | object location serializer objType replicated =>
    simp only [Entry.toValue, Entry.eraseReadable, entryOfValue]
    simp [lookup, erase, kwargsOk, field, asStr, asBool,
      primTypeOfName_other tObject (Or.inr (Or.inr (Or.inr (Or.inr rfl)))),
      show tObject ≠ tList by decide, show tObject ≠ tDict by decide,
      show tObject ≠ tOrderedDict by decide, show tObject ≠ tTensor by decide,
      show tObject ≠ tShardedTensor by decide, show tObject ≠ tChunkedTensor by decide, show tObject ≠ tDTensor by decide,
      kType, kLocation, kSerializer, kObjType, kReplicated, bind, Except.bind, pure, Except.pure]
  | list =>
    simp [Entry.toValue, Entry.eraseReadable, entryOfValue, lookup, erase, kwargsOk, kType]
  | dict keys =>
    simp only [Entry.toValue, Entry.eraseReadable, entryOfValue]
    simp [lookup, erase, kwargsOk, field, asKeys_toValue, Except.map, kType, kKeys, show tDict ≠ tList by decide]
  | odict keys =>
    simp only [Entry.toValue, Entry.eraseReadable, entryOfValue]
    simp [lookup, erase, kwargsOk, field, asKeys_toValue, Except.map, kType, kKeys, show tOrderedDict ≠ tList by decide,
      show tOrderedDict ≠ tDict by decide]
  | prim p =>
    have h1 : primTypeName p.ty ≠ tList := by cases p.ty <;> decide
    have h2 : primTypeName p.ty ≠ tDict := by cases p.ty <;> decide
    have h3 : primTypeName p.ty ≠ tOrderedDict := by cases p.ty <;> decide
    simp only [Entry.toValue, Entry.eraseReadable, entryOfValue]
    simp [lookup, erase, kwargsOk, field, asStr, asBool, asOptStr, h1, h2, h3, primTypeOfName_name,
      kType, kSerializedValue, kReplicated, kReadable, kReadableValue, bind, Except.bind, pure, Except.pure]

theorem manifestOfPairs_toValue (m : List (Str × Entry)) :
    manifestOfPairs (m.map (fun pe => (pe.1, pe.2.toValue))) = .ok (m.map (fun pe => (pe.1, pe.2.eraseReadable))) := by
  induction m with
  | nil => rfl
  | cons pe m ih => simp [manifestOfPairs, entryOfValue_toValue, ih]

theorem metadataOfValue_toValue (md : SnapshotMetadata) : metadataOfValue md.toValue = .ok md.eraseReadable := by
  have hm := manifestOfPairs_toValue md.manifest
  simp only [SnapshotMetadata.toValue, metadataOfValue]
  have hl : lookup kManifest [(kVersion, Value.str md.version), (kWorldSize, Value.int md.worldSize),
      (kManifest, Value.obj (md.manifest.map (fun pe => (pe.1, pe.2.toValue))))]
      = some (Value.obj (md.manifest.map (fun pe => (pe.1, pe.2.toValue)))) := by
    simp [lookup, kVersion, kWorldSize, kManifest]
  simp only [hl, hm, bind, Except.bind]
  simp [kwargsOk, lookup, field, asStr, asInt, kVersion, kWorldSize, kManifest, pure, Except.pure,
    SnapshotMetadata.eraseReadable]


/-! ## the JSON value of a well-formed metadata object is good -/

theorem goodV_obj (ms : List (Str × Value)) :
    goodV (.obj ms) = true ↔ goodMs ms = true ∧ (ms.map Prod.fst).Nodup := by
  simp [goodV]

theorem goodVs_map {α : Type} (f : α → Value) (l : List α) (h : ∀ x ∈ l, goodV (f x) = true) :
    goodVs (l.map f) = true := by
  induction l with
  | nil => rfl
  | cons x l ih =>
    simp only [List.map_cons, goodVs, Bool.and_eq_true]
    exact ⟨h x (List.mem_cons_self), ih (fun y hy => h y (List.mem_cons_of_mem _ hy))⟩

theorem goodV_ints (l : List Int) : goodV (ints l) = true := by
  simp only [ints, goodV]
  exact goodVs_map _ _ (fun _ _ => rfl)

theorem goodV_optInts (o : Option (List Int)) : goodV (optInts o) = true := by
  cases o with
  | none => rfl
  | some l => exact goodV_ints l

mutual
theorem goodV_nested : (n : Nested) → goodV n.toValue = true
  | .int _ => rfl
  | .list l => by simp only [Nested.toValue, goodV, goodVs_nesteds l]
theorem goodVs_nesteds : (l : List Nested) → goodVs (Nested.toValue.toValues l) = true
  | [] => rfl
  | n :: ns => by simp only [Nested.toValue.toValues, goodVs, goodV_nested n, goodVs_nesteds ns, Bool.and_self]
end

theorem goodV_tensor (t : TensorEntry) (h : ∀ s ∈ t.strs, goodStr s = true) : goodV t.toValue = true := by
  simp only [TensorEntry.strs, List.mem_cons, List.not_mem_nil, or_false, forall_eq_or_imp, forall_eq] at h
  rw [TensorEntry.toValue, goodV_obj]
  refine ⟨?_, nodup_tensorKeys⟩
  simp [goodMs, goodV, h.1, h.2.1, h.2.2, goodV_ints, goodV_optInts]

theorem goodV_shard (s : Shard) (h : ∀ x ∈ s.tensor.strs, goodStr x = true) : goodV s.toValue = true := by
  rw [Shard.toValue, goodV_obj]
  refine ⟨?_, nodup_shardKeys⟩
  simp [goodMs, goodV_ints, goodV_tensor s.tensor h]

theorem goodV_shards (l : List Shard) (h : ∀ x ∈ l.flatMap (fun s => s.tensor.strs), goodStr x = true) :
    goodV (.arr (l.map Shard.toValue)) = true := by
  simp only [goodV]
  apply goodVs_map
  intro s hs
  apply goodV_shard
  intro x hx
  exact h x (List.mem_flatMap.mpr ⟨s, hs, hx⟩)

theorem goodV_keys (l : List Key) (h : ∀ x ∈ l.flatMap Key.strs, goodStr x = true) :
    goodV (.arr (l.map Key.toValue)) = true := by
  simp only [goodV]
  apply goodVs_map
  intro k hk
  cases k with
  | str s => exact h s (List.mem_flatMap.mpr ⟨_, hk, by simp [Key.strs]⟩)
  | int i => rfl
  | bool b => rfl

theorem goodStr_primTypeName (t : PrimType) : goodStr (primTypeName t) = true := by
  cases t <;> decide

theorem goodV_entry (e : Entry) (h : ∀ s ∈ e.strs, goodStr s = true) : goodV e.toValue = true := by
  cases e with
  | tensor t => exact goodV_tensor t h
  | sharded shards =>
    rw [Entry.toValue, goodV_obj]
    refine ⟨?_, nodup_shardedKeys⟩
    simp [goodMs, goodV, goodV_shards shards h]
    simpa [goodV] using goodV_shards shards h
  | chunked dtype shape chunks replicated =>
    simp only [Entry.strs, List.mem_cons, forall_eq_or_imp] at h
    rw [Entry.toValue, goodV_obj]
    refine ⟨?_, nodup_chunkedKeys⟩
    have := goodV_shards chunks h.2
    simp only [goodV] at this
    simp [goodMs, goodV, h.1, goodV_ints, this]
  | dtensor shards mesh dimMap =>
    rw [Entry.toValue, goodV_obj]
    refine ⟨?_, nodup_dtensorKeys⟩
    have := goodV_shards shards h
    simp only [goodV] at this
    have hd : goodVs (dimMap.map ints) = true := goodVs_map _ _ (fun l _ => goodV_ints l)
    simp [goodMs, goodV, goodV_nested, this, hd]
  | object location serializer objType replicated =>
    simp only [Entry.strs, List.mem_cons, List.not_mem_nil, or_false, forall_eq_or_imp, forall_eq] at h
    rw [Entry.toValue, goodV_obj]
    refine ⟨?_, nodup_objectKeys⟩
    simp [goodMs, goodV, h.1, h.2.1, h.2.2]
  | list =>
    rw [Entry.toValue, goodV_obj]
    exact ⟨by simp [goodMs, goodV], by decide⟩
  | dict keys =>
    rw [Entry.toValue, goodV_obj]
    refine ⟨?_, nodup_dictKeys⟩
    have := goodV_keys keys h
    simp only [goodV] at this
    simp [goodMs, goodV, this]
  | odict keys =>
    rw [Entry.toValue, goodV_obj]
    refine ⟨?_, nodup_dictKeys⟩
    have := goodV_keys keys h
    simp only [goodV] at this
    simp [goodMs, goodV, this]
  | prim p =>
    rw [Entry.toValue, goodV_obj]
    refine ⟨?_, nodup_primKeys⟩
    have h1 : goodStr p.serialized = true := h _ (by simp [Entry.strs])
    have h2 : goodV (optStr p.readable) = true := by
      cases hr : p.readable with
      | none => rfl
      | some r => exact h r (by simp [Entry.strs, hr])
    simp [goodMs, goodV, h1, h2, goodStr_primTypeName]

theorem goodMs_manifest (m : List (Str × Entry))
    (h : ∀ s ∈ m.flatMap (fun pe => pe.1 :: pe.2.strs), goodStr s = true) :
    goodMs (m.map (fun pe => (pe.1, pe.2.toValue))) = true := by
  induction m with
  | nil => rfl
  | cons pe m ih =>
    simp only [List.flatMap_cons, List.mem_append, List.mem_cons] at h
    simp only [List.map_cons, goodMs, Bool.and_eq_true]
    refine ⟨⟨h _ (Or.inl (Or.inl rfl)), goodV_entry _ (fun s hs => h s (Or.inl (Or.inr hs)))⟩,
      ih (fun s hs => h s (Or.inr hs))⟩

theorem goodV_metadata (md : SnapshotMetadata) (h : md.wf = true) : goodV md.toValue = true := by
  simp only [SnapshotMetadata.wf, Bool.and_eq_true, List.all_eq_true, decide_eq_true_eq,
    SnapshotMetadata.strs, List.mem_cons, forall_eq_or_imp] at h
  obtain ⟨⟨hv, hs⟩, hn⟩ := h
  rw [SnapshotMetadata.toValue, goodV_obj]
  refine ⟨?_, nodup_mdKeys⟩
  have hm := goodMs_manifest md.manifest hs
  have hk : (List.map Prod.fst (md.manifest.map (fun pe => (pe.1, pe.2.toValue)))).Nodup := by
    simpa [List.map_map, Function.comp_def] using hn
  have hobj : goodV (.obj (md.manifest.map (fun pe => (pe.1, pe.2.toValue)))) = true := (goodV_obj _).mpr ⟨hm, hk⟩
  simp [goodMs, goodV, hv, hobj]
  simpa [goodV] using hobj

end Ts.Manifest
