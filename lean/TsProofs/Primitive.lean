import TsModel.Primitive
import TsProofs.Json
/-! Helper lemmas for the primitive codecs (C14): base64, little-endian bytes, int text. -/
namespace Ts.Primitive
open Ts.Json (Str intDigits natDigits ofDigits isDigit)

/-! ## base64 -/

theorem a2b_b2a (i : Nat) (h : i < 64) : a2b (b2a i) = some i := by
  unfold b2a
  split
  · unfold a2b; rw [if_pos (by omega)]; congr 1; omega
  split
  · unfold a2b; rw [if_neg (by omega), if_pos (by omega)]; congr 1; omega
  split
  · unfold a2b; rw [if_neg (by omega), if_neg (by omega), if_pos (by omega)]; congr 1; omega
  split
  · subst i; rfl
  · have : i = 63 := by omega
    subst i; rfl

theorem b2a_ne_pad (i : Nat) : b2a i ≠ 61 := by
  unfold b2a
  split <;> (try split) <;> (try split) <;> (try split) <;> omega

theorem b2a_lt (i : Nat) (h : i < 64) : b2a i < 128 := by
  unfold b2a
  split <;> (try split) <;> (try split) <;> (try split) <;> omega

/-- One data character through the decoder. -/
theorem decodeAux_data (q l p i : Nat) (cs : List Nat) (hi : i < 64) :
    decodeAux q l p (b2a i :: cs) =
      if q = 0 then decodeAux 1 i 0 cs
      else if q = 1 then consByte (l * 4 + i / 16) (decodeAux 2 (i % 16) 0 cs)
      else if q = 2 then consByte (l * 16 + i / 4) (decodeAux 3 (i % 4) 0 cs)
      else consByte (l * 64 + i) (decodeAux 0 0 0 cs) := by
  rw [decodeAux]
  simp only [b2a_ne_pad, if_false, a2b_b2a i hi]

theorem decodeAux_encode (bs : Bytes) (h : ∀ b ∈ bs, b < 256) : decodeAux 0 0 0 (b64encode bs) = .ok bs := by
  fun_induction b64encode bs with
  | case1 a b c rest ih =>
    have ha : a < 256 := h a (by simp)
    have hb : b < 256 := h b (by simp)
    have hc : c < 256 := h c (by simp)
    have ih' := ih (fun x hx => h x (by simp [hx]))
    have e1 : a / 4 * 4 + (a % 4 * 16 + b / 16) / 16 = a := by omega
    have e2 : (a % 4 * 16 + b / 16) % 16 * 16 + (b % 16 * 4 + c / 64) / 4 = b := by omega
    have e3 : (b % 16 * 4 + c / 64) % 4 * 64 + c % 64 = c := by omega
    rw [decodeAux_data 0 0 0 (a / 4) _ (by omega)]
    simp only [if_true]
    rw [decodeAux_data 1 _ 0 (a % 4 * 16 + b / 16) _ (by omega)]
    simp only [if_true, if_false, show (1 : Nat) ≠ 0 by decide]
    rw [decodeAux_data 2 _ 0 (b % 16 * 4 + c / 64) _ (by omega)]
    simp only [if_true, if_false, show (2 : Nat) ≠ 0 by decide, show (2 : Nat) ≠ 1 by decide]
    rw [decodeAux_data 3 _ 0 (c % 64) _ (by omega)]
    simp only [if_true, if_false, show (3 : Nat) ≠ 0 by decide, show (3 : Nat) ≠ 1 by decide,
      show (3 : Nat) ≠ 2 by decide, ih', consByte, e1, e2, e3]
  | case2 a b =>
    have ha : a < 256 := h a (by simp)
    have hb : b < 256 := h b (by simp)
    have e1 : a / 4 * 4 + (a % 4 * 16 + b / 16) / 16 = a := by omega
    have e2 : (a % 4 * 16 + b / 16) % 16 * 16 + (b % 16 * 4) / 4 = b := by omega
    rw [decodeAux_data 0 0 0 (a / 4) _ (by omega)]
    simp only [if_true]
    rw [decodeAux_data 1 _ 0 (a % 4 * 16 + b / 16) _ (by omega)]
    simp only [if_true, if_false, show (1 : Nat) ≠ 0 by decide]
    rw [decodeAux_data 2 _ 0 (b % 16 * 4) _ (by omega)]
    simp only [if_true, if_false, show (2 : Nat) ≠ 0 by decide, show (2 : Nat) ≠ 1 by decide]
    rw [decodeAux]
    simp only [if_true, show (2 : Nat) ≤ 3 by decide, show 4 ≤ 3 + (0 + 1) by decide, consByte, e1, e2]
  | case3 a =>
    have ha : a < 256 := h a (by simp)
    have e1 : a / 4 * 4 + (a % 4 * 16) / 16 = a := by omega
    rw [decodeAux_data 0 0 0 (a / 4) _ (by omega)]
    simp only [if_true]
    rw [decodeAux_data 1 _ 0 (a % 4 * 16) _ (by omega)]
    simp only [if_true, if_false, show (1 : Nat) ≠ 0 by decide]
    rw [decodeAux]
    simp only [if_true, show (2 : Nat) ≤ 2 by decide, show ¬ 4 ≤ 2 + (0 + 1) by decide, if_false]
    rw [decodeAux]
    simp only [if_true, show (2 : Nat) ≤ 2 by decide, show 4 ≤ 2 + (0 + 1 + 1) by decide, consByte, e1]
  | case4 => simp [decodeAux]

theorem b64encode_ascii (bs : Bytes) (h : ∀ b ∈ bs, b < 256) : ∀ c ∈ b64encode bs, c < 128 := by
  fun_induction b64encode bs with
  | case1 a b c rest ih =>
    have ha : a < 256 := h a (by simp)
    have hb : b < 256 := h b (by simp)
    have hc : c < 256 := h c (by simp)
    intro x hx
    simp only [List.mem_cons] at hx
    rcases hx with rfl | rfl | rfl | rfl | hx
    · exact b2a_lt _ (by omega)
    · exact b2a_lt _ (by omega)
    · exact b2a_lt _ (by omega)
    · exact b2a_lt _ (by omega)
    · exact ih (fun x hx => h x (by simp [hx])) x hx
  | case2 a b =>
    have ha : a < 256 := h a (by simp)
    have hb : b < 256 := h b (by simp)
    intro x hx
    simp only [List.mem_cons, List.not_mem_nil, or_false] at hx
    rcases hx with rfl | rfl | rfl | rfl
    · exact b2a_lt _ (by omega)
    · exact b2a_lt _ (by omega)
    · exact b2a_lt _ (by omega)
    · decide
  | case3 a =>
    have ha : a < 256 := h a (by simp)
    intro x hx
    simp only [List.mem_cons, List.not_mem_nil, or_false] at hx
    rcases hx with rfl | rfl | rfl | rfl
    · exact b2a_lt _ (by omega)
    · exact b2a_lt _ (by omega)
    · decide
    · decide
  | case4 => intro x hx; cases hx

theorem any_isSurrogate_of_ascii (s : List Nat) (h : ∀ c ∈ s, c < 128) : s.any isSurrogate = false := by
  rw [List.any_eq_false]
  intro c hc
  have := h c hc
  simp [isSurrogate]; omega

theorem b64decode_encode (bs : Bytes) (h : ∀ b ∈ bs, b < 256) : b64decode (b64encode bs) = .ok bs := by
  simp [b64decode, any_isSurrogate_of_ascii _ (b64encode_ascii bs h), decodeAux_encode bs h]

/-! ## little-endian bytes -/

theorem leBytes_length (n k : Nat) : (leBytes n k).length = k := by
  induction k generalizing n with
  | zero => rfl
  | succ k ih => simp [leBytes, ih]

theorem leBytes_lt (n k : Nat) : ∀ b ∈ leBytes n k, b < 256 := by
  induction k generalizing n with
  | zero => intro b hb; cases hb
  | succ k ih =>
    intro b hb
    simp only [leBytes, List.mem_cons] at hb
    rcases hb with rfl | hb
    · exact Nat.mod_lt _ (by decide)
    · exact ih _ b hb

theorem ofLE_leBytes (n k : Nat) (h : n < 256 ^ k) : ofLE (leBytes n k) = n := by
  induction k generalizing n with
  | zero => simp at h; subst h; rfl
  | succ k ih =>
    have : n / 256 < 256 ^ k := by
      rw [Nat.div_lt_iff_lt_mul (by decide)]; rw [Nat.pow_succ] at h; exact h
    simp only [leBytes, ofLE, ih _ this]
    omega

theorem unpackD_packD (bits : Nat) (h : bits < 2 ^ 64) : unpackD (packD bits) = .ok bits := by
  have h' : bits < 256 ^ 8 := by
    have : (256 : Nat) ^ 8 = 2 ^ 64 := by decide
    omega
  simp [unpackD, packD, leBytes_length, ofLE_leBytes bits 8 h']

/-! ## int text -/

theorem all_isDigit_natDigits (n : Nat) : (natDigits n).all isDigit = true := by
  rw [List.all_eq_true]; exact Ts.Json.natDigits_all n

theorem pyInt_intDigits (i : Int) : pyInt (intDigits i) = .ok i := by
  cases i with
  | ofNat n =>
    obtain ⟨d, ds, e, _, h1, h2⟩ := Ts.Json.natDigits_head n
    have hall := all_isDigit_natDigits n
    have hv := Ts.Json.ofDigits_natDigits n
    simp only [intDigits]
    rw [e] at hall hv ⊢
    have hall' : (d :: ds).all isSignOrDigit = true := by
      rw [List.all_eq_true] at hall ⊢
      intro x hx; simp [isSignOrDigit, hall x hx]
    have hds : ds.all isDigit = true := by
      simp only [List.all_cons, Bool.and_eq_true] at hall; exact hall.2
    simp only [pyInt, hall', Bool.not_true, Bool.false_eq_true, if_false]
    rw [if_neg (by omega), if_neg (by omega), if_pos hds, hv]
    rfl
  | negSucc n =>
    have hall := all_isDigit_natDigits (n + 1)
    have hv := Ts.Json.ofDigits_natDigits (n + 1)
    have hne := Ts.Json.natDigits_ne_nil (n + 1)
    simp only [intDigits]
    have hall' : ((0x2d : Nat) :: natDigits (n + 1)).all isSignOrDigit = true := by
      rw [List.all_eq_true] at hall
      rw [List.all_eq_true]
      intro x hx
      rcases List.mem_cons.mp hx with rfl | hx
      · decide
      · simp [isSignOrDigit, hall x hx]
    simp only [pyInt, hall', Bool.not_true, Bool.false_eq_true, if_false, if_true]
    rw [if_pos ⟨hne, hall⟩, hv]
    rfl

end Ts.Primitive
