import TsModel.Location
/-! Helper lemmas for the storage-location model (C05). -/
namespace Ts.Location

/-- A path component that the filesystem treats literally. -/
def goodComp (c : Str) : Prop := c ≠ [] ∧ c ≠ dotStr ∧ c ≠ dotdotStr ∧ cSlash ∉ c

theorem splitSlash_ne_nil (s : Str) : splitSlash s ≠ [] := by
  induction s with
  | nil => simp [splitSlash]
  | cons c cs ih =>
    unfold splitSlash
    split
    · simp
    · split <;> simp

theorem splitSlash_noSlash (c : Str) (h : cSlash ∉ c) : splitSlash c = [c] := by
  induction c with
  | nil => rfl
  | cons x xs ih =>
    have hx : x ≠ cSlash := fun e => h (by simp [e])
    have hxs : cSlash ∉ xs := fun e => h (by simp [e])
    simp [splitSlash, hx, ih hxs]

theorem splitSlash_append_slash (c r : Str) (h : cSlash ∉ c) :
    splitSlash (c ++ cSlash :: r) = c :: splitSlash r := by
  induction c with
  | nil => simp [splitSlash]
  | cons x xs ih =>
    have hx : x ≠ cSlash := fun e => h (by simp [e])
    have hxs : cSlash ∉ xs := fun e => h (by simp [e])
    simp [splitSlash, hx, ih hxs]

theorem splitSlash_joinSlash (cs : List Str) (h : ∀ c ∈ cs, cSlash ∉ c) (hne : cs ≠ []) :
    splitSlash (joinSlash cs) = cs := by
  induction cs with
  | nil => exact absurd rfl hne
  | cons c rest ih =>
    cases rest with
    | nil => simpa [joinSlash] using splitSlash_noSlash c (h c (by simp))
    | cons d ds =>
      have hc := h c (by simp)
      have := ih (fun x hx => h x (by simp [hx])) (by simp)
      simp only [joinSlash] at this ⊢
      rw [splitSlash_append_slash _ _ hc, this]

theorem joinSlash_append (a b : List Str) (ha : a ≠ []) (hb : b ≠ []) :
    joinSlash (a ++ b) = joinSlash a ++ cSlash :: joinSlash b := by
  induction a with
  | nil => exact absurd rfl ha
  | cons x xs ih =>
    cases xs with
    | nil =>
      cases b with
      | nil => exact absurd rfl hb
      | cons y ys => simp [joinSlash]
    | cons z zs =>
      have := ih (by simp)
      simp only [List.cons_append, joinSlash] at this ⊢
      rw [this]; simp

theorem normComps_good (b : Bool) (acc cs : List Str) (h : ∀ c ∈ cs, goodComp c) :
    normComps b acc cs = acc ++ cs := by
  induction cs generalizing acc with
  | nil => simp [normComps]
  | cons c rest ih =>
    obtain ⟨h1, h2, h3, _⟩ := h c (by simp)
    have hr := ih (acc ++ [c]) (fun x hx => h x (by simp [hx]))
    simp [normComps, h1, h2, h3, hr]

/-- first character of a joined list of good components is not a slash -/
theorem joinSlash_head (cs : List Str) (h : ∀ c ∈ cs, goodComp c) (hne : cs ≠ []) :
    ∃ x t, joinSlash cs = x :: t ∧ x ≠ cSlash := by
  cases cs with
  | nil => exact absurd rfl hne
  | cons c rest =>
    obtain ⟨h1, _, _, h4⟩ := h c (by simp)
    cases c with
    | nil => exact absurd rfl h1
    | cons x xs =>
      have hx : x ≠ cSlash := fun e => h4 (by simp [e])
      cases rest with
      | nil => exact ⟨x, xs, by simp [joinSlash], hx⟩
      | cons d ds => exact ⟨x, xs ++ cSlash :: joinSlash (d :: ds), by simp [joinSlash], hx⟩

theorem getLast?_append_ne (l1 l2 : Str) (h : l2 ≠ []) : (l1 ++ l2).getLast? = l2.getLast? := by
  induction l1 with
  | nil => rfl
  | cons x xs ih =>
    rw [List.cons_append, List.getLast?_cons_of_ne_nil (by simp [h]), ih]

/-- last character of a joined list of good components is not a slash -/
theorem joinSlash_getLast (cs : List Str) (h : ∀ c ∈ cs, goodComp c) (hne : cs ≠ []) :
    (joinSlash cs).getLast? ≠ some cSlash ∧ joinSlash cs ≠ [] := by
  induction cs with
  | nil => exact absurd rfl hne
  | cons c rest ih =>
    obtain ⟨h1, _, _, h4⟩ := h c (by simp)
    cases rest with
    | nil =>
      simp only [joinSlash]
      refine ⟨?_, h1⟩
      intro e
      exact h4 (List.mem_of_getLast? e)
    | cons d ds =>
      obtain ⟨ih1, ih2⟩ := ih (fun x hx => h x (by simp [hx])) (by simp)
      have hj : joinSlash (c :: d :: ds) = c ++ cSlash :: joinSlash (d :: ds) := rfl
      rw [hj]
      refine ⟨?_, by simp⟩
      rw [getLast?_append_ne _ _ (by simp), List.getLast?_cons_of_ne_nil ih2]
      exact ih1

theorem initialSlashes_rel (x : Nat) (t : Str) (hx : x ≠ cSlash) : initialSlashes (x :: t) = 0 := by
  cases t with
  | nil => simp [initialSlashes, hx]
  | cons y t' => cases t' <;> simp [initialSlashes, hx]

theorem initialSlashes_abs (x : Nat) (t : Str) (hx : x ≠ cSlash) : initialSlashes (cSlash :: x :: t) = 1 := by
  cases t <;> simp [initialSlashes, hx]

/-- `prefixOf abs` is "/" for an absolute root and "" for a relative one. -/
def rootPrefix (abs : Bool) : Str := if abs then [cSlash] else []

/-- Core confinement fact: with a normalised root (absolute or relative) and a storage path all of
whose components are literal, the file opened is exactly `root/p` — nothing is collapsed or escapes. -/
theorem fsPath_good (abs : Bool) (rc pc : List Str)
    (hrc : ∀ c ∈ rc, goodComp c) (hpc : ∀ c ∈ pc, goodComp c) (hr : rc ≠ []) (hp : pc ≠ []) :
    fsPath (rootPrefix abs ++ joinSlash rc) (joinSlash pc)
      = rootPrefix abs ++ joinSlash (rc ++ pc) := by
  have hall : ∀ c ∈ rc ++ pc, goodComp c := by
    intro c hc; rcases List.mem_append.mp hc with h | h
    · exact hrc c h
    · exact hpc c h
  have hne : rc ++ pc ≠ [] := by simp [hr]
  obtain ⟨px, pt, hpj, hpx⟩ := joinSlash_head pc hpc hp
  obtain ⟨hrl, hrn⟩ := joinSlash_getLast rc hrc hr
  -- posixpath.join
  have hjoin : pjoin (rootPrefix abs ++ joinSlash rc) (joinSlash pc)
      = rootPrefix abs ++ joinSlash (rc ++ pc) := by
    rw [joinSlash_append rc pc hr hp, hpj]
    have hne' : rootPrefix abs ++ joinSlash rc ≠ [] := by simp [hrn]
    have hl : (rootPrefix abs ++ joinSlash rc).getLast? ≠ some cSlash := by
      rw [getLast?_append_ne _ _ hrn]; exact hrl
    simp [pjoin, hpx, hne', hrl, hrn]
  unfold fsPath
  rw [hjoin]
  obtain ⟨x, t, hj, hx⟩ := joinSlash_head (rc ++ pc) hall hne
  have hnoslash : ∀ c ∈ rc ++ pc, cSlash ∉ c := fun c hc => (hall c hc).2.2.2
  cases abs with
  | false =>
    simp only [rootPrefix, Bool.false_eq_true, if_false, List.nil_append]
    have hk : initialSlashes (joinSlash (rc ++ pc)) = 0 := by rw [hj]; exact initialSlashes_rel x t hx
    have hnn : joinSlash (rc ++ pc) ≠ [] := by rw [hj]; simp
    simp [normpath, hnn, hk, splitSlash_joinSlash _ hnoslash hne, normComps_good _ _ _ hall]
  | true =>
    simp only [rootPrefix, if_true, List.singleton_append]
    have hk : initialSlashes (cSlash :: joinSlash (rc ++ pc)) = 1 := by
      rw [hj]; exact initialSlashes_abs x t hx
    have hsplit : splitSlash (cSlash :: joinSlash (rc ++ pc)) = [] :: (rc ++ pc) := by
      simp [splitSlash, splitSlash_joinSlash _ hnoslash hne]
    have hnc : normComps true [] ([] :: (rc ++ pc)) = rc ++ pc := by
      simp [normComps, normComps_good _ _ _ hall]
    simp [normpath, hk, hsplit, hnc]

/-! ## decimal strings and unit locations -/

theorem map_toNat_inj : ∀ (a b : List Char), a.map Char.toNat = b.map Char.toNat → a = b
  | [], [], _ => rfl
  | [], _ :: _, h => by simp at h
  | _ :: _, [], h => by simp at h
  | x :: xs, y :: ys, h => by
    simp only [List.map_cons, List.cons.injEq] at h
    rw [map_toNat_inj xs ys h.2]
    have : x = y := by
      apply Char.ext; apply UInt32.toNat_inj.mp; exact h.1
    rw [this]

theorem natStr_inj (n m : Nat) (h : natStr n = natStr m) : n = m := by
  unfold natStr at h
  have h' : Nat.toDigits 10 n = Nat.toDigits 10 m := map_toNat_inj _ _ h
  have := congrArg (fun l => Nat.ofDigitChars 10 l 0) h'
  simpa [Nat.ofDigitChars_ten_toDigits] using this

theorem natStr_digit (n c : Nat) (h : c ∈ natStr n) : 48 ≤ c ∧ c ≤ 57 := by
  unfold natStr at h
  obtain ⟨ch, hch, rfl⟩ := List.mem_map.mp h
  have := Nat.isDigit_of_mem_toDigits (b := 10) (by decide) (by decide) hch
  simp only [Char.isDigit, Bool.and_eq_true, decide_eq_true_eq] at this
  exact ⟨this.1, this.2⟩

theorem natStr_ne_nil (n : Nat) : natStr n ≠ [] := by
  unfold natStr; simp [Nat.toDigits_ne_nil]

theorem natStr_no_under (n : Nat) : cUnder ∉ natStr n := by
  intro h; have := natStr_digit n _ h; simp [cUnder] at this

/-- splitting at the first underscore is unambiguous -/
theorem split_first_under (a b r1 r2 : Str) (ha : cUnder ∉ a) (hb : cUnder ∉ b)
    (h : a ++ cUnder :: r1 = b ++ cUnder :: r2) : a = b ∧ r1 = r2 := by
  induction a generalizing b with
  | nil =>
    cases b with
    | nil => simpa using h
    | cons y ys =>
      simp only [List.nil_append, List.cons_append, List.cons.injEq] at h
      exact absurd (by simp [h.1]) hb
  | cons x xs ih =>
    cases b with
    | nil =>
      simp only [List.nil_append, List.cons_append, List.cons.injEq] at h
      exact absurd (by simp [h.1]) ha
    | cons y ys =>
      simp only [List.cons_append, List.cons.injEq] at h
      obtain ⟨rfl, h2⟩ := h
      obtain ⟨e1, e2⟩ := ih ys (fun m => ha (by simp [m])) (fun m => hb (by simp [m])) h2
      exact ⟨by rw [e1], e2⟩

theorem offsetSuffix_inj : ∀ (o1 o2 : List Nat), offsetSuffix o1 = offsetSuffix o2 → o1 = o2
  | [], [], _ => rfl
  | [], [y], h => absurd h.symm (by simpa [offsetSuffix] using natStr_ne_nil y)
  | [], y :: y' :: ys, h => by simp [offsetSuffix] at h
  | [x], [], h => absurd h (by simpa [offsetSuffix] using natStr_ne_nil x)
  | x :: x' :: xs, [], h => by simp [offsetSuffix] at h
  | [x], [y], h => by simp only [offsetSuffix] at h; rw [natStr_inj x y h]
  | [x], y :: y' :: ys, h => by
    simp only [offsetSuffix] at h
    exact absurd (by rw [h]; simp) (natStr_no_under x)
  | x :: x' :: xs, [y], h => by
    simp only [offsetSuffix] at h
    exact absurd (by rw [← h]; simp) (natStr_no_under y)
  | x :: x' :: xs, y :: y' :: ys, h => by
    simp only [offsetSuffix] at h
    obtain ⟨e1, e2⟩ := split_first_under _ _ _ _ (natStr_no_under x) (natStr_no_under y) h
    rw [natStr_inj x y e1, offsetSuffix_inj (x' :: xs) (y' :: ys) e2]

theorem offsetSuffix_chars : ∀ (o : List Nat), (offsetSuffix o).all isSuffixChar = true
  | [] => rfl
  | [x] => by
    simp only [offsetSuffix, List.all_eq_true]
    intro c hc; have := natStr_digit x c hc
    simp [isSuffixChar, this.1, this.2]
  | x :: x' :: xs => by
    have ih := offsetSuffix_chars (x' :: xs)
    simp only [offsetSuffix, List.all_append, List.all_cons, Bool.and_eq_true] at ih ⊢
    refine ⟨?_, by simp [isSuffixChar], ih⟩
    simp only [List.all_eq_true]
    intro c hc; have := natStr_digit x c hc
    simp [isSuffixChar, this.1, this.2]

theorem suffixAlias_of_append (p s : Str) (hs : s.all isSuffixChar = true) :
    suffixAlias p (p ++ cUnder :: s) = true := by
  have hp : p.isPrefixOf (p ++ cUnder :: s) = true := by
    rw [List.isPrefixOf_iff_prefix]; exact List.prefix_append _ _
  simp [suffixAlias, hp, hs]

/-- Two write units get the same location only if they are the same unit, unless one logical
path is another one extended by `_` and a string over `[0-9_]` (the D13 suffix alias). -/
theorem unitLocation_inj (p q : Str) (u1 u2 : Option (List Nat))
    (hpq : suffixAlias p q = false) (hqp : suffixAlias q p = false)
    (h : unitLocation p u1 = unitLocation q u2) : p = q ∧ u1 = u2 := by
  cases u1 with
  | none =>
    cases u2 with
    | none => exact ⟨h, rfl⟩
    | some o2 =>
      simp only [unitLocation] at h
      have := suffixAlias_of_append q (offsetSuffix o2) (offsetSuffix_chars o2)
      rw [← h, hqp] at this; cases this
  | some o1 =>
    cases u2 with
    | none =>
      simp only [unitLocation] at h
      have := suffixAlias_of_append p (offsetSuffix o1) (offsetSuffix_chars o1)
      rw [h, hpq] at this; cases this
    | some o2 =>
      simp only [unitLocation] at h
      rcases List.append_eq_append_iff.mp h with ⟨a, hq, hs⟩ | ⟨a, hp, hs⟩
      · cases a with
        | nil =>
          simp only [List.append_nil, List.nil_append, List.cons.injEq, true_and] at hq hs
          exact ⟨hq.symm, by rw [offsetSuffix_inj o1 o2 hs]⟩
        | cons c a' =>
          simp only [List.cons_append, List.cons.injEq] at hs
          obtain ⟨rfl, hs2⟩ := hs
          have hall : a'.all isSuffixChar = true := by
            have := offsetSuffix_chars o1
            rw [hs2, List.all_append, Bool.and_eq_true] at this
            exact this.1
          have := suffixAlias_of_append p a' hall
          rw [← hq, hpq] at this; cases this
      · cases a with
        | nil =>
          simp only [List.append_nil, List.nil_append, List.cons.injEq, true_and] at hp hs
          exact ⟨hp, by rw [offsetSuffix_inj o2 o1 hs]⟩
        | cons c a' =>
          simp only [List.cons_append, List.cons.injEq] at hs
          obtain ⟨rfl, hs2⟩ := hs
          have hall : a'.all isSuffixChar = true := by
            have := offsetSuffix_chars o2
            rw [hs2, List.all_append, Bool.and_eq_true] at this
            exact this.1
          have := suffixAlias_of_append q a' hall
          rw [← hp, hqp] at this; cases this

/-! ## split/join round trip, owners, location components -/

theorem splitSlash_mem_noSlash (s : Str) : ∀ c ∈ splitSlash s, cSlash ∉ c := by
  induction s with
  | nil => simp [splitSlash]
  | cons x xs ih =>
    unfold splitSlash
    split
    · intro c hc
      rcases List.mem_cons.mp hc with rfl | h
      · simp
      · exact ih c h
    · rename_i hx
      split
      · intro c hc; simp at hc; subst hc; simp; exact fun e => hx e.symm
      · rename_i h t heq
        intro c hc
        rcases List.mem_cons.mp hc with rfl | hm
        · have := ih h (by rw [heq]; simp)
          simp; exact ⟨fun e => hx e.symm, this⟩
        · exact ih c (by rw [heq]; simp [hm])

theorem joinSlash_splitSlash (s : Str) : joinSlash (splitSlash s) = s := by
  induction s with
  | nil => rfl
  | cons x xs ih =>
    unfold splitSlash
    split
    · rename_i hx
      have hne := splitSlash_ne_nil xs
      cases hsp : splitSlash xs with
      | nil => exact absurd hsp hne
      | cons h t => rw [hsp] at ih; simp [joinSlash, ih, hx]
    · cases hsp : splitSlash xs with
      | nil => exact absurd hsp (splitSlash_ne_nil xs)
      | cons h t =>
        rw [hsp] at ih
        cases t with
        | nil => simp [joinSlash] at ih ⊢; exact ih
        | cons t1 t2 => simp [joinSlash] at ih ⊢; exact ih

theorem safePath_good (l : Str) (h : safePath l = true) : ∀ c ∈ splitSlash l, goodComp c := by
  intro c hc
  have := (List.all_eq_true.mp h) c hc
  simp only [safeComp, decide_eq_true_eq] at this
  exact ⟨this.1, this.2.1, this.2.2, splitSlash_mem_noSlash l c hc⟩

example : replicatedStr = "replicated".toList.map Char.toNat := by decide
example : shardedStr = "sharded".toList.map Char.toNat := by decide
example : replicatedShardedStr = "replicated_sharded".toList.map Char.toNat := by decide
example : batchedStr = "batched".toList.map Char.toNat := by decide

theorem ownerStr_good (o : Owner) : goodComp (ownerStr o) := by
  cases o with
  | rank r =>
    refine ⟨natStr_ne_nil r, ?_, ?_, ?_⟩
    · intro e; have := natStr_digit r cDot (by simp [ownerStr] at e; rw [e]; simp [dotStr]); simp [cDot] at this
    · intro e; have := natStr_digit r cDot (by simp [ownerStr] at e; rw [e]; simp [dotdotStr]); simp [cDot] at this
    · intro e; have := natStr_digit r cSlash e; simp [cSlash] at this
  | replicated => simp [goodComp, ownerStr, replicatedStr, dotStr, dotdotStr, cDot, cSlash]
  | sharded => simp [goodComp, ownerStr, shardedStr, dotStr, dotdotStr, cDot, cSlash]
  | replicatedSharded => simp [goodComp, ownerStr, replicatedShardedStr, dotStr, dotdotStr, cDot, cSlash]

theorem natStr_ne_of_head (r : Nat) (c : Nat) (t : Str) (hc : ¬ (48 ≤ c ∧ c ≤ 57)) : natStr r ≠ c :: t := by
  intro e; exact hc (natStr_digit r c (by rw [e]; simp))

theorem ownerStr_inj (o o' : Owner) (h : ownerStr o = ownerStr o') : o = o' := by
  cases o <;> cases o' <;> simp only [ownerStr, replicatedStr, shardedStr, replicatedShardedStr] at h
  all_goals first
    | rfl
    | (rw [natStr_inj _ _ h])
    | (exact absurd h (natStr_ne_of_head _ _ _ (by omega)))
    | (exact absurd h.symm (natStr_ne_of_head _ _ _ (by omega)))
    | (simp at h)

/-- storage path of a safe logical path: owner directory, then the logical path. -/
theorem storagePath_safe (o : Owner) (l : Str) (h : safePath l = true) :
    storagePath o l = joinSlash (ownerStr o :: splitSlash l) := by
  have hg := safePath_good l h
  obtain ⟨x, t, hj, hx⟩ := joinSlash_head (splitSlash l) hg (splitSlash_ne_nil l)
  rw [joinSlash_splitSlash] at hj
  have ho := ownerStr_good o
  have hl : (ownerStr o).getLast? ≠ some cSlash := fun e => ho.2.2.2 (List.mem_of_getLast? e)
  have hcons : joinSlash (ownerStr o :: splitSlash l) = ownerStr o ++ cSlash :: l := by
    cases hsp : splitSlash l with
    | nil => exact absurd hsp (splitSlash_ne_nil l)
    | cons a b =>
      have := joinSlash_splitSlash l
      rw [hsp] at this
      simp [joinSlash, this]
  rw [hcons, hj]
  simp [storagePath, pjoin, hx, ho.1, hl]

end Ts.Location
