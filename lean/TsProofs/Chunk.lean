import TsModel.Chunk
/-! Helper definitions and lemmas for C16: consecutive ranges, slices, `torch.chunk` arithmetic,
`chunk_tensor`, tiled reads. -/
namespace Ts.Chunk
open Ts.Storage (Bytes slice)

/-- `Consec a rs b`: the half-open ranges `rs` are listed in order, each starts where the previous one
ends, the first starts at `a`, the last ends at `b`, and no range is inverted. In other words `rs` is an
exact partition of `[a, b)` into consecutive (possibly empty) intervals. -/
def Consec : Nat → List (Nat × Nat) → Nat → Prop
  | a, [], b => a = b
  | a, r :: rs, b => r.1 = a ∧ r.1 ≤ r.2 ∧ Consec r.2 rs b

theorem Consec.le : ∀ {rs : List (Nat × Nat)} {a b : Nat}, Consec a rs b → a ≤ b
  | [], _, _, h => by simp [Consec] at h; omega
  | r :: rs, a, b, h => by
    obtain ⟨h1, h2, h3⟩ := h
    have := Consec.le h3
    omega

/-- Sum of the lengths of consecutive ranges is the length of the whole interval. -/
theorem Consec.sum : ∀ {rs : List (Nat × Nat)} {a b : Nat}, Consec a rs b →
    (rs.map (fun r => r.2 - r.1)).sum = b - a
  | [], _, _, h => by simp [Consec] at h; simp [h]
  | r :: rs, a, b, h => by
    obtain ⟨h1, h2, h3⟩ := h
    have := Consec.sum h3
    have := Consec.le h3
    simp only [List.map_cons, List.sum_cons, *]
    omega

/-- Every member of a consecutive list lies inside `[a, b]` and is not inverted. -/
theorem Consec.mem : ∀ {rs : List (Nat × Nat)} {a b : Nat}, Consec a rs b →
    ∀ r ∈ rs, a ≤ r.1 ∧ r.1 ≤ r.2 ∧ r.2 ≤ b
  | [], _, _, _ => by simp
  | r :: rs, a, b, h => by
    obtain ⟨h1, h2, h3⟩ := h
    intro q hq
    rcases List.mem_cons.mp hq with rfl | hq
    · have := Consec.le h3; omega
    · have := Consec.mem h3 q hq; omega

/-- Consecutive ranges are pairwise disjoint: an earlier one ends before a later one starts. -/
theorem Consec.pairwise : ∀ {rs : List (Nat × Nat)} {a b : Nat}, Consec a rs b →
    rs.Pairwise (fun p q => p.2 ≤ q.1)
  | [], _, _, _ => List.Pairwise.nil
  | r :: rs, a, b, h => by
    obtain ⟨h1, h2, h3⟩ := h
    refine List.Pairwise.cons ?_ (Consec.pairwise h3)
    intro q hq
    exact (Consec.mem h3 q hq).1

/-- Every position of `[a, b)` lies in exactly one of the consecutive ranges. -/
theorem Consec.cover_unique : ∀ {rs : List (Nat × Nat)} {a b : Nat}, Consec a rs b →
    ∀ x, a ≤ x → x < b → (rs.filter (fun r => decide (r.1 ≤ x ∧ x < r.2))).length = 1
  | [], a, b, h => by simp [Consec] at h; intro x; omega
  | r :: rs, a, b, h => by
    obtain ⟨h1, h2, h3⟩ := h
    intro x hax hxb
    by_cases hx : x < r.2
    · have hnone : rs.filter (fun q => decide (q.1 ≤ x ∧ x < q.2)) = [] := by
        rw [List.filter_eq_nil_iff]
        intro q hq
        have := (Consec.mem h3 q hq).1
        simp; omega
      have : decide (r.1 ≤ x ∧ x < r.2) = true := by simp; omega
      rw [List.filter_cons, if_pos this, hnone]; rfl
    · have : decide (r.1 ≤ x ∧ x < r.2) = false := by simp; omega
      rw [List.filter_cons, if_neg (by simp [this])]
      exact Consec.cover_unique h3 x (by omega) hxb

theorem Consec.append : ∀ {rs ss : List (Nat × Nat)} {a b c : Nat}, Consec a rs b → Consec b ss c →
    Consec a (rs ++ ss) c
  | [], ss, a, b, c, h1, h2 => by simp [Consec] at h1; subst h1; simpa using h2
  | r :: rs, ss, a, b, c, h1, h2 => by
    obtain ⟨h11, h12, h13⟩ := h1
    exact ⟨h11, h12, Consec.append h13 h2⟩

theorem slice_length (b : Bytes) (lo hi : Nat) (h : hi ≤ b.length) : (slice b lo hi).length = hi - lo := by
  simp [slice]; omega

theorem slice_append_slice (b : Bytes) (x y z : Nat) (hxy : x ≤ y) (hyz : y ≤ z) :
    slice b x y ++ slice b y z = slice b x z := by
  simp only [slice]
  have : z - x = (y - x) + (z - y) := by omega
  rw [this, List.take_add, List.drop_drop]
  congr 3
  omega

theorem slice_self (b : Bytes) (x : Nat) : slice b x x = [] := by simp [slice]

theorem slice_all (b : Bytes) : slice b 0 b.length = b := by simp [slice]

/-- Reading consecutive ranges and concatenating the results is reading the whole interval. -/
theorem Consec.flatten_slices (f : Bytes) : ∀ {rs : List (Nat × Nat)} {a b : Nat}, Consec a rs b →
    (rs.map (fun r => slice f r.1 r.2)).flatten = slice f a b
  | [], a, b, h => by simp [Consec] at h; subst h; simp [slice_self]
  | r :: rs, a, b, h => by
    obtain ⟨h1, h2, h3⟩ := h
    have := Consec.le h3
    rw [List.map_cons, List.flatten_cons, Consec.flatten_slices f h3, ← h1]
    exact slice_append_slice f r.1 r.2 b h2 this

/-- A slice of a slice. -/
theorem slice_slice (f : Bytes) (a b x y : Nat) (hxy : x ≤ y) (hyb : a + y ≤ b) :
    slice (slice f a b) x y = slice f (a + x) (a + y) := by
  simp only [slice, List.drop_take, List.drop_drop, List.take_take]
  congr 1
  omega

/-! ### ceil / torch.chunk arithmetic -/

theorem ceilDiv_mul_ge (a b : Nat) (hb : 0 < b) : a ≤ ceilDiv a b * b := by
  unfold ceilDiv
  have := @Nat.lt_div_mul_add (a + b - 1) b hb
  omega

theorem ceilDiv_pred_mul_lt (a b : Nat) (hb : 0 < b) (ha : 0 < a) : (ceilDiv a b - 1) * b < a := by
  unfold ceilDiv
  have h := Nat.div_mul_le_self (a + b - 1) b
  have hpos : 0 < (a + b - 1) / b := Nat.div_pos (by omega) hb
  have : ((a + b - 1) / b - 1) * b = (a + b - 1) / b * b - b := by
    rw [Nat.sub_mul, Nat.one_mul]
  omega

theorem ceilDiv_pos (a b : Nat) (hb : 0 < b) (ha : 0 < a) : 0 < ceilDiv a b := by
  unfold ceilDiv
  exact Nat.div_pos (by omega) hb

theorem ceilDiv_zero (b : Nat) (hb : 0 < b) : ceilDiv 0 b = 0 := by
  unfold ceilDiv
  exact Nat.div_eq_of_lt (by omega)

theorem ceilDiv_le_of_le_mul (a b c : Nat) (hb : 0 < b) (h : a ≤ c * b) : ceilDiv a b ≤ c := by
  unfold ceilDiv
  have : (a + b - 1) / b < c + 1 := by
    rw [Nat.div_lt_iff_lt_mul hb, Nat.add_mul]
    omega
  omega

/-- What `torch.chunk` returns for a non-empty dim: `num - 1` chunks of `split` rows and a last,
non-empty, possibly shorter one. -/
theorem torchChunk_pos (d n : Nat) (hd : 0 < d) (hn : 0 < n) :
    ∃ k last, torchChunk d n = .ok (List.replicate k (ceilDiv d n) ++ [last]) ∧
      k * ceilDiv d n + last = d ∧ 0 < last ∧ last ≤ ceilDiv d n ∧ k + 1 ≤ n := by
  have hs : 0 < ceilDiv d n := ceilDiv_pos d n hn hd
  have hq : 0 < ceilDiv d (ceilDiv d n) := ceilDiv_pos d _ hs hd
  have hmax : max (ceilDiv d (ceilDiv d n)) 1 = ceilDiv d (ceilDiv d n) := by omega
  have hlt := ceilDiv_pred_mul_lt d (ceilDiv d n) hs hd
  have hge := ceilDiv_mul_ge d (ceilDiv d n) hs
  have hle : ceilDiv d (ceilDiv d n) ≤ n :=
    ceilDiv_le_of_le_mul d (ceilDiv d n) n hs (by have := ceilDiv_mul_ge d n hn; rw [Nat.mul_comm]; exact this)
  have hcomm : ceilDiv d n * (ceilDiv d (ceilDiv d n) - 1) = (ceilDiv d (ceilDiv d n) - 1) * ceilDiv d n :=
    Nat.mul_comm _ _
  have e : ceilDiv d (ceilDiv d n) * ceilDiv d n
      = (ceilDiv d (ceilDiv d n) - 1) * ceilDiv d n + ceilDiv d n := by
    have : ceilDiv d (ceilDiv d n) = (ceilDiv d (ceilDiv d n) - 1) + 1 := by omega
    rw [this, Nat.add_mul, Nat.one_mul]; simp
  refine ⟨ceilDiv d (ceilDiv d n) - 1, d - (ceilDiv d (ceilDiv d n) - 1) * ceilDiv d n, ?_, ?_, ?_, ?_, ?_⟩
  · simp only [torchChunk, hmax]
    rw [if_neg (by omega), if_neg (by omega), hcomm]
  · omega
  · omega
  · omega
  · omega

theorem torchChunk_zero (n : Nat) (hn : 0 < n) : torchChunk 0 n = .ok (List.replicate n 0) := by
  simp [torchChunk]; omega

/-- `torch.chunk` sizes: at least one, at most `n`, they sum to the dim; none is empty unless the dim is. -/
theorem torchChunk_spec (d n : Nat) (hn : 0 < n) :
    ∃ sizes, torchChunk d n = .ok sizes ∧ sizes.sum = d ∧ sizes ≠ [] ∧ sizes.length ≤ n ∧
      (0 < d → ∀ s ∈ sizes, 0 < s ∧ s ≤ ceilDiv d n) := by
  rcases Nat.eq_zero_or_pos d with rfl | hd
  · refine ⟨_, torchChunk_zero n hn, ?_, ?_, ?_, ?_⟩
    · simp
    · intro h; have := congrArg List.length h; simp at this; omega
    · simp
    · intro h; omega
  · obtain ⟨k, last, he, hsum, hl0, hl1, hk⟩ := torchChunk_pos d n hd hn
    refine ⟨_, he, ?_, by simp, by simp; omega, ?_⟩
    · simp [List.sum_append_nat, List.sum_replicate_nat]; omega
    · intro _ s hs
      rcases List.mem_append.mp hs with h | h
      · have := (List.mem_replicate.mp h).2
        have := ceilDiv_pos d n hn hd
        omega
      · simp at h; omega

/-! ### offsets -/

theorem withOffsets_consec : ∀ (sizes : List Nat) (off : Nat),
    Consec off ((withOffsets off sizes).map (fun p => (p.1, p.1 + p.2))) (off + sizes.sum)
  | [], off => by simp [withOffsets, Consec]
  | s :: ss, off => by
    simp only [withOffsets, List.map_cons, Consec, List.sum_cons]
    refine ⟨trivial, by omega, ?_⟩
    have := withOffsets_consec ss (off + s)
    rw [Nat.add_assoc] at this
    exact this

theorem withOffsets_sizes : ∀ (sizes : List Nat) (off : Nat), (withOffsets off sizes).map (·.2) = sizes
  | [], _ => rfl
  | s :: ss, off => by simp [withOffsets, withOffsets_sizes ss]

theorem withOffsets_ne_nil (sizes : List Nat) (off : Nat) (h : sizes ≠ []) : withOffsets off sizes ≠ [] := by
  cases sizes with
  | nil => exact absurd rfl h
  | cons s ss => simp [withOffsets]

/-- Scaling consecutive `(offset, size)` pieces by a row width keeps them consecutive. -/
theorem consec_scale (w : Nat) : ∀ (ps : List (Nat × Nat)) (a b : Nat),
    Consec a (ps.map (fun p => (p.1, p.1 + p.2))) b →
    Consec (a * w) (ps.map (fun p => (p.1 * w, (p.1 + p.2) * w))) (b * w)
  | [], a, b, h => by simp [Consec] at h ⊢; rw [h]
  | p :: ps, a, b, h => by
    simp only [List.map_cons, Consec] at h ⊢
    obtain ⟨h1, h2, h3⟩ := h
    refine ⟨by rw [h1], Nat.mul_le_mul_right w h2, consec_scale w ps _ _ h3⟩

theorem numel_normShape (shape : List Nat) :
    (normShape shape).1 * numel (normShape shape).2 = numel shape := by
  cases shape <;> simp [normShape, numel]

/-! ### chunk_tensor -/

/-- The dim-0 pieces computed by `chunk_tensor` for a non-empty tensor and a threshold ≥ 1. -/
theorem pieces_spec (shape : List Nat) (es maxBytes : Nat) (hthr : 1 ≤ maxBytes)
    (hpos : 0 < numel shape * es) :
    ∃ ps, pieces shape es maxBytes = .ok ps ∧ ps ≠ [] ∧
      Consec 0 (ps.map (fun p => (p.1, p.1 + p.2))) (normShape shape).1 ∧
      ∀ p ∈ ps, 0 < p.2 ∧
        p.2 ≤ ceilDiv (normShape shape).1
          (ceilDiv ((normShape shape).1 * numel (normShape shape).2 * es) maxBytes) := by
  have hn := numel_normShape shape
  generalize hd : (normShape shape).1 = d at *
  generalize hr : (normShape shape).2 = rest at *
  have hsz : 0 < d * numel rest * es := by rw [hn]; exact hpos
  have hd0 : 0 < d := by
    rcases Nat.eq_zero_or_pos d with h | h
    · subst h; simp at hsz
    · exact h
  have hn0 : 0 < ceilDiv (d * numel rest * es) maxBytes := ceilDiv_pos _ _ hthr hsz
  obtain ⟨sizes, he, hsum, hne, _, hall⟩ := torchChunk_spec d _ hn0
  have hns : normShape shape = (d, rest) := by rw [← hd, ← hr]
  refine ⟨withOffsets 0 sizes, ?_, withOffsets_ne_nil _ _ hne, ?_, ?_⟩
  · simp only [pieces, hns]
    rw [if_neg (by omega), he]
  · have := withOffsets_consec sizes 0
    rw [hsum, Nat.zero_add] at this
    exact this
  · intro p hp
    have : p.2 ∈ (withOffsets 0 sizes).map (·.2) := List.mem_map_of_mem hp
    rw [withOffsets_sizes] at this
    exact hall hd0 _ this

/-- A chunk never exceeds the threshold by a whole row: `split · row < thr + row`. -/
theorem split_bound (d row thr : Nat) (hthr : 0 < thr) (hd : 0 < d) (hrow : 0 < row) :
    ceilDiv d (ceilDiv (d * row) thr) * row < thr + row := by
  have hS : 0 < d * row := Nat.mul_pos hd hrow
  have hn : 0 < ceilDiv (d * row) thr := ceilDiv_pos _ _ hthr hS
  have h1 := ceilDiv_pred_mul_lt d _ hn hd
  have h2 := ceilDiv_mul_ge (d * row) thr hthr
  have hsp : 0 < ceilDiv d (ceilDiv (d * row) thr) := ceilDiv_pos _ _ hn hd
  generalize ceilDiv (d * row) thr = n at *
  generalize ceilDiv d n = sp at *
  have hA : (sp - 1) * row < thr := by
    apply Nat.lt_of_not_le
    intro h3
    have c1 : n * thr ≤ n * ((sp - 1) * row) := Nat.mul_le_mul_left n h3
    have c2 : n * ((sp - 1) * row) = ((sp - 1) * n) * row := by
      rw [← Nat.mul_assoc, Nat.mul_comm n (sp - 1)]
    have c3 : ((sp - 1) * n) * row < d * row := Nat.mul_lt_mul_of_pos_right h1 hrow
    omega
  have : sp * row = (sp - 1) * row + row := by
    have : sp = (sp - 1) + 1 := by omega
    rw [this, Nat.add_mul, Nat.one_mul]; simp
  omega

theorem numel_toChunk (rest : List Nat) (p : Nat × Nat) : numel (toChunk rest p).sizes = p.2 * numel rest := rfl

/-! ### tiles -/

theorem tilesFrom_spec (rest : List Nat) (es base : Nat) : ∀ (sizes : List Nat) (off : Nat),
    Consec (base + off) ((tilesFrom rest es base off sizes).map (fun t => (t.lo, t.hi)))
      (base + off + sizes.sum * numel rest * es) ∧
    ((tilesFrom rest es base off sizes).map (fun t => numel t.shape)).sum = sizes.sum * numel rest ∧
    (∀ t ∈ tilesFrom rest es base off sizes, t.hi = t.lo + numel t.shape * es ∧
      ∃ s ∈ sizes, t.shape = s :: rest) ∧
    (tilesFrom rest es base off sizes).length = sizes.length
  | [], off => by simp [tilesFrom, Consec]
  | s :: ss, off => by
    obtain ⟨h1, h2, h3, h4⟩ := tilesFrom_spec rest es base ss (off + s * numel rest * es)
    refine ⟨?_, ?_, ?_, ?_⟩
    · simp only [tilesFrom, List.map_cons, Consec, List.sum_cons]
      refine ⟨trivial, by omega, ?_⟩
      have e : base + off + (s + ss.sum) * numel rest * es
          = base + (off + s * numel rest * es) + ss.sum * numel rest * es := by
        rw [Nat.add_mul, Nat.add_mul]; omega
      rw [e]
      have e2 : base + off + s * numel rest * es = base + (off + s * numel rest * es) := by omega
      rw [e2]
      exact h1
    · simp only [tilesFrom, List.map_cons, List.sum_cons, h2, numel, Nat.add_mul]
    · intro t ht
      simp only [tilesFrom, List.mem_cons] at ht
      rcases ht with rfl | ht
      · exact ⟨by simp [numel], s, by simp, rfl⟩
      · obtain ⟨a, s', hs', e⟩ := h3 t ht
        exact ⟨a, s', by simp [hs'], e⟩
    · simp [tilesFrom, h4]

end Ts.Chunk
