import TsModel.Rng
/-!
Helper lemmas for `TsModel.Rng`: `sortKeys` is `sorted(set(..))`, strictly ascending lists are
determined by their members, the `state_dict` loop skips keys the rank does not hold.
-/
namespace Ts.Rng

/-! ### the order on keys -/

theorem key_lt_trans {a b c : Key} (h₁ : a < b) (h₂ : b < c) : a < c := List.lt_trans h₁ h₂
theorem key_lt_irrefl (a : Key) : ¬ a < a := List.lt_irrefl a
theorem key_lt_asymm {a b : Key} (h : a < b) : ¬ b < a := List.lt_asymm h

theorem key_trichotomy (a b : Key) : a < b ∨ a = b ∨ b < a := by
  by_cases h : a < b
  · exact .inl h
  · have h' : b ≤ a := List.not_lt.mp h
    rcases List.le_iff_lt_or_eq.mp h' with h'' | h''
    · exact .inr (.inr h'')
    · exact .inr (.inl h''.symm)

/-! ### `insertKey` / `sortKeys` -/

theorem mem_insertKey (x k : Key) (l : List Key) : x ∈ insertKey k l ↔ x = k ∨ x ∈ l := by
  induction l with
  | nil => simp [insertKey]
  | cons h t ih =>
    simp only [insertKey]
    split
    · simp
    · split
      · rename_i _ he; subst he; simp
      · simp only [List.mem_cons, ih]
        constructor
        · rintro (h1 | h1 | h1) <;> simp [h1]
        · rintro (h1 | h1 | h1) <;> simp [h1]

theorem mem_sortKeys (x : Key) (ks : List Key) : x ∈ sortKeys ks ↔ x ∈ ks := by
  induction ks with
  | nil => simp [sortKeys]
  | cons k t ih =>
    have : sortKeys (k :: t) = insertKey k (sortKeys t) := rfl
    rw [this, mem_insertKey, ih]; simp

theorem sorted_insertKey (k : Key) (l : List Key) (h : l.Pairwise (· < ·)) :
    (insertKey k l).Pairwise (· < ·) := by
  induction l with
  | nil => simp [insertKey]
  | cons a t ih =>
    have ha : ∀ y ∈ t, a < y := (List.pairwise_cons.mp h).1
    have ht : t.Pairwise (· < ·) := (List.pairwise_cons.mp h).2
    simp only [insertKey]
    split
    · rename_i hlt
      refine List.pairwise_cons.mpr ⟨?_, h⟩
      intro y hy
      rcases List.mem_cons.mp hy with rfl | hy
      · exact hlt
      · exact key_lt_trans hlt (ha y hy)
    · split
      · exact h
      · rename_i hnlt hne
        have hak : a < k := by
          rcases key_trichotomy k a with h1 | h1 | h1
          · exact absurd h1 hnlt
          · exact absurd h1 hne
          · exact h1
        refine List.pairwise_cons.mpr ⟨?_, ih ht⟩
        intro y hy
        rcases (mem_insertKey y k t).mp hy with rfl | hy
        · exact hak
        · exact ha y hy

theorem sorted_sortKeys (ks : List Key) : (sortKeys ks).Pairwise (· < ·) := by
  induction ks with
  | nil => simp [sortKeys]
  | cons k t ih => exact sorted_insertKey k _ ih

theorem nodup_of_sorted {l : List Key} (h : l.Pairwise (· < ·)) : l.Nodup :=
  List.Pairwise.imp (fun {a b} (hab : a < b) (he : a = b) => by
    subst he; exact key_lt_irrefl _ hab) h

theorem nodup_sortKeys (ks : List Key) : (sortKeys ks).Nodup := nodup_of_sorted (sorted_sortKeys ks)

/-- A strictly ascending list is determined by its members. -/
theorem sorted_unique : ∀ {l₁ l₂ : List Key}, l₁.Pairwise (· < ·) → l₂.Pairwise (· < ·) →
    (∀ x, x ∈ l₁ ↔ x ∈ l₂) → l₁ = l₂
  | [], [], _, _, _ => rfl
  | [], b :: _, _, _, h => by have := (h b).mpr (by simp); simp at this
  | a :: _, [], _, _, h => by have := (h a).mp (by simp); simp at this
  | a :: t₁, b :: t₂, h₁, h₂, h => by
    have ha₁ := (List.pairwise_cons.mp h₁).1
    have hb₂ := (List.pairwise_cons.mp h₂).1
    have hab : a = b := by
      have am : a ∈ b :: t₂ := (h a).mp (by simp)
      have bm : b ∈ a :: t₁ := (h b).mpr (by simp)
      rcases List.mem_cons.mp am with e | am
      · exact e
      · rcases List.mem_cons.mp bm with e | bm
        · exact e.symm
        · exact absurd (ha₁ b bm) (key_lt_asymm (hb₂ a am))
    subst hab
    have : t₁ = t₂ := by
      apply sorted_unique (List.pairwise_cons.mp h₁).2 (List.pairwise_cons.mp h₂).2
      intro x
      constructor
      · intro hx
        have : x ∈ a :: t₂ := (h x).mp (List.mem_cons_of_mem _ hx)
        rcases List.mem_cons.mp this with e | hx'
        · exact absurd (e ▸ ha₁ x hx) (key_lt_irrefl _)
        · exact hx'
      · intro hx
        have : x ∈ a :: t₁ := (h x).mpr (List.mem_cons_of_mem _ hx)
        rcases List.mem_cons.mp this with e | hx'
        · exact absurd (e ▸ hb₂ x hx) (key_lt_irrefl _)
        · exact hx'
    rw [this]

/-! ### dict lookup -/

theorem lookup_eq_none_iff {σ : Type} (app : App σ) (k : Key) :
    app.lookup k = none ↔ k ∉ app.map (·.1) := by
  induction app with
  | nil => simp
  | cons kv t ih =>
    obtain ⟨k', v⟩ := kv
    simp only [List.lookup, List.map_cons, List.mem_cons, not_or]
    by_cases hk : k = k'
    · subst hk; simp
    · have : (k == k') = false := by simpa using hk
      simp [this, ih, hk]

/-! ### the `state_dict` loop -/

variable {σ : Type}

/-- The loop's effect on the RNG is the composition of the looked-up draws, in list order. -/
theorem sdLoop_rng (others : App σ) (gkeys : List Key) (r : Run σ) :
    (sdLoop others gkeys r).rng = gkeys.foldl (fun s k => sdDrawOf others k s) r.rng := by
  induction gkeys generalizing r with
  | nil => rfl
  | cons k ks ih =>
    simp only [sdLoop, List.foldl_cons] at ih ⊢
    rw [ih]
    congr 1
    simp only [sdStep, sdDrawOf]
    cases others.lookup k with
    | none => rfl
    | some st => cases st <;> rfl

/-- Keys the rank does not hold contribute nothing. -/
theorem foldl_sdDraw_filter (others : App σ) (gkeys : List Key) (s : σ) :
    gkeys.foldl (fun s k => sdDrawOf others k s) s
      = (gkeys.filter (fun k => decide (k ∈ others.map (·.1)))).foldl (fun s k => sdDrawOf others k s) s := by
  induction gkeys generalizing s with
  | nil => rfl
  | cons k ks ih =>
    by_cases hk : k ∈ others.map (·.1)
    · simp only [List.foldl_cons, List.filter_cons, hk, decide_true, ite_true]
      exact ih _
    · have hn : others.lookup k = none := (lookup_eq_none_iff others k).mpr hk
      have hid : sdDrawOf others k s = s := by simp [sdDrawOf, hn]
      simp only [List.foldl_cons, List.filter_cons, hk, decide_false, hid]
      exact ih _

/-- The loop over `sorted(set(own ++ extra))` visits exactly the own keys, ascending, once each. -/
theorem sdLoop_sorted (others : App σ) (extra : List Key) (ks' : List Key)
    (hs : ks'.Pairwise (· < ·)) (hm : ∀ k, k ∈ ks' ↔ k ∈ others.map (·.1)) (r : Run σ) :
    (sdLoop others (sortKeys (others.map (·.1) ++ extra)) r).rng
      = ks'.foldl (fun s k => sdDrawOf others k s) r.rng := by
  rw [sdLoop_rng, foldl_sdDraw_filter]
  have : (sortKeys (others.map (·.1) ++ extra)).filter (fun k => decide (k ∈ others.map (·.1))) = ks' := by
    apply sorted_unique
    · exact (sorted_sortKeys _).filter _
    · exact hs
    · intro x
      simp only [List.mem_filter, mem_sortKeys, List.mem_append, decide_eq_true_eq, hm]
      constructor
      · exact fun h => h.2
      · exact fun h => ⟨.inl h, h⟩
  rw [this]

/-! ### `popRng` -/

theorem popRng_noRng (app : App σ) (h : ∀ kv ∈ app, kv.2.isRng = false) :
    popRng app = .ok (none, app) := by
  have : app.filter (fun kv => kv.2.isRng) = [] := by
    simp only [List.filter_eq_nil_iff]
    intro kv hkv; simp [h kv hkv]
  simp [popRng, this]

/-- An RNGState under key `k` anywhere in a well-formed dict without other RNGStates is popped,
leaving the other items in their order. -/
theorem popRng_one (pre post : App σ) (k : Key)
    (hpre : ∀ kv ∈ pre, kv.2.isRng = false) (hpost : ∀ kv ∈ post, kv.2.isRng = false)
    (hwf : WF (pre ++ (k, Stateful.rng) :: post)) :
    popRng (pre ++ (k, Stateful.rng) :: post) = .ok (some k, pre ++ post) := by
  have f1 : pre.filter (fun kv => kv.2.isRng) = [] := by
    simp only [List.filter_eq_nil_iff]; intro kv hkv; simp [hpre kv hkv]
  have f2 : post.filter (fun kv => kv.2.isRng) = [] := by
    simp only [List.filter_eq_nil_iff]; intro kv hkv; simp [hpost kv hkv]
  have hf : (pre ++ (k, Stateful.rng) :: post).filter (fun kv => kv.2.isRng) = [(k, Stateful.rng)] := by
    rw [List.filter_append, f1, List.filter_cons, f2]
    simp [Stateful.isRng]
  -- distinct keys: deleting key `k` removes exactly that item
  have hk : ∀ kv ∈ pre ++ post, kv.1 ≠ k := by
    intro kv hkv he
    unfold WF at hwf
    simp only [List.map_append, List.map_cons] at hwf
    have hnd := List.nodup_append.mp hwf
    have hpost' := (List.nodup_cons.mp hnd.2.1)
    rcases List.mem_append.mp hkv with hm | hm
    · exact hnd.2.2 k (he ▸ List.mem_map_of_mem hm) k (by simp) rfl
    · exact hpost'.1 (he ▸ List.mem_map_of_mem hm)
  have g1 : pre.filter (fun kv => kv.1 != k) = pre := by
    simp only [List.filter_eq_self]; intro kv hkv
    simpa using hk kv (List.mem_append_left _ hkv)
  have g2 : post.filter (fun kv => kv.1 != k) = post := by
    simp only [List.filter_eq_self]; intro kv hkv
    simpa using hk kv (List.mem_append_right _ hkv)
  have hg : (pre ++ (k, Stateful.rng) :: post).filter (fun kv => kv.1 != k) = pre ++ post := by
    rw [List.filter_append, g1, List.filter_cons, g2]
    simp
  simp only [popRng, hf, hg]

/-! ### the load loop -/

/-- If every key the rank holds was saved and no RNGState is among them, the loop succeeds. -/
theorem loadLoop_ok (snap : Snap σ) (others : App σ)
    (hno : ∀ kv ∈ others, kv.2.isRng = false)
    (hsub : ∀ k ∈ others.map (·.1), k ∈ snap.keys) (gkeys : List Key) (r : Run σ) :
    ∃ r', loadLoop snap others gkeys r = .ok r' := by
  induction gkeys generalizing r with
  | nil => exact ⟨r, rfl⟩
  | cons k ks ih =>
    simp only [loadLoop]
    cases hl : others.lookup k with
    | none => exact ih r
    | some st =>
      have hmem : (k, st) ∈ others := by
        clear ih hno hsub
        induction others with
        | nil => simp at hl
        | cons kv t iht =>
          obtain ⟨k', v⟩ := kv
          simp only [List.lookup] at hl
          by_cases hk : k = k'
          · subst hk; simp at hl; subst hl; simp
          · have : (k == k') = false := by simpa using hk
            simp only [this] at hl
            exact List.mem_cons_of_mem _ (iht hl)
      have hks : k ∈ snap.keys := hsub k (List.mem_map_of_mem (f := (·.1)) hmem)
      cases st with
      | rng => have := hno _ hmem; simp [Stateful.isRng] at this
      | other sd ld =>
        simp only [loadStateful, hks, ite_true]
        exact ih _

/-! ### staging -/

theorem stageLeaf_get (h : Heap) (op : LeafOp) (a : Addr)
    (hfresh : ∀ x f, op = .cloneThenView x f → f ≠ a) :
    (stageLeaf h op).1.get a = h.get a := by
  cases op with
  | view x => rfl
  | cloneThenView x f =>
    simp only [stageLeaf]
    split
    · rfl
    · have hne : f ≠ a := hfresh x f rfl
      have : (a == f) = false := by simpa using (fun e => hne e.symm)
      simp [Heap.get, List.lookup, this]

end Ts.Rng
