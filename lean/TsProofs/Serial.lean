import TsModel.Serial
/-!
Helper lemmas for C17 (tensor (de)serialization). Core tactics only.
Facts about the *generated* tables are proved by `decide`, so they are re-checked against the
repository source on every run.
-/
namespace Ts.Serial

/-! ### table facts (finite, `decide`) -/

/-- Everything the general theorems need to know about one buffer-protocol dtype. -/
def bpDtypeOk (d : String) : Bool :=
  match torchItemsize d with
  | some es =>
    decide (0 < es) && decide (dtypeToElementSize d = .ok es) && Gen.allSupportedDtypes.contains d
      && decide (dtypeToString d = .ok (torchStr d)) && decide (stringToDtype (torchStr d) = .ok d)
  | none => false

theorem bp_all_ok : ∀ d ∈ Gen.bufferProtocolDtypes, bpDtypeOk d = true := by decide

/-- Everything the general theorems need to know about one supported dtype. -/
def supportedDtypeOk (d : String) : Bool :=
  match torchItemsize d with
  | some es =>
    decide (0 < es) && decide (dtypeToElementSize d = .ok es)
      && decide (dtypeToString d = .ok (torchStr d)) && decide (stringToDtype (torchStr d) = .ok d)
  | none => false

theorem supported_all_ok : ∀ d ∈ Gen.allSupportedDtypes, supportedDtypeOk d = true := by decide

theorem serializer_values_ok :
    ∃ ts bp, serializerValue "TORCH_SAVE" = .ok ts ∧ serializerValue "BUFFER_PROTOCOL" = .ok bp ∧
      ts ≠ bp := by
  refine ⟨"torch_save", "buffer_protocol", ?_, ?_, ?_⟩ <;> decide

theorem contains_iff {l : List String} {d : String} : l.contains d = true ↔ d ∈ l := by
  simp

structure BpFacts (d : String) (es : Nat) : Prop where
  itemsize : torchItemsize d = some es
  pos : 0 < es
  table : dtypeToElementSize d = .ok es
  supported : d ∈ Gen.allSupportedDtypes
  toStr : dtypeToString d = .ok (torchStr d)
  ofStr : stringToDtype (torchStr d) = .ok d

theorem bp_facts {d : String} (h : d ∈ Gen.bufferProtocolDtypes) : ∃ es, BpFacts d es := by
  have := bp_all_ok d h
  unfold bpDtypeOk at this
  split at this
  · rename_i es hes
    simp only [Bool.and_eq_true, decide_eq_true_eq, contains_iff] at this
    obtain ⟨⟨⟨⟨h1, h2⟩, h3⟩, h4⟩, h5⟩ := this
    exact ⟨es, ⟨hes, h1, h2, h3, h4, h5⟩⟩
  · cases this

structure SupFacts (d : String) (es : Nat) : Prop where
  itemsize : torchItemsize d = some es
  pos : 0 < es
  table : dtypeToElementSize d = .ok es
  toStr : dtypeToString d = .ok (torchStr d)
  ofStr : stringToDtype (torchStr d) = .ok d

theorem supported_facts {d : String} (h : d ∈ Gen.allSupportedDtypes) : ∃ es, SupFacts d es := by
  have := supported_all_ok d h
  unfold supportedDtypeOk at this
  split at this
  · rename_i es hes
    simp only [Bool.and_eq_true, decide_eq_true_eq] at this
    obtain ⟨⟨⟨h1, h2⟩, h4⟩, h5⟩ := this
    exact ⟨es, ⟨hes, h1, h2, h4, h5⟩⟩
  · cases this

/-! ### well-formedness -/

theorem wf_iff {t : Tensor} {es : Nat} (h : torchItemsize t.dtype = some es) :
    t.WF ↔ t.bytes.length = es * numel t.shape := by
  unfold Tensor.WF
  rw [h]
  simp only [Option.map_some, Option.some.injEq]
  exact eq_comm

/-! ### slices -/

theorem slice_zero_all (b : Bytes) (n : Nat) (h : b.length = n) : slice b 0 (0 + n) = b := by
  simp [slice, ← h]

theorem slice_append_mid (pre c post : Bytes) :
    slice (pre ++ c ++ post) pre.length (pre.length + c.length) = c := by
  simp [slice, List.append_assoc]

/-- `contiguous_view_as_untyped_storage` returns exactly the tensor's bytes, wherever the
contiguous tensor sits in its storage. -/
theorem untypedStorageSlice_mid (pre c post : Bytes) (off n es : Nat)
    (hpre : pre.length = off * es) (hc : c.length = n * es) :
    untypedStorageSlice (pre ++ c ++ post) off n es = c := by
  unfold untypedStorageSlice
  rw [← hpre, ← hc]
  exact slice_append_mid pre c post

theorem viewStorageAs_uint8 (s : Bytes) : viewStorageAs untypedViewDtype s = .ok s := by
  have h : torchItemsize untypedViewDtype = some 1 := by decide
  simp [viewStorageAs, h]

theorem viaUntypedStorage_eq {t : Tensor} {es : Nat} (hes : torchItemsize t.dtype = some es)
    (hwf : t.WF) : viaUntypedStorage t = .ok t.bytes := by
  have hl := (wf_iff hes).1 hwf
  unfold viaUntypedStorage viaUntypedStorageWith
  rw [hes]
  simp only
  rw [viewStorageAs_uint8]
  unfold untypedStorageSlice
  have : slice t.bytes (0 * es) (0 * es + numel t.shape * es) = t.bytes := by
    rw [Nat.zero_mul]
    exact slice_zero_all _ _ (by rw [hl, Nat.mul_comm])
  rw [this]

/-- `tensor_as_memoryview` on a well-formed buffer-protocol tensor returns its row-major bytes
(both the numpy path and the bfloat16 untyped-storage path). -/
theorem asMemoryview_eq {t : Tensor} (hd : t.dtype ∈ Gen.bufferProtocolDtypes) (hwf : t.WF) :
    asMemoryview t = .ok t.bytes := by
  obtain ⟨es, f⟩ := bp_facts hd
  unfold asMemoryview
  have hc : Gen.bufferProtocolDtypes.contains t.dtype = true := contains_iff.2 hd
  simp only [hc, Bool.not_true, Bool.false_eq_true, ite_false]
  split
  · exact viaUntypedStorage_eq f.itemsize hwf
  · rfl

theorem asMemoryview_unsupported {t : Tensor} (hd : t.dtype ∉ Gen.bufferProtocolDtypes) :
    asMemoryview t = .error .valueError := by
  unfold asMemoryview
  have hc : Gen.bufferProtocolDtypes.contains t.dtype = false := by
    cases h : Gen.bufferProtocolDtypes.contains t.dtype
    · rfl
    · exact absurd (contains_iff.1 h) hd
  simp only [hc, Bool.not_false, ↓reduceIte]

/-! ### tensor_from_memoryview -/

theorem fromMemoryview_ok {d : String} {es : Nat} (hes : torchItemsize d = some es)
    (hpos : 0 < es) (shape : List Nat) (buf : Bytes) (hl : buf.length = es * numel shape) :
    fromMemoryview d shape buf = .ok ⟨d, shape, buf⟩ := by
  unfold fromMemoryview
  rw [hes]
  simp only
  by_cases h0 : buf.length = 0
  · have hb : buf = [] := List.eq_nil_of_length_eq_zero h0
    have hn : numel shape = 0 := by
      rw [h0] at hl
      rcases Nat.mul_eq_zero.1 hl.symm with h | h
      · omega
      · exact h
    simp [reshape, numel, hn, hb]
  · have hm : buf.length % es = 0 := by rw [hl]; exact Nat.mul_mod_right es _
    have hdiv : buf.length / es = numel shape := by rw [hl]; exact Nat.mul_div_cancel_left _ hpos
    simp [h0, hm, reshape, numel, hdiv]

theorem fromMemoryview_error {d : String} {es : Nat} (hes : torchItemsize d = some es)
    (shape : List Nat) (buf : Bytes) (hl : buf.length ≠ es * numel shape) :
    fromMemoryview d shape buf = .error .valueError ∨
    fromMemoryview d shape buf = .error .runtimeError := by
  unfold fromMemoryview
  rw [hes]
  simp only
  by_cases h0 : buf.length = 0
  · have hn : numel shape ≠ 0 := by
      intro h; apply hl; rw [h0, h, Nat.mul_zero]
    right
    simp only [h0, ite_true, reshape, numel, Nat.zero_mul]
    rw [if_neg (fun h => hn h.symm)]
  · simp only [h0, ite_false]
    by_cases hm : buf.length % es = 0
    · right
      have hne : buf.length / es ≠ numel shape := by
        intro h
        apply hl
        have := Nat.div_add_mod buf.length es
        rw [hm, h] at this
        omega
      simp only [hm, ne_eq, not_true_eq_false, ite_false, reshape, numel, Nat.mul_one]
      rw [if_neg hne]
    · left
      simp [hm]

/-! ### layouts -/

theorem sum_map_const (l : List Nat) (c : Nat) : (l.map (fun _ => c)).sum = l.length * c := by
  induction l with
  | nil => simp
  | cons a l ih => simp [ih, Nat.add_mul, Nat.add_comm]

theorem offsets_length (shape : List Nat) : ∀ (strides : List Nat) (off : Nat),
    shape.length = strides.length → (offsets shape strides off).length = numel shape := by
  induction shape with
  | nil => intro strides off _; simp [offsets, numel]
  | cons n ns ih =>
    intro strides off h
    cases strides with
    | nil => simp at h
    | cons s ss =>
      have hl : ns.length = ss.length := by simpa using h
      simp only [offsets, numel, List.length_flatMap]
      have : (List.map (fun i => (offsets ns ss (off + i * s)).length) (List.range n))
          = (List.range n).map (fun _ => numel ns) := by
        apply List.map_congr_left
        intro i _
        exact ih ss _ hl
      rw [this, sum_map_const, List.length_range]

theorem fetchAll_length (es : Nat) (st : Bytes) : ∀ (os : List Nat) (b : Bytes),
    fetchAll es st os = .ok b → b.length = es * os.length := by
  intro os
  induction os with
  | nil => intro b h; simp [fetchAll] at h; subst h; simp
  | cons o os ih =>
    intro b h
    unfold fetchAll at h
    split at h
    · rename_i hle
      split at h
      · rename_i r hr
        injection h with h
        subst h
        have := ih r hr
        simp only [List.length_append, slice, List.length_take, List.length_drop, this,
          List.length_cons, Nat.mul_add_one]
        omega
      · cases h
    · cases h

/-- The result of `contiguous` is a well-formed tensor value of the view's dtype and shape. -/
theorem contiguous_wf {v : Strided} {t : Tensor} (h : contiguous v = .ok t) :
    t.dtype = v.dtype ∧ t.shape = v.shape ∧ t.WF := by
  unfold contiguous at h
  split at h
  · cases h
  · rename_i es hes
    split at h
    · cases h
    · rename_i hlen
      split at h
      · rename_i b hb
        injection h with h
        subst h
        refine ⟨rfl, rfl, ?_⟩
        have hl := fetchAll_length es v.storage _ b hb
        rw [offsets_length v.shape v.strides v.offset (by simpa using hlen)] at hl
        exact (wf_iff (t := ⟨v.dtype, v.shape, b⟩) hes).2 hl
      · cases h

/-! ### contiguous views are read as one consecutive slice -/

theorem flatMap_range_range' (m off : Nat) : ∀ n,
    (List.range n).flatMap (fun i => List.range' (off + i * m) m) = List.range' off (n * m) := by
  intro n
  induction n with
  | zero => simp
  | succ n ih =>
    rw [List.range_succ, List.flatMap_append, ih]
    simp only [List.flatMap_cons, List.flatMap_nil, List.append_nil]
    rw [List.range'_append_1, Nat.succ_mul]

theorem offsets_rowMajor (shape : List Nat) : ∀ off,
    offsets shape (rowMajorStrides shape) off = List.range' off (numel shape) := by
  induction shape with
  | nil => intro off; simp [offsets, numel]
  | cons n ns ih =>
    intro off
    simp only [offsets, rowMajorStrides, numel]
    have : (fun i => offsets ns (rowMajorStrides ns) (off + i * numel ns))
        = (fun i => List.range' (off + i * numel ns) (numel ns)) := by
      funext i; exact ih _
    rw [this, flatMap_range_range']

theorem slice_adjacent (b : Bytes) (a c e : Nat) (h1 : a ≤ c) (h2 : c ≤ e) :
    slice b a c ++ slice b c e = slice b a e := by
  unfold slice
  have : e - a = (c - a) + (e - c) := by omega
  rw [this, List.take_add, List.drop_drop]
  congr 3
  omega

theorem fetchAll_range' (es : Nat) (st : Bytes) : ∀ (k off : Nat),
    es * (off + k) ≤ st.length →
    fetchAll es st (List.range' off k) = .ok (slice st (es * off) (es * off + es * k)) := by
  intro k
  induction k with
  | zero => intro off _; simp [fetchAll, slice]
  | succ k ih =>
    intro off h
    have hle : es * off + es ≤ st.length := by
      have : es * (off + (k + 1)) = es * off + es * k + es := by
        rw [Nat.mul_add, Nat.mul_add_one]; omega
      omega
    have h' : es * (off + 1 + k) ≤ st.length := by
      have : off + 1 + k = off + (k + 1) := by omega
      rw [this]; exact h
    simp only [List.range'_succ, fetchAll, hle, ite_true, ih (off + 1) h']
    congr 1
    have e1 : es * (off + 1) = es * off + es := Nat.mul_add_one _ _
    rw [e1, slice_adjacent _ _ _ _ (by omega) (by omega)]
    congr 1
    rw [Nat.mul_add_one]; omega

theorem rowMajorStrides_length (shape : List Nat) : (rowMajorStrides shape).length = shape.length := by
  induction shape with
  | nil => rfl
  | cons n ns ih => simp [rowMajorStrides, ih]

/-- `contiguous()` of an already contiguous tensor is that tensor. -/
theorem contiguous_toStrided (t : Tensor) (hwf : t.WF) : contiguous t.toStrided = .ok t := by
  unfold Tensor.WF at hwf
  cases hes : torchItemsize t.dtype with
  | none => rw [hes] at hwf; simp at hwf
  | some es =>
    have hl := (wf_iff hes).1 (by unfold Tensor.WF; exact hwf)
    unfold contiguous Tensor.toStrided
    simp only [hes, rowMajorStrides_length, ne_eq, not_true_eq_false, ite_false, offsets_rowMajor]
    rw [fetchAll_range' es t.bytes (numel t.shape) 0 (by rw [Nat.zero_add, hl]; exact Nat.le_refl _)]
    simp only [Nat.mul_zero]
    rw [slice_zero_all _ _ hl]

/-! ### the reference codec is lawful (the codec assumption is satisfiable) -/

theorem map_ofNat_toNat (l : List Char) : (l.map Char.toNat).map Char.ofNat = l := by
  induction l with
  | nil => rfl
  | cons c cs ih =>
    simp only [List.map_cons, ih]
    congr 1
    simp [Char.ofNat_toNat]

theorem refCodec_lawful : refCodec.Lawful := by
  intro t
  cases t with | mk d sh b =>
  have hmap : List.map (Char.ofNat ∘ Char.toNat) d.toList = d.toList := by
    rw [← List.map_map]; exact map_ofNat_toNat _
  have h1 : ¬ (d.toList.length + (sh.length + List.length b + 1) < d.toList.length) := by omega
  have h2 : ¬ (sh.length + List.length b < sh.length) := by omega
  simp only [refCodec, refSave, refLoad]
  simp [List.length_append, h1, h2, hmap, String.ofList_toList]

end Ts.Serial
