import TsProofs.Commit
/-! Sync protocol (`Snapshot.take`): invariant over all reachable states. -/
namespace Ts.Commit
set_option linter.unusedSimpArgs false
set_option linter.unusedVariables false

/-- The rank has left the first barrier. -/
def past1 : SPC → Bool
  | .io | .in1 | .raisedIO => false
  | _ => true

/-- Leader program points before the metadata write begins. -/
def spreMeta : SPC → Bool
  | .io | .in1 | .mBegin | .raisedIO => true
  | _ => false

def sleaderPC : SPC → Bool
  | .mBegin | .mEnd | .excM | .raisedM => true
  | _ => false

def spostMeta : SPC → Bool
  | .pre2 | .in2 | .retOk => true
  | _ => false

structure SInvA (cfg : Cfg) (s : SState) : Prop where
  s_io : ∀ r, entered1 (s.pc r) = true → ∀ w, w < cfg.nw r → s.ws r w = .done
  s_ioC : ∀ r, Ev.ioComplete r ∈ s.hist ↔ entered1 (s.pc r) = true
  s_rio : ∀ r, s.pc r = .raisedIO → ∃ w, w < cfg.nw r ∧ s.ws r w = .failed
  mB : Ev.mBegin ∈ s.hist ↔ s.mst ≠ .idle
  mE : Ev.mEnd ∈ s.hist ↔ s.mst = .done
  mF : Ev.mFail ∈ s.hist ↔ s.mst = .failed
  m_ok : s.mst = .done → cfg.mfail = false
  m_fail : s.mst = .failed → cfg.mfail = true
  s_pre : spreMeta (s.pc 0) = true → s.mst = .idle
  s_mE : s.pc 0 = .mEnd → s.mst = .inflight
  s_lead : ∀ r, sleaderPC (s.pc r) = true → r = 0
  s_post : spostMeta (s.pc 0) = true → s.mst = .done
  s_exc : s.pc 0 = .excM ∨ s.pc 0 = .raisedM → s.mst = .failed
  rOk : ∀ r, Ev.returnOk r ∈ s.hist ↔ s.pc r = .retOk
  rRaise : ∀ r, Ev.returnRaise r ∈ s.hist ↔ (s.pc r = .raisedIO ∨ s.pc r = .raisedM)

structure SInvB (cfg : Cfg) (s : SState) : Prop where
  s_b1 : ∀ r, r < cfg.n → past1 (s.pc r) = true → ∀ k, k < cfg.n → entered1 (s.pc k) = true
  commit_all : Ev.mBegin ∈ s.hist → ∀ k, k < cfg.n → Ev.ioComplete k ∈ s.hist
  s_ret : ∀ r, r < cfg.n → s.pc r = .retOk → entered2 (s.pc 0) = true
  s_idle : ∀ r, cfg.n ≤ r → s.pc r = .io

structure SInv (cfg : Cfg) (s : SState) : Prop where
  w : WInv cfg s.ws s.hist
  a : SInvA cfg s
  b : SInvB cfg s

theorem sinv_init (cfg : Cfg) : SInv cfg SState.init := by
  refine ⟨winv_init cfg, ?_, ?_⟩ <;> constructor <;>
    simp [SState.init, entered1, entered2, past1, spreMeta, sleaderPC, spostMeta]

macro "sctl_cases " hs:ident : tactic =>
  `(tactic| (unfold sctl? at $hs:ident
             repeat' (split at $hs:ident)
             all_goals (first | contradiction | skip)
             all_goals (injection $hs:ident with $hs:ident; subst $hs:ident)))

theorem sinvA_ctl {cfg : Cfg} {s s' : SState} {r : Nat} (h : SInvA cfg s)
    (hs : sctl? cfg s r = some s') : SInvA cfg s' := by
  have ⟨h1, h2, h3, h4, h5, h6, h7, h8, h9, h10, h11, h12, h13, h14, h15⟩ := h
  clear h
  sctl_cases hs
  all_goals (constructor <;> intros <;>
    grind [upd, entered1, spreMeta, sleaderPC, spostMeta, = anyFailed_iff, = allDone_iff])

theorem sinvB_ctl {cfg : Cfg} {s s' : SState} {r : Nat} (ha : SInvA cfg s) (h : SInvB cfg s)
    (hr : r < cfg.n) (hs : sctl? cfg s r = some s') : SInvB cfg s' := by
  have ⟨h1, h2, h3, h4⟩ := h
  have a2 := ha.s_ioC
  have a11 := ha.s_lead
  clear h ha
  sctl_cases hs
  all_goals (constructor <;> intros <;>
    grind [upd, entered1, entered2, past1, sleaderPC, = allB_iff])

theorem sctl_ws {cfg : Cfg} {s s' : SState} {r : Nat} (hs : sctl? cfg s r = some s') :
    s'.ws = s.ws ∧ ∃ e, s'.hist = e :: s.hist ∧
      ∀ r w, e ≠ .wBegin r w ∧ e ≠ .wEnd r w ∧ e ≠ .wFail r w := by
  sctl_cases hs
  all_goals simp

end Ts.Commit
