import TsModel.Collective
import TsProofs.Rng
/-!
Helper lemmas for `TsModel.Collective`: the collective projection of every local branch is the same
list, so the trace of a valid rank is a function of the global inputs only (`takeCanon`,
`restoreCanon`); counting `state_dict` / `load_state_dict` events per key.
-/
namespace Ts.Collective
open Ts.Rng (Key sortKeys mem_sortKeys nodup_sortKeys)

/-! ### canonical traces (functions of the global inputs only) -/

def budgetCanon (g : Global) : List Op := if g.overrideSet then [] else [.gatherHostnames]

def takeTailCanon (isAsync : Bool) (g : Global) : List Op :=
  if g.partitionerDisabled then [] else
  [.gatherWriteLoads, .bcastPartition, .gatherManifest] ++ budgetCanon g ++
  (if isAsync then (if g.storeBootstrap then [.bcastStoreAddr] else [])
   else [.commitBarrierPre, .commitBarrierPost])

def takeCanon (isAsync : Bool) (g : Global) : List Op :=
  [.bcastPath, .gatherReplicatedGlobs] ++ (if isAsync then [.bcastBarrierId] else []) ++
  [.gatherKeys] ++ g.keys.map .keyBarrier ++ [.gatherReplicatedPaths, .bcastReplicatedPaths] ++
  takeTailCanon isAsync g

def restoreCanon (g : Global) : List Op :=
  [.gatherKeys] ++ budgetCanon g ++ g.keys.map .keyBarrier

@[simp] theorem op?_coll (o : Op) : Ev.op? (.coll o) = some o := rfl
@[simp] theorem op?_stateDict (k : Key) : Ev.op? (.stateDict k) = none := rfl
@[simp] theorem op?_load (k : Key) : Ev.op? (.load k) = none := rfl
@[simp] theorem op?_prepareWrite (k : Key) (lk : LeafKind) : Ev.op? (.prepareWrite k lk) = none := rfl
@[simp] theorem op?_partitionOnRank0 : Ev.op? .partitionOnRank0 = none := rfl
@[simp] theorem op?_batchWrites : Ev.op? .batchWrites = none := rfl
@[simp] theorem op?_writeMetadata : Ev.op? .writeMetadata = none := rfl
@[simp] theorem op?_raise (e : Err) : Ev.op? (.raise e) = none := rfl

theorem filterMap_budgetEvs (g : Global) : (budgetEvs g).filterMap Ev.op? = budgetCanon g := by
  unfold budgetEvs budgetCanon; split <;> rfl

theorem filterMap_takeKeyLoop (l : Local) (ks : List Key) :
    (takeKeyLoop l ks).filterMap Ev.op? = ks.map .keyBarrier := by
  induction ks with
  | nil => rfl
  | cons k ks ih =>
    simp only [takeKeyLoop, List.filterMap_append, ih, List.map_cons]
    split <;> simp

theorem filterMap_restoreKeyLoop (l : Local) (ks : List Key) :
    (restoreKeyLoop l ks).filterMap Ev.op? = ks.map .keyBarrier := by
  induction ks with
  | nil => rfl
  | cons k ks ih =>
    simp only [restoreKeyLoop, List.filterMap_append, ih, List.map_cons]
    split <;> simp

theorem filterMap_map_stateDict (ks : List Key) : (ks.map Ev.stateDict).filterMap Ev.op? = [] := by
  induction ks with
  | nil => rfl
  | cons k ks ih => simp

theorem filterMap_map_load (ks : List Key) : (ks.map Ev.load).filterMap Ev.op? = [] := by
  induction ks with
  | nil => rfl
  | cons k ks ih => simp

theorem filterMap_prepareEvs (l : Local) : (prepareEvs l).filterMap Ev.op? = [] := by
  unfold prepareEvs
  rw [List.filterMap_eq_nil_iff]
  intro e he
  simp only [List.mem_flatMap, List.mem_map] at he
  obtain ⟨_, _, _, _, rfl⟩ := he
  rfl

theorem filterMap_rngLoad (ks : List Key) :
    (ks.flatMap (fun k => [Ev.stateDict k, Ev.load k])).filterMap Ev.op? = [] := by
  rw [List.filterMap_eq_nil_iff]
  intro e he
  simp only [List.mem_flatMap, List.mem_cons, List.not_mem_nil, or_false] at he
  obtain ⟨_, _, rfl | rfl⟩ := he <;> rfl

theorem filterMap_takeTail (isAsync : Bool) (l : Local) (g : Global) :
    (takeTail isAsync l g).filterMap Ev.op? = takeTailCanon isAsync g := by
  obtain ⟨w, ks, ov, bd, pd, sb⟩ := g
  by_cases hr : l.rank = 0
  · cases ov <;> cases bd <;> cases pd <;> cases sb <;> cases isAsync <;>
      simp only [takeTail, takeTailCanon, budgetEvs, budgetCanon, if_pos hr] <;> rfl
  · cases ov <;> cases bd <;> cases pd <;> cases sb <;> cases isAsync <;>
      simp only [takeTail, takeTailCanon, budgetEvs, budgetCanon, if_neg hr] <;> rfl

/-- The collective sequence of a valid rank during take / async_take depends on the global inputs only. -/
theorem takeTrace_eq_canon (isAsync : Bool) (l : Local) (g : Global) (hv : l.Valid) :
    takeTrace isAsync l g = takeCanon isAsync g := by
  have hv' : ¬ 1 < l.rngKeys.length := by unfold Local.Valid at hv; omega
  unfold takeTrace takeEvents takeCanon
  simp only [hv', ite_false, List.filterMap_append, filterMap_takeKeyLoop, filterMap_map_stateDict,
    filterMap_map_load, filterMap_prepareEvs, filterMap_takeTail]
  cases isAsync <;> simp

theorem restoreTrace_eq_canon (l : Local) (g : Global) (hv : l.Valid) :
    restoreTrace l g = restoreCanon g := by
  have hv' : ¬ 1 < l.rngKeys.length := by unfold Local.Valid at hv; omega
  unfold restoreTrace restoreEvents restoreCanon
  simp only [hv', ite_false, List.filterMap_append, filterMap_restoreKeyLoop, filterMap_budgetEvs,
    filterMap_rngLoad]
  simp

/-! ### who calls `state_dict` / `load_state_dict` for which key -/

theorem count_stateDict_takeKeyLoop (l : Local) (k : Key) (ks : List Key) (hnd : ks.Nodup) :
    (takeKeyLoop l ks).count (.stateDict k) = if k ∈ l.keys ∧ k ∈ ks then 1 else 0 := by
  induction ks with
  | nil => simp [takeKeyLoop]
  | cons k' t ih =>
    have hk't : k' ∉ t := (List.nodup_cons.mp hnd).1
    have iht := ih (List.nodup_cons.mp hnd).2
    simp only [takeKeyLoop, List.count_append, iht]
    by_cases he : k' = k
    · subst he
      by_cases hm : k' ∈ l.keys <;> simp [hm, hk't]
    · have he' : ¬ k = k' := fun e => he e.symm
      by_cases hm : k' ∈ l.keys <;> simp [hm, he, he']

theorem count_load_restoreKeyLoop (l : Local) (k : Key) (ks : List Key) (hnd : ks.Nodup) :
    (restoreKeyLoop l ks).count (.load k) = if k ∈ l.keys ∧ k ∈ ks then 1 else 0 := by
  induction ks with
  | nil => simp [restoreKeyLoop]
  | cons k' t ih =>
    have hk't : k' ∉ t := (List.nodup_cons.mp hnd).1
    have iht := ih (List.nodup_cons.mp hnd).2
    simp only [restoreKeyLoop, List.count_append, iht]
    by_cases he : k' = k
    · subst he
      by_cases hm : k' ∈ l.keys <;> simp [hm, hk't]
    · have he' : ¬ k = k' := fun e => he e.symm
      by_cases hm : k' ∈ l.keys <;> simp [hm, he, he']

theorem count_map_stateDict (ks : List Key) (k : Key) :
    (ks.map Ev.stateDict).count (.stateDict k) = ks.count k := by
  induction ks with
  | nil => rfl
  | cons k' t ih =>
    simp only [List.map_cons, List.count_cons, ih]
    by_cases he : k' = k <;> simp [he]

theorem count_flatMap_load (ks : List Key) (k : Key) :
    (ks.flatMap (fun k => [Ev.stateDict k, Ev.load k])).count (.load k) = ks.count k := by
  induction ks with
  | nil => rfl
  | cons k' t ih =>
    simp only [List.flatMap_cons, List.count_append, ih, List.count_cons]
    by_cases he : k' = k <;> simp [he] <;> omega

theorem stateDict_notMem_takeTail (isAsync : Bool) (l : Local) (g : Global) (k : Key) :
    Ev.stateDict k ∉ takeTail isAsync l g := by
  unfold takeTail budgetEvs
  by_cases hp : g.partitionerDisabled <;> by_cases hr : l.rank = 0 <;> by_cases hb : g.batchingDisabled <;>
    cases isAsync <;> by_cases hs : g.storeBootstrap <;> by_cases ho : g.overrideSet <;>
    simp [hp, hr, hb, hs, ho]

theorem stateDict_notMem_prepareEvs (l : Local) (k : Key) : Ev.stateDict k ∉ prepareEvs l := by
  unfold prepareEvs
  simp only [List.mem_flatMap, List.mem_map, not_exists, not_and]
  intro _ _ _ _ h
  cases h

theorem globalKeys_nodup (locals : List Local) : (globalKeys locals).Nodup := nodup_sortKeys _

theorem mem_globalKeys_of_mem (locals : List Local) (l : Local) (hl : l ∈ locals) (k : Key)
    (hk : k ∈ l.keys) : k ∈ globalKeys locals := by
  unfold globalKeys
  rw [mem_sortKeys, List.mem_flatMap]
  exact ⟨l, hl, hk⟩

end Ts.Collective
