import TsModel.ManifestOps
/-!
Helper lemmas about `TsModel.ManifestOps`: association lists, path strings, the per-rank views,
merged sharded entries and elasticity.
-/
namespace Ts.ManifestOps

/-! ## association lists -/
section AList
variable {β : Type}

@[simp] theorem alookup_nil (p : Str) : alookup ([] : AList β) p = none := rfl

theorem alookup_cons (k : Str) (v : β) (m : AList β) (p : Str) :
    alookup ((k, v) :: m) p = if k = p then some v else alookup m p := rfl

theorem alookup_ainsert_self (m : AList β) (p : Str) (e : β) : alookup (ainsert m p e) p = some e := by
  induction m with
  | nil => simp [ainsert, alookup_cons]
  | cons kv m ih =>
    obtain ⟨k, v⟩ := kv
    by_cases h : k = p <;> simp [ainsert, alookup_cons, h, ih]

theorem alookup_ainsert_ne (m : AList β) (p q : Str) (e : β) (h : q ≠ p) :
    alookup (ainsert m p e) q = alookup m q := by
  induction m with
  | nil =>
    have : p ≠ q := fun e => h e.symm
    simp [ainsert, alookup_cons, this]
  | cons kv m ih =>
    obtain ⟨k, v⟩ := kv
    by_cases hk : k = p
    · subst hk
      have : k ≠ q := fun e => h e.symm
      simp [ainsert, alookup_cons, this]
    · by_cases hq : k = q
      · subst hq; simp [ainsert, alookup_cons, h]
      · simp [ainsert, alookup_cons, hk, hq, ih]

theorem alookup_ainsert (m : AList β) (p q : Str) (e : β) :
    alookup (ainsert m p e) q = if q = p then some e else alookup m q := by
  by_cases h : q = p
  · subst h; simp [alookup_ainsert_self]
  · simp [h, alookup_ainsert_ne m p q e h]

theorem alookup_aerase_self (m : AList β) (p : Str) : alookup (aerase m p) p = none := by
  induction m with
  | nil => rfl
  | cons kv m ih =>
    obtain ⟨k, v⟩ := kv
    by_cases h : k = p <;> simp [aerase, alookup_cons, h, ih]

theorem alookup_aerase_ne (m : AList β) (p q : Str) (h : q ≠ p) :
    alookup (aerase m p) q = alookup m q := by
  induction m with
  | nil => rfl
  | cons kv m ih =>
    obtain ⟨k, v⟩ := kv
    by_cases hk : k = p
    · subst hk
      have : k ≠ q := fun e => h e.symm
      simp [aerase, alookup_cons, this, ih]
    · by_cases hq : k = q
      · subst hq; simp [aerase, alookup_cons, h]
      · simp [aerase, alookup_cons, hk, hq, ih]

theorem alookup_aerase (m : AList β) (p q : Str) :
    alookup (aerase m p) q = if q = p then none else alookup m q := by
  by_cases h : q = p
  · subst h; simp [alookup_aerase_self]
  · simp [h, alookup_aerase_ne m p q h]

theorem alookup_eq_none_iff (m : AList β) (p : Str) : alookup m p = none ↔ p ∉ akeys m := by
  induction m with
  | nil => simp [akeys]
  | cons kv m ih =>
    obtain ⟨k, v⟩ := kv
    by_cases h : k = p
    · subst h; simp [alookup_cons, akeys]
    · have h' : p ≠ k := fun e => h e.symm
      simp [alookup_cons, h, akeys, h'] at ih ⊢
      exact ih

theorem alookup_isSome_iff (m : AList β) (p : Str) : (alookup m p).isSome ↔ p ∈ akeys m := by
  have := alookup_eq_none_iff m p
  cases h : alookup m p <;> simp_all

theorem mem_akeys_of_alookup {m : AList β} {p : Str} {e : β} (h : alookup m p = some e) : p ∈ akeys m := by
  rw [← alookup_isSome_iff]; simp [h]

theorem akeys_ainsert_of_mem (m : AList β) (p : Str) (e : β) (h : p ∈ akeys m) :
    akeys (ainsert m p e) = akeys m := by
  induction m with
  | nil => simp [akeys] at h
  | cons kv m ih =>
    obtain ⟨k, v⟩ := kv
    by_cases hk : k = p
    · simp [ainsert, hk, akeys]
    · have : p ∈ akeys m := by
        simp [akeys] at h ⊢
        rcases h with h | h
        · exact absurd h.symm hk
        · exact h
      simp only [ainsert, hk, ite_false, akeys, List.map_cons] at ih ⊢
      rw [ih this]

theorem akeys_ainsert_of_not_mem (m : AList β) (p : Str) (e : β) (h : p ∉ akeys m) :
    akeys (ainsert m p e) = akeys m ++ [p] := by
  induction m with
  | nil => simp [ainsert, akeys]
  | cons kv m ih =>
    obtain ⟨k, v⟩ := kv
    have hk : k ≠ p := by
      intro e; apply h; simp [akeys, e]
    have : p ∉ akeys m := by
      intro hm; apply h; simp [akeys] at hm ⊢; exact Or.inr hm
    simp only [ainsert, hk, ite_false, akeys, List.map_cons, List.cons_append] at ih ⊢
    rw [ih this]

theorem nodup_akeys_ainsert (m : AList β) (p : Str) (e : β) (h : (akeys m).Nodup) :
    (akeys (ainsert m p e)).Nodup := by
  by_cases hp : p ∈ akeys m
  · rw [akeys_ainsert_of_mem m p e hp]; exact h
  · rw [akeys_ainsert_of_not_mem m p e hp]
    exact List.nodup_append.mpr ⟨h, by simp, by
      intro a ha b hb
      simp at hb; subst hb
      intro e; subst e; exact hp ha⟩

theorem akeys_aerase (m : AList β) (p : Str) : akeys (aerase m p) = (akeys m).filter (· ≠ p) := by
  induction m with
  | nil => rfl
  | cons kv m ih =>
    obtain ⟨k, v⟩ := kv
    by_cases hk : k = p
    · simp [aerase, hk, akeys] at ih ⊢; exact ih
    · simp [aerase, hk, akeys] at ih ⊢; exact ih

theorem nodup_akeys_aerase (m : AList β) (p : Str) (h : (akeys m).Nodup) : (akeys (aerase m p)).Nodup := by
  rw [akeys_aerase]; exact h.filter _

theorem alookup_of_mem_nodup {m : AList β} {p : Str} {e : β} (hm : (p, e) ∈ m) (hn : (akeys m).Nodup) :
    alookup m p = some e := by
  induction m with
  | nil => simp at hm
  | cons kv m ih =>
    obtain ⟨k, v⟩ := kv
    simp only [akeys, List.map_cons, List.nodup_cons] at hn
    rcases List.mem_cons.mp hm with h | h
    · injection h with h1 h2; subst h1; subst h2; simp [alookup_cons]
    · have hk : k ≠ p := by
        intro e'; subst e'
        exact hn.1 (List.mem_map.mpr ⟨(k, e), h, rfl⟩)
      simp [alookup_cons, hk]
      exact ih h hn.2

theorem mem_of_alookup {m : AList β} {p : Str} {e : β} (h : alookup m p = some e) : (p, e) ∈ m := by
  induction m with
  | nil => simp at h
  | cons kv m ih =>
    obtain ⟨k, v⟩ := kv
    by_cases hk : k = p
    · simp [alookup_cons, hk] at h; subst h; subst hk; simp
    · simp [alookup_cons, hk] at h; exact List.mem_cons_of_mem _ (ih h)

theorem alookup_map_val {γ : Type} (f : β → γ) (m : AList β) (p : Str) :
    alookup (m.map (fun kv => (kv.1, f kv.2))) p = (alookup m p).map f := by
  induction m with
  | nil => rfl
  | cons kv m ih =>
    obtain ⟨k, v⟩ := kv
    by_cases hk : k = p <;> simp [alookup_cons, hk, ih]

end AList

/-! ## modifyAt -/

theorem length_modifyAt {α : Type} (l : List α) (i : Nat) (f : α → α) : (modifyAt l i f).length = l.length := by
  induction l generalizing i with
  | nil => rfl
  | cons a l ih => cases i <;> simp [modifyAt, ih]

theorem getElem?_modifyAt {α : Type} (l : List α) (i j : Nat) (f : α → α) :
    (modifyAt l i f)[j]? = if j = i then l[j]?.map f else l[j]? := by
  induction l generalizing i j with
  | nil => simp [modifyAt]
  | cons a l ih =>
    cases i with
    | zero => cases j <;> simp [modifyAt]
    | succ i =>
      cases j with
      | zero => simp [modifyAt]
      | succ j => simp [modifyAt, ih]

/-! ## strings -/

theorem takeWhile_append_stop (l t : Str) (h : ∀ x ∈ l, x ≠ 47) :
    (l ++ 47 :: t).takeWhile (· ≠ 47) = l := by
  induction l with
  | nil => simp
  | cons a l ih =>
    have ha : a ≠ 47 := h a (by simp)
    rw [List.cons_append, List.takeWhile_cons_of_pos (by simpa using ha),
      ih (fun x hx => h x (by simp [hx]))]

theorem dropWhile_append_stop (l t : Str) (h : ∀ x ∈ l, x ≠ 47) :
    (l ++ 47 :: t).dropWhile (· ≠ 47) = 47 :: t := by
  induction l with
  | nil => simp
  | cons a l ih =>
    have ha : a ≠ 47 := h a (by simp)
    rw [List.cons_append, List.dropWhile_cons_of_pos (by simpa using ha),
      ih (fun x hx => h x (by simp [hx]))]

/-- the last component of `p/c` is `c` when `c` has no slash -/
theorem splitLast_append (p c : Str) (h : 47 ∉ c) : splitLast (p ++ 47 :: c) = (p, c) := by
  have hr : ∀ x ∈ c.reverse, x ≠ 47 := by
    intro x hx e; subst e; exact h (List.mem_reverse.mp hx)
  have e : (p ++ 47 :: c).reverse = c.reverse ++ 47 :: p.reverse := by simp
  simp only [splitLast, e, takeWhile_append_stop _ _ hr, dropWhile_append_stop _ _ hr]
  simp

theorem dropWhile_head (l : Str) : l.dropWhile (· ≠ 47) = [] ∨ ∃ t, l.dropWhile (· ≠ 47) = 47 :: t := by
  induction l with
  | nil => simp
  | cons a l ih =>
    by_cases ha : a = 47
    · right; exact ⟨l, by rw [List.dropWhile_cons_of_neg (by simpa using ha), ha]⟩
    · rw [List.dropWhile_cons_of_pos (by simpa using ha)]; exact ih

/-- a path with a non-empty parent is `parent/last` -/
theorem eq_of_splitLast (q par comp : Str) (h : splitLast q = (par, comp)) (hp : par ≠ []) :
    q = par ++ 47 :: comp := by
  simp only [splitLast, Prod.mk.injEq] at h
  obtain ⟨h1, h2⟩ := h
  have hs := List.takeWhile_append_dropWhile (p := (· ≠ 47)) (l := q.reverse)
  rcases dropWhile_head q.reverse with hd | ⟨t, hd⟩
  · rw [hd] at h1; simp at h1; exact absurd h1 hp
  · rw [hd] at h1 hs
    simp at h1
    have : q = (List.takeWhile (· ≠ 47) q.reverse ++ 47 :: t).reverse := by rw [hs]; simp
    rw [this, ← h1, ← h2]; simp

theorem splitLast_parent_length (q par comp : Str) (h : splitLast q = (par, comp)) (hq : q ≠ []) :
    par.length < q.length := by
  simp only [splitLast, Prod.mk.injEq] at h
  obtain ⟨h1, _⟩ := h
  have hl := (List.dropWhile_suffix (fun x : Nat => decide (x ≠ 47)) (l := q.reverse)).length_le
  rw [List.length_reverse] at hl
  have h2 := congrArg List.length h1
  rw [List.length_reverse, List.length_drop] at h2
  have : q.length > 0 := List.length_pos_iff.mpr hq
  omega

theorem encode_no_slash (s : Str) : 47 ∉ encode s := by
  induction s with
  | nil => simp [encode]
  | cons c s ih =>
    simp only [encode, List.flatMap_cons] at ih ⊢
    intro h
    rcases List.mem_append.mp h with h | h
    · by_cases h37 : c = 37
      · simp [h37] at h
      · by_cases h47 : c = 47
        · simp [h47] at h
        · simp [h37, h47] at h; exact h47 h.symm
    · exact ih h

theorem keyComp_no_slash (k : Key) : 47 ∉ keyComp k := encode_no_slash _

/-! ## rankToManifest: the split manifests are well-formed dicts -/

theorem mem_modifyAt {α : Type} (l : List α) (i : Nat) (f : α → α) (m : α) (h : m ∈ modifyAt l i f) :
    m ∈ l ∨ ∃ a ∈ l, m = f a := by
  induction l generalizing i with
  | nil => simp [modifyAt] at h
  | cons a l ih =>
    cases i with
    | zero =>
      simp only [modifyAt, List.mem_cons] at h
      rcases h with h | h
      · exact Or.inr ⟨a, by simp, h⟩
      · exact Or.inl (by simp [h])
    | succ i =>
      simp only [modifyAt, List.mem_cons] at h
      rcases h with h | h
      · exact Or.inl (by simp [h])
      · rcases ih i h with h | ⟨b, hb, e⟩
        · exact Or.inl (by simp [h])
        · exact Or.inr ⟨b, by simp [hb], e⟩

theorem splitInto_inv (gm : Manifest) (acc : List Manifest) (rtm : List Manifest)
    (h : splitInto gm acc = .ok rtm) (hn : ∀ m ∈ acc, (akeys m).Nodup) :
    rtm.length = acc.length ∧ ∀ m ∈ rtm, (akeys m).Nodup := by
  induction gm generalizing acc with
  | nil => simp [splitInto] at h; subst h; exact ⟨rfl, hn⟩
  | cons pe rest ih =>
    obtain ⟨path, e⟩ := pe
    simp only [splitInto] at h
    split at h
    · simp at h
    · rename_i r _
      split at h
      · have := ih _ h (by
          intro m hm
          rcases mem_modifyAt _ _ _ _ hm with hm | ⟨a, ha, rfl⟩
          · exact hn _ hm
          · exact nodup_akeys_ainsert _ _ _ (hn _ ha))
        rw [length_modifyAt] at this
        exact this
      · simp at h

theorem rankToManifest_inv (W : Nat) (gm : Manifest) (rtm : List Manifest)
    (h : rankToManifest W gm = .ok rtm) : rtm.length = W ∧ ∀ m ∈ rtm, (akeys m).Nodup := by
  have := splitInto_inv gm (List.replicate W []) rtm h (by
    intro m hm; rw [List.eq_of_mem_replicate hm]; simp [akeys])
  simpa using this

/-! ## existing rank -/

theorem akeys_overlay_nodup (m0 loc : Manifest) (h : (akeys loc).Nodup) : (akeys (overlay m0 loc)).Nodup := by
  induction m0 generalizing loc with
  | nil => exact h
  | cons pe rest ih =>
    obtain ⟨p, e⟩ := pe
    simp only [overlay]
    split
    · exact ih _ (nodup_akeys_ainsert _ _ _ h)
    · exact ih _ h

/-- the overlay takes rank 0's replicated entries and leaves every other path alone -/
theorem alookup_overlay (m0 loc : Manifest) (hn : (akeys m0).Nodup) (p : Str) :
    alookup (overlay m0 loc) p =
      match alookup m0 p with
      | some e => if isReplicated e then some e else alookup loc p
      | none => alookup loc p := by
  induction m0 generalizing loc with
  | nil => rfl
  | cons pe rest ih =>
    obtain ⟨k, e⟩ := pe
    simp only [akeys, List.map_cons, List.nodup_cons] at hn
    have ihr := fun loc => ih loc hn.2
    simp only [overlay, alookup_cons]
    by_cases hk : k = p
    · subst hk
      have hnone : alookup rest k = none := (alookup_eq_none_iff rest k).mpr hn.1
      by_cases hr : isReplicated e = true
      · simp [hr, ihr, hnone, alookup_ainsert_self]
      · simp [hr, ihr, hnone]
    · by_cases hr : isReplicated e = true
      · simp [hr, hk, ihr, alookup_ainsert_ne _ _ _ _ (fun e => hk e.symm)]
      · simp [hr, hk, ihr]

theorem replaceSharded_spec (merged loc v : Manifest) (h : replaceSharded merged loc = .ok v) :
    akeys v = akeys loc ∧ ∀ p, alookup v p =
      match alookup loc p with
      | some e => if isSharded e then alookup merged p else some e
      | none => none := by
  induction loc generalizing v with
  | nil => simp [replaceSharded] at h; subst h; simp [akeys]
  | cons pe rest ih =>
    obtain ⟨k, e⟩ := pe
    simp only [replaceSharded] at h
    cases hs : isSharded e with
    | true =>
      simp only [hs, ite_true] at h
      split at h
      · simp at h
      · rename_i e' he'
        split at h
        · simp at h
        · rename_i r hr
          simp at h; subst h
          obtain ⟨ih1, ih2⟩ := ih r hr
          refine ⟨by simp [akeys] at ih1 ⊢; exact ih1, fun p => ?_⟩
          simp only [alookup_cons]
          by_cases hk : k = p
          · subst hk; simp [hs, he']
          · simp [hk, ih2]
    | false =>
      simp only [hs, Bool.false_eq_true, ite_false] at h
      split at h
      · simp at h
      · rename_i r hr
        simp at h; subst h
        obtain ⟨ih1, ih2⟩ := ih r hr
        refine ⟨by simp [akeys] at ih1 ⊢; exact ih1, fun p => ?_⟩
        simp only [alookup_cons]
        by_cases hk : k = p
        · subst hk; simp [hs]
        · simp [hk, ih2]

/-! ## new rank: closed form of `_get_manifest_for_new_rank` -/

/-- the entry of rank 0 at `q` is neither a container nor replicated: a new rank drops it -/
def removable (m0 : Manifest) (q : Str) : Bool :=
  match alookup m0 q with
  | some e => !(isContainer e || isReplicated e)
  | none => false

/-- `q` has been visited and dropped -/
def removedB (m0 : Manifest) (done : List Str) (q : Str) : Bool := decide (q ∈ done) && removable m0 q

/-- the keys of the dict at `p` whose child has not been dropped, in saved order -/
def survivors (m0 : Manifest) (done : List Str) (p : Str) (ks : List Key) : List Key :=
  ks.filter (fun k => !removedB m0 done (p ++ 47 :: keyComp k))

/-- what the entry saved at `p` looks like once the paths in `done` have been visited -/
def expectEntry (m0 : Manifest) (done : List Str) (p : Str) : Entry → Entry
  | .dict ks => if p = [] then .dict ks else .dict (survivors m0 done p ks)
  | .odict ks => if p = [] then .odict ks else .odict (survivors m0 done p ks)
  | e => e

def Inv (m0 acc : Manifest) (done : List Str) : Prop :=
  ∀ p, alookup acc p = if removedB m0 done p then none else (alookup m0 p).map (expectEntry m0 done p)

theorem isContainer_expect (m0 done p e) : isContainer (expectEntry m0 done p e) = isContainer e := by
  cases e <;> simp only [expectEntry] <;> (try split) <;> rfl

theorem isReplicated_expect (m0 done p e) : isReplicated (expectEntry m0 done p e) = isReplicated e := by
  cases e <;> simp only [expectEntry] <;> (try split) <;> rfl

theorem removedB_cons (m0 : Manifest) (done : List Str) (q x : Str) :
    removedB m0 (q :: done) x = if x = q then removable m0 q else removedB m0 done x := by
  by_cases h : x = q
  · subst h; simp [removedB]
  · simp [removedB, h]

/-- visiting a path that is kept changes nothing -/
theorem inv_keep (m0 acc : Manifest) (done : List Str) (q : Str) (hinv : Inv m0 acc done)
    (hk : removable m0 q = false) : Inv m0 acc (q :: done) := by
  have hr : ∀ x, removedB m0 (q :: done) x = removedB m0 done x := by
    intro x; rw [removedB_cons]
    by_cases h : x = q
    · subst h; simp [removedB, hk]
    · simp [h]
  have he : ∀ p e, expectEntry m0 (q :: done) p e = expectEntry m0 done p e := by
    intro p e; cases e <;> simp [expectEntry, survivors, hr]
  intro p
  rw [hr, hinv p]
  split
  · rfl
  · cases alookup m0 p <;> simp [he]

theorem child_eq_iff (q parent comp p : Str) (k : Key) (hs : splitLast q = (parent, comp)) (hp : p ≠ []) :
    p ++ 47 :: keyComp k = q ↔ (p = parent ∧ keyComp k = comp) := by
  constructor
  · intro h
    have := splitLast_append p (keyComp k) (keyComp_no_slash k)
    rw [h, hs] at this
    injection this with h1 h2
    exact ⟨h1.symm, h2.symm⟩
  · rintro ⟨rfl, h2⟩
    rw [h2]; exact (eq_of_splitLast q p comp hs hp).symm

theorem survivors_other (m0 : Manifest) (done : List Str) (q parent comp p : Str) (ks : List Key)
    (hs : splitLast q = (parent, comp)) (hp : p ≠ []) (hne : p ≠ parent) :
    survivors m0 (q :: done) p ks = survivors m0 done p ks := by
  unfold survivors
  apply List.filter_congr
  intro k _
  rw [removedB_cons]
  have : p ++ 47 :: keyComp k ≠ q := by
    intro h; exact hne ((child_eq_iff q parent comp p k hs hp).mp h).1
  simp [this]

theorem survivors_parent (m0 : Manifest) (done : List Str) (q parent comp : Str) (ks : List Key)
    (hs : splitLast q = (parent, comp)) (hp : parent ≠ []) (hrem : removable m0 q = true) :
    survivors m0 (q :: done) parent ks = dropKey (survivors m0 done parent ks) comp := by
  unfold survivors dropKey
  rw [List.filter_filter]
  apply List.filter_congr
  intro k _
  rw [removedB_cons]
  by_cases hc : keyComp k = comp
  · have : parent ++ 47 :: keyComp k = q := (child_eq_iff q parent comp parent k hs hp).mpr ⟨rfl, hc⟩
    rw [if_pos this]; simp [hrem, hc]
  · have : parent ++ 47 :: keyComp k ≠ q := by
      intro h; exact hc ((child_eq_iff q parent comp parent k hs hp).mp h).2
    rw [if_neg this]; simp [hc]

theorem expect_other (m0 : Manifest) (done : List Str) (q parent comp p : Str) (e : Entry)
    (hs : splitLast q = (parent, comp)) (hne : p = [] ∨ p ≠ parent) :
    expectEntry m0 (q :: done) p e = expectEntry m0 done p e := by
  by_cases hp : p = []
  · cases e <;> simp [expectEntry, hp]
  · have hne' : p ≠ parent := by rcases hne with h | h; exact absurd h hp; exact h
    cases e <;> simp [expectEntry, hp, survivors_other m0 done q parent comp p _ hs hp hne']

theorem expect_nondict (m0 : Manifest) (done : List Str) (p : Str) (e : Entry) (h : isDict e = false) :
    expectEntry m0 done p e = e := by
  cases e <;> simp [expectEntry, isDict] at h ⊢

/-- dropping a private leaf `q` keeps the invariant -/
theorem inv_remove (m0 acc acc' : Manifest) (done : List Str) (q : Str) (hinv : Inv m0 acc done)
    (hrem : removable m0 q = true) (hpres : (alookup acc q).isSome = true)
    (h : removeEntry acc q = .ok acc') : Inv m0 acc' (q :: done) := by
  unfold removeEntry at h
  obtain ⟨eq, heq⟩ := Option.isSome_iff_exists.mp hpres
  rw [heq] at h
  cases hs : splitLast q with
  | mk parent comp =>
  simp only [hs] at h
  -- every path other than `q` and its parent is untouched
  have other : ∀ p, p ≠ q → (p = [] ∨ p ≠ parent) →
      alookup acc p = if removedB m0 (q :: done) p then none
        else (alookup m0 p).map (expectEntry m0 (q :: done) p) := by
    intro p hpq hne
    rw [hinv p, removedB_cons, if_neg hpq]
    split
    · rfl
    · cases alookup m0 p <;> simp [expect_other m0 done q parent comp p _ hs hne]
  have atq : removedB m0 (q :: done) q = true := by rw [removedB_cons]; simp [hrem]
  by_cases hpar : parent = []
  · simp only [hpar, ite_true] at h
    injection h with h; subst h
    intro p
    by_cases hpq : p = q
    · subst hpq; rw [alookup_aerase_self, atq]; rfl
    · rw [alookup_aerase_ne _ _ _ hpq]
      exact other p hpq (by by_cases hp : p = []; exact Or.inl hp; exact Or.inr (by rw [hpar]; exact hp))
  · simp only [hpar, ite_false] at h
    have hqp : q ≠ parent := by
      intro e
      have hq : q ≠ [] := by rw [e]; exact hpar
      have := splitLast_parent_length q parent comp hs hq
      rw [← e] at this; omega
    have hpq' : parent ≠ q := fun e => hqp e.symm
    -- what the parent looks like before the update
    have hpar_acc : alookup (aerase acc q) parent =
        if removedB m0 done parent then none else (alookup m0 parent).map (expectEntry m0 done parent) := by
      rw [alookup_aerase_ne _ _ _ hpq', hinv parent]
    have rb : removedB m0 (q :: done) parent = removedB m0 done parent := by
      rw [removedB_cons, if_neg hpq']
    cases hpe : alookup (aerase acc q) parent with
    | none => rw [hpe] at h; simp at h
    | some pe =>
      rw [hpe] at h
      rw [hpe] at hpar_acc
      have hnr : removedB m0 done parent = false := by
        cases hb : removedB m0 done parent
        · rfl
        · rw [hb] at hpar_acc; simp at hpar_acc
      rw [hnr] at hpar_acc
      simp only [Bool.false_eq_true, ite_false] at hpar_acc
      cases hm0 : alookup m0 parent with
      | none => rw [hm0] at hpar_acc; simp at hpar_acc
      | some e0 =>
      rw [hm0] at hpar_acc
      simp only [Option.map_some, Option.some.injEq] at hpar_acc
      -- the general shape of the conclusion for the three kinds of parent
      have finish : ∀ newpe, acc' = ainsert (aerase acc q) parent newpe →
          newpe = expectEntry m0 (q :: done) parent e0 → Inv m0 acc' (q :: done) := by
        intro newpe hacc hnew p
        rw [hacc]
        by_cases hpq : p = q
        · subst hpq
          rw [alookup_ainsert_ne _ _ _ _ hqp, alookup_aerase_self, atq]; rfl
        · by_cases hpp : p = parent
          · subst hpp
            rw [alookup_ainsert_self, rb, hnr, hm0, hnew]; rfl
          · rw [alookup_ainsert_ne _ _ _ _ hpp, alookup_aerase_ne _ _ _ hpq]
            exact other p hpq (Or.inr hpp)
      have same : acc' = aerase acc q → isDict e0 = false → Inv m0 acc' (q :: done) := by
        intro hacc hnd p
        rw [hacc]
        by_cases hpq : p = q
        · subst hpq; rw [alookup_aerase_self, atq]; rfl
        · by_cases hpp : p = parent
          · subst hpp
            rw [hpe, rb, hnr, hm0, hpar_acc]; simp [expect_nondict _ _ _ _ hnd]
          · rw [alookup_aerase_ne _ _ _ hpq]
            exact other p hpq (Or.inr hpp)
      cases e0 with
      | dict ks =>
        simp only [expectEntry, hpar, ite_false] at hpar_acc
        subst hpar_acc
        simp only at h
        injection h with h
        exact finish _ h.symm (by
          simp only [expectEntry, hpar, ite_false]
          rw [survivors_parent m0 done q parent comp ks hs hpar hrem])
      | odict ks =>
        simp only [expectEntry, hpar, ite_false] at hpar_acc
        subst hpar_acc
        simp only at h
        injection h with h
        exact finish _ h.symm (by
          simp only [expectEntry, hpar, ite_false]
          rw [survivors_parent m0 done q parent comp ks hs hpar hrem])
      | list =>
        simp only [expectEntry] at hpar_acc; subst hpar_acc
        simp only at h; injection h with h
        exact same h.symm rfl
      | leaf r pl =>
        simp only [expectEntry] at hpar_acc; subst hpar_acc
        simp only at h; injection h with h
        exact same h.symm rfl
      | chunked r md cs =>
        simp only [expectEntry] at hpar_acc; subst hpar_acc
        simp only at h; injection h with h
        exact same h.symm rfl
      | sharded ss =>
        simp only [expectEntry] at hpar_acc; subst hpar_acc
        simp only at h; injection h with h
        exact same h.symm rfl

theorem viewNewLoop_inv (m0 : Manifest) (ps : List Str) (acc : Manifest) (done : List Str) (v : Manifest)
    (hinv : Inv m0 acc done) (h : viewNewLoop ps acc = .ok v) : Inv m0 v (ps.reverse ++ done) := by
  induction ps generalizing acc done with
  | nil => simp only [viewNewLoop] at h; injection h with h; subst h; simpa using hinv
  | cons p ps ih =>
    simp only [viewNewLoop] at h
    have hp := hinv p
    cases hl : alookup acc p with
    | none => rw [hl] at h; simp at h
    | some e =>
      rw [hl] at h hp
      simp only at h
      have hnr : removedB m0 done p = false := by
        cases hb : removedB m0 done p
        · rfl
        · rw [hb] at hp; simp at hp
      rw [hnr] at hp
      simp only [Bool.false_eq_true, ite_false] at hp
      cases hm0 : alookup m0 p with
      | none => rw [hm0] at hp; simp at hp
      | some e0 =>
        rw [hm0] at hp
        simp only [Option.map_some, Option.some.injEq] at hp
        have hflag : (isContainer e || isReplicated e) = (isContainer e0 || isReplicated e0) := by
          rw [hp, isContainer_expect, isReplicated_expect]
        have hrm : removable m0 p = !(isContainer e0 || isReplicated e0) := by simp [removable, hm0]
        have hfin : (p :: ps).reverse ++ done = ps.reverse ++ (p :: done) := by simp
        rw [hfin]
        cases hk : (isContainer e || isReplicated e) with
        | true =>
          rw [hk] at h
          simp only [ite_true] at h
          exact ih acc (p :: done) (inv_keep m0 acc done p hinv (by rw [hrm, ← hflag, hk]; rfl)) h
        | false =>
          rw [hk] at h
          simp only [Bool.false_eq_true, ite_false] at h
          cases hr : removeEntry acc p with
          | error err => rw [hr] at h; simp at h
          | ok acc' =>
            rw [hr] at h
            simp only at h
            exact ih acc' (p :: done)
              (inv_remove m0 acc acc' done p hinv (by rw [hrm, ← hflag, hk]; rfl) (by simp [hl]) hr) h

/-- the keys of the dict saved at `p` whose child a new rank keeps, in saved order -/
def keptKeys (m0 : Manifest) (p : Str) (ks : List Key) : List Key :=
  ks.filter (fun k => !removable m0 (p ++ 47 :: keyComp k))

/-- the entry a new rank sees at `p`, given rank 0's entry -/
def newRankEntry (m0 : Manifest) (p : Str) : Entry → Entry
  | .dict ks => if p = [] then .dict ks else .dict (keptKeys m0 p ks)
  | .odict ks => if p = [] then .odict ks else .odict (keptKeys m0 p ks)
  | e => e

theorem isContainer_newRankEntry (m0 p e) : isContainer (newRankEntry m0 p e) = isContainer e := by
  cases e <;> simp only [newRankEntry] <;> (try split) <;> rfl

theorem isReplicated_newRankEntry (m0 p e) : isReplicated (newRankEntry m0 p e) = isReplicated e := by
  cases e <;> simp only [newRankEntry] <;> (try split) <;> rfl

theorem inv_init (m0 : Manifest) : Inv m0 m0 [] := by
  intro p
  have hs : ∀ p ks, survivors m0 [] p ks = ks := by
    intro p ks; simp [survivors, removedB]
  have he : ∀ e, expectEntry m0 [] p e = e := by
    intro e; cases e <;> simp [expectEntry, hs]
  simp only [removedB, List.not_mem_nil, decide_false, Bool.false_and, Bool.false_eq_true, ite_false]
  cases alookup m0 p <;> simp [he]

/-- closed form of `_get_manifest_for_new_rank`: private leaves and sharded entries of rank 0 are gone,
everything else is rank 0's entry with the dropped children removed from dict keys -/
theorem viewNew_spec (rtm : List Manifest) (m0 v : Manifest) (h0 : rtm[0]? = some m0)
    (h : viewNew rtm = .ok v) (p : Str) :
    alookup v p = if removable m0 p then none else (alookup m0 p).map (newRankEntry m0 p) := by
  simp only [viewNew, h0] at h
  have := viewNewLoop_inv m0 (akeys m0) m0 [] v (inv_init m0) h p
  rw [List.append_nil] at this
  have hr : ∀ x, removedB m0 (akeys m0).reverse x = removable m0 x := by
    intro x
    simp only [removedB, List.mem_reverse]
    cases hx : removable m0 x with
    | false => simp
    | true =>
      have : x ∈ akeys m0 := by
        unfold removable at hx
        cases hl : alookup m0 x with
        | none => rw [hl] at hx; simp at hx
        | some e => exact mem_akeys_of_alookup hl
      simp [this]
  have he : ∀ e, expectEntry m0 (akeys m0).reverse p e = newRankEntry m0 p e := by
    intro e; cases e <;> simp [expectEntry, newRankEntry, survivors, keptKeys, hr]
  rw [this, hr]
  split
  · rfl
  · cases alookup m0 p <;> simp [he]

/-! ## sorting -/

theorem insSorted_perm {α : Type} (le : α → α → Bool) (a : α) (l : List α) : (insSorted le a l).Perm (a :: l) := by
  induction l with
  | nil => exact List.Perm.refl _
  | cons b l ih =>
    simp only [insSorted]
    split
    · exact List.Perm.refl _
    · exact (List.Perm.cons b ih).trans (List.Perm.swap a b l)

theorem isort_perm {α : Type} (le : α → α → Bool) (l : List α) : (isort le l).Perm l := by
  induction l with
  | nil => exact List.Perm.refl _
  | cons a l ih => exact (insSorted_perm le a _).trans (List.Perm.cons a ih)

theorem sortShards_perm (l : List Shard) : (sortShards l).Perm l := isort_perm _ l

/-! ## merged sharded entries -/

/-- the shards of the sharded entry a manifest holds at `p` (none if there is no such entry) -/
def shardsAt (m : Manifest) (p : Str) : List Shard :=
  match alookup m p with
  | some (.sharded s) => s
  | _ => []

/-- the manifest holds a sharded entry at `p` -/
def hasShardedAt (m : Manifest) (p : Str) : Bool :=
  match alookup m p with
  | some (.sharded _) => true
  | _ => false

/-- every shard saved at `p`, rank after rank -/
def savedShards (rtm : List Manifest) (p : Str) : List Shard := rtm.flatMap (fun m => shardsAt m p)

theorem alookup_addGroup (g : AList (List Shard)) (p q : Str) (s : List Shard) :
    alookup (addGroup g p s) q = if q = p then some ((alookup g p).getD [] ++ s) else alookup g q := by
  unfold addGroup
  cases h : alookup g p <;> simp [alookup_ainsert]

theorem groupsOf_cons_other (k : Str) (e : Entry) (rest : Manifest) (g : AList (List Shard))
    (h : isSharded e = false) : groupsOf ((k, e) :: rest) g = groupsOf rest g := by
  cases e <;> first | rfl | simp [isSharded] at h

theorem groupsOf_spec (m : Manifest) (hn : (akeys m).Nodup) (g : AList (List Shard)) (p : Str) :
    alookup (groupsOf m g) p =
      if hasShardedAt m p then some ((alookup g p).getD [] ++ shardsAt m p) else alookup g p := by
  induction m generalizing g with
  | nil => simp [groupsOf, hasShardedAt]
  | cons pe rest ih =>
    obtain ⟨k, e⟩ := pe
    simp only [akeys, List.map_cons, List.nodup_cons] at hn
    have hnone : alookup rest k = none := (alookup_eq_none_iff rest k).mpr hn.1
    have ihr := fun g => ih hn.2 g
    by_cases hk : k = p
    · subst hk
      have h1 : hasShardedAt rest k = false := by simp [hasShardedAt, hnone]
      cases hse : isSharded e with
      | true =>
        cases e with
        | sharded s =>
          have hR1 : hasShardedAt ((k, Entry.sharded s) :: rest) k = true := by simp [hasShardedAt, alookup_cons]
          have hR2 : shardsAt ((k, Entry.sharded s) :: rest) k = s := by simp [shardsAt, alookup_cons]
          rw [groupsOf, ihr, h1, hR1, hR2, alookup_addGroup]; simp
        | _ => simp [isSharded] at hse
      | false =>
        have hR1 : hasShardedAt ((k, e) :: rest) k = false := by
          cases e <;> first | (simp [isSharded] at hse; done) | simp [hasShardedAt, alookup_cons]
        rw [groupsOf_cons_other k e rest g hse, ihr, h1, hR1]; simp
    · have h2 : hasShardedAt ((k, e) :: rest) p = hasShardedAt rest p := by simp [hasShardedAt, alookup_cons, hk]
      have h3 : shardsAt ((k, e) :: rest) p = shardsAt rest p := by simp [shardsAt, alookup_cons, hk]
      have hpk : p ≠ k := fun e => hk e.symm
      rw [h2, h3]
      cases hse : isSharded e with
      | true =>
        cases e with
        | sharded s => rw [groupsOf, ihr, alookup_addGroup, if_neg hpk]
        | _ => simp [isSharded] at hse
      | false => rw [groupsOf_cons_other k e rest g hse, ihr]

theorem shardsAt_of_not (m : Manifest) (p : Str) (h : hasShardedAt m p = false) : shardsAt m p = [] := by
  unfold hasShardedAt at h; unfold shardsAt
  split <;> simp_all

theorem savedShards_of_none (ms : List Manifest) (p : Str) (h : ms.any (fun m => hasShardedAt m p) = false) :
    savedShards ms p = [] := by
  induction ms with
  | nil => rfl
  | cons m ms ih =>
    simp only [List.any_cons, Bool.or_eq_false_iff] at h
    have e : savedShards (m :: ms) p = shardsAt m p ++ savedShards ms p := by simp [savedShards]
    rw [e, shardsAt_of_not m p h.1, ih h.2]; rfl

theorem shardGroupsFrom_spec (ms : List Manifest) (hn : ∀ m ∈ ms, (akeys m).Nodup)
    (g : AList (List Shard)) (p : Str) :
    alookup (shardGroupsFrom ms g) p =
      if ms.any (fun m => hasShardedAt m p) then some ((alookup g p).getD [] ++ savedShards ms p)
      else alookup g p := by
  induction ms generalizing g with
  | nil => simp [shardGroupsFrom]
  | cons m ms ih =>
    have ihr := fun g => ih (fun m' hm' => hn m' (List.mem_cons_of_mem _ hm')) g
    have hsv : savedShards (m :: ms) p = shardsAt m p ++ savedShards ms p := by simp [savedShards]
    rw [shardGroupsFrom, ihr, groupsOf_spec m (hn m (by simp)), hsv, List.any_cons]
    cases h1 : hasShardedAt m p <;> cases h2 : ms.any (fun m => hasShardedAt m p)
    · simp
    · simp [shardsAt_of_not m p h1]
    · simp [savedShards_of_none ms p h2]
    · simp

/-- `_get_merged_sharded_tensor_entries`: a path is merged iff some rank saved a sharded entry there, and
the merged entry holds exactly the saved shards (sorted by offsets) -/
theorem mergeSharded_spec (rtm : List Manifest) (hn : ∀ m ∈ rtm, (akeys m).Nodup) (p : Str) :
    alookup (mergeSharded rtm) p =
      if rtm.any (fun m => hasShardedAt m p) then some (.sharded (sortShards (savedShards rtm p))) else none := by
  unfold mergeSharded
  rw [alookup_map_val (fun s => Entry.sharded (sortShards s)), shardGroups, shardGroupsFrom_spec rtm hn]
  split <;> simp

theorem mergeSharded_all_sharded (rtm : List Manifest) (p : Str) (e : Entry)
    (h : alookup (mergeSharded rtm) p = some e) : isSharded e = true := by
  unfold mergeSharded at h
  rw [alookup_map_val (fun s => Entry.sharded (sortShards s))] at h
  cases hg : alookup (shardGroups rtm) p with
  | none => rw [hg] at h; simp at h
  | some s => rw [hg] at h; simp at h; subst h; rfl

/-! ## filtering a dict -/

theorem alookup_filter_of_pos (m : Manifest) (f : Str × Entry → Bool) (p : Str) (e : Entry)
    (h : alookup m p = some e) (hf : f (p, e) = true) : alookup (m.filter f) p = some e := by
  induction m with
  | nil => simp at h
  | cons kv m ih =>
    obtain ⟨k, v⟩ := kv
    by_cases hk : k = p
    · subst hk
      simp [alookup_cons] at h; subst h
      simp [List.filter, hf, alookup_cons]
    · simp [alookup_cons, hk] at h
      simp only [List.filter]
      split
      · simp [alookup_cons, hk, ih h]
      · exact ih h

theorem mem_of_alookup_filter (m : Manifest) (f : Str × Entry → Bool) (p : Str) (e : Entry)
    (h : alookup (m.filter f) p = some e) : (p, e) ∈ m ∧ f (p, e) = true := by
  have := mem_of_alookup h
  exact List.mem_filter.mp this

theorem nodup_akeys_filter (m : Manifest) (f : Str × Entry → Bool) (h : (akeys m).Nodup) :
    (akeys (m.filter f)).Nodup := by
  unfold akeys at *
  exact (List.filter_sublist.map _).nodup h

/-! ## handle_sharded_tensor_elasticity -/

/-- `entry.keys += extra` for a dict / OrderedDict entry -/
def appendKeys : Entry → List Key → Entry
  | .dict ks, ex => .dict (ks ++ ex)
  | .odict ks, ex => .odict (ks ++ ex)
  | e, _ => e

theorem appendKeys_nil (e : Entry) : appendKeys e [] = e := by cases e <;> simp [appendKeys]

theorem appendKeys_append (e : Entry) (a b : List Key) : appendKeys (appendKeys e a) b = appendKeys e (a ++ b) := by
  cases e <;> simp [appendKeys]

theorem isDict_appendKeys (e : Entry) (a : List Key) : isDict (appendKeys e a) = isDict e := by
  cases e <;> simp [appendKeys, isDict]

/-- what `addRequested` may do to a manifest: add requested merged entries, append keys to dicts -/
structure Frame (merged m m' : Manifest) (reqs : List Str) : Prop where
  keep : ∀ p e, alookup m p = some e → isDict e = false → alookup m' p = some e
  add : ∀ p, p ∈ reqs → alookup m p = none → alookup m' p = alookup merged p ∧ (alookup merged p).isSome = true
  none : ∀ p, p ∉ reqs → alookup m p = none → alookup m' p = none
  dict : ∀ p e, alookup m p = some e → isDict e = true → ∃ ex, alookup m' p = some (appendKeys e ex)
  nodup : (akeys m).Nodup → (akeys m').Nodup

theorem isDict_of_sharded (e : Entry) (h : isSharded e = true) : isDict e = false := by
  cases e <;> simp [isSharded, isDict] at h ⊢

/-- one "add the missing requested entry" step followed by a run that satisfies the frame -/
theorem frame_step (merged m m' : Manifest) (p0 parent comp : Str) (rest : List Str) (e pe : Entry)
    (h0 : alookup m p0 = none) (hmg : alookup merged p0 = some e) (hes : isSharded e = true)
    (hpar : alookup (ainsert m p0 e) parent = some pe) (hpd : isDict pe = true)
    (F : Frame merged (ainsert (ainsert m p0 e) parent (appendKeys pe [Key.str comp])) m' rest) :
    Frame merged m m' (p0 :: rest) := by
  have hpp : parent ≠ p0 := by
    intro e'; rw [e', alookup_ainsert_self] at hpar
    injection hpar with hpar
    have := isDict_of_sharded e hes
    rw [hpar, hpd] at this; simp at this
  have hparm : alookup m parent = some pe := by rwa [alookup_ainsert_ne _ _ _ _ hpp] at hpar
  have l2 : ∀ p, alookup (ainsert (ainsert m p0 e) parent (appendKeys pe [Key.str comp])) p =
      if p = parent then some (appendKeys pe [Key.str comp]) else if p = p0 then some e else alookup m p := by
    intro p; rw [alookup_ainsert, alookup_ainsert]
  refine ⟨?_, ?_, ?_, ?_, ?_⟩
  · intro p e' hp hd
    have h1 : p ≠ parent := by
      intro e''; rw [e'', hparm] at hp; injection hp with hp; rw [← hp, hpd] at hd; simp at hd
    have h2 : p ≠ p0 := by intro e''; rw [e'', h0] at hp; simp at hp
    exact F.keep p e' (by rw [l2, if_neg h1, if_neg h2]; exact hp) hd
  · intro p hp hn
    have h1 : p ≠ parent := by intro e''; rw [e'', hparm] at hn; simp at hn
    by_cases h2 : p = p0
    · subst h2
      refine ⟨?_, by simp [hmg]⟩
      rw [hmg]
      exact F.keep p e (by rw [l2, if_neg h1, if_pos rfl]) (isDict_of_sharded e hes)
    · rcases List.mem_cons.mp hp with hp | hp
      · exact absurd hp h2
      · exact F.add p hp (by rw [l2, if_neg h1, if_neg h2]; exact hn)
  · intro p hp hn
    have h1 : p ≠ parent := by intro e''; rw [e'', hparm] at hn; simp at hn
    have h2 : p ≠ p0 := fun e'' => hp (by simp [e''])
    exact F.none p (fun h => hp (List.mem_cons_of_mem _ h)) (by rw [l2, if_neg h1, if_neg h2]; exact hn)
  · intro p e' hp hd
    have h2 : p ≠ p0 := by intro e''; rw [e'', h0] at hp; simp at hp
    by_cases h1 : p = parent
    · subst h1
      rw [hparm] at hp; injection hp with hp; subst hp
      obtain ⟨ex, hex⟩ := F.dict p (appendKeys pe [Key.str comp]) (by rw [l2, if_pos rfl])
        (by rw [isDict_appendKeys]; exact hpd)
      exact ⟨[Key.str comp] ++ ex, by rw [hex, appendKeys_append]⟩
    · exact F.dict p e' (by rw [l2, if_neg h1, if_neg h2]; exact hp) hd
  · intro hn
    exact F.nodup (nodup_akeys_ainsert _ _ _ (nodup_akeys_ainsert _ _ _ hn))

theorem addRequested_frame (merged : Manifest) (hm : ∀ p e, alookup merged p = some e → isSharded e = true)
    (reqs : List Str) (m m' : Manifest) (h : addRequested merged m reqs = .ok m') : Frame merged m m' reqs := by
  induction reqs generalizing m with
  | nil =>
    simp only [addRequested] at h; injection h with h; subst h
    exact ⟨fun _ _ h _ => h, fun _ hp => by simp at hp, fun _ _ h => h,
      fun _ e h _ => ⟨[], by rw [appendKeys_nil]; exact h⟩, id⟩
  | cons p0 rest ih =>
    simp only [addRequested] at h
    cases h0 : alookup m p0 with
    | some e0 =>
      rw [h0] at h; simp only at h
      have F := ih m h
      refine ⟨F.keep, ?_, ?_, F.dict, F.nodup⟩
      · intro p hp hn
        rcases List.mem_cons.mp hp with rfl | hp
        · rw [h0] at hn; simp at hn
        · exact F.add p hp hn
      · intro p hp hn
        exact F.none p (fun h => hp (List.mem_cons_of_mem _ h)) hn
    | none =>
      rw [h0] at h; simp only at h
      cases hmg : alookup merged p0 with
      | none => rw [hmg] at h; simp at h
      | some e =>
        rw [hmg] at h; simp only at h
        have hes : isSharded e = true := hm p0 e hmg
        cases hs : splitLast p0 with
        | mk parent comp =>
        simp only [hs] at h
        cases hpar : alookup (ainsert m p0 e) parent with
        | none => rw [hpar] at h; simp at h
        | some pe =>
          rw [hpar] at h
          cases pe with
          | dict ks =>
            simp only at h
            exact frame_step merged m m' p0 parent comp rest e (.dict ks) h0 hmg hes hpar rfl (ih _ h)
          | odict ks =>
            simp only at h
            exact frame_step merged m m' p0 parent comp rest e (.odict ks) h0 hmg hes hpar rfl (ih _ h)
          | list => simp at h
          | leaf r pl => simp at h
          | chunked r md cs => simp at h
          | sharded ss => simp at h

theorem alookup_filter_nodup (m : Manifest) (hn : (akeys m).Nodup) (f : Str × Entry → Bool) (p : Str) :
    alookup (m.filter f) p =
      match alookup m p with
      | some e => if f (p, e) then some e else none
      | none => none := by
  cases h : alookup m p with
  | some e =>
    simp only
    split
    · rename_i hf; exact alookup_filter_of_pos m f p e h hf
    · rename_i hf
      cases h2 : alookup (m.filter f) p with
      | none => rfl
      | some e' =>
        obtain ⟨hmem, hf'⟩ := mem_of_alookup_filter m f p e' h2
        have := alookup_of_mem_nodup hmem hn
        rw [h] at this; injection this with this; subst this
        exact absurd hf' hf
  | none =>
    simp only
    cases h2 : alookup (m.filter f) p with
    | none => rfl
    | some e' =>
      obtain ⟨hmem, _⟩ := mem_of_alookup_filter m f p e' h2
      have := alookup_of_mem_nodup hmem hn
      rw [h] at this; simp at this

/-- all entries of the merged table are sharded entries -/
def AllSharded (merged : Manifest) : Prop := ∀ p e, alookup merged p = some e → isSharded e = true

/-- `handle_sharded_tensor_elasticity` (root-only knob off), entry by entry -/
structure ElasticSpec (v merged final : Manifest) (requests : List Str) : Prop where
  /-- leaves that are not sharded, and list containers, are untouched -/
  keep : ∀ p e, alookup v p = some e → isSharded e = false → isDict e = false → alookup final p = some e
  /-- dict containers keep their kind and keys; keys of re-added sharded entries are appended -/
  dict : ∀ p e, alookup v p = some e → isDict e = true → ∃ ex, alookup final p = some (appendKeys e ex)
  /-- a requested sharded tensor that the rank lacks (or holds as the merged entry) is delivered -/
  deliver : ∀ p, p ∈ requests → ∀ me, alookup merged p = some me →
    (alookup v p = none ∨ alookup v p = some me) → alookup final p = some me
  /-- no sharded entry without a request -/
  unrequested : ∀ p e, alookup final p = some e → isSharded e = true → p ∈ requests
  /-- nothing but sharded entries and dict keys is ever added -/
  nothing_new : ∀ p e, alookup final p = some e → isSharded e = false → isDict e = false → alookup v p = some e

theorem handleElasticity_spec (v merged final : Manifest) (requests : List Str) (hm : AllSharded merged)
    (hn : (akeys v).Nodup) (h : handleElasticity false v merged requests = .ok final) :
    ElasticSpec v merged final requests := by
  simp only [handleElasticity, Bool.false_and, Bool.false_eq_true, ite_false] at h
  cases ha : addRequested merged v (requests.filter (fun p => (alookup merged p).isSome)) with
  | error e => rw [ha] at h; simp at h
  | ok m' =>
    rw [ha] at h; simp only at h; injection h with h
    have F := addRequested_frame merged hm _ v m' ha
    have hn' := F.nodup hn
    have hl : ∀ p, alookup final p = match alookup m' p with
        | some e => if (!(isSharded e && !((requests.filter (fun p => (alookup merged p).isSome)).contains p))) then some e else none
        | none => none := by
      intro p; rw [← h]; exact alookup_filter_nodup m' hn' _ p
    refine ⟨?_, ?_, ?_, ?_, ?_⟩
    · intro p e hp hs hd
      rw [hl p, F.keep p e hp hd]; simp [hs]
    · intro p e hp hd
      obtain ⟨ex, hex⟩ := F.dict p e hp hd
      refine ⟨ex, ?_⟩
      have : isSharded (appendKeys e ex) = false := by cases e <;> simp [appendKeys, isSharded, isDict] at hd ⊢
      rw [hl p, hex]; simp [this]
    · intro p hp me hme hv
      have hreq : p ∈ requests.filter (fun p => (alookup merged p).isSome) := by
        simp [List.mem_filter, hp, hme]
      have hm' : alookup m' p = some me := by
        rcases hv with hv | hv
        · rw [(F.add p hreq hv).1, hme]
        · exact F.keep p me hv (isDict_of_sharded me (hm p me hme))
      rw [hl p, hm']
      have : (requests.filter (fun p => (alookup merged p).isSome)).contains p = true := by
        simpa using hreq
      rw [this]; simp
    · intro p e hp hs
      rw [hl p] at hp
      cases hm' : alookup m' p with
      | none => rw [hm'] at hp; simp at hp
      | some e' =>
        rw [hm'] at hp; simp only at hp
        split at hp
        · rename_i hc
          injection hp with hp; subst hp
          simp [hs] at hc
          exact hc.1
        · simp at hp
    · intro p e hp hs hd
      rw [hl p] at hp
      cases hm' : alookup m' p with
      | none => rw [hm'] at hp; simp at hp
      | some e' =>
        rw [hm'] at hp; simp only at hp
        split at hp
        · injection hp with hp; subst hp
          cases hv : alookup v p with
          | none =>
            by_cases hreq : p ∈ requests.filter (fun p => (alookup merged p).isSome)
            · have := F.add p hreq hv
              rw [hm'] at this
              have := hm p e' this.1.symm
              rw [hs] at this; simp at this
            · have := F.none p hreq hv
              rw [hm'] at this; simp at this
          | some e0 =>
            cases hd0 : isDict e0 with
            | true =>
              obtain ⟨ex, hex⟩ := F.dict p e0 hv hd0
              rw [hm'] at hex; injection hex with hex
              rw [hex, isDict_appendKeys, hd0] at hd; simp at hd
            | false =>
              have := F.keep p e0 hv hd0
              rw [hm'] at this; injection this with this; rw [this]
        · simp at hp

/-! ## the two kinds of view, with their well-formedness -/

theorem removeEntry_nodup (m m' : Manifest) (p : Str) (hn : (akeys m).Nodup) (h : removeEntry m p = .ok m') :
    (akeys m').Nodup := by
  unfold removeEntry at h
  cases hl : alookup m p with
  | none => rw [hl] at h; simp only at h; injection h with h; subst h; exact hn
  | some e =>
    rw [hl] at h
    cases hs : splitLast p with
    | mk parent comp =>
    simp only [hs] at h
    have hn1 := nodup_akeys_aerase m p hn
    split at h
    · injection h with h; subst h; exact hn1
    · split at h
      · simp at h
      · injection h with h; subst h; exact nodup_akeys_ainsert _ _ _ hn1
      · injection h with h; subst h; exact nodup_akeys_ainsert _ _ _ hn1
      · injection h with h; subst h; exact hn1

theorem viewNewLoop_nodup (ps : List Str) (acc v : Manifest) (hn : (akeys acc).Nodup)
    (h : viewNewLoop ps acc = .ok v) : (akeys v).Nodup := by
  induction ps generalizing acc with
  | nil => simp only [viewNewLoop] at h; injection h with h; subst h; exact hn
  | cons p ps ih =>
    simp only [viewNewLoop] at h
    split at h
    · simp at h
    · split at h
      · exact ih acc hn h
      · split at h
        · simp at h
        · rename_i acc' hr
          exact ih acc' (removeEntry_nodup _ _ _ hn hr) h

/-- the entry an existing rank sees at `p`, before sharded entries are replaced -/
def ownOrReplicated (m0 own : Manifest) (p : Str) : Option Entry :=
  match alookup m0 p with
  | some e => if isReplicated e then some e else alookup own p
  | none => alookup own p

/-- `get_manifest_for_rank` for a rank that took part in the snapshot -/
theorem viewOf_existing (rtm : List Manifest) (hn : ∀ m ∈ rtm, (akeys m).Nodup) (rank : Nat) (v merged own m0 : Manifest)
    (hr : rank < rtm.length) (hown : rtm[rank]? = some own) (h0 : rtm[0]? = some m0)
    (h : viewOf rtm rank = .ok (v, merged)) :
    merged = mergeSharded rtm ∧ (akeys v).Nodup ∧ ∀ p, alookup v p =
      match ownOrReplicated m0 own p with
      | some e => if isSharded e then alookup merged p else some e
      | none => none := by
  simp only [viewOf, hr, ite_true, viewExisting, hown, h0] at h
  cases hv : replaceSharded (mergeSharded rtm) (overlay m0 own) with
  | error e => rw [hv] at h; simp [Except.map] at h
  | ok v' =>
    rw [hv] at h; simp only [Except.map] at h
    injection h with h; injection h with h1 h2
    subst h1; subst h2
    obtain ⟨hk, hl⟩ := replaceSharded_spec _ _ _ hv
    have hn0 : (akeys m0).Nodup := hn m0 (List.mem_of_getElem? h0)
    have hnown : (akeys own).Nodup := hn own (List.mem_of_getElem? hown)
    refine ⟨rfl, by rw [hk]; exact akeys_overlay_nodup m0 own hnown, fun p => ?_⟩
    rw [hl p, alookup_overlay m0 own hn0 p]
    rfl

/-- `get_manifest_for_rank` for a rank beyond the saved world size -/
theorem viewOf_new (rtm : List Manifest) (hn : ∀ m ∈ rtm, (akeys m).Nodup) (rank : Nat) (v merged m0 : Manifest)
    (hr : ¬ rank < rtm.length) (h0 : rtm[0]? = some m0) (h : viewOf rtm rank = .ok (v, merged)) :
    merged = mergeSharded rtm ∧ (akeys v).Nodup ∧ ∀ p, alookup v p =
      if removable m0 p then none else (alookup m0 p).map (newRankEntry m0 p) := by
  simp only [viewOf, hr, ite_false] at h
  cases hv : viewNew rtm with
  | error e => rw [hv] at h; simp [Except.map] at h
  | ok v' =>
    rw [hv] at h; simp only [Except.map] at h
    injection h with h; injection h with h1 h2
    subst h1; subst h2
    refine ⟨rfl, ?_, viewNew_spec rtm m0 _ h0 hv⟩
    simp only [viewNew, h0] at hv
    exact viewNewLoop_nodup _ _ _ (hn m0 (List.mem_of_getElem? h0)) hv

/-- the dict / OrderedDict entry lists key `k` -/
def hasKey (e : Entry) (k : Key) : Bool :=
  match e with
  | .dict ks => ks.contains k
  | .odict ks => ks.contains k
  | _ => false

theorem hasKey_appendKeys (e : Entry) (ex : List Key) (k : Key) (h : hasKey e k = true) :
    hasKey (appendKeys e ex) k = true := by
  cases e <;> simp_all [hasKey, appendKeys]

theorem hasKey_appendKeys_self (e : Entry) (k : Key) (h : isDict e = true) : hasKey (appendKeys e [k]) k = true := by
  cases e <;> simp_all [hasKey, appendKeys, isDict]

/-- a requested entry that had to be added is listed in its parent dict under the str of its last component -/
theorem addRequested_added (merged : Manifest) (hm : ∀ p e, alookup merged p = some e → isSharded e = true)
    (reqs : List Str) (m m' : Manifest) (h : addRequested merged m reqs = .ok m')
    (p : Str) (hp : p ∈ reqs) (hn : alookup m p = none) (parent comp : Str) (hs : splitLast p = (parent, comp)) :
    ∃ pe, alookup m' parent = some pe ∧ hasKey pe (Key.str comp) = true := by
  induction reqs generalizing m with
  | nil => simp at hp
  | cons p0 rest ih =>
    simp only [addRequested] at h
    cases h0 : alookup m p0 with
    | some e0 =>
      rw [h0] at h; simp only at h
      rcases List.mem_cons.mp hp with rfl | hp'
      · rw [h0] at hn; simp at hn
      · exact ih m h hp' hn
    | none =>
      rw [h0] at h; simp only at h
      cases hmg : alookup merged p0 with
      | none => rw [hmg] at h; simp at h
      | some e =>
        rw [hmg] at h; simp only at h
        have hes : isSharded e = true := hm p0 e hmg
        cases hs0 : splitLast p0 with
        | mk parent0 comp0 =>
        simp only [hs0] at h
        cases hpar : alookup (ainsert m p0 e) parent0 with
        | none => rw [hpar] at h; simp at h
        | some pe =>
          rw [hpar] at h
          have common : ∀ (hpd : isDict pe = true)
              (hrec : addRequested merged (ainsert (ainsert m p0 e) parent0 (appendKeys pe [Key.str comp0])) rest = .ok m'),
              ∃ pe', alookup m' parent = some pe' ∧ hasKey pe' (Key.str comp) = true := by
            intro hpd hrec
            have hpp : parent0 ≠ p0 := by
              intro e'; rw [e', alookup_ainsert_self] at hpar
              injection hpar with hpar
              have := isDict_of_sharded e hes
              rw [hpar, hpd] at this; simp at this
            have hparm : alookup m parent0 = some pe := by rwa [alookup_ainsert_ne _ _ _ _ hpp] at hpar
            by_cases hpe : p = p0
            · subst hpe
              rw [hs0] at hs; injection hs with h1 h2
              rw [← h1, ← h2]
              have F := addRequested_frame merged hm rest _ m' hrec
              obtain ⟨ex, hex⟩ := F.dict parent0 (appendKeys pe [Key.str comp0]) (alookup_ainsert_self _ _ _)
                (by rw [isDict_appendKeys]; exact hpd)
              exact ⟨_, hex, hasKey_appendKeys _ _ _ (hasKey_appendKeys_self pe _ hpd)⟩
            · have hp' : p ∈ rest := by
                rcases List.mem_cons.mp hp with h | h
                · exact absurd h hpe
                · exact h
              have h1 : p ≠ parent0 := by intro e''; rw [e'', hparm] at hn; simp at hn
              exact ih _ hrec hp' (by rw [alookup_ainsert_ne _ _ _ _ h1, alookup_ainsert_ne _ _ _ _ hpe]; exact hn)
          cases pe with
          | dict ks => simp only at h; exact common rfl h
          | odict ks => simp only at h; exact common rfl h
          | list => simp at h
          | leaf r pl => simp at h
          | chunked r md cs => simp at h
          | sharded ss => simp at h

/-- the re-added sharded entry reaches the inflated state when its last component is a plain string -/
theorem delivered_of_plain (v merged final : Manifest) (requests : List Str) (hm : AllSharded merged)
    (h : handleElasticity false v merged requests = .ok final)
    (p : Str) (hp : p ∈ requests) (me : Entry) (hme : alookup merged p = some me) (hv : alookup v p = none)
    (parent comp : Str) (hs : splitLast p = (parent, comp)) (hplain : encode comp = comp) :
    deliveredUnderKey final p = true := by
  simp only [handleElasticity, Bool.false_and, Bool.false_eq_true, ite_false] at h
  cases ha : addRequested merged v (requests.filter (fun p => (alookup merged p).isSome)) with
  | error e => rw [ha] at h; simp at h
  | ok m' =>
    rw [ha] at h; simp only at h; injection h with h
    have hreq : p ∈ requests.filter (fun p => (alookup merged p).isSome) := by
      simp [List.mem_filter, hp, hme]
    obtain ⟨pe, hpe, hk⟩ := addRequested_added merged hm _ v m' ha p hreq hv parent comp hs
    have hns : isSharded pe = false := by cases pe <;> simp [hasKey, isSharded] at hk ⊢
    have hfin : alookup final parent = some pe := by
      rw [← h]; exact alookup_filter_of_pos m' _ parent pe hpe (by simp [hns])
    unfold deliveredUnderKey
    simp only [hs, hfin]
    have hc : keyComp (Key.str comp) = comp := by simp [keyComp, keyStr, hplain]
    cases pe with
    | dict ks =>
      simp only [hasKey, List.contains_iff_mem] at hk
      simp only [List.any_eq_true]
      exact ⟨Key.str comp, by simpa using hk, by simp [hc]⟩
    | odict ks =>
      simp only [hasKey] at hk
      simp only [List.any_eq_true]
      exact ⟨Key.str comp, by simpa using hk, by simp [hc]⟩
    | list => simp [hasKey] at hk
    | leaf r pl => simp [hasKey] at hk
    | chunked r md cs => simp [hasKey] at hk
    | sharded ss => simp [hasKey] at hk

end Ts.ManifestOps
