import TsModel.Partition
import TsProofs.ManifestOps
/-!
Helper lemmas about `TsModel.Partition`: `argmin`, the greedy assignment, entries after partitioning,
consolidation, the gathered global manifest and its round trip through `rankToManifest`.
-/
namespace Ts.Partition
open Ts.ManifestOps

/-! ## argmin: index of the first minimum -/

theorem argminAux_spec (xs : List Nat) (i bi bv : Nat) (pre : List Nat)
    (hi : pre.length = i) (hbi : bi < i) (hbv : pre[bi]? = some bv)
    (hmin : ∀ (q v : Nat), pre[q]? = some v → bv ≤ v) (hfirst : ∀ (q v : Nat), q < bi → pre[q]? = some v → bv < v) :
    let r := argminAux xs i bi bv
    r < (pre ++ xs).length ∧ ∃ rv, (pre ++ xs)[r]? = some rv ∧
      (∀ (q v : Nat), (pre ++ xs)[q]? = some v → rv ≤ v) ∧ (∀ (q v : Nat), q < r → (pre ++ xs)[q]? = some v → rv < v) := by
  induction xs generalizing i bi bv pre with
  | nil =>
    simp only [argminAux, List.append_nil]
    exact ⟨by omega, bv, hbv, hmin, hfirst⟩
  | cons x xs ih =>
    simp only [argminAux]
    have happ : pre ++ x :: xs = (pre ++ [x]) ++ xs := by simp
    rw [happ]
    have hlen : (pre ++ [x]).length = i + 1 := by simp [hi]
    have hget : ∀ q, (pre ++ [x])[q]? = if q < i then pre[q]? else if q = i then some x else none := by
      intro q
      by_cases hq : q < i
      · simp [hq, List.getElem?_append_left (hi ▸ hq)]
      · by_cases hq2 : q = i
        · subst hq2; simp [← hi]
        · simp [hq, hq2]; omega
    split
    · rename_i hlt
      apply ih (i + 1) i x (pre ++ [x]) hlen (by omega)
      · rw [hget]; simp
      · intro q v hv
        rw [hget] at hv
        split at hv
        · have := hmin q v hv; omega
        · split at hv
          · injection hv with hv; omega
          · simp at hv
      · intro q v hq hv
        rw [hget, if_pos hq] at hv
        have := hmin q v hv; omega
    · rename_i hge
      apply ih (i + 1) bi bv (pre ++ [x]) hlen (by omega)
      · rw [hget, if_pos hbi]; exact hbv
      · intro q v hv
        rw [hget] at hv
        split at hv
        · exact hmin q v hv
        · split at hv
          · injection hv with hv; omega
          · simp at hv
      · intro q v hq hv
        rw [hget, if_pos (by omega)] at hv
        exact hfirst q v hq hv

/-- `argmin` returns the index of the first minimum (and raises only on the empty list) -/
theorem argmin_spec (l : List Nat) (r : Nat) (h : argmin l = .ok r) :
    r < l.length ∧ ∃ rv, l[r]? = some rv ∧ (∀ (q v : Nat), l[q]? = some v → rv ≤ v) ∧
      (∀ (q v : Nat), q < r → l[q]? = some v → rv < v) := by
  cases l with
  | nil => simp [argmin] at h
  | cons x xs =>
    simp only [argmin] at h; injection h with h; subst h
    have := argminAux_spec xs 1 0 x [x] rfl (by omega) rfl
      (by intro q v hv; cases q <;> simp at hv; omega)
      (by intro q v hq; omega)
    simpa using this

theorem argmin_ok (l : List Nat) (h : l ≠ []) : ∃ r, argmin l = .ok r := by
  cases l with
  | nil => exact absurd rfl h
  | cons x xs => exact ⟨_, rfl⟩

/-! ## one greedy step -/

theorem give_spec (st st' : State) (wlsOf : Nat → List WriteLoad) (size : Nat) (h : give st wlsOf size = .ok st') :
    ∃ r, argmin st.loads = .ok r ∧
      st' = { loads := addAt st.loads r size, result := modifyAt st.result r (· ++ wlsOf r),
              log := st.log ++ [(r, size)] } := by
  unfold give at h
  cases ha : argmin st.loads with
  | error e => rw [ha] at h; simp at h
  | ok r => rw [ha] at h; simp only at h; injection h with h; exact ⟨r, rfl, h.symm⟩

theorem give_ok (st : State) (wlsOf : Nat → List WriteLoad) (size : Nat) (hne : st.loads ≠ []) :
    ∃ st', give st wlsOf size = .ok st' := by
  obtain ⟨r, hr⟩ := argmin_ok st.loads hne
  refine ⟨{ loads := addAt st.loads r size, result := modifyAt st.result r (· ++ wlsOf r),
            log := st.log ++ [(r, size)] }, ?_⟩
  simp [give, hr]

theorem getElem?_addAt (l : List Nat) (r s q : Nat) :
    (addAt l r s)[q]? = if q = r then l[q]?.map (· + s) else l[q]? := by
  unfold addAt; exact getElem?_modifyAt l r q _

/-- size of the last unit given to rank `r` (none: the rank received nothing) -/
def lastSize (log : List (Nat × Nat)) (r : Nat) : Option Nat :=
  ((log.filter (fun x => x.1 = r)).getLast?).map (·.2)

/-- total size of the units given to rank `r` -/
def given (log : List (Nat × Nat)) (r : Nat) : Nat := ((log.filter (fun x => x.1 = r)).map (·.2)).sum

theorem lastSize_snoc (log : List (Nat × Nat)) (r0 s0 r : Nat) :
    lastSize (log ++ [(r0, s0)]) r = if r0 = r then some s0 else lastSize log r := by
  unfold lastSize
  rw [List.filter_append]
  by_cases h : r0 = r
  · simp [h, List.getLast?_append]
  · simp [h]

theorem given_snoc (log : List (Nat × Nat)) (r0 s0 r : Nat) :
    given (log ++ [(r0, s0)]) r = if r0 = r then given log r + s0 else given log r := by
  unfold given
  rw [List.filter_append]
  by_cases h : r0 = r
  · simp [h]
  · simp [h]

/-- the balance invariant: a rank that received work is at most its last unit above every rank -/
def Balanced (st : State) : Prop :=
  ∀ (r s lr : Nat), lastSize st.log r = some s → st.loads[r]? = some lr →
    ∀ (q lq : Nat), st.loads[q]? = some lq → lr ≤ lq + s

/-- the accounting invariant: load = starting load + what was given -/
def Accounted (loads0 : List Nat) (st : State) : Prop :=
  st.loads.length = loads0.length ∧
  ∀ (r l0 : Nat), loads0[r]? = some l0 → st.loads[r]? = some (l0 + given st.log r)

theorem balanced_give (st st' : State) (wlsOf : Nat → List WriteLoad) (size : Nat)
    (hb : Balanced st) (h : give st wlsOf size = .ok st') : Balanced st' := by
  obtain ⟨r0, hr0, rfl⟩ := give_spec st st' wlsOf size h
  obtain ⟨hlt, rv, hrv, hmin, _⟩ := argmin_spec st.loads r0 hr0
  intro r s lr hs hlr q lq hlq
  simp only at hs hlr hlq
  rw [lastSize_snoc] at hs
  rw [getElem?_addAt] at hlr hlq
  -- the old load of q
  have hq : ∃ lq0, st.loads[q]? = some lq0 ∧ lq0 ≤ lq := by
    split at hlq
    · cases hx : st.loads[q]? with
      | none => rw [hx] at hlq; simp at hlq
      | some x => rw [hx] at hlq; simp at hlq; exact ⟨x, rfl, by omega⟩
    · exact ⟨lq, hlq, Nat.le_refl _⟩
  obtain ⟨lq0, hlq0, hle⟩ := hq
  by_cases hrr : r0 = r
  · subst hrr
    rw [if_pos rfl] at hs hlr
    injection hs with hs; subst hs
    rw [hrv] at hlr; simp at hlr
    have := hmin q lq0 hlq0
    omega
  · rw [if_neg hrr] at hs
    rw [if_neg (fun e => hrr e.symm)] at hlr
    have := hb r s lr hs hlr q lq0 hlq0
    omega

theorem accounted_give (loads0 : List Nat) (st st' : State) (wlsOf : Nat → List WriteLoad) (size : Nat)
    (ha : Accounted loads0 st) (h : give st wlsOf size = .ok st') : Accounted loads0 st' := by
  obtain ⟨r0, hr0, rfl⟩ := give_spec st st' wlsOf size h
  refine ⟨by simp [addAt, length_modifyAt, ha.1], fun r l0 hl0 => ?_⟩
  simp only
  rw [getElem?_addAt, given_snoc, ha.2 r l0 hl0]
  by_cases hrr : r = r0
  · subst hrr; simp; omega
  · have : ¬ r0 = r := fun e => hrr e.symm
    simp [hrr, this]

theorem flatten_modifyAt_perm {α : Type} (l : List (List α)) (r : Nat) (x : List α) (h : r < l.length) :
    (modifyAt l r (· ++ x)).flatten.Perm (l.flatten ++ x) := by
  induction l generalizing r with
  | nil => simp at h
  | cons a l ih =>
    cases r with
    | zero =>
      simp only [modifyAt, List.flatten_cons, List.append_assoc]
      exact List.Perm.append_left a List.perm_append_comm
    | succ r =>
      simp only [modifyAt, List.flatten_cons, List.append_assoc]
      exact List.Perm.append_left a (ih r (by simpa using h))

/-! ## invariants of the two loops -/

/-- invariants that hold in every run: shapes, balance, accounting -/
structure GInv (W : Nat) (loads0 : List Nat) (st : State) : Prop where
  wf_loads : st.loads.length = W
  wf_result : st.result.length = W
  bal : Balanced st
  acc : Accounted loads0 st

theorem ginv_give (W : Nat) (loads0 : List Nat) (st st' : State) (wlsOf : Nat → List WriteLoad) (size : Nat)
    (hi : GInv W loads0 st) (h : give st wlsOf size = .ok st') : GInv W loads0 st' := by
  refine ⟨?_, ?_, balanced_give st st' wlsOf size hi.bal h, accounted_give loads0 st st' wlsOf size hi.acc h⟩
  · obtain ⟨r0, _, rfl⟩ := give_spec st st' wlsOf size h
    simp [addAt, length_modifyAt, hi.wf_loads]
  · obtain ⟨r0, _, rfl⟩ := give_spec st st' wlsOf size h
    simp [length_modifyAt, hi.wf_result]

theorem ginv_stage2 (W : Nat) (loads0 : List Nat) (us : List WriteLoad) (st st' : State)
    (hi : GInv W loads0 st) (h : stage2 us st = .ok st') : GInv W loads0 st' := by
  induction us generalizing st with
  | nil => simp only [stage2] at h; injection h with h; subst h; exact hi
  | cons u us ih =>
    simp only [stage2] at h
    cases hg : give st (fun _ => [u]) u.size with
    | error e => rw [hg] at h; simp at h
    | ok st1 => rw [hg] at h; exact ih st1 (ginv_give W loads0 st st1 _ _ hi hg) h

theorem ginv_stage1 (W : Nat) (loads0 : List Nat) (ranks : List RankInput) (l0 : AList (List WriteLoad))
    (ps : List Str) (st st' : State) (parts parts' : List WriteLoad)
    (hi : GInv W loads0 st) (h : stage1 ranks l0 ps st parts = .ok (st', parts')) : GInv W loads0 st' := by
  induction ps generalizing st parts with
  | nil => simp only [stage1] at h; injection h with h; injection h with h1 h2; subst h1; exact hi
  | cons p ps ih =>
    simp only [stage1] at h
    cases hsub : isSubpartitionable ranks p with
    | error e => rw [hsub] at h; simp at h
    | ok b =>
      rw [hsub] at h
      cases b with
      | true => exact ih st _ hi h
      | false =>
        simp only at h
        split at h
        · simp at h
        · rename_i st1 hg; exact ih st1 _ (ginv_give W loads0 st st1 _ _ hi hg) h

theorem ginv_init (ranks : List RankInput) : GInv ranks.length (ranks.map (·.size)) (initState ranks) := by
  refine ⟨by simp [initState], by simp [initState], ?_, ?_⟩
  · intro r s lr hs; simp [initState, lastSize] at hs
  · refine ⟨by simp [initState], fun r l0 hl0 => ?_⟩
    simp [initState, given] at hl0 ⊢; exact hl0

/-- every ok run of `_partition_write_loads` ends balanced and accounted, whatever the order -/
theorem assignState_inv (ranks : List RankInput) (order : List WriteLoad) (st : State)
    (h : assignState ranks order = .ok st) : GInv ranks.length (ranks.map (·.size)) st := by
  unfold assignState at h
  cases ranks with
  | nil => simp at h
  | cons r0 rs =>
    simp only at h
    cases h1 : stage1 (r0 :: rs) r0.loads (akeys r0.entries) (initState (r0 :: rs)) [] with
    | error e => rw [h1] at h; simp at h
    | ok sp =>
      obtain ⟨st1, parts⟩ := sp
      rw [h1] at h; simp only at h
      split at h
      · exact ginv_stage2 _ _ order st1 st (ginv_stage1 _ _ _ _ _ _ _ _ _ (ginv_init (r0 :: rs)) h1) h
      · simp at h

/-! ## totality and exactly-once under presence / uniformity -/

theorem stage2_perm (us : List WriteLoad) (st : State) (hne : st.loads ≠ []) (hlen : st.result.length = st.loads.length) :
    ∃ st', stage2 us st = .ok st' ∧ st'.result.flatten.Perm (st.result.flatten ++ us) ∧
      (∀ r, given st'.log r + sumSizes ((st.result[r]?).getD []) = given st.log r + sumSizes ((st'.result[r]?).getD [])) := by
  induction us generalizing st with
  | nil => exact ⟨st, rfl, by simp, fun r => rfl⟩
  | cons u us ih =>
    obtain ⟨st1, hg⟩ := give_ok st (fun _ => [u]) u.size hne
    obtain ⟨r0, hr0, hst1⟩ := give_spec st st1 _ _ hg
    have hr0lt := (argmin_spec st.loads r0 hr0).1
    have hne1 : st1.loads ≠ [] := by
      rw [hst1]; simp only [addAt]
      intro e; have := congrArg List.length e; simp [length_modifyAt] at this; exact hne this
    have hlen1 : st1.result.length = st1.loads.length := by rw [hst1]; simp [addAt, length_modifyAt, hlen]
    obtain ⟨st', h', hp, hgv⟩ := ih st1 hne1 hlen1
    refine ⟨st', by simp [stage2, hg, h'], ?_, ?_⟩
    · have h1 : st1.result.flatten.Perm (st.result.flatten ++ [u]) := by
        rw [hst1]; exact flatten_modifyAt_perm st.result r0 [u] (by omega)
      exact hp.trans ((List.Perm.append_right us h1).trans (by simp))
    · intro r
      have := hgv r
      rw [hst1] at this
      simp only [given_snoc, getElem?_modifyAt] at this
      by_cases hrr : r = r0
      · subst hrr
        have hx : st.result[r]? = some (st.result[r]'(by omega)) := List.getElem?_eq_getElem (by omega)
        simp [hx, sumSizes] at this ⊢
        omega
      · have : ¬ r0 = r := fun e => hrr e.symm
        simp_all

/-- every rank holds an entry for each of the paths (they were verified to be present on all ranks) -/
def Present (ranks : List RankInput) (ps : List Str) : Prop :=
  ∀ p ∈ ps, ∀ r ∈ ranks, (alookup r.entries p).isSome = true

/-- every rank declares the same write loads as `l0` (the objects are replicated: identical everywhere) -/
def Uniform (ranks : List RankInput) (l0 : AList (List WriteLoad)) : Prop :=
  ∀ r ∈ ranks, ∀ p, loadsOf r.loads p = loadsOf l0 p

theorem entriesAt_ok (ranks : List RankInput) (p : Str) (h : ∀ r ∈ ranks, (alookup r.entries p).isSome = true) :
    ∃ es, entriesAt ranks p = .ok es ∧ es.length = ranks.length := by
  induction ranks with
  | nil => exact ⟨[], rfl, rfl⟩
  | cons r rs ih =>
    obtain ⟨es, he, hl⟩ := ih (fun r' hr' => h r' (List.mem_cons_of_mem _ hr'))
    obtain ⟨e, hee⟩ := Option.isSome_iff_exists.mp (h r (by simp))
    exact ⟨e :: es, by simp [entriesAt, hee, he], by simp [hl]⟩

theorem isSubpartitionable_ok (ranks : List RankInput) (hne : ranks ≠ []) (p : Str)
    (h : ∀ r ∈ ranks, (alookup r.entries p).isSome = true) : ∃ b, isSubpartitionable ranks p = .ok b := by
  obtain ⟨es, he, hl⟩ := entriesAt_ok ranks p h
  unfold isSubpartitionable
  rw [he]
  cases es with
  | nil => simp at hl; exact absurd hl.symm (by simpa using hne)
  | cons e0 es => exact ⟨_, rfl⟩

theorem stage1_perm (ranks : List RankInput) (hne : ranks ≠ []) (l0 : AList (List WriteLoad))
    (huni : Uniform ranks l0) (ps : List Str) (hpres : Present ranks ps) (st : State) (parts : List WriteLoad)
    (hl : st.loads.length = ranks.length) (hr : st.result.length = ranks.length) :
    ∃ st' parts', stage1 ranks l0 ps st parts = .ok (st', parts') ∧
      st'.loads.length = ranks.length ∧ st'.result.length = ranks.length ∧
      (st'.result.flatten ++ parts').Perm (st.result.flatten ++ parts ++ ps.flatMap (loadsOf l0)) ∧
      (∀ r, given st'.log r + sumSizes ((st.result[r]?).getD []) = given st.log r + sumSizes ((st'.result[r]?).getD [])) := by
  induction ps generalizing st parts with
  | nil => exact ⟨st, parts, rfl, hl, hr, by simp, fun r => rfl⟩
  | cons p ps ih =>
    have hpres' : Present ranks ps := fun q hq => hpres q (List.mem_cons_of_mem _ hq)
    obtain ⟨b, hb⟩ := isSubpartitionable_ok ranks hne p (hpres p (by simp))
    cases b with
    | true =>
      obtain ⟨st', parts', h', hl', hr', hp, hgv⟩ := ih hpres' st (parts ++ loadsOf l0 p) hl hr
      refine ⟨st', parts', by simp [stage1, hb, h'], hl', hr', ?_, hgv⟩
      exact hp.trans (by simp [List.flatMap_cons])
    | false =>
      have hlne : st.loads ≠ [] := by
        intro e; rw [e] at hl; simp at hl; exact hne (List.length_eq_zero_iff.mp hl.symm)
      obtain ⟨st1, hg⟩ := give_ok st (rankLoadsAt ranks p) (sumSizes (loadsOf l0 p)) hlne
      obtain ⟨r0, hr0, hst1⟩ := give_spec st st1 _ _ hg
      have hr0lt := (argmin_spec st.loads r0 hr0).1
      have hw : rankLoadsAt ranks p r0 = loadsOf l0 p := by
        have hx : ranks[r0]? = some (ranks[r0]'(by omega)) := List.getElem?_eq_getElem (by omega)
        unfold rankLoadsAt
        rw [hx]; exact huni _ (List.getElem_mem _) p
      have hl1 : st1.loads.length = ranks.length := by rw [hst1]; simp [addAt, length_modifyAt, hl]
      have hr1 : st1.result.length = ranks.length := by rw [hst1]; simp [length_modifyAt, hr]
      obtain ⟨st', parts', h', hl', hr', hp, hgv⟩ := ih hpres' st1 parts hl1 hr1
      refine ⟨st', parts', by simp [stage1, hb, hg, h'], hl', hr', ?_, ?_⟩
      · have h1 : st1.result.flatten.Perm (st.result.flatten ++ loadsOf l0 p) := by
          rw [hst1]; simp only [hw]
          exact flatten_modifyAt_perm st.result r0 _ (by omega)
        have h2 : (st1.result.flatten ++ parts ++ ps.flatMap (loadsOf l0)).Perm
            ((st.result.flatten ++ loadsOf l0 p) ++ (parts ++ ps.flatMap (loadsOf l0))) := by
          rw [List.append_assoc]; exact List.Perm.append_right _ h1
        have h3 : ((st.result.flatten ++ loadsOf l0 p) ++ (parts ++ ps.flatMap (loadsOf l0))).Perm
            (st.result.flatten ++ parts ++ (loadsOf l0 p ++ ps.flatMap (loadsOf l0))) := by
          simp only [List.append_assoc]
          apply List.Perm.append_left
          rw [← List.append_assoc, ← List.append_assoc]
          exact List.Perm.append_right _ List.perm_append_comm
        simp only [List.flatMap_cons]
        exact hp.trans (h2.trans h3)
      · intro r
        have := hgv r
        rw [hst1] at this
        simp only [given_snoc, getElem?_modifyAt, hw] at this
        by_cases hrr : r = r0
        · subst hrr
          have hx : st.result[r]? = some (st.result[r]'(by omega)) := List.getElem?_eq_getElem (by omega)
          simp [hx, sumSizes] at this ⊢
          omega
        · have : ¬ r0 = r := fun e => hrr e.symm
          simp_all

/-- all write loads of the replicated objects as declared by rank 0, in rank 0's key order:
one per object / tensor, one per chunk of a chunked tensor -/
def allLoads (ranks : List RankInput) : List WriteLoad :=
  match ranks with
  | [] => []
  | r0 :: _ => (akeys r0.entries).flatMap (loadsOf r0.loads)

theorem sumSizes_flatten (l : List (List WriteLoad)) : sumSizes l.flatten = (l.map sumSizes).sum := by
  induction l with
  | nil => rfl
  | cons a l ih => simp [sumSizes, List.sum_append] at ih ⊢; rw [ih]

theorem sumSizes_perm (a b : List WriteLoad) (h : a.Perm b) : sumSizes a = sumSizes b := by
  unfold sumSizes; exact (h.map (fun w => w.size)).sum_nat

/-- the whole of `_partition_write_loads` under presence and uniformity, for every admissible order -/
theorem assignState_total (r0 : RankInput) (rs : List RankInput) (order : List WriteLoad)
    (hpres : Present (r0 :: rs) (akeys r0.entries)) (huni : Uniform (r0 :: rs) r0.loads)
    (hperm : ∀ parts, partitionables (r0 :: rs) = .ok parts → order.Perm parts) :
    ∃ st, assignState (r0 :: rs) order = .ok st ∧ st.result.length = (r0 :: rs).length ∧
      st.result.flatten.Perm (allLoads (r0 :: rs)) ∧
      (∀ r, given st.log r = sumSizes ((st.result[r]?).getD [])) := by
  obtain ⟨st1, parts1, h1, hl1, hr1, hp1, hg1⟩ :=
    stage1_perm (r0 :: rs) (by simp) r0.loads huni (akeys r0.entries) hpres (initState (r0 :: rs)) []
      (by simp [initState]) (by simp [initState])
  have hparts : partitionables (r0 :: rs) = .ok parts1 := by simp [partitionables, h1, Except.map]
  have hord := hperm parts1 hparts
  have hne1 : st1.loads ≠ [] := by
    intro e; rw [e] at hl1; simp at hl1
  obtain ⟨st2, h2, hp2, hg2⟩ := stage2_perm order st1 hne1 (by rw [hr1, hl1])
  refine ⟨st2, ?_, ?_, ?_, ?_⟩
  · simp only [assignState, h1]
    rw [if_pos (List.isPerm_iff.mpr hord)]; exact h2
  · have := ginv_stage2 _ _ order st1 st2
      (ginv_stage1 _ _ _ _ _ _ _ _ _ (ginv_init (r0 :: rs)) h1) h2
    exact this.wf_result
  · have e0 : (initState (r0 :: rs)).result.flatten = [] := by
      simp [initState]
    rw [e0] at hp1
    simp only [List.nil_append] at hp1
    have : (st1.result.flatten ++ order).Perm (st1.result.flatten ++ parts1) := List.Perm.append_left _ hord
    exact hp2.trans (this.trans hp1)
  · intro r
    have a := hg1 r
    have b := hg2 r
    have e0 : sumSizes (((initState (r0 :: rs)).result[r]?).getD []) = 0 := by
      simp only [initState]
      cases hx : (List.map (fun _ => ([] : List WriteLoad)) (r0 :: rs))[r]? with
      | none => rfl
      | some x =>
        have := List.mem_of_getElem? hx
        have hx' : x = [] := by
          rcases List.mem_map.mp this with ⟨_, _, e⟩; exact e.symm
        subst hx'; rfl
    have e1 : given (initState (r0 :: rs)).log r = 0 := by simp [initState, given]
    omega

/-- a rank whose result list is not empty was chosen at least once -/
def Received (st : State) : Prop :=
  ∀ (r : Nat) (l : List WriteLoad), st.result[r]? = some l → l ≠ [] → ∃ s, lastSize st.log r = some s

theorem received_give (st st' : State) (wlsOf : Nat → List WriteLoad) (size : Nat)
    (hb : Received st) (h : give st wlsOf size = .ok st') : Received st' := by
  obtain ⟨r0, hr0, rfl⟩ := give_spec st st' wlsOf size h
  intro r l hl hne
  simp only at hl ⊢
  rw [lastSize_snoc]
  by_cases hrr : r0 = r
  · simp [hrr]
  · rw [if_neg hrr]
    rw [getElem?_modifyAt, if_neg (fun e => hrr e.symm)] at hl
    exact hb r l hl hne

theorem received_stage2 (us : List WriteLoad) (st st' : State) (hi : Received st) (h : stage2 us st = .ok st') :
    Received st' := by
  induction us generalizing st with
  | nil => simp only [stage2] at h; injection h with h; subst h; exact hi
  | cons u us ih =>
    simp only [stage2] at h
    cases hg : give st (fun _ => [u]) u.size with
    | error e => rw [hg] at h; simp at h
    | ok st1 => rw [hg] at h; exact ih st1 (received_give st st1 _ _ hi hg) h

theorem received_stage1 (ranks : List RankInput) (l0 : AList (List WriteLoad))
    (ps : List Str) (st st' : State) (parts parts' : List WriteLoad)
    (hi : Received st) (h : stage1 ranks l0 ps st parts = .ok (st', parts')) : Received st' := by
  induction ps generalizing st parts with
  | nil => simp only [stage1] at h; injection h with h; injection h with h1 h2; subst h1; exact hi
  | cons p ps ih =>
    simp only [stage1] at h
    cases hsub : isSubpartitionable ranks p with
    | error e => rw [hsub] at h; simp at h
    | ok b =>
      rw [hsub] at h
      cases b with
      | true => exact ih st _ hi h
      | false =>
        simp only at h
        split at h
        · simp at h
        · rename_i st1 hg; exact ih st1 _ (received_give st st1 _ _ hi hg) h

theorem assignState_received (ranks : List RankInput) (order : List WriteLoad) (st : State)
    (h : assignState ranks order = .ok st) : Received st := by
  unfold assignState at h
  cases ranks with
  | nil => simp at h
  | cons r0 rs =>
    simp only at h
    cases h1 : stage1 (r0 :: rs) r0.loads (akeys r0.entries) (initState (r0 :: rs)) [] with
    | error e => rw [h1] at h; simp at h
    | ok sp =>
      obtain ⟨st1, parts⟩ := sp
      rw [h1] at h; simp only at h
      split at h
      · refine received_stage2 order st1 st (received_stage1 _ _ _ _ _ _ _ ?_ h1) h
        intro r l hl hne
        simp only [initState] at hl
        have := List.mem_of_getElem? hl
        rcases List.mem_map.mp this with ⟨_, _, e⟩
        exact absurd e.symm hne
      · simp at h

/-! ## which paths are replicated -/

theorem mem_candidates (g : Str → Bool) (f : List (Str × Bool)) (p : Str) :
    p ∈ candidates g f ↔ g p = true ∧ (p, false) ∈ f := by
  unfold candidates
  simp only [List.mem_map, List.mem_filter]
  constructor
  · rintro ⟨⟨q, sh⟩, ⟨hm, hc⟩, rfl⟩
    simp at hc
    obtain ⟨h1, h2⟩ := hc
    subst h2
    exact ⟨h1, hm⟩
  · rintro ⟨h1, h2⟩
    exact ⟨(p, false), ⟨h2, by simp [h1]⟩, rfl⟩

theorem nodup_candidates (g : Str → Bool) (f : List (Str × Bool)) (h : (f.map (·.1)).Nodup) :
    (candidates g f).Nodup := by
  unfold candidates
  exact (List.filter_sublist.map _).nodup h

theorem sum_eq_length_iff (l : List Nat) (h : ∀ x ∈ l, x ≤ 1) : l.sum = l.length ↔ ∀ x ∈ l, x = 1 := by
  induction l with
  | nil => simp
  | cons a l ih =>
    have ha : a ≤ 1 := h a (by simp)
    have hl : ∀ x ∈ l, x ≤ 1 := fun x hx => h x (by simp [hx])
    have hs : l.sum ≤ l.length := by
      clear ih h
      induction l with
      | nil => simp
      | cons b l ih2 =>
        have := hl b (by simp)
        have := ih2 (fun x hx => hl x (by simp [hx]))
        simp; omega
    simp only [List.sum_cons, List.length_cons, List.mem_cons, forall_eq_or_imp]
    constructor
    · intro he
      have : a = 1 := by omega
      exact ⟨this, (ih hl).mp (by omega)⟩
    · rintro ⟨h1, h2⟩
      have := (ih hl).mpr h2
      omega

/-- `_calculate_replicated_entries`: a path is treated as replicated iff it matches a glob and is present,
not sharded, on **every** rank -/
theorem replicatedPaths_spec (g : Str → Bool) (rankFlat : List (List (Str × Bool)))
    (hnd : ∀ f ∈ rankFlat, (f.map (·.1)).Nodup) (p : Str) :
    p ∈ replicatedPaths g rankFlat ↔ g p = true ∧ rankFlat ≠ [] ∧ ∀ f ∈ rankFlat, (p, false) ∈ f := by
  cases rankFlat with
  | nil => simp [replicatedPaths]
  | cons f0 fs =>
    simp only [replicatedPaths, List.mem_filter, mem_candidates, decide_eq_true_eq, ne_eq, reduceCtorEq,
      not_false_eq_true, true_and]
    have hcount : ∀ f ∈ f0 :: fs, (candidates g f).count p = if p ∈ candidates g f then 1 else 0 :=
      fun f hf => (nodup_candidates g f (hnd f hf)).count
    have hle : ∀ x ∈ ((f0 :: fs).map (candidates g)).map (fun c => c.count p), x ≤ 1 := by
      intro x hx
      simp only [List.map_map, List.mem_map, Function.comp] at hx
      obtain ⟨f, hf, rfl⟩ := hx
      rw [hcount f hf]; split <;> omega
    have hlen : (((f0 :: fs).map (candidates g)).map (fun c => c.count p)).length = (f0 :: fs).length := by simp
    rw [← hlen, sum_eq_length_iff _ hle]
    constructor
    · rintro ⟨⟨hg, _⟩, hall⟩
      refine ⟨hg, fun f hf => ?_⟩
      have := hall ((candidates g f).count p) (by
        simp only [List.map_map, List.mem_map, Function.comp]; exact ⟨f, hf, rfl⟩)
      rw [hcount f hf] at this
      split at this
      · rename_i hm; exact ((mem_candidates g f p).mp hm).2
      · omega
    · rintro ⟨hg, hall⟩
      refine ⟨⟨hg, hall f0 (by simp)⟩, fun x hx => ?_⟩
      simp only [List.map_map, List.mem_map, Function.comp] at hx
      obtain ⟨f, hf, rfl⟩ := hx
      rw [hcount f hf, if_pos ((mem_candidates g f p).mpr ⟨hg, hall f hf⟩)]

/-! ## consolidation, step 1: merged chunked entries -/

/-- the chunks of the replicated chunked entry a manifest holds at `p` -/
def chunksAt (m : Manifest) (p : Str) : List Shard :=
  match alookup m p with
  | some (.chunked true _ cs) => cs
  | _ => []

/-- the manifest holds a replicated chunked entry at `p` -/
def hasRepChunkedAt (m : Manifest) (p : Str) : Bool :=
  match alookup m p with
  | some (.chunked true _ _) => true
  | _ => false

/-- all chunks of `p` that the ranks hold, rank after rank -/
def savedChunks (ms : List Manifest) (p : Str) : List Shard := ms.flatMap (fun m => chunksAt m p)

/-- `(dtype, shape)` of the first rank holding a replicated chunked entry at `p` -/
def firstMeta : List Manifest → Str → Nat
  | [], _ => 0
  | m :: ms, p =>
    match alookup m p with
    | some (.chunked true md _) => md
    | _ => firstMeta ms p

theorem alookup_addChunkGroup (g : AList (Nat × List Shard)) (p q : Str) (md : Nat) (cs : List Shard) :
    alookup (addChunkGroup g p md cs) q =
      if q = p then some (match alookup g p with
                          | some (m0, old) => (m0, old ++ cs)
                          | none => (md, cs))
      else alookup g q := by
  unfold addChunkGroup
  cases h : alookup g p with
  | none => simp [alookup_ainsert]
  | some v => obtain ⟨m0, old⟩ := v; simp [alookup_ainsert]

theorem nodup_addChunkGroup (g : AList (Nat × List Shard)) (p : Str) (md : Nat) (cs : List Shard)
    (h : (akeys g).Nodup) : (akeys (addChunkGroup g p md cs)).Nodup := by
  unfold addChunkGroup
  split <;> exact nodup_akeys_ainsert _ _ _ h

def isRepChunked : Entry → Bool
  | .chunked true _ _ => true
  | _ => false

theorem chunkGroupsOf_cons_other (k : Str) (e : Entry) (rest : Manifest) (g : AList (Nat × List Shard))
    (h : isRepChunked e = false) : chunkGroupsOf ((k, e) :: rest) g = chunkGroupsOf rest g := by
  cases e with
  | chunked r md cs => cases r <;> first | rfl | simp [isRepChunked] at h
  | _ => rfl

/-- the value a group gets from one manifest -/
def groupStep (old : Option (Nat × List Shard)) (m : Manifest) (p : Str) : Option (Nat × List Shard) :=
  match alookup m p with
  | some (.chunked true md cs) =>
    some (match old with
          | some (m0, o) => (m0, o ++ cs)
          | none => (md, cs))
  | _ => old

theorem chunkGroupsOf_spec (m : Manifest) (hn : (akeys m).Nodup) (g : AList (Nat × List Shard)) (p : Str) :
    alookup (chunkGroupsOf m g) p = groupStep (alookup g p) m p ∧
    ((akeys g).Nodup → (akeys (chunkGroupsOf m g)).Nodup) := by
  induction m generalizing g with
  | nil => simp [chunkGroupsOf, groupStep]
  | cons pe rest ih =>
    obtain ⟨k, e⟩ := pe
    simp only [akeys, List.map_cons, List.nodup_cons] at hn
    have hnone : alookup rest k = none := (alookup_eq_none_iff rest k).mpr hn.1
    have ihr := fun g => ih hn.2 g
    cases hrc : isRepChunked e with
    | false =>
      rw [chunkGroupsOf_cons_other k e rest g hrc]
      refine ⟨?_, (ihr g).2⟩
      rw [(ihr g).1]
      unfold groupStep
      by_cases hk : k = p
      · subst hk
        rw [hnone, alookup_cons, if_pos rfl]
        cases e with
        | chunked r md cs => cases r <;> simp [isRepChunked] at hrc ⊢
        | _ => rfl
      · rw [alookup_cons, if_neg hk]
    | true =>
      cases e with
      | chunked r md cs =>
        cases r with
        | false => simp [isRepChunked] at hrc
        | true =>
          simp only [chunkGroupsOf]
          refine ⟨?_, fun hg => (ihr _).2 (nodup_addChunkGroup g k md cs hg)⟩
          rw [(ihr _).1]
          unfold groupStep
          by_cases hk : k = p
          · subst hk
            rw [hnone, alookup_cons, if_pos rfl, alookup_addChunkGroup, if_pos rfl]
          · have hpk : p ≠ k := fun e => hk e.symm
            rw [alookup_cons, if_neg hk, alookup_addChunkGroup, if_neg hpk]
      | _ => simp [isRepChunked] at hrc

/-- the group of `p` after all manifests -/
def groupOf : List Manifest → Option (Nat × List Shard) → Str → Option (Nat × List Shard)
  | [], old, _ => old
  | m :: ms, old, p => groupOf ms (groupStep old m p) p

theorem chunkGroupsFrom_spec (ms : List Manifest) (hn : ∀ m ∈ ms, (akeys m).Nodup)
    (g : AList (Nat × List Shard)) (p : Str) :
    alookup (chunkGroupsFrom ms g) p = groupOf ms (alookup g p) p ∧
    ((akeys g).Nodup → (akeys (chunkGroupsFrom ms g)).Nodup) := by
  induction ms generalizing g with
  | nil => simp [chunkGroupsFrom, groupOf]
  | cons m ms ih =>
    have hm := chunkGroupsOf_spec m (hn m (by simp)) g p
    have ihr := ih (fun m' hm' => hn m' (List.mem_cons_of_mem _ hm')) (chunkGroupsOf m g)
    simp only [chunkGroupsFrom, groupOf]
    exact ⟨by rw [ihr.1, hm.1], fun hg => ihr.2 (hm.2 hg)⟩

/-- closed form of a group that starts from an existing value -/
theorem groupOf_some (ms : List Manifest) (m0 : Nat) (o : List Shard) (p : Str) :
    groupOf ms (some (m0, o)) p = some (m0, o ++ savedChunks ms p) := by
  induction ms generalizing o with
  | nil => simp [groupOf, savedChunks]
  | cons m ms ih =>
    simp only [groupOf, groupStep]
    have hs : savedChunks (m :: ms) p = chunksAt m p ++ savedChunks ms p := by simp [savedChunks]
    cases hl : alookup m p with
    | none => simp [ih, hs, chunksAt, hl]
    | some e =>
      cases e with
      | chunked r md cs =>
        cases r with
        | true => simp [ih, hs, chunksAt, hl]
        | false => simp [ih, hs, chunksAt, hl]
      | _ => simp [ih, hs, chunksAt, hl]

theorem groupOf_none (ms : List Manifest) (p : Str) :
    groupOf ms none p =
      if ms.any (fun m => hasRepChunkedAt m p) then some (firstMeta ms p, savedChunks ms p) else none := by
  induction ms with
  | nil => simp [groupOf]
  | cons m ms ih =>
    simp only [groupOf, groupStep, List.any_cons]
    have hs : savedChunks (m :: ms) p = chunksAt m p ++ savedChunks ms p := by simp [savedChunks]
    cases hl : alookup m p with
    | none => simp [ih, hs, chunksAt, hasRepChunkedAt, firstMeta, hl]
    | some e =>
      cases e with
      | chunked r md cs =>
        cases r with
        | true => simp [groupOf_some, hs, chunksAt, hasRepChunkedAt, firstMeta, hl]
        | false => simp [ih, hs, chunksAt, hasRepChunkedAt, firstMeta, hl]
      | _ => simp [ih, hs, chunksAt, hasRepChunkedAt, firstMeta, hl]

/-- the `groups` dict: one group per path at which some rank holds a replicated chunked entry -/
theorem chunkGroups_spec (ms : List Manifest) (hn : ∀ m ∈ ms, (akeys m).Nodup) (p : Str) :
    alookup (chunkGroups ms) p =
      (if ms.any (fun m => hasRepChunkedAt m p) then some (firstMeta ms p, savedChunks ms p) else none) ∧
    (akeys (chunkGroups ms)).Nodup := by
  have := chunkGroupsFrom_spec ms hn [] p
  unfold chunkGroups
  exact ⟨by rw [this.1]; exact groupOf_none ms p, this.2 (by simp [akeys])⟩

/-- one manifest after every group has been written into it -/
def applyTo : AList (Nat × List Shard) → Manifest → Manifest
  | [], m => m
  | (p, (md, cs)) :: rest, m => applyTo rest (ainsert m p (.chunked true md (sortShards cs)))

theorem applyGroups_eq (g : AList (Nat × List Shard)) (rs : List Manifest) :
    applyGroups g rs = rs.map (applyTo g) := by
  induction g generalizing rs with
  | nil => simp [applyGroups, applyTo]
  | cons pg rest ih =>
    obtain ⟨p, md, cs⟩ := pg
    simp only [applyGroups, ih, List.map_map]
    rfl

theorem applyTo_spec (g : AList (Nat × List Shard)) (hg : (akeys g).Nodup) (m : Manifest) (p : Str) :
    alookup (applyTo g m) p =
      (match alookup g p with
       | some (md, cs) => some (.chunked true md (sortShards cs))
       | none => alookup m p) ∧
    ((akeys m).Nodup → (akeys (applyTo g m)).Nodup) ∧
    (∀ q, q ∈ akeys (applyTo g m) → q ∈ akeys m ∨ q ∈ akeys g) := by
  induction g generalizing m with
  | nil => exact ⟨rfl, id, fun q hq => Or.inl hq⟩
  | cons pg rest ih =>
    obtain ⟨k, md, cs⟩ := pg
    simp only [akeys, List.map_cons, List.nodup_cons] at hg
    have hnone : alookup rest k = none := (alookup_eq_none_iff rest k).mpr hg.1
    obtain ⟨i1, i2, i3⟩ := ih hg.2 (ainsert m k (.chunked true md (sortShards cs)))
    simp only [applyTo]
    refine ⟨?_, fun hm => i2 (nodup_akeys_ainsert _ _ _ hm), fun q hq => ?_⟩
    · rw [i1, alookup_cons]
      by_cases hk : k = p
      · subst hk; rw [hnone, if_pos rfl, alookup_ainsert_self]
      · rw [if_neg hk, alookup_ainsert_ne _ _ _ _ (fun e => hk e.symm)]
    · rcases i3 q hq with h | h
      · by_cases hk : q = k
        · right; simp [akeys, hk]
        · left
          cases hl : alookup m q with
          | none =>
            have h2 : alookup (ainsert m k (Entry.chunked true md (sortShards cs))) q = none := by
              rw [alookup_ainsert_ne _ _ _ _ hk]; exact hl
            exact absurd h ((alookup_eq_none_iff _ _).mp h2)
          | some e => exact mem_akeys_of_alookup hl
      · right; simp [akeys] at h ⊢; exact Or.inr h

/-- the merged entry of `p` -/
def mergedChunked (ms : List Manifest) (p : Str) : Entry :=
  .chunked true (firstMeta ms p) (sortShards (savedChunks ms p))

/-- `_consolidate_replicated_chunked_tensor_entries`: every rank holds the merged entry at every path at
which some rank holds a replicated chunked entry; all other paths are untouched -/
theorem consolidateChunked_spec (ms : List Manifest) (hn : ∀ m ∈ ms, (akeys m).Nodup) :
    (consolidateChunked ms).length = ms.length ∧
    ∀ (r : Nat) (m : Manifest), ms[r]? = some m → ∃ x, (consolidateChunked ms)[r]? = some x ∧ (akeys x).Nodup ∧
      (∀ p, alookup x p = if ms.any (fun m => hasRepChunkedAt m p) then some (mergedChunked ms p) else alookup m p) ∧
      (∀ q, q ∈ akeys x → ∃ m' ∈ ms, q ∈ akeys m') := by
  unfold consolidateChunked
  rw [applyGroups_eq]
  refine ⟨by simp, fun r m hr => ⟨applyTo (chunkGroups ms) m, by simp [hr], ?_, ?_, ?_⟩⟩
  · exact (applyTo_spec _ (chunkGroups_spec ms hn []).2 m []).2.1 (hn m (List.mem_of_getElem? hr))
  · intro p
    rw [(applyTo_spec _ (chunkGroups_spec ms hn p).2 m p).1, (chunkGroups_spec ms hn p).1]
    cases hany : ms.any (fun m => hasRepChunkedAt m p) <;> simp [mergedChunked]
  · intro q hq
    rcases (applyTo_spec _ (chunkGroups_spec ms hn q).2 m q).2.2 q hq with h | h
    · exact ⟨m, List.mem_of_getElem? hr, h⟩
    · -- a group path is a path of some manifest
      have := (alookup_isSome_iff (chunkGroups ms) q).mpr h
      rw [(chunkGroups_spec ms hn q).1] at this
      split at this
      · rename_i hany
        obtain ⟨m', hm', hh⟩ := List.any_eq_true.mp hany
        refine ⟨m', hm', ?_⟩
        unfold hasRepChunkedAt at hh
        cases hl : alookup m' q with
        | none => rw [hl] at hh; simp at hh
        | some e => exact mem_akeys_of_alookup hl
      · simp at this

/-! ## consolidation, step 2: collecting the replicated entries -/

structure Collected (m kept repl repl' : Manifest) : Prop where
  kept_eq : kept = m.filter (fun pe => !isReplicated pe.2)
  ext : ∀ p e, alookup repl p = some e → alookup repl' p = some e
  got : ∀ p e, (p, e) ∈ m → isReplicated e = true → alookup repl' p = some e
  src : ∀ p e, alookup repl' p = some e → alookup repl p = some e ∨ ((p, e) ∈ m ∧ isReplicated e = true)
  nodup : (akeys repl).Nodup → (akeys repl').Nodup

theorem collectRank_spec (m repl kept repl' : Manifest) (h : collectRank m repl = .ok (kept, repl')) :
    Collected m kept repl repl' := by
  induction m generalizing repl kept with
  | nil =>
    simp only [collectRank] at h; injection h with h; injection h with h1 h2; subst h1; subst h2
    exact ⟨rfl, fun _ _ h => h, fun _ _ hm => by simp at hm, fun _ _ h => Or.inl h, id⟩
  | cons pe rest ih =>
    obtain ⟨k, e⟩ := pe
    simp only [collectRank] at h
    cases hr : isReplicated e with
    | true =>
      rw [hr] at h; simp only [ite_true] at h
      cases hl : alookup repl k with
      | some e' =>
        rw [hl] at h; simp only at h
        split at h
        · simp at h
        · rename_i hee
          have hee' : e' = e := by simpa using hee
          subst hee'
          have C := ih repl kept h
          refine ⟨by rw [C.kept_eq]; simp [List.filter, hr], C.ext, ?_, ?_, C.nodup⟩
          · intro p e hm hre
            rcases List.mem_cons.mp hm with hm | hm
            · injection hm with h1 h2; subst h1; subst h2; exact C.ext _ _ hl
            · exact C.got p e hm hre
          · intro p e hp
            rcases C.src p e hp with h1 | ⟨h1, h2⟩
            · exact Or.inl h1
            · exact Or.inr ⟨List.mem_cons_of_mem _ h1, h2⟩
      | none =>
        rw [hl] at h; simp only at h
        have C := ih (ainsert repl k e) kept h
        refine ⟨by rw [C.kept_eq]; simp [List.filter, hr], ?_, ?_, ?_, fun hn => C.nodup (nodup_akeys_ainsert _ _ _ hn)⟩
        · intro p e0 hp
          have hpk : p ≠ k := by intro e'; rw [e', hl] at hp; simp at hp
          exact C.ext p e0 (by rw [alookup_ainsert_ne _ _ _ _ hpk]; exact hp)
        · intro p e0 hm hre
          rcases List.mem_cons.mp hm with hm | hm
          · injection hm with h1 h2; subst h1; subst h2; exact C.ext _ _ (alookup_ainsert_self _ _ _)
          · exact C.got p e0 hm hre
        · intro p e0 hp
          rcases C.src p e0 hp with h1 | ⟨h1, h2⟩
          · by_cases hpk : p = k
            · subst hpk
              rw [alookup_ainsert_self] at h1; injection h1 with h1; subst h1
              exact Or.inr ⟨by simp, hr⟩
            · rw [alookup_ainsert_ne _ _ _ _ hpk] at h1; exact Or.inl h1
          · exact Or.inr ⟨List.mem_cons_of_mem _ h1, h2⟩
    | false =>
      rw [hr] at h; simp only [Bool.false_eq_true, ite_false] at h
      cases hc : collectRank rest repl with
      | error err => rw [hc] at h; simp at h
      | ok kr =>
        obtain ⟨kept1, repl1⟩ := kr
        rw [hc] at h; simp only at h
        injection h with h; injection h with h1 h2; subst h1; subst h2
        have C := ih repl kept1 hc
        refine ⟨by rw [C.kept_eq]; simp [List.filter, hr], C.ext, ?_, ?_, C.nodup⟩
        · intro p e0 hm hre
          rcases List.mem_cons.mp hm with hm | hm
          · injection hm with h1 h2; subst h1; subst h2; rw [hr] at hre; simp at hre
          · exact C.got p e0 hm hre
        · intro p e0 hp
          rcases C.src p e0 hp with h1 | ⟨h1, h2⟩
          · exact Or.inl h1
          · exact Or.inr ⟨List.mem_cons_of_mem _ h1, h2⟩

structure CollectedAll (ms kept : List Manifest) (repl repl' : Manifest) : Prop where
  kept_eq : kept = ms.map (fun m => m.filter (fun pe => !isReplicated pe.2))
  ext : ∀ p e, alookup repl p = some e → alookup repl' p = some e
  got : ∀ m ∈ ms, ∀ p e, (p, e) ∈ m → isReplicated e = true → alookup repl' p = some e
  src : ∀ p e, alookup repl' p = some e → alookup repl p = some e ∨ ∃ m ∈ ms, (p, e) ∈ m ∧ isReplicated e = true
  nodup : (akeys repl).Nodup → (akeys repl').Nodup

theorem collectAll_spec (ms kept : List Manifest) (repl repl' : Manifest)
    (h : collectAll ms repl = .ok (kept, repl')) : CollectedAll ms kept repl repl' := by
  induction ms generalizing repl kept with
  | nil =>
    simp only [collectAll] at h; injection h with h; injection h with h1 h2; subst h1; subst h2
    exact ⟨rfl, fun _ _ h => h, fun _ hm => by simp at hm, fun _ _ h => Or.inl h, id⟩
  | cons m ms ih =>
    simp only [collectAll] at h
    cases hc : collectRank m repl with
    | error e => rw [hc] at h; simp at h
    | ok kr =>
      obtain ⟨k1, repl1⟩ := kr
      rw [hc] at h; simp only at h
      cases hc2 : collectAll ms repl1 with
      | error e => rw [hc2] at h; simp at h
      | ok kr2 =>
        obtain ⟨rest, repl2⟩ := kr2
        rw [hc2] at h; simp only at h
        injection h with h; injection h with h1 h2; subst h1; subst h2
        have C := collectRank_spec m repl k1 repl1 hc
        have A := ih rest repl1 hc2
        refine ⟨by rw [A.kept_eq, C.kept_eq]; rfl, fun p e hp => A.ext p e (C.ext p e hp), ?_, ?_,
          fun hn => A.nodup (C.nodup hn)⟩
        · intro m' hm' p e hpe hre
          rcases List.mem_cons.mp hm' with rfl | hm'
          · exact A.ext p e (C.got p e hpe hre)
          · exact A.got m' hm' p e hpe hre
        · intro p e hp
          rcases A.src p e hp with h1 | ⟨m', hm', h1⟩
          · rcases C.src p e h1 with h2 | h2
            · exact Or.inl h2
            · exact Or.inr ⟨m, by simp, h2⟩
          · exact Or.inr ⟨m', List.mem_cons_of_mem _ hm', h1⟩

theorem alookup_insertAll (a acc : Manifest) (hn : (akeys a).Nodup) (p : Str) :
    alookup (insertAll a acc) p = match alookup a p with
      | some e => some e
      | none => alookup acc p := by
  induction a generalizing acc with
  | nil => rfl
  | cons pe rest ih =>
    obtain ⟨k, e⟩ := pe
    simp only [akeys, List.map_cons, List.nodup_cons] at hn
    have hnone : alookup rest k = none := (alookup_eq_none_iff rest k).mpr hn.1
    simp only [insertAll]
    rw [ih _ hn.2, alookup_cons]
    by_cases hk : k = p
    · subst hk; rw [hnone, if_pos rfl, alookup_ainsert_self]
    · rw [if_neg hk, alookup_ainsert_ne _ _ _ _ (fun e => hk e.symm)]

theorem nodup_insertAll (a acc : Manifest) (h : (akeys acc).Nodup) : (akeys (insertAll a acc)).Nodup := by
  induction a generalizing acc with
  | nil => exact h
  | cons pe rest ih => obtain ⟨k, e⟩ := pe; exact ih _ (nodup_akeys_ainsert _ _ _ h)

theorem mem_akeys_insertAll (a acc : Manifest) (q : Str) (h : q ∈ akeys (insertAll a acc)) :
    q ∈ akeys a ∨ q ∈ akeys acc := by
  induction a generalizing acc with
  | nil => exact Or.inr h
  | cons pe rest ih =>
    obtain ⟨k, e⟩ := pe
    rcases ih _ h with h1 | h1
    · left; simp [akeys] at h1 ⊢; exact Or.inr h1
    · by_cases hk : q = k
      · left; simp [akeys, hk]
      · right
        cases hl : alookup acc q with
        | none =>
          have h2 : alookup (ainsert acc k e) q = none := by rw [alookup_ainsert_ne _ _ _ _ hk]; exact hl
          exact absurd h1 ((alookup_eq_none_iff _ _).mp h2)
        | some e' => exact mem_akeys_of_alookup hl

/-! ## consolidation as a whole -/

/-- no rank holds a replicated entry at `p` -/
def NoReplicatedAt (ms : List Manifest) (p : Str) : Prop :=
  ∀ m ∈ ms, ∀ e, alookup m p = some e → isReplicated e = false

structure Consolidated (ms cs : List Manifest) : Prop where
  length_eq : cs.length = ms.length
  nodup : ∀ c ∈ cs, (akeys c).Nodup
  paths : ∀ c ∈ cs, ∀ q ∈ akeys c, ∃ m ∈ ms, q ∈ akeys m
  /-- rank 0 ends up with the merged entry of every replicated chunked tensor -/
  chunked : ∀ p, ms.any (fun m => hasRepChunkedAt m p) = true →
    ∃ c0, cs[0]? = some c0 ∧ alookup c0 p = some (mergedChunked ms p)
  /-- rank 0 ends up with every other replicated entry, whoever held it -/
  replicated : ∀ (q : Nat) (m : Manifest) (p : Str) (e : Entry), ms[q]? = some m → alookup m p = some e →
    isReplicated e = true → ms.any (fun m => hasRepChunkedAt m p) = false →
    ∃ c0, cs[0]? = some c0 ∧ alookup c0 p = some e
  /-- entries at paths where nobody holds a replicated entry stay where they are -/
  private_kept : ∀ (r : Nat) (m : Manifest) (p : Str) (e : Entry), ms[r]? = some m → alookup m p = some e →
    NoReplicatedAt ms p → ∃ c, cs[r]? = some c ∧ alookup c p = some e

theorem hasRepChunked_replicated (m : Manifest) (p : Str) (h : hasRepChunkedAt m p = true) :
    ∃ e, alookup m p = some e ∧ isReplicated e = true := by
  unfold hasRepChunkedAt at h
  cases hl : alookup m p with
  | none => rw [hl] at h; simp at h
  | some e =>
    rw [hl] at h
    cases e with
    | chunked r md cs => cases r <;> simp [isReplicated] at h ⊢
    | _ => simp at h

theorem consolidate_spec (ms cs : List Manifest) (hn : ∀ m ∈ ms, (akeys m).Nodup)
    (h : consolidate ms = .ok cs) : Consolidated ms cs := by
  unfold consolidate at h
  cases hc : collectAll (consolidateChunked ms) [] with
  | error e => rw [hc] at h; simp at h
  | ok kr =>
    obtain ⟨kept, repl⟩ := kr
    rw [hc] at h; simp only at h
    have A := collectAll_spec _ _ _ _ hc
    obtain ⟨hXlen, hX⟩ := consolidateChunked_spec ms hn
    have hrepl_nd : (akeys repl).Nodup := A.nodup (by simp [akeys])
    have hklen : kept.length = ms.length := by rw [A.kept_eq]; simp [hXlen]
    -- the kept part of rank r
    have hkept : ∀ (r : Nat) (m : Manifest), ms[r]? = some m → ∃ x, (consolidateChunked ms)[r]? = some x ∧
        kept[r]? = some (x.filter (fun pe => !isReplicated pe.2)) ∧ (akeys x).Nodup ∧
        (∀ p, alookup x p = if ms.any (fun m => hasRepChunkedAt m p) then some (mergedChunked ms p) else alookup m p) ∧
        (∀ q, q ∈ akeys x → ∃ m' ∈ ms, q ∈ akeys m') := by
      intro r m hr
      obtain ⟨x, hx, hxn, hxl, hxp⟩ := hX r m hr
      exact ⟨x, hx, by rw [A.kept_eq]; simp [hx], hxn, hxl, hxp⟩
    -- every replicated entry of the merged manifests is in `repl`
    have hrepl_got : ∀ (r : Nat) (m : Manifest) (x : Manifest), ms[r]? = some m → (consolidateChunked ms)[r]? = some x →
        ∀ p e, alookup x p = some e → isReplicated e = true → alookup repl p = some e := by
      intro r m x _ hx p e hp hre
      exact A.got x (List.mem_of_getElem? hx) p e (mem_of_alookup hp) hre
    -- and nothing else is
    have hrepl_src : ∀ p e, alookup repl p = some e → ∃ (r : Nat) (m x : Manifest), ms[r]? = some m ∧
        (consolidateChunked ms)[r]? = some x ∧ alookup x p = some e ∧ isReplicated e = true := by
      intro p e hp
      rcases A.src p e hp with h1 | ⟨x, hxm, hpe, hre⟩
      · simp at h1
      · obtain ⟨r, hrlt, hrx⟩ := List.mem_iff_getElem.mp hxm
        have hrlt' : r < ms.length := by omega
        have hmr : ms[r]? = some ms[r] := List.getElem?_eq_getElem hrlt'
        obtain ⟨x', hx', _, hxn, _, _⟩ := hkept r ms[r] hmr
        have : x' = x := by
          rw [List.getElem?_eq_getElem hrlt] at hx'; injection hx' with hx'; rw [← hx', hrx]
        subst this
        exact ⟨r, ms[r], x', hmr, hx', alookup_of_mem_nodup hpe hxn, hre⟩
    cases kept with
    | nil =>
      simp at hklen
      injection h with h; subst h
      have hms : ms = [] := List.length_eq_zero_iff.mp hklen.symm
      subst hms
      exact ⟨rfl, by simp, by simp, by simp, by simp, by simp⟩
    | cons k0 krest =>
      simp only at h; injection h with h; subst h
      have hcs : ∀ r, (insertAll repl k0 :: krest)[r]? =
          if r = 0 then some (insertAll repl k0) else (k0 :: krest)[r]? := by
        intro r; cases r <;> simp
      have look0 : ∀ p, alookup (insertAll repl k0) p = match alookup repl p with
          | some e => some e
          | none => alookup k0 p := fun p => alookup_insertAll repl k0 hrepl_nd p
      have hms0 : ∃ m0, ms[0]? = some m0 := ⟨ms[0]'(by simp at hklen; omega), List.getElem?_eq_getElem _⟩
      obtain ⟨m0, hm0⟩ := hms0
      obtain ⟨x0, hx0, hk0, hx0n, hx0l, hx0p⟩ := hkept 0 m0 hm0
      have hk0' : k0 = x0.filter (fun pe => !isReplicated pe.2) := by simpa using hk0
      refine ⟨by simpa using hklen, ?_, ?_, ?_, ?_, ?_⟩
      · intro c hc
        rcases List.mem_cons.mp hc with rfl | hc
        · exact nodup_insertAll _ _ (by rw [hk0']; exact nodup_akeys_filter _ _ hx0n)
        · obtain ⟨r, hrlt, hrx⟩ := List.mem_iff_getElem.mp hc
          have hmr : ms[r + 1]? = some (ms[r + 1]'(by simp at hklen; omega)) := List.getElem?_eq_getElem _
          obtain ⟨x, _, hk, hxn, _, _⟩ := hkept (r + 1) _ hmr
          simp [List.getElem?_eq_getElem hrlt] at hk
          rw [← hrx, hk]; exact nodup_akeys_filter _ _ hxn
      · intro c hc q hq
        rcases List.mem_cons.mp hc with rfl | hc
        · rcases mem_akeys_insertAll _ _ q hq with h1 | h1
          · obtain ⟨e, he⟩ := Option.isSome_iff_exists.mp ((alookup_isSome_iff repl q).mpr h1)
            obtain ⟨r, m, x, hmr, hx, hxe, _⟩ := hrepl_src q e he
            obtain ⟨x', hx', _, _, _, hxp⟩ := hkept r m hmr
            rw [hx] at hx'; injection hx' with hx'; subst hx'
            exact hxp q (mem_akeys_of_alookup hxe)
          · rw [hk0'] at h1
            have : q ∈ akeys x0 := by
              unfold akeys at h1 ⊢
              exact (List.filter_sublist.map _).subset h1
            exact hx0p q this
        · obtain ⟨r, hrlt, hrx⟩ := List.mem_iff_getElem.mp hc
          have hmr : ms[r + 1]? = some (ms[r + 1]'(by simp at hklen; omega)) := List.getElem?_eq_getElem _
          obtain ⟨x, _, hk, _, _, hxp⟩ := hkept (r + 1) _ hmr
          simp [List.getElem?_eq_getElem hrlt] at hk
          rw [← hrx, hk] at hq
          have : q ∈ akeys x := by
            unfold akeys at hq ⊢
            exact (List.filter_sublist.map _).subset hq
          exact hxp q this
      · intro p hany
        refine ⟨insertAll repl k0, by simp, ?_⟩
        have : alookup x0 p = some (mergedChunked ms p) := by rw [hx0l p, if_pos hany]
        rw [look0 p, hrepl_got 0 m0 x0 hm0 hx0 p _ this rfl]
      · intro q m p e hmq hp hre hany
        refine ⟨insertAll repl k0, by simp, ?_⟩
        obtain ⟨x, hx, _, _, hxl, _⟩ := hkept q m hmq
        have : alookup x p = some e := by rw [hxl p, hany]; simpa using hp
        rw [look0 p, hrepl_got q m x hmq hx p e this hre]
      · intro r m p e hmr hp hno
        have hany : ms.any (fun m => hasRepChunkedAt m p) = false := by
          cases hb : ms.any (fun m => hasRepChunkedAt m p) with
          | false => rfl
          | true =>
            obtain ⟨m', hm', hh⟩ := List.any_eq_true.mp hb
            obtain ⟨e', he', hre'⟩ := hasRepChunked_replicated m' p hh
            rw [hno m' hm' e' he'] at hre'; simp at hre'
        have hnr : isReplicated e = false := hno m (List.mem_of_getElem? hmr) e hp
        obtain ⟨x, hx, hk, _, hxl, _⟩ := hkept r m hmr
        have hxp : alookup x p = some e := by rw [hxl p, hany]; simpa using hp
        have hkp : alookup (x.filter (fun pe => !isReplicated pe.2)) p = some e :=
          alookup_filter_of_pos x _ p e hxp (by simp [hnr])
        have hreplnone : alookup repl p = none := by
          cases hl : alookup repl p with
          | none => rfl
          | some e' =>
            obtain ⟨r', m', x', hmr', hx', hxe', hre'⟩ := hrepl_src p e' hl
            obtain ⟨x'', hx'', _, _, hxl', _⟩ := hkept r' m' hmr'
            rw [hx'] at hx''; injection hx'' with hx''; subst hx''
            rw [hxl' p, hany] at hxe'
            have := hno m' (List.mem_of_getElem? hmr') e' (by simpa using hxe')
            rw [this] at hre'; simp at hre'
        cases r with
        | zero =>
          refine ⟨insertAll repl k0, by simp, ?_⟩
          rw [look0 p, hreplnone]
          simp only
          rw [hm0] at hmr; injection hmr with hmr; subst hmr
          rw [hx0] at hx; injection hx with hx; subst hx
          rw [hk0']; exact hkp
        | succ r =>
          refine ⟨x.filter (fun pe => !isReplicated pe.2), by simpa using hk, hkp⟩

/-! ## `str(rank)` and `int(token)` -/

theorem natStrAux_digits (fuel n : Nat) (acc : Str) :
    ∃ d, natStrAux fuel n acc = d ++ acc ∧ (∀ c ∈ d, 48 ≤ c ∧ c ≤ 57) ∧ (0 < fuel → d ≠ []) := by
  induction fuel generalizing n acc with
  | zero => exact ⟨[], rfl, by simp, by omega⟩
  | succ fuel ih =>
    simp only [natStrAux]
    split
    · rename_i hlt
      exact ⟨[48 + n], rfl, by intro c hc; simp at hc; omega, by simp⟩
    · obtain ⟨d, hd, hdig, _⟩ := ih (n / 10) ((48 + n % 10) :: acc)
      refine ⟨d ++ [48 + n % 10], by rw [hd]; simp, ?_, by simp⟩
      intro c hc
      rcases List.mem_append.mp hc with h | h
      · exact hdig c h
      · simp at h; omega

theorem natStrAux_parse (fuel n : Nat) (acc : Str) (h : n < fuel) :
    (natStrAux fuel n acc).foldl (fun a d => 10 * a + (d - 48)) 0 =
      acc.foldl (fun a d => 10 * a + (d - 48)) n := by
  induction fuel generalizing n acc with
  | zero => omega
  | succ fuel ih =>
    simp only [natStrAux]
    split
    · simp
    · rename_i hge
      rw [ih (n / 10) _ (by omega)]
      simp only [List.foldl_cons]
      congr 1
      omega

theorem natStr_digits (n : Nat) : natStr n ≠ [] ∧ ∀ c ∈ natStr n, 48 ≤ c ∧ c ≤ 57 := by
  obtain ⟨d, hd, hdig, hne⟩ := natStrAux_digits (n + 1) n []
  unfold natStr
  rw [hd]
  simp only [List.append_nil]
  exact ⟨hne (by omega), hdig⟩

/-- `int(str(rank)) == rank` -/
theorem parseRank_natStr (n : Nat) : parseRank (natStr n) = .ok n := by
  obtain ⟨hne, hdig⟩ := natStr_digits n
  unfold parseRank
  have hall : (natStr n).all (fun c => decide (48 ≤ c ∧ c ≤ 57)) = true := by
    rw [List.all_eq_true]; intro c hc; simpa using hdig c hc
  rw [if_pos ⟨hne, hall⟩]
  unfold natStr
  rw [natStrAux_parse (n + 1) n [] (by omega)]
  rfl

theorem natStr_no_slash (n : Nat) : ∀ x ∈ natStr n, x ≠ 47 := by
  intro x hx e
  have := (natStr_digits n).2 x hx
  omega

/-- a logical path that does not start with a slash (the app-state key is not empty) -/
def NoLeadSlash (m : Manifest) : Prop := ∀ p ∈ akeys m, ∀ t, p ≠ 47 :: t

theorem pathJoin_eq (a b : Str) (h : ∀ t, b ≠ 47 :: t) : pathJoin a b = a ++ 47 :: b := by
  unfold pathJoin
  split
  · rename_i t; exact absurd rfl (h t)
  · rfl

theorem splitFirst_join (r : Nat) (p : Str) : splitFirst (natStr r ++ 47 :: p) = (natStr r, p) := by
  unfold splitFirst
  rw [takeWhile_append_stop _ _ (natStr_no_slash r), dropWhile_append_stop _ _ (natStr_no_slash r)]
  rfl

theorem join_inj (r r' : Nat) (p p' : Str) (h : natStr r ++ 47 :: p = natStr r' ++ 47 :: p') : r = r' ∧ p = p' := by
  have h1 := splitFirst_join r p
  rw [h, splitFirst_join r' p'] at h1
  injection h1 with h1 h2
  have := parseRank_natStr r
  rw [← h1, parseRank_natStr r'] at this
  injection this with this
  exact ⟨this.symm, h2.symm⟩

/-! ## the gathered manifest splits back into the rank manifests -/

/-- rank `r`'s entries under their global keys -/
def prefixed (r : Nat) (m : Manifest) : Manifest := m.map (fun pe => (natStr r ++ 47 :: pe.1, pe.2))

/-- the global manifest as a plain list -/
def gatherList : Nat → List Manifest → Manifest
  | _, [] => []
  | r, m :: ms => prefixed r m ++ gatherList (r + 1) ms

theorem ainsert_of_not_mem {β : Type} (m : AList β) (p : Str) (e : β) (h : p ∉ akeys m) :
    ainsert m p e = m ++ [(p, e)] := by
  induction m with
  | nil => rfl
  | cons kv m ih =>
    obtain ⟨k, v⟩ := kv
    have hk : k ≠ p := by intro e'; apply h; simp [akeys, e']
    have : p ∉ akeys m := by intro hm; apply h; simp [akeys] at hm ⊢; exact Or.inr hm
    simp [ainsert, hk, ih this]

theorem insertPrefixed_eq (r : Nat) (m g : Manifest) (hn : (akeys m).Nodup) (hs : NoLeadSlash m)
    (hfresh : ∀ p ∈ akeys m, natStr r ++ 47 :: p ∉ akeys g) :
    insertPrefixed r m g = g ++ prefixed r m := by
  induction m generalizing g with
  | nil => simp [insertPrefixed, prefixed]
  | cons pe rest ih =>
    obtain ⟨k, e⟩ := pe
    simp only [akeys, List.map_cons, List.nodup_cons] at hn
    have hk : pathJoin (natStr r) k = natStr r ++ 47 :: k := pathJoin_eq _ _ (hs k (by simp [akeys]))
    simp only [insertPrefixed, hk]
    rw [ainsert_of_not_mem g _ e (hfresh k (by simp [akeys]))]
    rw [ih _ hn.2 (fun p hp => hs p (by simp [akeys] at hp ⊢; exact Or.inr hp))]
    · simp [prefixed]
    · intro p hp hmem
      simp only [akeys, List.map_append, List.map_cons, List.map_nil, List.mem_append, List.mem_singleton] at hmem
      rcases hmem with hmem | hmem
      · exact hfresh p (by simp [akeys] at hp ⊢; exact Or.inr hp) hmem
      · have := (join_inj r r p k hmem).2
        subst this
        exact hn.1 hp

/-- every key of the list is a key of a rank below `r` -/
def KeysBelow (r : Nat) (g : Manifest) : Prop := ∀ k ∈ akeys g, ∃ r' p, r' < r ∧ k = natStr r' ++ 47 :: p

theorem gatherFrom_eq (r : Nat) (ms : List Manifest) (g : Manifest)
    (hn : ∀ m ∈ ms, (akeys m).Nodup) (hs : ∀ m ∈ ms, NoLeadSlash m) (hb : KeysBelow r g) :
    gatherFrom r ms g = g ++ gatherList r ms := by
  induction ms generalizing r g with
  | nil => simp [gatherFrom, gatherList]
  | cons m ms ih =>
    simp only [gatherFrom, gatherList]
    have hfresh : ∀ p ∈ akeys m, natStr r ++ 47 :: p ∉ akeys g := by
      intro p _ hmem
      obtain ⟨r', p', hlt, he⟩ := hb _ hmem
      have := (join_inj r r' p p' he).1
      omega
    rw [insertPrefixed_eq r m g (hn m (by simp)) (hs m (by simp)) hfresh]
    rw [ih (r + 1) _ (fun m' hm' => hn m' (List.mem_cons_of_mem _ hm')) (fun m' hm' => hs m' (List.mem_cons_of_mem _ hm'))]
    · simp
    · intro k hk
      simp only [akeys, List.map_append, List.mem_append] at hk
      rcases hk with hk | hk
      · obtain ⟨r', p', hlt, he⟩ := hb k hk
        exact ⟨r', p', by omega, he⟩
      · simp only [prefixed, List.map_map, List.mem_map, Function.comp] at hk
        obtain ⟨pe, _, rfl⟩ := hk
        exact ⟨r, pe.1, by omega, rfl⟩

theorem gather_eq (ms : List Manifest) (hn : ∀ m ∈ ms, (akeys m).Nodup) (hs : ∀ m ∈ ms, NoLeadSlash m) :
    gather ms = gatherList 0 ms := by
  unfold gather
  rw [gatherFrom_eq 0 ms [] hn hs (by intro k hk; simp [akeys] at hk)]
  simp

theorem modifyAt_comp {α : Type} (l : List α) (i : Nat) (f g : α → α) :
    modifyAt (modifyAt l i f) i g = modifyAt l i (fun x => g (f x)) := by
  induction l generalizing i with
  | nil => rfl
  | cons a l ih => cases i <;> simp [modifyAt, ih]

theorem splitInto_prefixed (r : Nat) (m rest : Manifest) (acc : List Manifest) (hr : r < acc.length) :
    splitInto (prefixed r m ++ rest) acc = splitInto rest (modifyAt acc r (fun d => insertAll m d)) := by
  induction m generalizing acc with
  | nil =>
    have hid : ∀ (acc : List Manifest) (r : Nat), modifyAt acc r (fun d => d) = acc := by
      intro acc
      induction acc with
      | nil => intro r; rfl
      | cons a acc ih => intro r; cases r <;> simp [modifyAt, ih]
    have : modifyAt acc r (fun d => insertAll [] d) = acc := hid acc r
    simp [prefixed, this]
  | cons pe m ih =>
    obtain ⟨k, e⟩ := pe
    simp only [prefixed, List.map_cons, List.cons_append, splitInto, splitFirst_join, parseRank_natStr, hr, ite_true]
    have := ih (modifyAt acc r (fun d => ainsert d k e)) (by simpa [length_modifyAt] using hr)
    simp only [prefixed] at this
    rw [this, modifyAt_comp]
    rfl

theorem insertAll_nil_of_nodup (m : Manifest) (hn : (akeys m).Nodup) : insertAll m [] = m := by
  have key : ∀ (m acc : Manifest), (akeys (acc ++ m)).Nodup → insertAll m acc = acc ++ m := by
    intro m
    induction m with
    | nil => intro acc _; simp [insertAll]
    | cons pe rest ih =>
      intro acc hnd
      obtain ⟨k, e⟩ := pe
      have hk : k ∉ akeys acc := by
        simp only [akeys, List.map_append, List.map_cons] at hnd ⊢
        have := (List.nodup_append.mp hnd).2.2
        intro hmem
        exact this k hmem k (by simp) rfl
      simp only [insertAll]
      rw [ainsert_of_not_mem acc k e hk, ih (acc ++ [(k, e)]) (by simpa using hnd)]
      simp
  simpa using key m [] (by simpa using hn)

theorem modifyAt_append_length {α : Type} (done : List α) (x : α) (t : List α) (f : α → α) :
    modifyAt (done ++ x :: t) done.length f = done ++ f x :: t := by
  induction done with
  | nil => rfl
  | cons a done ih => simp [modifyAt, ih]

theorem splitInto_gatherList (ms : List Manifest) (r : Nat) (done : List Manifest) (hd : done.length = r)
    (hn : ∀ m ∈ ms, (akeys m).Nodup) :
    splitInto (gatherList r ms) (done ++ List.replicate ms.length []) = .ok (done ++ ms) := by
  induction ms generalizing r done with
  | nil => simp [gatherList, splitInto]
  | cons m ms ih =>
    simp only [gatherList, List.length_cons, List.replicate_succ]
    rw [splitInto_prefixed r m _ _ (by simp [hd])]
    subst hd
    rw [modifyAt_append_length, insertAll_nil_of_nodup m (hn m (by simp))]
    have := ih (done.length + 1) (done ++ [m]) (by simp) (fun m' hm' => hn m' (List.mem_cons_of_mem _ hm'))
    simpa using this

/-- `_get_rank_to_manifest` undoes `_gather_manifest`: splitting the gathered global manifest gives back the
per-rank manifests -/
theorem rankToManifest_gather (ms : List Manifest) (hn : ∀ m ∈ ms, (akeys m).Nodup) (hs : ∀ m ∈ ms, NoLeadSlash m) :
    rankToManifest ms.length (gather ms) = .ok ms := by
  unfold rankToManifest
  rw [gather_eq ms hn hs]
  simpa using splitInto_gatherList ms 0 [] rfl hn

/-! ## entries after partitioning -/

/-- the chunks listed by the chunked entry at `p` (whatever its flag) -/
def chunksOf (m : Manifest) (p : Str) : List Shard :=
  match alookup m p with
  | some (.chunked _ _ cs) => cs
  | _ => []

/-- `[cs[i] for i in idxs]` -/
def pick (cs : List Shard) (idxs : List Nat) : List Shard := idxs.filterMap (fun i => cs[i]?)

theorem pick_append (cs : List Shard) (a b : List Nat) : pick cs (a ++ b) = pick cs a ++ pick cs b := by
  simp [pick, List.filterMap_append]

theorem pick_perm (cs : List Shard) (a b : List Nat) (h : a.Perm b) : (pick cs a).Perm (pick cs b) :=
  h.filterMap _

theorem pick_range_aux (pre cs : List Shard) :
    pick (pre ++ cs) ((List.range cs.length).map (· + pre.length)) = cs := by
  induction cs generalizing pre with
  | nil => simp [pick]
  | cons a t ih =>
    rw [List.length_cons, List.range_succ_eq_map, List.map_cons, List.map_map]
    have h0 : (pre ++ a :: t)[0 + pre.length]? = some a := by simp
    have := ih (pre ++ [a])
    simp only [List.append_assoc, List.singleton_append, List.length_append, List.length_singleton] at this
    unfold pick at this ⊢
    rw [List.filterMap_cons, h0]
    simp only
    congr 1
    have e : List.map ((fun x => x + pre.length) ∘ fun x => x + 1) (List.range t.length) =
        List.map (fun x => x + (pre.length + 1)) (List.range t.length) := by
      apply List.map_congr_left
      intro i _
      simp only [Function.comp]
      omega
    rw [e]; exact this

theorem pick_range (cs : List Shard) : pick cs (List.range cs.length) = cs := by
  simpa using pick_range_aux [] cs

/-- the accumulator of `newEntriesAux` is consistent with the rank's entries at `p` -/
def GoodAt (E acc : Manifest) (p : Str) : Prop :=
  match alookup E p with
  | some (.chunked r md _) => alookup acc p = none ∨ ∃ c, alookup acc p = some (.chunked r md c)
  | some e => alookup acc p = none ∨ alookup acc p = some e
  | none => True

/-- request indices of `p` in a list of `(path, index)` pairs -/
def idxsAt (L : List (Str × Nat)) (p : Str) : List Nat := (L.filter (fun x => x.1 = p)).map (·.2)

theorem newEntriesAux_spec (E : Manifest) (L : List (Str × Nat)) (acc N : Manifest) (p : Str)
    (h : newEntriesAux E L acc = .ok N) (hg : GoodAt E acc p) :
    GoodAt E N p ∧
    (∀ r md cs, alookup E p = some (.chunked r md cs) → chunksOf N p = chunksOf acc p ++ pick cs (idxsAt L p)) ∧
    (∀ e, alookup E p = some e → isChunked e = false →
        (alookup acc p = some e ∨ L.any (fun x => x.1 = p) = true) → alookup N p = some e) := by
  induction L generalizing acc with
  | nil =>
    simp only [newEntriesAux] at h; injection h with h; subst h
    refine ⟨hg, fun r md cs _ => by simp [idxsAt, pick], fun e _ _ hh => ?_⟩
    rcases hh with hh | hh
    · exact hh
    · simp at hh
  | cons qi rest ih =>
    obtain ⟨q, i⟩ := qi
    simp only [newEntriesAux] at h
    cases hEq : alookup E q with
    | none => rw [hEq] at h; simp at h
    | some eq =>
      rw [hEq] at h
      by_cases hqp : q = p
      · subst hqp
        cases eq with
        | chunked r md cs =>
          simp only at h
          cases hci : cs[i]? with
          | none => rw [hci] at h; simp at h
          | some c =>
            rw [hci] at h; simp only at h
            have hg' : alookup acc q = none ∨ ∃ c0, alookup acc q = some (.chunked r md c0) := by
              simpa [GoodAt, hEq] using hg
            -- the accumulator after this step
            have step : ∃ acc1, newEntriesAux E rest acc1 = .ok N ∧ GoodAt E acc1 q ∧
                chunksOf acc1 q = chunksOf acc q ++ [c] := by
              rcases hg' with hn | ⟨c0, hc0⟩
              · rw [hn] at h
                exact ⟨_, h, by simp [GoodAt, hEq, alookup_ainsert_self],
                  by simp [chunksOf, alookup_ainsert_self, hn]⟩
              · rw [hc0] at h
                exact ⟨_, h, by simp [GoodAt, hEq, alookup_ainsert_self],
                  by simp [chunksOf, alookup_ainsert_self, hc0]⟩
            obtain ⟨acc1, h1, hg1, hc1⟩ := step
            obtain ⟨i1, i2, i3⟩ := ih acc1 h1 hg1
            refine ⟨i1, fun r' md' cs' hE' => ?_, fun e hE' hnc _ => ?_⟩
            · rw [hEq] at hE'; injection hE' with hE'; injection hE' with hr hmd hcs
              subst hr; subst hmd; subst hcs
              rw [i2 r md cs hEq, hc1]
              simp [idxsAt, pick, hci]
            · rw [hEq] at hE'; injection hE' with hE'; subst hE'; simp [isChunked] at hnc
        | list =>
          simp only at h
          obtain ⟨i1, i2, i3⟩ := ih _ h (by simp [GoodAt, hEq, alookup_ainsert_self])
          refine ⟨i1, fun r md cs hE' => by rw [hEq] at hE'; simp at hE', fun e hE' hnc _ => ?_⟩
          rw [hEq] at hE'; injection hE' with hE'; subst hE'
          exact i3 _ hEq hnc (Or.inl (alookup_ainsert_self _ _ _))
        | dict ks =>
          simp only at h
          obtain ⟨i1, i2, i3⟩ := ih _ h (by simp [GoodAt, hEq, alookup_ainsert_self])
          refine ⟨i1, fun r md cs hE' => by rw [hEq] at hE'; simp at hE', fun e hE' hnc _ => ?_⟩
          rw [hEq] at hE'; injection hE' with hE'; subst hE'
          exact i3 _ hEq hnc (Or.inl (alookup_ainsert_self _ _ _))
        | odict ks =>
          simp only at h
          obtain ⟨i1, i2, i3⟩ := ih _ h (by simp [GoodAt, hEq, alookup_ainsert_self])
          refine ⟨i1, fun r md cs hE' => by rw [hEq] at hE'; simp at hE', fun e hE' hnc _ => ?_⟩
          rw [hEq] at hE'; injection hE' with hE'; subst hE'
          exact i3 _ hEq hnc (Or.inl (alookup_ainsert_self _ _ _))
        | leaf r pl =>
          simp only at h
          obtain ⟨i1, i2, i3⟩ := ih _ h (by simp [GoodAt, hEq, alookup_ainsert_self])
          refine ⟨i1, fun r md cs hE' => by rw [hEq] at hE'; simp at hE', fun e hE' hnc _ => ?_⟩
          rw [hEq] at hE'; injection hE' with hE'; subst hE'
          exact i3 _ hEq hnc (Or.inl (alookup_ainsert_self _ _ _))
        | sharded ss =>
          simp only at h
          obtain ⟨i1, i2, i3⟩ := ih _ h (by simp [GoodAt, hEq, alookup_ainsert_self])
          refine ⟨i1, fun r md cs hE' => by rw [hEq] at hE'; simp at hE', fun e hE' hnc _ => ?_⟩
          rw [hEq] at hE'; injection hE' with hE'; subst hE'
          exact i3 _ hEq hnc (Or.inl (alookup_ainsert_self _ _ _))
      · -- a step on another path leaves `p` alone
        have hpq : p ≠ q := fun e => hqp e.symm
        have other : ∃ acc1, newEntriesAux E rest acc1 = .ok N ∧ alookup acc1 p = alookup acc p := by
          cases eq with
          | chunked r md cs =>
            simp only at h
            cases hci : cs[i]? with
            | none => rw [hci] at h; simp at h
            | some c =>
              rw [hci] at h; simp only at h
              split at h
              · exact ⟨_, h, alookup_ainsert_ne _ _ _ _ hpq⟩
              · exact ⟨_, h, alookup_ainsert_ne _ _ _ _ hpq⟩
          | list => exact ⟨_, h, alookup_ainsert_ne _ _ _ _ hpq⟩
          | dict ks => exact ⟨_, h, alookup_ainsert_ne _ _ _ _ hpq⟩
          | odict ks => exact ⟨_, h, alookup_ainsert_ne _ _ _ _ hpq⟩
          | leaf r pl => exact ⟨_, h, alookup_ainsert_ne _ _ _ _ hpq⟩
          | sharded ss => exact ⟨_, h, alookup_ainsert_ne _ _ _ _ hpq⟩
        obtain ⟨acc1, h1, hsame⟩ := other
        have hg1 : GoodAt E acc1 p := by unfold GoodAt at hg ⊢; rw [hsame]; exact hg
        obtain ⟨i1, i2, i3⟩ := ih acc1 h1 hg1
        have hc : chunksOf acc1 p = chunksOf acc p := by simp [chunksOf, hsame]
        have hi : idxsAt ((q, i) :: rest) p = idxsAt rest p := by simp [idxsAt, List.filter, hqp]
        refine ⟨i1, fun r md cs hE' => by rw [i2 r md cs hE', hc, hi], fun e hE' hnc hh => ?_⟩
        apply i3 e hE' hnc
        rcases hh with hh | hh
        · exact Or.inl (by rw [hsame]; exact hh)
        · simp [hqp] at hh; exact Or.inr (by simpa using hh)

/-- request indices of path `p` among write loads -/
def loadIdxs (A : List WriteLoad) (p : Str) : List Nat := (A.filter (fun w => w.path = p)).map (·.idx)

theorem idxsAt_map (A : List WriteLoad) (p : Str) :
    idxsAt (A.map (fun wl => (wl.path, wl.idx))) p = loadIdxs A p := by
  unfold idxsAt loadIdxs
  induction A with
  | nil => rfl
  | cons a A ih =>
    by_cases h : a.path = p <;> simp [List.filter, h] at ih ⊢ <;> exact ih

theorem idxsAt_perm (L L' : List (Str × Nat)) (p : Str) (h : L.Perm L') : (idxsAt L p).Perm (idxsAt L' p) :=
  (h.filter _).map _

/-- lines 194-213 at a chunked path: the rank's new entry lists exactly the chunks it was assigned -/
theorem newEntries_chunks (E : Manifest) (A : List WriteLoad) (N : Manifest) (p : Str) (r : Bool) (md : Nat)
    (cs : List Shard) (hE : alookup E p = some (.chunked r md cs)) (h : newEntries E A = .ok N) :
    (alookup N p = none ∨ ∃ c, alookup N p = some (.chunked r md c)) ∧
    (chunksOf N p).Perm (pick cs (loadIdxs A p)) := by
  unfold newEntries at h
  obtain ⟨g, hc, _⟩ := newEntriesAux_spec E _ [] N p h (by simp [GoodAt, hE])
  refine ⟨by simpa [GoodAt, hE] using g, ?_⟩
  rw [hc r md cs hE]
  simp only [chunksOf, alookup_nil, List.nil_append]
  rw [← idxsAt_map]
  exact pick_perm cs _ _ (idxsAt_perm _ _ p (isort_perm _ _))

/-- lines 194-213 at any other replicated path: the rank that was assigned the object keeps its entry -/
theorem newEntries_whole (E : Manifest) (A : List WriteLoad) (N : Manifest) (p : Str) (e : Entry)
    (hE : alookup E p = some e) (hnc : isChunked e = false) (h : newEntries E A = .ok N) :
    (alookup N p = none ∨ alookup N p = some e) ∧ (A.any (fun w => w.path = p) = true → alookup N p = some e) := by
  unfold newEntries at h
  have hg0 : GoodAt E [] p := by
    unfold GoodAt; rw [hE]; cases e <;> simp [isChunked] at hnc ⊢
  obtain ⟨g, _, hw⟩ := newEntriesAux_spec E _ [] N p h hg0
  refine ⟨?_, fun hany => hw e hE hnc (Or.inr ?_)⟩
  · unfold GoodAt at g; rw [hE] at g; cases e <;> simp [isChunked] at hnc g ⊢ <;> exact g
  · obtain ⟨w, hw1, hw2⟩ := List.any_eq_true.mp hany
    have hmem : (w.path, w.idx) ∈ isort pairLe (A.map (fun wl => (wl.path, wl.idx))) :=
      (isort_perm pairLe _).mem_iff.mpr (List.mem_map.mpr ⟨w, hw1, rfl⟩)
    exact List.any_eq_true.mpr ⟨_, hmem, by simpa using hw2⟩

theorem loadIdxs_flatten (res : List (List WriteLoad)) (p : Str) :
    loadIdxs res.flatten p = res.flatMap (fun A => loadIdxs A p) := by
  induction res with
  | nil => rfl
  | cons A res ih => simp [loadIdxs, List.filter_append] at ih ⊢; rw [ih]

/-- `news[i]` is what rank `i` rebuilds from its assignment `res[i]` (lines 194-213), for every rank -/
inductive AllNew (E : Manifest) : List (List WriteLoad) → List Manifest → Prop
  | nil : AllNew E [] []
  | cons {A N res news} : newEntries E A = .ok N → AllNew E res news → AllNew E (A :: res) (N :: news)

/-- **the chunks written by all ranks together are the tensor's chunks.** `res` is a partition of the declared
write loads `all` (`C06_exactly_once`), the loads declared for the chunked path `p` are its request indices
`0 … n-1`, and `news` are the entries the ranks rebuild from their assignment: then the chunk lists of all
ranks, concatenated, are a permutation of the tensor's chunk list -/
theorem partition_chunks (E : Manifest) (p : Str) (r : Bool) (md : Nat) (cs : List Shard)
    (hE : alookup E p = some (.chunked r md cs)) (res : List (List WriteLoad)) (all : List WriteLoad)
    (hperm : res.flatten.Perm all) (hidx : (loadIdxs all p).Perm (List.range cs.length))
    (news : List Manifest) (hnews : AllNew E res news) :
    (news.flatMap (fun N => chunksOf N p)).Perm cs := by
  have h1 : (news.flatMap (fun N => chunksOf N p)).Perm (pick cs (res.flatMap (fun A => loadIdxs A p))) := by
    clear hperm
    induction hnews with
    | nil => simp [pick]
    | cons hAN _ ih =>
      simp only [List.flatMap_cons, pick_append]
      exact List.Perm.append (newEntries_chunks E _ _ p r md cs hE hAN).2 ih
  have h2 : (res.flatMap (fun A => loadIdxs A p)).Perm (List.range cs.length) := by
    rw [← loadIdxs_flatten]
    exact (((hperm.filter _).map _ : (loadIdxs res.flatten p).Perm (loadIdxs all p))).trans hidx
  have h3 := pick_perm cs _ _ h2
  rw [pick_range] at h3
  exact h1.trans h3


theorem allNew_length (E : Manifest) (res : List (List WriteLoad)) (news : List Manifest) (h : AllNew E res news) :
    news.length = res.length := by
  induction h with
  | nil => rfl
  | cons _ _ ih => simp [ih]

/-- two lists of the same length whose elements agree position by position under `f` / `g` -/
theorem flatMap_congr_index {α β γ : Type} (l : List α) (l' : List β) (f : α → List γ) (g : β → List γ)
    (hlen : l.length = l'.length)
    (h : ∀ (i : Nat) (a : α) (b : β), l[i]? = some a → l'[i]? = some b → f a = g b) :
    l.flatMap f = l'.flatMap g := by
  induction l generalizing l' with
  | nil => cases l' with
    | nil => rfl
    | cons b l' => simp at hlen
  | cons a l ih =>
    cases l' with
    | nil => simp at hlen
    | cons b l' =>
      simp only [List.flatMap_cons]
      rw [h 0 a b rfl rfl, ih l' (by simpa using hlen) (fun i a' b' ha hb => h (i + 1) a' b' (by simpa using ha) (by simpa using hb))]

theorem firstMeta_eq (ms : List Manifest) (p : Str) (md : Nat)
    (hall : ∀ m ∈ ms, ∀ md' cs', alookup m p = some (.chunked true md' cs') → md' = md)
    (hany : ms.any (fun m => hasRepChunkedAt m p) = true) : firstMeta ms p = md := by
  induction ms with
  | nil => simp at hany
  | cons m ms ih =>
    simp only [firstMeta]
    cases hl : alookup m p with
    | none =>
      simp only
      apply ih (fun m' hm' => hall m' (List.mem_cons_of_mem _ hm'))
      simpa [hasRepChunkedAt, hl] using hany
    | some e =>
      cases e with
      | chunked r md' cs' =>
        cases r with
        | true => simp only; exact hall m (by simp) md' cs' hl
        | false =>
          simp only
          apply ih (fun m' hm' => hall m' (List.mem_cons_of_mem _ hm'))
          simpa [hasRepChunkedAt, hl] using hany
      | _ =>
        simp only
        apply ih (fun m' hm' => hall m' (List.mem_cons_of_mem _ hm'))
        simpa [hasRepChunkedAt, hl] using hany

/-- the loads declared for `p` are found under the key `p` only -/
theorem loadIdxs_allLoads (L : AList (List WriteLoad)) (ks : List Str) (p : Str) (hn : ks.Nodup) (hp : p ∈ ks)
    (hpath : ∀ q, ∀ w ∈ loadsOf L q, w.path = q) :
    loadIdxs (ks.flatMap (loadsOf L)) p = (loadsOf L p).map (·.idx) := by
  have hself : loadIdxs (loadsOf L p) p = (loadsOf L p).map (·.idx) := by
    unfold loadIdxs
    rw [List.filter_eq_self.mpr (fun w hw => by simpa using hpath p w hw)]
  have hother : ∀ q, q ≠ p → loadIdxs (loadsOf L q) p = [] := by
    intro q hq
    unfold loadIdxs
    rw [List.filter_eq_nil_iff.mpr (fun w hw => by
      have := hpath q w hw
      simp [this, hq])]
    rfl
  induction ks with
  | nil => simp at hp
  | cons k ks ih =>
    simp only [List.nodup_cons] at hn
    have happ : loadIdxs ((k :: ks).flatMap (loadsOf L)) p =
        loadIdxs (loadsOf L k) p ++ loadIdxs (ks.flatMap (loadsOf L)) p := by
      simp [loadIdxs, List.filter_append]
    rw [happ]
    by_cases hk : k = p
    · subst hk
      have hrest : loadIdxs (ks.flatMap (loadsOf L)) k = [] := by
        clear ih happ hp
        induction ks with
        | nil => rfl
        | cons q ks ih2 =>
          have hq : q ≠ k := by intro e; apply hn.1; simp [e]
          have : loadIdxs ((q :: ks).flatMap (loadsOf L)) k =
              loadIdxs (loadsOf L q) k ++ loadIdxs (ks.flatMap (loadsOf L)) k := by
            simp [loadIdxs, List.filter_append]
          rw [this, hother q hq, ih2 ⟨fun h => hn.1 (List.mem_cons_of_mem _ h), (List.nodup_cons.mp hn.2).2⟩]
          rfl
      rw [hself, hrest]; simp
    · rw [hother k hk]
      simp only [List.nil_append]
      exact ih hn.2 (by
        rcases List.mem_cons.mp hp with h | h
        · exact absurd h.symm hk
        · exact h)

theorem allNew_get (E : Manifest) (res : List (List WriteLoad)) (news : List Manifest) (h : AllNew E res news)
    (i : Nat) (N : Manifest) (hN : news[i]? = some N) : ∃ A, res[i]? = some A ∧ newEntries E A = .ok N := by
  induction h generalizing i with
  | nil => simp at hN
  | cons hAN _ ih =>
    cases i with
    | zero => simp at hN; subst hN; exact ⟨_, rfl, hAN⟩
    | succ i => exact ih i (by simpa using hN)

theorem hasRepChunked_of_chunksAt (m : Manifest) (p : Str) (h : chunksAt m p ≠ []) : hasRepChunkedAt m p = true := by
  unfold chunksAt at h; unfold hasRepChunkedAt
  split at h <;> simp_all

theorem exists_of_flatMap_ne_nil {α β : Type} (l : List α) (f : α → List β) (h : l.flatMap f ≠ []) :
    ∃ a ∈ l, f a ≠ [] := by
  induction l with
  | nil => simp at h
  | cons a l ih =>
    cases hfa : f a with
    | nil =>
      have : l.flatMap f ≠ [] := by simpa [List.flatMap_cons, hfa] using h
      obtain ⟨b, hb, hfb⟩ := ih this
      exact ⟨b, List.mem_cons_of_mem _ hb, hfb⟩
    | cons x xs => exact ⟨a, by simp, by simp [hfa]⟩

end Ts.Partition
