import TsProofs.CommitProgress
/-! Consequences of the invariants, phrased on traces; store framing across rounds. -/
namespace Ts.Commit
open Ts.Barrier
set_option linter.unusedSimpArgs false
set_option linter.unusedVariables false

theorem amem_trace (s : AState) (e : Ev) : e ∈ s.trace ↔ e ∈ s.hist := by simp [AState.trace]
theorem smem_trace (s : SState) (e : Ev) : e ∈ s.trace ↔ e ∈ s.hist := by simp [SState.trace]

/-! ### async, state level -/

theorem a_commit_all {cfg : Cfg} {s : AState} (h : AInv cfg s) (hm : Ev.mBegin ∈ s.hist)
    (r : Nat) (hr : r < cfg.n) : Ev.ioComplete r ∈ s.hist := h.b.commit_all hm r hr

theorem a_payload_done {cfg : Cfg} {s : AState} (h : AInv cfg s) (hm : Ev.mBegin ∈ s.hist)
    (r w : Nat) (hr : r < cfg.n) (hw : w < cfg.nw r) : Ev.wEnd r w ∈ s.hist :=
  (h.w.wEnd_iff r w).2 (h.io.io_done r (h.b.commit_all hm r hr) w hw)

theorem a_mEnd_mBegin {cfg : Cfg} {s : AState} (h : AInv cfg s) (hm : Ev.mEnd ∈ s.hist) :
    Ev.mBegin ∈ s.hist := by
  have := h.m.mE.1 hm
  exact h.m.mB.2 (by simp [this])

theorem a_waitOk_mEnd {cfg : Cfg} {s : AState} (h : AInv cfg s) (r : Nat)
    (hw : Ev.waitOk r ∈ s.hist) : Ev.mEnd ∈ s.hist :=
  h.m.mE.2 (h.b.fin_ok r (.inr ((h.m.wOk r).1 hw)))

theorem a_ioFail_no_mBegin {cfg : Cfg} {s : AState} (h : AInv cfg s) (r : Nat) (hr : r < cfg.n)
    (hf : Ev.ioFail r ∈ s.hist) : Ev.mBegin ∉ s.hist :=
  fun hm => h.io.io_excl r (h.b.commit_all hm r hr) hf

/-- `ioFail r` can only be produced by a rank of the job. -/
theorem a_ioFail_lt {cfg : Cfg} {s : AState} (h : AInv cfg s) (r : Nat)
    (hf : Ev.ioFail r ∈ s.hist) : ∃ w, w < cfg.nw r ∧ cfg.pfail r w = true := by
  obtain ⟨w, hw, hfl⟩ := h.io.io_failed r hf
  exact ⟨w, hw, h.w.failed_plan r w hfl⟩

theorem a_planned_fault_no_mBegin {cfg : Cfg} {s : AState} (h : AInv cfg s) (r w : Nat)
    (hr : r < cfg.n) (hw : w < cfg.nw r) (hf : cfg.pfail r w = true) : Ev.mBegin ∉ s.hist := by
  intro hm
  have hd := h.io.io_done r (h.b.commit_all hm r hr) w hw
  have := h.w.done_ok r w hd
  simp [hf] at this

theorem a_mFail_no_mEnd {cfg : Cfg} {s : AState} (h : AInv cfg s) (hf : Ev.mFail ∈ s.hist) :
    Ev.mEnd ∉ s.hist := by
  intro hm
  have h1 := h.m.mE.1 hm
  have h2 := h.m.mF.1 hf
  simp [h1] at h2

theorem a_not_terminal {cfg : Cfg} {s : AState} (hnt : s.allTerminal cfg = false) :
    ∃ r, r < cfg.n ∧ ∀ b, s.pc r ≠ .done b := by
  have : ¬ ∀ r, r < cfg.n → (s.pc r).isDone = true := by
    intro hh
    have := (allB_iff cfg.n _).2 hh
    simp [AState.allTerminal, this] at hnt
  simp only [Classical.not_forall] at this
  obtain ⟨r, hr, hne⟩ := this
  refine ⟨r, hr, fun b hb => hne ?_⟩
  simp [hb, PC.isDone]

theorem a_terminal {cfg : Cfg} {s : AState} (ht : s.allTerminal cfg = true) (r : Nat) (hr : r < cfg.n) :
    ∃ b, s.pc r = .done b := by
  have := (allB_iff cfg.n _).1 ht r hr
  cases hpc : s.pc r with
  | done b => exact ⟨b, rfl⟩
  | _ => simp [hpc, PC.isDone] at this

theorem a_progress_lbl {cfg : Cfg} {s : AState} (h : AInv cfg s) (hnt : s.allTerminal cfg = false) :
    ∃ l, (astep? cfg s l).isSome = true := by
  obtain ⟨r, hr, hnd⟩ := a_not_terminal hnt
  obtain ⟨k, _, a, ha⟩ := aprogress h r hr hnd
  exact ⟨⟨k, a⟩, ha⟩

/-! ### store framing: a round only touches keys of its own prefix -/

theorem actl_store_other {cfg : Cfg} {s s' : AState} {r : Nat} (hs : actl? cfg s r = some s')
    (p k : Nat) (hp : p ≠ cfg.pfx) : s'.store p k = s.store p k := by
  unfold actl? at hs
  repeat' (split at hs)
  all_goals (first | contradiction | skip)
  all_goals (injection hs with hs; subst hs; simp [Store.set, hp])

theorem astep_store_other {cfg : Cfg} {s s' : AState} {l : Lbl} (hs : astep? cfg s l = some s')
    (p k : Nat) (hp : p ≠ cfg.pfx) : s'.store p k = s.store p k := by
  unfold astep? at hs
  split at hs
  · split at hs
    · exact actl_store_other hs p k hp
    · split at hs
      · injection hs with hs; subst hs; rfl
      · contradiction
  · contradiction

theorem arun_store_other (cfg : Cfg) (sched : List Lbl) (s : AState) (p k : Nat) (hp : p ≠ cfg.pfx) :
    (arun cfg s sched).store p k = s.store p k := by
  induction sched generalizing s with
  | nil => rfl
  | cons l rest ih =>
    simp only [arun, List.foldl_cons]
    cases hs : astep? cfg s l with
    | none => exact ih s
    | some s' =>
      have := ih s'
      simp only [arun] at this
      rw [this, astep_store_other hs p k hp]

/-! ### ranks outside the job never move -/

theorem actl_pc_other {cfg : Cfg} {s s' : AState} {r : Nat} (hs : actl? cfg s r = some s')
    (k : Nat) (hk : k ≠ r) : s'.pc k = s.pc k := by
  unfold actl? at hs
  repeat' (split at hs)
  all_goals (first | contradiction | skip)
  all_goals (injection hs with hs; subst hs; simp [upd, hk])

theorem astep_pc_idle {cfg : Cfg} {s s' : AState} {l : Lbl} (hs : astep? cfg s l = some s')
    (k : Nat) (hk : cfg.n ≤ k) : s'.pc k = s.pc k := by
  unfold astep? at hs
  split at hs
  · rename_i hr
    split at hs
    · exact actl_pc_other hs k (by omega)
    · split at hs
      · injection hs with hs; subst hs; rfl
      · contradiction
  · contradiction

theorem arun_pc_idle (cfg : Cfg) (sched : List Lbl) (s : AState) (k : Nat) (hk : cfg.n ≤ k) :
    (arun cfg s sched).pc k = s.pc k := by
  induction sched generalizing s with
  | nil => rfl
  | cons l rest ih =>
    simp only [arun, List.foldl_cons]
    cases hs : astep? cfg s l with
    | none => exact ih s
    | some s' =>
      have := ih s'
      simp only [arun] at this
      rw [this, astep_pc_idle hs k hk]

/-- In a run from the initial state, `ioFail r` is only produced by ranks of the job. -/
theorem a_ioFail_rank (cfg : Cfg) (st : Store) (hf : Fresh st cfg.pfx) (sched : List Lbl) (r : Nat)
    (h : Ev.ioFail r ∈ (arun cfg (AState.init st) sched).hist) : r < cfg.n := by
  apply Classical.byContradiction
  intro hge
  have hpc := arun_pc_idle cfg sched (AState.init st) r (by omega)
  have hinv := ainv_reach cfg st hf sched
  exact (hinv.io.io_pc r (by rw [hpc]; rfl)).2 h

/-! ### sync, state level -/

theorem s_payload_done {cfg : Cfg} {s : SState} (h : SInv cfg s) (hm : Ev.mBegin ∈ s.hist)
    (r w : Nat) (hr : r < cfg.n) (hw : w < cfg.nw r) : Ev.wEnd r w ∈ s.hist :=
  (h.w.wEnd_iff r w).2
    (h.a.s_io r ((h.a.s_ioC r).1 (h.b.commit_all hm r hr)) w hw)

theorem s_mEnd_mBegin {cfg : Cfg} {s : SState} (h : SInv cfg s) (hm : Ev.mEnd ∈ s.hist) :
    Ev.mBegin ∈ s.hist := by
  have := h.a.mE.1 hm
  exact h.a.mB.2 (by simp [this])

theorem s_returnOk_mEnd {cfg : Cfg} {s : SState} (h : SInv cfg s) (r : Nat) (hr : r < cfg.n)
    (hw : Ev.returnOk r ∈ s.hist) : Ev.mEnd ∈ s.hist := by
  have hpc := (h.a.rOk r).1 hw
  have h2 := h.b.s_ret r hr hpc
  refine h.a.mE.2 (h.a.s_post ?_)
  cases hp0 : s.pc 0 <;> simp [hp0, entered2, spostMeta] at h2 ⊢

/-- `returnOk r` is only produced by ranks of the job. -/
theorem s_returnOk_lt {cfg : Cfg} {s : SState} (h : SInv cfg s) (r : Nat)
    (hw : Ev.returnOk r ∈ s.hist) : r < cfg.n := by
  have hpc := (h.a.rOk r).1 hw
  apply Classical.byContradiction
  intro hge
  have := h.b.s_idle r (by omega)
  simp [this] at hpc

theorem s_planned_fault_no_mBegin {cfg : Cfg} {s : SState} (h : SInv cfg s) (r w : Nat)
    (hr : r < cfg.n) (hw : w < cfg.nw r) (hf : cfg.pfail r w = true) : Ev.mBegin ∉ s.hist := by
  intro hm
  have hd := h.a.s_io r ((h.a.s_ioC r).1 (h.b.commit_all hm r hr)) w hw
  have := h.w.done_ok r w hd
  simp [hf] at this

end Ts.Commit
