import TsProofs.CommitSync
import TsProofs.CommitRun
import TsProofs.CommitCut
/-! Sync protocol: reachable states, cuts, progress. -/
namespace Ts.Commit
set_option linter.unusedSimpArgs false
set_option linter.unusedVariables false

theorem sinv_ctl {cfg : Cfg} {s s' : SState} {r : Nat} (h : SInv cfg s) (hr : r < cfg.n)
    (hs : sctl? cfg s r = some s') : SInv cfg s' := by
  obtain ⟨hw, ha, hb⟩ := h
  refine ⟨?_, sinvA_ctl ha hs, sinvB_ctl ha hb hr hs⟩
  obtain ⟨h1, e, h2, h3⟩ := sctl_ws hs
  rw [h1, h2]; exact winv_other hw h3

theorem sinv_w {cfg : Cfg} {s : SState} {r : Nat} {a : Act} {ws' : Nat → Nat → WSt} {e : Ev}
    (h : SInv cfg s) (hs : wstep? cfg s.ws r a = some (ws', e)) :
    SInv cfg { s with ws := ws', hist := e :: s.hist } := by
  obtain ⟨hw, ha, hb⟩ := h
  obtain ⟨f1, f2, w0, f3⟩ := wstep_frame hs
  refine ⟨winv_wstep hw hs, ?_, ?_⟩
  · have ⟨h1, h2, h3, h4, h5, h6, h7, h8, h9, h10, h11, h12, h13, h14, h15⟩ := ha
    refine ⟨?_, ?_, ?_, ?_, ?_, ?_, ?_, ?_, ?_, ?_, ?_, ?_, ?_, ?_, ?_⟩
    · intros; grind
    · intros; grind
    · intro r' hpc
      obtain ⟨w', hw1, hw2⟩ := h3 r' hpc
      exact ⟨w', hw1, f2 _ _ hw2⟩
    all_goals (intros; grind)
  · have ⟨h1, h2, h3, h4⟩ := hb
    constructor <;> intros <;> grind

theorem sinv_step {cfg : Cfg} {s s' : SState} {l : Lbl} (h : SInv cfg s)
    (hs : sstep? cfg s l = some s') : SInv cfg s' := by
  unfold sstep? at hs
  split at hs
  · rename_i hr
    split at hs
    · exact sinv_ctl h hr hs
    · split at hs
      · injection hs with hs; subst hs
        rename_i hw
        exact sinv_w h hw
      · contradiction
  · contradiction

theorem srun_eq (cfg : Cfg) (s : SState) (sched : List Lbl) :
    srun cfg s sched = runWith (sstep? cfg) s sched := by
  unfold srun runWith
  congr 1; funext s l; cases sstep? cfg s l <;> rfl

theorem arun_eq (cfg : Cfg) (s : AState) (sched : List Lbl) :
    arun cfg s sched = runWith (astep? cfg) s sched := by
  unfold arun runWith
  congr 1; funext s l; cases astep? cfg s l <;> rfl

theorem sinv_run {cfg : Cfg} (sched : List Lbl) {s : SState} (h : SInv cfg s) :
    SInv cfg (srun cfg s sched) := by
  induction sched generalizing s with
  | nil => exact h
  | cons l rest ih =>
    simp only [srun, List.foldl_cons]
    cases hs : sstep? cfg s l with
    | none => exact ih h
    | some s' => exact ih (sinv_step h hs)

/-- Every reachable state of the sync protocol satisfies the invariant. -/
theorem sinv_reach (cfg : Cfg) (sched : List Lbl) : SInv cfg (srun cfg SState.init sched) :=
  sinv_run sched (sinv_init cfg)

theorem sstep_hist {cfg : Cfg} (s : SState) (l : Lbl) (s' : SState) (hs : sstep? cfg s l = some s') :
    ∃ e, s'.hist = e :: s.hist := by
  unfold sstep? at hs
  split at hs
  · split at hs
    · obtain ⟨_, e, h2, _⟩ := sctl_ws hs; exact ⟨e, h2⟩
    · split at hs
      · injection hs with hs; subst hs; exact ⟨_, rfl⟩
      · contradiction
  · contradiction

theorem astep_hist {cfg : Cfg} (s : AState) (l : Lbl) (s' : AState) (hs : astep? cfg s l = some s') :
    ∃ e, s'.hist = e :: s.hist := by
  unfold astep? at hs
  split at hs
  · split at hs
    · obtain ⟨_, e, h2, _⟩ := actl_ws hs; exact ⟨e, h2⟩
    · split at hs
      · injection hs with hs; subst hs; exact ⟨_, rfl⟩
      · contradiction
  · contradiction

/-- A cut (prefix of the chronological trace) of a sync run is the trace of a run. -/
theorem scut_reachable (cfg : Cfg) (sched : List Lbl) (cut : List Ev)
    (h : cut <+: (srun cfg SState.init sched).trace) :
    ∃ sched', cut = (srun cfg SState.init sched').trace := by
  have h' : cut.reverse <:+ (srun cfg SState.init sched).hist := by
    rw [← List.reverse_prefix]; simpa [SState.trace] using h
  rw [srun_eq] at h'
  obtain ⟨sched', hc⟩ := suffix_reachable (sstep? cfg) SState.hist sstep_hist sched SState.init
    cut.reverse h' (by simp [SState.init])
  refine ⟨sched', ?_⟩
  rw [SState.trace, srun_eq, ← hc, List.reverse_reverse]

/-- A cut of an async run is the trace of a run (from the same initial store). -/
theorem acut_reachable (cfg : Cfg) (st : Barrier.Store) (sched : List Lbl) (cut : List Ev)
    (h : cut <+: (arun cfg (AState.init st) sched).trace) :
    ∃ sched', cut = (arun cfg (AState.init st) sched').trace := by
  have h' : cut.reverse <:+ (arun cfg (AState.init st) sched).hist := by
    rw [← List.reverse_prefix]; simpa [AState.trace] using h
  rw [arun_eq] at h'
  obtain ⟨sched', hc⟩ := suffix_reachable (astep? cfg) AState.hist astep_hist sched (AState.init st)
    cut.reverse h' (by simp [AState.init])
  refine ⟨sched', ?_⟩
  rw [AState.trace, arun_eq, ← hc, List.reverse_reverse]

end Ts.Commit
