import TsModel.Commit
/-! Cuts of a linearised history are histories of shorter schedules (generic in the protocol). -/
namespace Ts.Commit

/-- `arun` / `srun` as a fold of an arbitrary partial step function. -/
def runWith {σ : Type} (step : σ → Lbl → Option σ) (s : σ) (sched : List Lbl) : σ :=
  sched.foldl (fun s l => match step s l with | some s' => s' | none => s) s

theorem runWith_cons {σ : Type} (step : σ → Lbl → Option σ) (s : σ) (l : Lbl) (rest : List Lbl) :
    runWith step s (l :: rest) =
      runWith step (match step s l with | some s' => s' | none => s) rest := rfl

theorem hist_mono {σ : Type} (step : σ → Lbl → Option σ) (hist : σ → List Ev)
    (hstep : ∀ s l s', step s l = some s' → ∃ e, hist s' = e :: hist s)
    (sched : List Lbl) (s : σ) : hist s <:+ hist (runWith step s sched) := by
  induction sched generalizing s with
  | nil => exact List.suffix_refl _
  | cons l rest ih =>
    rw [runWith_cons]
    cases hs : step s l with
    | none => exact ih s
    | some s' =>
      obtain ⟨e, he⟩ := hstep s l s' hs
      exact List.IsSuffix.trans (by rw [he]; exact List.suffix_cons _ _) (ih s')

/-- Every suffix of the (newest-first) history that extends the initial history is the history of
some schedule: what happened up to a cut is itself a run. -/
theorem suffix_reachable {σ : Type} (step : σ → Lbl → Option σ) (hist : σ → List Ev)
    (hstep : ∀ s l s', step s l = some s' → ∃ e, hist s' = e :: hist s)
    (sched : List Lbl) (s : σ) (c : List Ev)
    (h1 : c <:+ hist (runWith step s sched)) (h0 : hist s <:+ c) :
    ∃ sched', c = hist (runWith step s sched') := by
  induction sched generalizing s with
  | nil =>
    refine ⟨[], ?_⟩
    exact List.IsSuffix.eq_of_length_le h1 (List.IsSuffix.length_le h0)
  | cons l rest ih =>
    rw [runWith_cons] at h1
    cases hs : step s l with
    | none =>
      rw [hs] at h1
      exact ih s h1 h0
    | some s' =>
      rw [hs] at h1
      obtain ⟨e, he⟩ := hstep s l s' hs
      have hm := hist_mono step hist hstep rest s'
      rcases List.suffix_or_suffix_of_suffix hm h1 with h | h
      · obtain ⟨sched', hc⟩ := ih s' h1 h
        exact ⟨l :: sched', by rw [runWith_cons, hs]; exact hc⟩
      · rw [he, List.suffix_cons_iff] at h
        rcases h with h | h
        · refine ⟨[l], ?_⟩
          simp only [runWith, List.foldl_cons, List.foldl_nil, hs]
          rw [he]; exact h
        · refine ⟨[], ?_⟩
          exact List.IsSuffix.eq_of_length_le h (List.IsSuffix.length_le h0)

end Ts.Commit
