import TsProofs.Inflate
/-! The core induction for C15: `build` rebuilds every container of `t` from `flatC`. -/
namespace Ts.Flatten
open Ts.Path

/-! ## Nesting depth (fuel bound) -/

mutual
/-- Nesting depth of flattened containers. -/
def depth : Tree → Nat
  | .leaf _ => 0
  | .list xs => depthL xs + 1
  | .dict _ kvs => if shouldFlatten (kvs.map (·.1)) then depthKV kvs + 1 else 0
def depthL : List Tree → Nat
  | [] => 0
  | x :: xs => max (depth x) (depthL xs)
def depthKV : List (Key × Tree) → Nat
  | [] => 0
  | kv :: r => max (depth kv.2) (depthKV r)
end

theorem depth_le_depthL (xs : List Tree) (x : Tree) (h : x ∈ xs) : depth x ≤ depthL xs := by
  induction xs with
  | nil => simp at h
  | cons a xs ih =>
    simp only [depthL]
    rcases List.mem_cons.1 h with e | e
    · subst e; omega
    · have := ih e; omega

theorem depth_le_depthKV (kvs : List (Key × Tree)) (kv : Key × Tree) (h : kv ∈ kvs) :
    depth kv.2 ≤ depthKV kvs := by
  induction kvs with
  | nil => simp at h
  | cons a kvs ih =>
    simp only [depthKV]
    rcases List.mem_cons.1 h with e | e
    · subst e; omega
    · have := ih e; omega

theorem wfL_iff (xs : List Tree) : wfL xs = true ↔ ∀ x ∈ xs, x.wf = true := by
  induction xs with
  | nil => simp [wfL]
  | cons a xs ih => simp [wfL, ih]

theorem wfKV_iff (kvs : List (Key × Tree)) : wfKV kvs = true ↔ ∀ kv ∈ kvs, kv.2.wf = true := by
  induction kvs with
  | nil => simp [wfKV]
  | cons a kvs ih => simp [wfKV, ih]

mutual
theorem depth_le_conts (t : Tree) (q : CPath) : depth t ≤ (conts (flatC q t)).length := by
  match t with
  | .leaf i => simp [depth]
  | .list xs =>
    have := depthL_le_conts xs q 0
    simp only [depth, flatC, conts_cons_cont, List.length_cons]
    omega
  | .dict k kvs =>
    by_cases hs : shouldFlatten (kvs.map (·.1)) = true
    · have := depthKV_le_conts kvs q
      simp only [depth, flatC, hs, if_true, conts_cons_cont, List.length_cons]
      omega
    · simp [depth, hs]
theorem depthL_le_conts (xs : List Tree) (q : CPath) (i : Nat) :
    depthL xs ≤ (conts (flatCL q i xs)).length := by
  match xs with
  | [] => simp [depthL]
  | x :: xs =>
    have h1 := depth_le_conts x (q ++ [natStr i])
    have h2 := depthL_le_conts xs q (i + 1)
    simp only [depthL, flatCL, conts_append, List.length_append]
    omega
theorem depthKV_le_conts (kvs : List (Key × Tree)) (q : CPath) :
    depthKV kvs ≤ (conts (flatCKV q kvs)).length := by
  match kvs with
  | [] => simp [depthKV]
  | kv :: kvs =>
    have h1 := depth_le_conts kv.2 (q ++ [encode kv.1.toStr])
    have h2 := depthKV_le_conts kvs q
    simp only [depthKV, flatCKV, conts_append, List.length_append]
    omega
end

/-! ## Roots and closed sub-blocks -/

/-- What the parent holds for child `y` flattened at path `q`. -/
def childRef (q : CPath) (y : Tree) : Child := childOf (q, nodeOf y)

/-- `D` contains `flatC q t`, and nothing else below `q`. -/
def Closed (D : Items) (q : CPath) (t : Tree) : Prop :=
  (∀ x ∈ flatC q t, x ∈ D) ∧ (∀ x ∈ D, (∃ r, x.1 = q ++ r) → x ∈ flatC q t)

theorem root_mem (q : CPath) (y : Tree) : (q, nodeOf y) ∈ flatC q y := by
  rw [flatC_eq_cons]; simp

theorem flatC_root_unique (q : CPath) (y : Tree) (x : CPath × Node) (hx : x ∈ flatC q y)
    (h : x.1 = q) : x = (q, nodeOf y) := by
  rw [flatC_eq_cons] at hx
  rcases List.mem_cons.1 hx with e | e
  · exact e
  · obtain ⟨c, r, hr⟩ := flatRest_strict y q x e
    rw [hr] at h
    exact absurd h (append_cons_ne_self q c r)

theorem nodeOf_leaf (t s : Tree) (h : nodeOf t = .leaf s) : s = t := by
  cases t with
  | leaf i => simp [nodeOf] at h; exact h.symm
  | list xs => simp [nodeOf] at h
  | dict k kvs =>
    by_cases hs : shouldFlatten (kvs.map (·.1)) = true
    · simp [nodeOf, hs] at h
    · simp [nodeOf, hs] at h; exact h.symm

theorem nodup_map_inj {α β : Type} (f : α → β) (l : List α) (hn : (l.map f).Nodup) (a b : α)
    (ha : a ∈ l) (hb : b ∈ l) (h : f a = f b) : a = b := by
  induction l with
  | nil => simp at ha
  | cons x l ih =>
    simp only [List.map_cons, List.nodup_cons] at hn
    rcases List.mem_cons.1 ha with ha' | ha' <;> rcases List.mem_cons.1 hb with hb' | hb'
    · rw [ha', hb']
    · subst ha'
      exact absurd (List.mem_map.2 ⟨b, hb', h.symm⟩) hn.1
    · subst hb'
      exact absurd (List.mem_map.2 ⟨a, ha', h⟩) hn.1
    · exact ih hn.2 ha' hb'

theorem Closed.child_list {D : Items} {q : CPath} {xs : List Tree} (h : Closed D q (.list xs))
    (j : Nat) (y : Tree) (hj : xs[j]? = some y) : Closed D (q ++ [natStr j]) y := by
  constructor
  · intro x hx
    apply h.1
    simp only [flatC, List.mem_cons]
    exact Or.inr ((mem_flatCL q x xs 0).2 ⟨j, y, hj, by simpa using hx⟩)
  · rintro x hx ⟨r, hr⟩
    have hx' := h.2 x hx ⟨natStr j :: r, by simp [hr]⟩
    simp only [flatC, List.mem_cons] at hx'
    rcases hx' with e | e
    · rw [e] at hr
      simp only [List.append_assoc] at hr
      exact absurd hr.symm (append_cons_ne_self q _ _)
    · obtain ⟨j', y', hj', hx''⟩ := (mem_flatCL q x xs 0).1 e
      obtain ⟨r', hr'⟩ := flatC_prefix y' _ x hx''
      rw [hr] at hr'
      simp only [List.append_assoc, List.append_cancel_left_eq, List.cons_append, List.nil_append,
        List.cons.injEq] at hr'
      have : j = 0 + j' := natStr_injective hr'.1
      have : j' = j := by omega
      subst this
      rw [hj] at hj'; cases hj'
      simpa using hx''

theorem Closed.child_dict {D : Items} {q : CPath} {k : Kind} {kvs : List (Key × Tree)}
    (h : Closed D q (.dict k kvs)) (hs : shouldFlatten (kvs.map (·.1)) = true)
    (kv : Key × Tree) (hkv : kv ∈ kvs) : Closed D (q ++ [encode kv.1.toStr]) kv.2 := by
  have hn := ((shouldFlatten_iff _).1 hs).2
  simp only [List.map_map] at hn
  constructor
  · intro x hx
    apply h.1
    simp only [flatC, hs, if_true, List.mem_cons]
    exact Or.inr ((mem_flatCKV q x kvs).2 ⟨kv, hkv, hx⟩)
  · rintro x hx ⟨r, hr⟩
    have hx' := h.2 x hx ⟨encode kv.1.toStr :: r, by simp [hr]⟩
    simp only [flatC, hs, if_true, List.mem_cons] at hx'
    rcases hx' with e | e
    · rw [e] at hr
      simp only [List.append_assoc] at hr
      exact absurd hr.symm (append_cons_ne_self q _ _)
    · obtain ⟨kv', hkv', hx''⟩ := (mem_flatCKV q x kvs).1 e
      obtain ⟨r', hr'⟩ := flatC_prefix kv'.2 _ x hx''
      rw [hr] at hr'
      simp only [List.append_assoc, List.append_cancel_left_eq, List.cons_append, List.nil_append,
        List.cons.injEq] at hr'
      have h1 : kv.1.toStr = kv'.1.toStr := encode_injective hr'.1
      have : kv = kv' := nodup_map_inj (fun kv : Key × Tree => kv.1.toStr) kvs hn kv kv' hkv hkv' h1
      subst this
      exact hx''

/-! ## The children found under a container path -/

theorem children_list (D : Items) (hD : PathsOK D) (p : Str) (hp : 47 ∉ p) (q : CPath)
    (hq : q ≠ []) (hqs : SlashFree q) (xs : List Tree) (hc : Closed D q (.list xs))
    (kc : Str × Child) :
    kc ∈ sel p (joinSlash q) (itemsOf D) ↔
      kc ∈ idxChildren (fun i y => childRef (q ++ [natStr i]) y) 0 xs := by
  obtain ⟨k, ch⟩ := kc
  rw [mem_sel D hD p hp q hq hqs, mem_idxChildren]
  constructor
  · rintro ⟨x, hx, hpath, rfl⟩
    have hx' := hc.2 x hx ⟨[k], hpath⟩
    simp only [flatC, List.mem_cons] at hx'
    rcases hx' with e | e
    · rw [e] at hpath
      exact absurd hpath.symm (append_cons_ne_self q _ _)
    · obtain ⟨j, y, hj, hx''⟩ := (mem_flatCL q x xs 0).1 e
      obtain ⟨r, hr⟩ := flatC_prefix y _ x hx''
      have h2 := hr
      rw [hpath] at h2
      simp only [List.append_assoc, List.append_cancel_left_eq, List.cons_append, List.nil_append,
        List.cons.injEq] at h2
      obtain ⟨hk, hr2⟩ := h2
      subst hk
      have hroot := flatC_root_unique _ y x hx'' (by rw [hr, ← hr2]; simp)
      refine ⟨j, y, hj, ?_⟩
      rw [hroot]
      rfl
  · rintro ⟨j, y, hj, hkc⟩
    simp only [Prod.mk.injEq] at hkc
    obtain ⟨rfl, rfl⟩ := hkc
    refine ⟨(q ++ [natStr (0 + j)], nodeOf y), ?_, rfl, rfl⟩
    apply hc.1
    simp only [flatC, List.mem_cons]
    exact Or.inr ((mem_flatCL q _ xs 0).2 ⟨j, y, hj, root_mem _ y⟩)

theorem children_dict (D : Items) (hD : PathsOK D) (p : Str) (hp : 47 ∉ p) (q : CPath)
    (hq : q ≠ []) (hqs : SlashFree q) (k : Kind) (kvs : List (Key × Tree))
    (hs : shouldFlatten (kvs.map (·.1)) = true) (hc : Closed D q (.dict k kvs))
    (kc : Str × Child) :
    kc ∈ sel p (joinSlash q) (itemsOf D) ↔
      ∃ kv ∈ kvs, kc = (encode kv.1.toStr, childRef (q ++ [encode kv.1.toStr]) kv.2) := by
  obtain ⟨k', ch⟩ := kc
  rw [mem_sel D hD p hp q hq hqs]
  constructor
  · rintro ⟨x, hx, hpath, rfl⟩
    have hx' := hc.2 x hx ⟨[k'], hpath⟩
    simp only [flatC, hs, if_true, List.mem_cons] at hx'
    rcases hx' with e | e
    · rw [e] at hpath
      exact absurd hpath.symm (append_cons_ne_self q _ _)
    · obtain ⟨kv, hkv, hx''⟩ := (mem_flatCKV q x kvs).1 e
      obtain ⟨r, hr⟩ := flatC_prefix kv.2 _ x hx''
      have h2 := hr
      rw [hpath] at h2
      simp only [List.append_assoc, List.append_cancel_left_eq, List.cons_append, List.nil_append,
        List.cons.injEq] at h2
      obtain ⟨hk, hr2⟩ := h2
      subst hk
      have hroot := flatC_root_unique _ kv.2 x hx'' (by rw [hr, ← hr2]; simp)
      refine ⟨kv, hkv, ?_⟩
      rw [hroot]
      rfl
  · rintro ⟨kv, hkv, hkc⟩
    simp only [Prod.mk.injEq] at hkc
    obtain ⟨rfl, rfl⟩ := hkc
    refine ⟨(q ++ [encode kv.1.toStr], nodeOf kv.2), ?_, rfl, rfl⟩
    apply hc.1
    simp only [flatC, hs, if_true, List.mem_cons]
    exact Or.inr ((mem_flatCKV q _ kvs).2 ⟨kv, hkv, root_mem _ kv.2⟩)

/-! ## Resolving children -/

theorem resolve_childRef (b : Str → Except Err Tree) (q : CPath) (y : Tree)
    (h : ∀ e, nodeOf y = .cont e → b (joinSlash q) = .ok y) :
    resolveWith b (childRef q y) = .ok y := by
  unfold childRef
  cases hn : nodeOf y with
  | cont e => simp [childOf, resolveWith, h e hn]
  | leaf s =>
    have := nodeOf_leaf y s hn
    subst this
    simp [childOf, resolveWith]

theorem mapE_idxChildren (b : Str → Except Err Tree) (f : Nat → Tree → Child) (i : Nat)
    (xs : List Tree) (h : ∀ j y, xs[j]? = some y → resolveWith b (f (i + j) y) = .ok y) :
    mapE (resolveWith b) ((idxChildren f i xs).map (·.2)) = .ok xs := by
  induction xs generalizing i with
  | nil => rfl
  | cons a xs ih =>
    have h0 := h 0 a (by simp)
    have hr := ih (i + 1) (fun j y hj => by
      have := h (j + 1) y (by simpa using hj)
      have e : i + 1 + j = i + (j + 1) := by omega
      rwa [e])
    simp only [Nat.add_zero] at h0
    simp [idxChildren, mapE, h0, hr]

theorem popDict_ok (k2v : List (Str × Child)) (res : Child → Except Err Tree)
    (kvs : List (Key × Tree))
    (h : ∀ kv ∈ kvs, ∃ ch, lookup k2v kv.1.toStr = some ch ∧ res ch = .ok kv.2) :
    popDict k2v res (kvs.map (·.1)) = .ok kvs := by
  induction kvs with
  | nil => rfl
  | cons kv kvs ih =>
    obtain ⟨ch, h1, h2⟩ := h kv (by simp)
    have hr := ih (fun kv' hkv' => h kv' (List.mem_cons_of_mem _ hkv'))
    simp [popDict, h1, h2, hr]

/-- Total helper: the decoded form of a token in the image of `encode`. -/
def decOf (k : Str) : Str :=
  match decode k with
  | .ok s => s
  | .error _ => []

theorem decOf_encode (s : Str) : decOf (encode s) = s := by
  simp [decOf, decode_encode]

theorem populate_dict (b : Str → Except Err Tree) (L : List (Str × Child)) (q : CPath)
    (kvs : List (Key × Tree))
    (hL : ∀ kc, kc ∈ L ↔
      ∃ kv ∈ kvs, kc = (encode kv.1.toStr, childRef (q ++ [encode kv.1.toStr]) kv.2))
    (hn : (L.map (·.1)).Nodup)
    (hdist : distinctKeys (kvs.map (·.1)) = true)
    (hres : ∀ kv ∈ kvs, resolveWith b (childRef (q ++ [encode kv.1.toStr]) kv.2) = .ok kv.2) :
    ∃ dv, decodeKeys L = .ok dv ∧
      popDict (update [] dv) (resolveWith b) (dedupKeys (kvs.map (·.1))) = .ok kvs := by
  refine ⟨L.map (fun kc => (decOf kc.1, kc.2)), ?_, ?_⟩
  · unfold decodeKeys
    apply mapE_eq_map
    intro kc hkc
    obtain ⟨kv, _, rfl⟩ := (hL kc).1 hkc
    simp [decOf_encode, decode_encode, Except.map]
  · have hnd : ((L.map (fun kc => (decOf kc.1, kc.2))).map (·.1)).Nodup := by
      rw [List.map_map]
      rw [List.Nodup, List.pairwise_map] at hn ⊢
      refine hn.imp_of_mem ?_
      intro a c ha hc hne e
      obtain ⟨kva, _, rfl⟩ := (hL a).1 ha
      obtain ⟨kvc, _, rfl⟩ := (hL c).1 hc
      simp only [Function.comp, decOf_encode] at e
      exact hne (by simp [e])
    have hup : update [] (L.map (fun kc => (decOf kc.1, kc.2))) = L.map (fun kc => (decOf kc.1, kc.2)) := by
      have := update_eq_append ([] : List (Str × Child)) (L.map (fun kc => (decOf kc.1, kc.2)))
        (by simpa using hnd)
      simpa using this
    rw [hup, dedupKeys_of_distinct _ hdist]
    apply popDict_ok
    intro kv hkv
    refine ⟨childRef (q ++ [encode kv.1.toStr]) kv.2, ?_, hres kv hkv⟩
    apply lookup_of_mem _ _ _ _ hnd
    refine List.mem_map.2 ⟨(encode kv.1.toStr, childRef (q ++ [encode kv.1.toStr]) kv.2),
      (hL _).2 ⟨kv, hkv, rfl⟩, ?_⟩
    simp [decOf_encode]

theorem nodup_of_map {α β : Type} (f : α → β) (l : List α) (h : (l.map f).Nodup) : l.Nodup := by
  rw [List.Nodup, List.pairwise_map] at h
  exact h.imp (fun {a b} hab e => hab (by rw [e]))

theorem idxChildren_nodup (f : Nat → Tree → Child) (i : Nat) (xs : List Tree) :
    (idxChildren f i xs).Nodup := by
  have h := idxChildren_sorted f i xs
  have h2 : ((idxChildren f i xs).map intOf).Nodup :=
    h.imp (fun {a b} hab e => by rw [e] at hab; exact absurd hab (by omega))
  exact nodup_of_map _ _ h2

/-! ## Main induction -/

theorem build_ok (D : Items) (hD : PathsOK D) (p : Str) (hp : 47 ∉ p) (G : Groups)
    (hG : ∀ par, lookup G par =
      if sel p par (itemsOf D) = [] then none else some (sel p par (itemsOf D))) :
    ∀ t : Tree, ∀ (q : CPath) (n : Nat) (e : Entry), q ≠ [] → SlashFree q → Closed D q t →
      t.wf = true → depth t ≤ n → nodeOf t = .cont e →
      build (conts D) G n (joinSlash q) = .ok t := by
  intro t
  induction t using Tree.induct' with
  | hleaf i => intro q n e _ _ _ _ _ hn; simp [nodeOf] at hn
  | hlist xs ih =>
    intro q n e hq hqs hc hwf hdep _
    simp only [depth] at hdep
    obtain ⟨m, rfl⟩ : ∃ m, n = m + 1 := ⟨n - 1, by omega⟩
    have hwf' : ∀ x ∈ xs, x.wf = true := (wfL_iff xs).1 (by simpa [Tree.wf] using hwf)
    have hroot : lookup (conts D) (joinSlash q) = some (CKind.list, []) :=
      lookup_conts D hD q _ (hc.1 _ (by simp [flatC]))
    have hmem := children_list D hD p hp q hq hqs xs hc
    have hLn : (sel p (joinSlash q) (itemsOf D)).Nodup :=
      nodup_of_map _ _ (sel_keys_nodup p _ _ (itemsOf_keys_nodup D hD))
    have hperm : (sel p (joinSlash q) (itemsOf D)).Perm
        (idxChildren (fun i y => childRef (q ++ [natStr i]) y) 0 xs) :=
      (List.perm_ext_iff_of_nodup hLn (idxChildren_nodup _ _ _)).2 hmem
    have hres : ∀ j y, xs[j]? = some y →
        resolveWith (build (conts D) G m) (childRef (q ++ [natStr (0 + j)]) y) = .ok y := by
      intro j y hj
      apply resolve_childRef
      intro e' he'
      have hy : y ∈ xs := List.mem_of_getElem? hj
      have hd : depth y ≤ m := by have := depth_le_depthL xs y hy; omega
      simp only [Nat.zero_add]
      exact ih y hy _ m e' (by simp) (hqs.append (SlashFree.singleton (natStr_no_slash _)))
        (hc.child_list j y hj) (hwf' y hy) hd he'
    simp only [build, hroot, hG]
    by_cases hL : sel p (joinSlash q) (itemsOf D) = []
    · rw [hL] at hperm
      have hT := hperm.nil_eq
      cases xs with
      | nil => simp [hL, emptyContainer]
      | cons a xs => simp [idxChildren] at hT
    · obtain ⟨h1, h2⟩ := sort_children _ 0 xs _ hperm
      simp only [hL, if_false, h1, h2]
      rw [mapE_idxChildren _ _ 0 xs hres]
  | hdict k kvs ih =>
    intro q n e hq hqs hc hwf hdep hnode
    by_cases hs : shouldFlatten (kvs.map (·.1)) = true
    · simp only [depth, hs, if_true] at hdep
      obtain ⟨m, rfl⟩ : ∃ m, n = m + 1 := ⟨n - 1, by omega⟩
      have hwf2 : distinctKeys (kvs.map (·.1)) = true ∧ wfKV kvs = true := by
        simpa [Tree.wf] using hwf
      have hwf' : ∀ kv ∈ kvs, kv.2.wf = true := (wfKV_iff kvs).1 hwf2.2
      have hroot : lookup (conts D) (joinSlash q) = some (k.toCKind, kvs.map (·.1)) :=
        lookup_conts D hD q _ (hc.1 _ (by simp [flatC, hs]))
      have hmem := children_dict D hD p hp q hq hqs k kvs hs hc
      have hLn := sel_keys_nodup p (joinSlash q) _ (itemsOf_keys_nodup D hD)
      have hres : ∀ kv ∈ kvs, resolveWith (build (conts D) G m)
          (childRef (q ++ [encode kv.1.toStr]) kv.2) = .ok kv.2 := by
        intro kv hkv
        apply resolve_childRef
        intro e' he'
        have hd : depth kv.2 ≤ m := by have := depth_le_depthKV kvs kv hkv; omega
        exact ih kv hkv _ m e' (by simp) (hqs.append (SlashFree.singleton (encode_no_slash _)))
          (hc.child_dict hs kv hkv) (hwf' kv hkv) hd he'
      simp only [build, hroot, hG]
      by_cases hL : sel p (joinSlash q) (itemsOf D) = []
      · have hkvs : kvs = [] := by
          cases kvs with
          | nil => rfl
          | cons kv kvs =>
            have := (hmem _).2 ⟨kv, by simp, rfl⟩
            rw [hL] at this
            simp at this
        subst hkvs
        cases k <;> simp [hL, emptyContainer, Kind.toCKind, dedupKeys]
      · obtain ⟨dv, h1, h2⟩ := populate_dict (build (conts D) G m) _ q kvs hmem hLn hwf2.1 hres
        cases k <;> simp only [hL, if_false, Kind.toCKind, h1, h2]
    · simp [nodeOf, hs] at hnode

/-! ## The populate loop cannot fail on the image of `flatten` -/

theorem snoc_eq_cons_append {α : Type} (r : List α) (a n : α) (r' : List α) (hr : r ≠ [])
    (h : r ++ [a] = n :: r') : ∃ r0, r = n :: r0 ∧ r' = r0 ++ [a] := by
  cases r with
  | nil => exact absurd rfl hr
  | cons b r0 =>
    simp only [List.cons_append, List.cons.injEq] at h
    exact ⟨r0, by rw [h.1], h.2.symm⟩

/-- Every non-root node of `flatC q t` has its parent path in `flatC q t` as a container whose
kind fits the node's last token (decimal index under a list, `encode`d key under a dict). -/
theorem parent_in_flatC (t : Tree) : ∀ (q : CPath) (x : CPath × Node), x ∈ flatC q t →
    ∀ (r : List Str) (a : Str), x.1 = (q ++ r) ++ [a] →
      ∃ e, (q ++ r, Node.cont e) ∈ flatC q t ∧
        ((e.1 = CKind.list → ∃ j, a = natStr j) ∧ (e.1 ≠ CKind.list → ∃ s, a = encode s)) := by
  induction t using Tree.induct' with
  | hleaf i =>
    intro q x hx r a hpath
    simp [flatC] at hx; subst hx
    have := congrArg List.length hpath
    simp at this
  | hlist xs ih =>
    intro q x hx r a hpath
    simp only [flatC, List.mem_cons] at hx
    rcases hx with e | e
    · subst e
      have := congrArg List.length hpath
      simp at this
    · obtain ⟨j, y, hj, hx'⟩ := (mem_flatCL q x xs 0).1 e
      obtain ⟨r'', hr''⟩ := flatC_prefix y _ x hx'
      have h2 := hr''
      rw [hpath] at h2
      simp only [List.append_assoc, List.append_cancel_left_eq, List.cons_append, List.nil_append] at h2
      by_cases hr : r = []
      · subst hr
        simp only [List.nil_append, List.cons.injEq] at h2
        refine ⟨(CKind.list, []), by simp [flatC], fun _ => ⟨_, h2.1⟩, fun h => absurd rfl h⟩
      · obtain ⟨r0, hr0, hr1⟩ := snoc_eq_cons_append r a _ _ hr h2
        subst hr0
        obtain ⟨e', he', hk⟩ := ih y (List.mem_of_getElem? hj) (q ++ [natStr (0 + j)]) x hx' r0 a
          (by rw [hpath]; simp)
        refine ⟨e', ?_, hk⟩
        simp only [flatC, List.mem_cons]
        refine Or.inr ((mem_flatCL q _ xs 0).2 ⟨j, y, hj, ?_⟩)
        simpa using he'
  | hdict k kvs ih =>
    intro q x hx r a hpath
    by_cases hs : shouldFlatten (kvs.map (·.1)) = true
    · simp only [flatC, hs, if_true, List.mem_cons] at hx
      rcases hx with e | e
      · subst e
        have := congrArg List.length hpath
        simp at this
      · obtain ⟨kv, hkv, hx'⟩ := (mem_flatCKV q x kvs).1 e
        obtain ⟨r'', hr''⟩ := flatC_prefix kv.2 _ x hx'
        have h2 := hr''
        rw [hpath] at h2
        simp only [List.append_assoc, List.append_cancel_left_eq, List.cons_append, List.nil_append] at h2
        by_cases hr : r = []
        · subst hr
          simp only [List.nil_append, List.cons.injEq] at h2
          refine ⟨(k.toCKind, kvs.map (·.1)), by simp [flatC, hs], fun h => ?_, fun _ => ⟨_, h2.1⟩⟩
          cases k <;> simp [Kind.toCKind] at h
        · obtain ⟨r0, hr0, hr1⟩ := snoc_eq_cons_append r a _ _ hr h2
          subst hr0
          obtain ⟨e', he', hk⟩ := ih kv hkv (q ++ [encode kv.1.toStr]) x hx' r0 a
            (by rw [hpath]; simp)
          refine ⟨e', ?_, hk⟩
          simp only [flatC, hs, if_true, List.mem_cons]
          refine Or.inr ((mem_flatCKV q _ kvs).2 ⟨kv, hkv, ?_⟩)
          simpa using he'
    · simp [flatC, hs] at hx; subst hx
      have := congrArg List.length hpath
      simp at this

/-! ## `flatten` through the component-level view -/

theorem flatten_eq_flatC (t : Tree) (pre : Str) :
    flatten t pre = (conts (flatC [encode pre] t), leaves (flatC [encode pre] t)) := by
  have hD : PathsOK (flatC [encode pre] t) :=
    flatC_pathsOK t _ (by simp) (SlashFree.singleton (encode_no_slash pre))
  have := flattenT_eq t [encode pre] (by simp) hD
  simpa [flatten, joinSlash] using this

theorem flatten_paths_nodup (t : Tree) (pre : Str) :
    ((flatten t pre).1.map (·.1) ++ (flatten t pre).2.map (·.1)).Nodup := by
  have hD : PathsOK (flatC [encode pre] t) :=
    flatC_pathsOK t _ (by simp) (SlashFree.singleton (encode_no_slash pre))
  have := itemsOf_keys_nodup _ hD
  rw [flatten_eq_flatC]
  have e1 : ((fun x : Str × Child => x.1) ∘ fun e : Str × Entry => (e.1, Child.cont e.1)) = (fun e => e.1) := rfl
  have e2 : ((fun x : Str × Child => x.1) ∘ fun e : Str × Tree => (e.1, Child.leaf e.2)) = (fun e => e.1) := rfl
  simpa only [itemsOf, List.map_append, List.map_map, e1, e2] using this

/-! ## Assembly: `inflate ∘ flatten = id` -/

theorem inflate_flatten (t : Tree) (pre : Str) (hwf : t.wf = true) :
    inflate (flatten t pre).1 (flatten t pre).2 pre = .ok t := by
  have hp : 47 ∉ encode pre := encode_no_slash pre
  have hq : ([encode pre] : CPath) ≠ [] := by simp
  have hqs : SlashFree [encode pre] := SlashFree.singleton hp
  have hD : PathsOK (flatC [encode pre] t) := flatC_pathsOK t _ hq hqs
  have hfl : flatten t pre = (conts (flatC [encode pre] t), leaves (flatC [encode pre] t)) := by
    have := flattenT_eq t [encode pre] hq hD
    simpa [flatten, joinSlash] using this
  -- every path starts with the encoded prefix: the two filters keep everything
  have hfirst : ∀ x ∈ flatC [encode pre] t, firstTok (joinSlash x.1) = encode pre := by
    intro x hx
    obtain ⟨r, hr⟩ := flatC_prefix t _ x hx
    rw [hr]
    exact firstTok_join _ r hp
  have hfM : (conts (flatC [encode pre] t)).filter (fun e => decide (firstTok e.1 = encode pre))
      = conts (flatC [encode pre] t) := by
    rw [List.filter_eq_self]
    intro e he
    simp only [conts, List.mem_filterMap] at he
    obtain ⟨x, hx, hxe⟩ := he
    obtain ⟨c, nd⟩ := x
    cases nd with
    | cont e' => simp at hxe; subst hxe; simpa using hfirst _ hx
    | leaf s => simp at hxe
  have hfF : (leaves (flatC [encode pre] t)).filter (fun e => decide (firstTok e.1 = encode pre))
      = leaves (flatC [encode pre] t) := by
    rw [List.filter_eq_self]
    intro e he
    simp only [leaves, List.mem_filterMap] at he
    obtain ⟨x, hx, hxe⟩ := he
    obtain ⟨c, nd⟩ := x
    cases nd with
    | leaf s => simp at hxe; subst hxe; simpa using hfirst _ hx
    | cont e' => simp at hxe
  have hjoin : joinSlash [encode pre] = encode pre := rfl
  unfold inflate
  simp only [hfl, hfM, hfF]
  cases hnode : nodeOf t with
  | leaf s =>
    have hs := nodeOf_leaf t s hnode
    subst hs
    have hroot : ([encode pre], Node.leaf s) ∈ flatC [encode pre] s := by
      rw [← hnode]; exact root_mem _ _
    have := lookup_leaves _ hD _ _ hroot
    rw [hjoin] at this
    simp [this]
  | cont e =>
    have hroot : ([encode pre], Node.cont e) ∈ flatC [encode pre] t := by
      rw [← hnode]; exact root_mem _ _
    have h1 := lookup_leaves_none _ hD _ _ hroot
    have h2 := lookup_conts _ hD _ _ hroot
    rw [hjoin] at h1 h2
    have hitems : (conts (flatC [encode pre] t)).map (fun e => (e.1, Child.cont e.1)) ++
        (leaves (flatC [encode pre] t)).map (fun e => (e.1, Child.leaf e.2))
        = itemsOf (flatC [encode pre] t) := rfl
    simp only [h1, h2, hitems]
    -- shape of every non-root item
    have hshape : ∀ it ∈ itemsOf (flatC [encode pre] t), it.1 ≠ encode pre →
        ∃ x ∈ flatC [encode pre] t, ∃ r a, x.1 = ([encode pre] ++ r) ++ [a] ∧ it.1 = joinSlash x.1 := by
      intro it hit hne
      obtain ⟨x, hx, rfl⟩ := (mem_itemsOf _ it).1 hit
      obtain ⟨r, hr⟩ := flatC_prefix t _ x hx
      have hrne : r ≠ [] := by
        intro e'
        subst e'
        simp only [List.append_nil] at hr
        exact hne (by simp only [hr]; rfl)
      obtain ⟨r', a, hra⟩ := exists_snoc r hrne
      exact ⟨x, hx, r', a, by rw [hr, hra]; simp, rfl⟩
    have hall : ∀ it ∈ itemsOf (flatC [encode pre] t), it.1 ≠ encode pre →
        ∃ pk, parentKey it.1 = some pk := by
      intro it hit hne
      obtain ⟨x, hx, r, a, hpath, hit1⟩ := hshape it hit hne
      have hs : SlashFree (([encode pre] ++ r) ++ [a]) := by rw [← hpath]; exact (hD.2 x hx).2
      exact ⟨_, by rw [hit1, hpath]; exact parentKey_join_snoc _ a (by simp) hs⟩
    obtain ⟨G, hG, _⟩ := groupAux_spec (encode pre) (itemsOf (flatC [encode pre] t)) [] hall
    have hlook := lookup_groups _ hD (encode pre) G hall hG
    have hgood : GroupsGood (conts (flatC [encode pre] t))
        (TokenGood (conts (flatC [encode pre] t))) G := by
      refine groupAux_good (encode pre) _ [] G (fun pv hpv => by simp at hpv) ?_ hG
      intro it hit hne par k hpk
      obtain ⟨x, hx, r, a, hpath, hit1⟩ := hshape it hit hne
      have hs : SlashFree (([encode pre] ++ r) ++ [a]) := by rw [← hpath]; exact (hD.2 x hx).2
      have hpk' := parentKey_join_snoc ([encode pre] ++ r) a (by simp) hs
      rw [← hpath, ← hit1, hpk] at hpk'
      simp only [Option.some.injEq, Prod.mk.injEq] at hpk'
      obtain ⟨hpar, hk⟩ := hpk'
      subst hpar; subst hk
      obtain ⟨e', he', hkind⟩ := parent_in_flatC t _ x hx r k hpath
      have hl := lookup_conts _ hD _ _ he'
      refine ⟨⟨e', hl⟩, e'.1, e'.2, hl, ?_, ?_⟩
      · intro h; obtain ⟨j, hj⟩ := hkind.1 h; exact ⟨_, by rw [hj]; exact pyInt_natStr j⟩
      · intro h; obtain ⟨s, hs'⟩ := hkind.2 h; exact ⟨s, by rw [hs']; exact decode_encode s⟩
    rw [hG]
    simp only [checkGroups_ok _ G hgood]
    have hclosed : Closed (flatC [encode pre] t) [encode pre] t := ⟨fun x hx => hx, fun x hx _ => hx⟩
    have hdepth : depth t ≤ (conts (flatC [encode pre] t)).length + 1 := by
      have := depth_le_conts t [encode pre]; omega
    have := build_ok _ hD (encode pre) hp G hlook t [encode pre] _ e hq hqs hclosed hwf hdepth hnode
    rw [hjoin] at this
    exact this

end Ts.Flatten
