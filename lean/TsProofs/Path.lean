import TsModel.Path
/-! Helper lemmas for the path-string model (C15, reused by C05/C07). -/
namespace Ts.Path

/-- One-pass form of `_encode`. -/
def enc1 (c : Nat) : Str :=
  if c = 37 then [37, 50, 53] else if c = 47 then [37, 50, 70] else [c]

theorem encode_nil : encode [] = [] := rfl

theorem encode_cons (c : Nat) (s : Str) : encode (c :: s) = enc1 c ++ encode s := by
  simp only [encode, replace1, List.flatMap_cons, List.flatMap_append]
  congr 1
  unfold enc1
  by_cases h : c = 37
  · subst h; simp
  · by_cases h2 : c = 47
    · subst h2; simp
    · simp [h, h2]

/-- The two `replace` passes equal one pass that maps `%` and `/` simultaneously. -/
theorem encode_eq_flatMap (s : Str) : encode s = s.flatMap enc1 := by
  induction s with
  | nil => rfl
  | cons c s ih => rw [encode_cons, ih, List.flatMap_cons]

theorem encode_append (a b : Str) : encode (a ++ b) = encode a ++ encode b := by
  simp [encode_eq_flatMap]

theorem decode_cons_ne (c : Nat) (r : Str) (h : c ≠ 37) :
    decode (c :: r) = (decode r).map (fun x => c :: x) := by
  rw [decode.eq_def]; simp [h]

theorem decode_cons_hex (a b : Nat) (r : Str) (x y : Nat) (ha : hexVal a = some x)
    (hb : hexVal b = some y) (hlt : 16 * x + y < 128) :
    decode (37 :: a :: b :: r) = (decode r).map (fun z => (16 * x + y) :: z) := by
  rw [decode.eq_def]; simp [ha, hb, hlt]

theorem decode_encode (s : Str) : decode (encode s) = .ok s := by
  induction s with
  | nil => simp [encode_nil, decode]
  | cons c s ih =>
    rw [encode_cons]
    unfold enc1
    by_cases h : c = 37
    · subst h
      show decode (37 :: 50 :: 53 :: encode s) = _
      rw [decode_cons_hex 50 53 _ 2 5 (by decide) (by decide) (by decide), ih]; rfl
    · by_cases h2 : c = 47
      · subst h2
        show decode (37 :: 50 :: 70 :: encode s) = _
        rw [decode_cons_hex 50 70 _ 2 15 (by decide) (by decide) (by decide), ih]; rfl
      · simp only [h, h2, if_false, List.cons_append, List.nil_append]
        rw [decode_cons_ne _ _ h, ih]; rfl

theorem encode_injective {a b : Str} (h : encode a = encode b) : a = b := by
  have h1 := decode_encode a
  rw [h, decode_encode] at h1
  exact (Except.ok.inj h1).symm

theorem encode_no_slash (s : Str) : 47 ∉ encode s := by
  induction s with
  | nil => simp [encode_nil]
  | cons c s ih =>
    rw [encode_cons]
    unfold enc1
    by_cases h : c = 37
    · subst h; simp [ih]
    · by_cases h2 : c = 47
      · subst h2; simp [ih]
      · simp [h, h2, ih]; omega

/-! ### split / join -/

theorem splitSlash_ne_nil (s : Str) : splitSlash s ≠ [] := by
  induction s with
  | nil => simp [splitSlash]
  | cons c s ih =>
    unfold splitSlash
    split
    · simp
    · split <;> simp

theorem splitSlash_noslash (s : Str) (h : 47 ∉ s) : splitSlash s = [s] := by
  induction s with
  | nil => rfl
  | cons c s ih =>
    have hc : c ≠ 47 := fun e => h (by simp [e])
    have hs : 47 ∉ s := fun e => h (by simp [e])
    simp [splitSlash, hc, ih hs]

theorem splitSlash_append_slash (a b : Str) (h : 47 ∉ a) :
    splitSlash (a ++ 47 :: b) = a :: splitSlash b := by
  induction a with
  | nil => simp [splitSlash]
  | cons c a ih =>
    have hc : c ≠ 47 := fun e => h (by simp [e])
    have ha : 47 ∉ a := fun e => h (by simp [e])
    simp [splitSlash, hc, ih ha]

/-- Every component is free of `/`. -/
def SlashFree (l : List Str) : Prop := ∀ c ∈ l, 47 ∉ c

theorem SlashFree.append {a b : List Str} (ha : SlashFree a) (hb : SlashFree b) :
    SlashFree (a ++ b) := by
  intro c hc
  rcases List.mem_append.1 hc with h | h
  · exact ha c h
  · exact hb c h

theorem SlashFree.left {a b : List Str} (h : SlashFree (a ++ b)) : SlashFree a :=
  fun c hc => h c (List.mem_append_left _ hc)

theorem SlashFree.right {a b : List Str} (h : SlashFree (a ++ b)) : SlashFree b :=
  fun c hc => h c (List.mem_append_right _ hc)

theorem SlashFree.singleton {c : Str} (h : 47 ∉ c) : SlashFree [c] := by
  intro x hx; simp at hx; subst hx; exact h

theorem split_join (l : List Str) (hne : l ≠ []) (hl : SlashFree l) :
    splitSlash (joinSlash l) = l := by
  induction l with
  | nil => exact absurd rfl hne
  | cons a r ih =>
    cases r with
    | nil => simpa [joinSlash] using splitSlash_noslash a (hl a (by simp))
    | cons b r =>
      have ha : 47 ∉ a := hl a (by simp)
      have hr : SlashFree (b :: r) := fun c hc => hl c (List.mem_cons_of_mem _ hc)
      simp only [joinSlash]
      rw [splitSlash_append_slash a _ ha, ih (by simp) hr]

theorem joinSlash_injective {l₁ l₂ : List Str} (h1 : l₁ ≠ []) (h2 : l₂ ≠ [])
    (s1 : SlashFree l₁) (s2 : SlashFree l₂) (h : joinSlash l₁ = joinSlash l₂) : l₁ = l₂ := by
  rw [← split_join l₁ h1 s1, ← split_join l₂ h2 s2, h]

theorem joinSlash_snoc (l : List Str) (hne : l ≠ []) (k : Str) :
    joinSlash (l ++ [k]) = joinSlash l ++ 47 :: k := by
  induction l with
  | nil => exact absurd rfl hne
  | cons a r ih =>
    cases r with
    | nil => simp [joinSlash]
    | cons b r =>
      have := ih (by simp)
      simp only [List.cons_append, joinSlash] at this ⊢
      rw [this]; simp

theorem firstTok_noslash_append (a b : Str) (h : 47 ∉ a) : firstTok (a ++ 47 :: b) = a := by
  induction a with
  | nil => simp [firstTok]
  | cons c a ih =>
    have hc : c ≠ 47 := fun e => h (by simp [e])
    have ha : 47 ∉ a := fun e => h (by simp [e])
    have := ih ha
    simp only [firstTok] at this ⊢
    simp [hc]
    simpa using this

theorem firstTok_noslash (a : Str) (h : 47 ∉ a) : firstTok a = a := by
  induction a with
  | nil => simp [firstTok]
  | cons c a ih =>
    have hc : c ≠ 47 := fun e => h (by simp [e])
    have ha : 47 ∉ a := fun e => h (by simp [e])
    have := ih ha
    simp only [firstTok] at this ⊢
    simp [hc]
    simpa using this

theorem firstTok_join (h : Str) (t : List Str) (hh : 47 ∉ h) : firstTok (joinSlash (h :: t)) = h := by
  cases t with
  | nil => simpa [joinSlash] using firstTok_noslash h hh
  | cons b r => simpa [joinSlash] using firstTok_noslash_append h _ hh

/-! ### decimal strings -/

theorem digitsVal_snoc (ds : Str) (d : Nat) : digitsVal (ds ++ [d]) = digitsVal ds * 10 + (d - 48) := by
  simp [digitsVal, List.foldl_append]

theorem natStr_digits (n : Nat) : ∀ c ∈ natStr n, 48 ≤ c ∧ c ≤ 57 := by
  induction n using Nat.strongRecOn with
  | _ n ih =>
    intro c hc
    rw [natStr] at hc
    split at hc
    · simp at hc; omega
    · rcases List.mem_append.1 hc with h | h
      · exact ih (n / 10) (by omega) c h
      · simp at h; omega

theorem natStr_ne_nil (n : Nat) : natStr n ≠ [] := by
  rw [natStr]; split <;> simp

theorem digitsVal_natStr (n : Nat) : digitsVal (natStr n) = n := by
  induction n using Nat.strongRecOn with
  | _ n ih =>
    rw [natStr]
    split
    · simp [digitsVal]
    · rw [digitsVal_snoc, ih (n / 10) (by omega)]; omega

theorem natStr_injective {a b : Nat} (h : natStr a = natStr b) : a = b := by
  rw [← digitsVal_natStr a, ← digitsVal_natStr b, h]

theorem natStr_no_slash (n : Nat) : 47 ∉ natStr n := by
  intro h
  have := natStr_digits n 47 h
  omega

theorem pyInt_natStr (n : Nat) : pyInt (natStr n) = .ok (n : Int) := by
  have hd := natStr_digits n
  have hall : (natStr n).all (fun c => 33 ≤ c && c ≤ 126 && c != 95) = true := by
    rw [List.all_eq_true]
    intro c hc
    have := hd c hc
    simp; omega
  have hdig : (natStr n).all isAsciiDigit = true := by
    rw [List.all_eq_true]
    intro c hc
    have := hd c hc
    simp [isAsciiDigit]; omega
  have hne := natStr_ne_nil n
  unfold pyInt
  rw [if_pos hall]
  cases hs : natStr n with
  | nil => exact absurd hs hne
  | cons c r =>
    have hc := hd c (by rw [hs]; simp)
    have h43 : c ≠ 43 := by omega
    have h45 : c ≠ 45 := by omega
    rw [hs] at hdig
    have hv := digitsVal_natStr n
    rw [hs] at hv
    split
    · rename_i heq; cases heq; exact absurd rfl h43
    · rename_i heq; cases heq; exact absurd rfl h45
    · simp [hdig, hv, Except.map]; rfl

end Ts.Path
