import TsModel.Glob
/-! Facts about the glob model: subtree patterns are prefix tests *with the separator*, `**` selects everything, a
literal pattern selects exactly one path. -/
namespace Ts.Glob

/-- no glob metacharacter -/
def Literal (k : Str) : Prop := ∀ c ∈ k, c ≠ 42 ∧ c ≠ 63 ∧ c ≠ 91

theorem anySuffix_const_true : ∀ s : Str, anySuffix (fun _ => true) s = true
  | [] => rfl
  | _ :: _ => by simp [anySuffix]

theorem anySuffix_isEmpty : ∀ s : Str, anySuffix (fun t => t.isEmpty) s = true
  | [] => rfl
  | _ :: t => by simp [anySuffix, anySuffix_isEmpty t]

theorem parseAux_lit (fuel : Nat) (c : Nat) (r : Str) (h : c ≠ 42 ∧ c ≠ 63 ∧ c ≠ 91) :
    parseAux (fuel + 1) (c :: r) = (parseAux fuel r).map (Pat.lit c :: ·) := by
  obtain ⟨h1, h2, h3⟩ := h
  conv => lhs; unfold parseAux
  split <;> simp_all

theorem parseAux_literal_prefix : ∀ (k : Str) (n : Nat) (rest : Str), Literal k →
    parseAux (k.length + n) (k ++ rest) = (parseAux n rest).map (fun ps => k.map Pat.lit ++ ps)
  | [], n, rest, _ => by cases h : parseAux n rest <;> simp [h]
  | c :: k, n, rest, hl => by
    have hc := hl c (by simp)
    have hk : Literal k := fun d hd => hl d (by simp [hd])
    have : (c :: k).length + n = (k.length + n) + 1 := by simp; omega
    rw [this, List.cons_append, parseAux_lit _ c _ hc, parseAux_literal_prefix k n rest hk]
    cases h : parseAux n rest <;> simp

/-- matching a run of literals is a prefix test -/
theorem matchPat_lits : ∀ (k : Str) (ps : List Pat) (s : Str),
    matchPat (k.map Pat.lit ++ ps) s = (k.isPrefixOf s && matchPat ps (s.drop k.length))
  | [], ps, s => by simp
  | c :: k, ps, [] => by simp [matchPat, List.isPrefixOf]
  | c :: k, ps, d :: t => by
    simp only [List.map_cons, List.cons_append, matchPat, List.isPrefixOf, List.length_cons, List.drop_succ_cons]
    rw [matchPat_lits k ps t, Bool.and_assoc]

theorem parse_subtree (k : Str) (hl : Literal k) :
    parse (k ++ [47, 42, 42]) = some (k.map Pat.lit ++ [Pat.lit 47, Pat.star]) := by
  unfold parse
  have : (k ++ [47, 42, 42]).length = k.length + 3 := by simp
  rw [this, parseAux_literal_prefix k 3 [47, 42, 42] hl]
  rfl

/-- **`K/**` selects exactly the paths below `K/`.** For an app key / path prefix `K` without glob metacharacters,
`fnmatch(path, K + "/**")` holds iff `path` starts with `K` *followed by the separator* — a sibling key whose name
merely starts with `K` (`model_ema` next to `model`) is not selected. -/
theorem glob_subtree (k : Str) (hl : Literal k) (path : Str) :
    fnmatch path (k ++ [47, 42, 42]) = some ((k ++ [47]).isPrefixOf path) := by
  unfold fnmatch
  rw [parse_subtree k hl]
  simp only [Option.map_some, Option.some.injEq]
  have h1 : k.map Pat.lit ++ [Pat.lit 47, Pat.star] = (k ++ [47]).map Pat.lit ++ [Pat.star] := by simp
  rw [h1, matchPat_lits]
  simp [matchPat, anySuffix_isEmpty]

theorem isPrefixOf_append_iff (a b s : Str) : (a ++ b).isPrefixOf s = (a.isPrefixOf s && b.isPrefixOf (s.drop a.length)) := by
  induction a generalizing s with
  | nil => simp
  | cons c a ih =>
    cases s with
    | nil => simp [List.isPrefixOf]
    | cons d t => simp [List.isPrefixOf, ih, Bool.and_assoc]

/-- the sibling case spelled out: a path under an app key `K ++ x` (x non-empty, not starting with '/') is not
selected by `K/**` -/
theorem glob_subtree_sibling (k x rest : Str) (hl : Literal k) (c : Nat) (hc : c ≠ 47) :
    fnmatch (k ++ c :: x ++ 47 :: rest) (k ++ [47, 42, 42]) = some false := by
  rw [glob_subtree k hl]
  congr 1
  rw [isPrefixOf_append_iff]
  have : (k ++ c :: x ++ 47 :: rest).drop k.length = c :: x ++ 47 :: rest := by
    rw [List.append_assoc, List.drop_left]
  rw [this]
  simp [List.isPrefixOf, Ne.symm hc]

/-- `**` (and `*`) select every path -/
theorem glob_star_all (path : Str) : fnmatch path [42, 42] = some true ∧ fnmatch path [42] = some true := by
  constructor <;> simp [fnmatch, parse, parseAux, matchPat, anySuffix_isEmpty]

/-- a pattern without metacharacters selects exactly itself -/
theorem glob_literal (k : Str) (hl : Literal k) (path : Str) : fnmatch path k = some (decide (path = k)) := by
  unfold fnmatch parse
  have := parseAux_literal_prefix k 0 [] hl
  simp only [List.append_nil, Nat.add_zero] at this
  rw [this]
  simp only [parseAux, Option.map_some, List.append_nil, Option.some.injEq]
  have := matchPat_lits k [] path
  simp only [List.append_nil] at this
  rw [this]
  simp only [matchPat]
  by_cases h : path = k
  · subst h; simp
  · simp only [h, decide_false]
    cases hp : k.isPrefixOf path with
    | false => simp
    | true =>
      simp only [Bool.true_and, List.isEmpty_iff]
      rw [List.isPrefixOf_iff_prefix] at hp
      obtain ⟨t, rfl⟩ := hp
      simp only [List.drop_left]
      cases t with
      | nil => simp at h
      | cons _ _ => simp

/-! non-vacuity / examples: "model/**" vs "model/w", "model_ema/w", "model" -/
example : fnmatch [109, 47, 119] [109, 47, 42, 42] = some true := by decide
example : fnmatch [109, 95, 101, 47, 119] [109, 47, 42, 42] = some false := by decide
example : fnmatch [109] [109, 47, 42, 42] = some false := by decide
example : fnmatch [97, 98] [91, 97, 93, 63] = some true := by decide                 -- "[a]?" matches "ab"
example : fnmatch [97] [91, 33, 97, 93] = some false := by decide                    -- "[!a]" does not match "a"
example : parse [91, 97, 45, 122, 93] = none := by decide                            -- "[a-z]": outside the model
example : fnmatch [91, 97] [91, 97] = some true := by decide                         -- unclosed '[' is a literal

end Ts.Glob

/-! ## `_calculate_replicated_entries`: replicated = glob-matched, not sharded, reported by EVERY rank -/
namespace Ts.Glob

/-- a rank's candidates when every glob is inside the model: its glob-matched, non-sharded paths, in order -/
def candOf (m : Str → Bool) (r : List (Str × Bool)) : List Str :=
  (r.filter (fun pv => m pv.1 && !pv.2)).map (·.1)

theorem sum_counts_eq_length (p : Str) (cands : List (List Str)) (hnd : ∀ c ∈ cands, c.Nodup) :
    ((cands.map (fun c => c.count p)).sum = cands.length) ↔ ∀ c ∈ cands, p ∈ c := by
  induction cands with
  | nil => simp
  | cons c cs ih =>
    have hc := hnd c (by simp)
    have hcs : ∀ c' ∈ cs, c'.Nodup := fun c' h => hnd c' (by simp [h])
    have hle : (cs.map (fun c => c.count p)).sum ≤ cs.length := by
      clear ih
      induction cs with
      | nil => simp
      | cons d ds ihd =>
        have := ihd (fun c' h => hnd c' (by simp at h ⊢; rcases h with h | h <;> simp [h])) (fun c' h => hcs c' (by simp [h]))
        have hd : d.count p ≤ 1 := List.nodup_iff_count.mp (hcs d (by simp)) p
        simp only [List.map_cons, List.sum_cons, List.length_cons]
        omega
    have h1 : c.count p ≤ 1 := List.nodup_iff_count.mp hc p
    simp only [List.map_cons, List.sum_cons, List.length_cons, List.mem_cons, forall_eq_or_imp]
    constructor
    · intro h
      have hcp : c.count p = 1 := by omega
      have hrest : (cs.map (fun c => c.count p)).sum = cs.length := by omega
      exact ⟨List.count_pos_iff.mp (by omega), (ih hcs).mp hrest⟩
    · rintro ⟨hp, hall⟩
      have hcp : c.count p = 1 := by
        have := List.count_pos_iff.mpr hp
        omega
      have := (ih hcs).mpr hall
      omega

/-- **Which paths are replicated.** With every glob inside the modelled fragment (`m` = "matches one of the globs")
and no path listed twice by a rank: a path is chosen iff rank 0 reports it as a glob-matched, non-sharded path AND
every rank does. A leaf that some rank does not have — rank 0 or any other — stays private. -/
theorem replicated_iff (m : Str → Bool) (perRank : List (List (Str × Bool))) (r0 : List (Str × Bool)) (rest)
    (hpr : perRank = r0 :: rest) (hnd : ∀ r ∈ perRank, (r.map (·.1)).Nodup) (p : Str) :
    p ∈ (candOf m r0).filter (fun q => ((perRank.map (candOf m)).map (fun c => c.count q)).sum == perRank.length)
      ↔ ∀ r ∈ perRank, p ∈ candOf m r := by
  have hndc : ∀ c ∈ perRank.map (candOf m), c.Nodup := by
    intro c hc
    rw [List.mem_map] at hc
    obtain ⟨r, hr, rfl⟩ := hc
    unfold candOf
    exact (hnd r hr).sublist ((List.filter_sublist).map _)
  have key := sum_counts_eq_length p (perRank.map (candOf m)) hndc
  simp only [List.length_map] at key
  rw [List.mem_filter]
  simp only [beq_iff_eq]
  constructor
  · rintro ⟨_, hs⟩
    intro r hr
    exact (key.mp hs) _ (List.mem_map_of_mem hr)
  · intro h
    refine ⟨h r0 (by rw [hpr]; simp), key.mpr ?_⟩
    intro c hc
    rw [List.mem_map] at hc
    obtain ⟨r, hr, rfl⟩ := hc
    exact h r hr

theorem candM_eq (globs : List Str) (m : Str → Bool) (hm : ∀ p, matchesAny globs p = some (m p)) (r : List (Str × Bool)) :
    candM globs r = some (candOf m r) := by
  unfold candM
  induction r with
  | nil => rfl
  | cons pv r ih =>
    simp only [List.foldr_cons, ih, hm pv.1, candOf, List.filter_cons]
    split <;> simp_all [candOf]

theorem allCands_eq (globs : List Str) (m : Str → Bool) (hm : ∀ p, matchesAny globs p = some (m p))
    (rs : List (List (Str × Bool))) : allCands globs rs = some (rs.map (candOf m)) := by
  unfold allCands
  induction rs with
  | nil => rfl
  | cons r rs ih => simp only [List.foldr_cons, ih, candM_eq globs m hm r, List.map_cons]

/-- the executable `replicatedPaths` is that characterisation whenever every glob is inside the model -/
theorem replicatedPaths_eq (globs : List Str) (m : Str → Bool) (hm : ∀ p, matchesAny globs p = some (m p))
    (r0 : List (Str × Bool)) (rest : List (List (Str × Bool))) :
    replicatedPaths globs (r0 :: rest) = some ((candOf m r0).filter
      (fun q => (((r0 :: rest).map (candOf m)).map (fun c => c.count q)).sum == (r0 :: rest).length)) := by
  unfold replicatedPaths
  simp only [allCands_eq globs m hm, candM_eq globs m hm]

/-! ## suffix patterns (`*` ++ literal) -/

theorem matchPat_lits_eq (k s : Str) : matchPat (k.map Pat.lit) s = decide (s = k) := by
  have := matchPat_lits k [] s
  simp only [List.append_nil] at this
  rw [this]
  simp only [matchPat]
  by_cases h : s = k
  · subst h; simp
  · simp only [h, decide_false]
    cases hp : k.isPrefixOf s with
    | false => simp
    | true =>
      simp only [Bool.true_and]
      rw [List.isPrefixOf_iff_prefix] at hp
      obtain ⟨t, rfl⟩ := hp
      cases t with
      | nil => simp at h
      | cons a t => simp

theorem anySuffix_eq_suffix (k : Str) : ∀ s : Str, anySuffix (fun t => decide (t = k)) s = decide (k <:+ s)
  | [] => by
    simp only [anySuffix, List.suffix_nil]
    by_cases h : k = [] <;> simp [h, eq_comm]
  | c :: t => by
    simp only [anySuffix, anySuffix_eq_suffix k t, List.suffix_cons_iff]
    by_cases h1 : c :: t = k <;> by_cases h2 : k <:+ t <;> simp [h1, h2, eq_comm]
    · exact fun h => h1 h.symm

theorem parse_star_lits (k : Str) (hl : Literal k) : parse (42 :: k) = some (Pat.star :: k.map Pat.lit) := by
  unfold parse
  simp only [List.length_cons, parseAux]
  have := parseAux_literal_prefix k 0 [] hl
  simp only [List.append_nil, Nat.add_zero] at this
  rw [this]
  cases k with
  | nil => simp [parseAux]
  | cons c k => simp [parseAux]

/-- **`*suffix` selects exactly the paths that end with the suffix** (e.g. `**/bias`, `*.weight`): for a suffix
without glob metacharacters, `fnmatch(path, "*" + suffix)` holds iff `path` ends with it; `*` crosses `/`. -/
theorem glob_suffix (k : Str) (hl : Literal k) (path : Str) :
    fnmatch path (42 :: k) = some (decide (k <:+ path)) := by
  unfold fnmatch
  rw [parse_star_lits k hl]
  simp only [Option.map_some, Option.some.injEq, matchPat]
  have : matchPat (k.map Pat.lit) = fun t => decide (t = k) := funext (matchPat_lits_eq k)
  rw [this, anySuffix_eq_suffix]

example : fnmatch [109, 47, 98] [42, 47, 98] = some true := by decide
example : fnmatch [109, 47, 98, 50] [42, 47, 98] = some false := by decide

end Ts.Glob
