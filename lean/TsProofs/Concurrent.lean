import TsModel.Concurrent
import TsProofs.Properties.C13
/-! Two pending async snapshots with different barrier prefixes do not interfere. -/
namespace Ts.Commit
open Ts.Barrier

/-- two states of one attempt that differ at most in store entries of OTHER prefixes -/
structure Agree (p : Nat) (s t : AState) : Prop where
  pc : s.pc = t.pc
  ws : s.ws = t.ws
  mst : s.mst = t.mst
  hist : s.hist = t.hist
  st : ∀ r, s.store p r = t.store p r

theorem Agree.refl (p : Nat) (s : AState) : Agree p s s := ⟨rfl, rfl, rfl, rfl, fun _ => rfl⟩

theorem hasAll_congr (s t : Store) (p : Nat) (ks : List Nat) (h : ∀ r, s p r = t p r) : s.hasAll p ks = t.hasAll p ks := by
  unfold Store.hasAll
  induction ks with
  | nil => rfl
  | cons k ks ih => simp only [List.all_cons, h k, ih]

theorem set_same (s t : Store) (p r : Nat) (v : Val) (h : ∀ r', s p r' = t p r') :
    ∀ r', (s.set p r v) p r' = (t.set p r v) p r' := by
  intro r'
  simp only [Store.set]
  split
  · rfl
  · exact h r'

theorem set_other (s : Store) (p r : Nat) (v : Val) (q : Nat) (hq : q ≠ p) : ∀ r', (s.set p r v) q r' = s q r' := by
  intro r'
  simp [Store.set, hq]

/-- the control step of an attempt reads and writes the store only under its own prefix -/
theorem actl_frame (cfg : Cfg) (s t : AState) (r : Nat) (h : Agree cfg.pfx s t) :
    (actl? cfg s r = none ∧ actl? cfg t r = none) ∨
    (∃ s' t', actl? cfg s r = some s' ∧ actl? cfg t r = some t' ∧ Agree cfg.pfx s' t' ∧
      (∀ q, q ≠ cfg.pfx → ∀ r', s'.store q r' = s.store q r') ∧ (∀ q, q ≠ cfg.pfx → ∀ r', t'.store q r' = t.store q r')) := by
  obtain ⟨hpc, hws, hmst, hhist, hst⟩ := h
  have hpp : s.store.peersPresent cfg.pfx cfg.n = t.store.peersPresent cfg.pfx cfg.n :=
    hasAll_congr _ _ _ _ hst
  unfold actl?
  rw [← hpc, ← hws, ← hhist, ← hpp, ← hst 0]
  cases hc : s.pc r with
  | io =>
    simp only
    split
    · exact Or.inr ⟨_, _, rfl, rfl, ⟨rfl, rfl, hmst, rfl, hst⟩, fun _ _ _ => rfl, fun _ _ _ => rfl⟩
    · split
      · exact Or.inr ⟨_, _, rfl, rfl, ⟨rfl, rfl, hmst, rfl, hst⟩, fun _ _ _ => rfl, fun _ _ _ => rfl⟩
      · exact Or.inl ⟨rfl, rfl⟩
  | arrive =>
    simp only
    split
    · split
      · exact Or.inr ⟨_, _, rfl, rfl, ⟨rfl, rfl, hmst, rfl, hst⟩, fun _ _ _ => rfl, fun _ _ _ => rfl⟩
      · exact Or.inl ⟨rfl, rfl⟩
    · exact Or.inr ⟨_, _, rfl, rfl, ⟨rfl, rfl, hmst, rfl, set_same _ _ _ _ _ hst⟩,
        fun q hq => set_other _ _ _ _ q hq, fun q hq => set_other _ _ _ _ q hq⟩
  | arriveGet k =>
    simp only
    rw [← hst k]
    cases s.store cfg.pfx k with
    | none => exact Or.inl ⟨rfl, rfl⟩
    | some v =>
      cases v with
      | empty => exact Or.inr ⟨_, _, rfl, rfl, ⟨rfl, rfl, hmst, rfl, hst⟩, fun _ _ _ => rfl, fun _ _ _ => rfl⟩
      | err => exact Or.inr ⟨_, _, rfl, rfl, ⟨rfl, rfl, hmst, rfl, hst⟩, fun _ _ _ => rfl, fun _ _ _ => rfl⟩
  | arriveErr =>
    exact Or.inr ⟨_, _, rfl, rfl, ⟨rfl, rfl, hmst, rfl, set_same _ _ _ _ _ hst⟩,
      fun q hq => set_other _ _ _ _ q hq, fun q hq => set_other _ _ _ _ q hq⟩
  | mBegin =>
    exact Or.inr ⟨_, _, rfl, rfl, ⟨rfl, rfl, rfl, rfl, hst⟩, fun _ _ _ => rfl, fun _ _ _ => rfl⟩
  | mEnd =>
    simp only
    split
    · exact Or.inr ⟨_, _, rfl, rfl, ⟨rfl, rfl, rfl, rfl, hst⟩, fun _ _ _ => rfl, fun _ _ _ => rfl⟩
    · exact Or.inr ⟨_, _, rfl, rfl, ⟨rfl, rfl, rfl, rfl, hst⟩, fun _ _ _ => rfl, fun _ _ _ => rfl⟩
  | depart =>
    simp only
    split
    · exact Or.inr ⟨_, _, rfl, rfl, ⟨rfl, rfl, hmst, rfl, set_same _ _ _ _ _ hst⟩,
        fun q hq => set_other _ _ _ _ q hq, fun q hq => set_other _ _ _ _ q hq⟩
    · split
      · exact Or.inr ⟨_, _, rfl, rfl, ⟨rfl, rfl, hmst, rfl, hst⟩, fun _ _ _ => rfl, fun _ _ _ => rfl⟩
      · exact Or.inl ⟨rfl, rfl⟩
  | departGet =>
    simp only
    cases s.store cfg.pfx 0 with
    | none => exact Or.inl ⟨rfl, rfl⟩
    | some v =>
      cases v with
      | empty => exact Or.inr ⟨_, _, rfl, rfl, ⟨rfl, rfl, hmst, rfl, hst⟩, fun _ _ _ => rfl, fun _ _ _ => rfl⟩
      | err => exact Or.inr ⟨_, _, rfl, rfl, ⟨rfl, rfl, hmst, rfl, hst⟩, fun _ _ _ => rfl, fun _ _ _ => rfl⟩
  | exc =>
    exact Or.inr ⟨_, _, rfl, rfl, ⟨rfl, rfl, hmst, rfl, set_same _ _ _ _ _ hst⟩,
      fun q hq => set_other _ _ _ _ q hq, fun q hq => set_other _ _ _ _ q hq⟩
  | fin b =>
    cases b with
    | true => exact Or.inr ⟨_, _, rfl, rfl, ⟨rfl, rfl, hmst, rfl, hst⟩, fun _ _ _ => rfl, fun _ _ _ => rfl⟩
    | false => exact Or.inr ⟨_, _, rfl, rfl, ⟨rfl, rfl, hmst, rfl, hst⟩, fun _ _ _ => rfl, fun _ _ _ => rfl⟩
  | done b => exact Or.inl ⟨rfl, rfl⟩

/-- the same for every label (payload write events do not touch the store at all) -/
theorem astep_frame (cfg : Cfg) (s t : AState) (l : Lbl) (h : Agree cfg.pfx s t) :
    (astep? cfg s l = none ∧ astep? cfg t l = none) ∨
    (∃ s' t', astep? cfg s l = some s' ∧ astep? cfg t l = some t' ∧ Agree cfg.pfx s' t' ∧
      (∀ q, q ≠ cfg.pfx → ∀ r', s'.store q r' = s.store q r') ∧ (∀ q, q ≠ cfg.pfx → ∀ r', t'.store q r' = t.store q r')) := by
  unfold astep?
  by_cases hr : l.r < cfg.n
  · simp only [hr, if_true]
    cases ha : l.a with
    | ctl => exact actl_frame cfg s t l.r h
    | wBegin w =>
      simp only
      rw [← h.ws]
      cases wstep? cfg s.ws l.r (.wBegin w) with
      | none => exact Or.inl ⟨rfl, rfl⟩
      | some x => exact Or.inr ⟨_, _, rfl, rfl, ⟨h.pc, rfl, h.mst, by simp [h.hist], h.st⟩, fun _ _ _ => rfl, fun _ _ _ => rfl⟩
    | wEnd w =>
      simp only
      rw [← h.ws]
      cases wstep? cfg s.ws l.r (.wEnd w) with
      | none => exact Or.inl ⟨rfl, rfl⟩
      | some x => exact Or.inr ⟨_, _, rfl, rfl, ⟨h.pc, rfl, h.mst, by simp [h.hist], h.st⟩, fun _ _ _ => rfl, fun _ _ _ => rfl⟩
  · simp [hr]

/-- **Two pending snapshots do not interfere.** Let two attempts with different barrier prefixes run interleaved in
any way over the shared store. Then each of them goes through exactly the run it would have had alone with its own
labels: same program points, same write states, same history of events (hence the same outcomes of `wait()`), and the
same store contents under its own prefix. Every theorem about a single attempt (C02, C03, C13) therefore holds for
each of several overlapping pending snapshots. -/
theorem concurrent_independent (ca cb : Cfg) (hne : ca.pfx ≠ cb.pfx) (st : Store) (sched : List (Bool × Lbl)) :
    Agree ca.pfx (crun ca cb (CState.init st) sched).a (arun ca (AState.init st) (proj true sched)) ∧
    Agree cb.pfx (crun ca cb (CState.init st) sched).b (arun cb (AState.init st) (proj false sched)) := by
  have key : ∀ (sched : List (Bool × Lbl)) (s : CState) (ra rb : AState),
      Agree ca.pfx s.a ra → Agree cb.pfx s.b rb → s.a.store = s.b.store →
      Agree ca.pfx (crun ca cb s sched).a (arun ca ra (proj true sched)) ∧
      Agree cb.pfx (crun ca cb s sched).b (arun cb rb (proj false sched)) := by
    intro sched
    induction sched with
    | nil => intro s ra rb h1 h2 _; exact ⟨h1, h2⟩
    | cons x xs ih =>
      intro s ra rb h1 h2 hsh
      obtain ⟨w, l⟩ := x
      cases w with
      | true =>
        have hp1 : proj true ((true, l) :: xs) = l :: proj true xs := by simp [proj]
        have hp2 : proj false ((true, l) :: xs) = proj false xs := by simp [proj]
        rw [hp1, hp2]
        simp only [crun, arun, List.foldl_cons, cstep, if_true]
        rcases astep_frame ca s.a ra l h1 with ⟨hn1, hn2⟩ | ⟨a', r', hs1, hs2, hag, hoth, _⟩
        · rw [hn1, hn2]
          exact ih s ra rb h1 h2 hsh
        · rw [hs1, hs2]
          refine ih ⟨a', { s.b with store := a'.store }⟩ r' rb hag ?_ rfl
          refine ⟨h2.pc, h2.ws, h2.mst, h2.hist, ?_⟩
          intro r
          simp only
          rw [hoth cb.pfx (Ne.symm hne) r, hsh]
          exact h2.st r
      | false =>
        have hp1 : proj true ((false, l) :: xs) = proj true xs := by simp [proj]
        have hp2 : proj false ((false, l) :: xs) = l :: proj false xs := by simp [proj]
        rw [hp1, hp2]
        simp only [crun, arun, List.foldl_cons, cstep, Bool.false_eq_true, if_false]
        rcases astep_frame cb s.b rb l h2 with ⟨hn1, hn2⟩ | ⟨b', r', hs1, hs2, hag, hoth, _⟩
        · rw [hn1, hn2]
          exact ih s ra rb h1 h2 hsh
        · rw [hs1, hs2]
          refine ih ⟨{ s.a with store := b'.store }, b'⟩ ra r' ?_ hag rfl
          refine ⟨h1.pc, h1.ws, h1.mst, h1.hist, ?_⟩
          intro r
          simp only
          rw [hoth ca.pfx hne r, ← hsh]
          exact h1.st r
  exact key sched (CState.init st) _ _ (Agree.refl _ _) (Agree.refl _ _) rfl

end Ts.Commit
