import TsModel.Flatten
import TsProofs.Path
/-! Helper lemmas for the flatten/inflate model (C15). -/
namespace Ts.Flatten
open Ts.Path

/-! ## Association lists with Python dict semantics -/

section Assoc
variable {κ α : Type} [DecidableEq κ]

theorem setKey_of_not_mem (a : List (κ × α)) (k : κ) (v : α) (h : k ∉ a.map (·.1)) :
    setKey a k v = a ++ [(k, v)] := by
  induction a with
  | nil => rfl
  | cons x a ih =>
    obtain ⟨k', v'⟩ := x
    have hne : k' ≠ k := fun e => h (by simp [e])
    have hk : k ∉ a.map (·.1) := fun e => h (by simp [e])
    simp [setKey, hne, ih hk]

theorem update_eq_append (a b : List (κ × α)) (h : ((a ++ b).map (·.1)).Nodup) :
    update a b = a ++ b := by
  induction b generalizing a with
  | nil => simp [update]
  | cons x b ih =>
    obtain ⟨k, v⟩ := x
    have hk : k ∉ a.map (·.1) := by
      intro hm
      simp only [List.map_append, List.map_cons] at h
      rw [List.nodup_append] at h
      exact h.2.2 k hm k (by simp) rfl
    have : update a ((k, v) :: b) = update (setKey a k v) b := by simp [update]
    rw [this, setKey_of_not_mem a k v hk, ih]
    · simp
    · simpa using h

theorem lookup_of_mem (l : List (κ × α)) (k : κ) (v : α) (hm : (k, v) ∈ l)
    (hn : (l.map (·.1)).Nodup) : lookup l k = some v := by
  induction l with
  | nil => simp at hm
  | cons x l ih =>
    obtain ⟨k', v'⟩ := x
    simp only [List.map_cons, List.nodup_cons] at hn
    rcases List.mem_cons.1 hm with h | h
    · cases h; simp [lookup]
    · have hne : k' ≠ k := by
        intro e; subst e
        exact hn.1 (List.mem_map.2 ⟨(k', v), h, rfl⟩)
      simp [lookup, hne, ih h hn.2]

theorem lookup_none_of_not_mem (l : List (κ × α)) (k : κ) (h : k ∉ l.map (·.1)) :
    lookup l k = none := by
  induction l with
  | nil => rfl
  | cons x l ih =>
    obtain ⟨k', v'⟩ := x
    have hne : k' ≠ k := fun e => h (by simp [e])
    have hk : k ∉ l.map (·.1) := fun e => h (by simp [e])
    simp [lookup, hne, ih hk]

theorem mem_of_lookup (l : List (κ × α)) (k : κ) (v : α) (h : lookup l k = some v) : (k, v) ∈ l := by
  induction l with
  | nil => simp [lookup] at h
  | cons x l ih =>
    obtain ⟨k', v'⟩ := x
    by_cases e : k' = k
    · subst e; simp [lookup] at h; subst h; simp
    · simp [lookup, e] at h; exact List.mem_cons_of_mem _ (ih h)

theorem mem_setKey (a : List (κ × α)) (k : κ) (v : α) (x : κ × α) (hx : x ∈ setKey a k v) :
    x ∈ a ∨ x = (k, v) := by
  induction a with
  | nil => simp [setKey] at hx; exact Or.inr hx
  | cons y a ih =>
    obtain ⟨k', v'⟩ := y
    by_cases e : k' = k
    · subst e
      simp [setKey] at hx
      rcases hx with h | h
      · exact Or.inr h
      · exact Or.inl (List.mem_cons_of_mem _ h)
    · simp [setKey, e] at hx
      rcases hx with h | h
      · exact Or.inl (by simp [h])
      · rcases ih h with h' | h'
        · exact Or.inl (List.mem_cons_of_mem _ h')
        · exact Or.inr h'

end Assoc

/-! ## Keys -/

theorem dedupStr_subset (l : List Str) : ∀ s, s ∈ dedupStr l ↔ s ∈ l := by
  induction l with
  | nil => simp [dedupStr]
  | cons a l ih =>
    intro s
    simp only [dedupStr]
    split
    · rename_i h
      have ha : a ∈ l := (ih a).1 (by simpa using h)
      rw [ih s]
      constructor
      · exact List.mem_cons_of_mem _
      · intro hs
        rcases List.mem_cons.1 hs with e | e
        · subst e; exact ha
        · exact e
    · simp [ih s]

theorem dedupStr_length_le (l : List Str) : (dedupStr l).length ≤ l.length := by
  induction l with
  | nil => simp [dedupStr]
  | cons a l ih =>
    simp only [dedupStr]
    split
    · simp; omega
    · simp; omega

theorem dedupStr_length_eq_iff (l : List Str) : (dedupStr l).length = l.length ↔ l.Nodup := by
  induction l with
  | nil => simp [dedupStr]
  | cons a l ih =>
    have hle := dedupStr_length_le l
    simp only [dedupStr, List.nodup_cons]
    split
    · rename_i h
      have ha : a ∈ l := (dedupStr_subset l a).1 (by simpa using h)
      constructor
      · intro hl; simp at hl; omega
      · intro hn; exact absurd ha hn.1
    · rename_i h
      have ha : a ∉ l := fun hm => h (by simpa using (dedupStr_subset l a).2 hm)
      simp only [List.length_cons, Nat.add_right_cancel_iff, ih]
      exact ⟨fun hn => ⟨ha, hn⟩, fun hn => hn.2⟩

/-- `_should_flatten_dict` holds exactly when every key is a `str`/`int` and the `str()` forms
of the keys are pairwise distinct. -/
theorem shouldFlatten_iff (keys : List Key) :
    shouldFlatten keys = true ↔
      (∀ k ∈ keys, k.isStrOrInt = true) ∧ (keys.map Key.toStr).Nodup := by
  have hle := dedupStr_length_le (keys.map Key.toStr)
  have hiff := dedupStr_length_eq_iff (keys.map Key.toStr)
  simp only [List.length_map] at hle hiff
  unfold shouldFlatten
  by_cases hall : keys.all Key.isStrOrInt = true
  · have hall' : ∀ k ∈ keys, k.isStrOrInt = true := by simpa using hall
    simp only [hall, Bool.not_true, Bool.false_eq_true, if_false]
    by_cases hlt : (dedupStr (keys.map Key.toStr)).length < keys.length
    · simp only [hlt, if_true, Bool.false_eq_true, false_iff]
      intro h
      have := hiff.2 h.2
      omega
    · simp only [hlt, if_false, true_iff]
      exact ⟨hall', hiff.1 (by omega)⟩
  · have : ¬ ∀ k ∈ keys, k.isStrOrInt = true := by simpa using hall
    simp [hall, this]

theorem distinctKeys_iff (keys : List Key) :
    distinctKeys keys = true ↔ keys.Pairwise (fun a b => a.pyEq b = false) := by
  induction keys with
  | nil => simp [distinctKeys]
  | cons k ks ih =>
    simp [distinctKeys, ih, List.pairwise_cons]

theorem dedupKeys_of_distinct (keys : List Key) (h : distinctKeys keys = true) :
    dedupKeys keys = keys := by
  induction keys with
  | nil => rfl
  | cons k ks ih =>
    simp only [distinctKeys, Bool.and_eq_true, List.all_eq_true] at h
    simp only [dedupKeys, ih h.2]
    congr 1
    rw [List.filter_eq_self]
    exact h.1

/-! ## Component-level view of `flatten`

`flatC q t` lists, in depth-first order, every node of `t` that `_flatten` visits, with its path as
a list of components (`q` = components of the prefix).  `flattenT` produces exactly the container
nodes (manifest) and the leaf nodes (leaf map) of this list with the components joined by `/`. -/

inductive Node where
  | cont (e : Entry)
  | leaf (t : Tree)

abbrev CPath := List Str
abbrev Items := List (CPath × Node)

mutual
def flatC (q : CPath) : Tree → Items
  | .leaf i => [(q, .leaf (.leaf i))]
  | .list xs => (q, .cont (CKind.list, [])) :: flatCL q 0 xs
  | .dict k kvs =>
    if shouldFlatten (kvs.map (·.1)) then (q, .cont (k.toCKind, kvs.map (·.1))) :: flatCKV q kvs
    else [(q, .leaf (.dict k kvs))]
def flatCL (q : CPath) : Nat → List Tree → Items
  | _, [] => []
  | i, x :: xs => flatC (q ++ [natStr i]) x ++ flatCL q (i + 1) xs
def flatCKV (q : CPath) : List (Key × Tree) → Items
  | [] => []
  | kv :: r => flatC (q ++ [encode kv.1.toStr]) kv.2 ++ flatCKV q r
end

def contOf (x : CPath × Node) : Option (Str × Entry) :=
  match x.2 with
  | .cont e => some (joinSlash x.1, e)
  | .leaf _ => none

def leafOf (x : CPath × Node) : Option (Str × Tree) :=
  match x.2 with
  | .leaf t => some (joinSlash x.1, t)
  | .cont _ => none

@[simp] theorem contOf_cont (c : CPath) (e : Entry) : contOf (c, .cont e) = some (joinSlash c, e) := rfl
@[simp] theorem contOf_leaf (c : CPath) (t : Tree) : contOf (c, .leaf t) = none := rfl
@[simp] theorem leafOf_leaf (c : CPath) (t : Tree) : leafOf (c, .leaf t) = some (joinSlash c, t) := rfl
@[simp] theorem leafOf_cont (c : CPath) (e : Entry) : leafOf (c, .cont e) = none := rfl

def conts (D : Items) : Manifest := D.filterMap contOf
def leaves (D : Items) : LeafMap := D.filterMap leafOf

@[simp] theorem conts_nil : conts [] = [] := rfl
@[simp] theorem leaves_nil : leaves [] = [] := rfl
@[simp] theorem conts_cons_cont (c : CPath) (e : Entry) (D : Items) :
    conts ((c, .cont e) :: D) = (joinSlash c, e) :: conts D := by
  simp [conts, List.filterMap_cons]
@[simp] theorem conts_cons_leaf (c : CPath) (t : Tree) (D : Items) :
    conts ((c, .leaf t) :: D) = conts D := by
  simp [conts, List.filterMap_cons]
@[simp] theorem leaves_cons_leaf (c : CPath) (t : Tree) (D : Items) :
    leaves ((c, .leaf t) :: D) = (joinSlash c, t) :: leaves D := by
  simp [leaves, List.filterMap_cons]
@[simp] theorem leaves_cons_cont (c : CPath) (e : Entry) (D : Items) :
    leaves ((c, .cont e) :: D) = leaves D := by
  simp [leaves, List.filterMap_cons]

theorem conts_append (A B : Items) : conts (A ++ B) = conts A ++ conts B := by
  simp [conts, List.filterMap_append]
theorem leaves_append (A B : Items) : leaves (A ++ B) = leaves A ++ leaves B := by
  simp [leaves, List.filterMap_append]

/-- Paths are pairwise distinct, non-empty and made of `/`-free components. -/
def PathsOK (D : Items) : Prop :=
  (D.map (·.1)).Nodup ∧ ∀ x ∈ D, x.1 ≠ [] ∧ SlashFree x.1

theorem PathsOK.sublist {A B : Items} (h : A.Sublist B) (hB : PathsOK B) : PathsOK A :=
  ⟨(h.map _).nodup hB.1, fun x hx => hB.2 x (h.subset hx)⟩

theorem PathsOK.strPaths_nodup {D : Items} (h : PathsOK D) :
    (D.map (fun x => joinSlash x.1)).Nodup := by
  have h1 : D.Pairwise (fun a b => a.1 ≠ b.1) := by
    have := h.1
    rwa [List.Nodup, List.pairwise_map] at this
  rw [List.Nodup, List.pairwise_map]
  refine h1.imp_of_mem ?_
  intro a b ha hb hne e
  exact hne (joinSlash_injective (h.2 a ha).1 (h.2 b hb).1 (h.2 a ha).2 (h.2 b hb).2 e)

theorem conts_keys_sublist (D : Items) :
    ((conts D).map (·.1)).Sublist (D.map (fun x => joinSlash x.1)) := by
  induction D with
  | nil => simp [conts]
  | cons x D ih =>
    obtain ⟨c, nd⟩ := x
    cases nd with
    | cont e => simpa using ih
    | leaf t =>
      rw [conts_cons_leaf]
      exact List.Sublist.cons _ ih

theorem leaves_keys_sublist (D : Items) :
    ((leaves D).map (·.1)).Sublist (D.map (fun x => joinSlash x.1)) := by
  induction D with
  | nil => simp [leaves]
  | cons x D ih =>
    obtain ⟨c, nd⟩ := x
    cases nd with
    | leaf e => simpa using ih
    | cont t =>
      rw [leaves_cons_cont]
      exact List.Sublist.cons _ ih

theorem PathsOK.conts_nodup {D : Items} (h : PathsOK D) : ((conts D).map (·.1)).Nodup :=
  (conts_keys_sublist D).nodup h.strPaths_nodup
theorem PathsOK.leaves_nodup {D : Items} (h : PathsOK D) : ((leaves D).map (·.1)).Nodup :=
  (leaves_keys_sublist D).nodup h.strPaths_nodup

theorem update_conts (A B : Items) (h : PathsOK (A ++ B)) :
    update (conts A) (conts B) = conts (A ++ B) := by
  rw [conts_append]
  apply update_eq_append
  rw [← conts_append]
  exact h.conts_nodup

theorem update_leaves (A B : Items) (h : PathsOK (A ++ B)) :
    update (leaves A) (leaves B) = leaves (A ++ B) := by
  rw [leaves_append]
  apply update_eq_append
  rw [← leaves_append]
  exact h.leaves_nodup

mutual
theorem flattenT_eq (t : Tree) (q : CPath) (hq : q ≠ []) (hok : PathsOK (flatC q t)) :
    flattenT (joinSlash q) t = (conts (flatC q t), leaves (flatC q t)) := by
  match t with
  | .leaf i => simp [flattenT, flatC]
  | .list xs =>
    have h := flattenL_eq xs q 0 [(q, .cont (CKind.list, []))] hq (by simpa [flatC] using hok)
    simpa [flattenT, flatC] using h
  | .dict k kvs =>
    by_cases hs : shouldFlatten (kvs.map (·.1)) = true
    · have h := flattenKV_eq kvs q [(q, .cont (k.toCKind, kvs.map (·.1)))] hq
        (by simpa [flatC, hs] using hok)
      simpa [flattenT, flatC, hs] using h
    · simp [flattenT, flatC, hs]
theorem flattenL_eq (xs : List Tree) (q : CPath) (i : Nat) (A : Items) (hq : q ≠ [])
    (hok : PathsOK (A ++ flatCL q i xs)) :
    flattenL (joinSlash q) i xs (conts A, leaves A)
      = (conts (A ++ flatCL q i xs), leaves (A ++ flatCL q i xs)) := by
  match xs with
  | [] => simp [flattenL, flatCL]
  | x :: xs =>
    have hok' : PathsOK ((A ++ flatC (q ++ [natStr i]) x) ++ flatCL q (i + 1) xs) := by
      simpa [flatCL] using hok
    have hB : PathsOK (flatC (q ++ [natStr i]) x) :=
      PathsOK.sublist (by simp [flatCL]) hok
    have hAB : PathsOK (A ++ flatC (q ++ [natStr i]) x) :=
      PathsOK.sublist (List.sublist_append_left _ _) hok'
    have h1 := flattenT_eq x (q ++ [natStr i]) (by simp) hB
    rw [joinSlash_snoc q hq] at h1
    simp only [flattenL, h1, update_conts _ _ hAB, update_leaves _ _ hAB]
    rw [flattenL_eq xs q (i + 1) _ hq hok']
    simp [flatCL]
theorem flattenKV_eq (kvs : List (Key × Tree)) (q : CPath) (A : Items) (hq : q ≠ [])
    (hok : PathsOK (A ++ flatCKV q kvs)) :
    flattenKV (joinSlash q) kvs (conts A, leaves A)
      = (conts (A ++ flatCKV q kvs), leaves (A ++ flatCKV q kvs)) := by
  match kvs with
  | [] => simp [flattenKV, flatCKV]
  | kv :: kvs =>
    have hok' : PathsOK ((A ++ flatC (q ++ [encode kv.1.toStr]) kv.2) ++ flatCKV q kvs) := by
      simpa [flatCKV] using hok
    have hB : PathsOK (flatC (q ++ [encode kv.1.toStr]) kv.2) :=
      PathsOK.sublist (by simp [flatCKV]) hok
    have hAB : PathsOK (A ++ flatC (q ++ [encode kv.1.toStr]) kv.2) :=
      PathsOK.sublist (List.sublist_append_left _ _) hok'
    have h1 := flattenT_eq kv.2 (q ++ [encode kv.1.toStr]) (by simp) hB
    rw [joinSlash_snoc q hq] at h1
    simp only [flattenKV, h1, update_conts _ _ hAB, update_leaves _ _ hAB]
    rw [flattenKV_eq kvs q _ hq hok']
    simp [flatCKV]
end

/-! ## Structural induction on trees -/

mutual
theorem Tree.induct' {P : Tree → Prop} (hleaf : ∀ i, P (.leaf i))
    (hlist : ∀ xs, (∀ x ∈ xs, P x) → P (.list xs))
    (hdict : ∀ k kvs, (∀ kv ∈ kvs, P kv.2) → P (.dict k kvs)) : ∀ t, P t
  | .leaf i => hleaf i
  | .list xs => hlist xs (Tree.induct'_L hleaf hlist hdict xs)
  | .dict k kvs => hdict k kvs (Tree.induct'_KV hleaf hlist hdict kvs)
theorem Tree.induct'_L {P : Tree → Prop} (hleaf : ∀ i, P (.leaf i))
    (hlist : ∀ xs, (∀ x ∈ xs, P x) → P (.list xs))
    (hdict : ∀ k kvs, (∀ kv ∈ kvs, P kv.2) → P (.dict k kvs)) : (xs : List Tree) → ∀ x ∈ xs, P x
  | [] => fun _ h => by simp at h
  | y :: ys => fun x h => by
    have h1 := Tree.induct' hleaf hlist hdict y
    have h2 := Tree.induct'_L hleaf hlist hdict ys
    rcases List.mem_cons.1 h with e | e
    · subst e; exact h1
    · exact h2 x e
theorem Tree.induct'_KV {P : Tree → Prop} (hleaf : ∀ i, P (.leaf i))
    (hlist : ∀ xs, (∀ x ∈ xs, P x) → P (.list xs))
    (hdict : ∀ k kvs, (∀ kv ∈ kvs, P kv.2) → P (.dict k kvs)) :
    (kvs : List (Key × Tree)) → ∀ kv ∈ kvs, P kv.2
  | [] => fun _ h => by simp at h
  | (k, v) :: ys => fun x h => by
    have h1 := Tree.induct' hleaf hlist hdict v
    have h2 := Tree.induct'_KV hleaf hlist hdict ys
    rcases List.mem_cons.1 h with e | e
    · subst e; exact h1
    · exact h2 x e
end

/-! ## Shape of `flatC` -/

/-- What `_flatten` records for the root of `t`: a container entry or the object itself. -/
def nodeOf : Tree → Node
  | .leaf i => .leaf (.leaf i)
  | .list _ => .cont (CKind.list, [])
  | .dict k kvs =>
    if shouldFlatten (kvs.map (·.1)) then .cont (k.toCKind, kvs.map (·.1)) else .leaf (.dict k kvs)

/-- The nodes strictly below the root. -/
def flatRest (q : CPath) : Tree → Items
  | .leaf _ => []
  | .list xs => flatCL q 0 xs
  | .dict _ kvs => if shouldFlatten (kvs.map (·.1)) then flatCKV q kvs else []

theorem flatC_eq_cons (q : CPath) (t : Tree) : flatC q t = (q, nodeOf t) :: flatRest q t := by
  cases t with
  | leaf i => simp [flatC, nodeOf, flatRest]
  | list xs => simp [flatC, nodeOf, flatRest]
  | dict k kvs =>
    by_cases hs : shouldFlatten (kvs.map (·.1)) = true <;> simp [flatC, nodeOf, flatRest, hs]

theorem mem_flatCL (q : CPath) (x : CPath × Node) (xs : List Tree) (i : Nat) :
    x ∈ flatCL q i xs ↔ ∃ j y, xs[j]? = some y ∧ x ∈ flatC (q ++ [natStr (i + j)]) y := by
  induction xs generalizing i with
  | nil => simp [flatCL]
  | cons a xs ih =>
    simp only [flatCL, List.mem_append, ih]
    constructor
    · rintro (h | ⟨j, y, hj, hx⟩)
      · exact ⟨0, a, by simp, by simpa using h⟩
      · exact ⟨j + 1, y, by simpa using hj, by
          have : i + 1 + j = i + (j + 1) := by omega
          rwa [this] at hx⟩
    · rintro ⟨j, y, hj, hx⟩
      cases j with
      | zero =>
        simp at hj; subst hj
        exact Or.inl (by simpa using hx)
      | succ j =>
        refine Or.inr ⟨j, y, by simpa using hj, ?_⟩
        have : i + 1 + j = i + (j + 1) := by omega
        rwa [this]

theorem mem_flatCKV (q : CPath) (x : CPath × Node) (kvs : List (Key × Tree)) :
    x ∈ flatCKV q kvs ↔ ∃ kv ∈ kvs, x ∈ flatC (q ++ [encode kv.1.toStr]) kv.2 := by
  induction kvs with
  | nil => simp [flatCKV]
  | cons a kvs ih => simp [flatCKV, List.mem_append, ih]

/-- Every path below `q` extends `q`. -/
theorem flatC_prefix (t : Tree) : ∀ (q : CPath) (x : CPath × Node), x ∈ flatC q t → ∃ r, x.1 = q ++ r := by
  induction t using Tree.induct' with
  | hleaf i =>
    intro q x hx; simp [flatC] at hx; subst hx; exact ⟨[], by simp⟩
  | hlist xs ih =>
    intro q x hx
    simp only [flatC, List.mem_cons] at hx
    rcases hx with h | h
    · subst h; exact ⟨[], by simp⟩
    · obtain ⟨j, y, hj, hx⟩ := (mem_flatCL q x xs 0).1 h
      obtain ⟨r, hr⟩ := ih y (List.mem_of_getElem? hj) _ x hx
      exact ⟨natStr (0 + j) :: r, by simp [hr]⟩
  | hdict k kvs ih =>
    intro q x hx
    by_cases hs : shouldFlatten (kvs.map (·.1)) = true
    · simp only [flatC, hs, if_true, List.mem_cons] at hx
      rcases hx with h | h
      · subst h; exact ⟨[], by simp⟩
      · obtain ⟨kv, hkv, hx⟩ := (mem_flatCKV q x kvs).1 h
        obtain ⟨r, hr⟩ := ih kv hkv _ x hx
        exact ⟨encode kv.1.toStr :: r, by simp [hr]⟩
    · simp [flatC, hs] at hx; subst hx; exact ⟨[], by simp⟩

theorem flatRest_strict (t : Tree) (q : CPath) (x : CPath × Node) (hx : x ∈ flatRest q t) :
    ∃ c r, x.1 = q ++ c :: r := by
  cases t with
  | leaf i => simp [flatRest] at hx
  | list xs =>
    obtain ⟨j, y, _, hx⟩ := (mem_flatCL q x xs 0).1 hx
    obtain ⟨r, hr⟩ := flatC_prefix y _ x hx
    exact ⟨natStr (0 + j), r, by simp [hr]⟩
  | dict k kvs =>
    by_cases hs : shouldFlatten (kvs.map (·.1)) = true
    · simp only [flatRest, hs, if_true] at hx
      obtain ⟨kv, _, hx⟩ := (mem_flatCKV q x kvs).1 hx
      obtain ⟨r, hr⟩ := flatC_prefix kv.2 _ x hx
      exact ⟨encode kv.1.toStr, r, by simp [hr]⟩
    · simp [flatRest, hs] at hx

theorem flatC_slashFree (t : Tree) :
    ∀ (q : CPath) (x : CPath × Node), SlashFree q → x ∈ flatC q t → SlashFree x.1 := by
  induction t using Tree.induct' with
  | hleaf i =>
    intro q x hq hx; simp [flatC] at hx; subst hx; exact hq
  | hlist xs ih =>
    intro q x hq hx
    simp only [flatC, List.mem_cons] at hx
    rcases hx with h | h
    · subst h; exact hq
    · obtain ⟨j, y, hj, hx⟩ := (mem_flatCL q x xs 0).1 h
      exact ih y (List.mem_of_getElem? hj) _ x
        (hq.append (SlashFree.singleton (natStr_no_slash _))) hx
  | hdict k kvs ih =>
    intro q x hq hx
    by_cases hs : shouldFlatten (kvs.map (·.1)) = true
    · simp only [flatC, hs, if_true, List.mem_cons] at hx
      rcases hx with h | h
      · subst h; exact hq
      · obtain ⟨kv, hkv, hx⟩ := (mem_flatCKV q x kvs).1 h
        exact ih kv hkv _ x (hq.append (SlashFree.singleton (encode_no_slash _))) hx
    · simp [flatC, hs] at hx; subst hx; exact hq

theorem append_cons_ne_self {α : Type} (q : List α) (c : α) (r : List α) : q ++ c :: r ≠ q := by
  intro h
  have := congrArg List.length h
  simp at this

theorem flatCL_nodup (q : CPath) (xs : List Tree)
    (ih : ∀ x ∈ xs, ∀ q, ((flatC q x).map (·.1)).Nodup) (i : Nat) :
    ((flatCL q i xs).map (·.1)).Nodup := by
  induction xs generalizing i with
  | nil => simp [flatCL]
  | cons a xs ihx =>
    simp only [flatCL, List.map_append]
    rw [List.nodup_append]
    refine ⟨ih a (by simp) _, ihx (fun x hx => ih x (List.mem_cons_of_mem _ hx)) _, ?_⟩
    intro c hc d hd e
    obtain ⟨x, hx, rfl⟩ := List.mem_map.1 hc
    obtain ⟨y, hy, rfl⟩ := List.mem_map.1 hd
    obtain ⟨r, hr⟩ := flatC_prefix a _ x hx
    obtain ⟨j, z, _, hy⟩ := (mem_flatCL q y xs (i + 1)).1 hy
    obtain ⟨r', hr'⟩ := flatC_prefix z _ y hy
    rw [hr, hr'] at e
    simp only [List.append_assoc, List.append_cancel_left_eq, List.cons_append, List.nil_append,
      List.cons.injEq] at e
    have := natStr_injective e.1
    omega

theorem flatCKV_nodup (q : CPath) (kvs : List (Key × Tree))
    (ih : ∀ kv ∈ kvs, ∀ q, ((flatC q kv.2).map (·.1)).Nodup)
    (hn : (kvs.map (fun kv => kv.1.toStr)).Nodup) :
    ((flatCKV q kvs).map (·.1)).Nodup := by
  induction kvs with
  | nil => simp [flatCKV]
  | cons a kvs ihx =>
    simp only [List.map_cons, List.nodup_cons] at hn
    simp only [flatCKV, List.map_append]
    rw [List.nodup_append]
    refine ⟨ih a (by simp) _, ihx (fun x hx => ih x (List.mem_cons_of_mem _ hx)) hn.2, ?_⟩
    intro c hc d hd e
    obtain ⟨x, hx, rfl⟩ := List.mem_map.1 hc
    obtain ⟨y, hy, rfl⟩ := List.mem_map.1 hd
    obtain ⟨r, hr⟩ := flatC_prefix a.2 _ x hx
    obtain ⟨kv, hkv, hy⟩ := (mem_flatCKV q y kvs).1 hy
    obtain ⟨r', hr'⟩ := flatC_prefix kv.2 _ y hy
    rw [hr, hr'] at e
    simp only [List.append_assoc, List.append_cancel_left_eq, List.cons_append, List.nil_append,
      List.cons.injEq] at e
    have := encode_injective e.1
    exact hn.1 (List.mem_map.2 ⟨kv, hkv, this.symm⟩)

theorem flatC_nodup (t : Tree) : ∀ q : CPath, ((flatC q t).map (·.1)).Nodup := by
  induction t using Tree.induct' with
  | hleaf i => intro q; simp [flatC]
  | hlist xs ih =>
    intro q
    simp only [flatC, List.map_cons, List.nodup_cons]
    refine ⟨?_, flatCL_nodup q xs ih 0⟩
    intro hm
    obtain ⟨x, hx, hq⟩ := List.mem_map.1 hm
    obtain ⟨c, r, hr⟩ := flatRest_strict (.list xs) q x (by simpa [flatRest] using hx)
    rw [hr] at hq
    exact append_cons_ne_self q c r hq
  | hdict k kvs ih =>
    intro q
    by_cases hs : shouldFlatten (kvs.map (·.1)) = true
    · simp only [flatC, hs, if_true, List.map_cons, List.nodup_cons]
      have hn := ((shouldFlatten_iff _).1 hs).2
      simp only [List.map_map] at hn
      refine ⟨?_, flatCKV_nodup q kvs ih hn⟩
      intro hm
      obtain ⟨x, hx, hq⟩ := List.mem_map.1 hm
      obtain ⟨c, r, hr⟩ := flatRest_strict (.dict k kvs) q x (by simpa [flatRest, hs] using hx)
      rw [hr] at hq
      exact append_cons_ne_self q c r hq
    · simp [flatC, hs]

theorem flatC_pathsOK (t : Tree) (q : CPath) (hq : q ≠ []) (hs : SlashFree q) : PathsOK (flatC q t) := by
  refine ⟨flatC_nodup t q, fun x hx => ⟨?_, flatC_slashFree t q x hs hx⟩⟩
  obtain ⟨r, hr⟩ := flatC_prefix t q x hx
  rw [hr]
  cases q with
  | nil => exact absurd rfl hq
  | cons a q => simp

/-! ## `mapE` -/

theorem mapE_eq_map {α β : Type} (f : α → Except Err β) (g : α → β) (l : List α)
    (h : ∀ x ∈ l, f x = .ok (g x)) : mapE f l = .ok (l.map g) := by
  induction l with
  | nil => rfl
  | cons a l ih =>
    have ha := h a (by simp)
    have hl := ih (fun x hx => h x (List.mem_cons_of_mem _ hx))
    simp [mapE, ha, hl]

/-! ## Grouping (`container_path_to_vals`) -/

theorem update_nil {κ α : Type} [DecidableEq κ] (a : List (κ × α)) : update a [] = a := rfl

theorem update_cons {κ α : Type} [DecidableEq κ] (a : List (κ × α)) (x : κ × α) (b : List (κ × α)) :
    update a (x :: b) = update (setKey a x.1 x.2) b := rfl

theorem lookup_addToGroup (g : Groups) (par key : Str) (c : Child) (q : Str) :
    lookup (addToGroup g par key c) q =
      if q = par then some (setKey ((lookup g par).getD []) key c) else lookup g q := by
  induction g with
  | nil =>
    by_cases h : q = par
    · subst h; simp [addToGroup, lookup, setKey]
    · have h' : ¬ par = q := fun e => h e.symm
      simp [addToGroup, lookup, h, h']
  | cons x g ih =>
    obtain ⟨q', vs⟩ := x
    by_cases h1 : q' = par
    · subst h1
      by_cases h : q = q'
      · subst h; simp [addToGroup, lookup]
      · have h' : ¬ q' = q := fun e => h e.symm
        simp [addToGroup, lookup, h, h']
    · by_cases h : q = par
      · subst h
        simp [addToGroup, lookup, h1, ih]
      · by_cases h2 : q' = q
        · subst h2; simp [addToGroup, lookup, h1, h]
        · simp [addToGroup, lookup, h1, h2, ih, h]

/-- The `(last token, child)` pairs that the grouping loop files under parent `par`. -/
def selOne (pre par : Str) (it : Str × Child) : Option (Str × Child) :=
  if it.1 = pre then none
  else match parentKey it.1 with
    | some (p, k) => if p = par then some (k, it.2) else none
    | none => none

def sel (pre par : Str) (items : List (Str × Child)) : List (Str × Child) :=
  items.filterMap (selOne pre par)

def mergeSel (o : Option (List (Str × Child))) (l : List (Str × Child)) :
    Option (List (Str × Child)) :=
  if l = [] then o else some (update (o.getD []) l)

theorem groupAux_spec (pre : Str) (items : List (Str × Child)) (g : Groups)
    (h : ∀ it ∈ items, it.1 ≠ pre → ∃ pk, parentKey it.1 = some pk) :
    ∃ G, groupAux pre items g = .ok G ∧
      ∀ par, lookup G par = mergeSel (lookup g par) (sel pre par items) := by
  induction items generalizing g with
  | nil => exact ⟨g, rfl, fun par => by simp [sel, mergeSel]⟩
  | cons it items ih =>
    obtain ⟨path, c⟩ := it
    have hrest : ∀ it ∈ items, it.1 ≠ pre → ∃ pk, parentKey it.1 = some pk :=
      fun it hit => h it (List.mem_cons_of_mem _ hit)
    by_cases hp : path = pre
    · obtain ⟨G, hG, hspec⟩ := ih g hrest
      refine ⟨G, by simp [groupAux, hp, hG], fun par => ?_⟩
      rw [hspec par]
      simp [sel, List.filterMap_cons, selOne, hp]
    · obtain ⟨⟨p, k⟩, hpk⟩ := h (path, c) (by simp) hp
      obtain ⟨G, hG, hspec⟩ := ih (addToGroup g p k c) hrest
      refine ⟨G, by simp [groupAux, hp, hpk, hG], fun par => ?_⟩
      rw [hspec par, lookup_addToGroup]
      by_cases hpar : par = p
      · subst hpar
        have : sel pre par ((path, c) :: items) = (k, c) :: sel pre par items := by
          simp [sel, List.filterMap_cons, selOne, hp, hpk]
        rw [this]
        simp only [if_true, mergeSel, Option.getD_some]
        by_cases hs : sel pre par items = []
        · simp [hs, update_cons, update_nil]
        · simp [hs, update_cons]
      · have hpar' : ¬ p = par := fun e => hpar e.symm
        have : sel pre par ((path, c) :: items) = sel pre par items := by
          simp [sel, List.filterMap_cons, selOne, hp, hpk, hpar']
        rw [this]
        simp [hpar]

/-- Invariant used to show that the populate loop cannot fail. -/
def GroupsGood (M : Manifest) (Good : Str → Str → Prop) (g : Groups) : Prop :=
  ∀ pv ∈ g, (∃ e, lookup M pv.1 = some e) ∧ ∀ kc ∈ pv.2, Good pv.1 kc.1

theorem GroupsGood.addToGroup {M : Manifest} {Good : Str → Str → Prop} {g : Groups}
    (hg : GroupsGood M Good g) (p k : Str) (c : Child) (hM : ∃ e, lookup M p = some e)
    (hgood : Good p k) : GroupsGood M Good (addToGroup g p k c) := by
  induction g with
  | nil =>
    intro pv hpv
    simp [Flatten.addToGroup] at hpv
    subst hpv
    exact ⟨hM, fun kc hkc => by simp at hkc; subst hkc; exact hgood⟩
  | cons x g ih =>
    obtain ⟨q, vs⟩ := x
    have hx := hg (q, vs) (by simp)
    have hrest : GroupsGood M Good g := fun pv hpv => hg pv (List.mem_cons_of_mem _ hpv)
    intro pv hpv
    by_cases hq : q = p
    · subst hq
      simp [Flatten.addToGroup] at hpv
      rcases hpv with e | e
      · subst e
        refine ⟨hM, fun kc hkc => ?_⟩
        rcases mem_setKey vs k c kc hkc with h' | h'
        · exact hx.2 kc h'
        · subst h'; exact hgood
      · exact hrest pv e
    · simp [Flatten.addToGroup, hq] at hpv
      rcases hpv with e | e
      · subst e; exact hx
      · exact ih hrest pv e

theorem groupAux_good {M : Manifest} {Good : Str → Str → Prop} (pre : Str)
    (items : List (Str × Child)) (g G : Groups) (hg : GroupsGood M Good g)
    (h : ∀ it ∈ items, it.1 ≠ pre → ∀ p k, parentKey it.1 = some (p, k) →
      (∃ e, lookup M p = some e) ∧ Good p k)
    (hG : groupAux pre items g = .ok G) : GroupsGood M Good G := by
  induction items generalizing g with
  | nil => simp [groupAux] at hG; subst hG; exact hg
  | cons it items ih =>
    obtain ⟨path, c⟩ := it
    have hrest := fun it hit => h it (List.mem_cons_of_mem _ hit)
    by_cases hp : path = pre
    · simp [groupAux, hp] at hG
      exact ih g hg hrest hG
    · cases hpk : parentKey path with
      | none => simp [groupAux, hp, hpk] at hG
      | some pk =>
        obtain ⟨p, k⟩ := pk
        simp [groupAux, hp, hpk] at hG
        have := h (path, c) (by simp) hp p k hpk
        exact ih _ (hg.addToGroup p k c this.1 this.2) hrest hG

/-- What the populate loop needs of a child token `k` filed under parent `p`. -/
def TokenGood (M : Manifest) (p k : Str) : Prop :=
  ∃ kind keys, lookup M p = some (kind, keys) ∧
    ((kind = CKind.list → ∃ i, pyInt k = .ok i) ∧ (kind ≠ CKind.list → ∃ s, decode k = .ok s))

theorem mapE_isOk {α β : Type} (f : α → Except Err β) (l : List α)
    (h : ∀ x ∈ l, ∃ y, f x = .ok y) : ∃ ys, mapE f l = .ok ys := by
  induction l with
  | nil => exact ⟨[], rfl⟩
  | cons a l ih =>
    obtain ⟨y, hy⟩ := h a (by simp)
    obtain ⟨ys, hys⟩ := ih (fun x hx => h x (List.mem_cons_of_mem _ hx))
    exact ⟨y :: ys, by simp [mapE, hy, hys]⟩

theorem checkGroups_ok (M : Manifest) (G : Groups) (hG : GroupsGood M (TokenGood M) G) :
    checkGroups M G = .ok () := by
  induction G with
  | nil => rfl
  | cons pv G ih =>
    have hpv := hG pv (by simp)
    have hrest : GroupsGood M (TokenGood M) G := fun x hx => hG x (List.mem_cons_of_mem _ hx)
    obtain ⟨⟨kind, keys⟩, he⟩ := hpv.1
    have hone : checkGroup M pv = .ok () := by
      unfold checkGroup
      rw [he]
      cases kind with
      | list =>
        obtain ⟨ys, hys⟩ := mapE_isOk (fun kc => (pyInt kc.1).map (fun i => (i, kc.2))) pv.2 (by
          intro kc hkc
          obtain ⟨kind', keys', he', hl, _⟩ := hpv.2 kc hkc
          rw [he] at he'; cases he'
          obtain ⟨i, hi⟩ := hl rfl
          exact ⟨(i, kc.2), by simp [hi, Except.map]⟩)
        simp only [intKeys, hys]; rfl
      | dict =>
        obtain ⟨ys, hys⟩ := mapE_isOk (fun kc => (decode kc.1).map (fun s => (s, kc.2))) pv.2 (by
          intro kc hkc
          obtain ⟨kind', keys', he', _, hd⟩ := hpv.2 kc hkc
          rw [he] at he'; cases he'
          obtain ⟨i, hi⟩ := hd (by simp)
          exact ⟨(i, kc.2), by simp [hi, Except.map]⟩)
        simp only [decodeKeys, hys]; rfl
      | odict =>
        obtain ⟨ys, hys⟩ := mapE_isOk (fun kc => (decode kc.1).map (fun s => (s, kc.2))) pv.2 (by
          intro kc hkc
          obtain ⟨kind', keys', he', _, hd⟩ := hpv.2 kc hkc
          rw [he] at he'; cases he'
          obtain ⟨i, hi⟩ := hd (by simp)
          exact ⟨(i, kc.2), by simp [hi, Except.map]⟩)
        simp only [decodeKeys, hys]; rfl
    simp [checkGroups, hone, ih hrest]

end Ts.Flatten
