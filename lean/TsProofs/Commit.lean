import TsModel.Commit
/-! Helper lemmas and invariants for the commit protocols (C13, C02, C03). -/
namespace Ts.Commit
open Ts.Barrier

theorem allB_iff (n : Nat) (f : Nat → Bool) : allB n f = true ↔ ∀ k, k < n → f k = true := by
  simp [allB, List.all_eq_true]

theorem anyB_iff (n : Nat) (f : Nat → Bool) : anyB n f = true ↔ ∃ k, k < n ∧ f k = true := by
  simp [anyB, List.any_eq_true]

theorem allDone_iff (nw : Nat → Nat) (ws : Nat → Nat → WSt) (r : Nat) :
    allDone nw ws r = true ↔ ∀ w, w < nw r → ws r w = .done := by
  simp [allDone, allB_iff]

theorem anyFailed_iff (nw : Nat → Nat) (ws : Nat → Nat → WSt) (r : Nat) :
    anyFailed nw ws r = true ↔ ∃ w, w < nw r ∧ ws r w = .failed := by
  simp [anyFailed, anyB_iff]

theorem mem_peers (n k : Nat) : k ∈ peers n ↔ 0 < k ∧ k < n := by
  simp [peers, List.mem_range'_1]; omega

theorem peersPresent_iff (st : Store) (p n : Nat) :
    st.peersPresent p n = true ↔ ∀ k, 0 < k → k < n → (st p k).isSome = true := by
  simp only [Store.peersPresent, Store.hasAll, List.all_eq_true, mem_peers]
  constructor
  · intro h k h0 hn; exact h k ⟨h0, hn⟩
  · intro h k hk; exact h k hk.1 hk.2

/-! ## Writes: state ↔ history, common to both protocols -/

/-- Link between the per-write state and the history (both protocols). -/
structure WInv (cfg : Cfg) (ws : Nat → Nat → WSt) (hist : List Ev) : Prop where
  done_ok : ∀ r w, ws r w = .done → cfg.pfail r w = false
  failed_plan : ∀ r w, ws r w = .failed → cfg.pfail r w = true
  wEnd_iff : ∀ r w, Ev.wEnd r w ∈ hist ↔ ws r w = .done
  wBegin_iff : ∀ r w, Ev.wBegin r w ∈ hist ↔ ws r w ≠ .idle
  wFail_iff : ∀ r w, Ev.wFail r w ∈ hist ↔ ws r w = .failed

theorem winv_init (cfg : Cfg) : WInv cfg (fun _ _ => .idle) [] := by
  constructor <;> simp

theorem winv_wstep {cfg : Cfg} {ws ws' : Nat → Nat → WSt} {hist : List Ev} {r : Nat} {a : Act} {e : Ev}
    (h : WInv cfg ws hist) (hs : wstep? cfg ws r a = some (ws', e)) : WInv cfg ws' (e :: hist) := by
  obtain ⟨h1, h2, h3, h4, h5⟩ := h
  cases a with
  | ctl => simp [wstep?] at hs
  | wBegin w =>
    simp only [wstep?] at hs
    split at hs
    · simp only [Option.some.injEq, Prod.mk.injEq] at hs
      obtain ⟨rfl, rfl⟩ := hs
      constructor <;> intro r' w' <;> simp only [upd2, List.mem_cons] <;> grind
    · simp at hs
  | wEnd w =>
    simp only [wstep?] at hs
    split at hs
    · split at hs
      · simp only [Option.some.injEq, Prod.mk.injEq] at hs
        obtain ⟨rfl, rfl⟩ := hs
        constructor <;> intro r' w' <;> simp only [upd2, List.mem_cons] <;> grind
      · simp only [Option.some.injEq, Prod.mk.injEq] at hs
        obtain ⟨rfl, rfl⟩ := hs
        constructor <;> intro r' w' <;> simp only [upd2, List.mem_cons] <;> grind
    · simp at hs

/-- An event that is not a write event leaves the write link intact. -/
theorem winv_other {cfg : Cfg} {ws : Nat → Nat → WSt} {hist : List Ev} {e : Ev}
    (h : WInv cfg ws hist) (he : ∀ r w, e ≠ .wBegin r w ∧ e ≠ .wEnd r w ∧ e ≠ .wFail r w) :
    WInv cfg ws (e :: hist) := by
  obtain ⟨h1, h2, h3, h4, h5⟩ := h
  constructor <;> intro r w <;> have := he r w <;> grind

/-! ## async protocol: the invariant -/

/-- Program points reached only after `sync_complete` returned normally, before any exception
reached the `except` clause. -/
def pastIO : PC → Bool
  | .arrive | .arriveGet _ | .arriveErr | .mBegin | .mEnd | .depart | .departGet => true
  | .fin true | .done true => true
  | _ => false

/-- Program points only the leader (rank 0) visits. -/
def leaderPC : PC → Bool
  | .arriveGet _ | .arriveErr | .mBegin | .mEnd => true
  | _ => false

/-- Leader program points before the metadata write begins. -/
def preMeta : PC → Bool
  | .io | .arrive | .arriveGet _ | .arriveErr | .mBegin => true
  | _ => false

/-- I/O completion: history ↔ program points ↔ write states. -/
structure IOInv (cfg : Cfg) (s : AState) : Prop where
  io_done : ∀ r, Ev.ioComplete r ∈ s.hist → ∀ w, w < cfg.nw r → s.ws r w = .done
  io_pc : ∀ r, s.pc r = .io → Ev.ioComplete r ∉ s.hist ∧ Ev.ioFail r ∉ s.hist
  io_excl : ∀ r, Ev.ioComplete r ∈ s.hist → Ev.ioFail r ∉ s.hist
  io_past : ∀ r, pastIO (s.pc r) = true → Ev.ioComplete r ∈ s.hist
  io_failed : ∀ r, Ev.ioFail r ∈ s.hist → ∃ w, w < cfg.nw r ∧ s.ws r w = .failed

/-- Metadata write and thread exit: history ↔ state. -/
structure MInv (cfg : Cfg) (s : AState) : Prop where
  mB : Ev.mBegin ∈ s.hist ↔ s.mst ≠ .idle
  mE : Ev.mEnd ∈ s.hist ↔ s.mst = .done
  mF : Ev.mFail ∈ s.hist ↔ s.mst = .failed
  m_ok : s.mst = .done → cfg.mfail = false
  m_fail : s.mst = .failed → cfg.mfail = true
  m_pre : preMeta (s.pc 0) = true → s.mst = .idle
  m_pcE : s.pc 0 = .mEnd → s.mst = .inflight
  leader : ∀ r, leaderPC (s.pc r) = true → r = 0
  wOk : ∀ r, Ev.waitOk r ∈ s.hist ↔ s.pc r = .done true
  wRaise : ∀ r, Ev.waitRaise r ∈ s.hist ↔ s.pc r = .done false

/-- The barrier: what the store contents and the leader's position imply. -/
structure BInv (cfg : Cfg) (s : AState) : Prop where
  get_lt : ∀ j, s.pc 0 = .arriveGet j → 0 < j ∧ j < cfg.n
  get_seen : ∀ j, s.pc 0 = .arriveGet j → ∀ k, 0 < k → k < j → Ev.ioComplete k ∈ s.hist
  all_seen : s.pc 0 = .mBegin → ∀ k, k < cfg.n → Ev.ioComplete k ∈ s.hist
  key_empty : ∀ k, 0 < k → k < cfg.n → s.store cfg.pfx k = some .empty → Ev.ioComplete k ∈ s.hist
  commit_all : Ev.mBegin ∈ s.hist → ∀ k, k < cfg.n → Ev.ioComplete k ∈ s.hist
  key0_empty : s.store cfg.pfx 0 = some .empty → s.mst = .done
  dep0 : s.pc 0 = .depart → s.mst = .done
  fin_ok : ∀ r, s.pc r = .fin true ∨ s.pc r = .done true → s.mst = .done
  -- progress
  key_none : ∀ k, 0 < k → s.store cfg.pfx k = none → s.pc k = .io ∨ s.pc k = .arrive ∨ s.pc k = .exc
  key0_none : s.store cfg.pfx 0 = none → ∀ b, s.pc 0 ≠ .fin b ∧ s.pc 0 ≠ .done b
  get_present : ∀ j, s.pc 0 = .arriveGet j → ∀ k, 0 < k → k < cfg.n → (s.store cfg.pfx k).isSome = true
  dg_present : ∀ r, s.pc r = .departGet → (s.store cfg.pfx 0).isSome = true
  dg_pos : ∀ r, s.pc r = .departGet → 0 < r

structure AInv (cfg : Cfg) (s : AState) : Prop where
  w : WInv cfg s.ws s.hist
  io : IOInv cfg s
  m : MInv cfg s
  b : BInv cfg s

/-- The barrier keys of this attempt's prefix are absent from the store. -/
def Fresh (st : Store) (p : Nat) : Prop := ∀ k, st p k = none

theorem ainv_init (cfg : Cfg) (st : Store) (hf : Fresh st cfg.pfx) : AInv cfg (AState.init st) := by
  refine ⟨winv_init cfg, ?_, ?_, ?_⟩ <;> constructor <;>
    simp [AState.init, pastIO, leaderPC, preMeta, hf _]

/-! ## async protocol: every step preserves the invariant

One lemma per program point and invariant group keeps each proof small (each closes by case
analysis on the step and `grind`). -/

set_option linter.unusedSimpArgs false
set_option linter.unusedVariables false

/-- Case analysis of one control step at a known program point. -/
macro "actl_pc " hs:ident hpc:ident : tactic =>
  `(tactic| (simp only [actl?, $hpc:ident] at $hs:ident
             repeat' (split at $hs:ident)
             all_goals (first | contradiction | skip)
             all_goals (injection $hs:ident with $hs:ident; subst $hs:ident)))

macro "ioinv_tac" : tactic =>
  `(tactic| (constructor <;> intros <;> grind [upd, pastIO, = anyFailed_iff, = allDone_iff]))

macro "minv_tac" : tactic =>
  `(tactic| (constructor <;> intros <;> grind [upd, leaderPC, preMeta]))

macro "binv_tac" : tactic =>
  `(tactic| (constructor <;> intros <;>
      grind [upd, Store.set, pastIO, leaderPC, preMeta, = peersPresent_iff]))

theorem ioinv_ctl_io {cfg : Cfg} {s s' : AState} {r : Nat} (h : IOInv cfg s)
    (hpc : s.pc r = .io) (hs : actl? cfg s r = some s') : IOInv cfg s' := by
  have ⟨h1, h2, h3, h4, h5⟩ := h
  clear h
  actl_pc hs hpc
  all_goals ioinv_tac

theorem minv_ctl_io {cfg : Cfg} {s s' : AState} {r : Nat} (h : MInv cfg s)
    (hpc : s.pc r = .io) (hs : actl? cfg s r = some s') : MInv cfg s' := by
  have ⟨h1, h2, h3, h4, h5, h6, h7, h8, h9, h10⟩ := h
  clear h
  actl_pc hs hpc
  all_goals minv_tac

theorem binv_ctl_io {cfg : Cfg} {s s' : AState} {r : Nat} (hio : IOInv cfg s) (hm : MInv cfg s)
    (h : BInv cfg s) (hr : r < cfg.n) (hpc : s.pc r = .io) (hs : actl? cfg s r = some s') :
    BInv cfg s' := by
  have ⟨h1, h2, h3, h4, h5, h6, h7, h8, h9, h10, h11, h12, h13⟩ := h
  have i4 := hio.io_past
  have ⟨m1, m2, m3, m4, m5, m6, m7, m8, m9, m10⟩ := hm
  clear hio hm h m9 m10
  actl_pc hs hpc
  all_goals binv_tac

theorem ioinv_ctl_arrive {cfg : Cfg} {s s' : AState} {r : Nat} (h : IOInv cfg s)
    (hpc : s.pc r = .arrive) (hs : actl? cfg s r = some s') : IOInv cfg s' := by
  have ⟨h1, h2, h3, h4, h5⟩ := h
  clear h
  actl_pc hs hpc
  all_goals ioinv_tac

theorem minv_ctl_arrive {cfg : Cfg} {s s' : AState} {r : Nat} (h : MInv cfg s)
    (hpc : s.pc r = .arrive) (hs : actl? cfg s r = some s') : MInv cfg s' := by
  have ⟨h1, h2, h3, h4, h5, h6, h7, h8, h9, h10⟩ := h
  clear h
  actl_pc hs hpc
  all_goals minv_tac

theorem binv_ctl_arrive {cfg : Cfg} {s s' : AState} {r : Nat} (hio : IOInv cfg s) (hm : MInv cfg s)
    (h : BInv cfg s) (hr : r < cfg.n) (hpc : s.pc r = .arrive) (hs : actl? cfg s r = some s') :
    BInv cfg s' := by
  have ⟨h1, h2, h3, h4, h5, h6, h7, h8, h9, h10, h11, h12, h13⟩ := h
  have i4 := hio.io_past
  have ⟨m1, m2, m3, m4, m5, m6, m7, m8, m9, m10⟩ := hm
  clear hio hm h m9 m10
  actl_pc hs hpc
  all_goals binv_tac

theorem ioinv_ctl_arriveGet {cfg : Cfg} {s s' : AState} {r : Nat} {j : Nat} (h : IOInv cfg s)
    (hpc : s.pc r = .arriveGet j) (hs : actl? cfg s r = some s') : IOInv cfg s' := by
  have ⟨h1, h2, h3, h4, h5⟩ := h
  clear h
  actl_pc hs hpc
  all_goals ioinv_tac

theorem minv_ctl_arriveGet {cfg : Cfg} {s s' : AState} {r : Nat} {j : Nat} (h : MInv cfg s)
    (hpc : s.pc r = .arriveGet j) (hs : actl? cfg s r = some s') : MInv cfg s' := by
  have ⟨h1, h2, h3, h4, h5, h6, h7, h8, h9, h10⟩ := h
  clear h
  actl_pc hs hpc
  all_goals minv_tac

theorem binv_ctl_arriveGet {cfg : Cfg} {s s' : AState} {r : Nat} {j : Nat} (hio : IOInv cfg s) (hm : MInv cfg s)
    (h : BInv cfg s) (hr : r < cfg.n) (hpc : s.pc r = .arriveGet j) (hs : actl? cfg s r = some s') :
    BInv cfg s' := by
  have ⟨h1, h2, h3, h4, h5, h6, h7, h8, h9, h10, h11, h12, h13⟩ := h
  have i4 := hio.io_past
  have ⟨m1, m2, m3, m4, m5, m6, m7, m8, m9, m10⟩ := hm
  clear hio hm h m9 m10
  actl_pc hs hpc
  all_goals binv_tac

theorem ioinv_ctl_arriveErr {cfg : Cfg} {s s' : AState} {r : Nat} (h : IOInv cfg s)
    (hpc : s.pc r = .arriveErr) (hs : actl? cfg s r = some s') : IOInv cfg s' := by
  have ⟨h1, h2, h3, h4, h5⟩ := h
  clear h
  actl_pc hs hpc
  all_goals ioinv_tac

theorem minv_ctl_arriveErr {cfg : Cfg} {s s' : AState} {r : Nat} (h : MInv cfg s)
    (hpc : s.pc r = .arriveErr) (hs : actl? cfg s r = some s') : MInv cfg s' := by
  have ⟨h1, h2, h3, h4, h5, h6, h7, h8, h9, h10⟩ := h
  clear h
  actl_pc hs hpc
  all_goals minv_tac

theorem binv_ctl_arriveErr {cfg : Cfg} {s s' : AState} {r : Nat} (hio : IOInv cfg s) (hm : MInv cfg s)
    (h : BInv cfg s) (hr : r < cfg.n) (hpc : s.pc r = .arriveErr) (hs : actl? cfg s r = some s') :
    BInv cfg s' := by
  have ⟨h1, h2, h3, h4, h5, h6, h7, h8, h9, h10, h11, h12, h13⟩ := h
  have i4 := hio.io_past
  have ⟨m1, m2, m3, m4, m5, m6, m7, m8, m9, m10⟩ := hm
  clear hio hm h m9 m10
  actl_pc hs hpc
  all_goals binv_tac

theorem ioinv_ctl_mBegin {cfg : Cfg} {s s' : AState} {r : Nat} (h : IOInv cfg s)
    (hpc : s.pc r = .mBegin) (hs : actl? cfg s r = some s') : IOInv cfg s' := by
  have ⟨h1, h2, h3, h4, h5⟩ := h
  clear h
  actl_pc hs hpc
  all_goals ioinv_tac

theorem minv_ctl_mBegin {cfg : Cfg} {s s' : AState} {r : Nat} (h : MInv cfg s)
    (hpc : s.pc r = .mBegin) (hs : actl? cfg s r = some s') : MInv cfg s' := by
  have ⟨h1, h2, h3, h4, h5, h6, h7, h8, h9, h10⟩ := h
  clear h
  actl_pc hs hpc
  all_goals minv_tac

theorem binv_ctl_mBegin {cfg : Cfg} {s s' : AState} {r : Nat} (hio : IOInv cfg s) (hm : MInv cfg s)
    (h : BInv cfg s) (hr : r < cfg.n) (hpc : s.pc r = .mBegin) (hs : actl? cfg s r = some s') :
    BInv cfg s' := by
  have ⟨h1, h2, h3, h4, h5, h6, h7, h8, h9, h10, h11, h12, h13⟩ := h
  have i4 := hio.io_past
  have ⟨m1, m2, m3, m4, m5, m6, m7, m8, m9, m10⟩ := hm
  clear hio hm h m9 m10
  actl_pc hs hpc
  all_goals binv_tac

theorem ioinv_ctl_mEnd {cfg : Cfg} {s s' : AState} {r : Nat} (h : IOInv cfg s)
    (hpc : s.pc r = .mEnd) (hs : actl? cfg s r = some s') : IOInv cfg s' := by
  have ⟨h1, h2, h3, h4, h5⟩ := h
  clear h
  actl_pc hs hpc
  all_goals ioinv_tac

theorem minv_ctl_mEnd {cfg : Cfg} {s s' : AState} {r : Nat} (h : MInv cfg s)
    (hpc : s.pc r = .mEnd) (hs : actl? cfg s r = some s') : MInv cfg s' := by
  have ⟨h1, h2, h3, h4, h5, h6, h7, h8, h9, h10⟩ := h
  clear h
  actl_pc hs hpc
  all_goals minv_tac

theorem binv_ctl_mEnd {cfg : Cfg} {s s' : AState} {r : Nat} (hio : IOInv cfg s) (hm : MInv cfg s)
    (h : BInv cfg s) (hr : r < cfg.n) (hpc : s.pc r = .mEnd) (hs : actl? cfg s r = some s') :
    BInv cfg s' := by
  have ⟨h1, h2, h3, h4, h5, h6, h7, h8, h9, h10, h11, h12, h13⟩ := h
  have i4 := hio.io_past
  have ⟨m1, m2, m3, m4, m5, m6, m7, m8, m9, m10⟩ := hm
  clear hio hm h m9 m10
  actl_pc hs hpc
  all_goals binv_tac

theorem ioinv_ctl_depart {cfg : Cfg} {s s' : AState} {r : Nat} (h : IOInv cfg s)
    (hpc : s.pc r = .depart) (hs : actl? cfg s r = some s') : IOInv cfg s' := by
  have ⟨h1, h2, h3, h4, h5⟩ := h
  clear h
  actl_pc hs hpc
  all_goals ioinv_tac

theorem minv_ctl_depart {cfg : Cfg} {s s' : AState} {r : Nat} (h : MInv cfg s)
    (hpc : s.pc r = .depart) (hs : actl? cfg s r = some s') : MInv cfg s' := by
  have ⟨h1, h2, h3, h4, h5, h6, h7, h8, h9, h10⟩ := h
  clear h
  actl_pc hs hpc
  all_goals minv_tac

theorem binv_ctl_depart {cfg : Cfg} {s s' : AState} {r : Nat} (hio : IOInv cfg s) (hm : MInv cfg s)
    (h : BInv cfg s) (hr : r < cfg.n) (hpc : s.pc r = .depart) (hs : actl? cfg s r = some s') :
    BInv cfg s' := by
  have ⟨h1, h2, h3, h4, h5, h6, h7, h8, h9, h10, h11, h12, h13⟩ := h
  have i4 := hio.io_past
  have ⟨m1, m2, m3, m4, m5, m6, m7, m8, m9, m10⟩ := hm
  clear hio hm h m9 m10
  actl_pc hs hpc
  all_goals binv_tac

theorem ioinv_ctl_departGet {cfg : Cfg} {s s' : AState} {r : Nat} (h : IOInv cfg s)
    (hpc : s.pc r = .departGet) (hs : actl? cfg s r = some s') : IOInv cfg s' := by
  have ⟨h1, h2, h3, h4, h5⟩ := h
  clear h
  actl_pc hs hpc
  all_goals ioinv_tac

theorem minv_ctl_departGet {cfg : Cfg} {s s' : AState} {r : Nat} (h : MInv cfg s)
    (hpc : s.pc r = .departGet) (hs : actl? cfg s r = some s') : MInv cfg s' := by
  have ⟨h1, h2, h3, h4, h5, h6, h7, h8, h9, h10⟩ := h
  clear h
  actl_pc hs hpc
  all_goals minv_tac

theorem binv_ctl_departGet {cfg : Cfg} {s s' : AState} {r : Nat} (hio : IOInv cfg s) (hm : MInv cfg s)
    (h : BInv cfg s) (hr : r < cfg.n) (hpc : s.pc r = .departGet) (hs : actl? cfg s r = some s') :
    BInv cfg s' := by
  have ⟨h1, h2, h3, h4, h5, h6, h7, h8, h9, h10, h11, h12, h13⟩ := h
  have i4 := hio.io_past
  have ⟨m1, m2, m3, m4, m5, m6, m7, m8, m9, m10⟩ := hm
  clear hio hm h m9 m10
  actl_pc hs hpc
  all_goals binv_tac

theorem ioinv_ctl_exc {cfg : Cfg} {s s' : AState} {r : Nat} (h : IOInv cfg s)
    (hpc : s.pc r = .exc) (hs : actl? cfg s r = some s') : IOInv cfg s' := by
  have ⟨h1, h2, h3, h4, h5⟩ := h
  clear h
  actl_pc hs hpc
  all_goals ioinv_tac

theorem minv_ctl_exc {cfg : Cfg} {s s' : AState} {r : Nat} (h : MInv cfg s)
    (hpc : s.pc r = .exc) (hs : actl? cfg s r = some s') : MInv cfg s' := by
  have ⟨h1, h2, h3, h4, h5, h6, h7, h8, h9, h10⟩ := h
  clear h
  actl_pc hs hpc
  all_goals minv_tac

theorem binv_ctl_exc {cfg : Cfg} {s s' : AState} {r : Nat} (hio : IOInv cfg s) (hm : MInv cfg s)
    (h : BInv cfg s) (hr : r < cfg.n) (hpc : s.pc r = .exc) (hs : actl? cfg s r = some s') :
    BInv cfg s' := by
  have ⟨h1, h2, h3, h4, h5, h6, h7, h8, h9, h10, h11, h12, h13⟩ := h
  have i4 := hio.io_past
  have ⟨m1, m2, m3, m4, m5, m6, m7, m8, m9, m10⟩ := hm
  clear hio hm h m9 m10
  actl_pc hs hpc
  all_goals binv_tac

theorem ioinv_ctl_finT {cfg : Cfg} {s s' : AState} {r : Nat} (h : IOInv cfg s)
    (hpc : s.pc r = .fin true) (hs : actl? cfg s r = some s') : IOInv cfg s' := by
  have ⟨h1, h2, h3, h4, h5⟩ := h
  clear h
  actl_pc hs hpc
  all_goals ioinv_tac

theorem minv_ctl_finT {cfg : Cfg} {s s' : AState} {r : Nat} (h : MInv cfg s)
    (hpc : s.pc r = .fin true) (hs : actl? cfg s r = some s') : MInv cfg s' := by
  have ⟨h1, h2, h3, h4, h5, h6, h7, h8, h9, h10⟩ := h
  clear h
  actl_pc hs hpc
  all_goals minv_tac

theorem binv_ctl_finT {cfg : Cfg} {s s' : AState} {r : Nat} (hio : IOInv cfg s) (hm : MInv cfg s)
    (h : BInv cfg s) (hr : r < cfg.n) (hpc : s.pc r = .fin true) (hs : actl? cfg s r = some s') :
    BInv cfg s' := by
  have ⟨h1, h2, h3, h4, h5, h6, h7, h8, h9, h10, h11, h12, h13⟩ := h
  have i4 := hio.io_past
  have ⟨m1, m2, m3, m4, m5, m6, m7, m8, m9, m10⟩ := hm
  clear hio hm h m9 m10
  actl_pc hs hpc
  all_goals binv_tac

theorem ioinv_ctl_finF {cfg : Cfg} {s s' : AState} {r : Nat} (h : IOInv cfg s)
    (hpc : s.pc r = .fin false) (hs : actl? cfg s r = some s') : IOInv cfg s' := by
  have ⟨h1, h2, h3, h4, h5⟩ := h
  clear h
  actl_pc hs hpc
  all_goals ioinv_tac

theorem minv_ctl_finF {cfg : Cfg} {s s' : AState} {r : Nat} (h : MInv cfg s)
    (hpc : s.pc r = .fin false) (hs : actl? cfg s r = some s') : MInv cfg s' := by
  have ⟨h1, h2, h3, h4, h5, h6, h7, h8, h9, h10⟩ := h
  clear h
  actl_pc hs hpc
  all_goals minv_tac

theorem binv_ctl_finF {cfg : Cfg} {s s' : AState} {r : Nat} (hio : IOInv cfg s) (hm : MInv cfg s)
    (h : BInv cfg s) (hr : r < cfg.n) (hpc : s.pc r = .fin false) (hs : actl? cfg s r = some s') :
    BInv cfg s' := by
  have ⟨h1, h2, h3, h4, h5, h6, h7, h8, h9, h10, h11, h12, h13⟩ := h
  have i4 := hio.io_past
  have ⟨m1, m2, m3, m4, m5, m6, m7, m8, m9, m10⟩ := hm
  clear hio hm h m9 m10
  actl_pc hs hpc
  all_goals binv_tac

end Ts.Commit
