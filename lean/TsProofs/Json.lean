import TsModel.Json
/-! Helper lemmas for the JSON layer (C14): string escape/scan, decimal digits, printer/reader. -/
namespace Ts.Json

/-! ## hex -/

theorem unhexDigit_hexDigit (n : Nat) (h : n < 16) : unhexDigit (hexDigit n) = some n := by
  unfold hexDigit unhexDigit
  split <;> split <;> (try split) <;> (try split) <;> first | omega | (congr 1; omega)

theorem unhex4_hex4 (u : Nat) (h : u < 65536) :
    unhex4 (hexDigit (u / 4096 % 16)) (hexDigit (u / 256 % 16)) (hexDigit (u / 16 % 16)) (hexDigit (u % 16)) = some u := by
  unfold unhex4
  rw [unhexDigit_hexDigit _ (Nat.mod_lt _ (by decide)), unhexDigit_hexDigit _ (Nat.mod_lt _ (by decide)),
      unhexDigit_hexDigit _ (Nat.mod_lt _ (by decide)), unhexDigit_hexDigit _ (Nat.mod_lt _ (by decide))]
  simp only [Option.some.injEq]
  omega

/-- One `\uXXXX` escape through the scanner. -/
theorem scanAux_uEsc (u : Nat) (hu : u < 65536) (p : Option Nat) (X : List Nat) :
    scanAux p (uEsc u ++ X) =
      match p with
      | some hi =>
        if isLow u then consChar (joinSurr hi u) (scanAux none X)
        else if isHigh u then consChar hi (scanAux (some u) X)
        else consChar hi (consChar u (scanAux none X))
      | none => if isHigh u then scanAux (some u) X else consChar u (scanAux none X) := by
  simp only [uEsc, hex4, List.cons_append, List.nil_append]
  rw [scanAux]
  simp only [show (0x5c : Nat) ≠ 0x22 by decide, if_false, if_true, unhex4_hex4 u hu]
  cases p <;> rfl


theorem scanAux_quote (p : Option Nat) (r : List Nat) :
    scanAux p (0x22 :: r) = flushPending p (.ok ([], r)) := by
  rw [scanAux.eq_def]; simp

theorem scanAux_simple (p : Option Nat) (e x : Nat) (r : List Nat) (he : e ≠ 0x75) (hx : simpleEsc e = some x) :
    scanAux p (0x5c :: e :: r) = flushPending p (consChar x (scanAux none r)) := by
  rw [scanAux.eq_def]; simp [he, hx]

theorem scanAux_plain (p : Option Nat) (c : Nat) (r : List Nat) (h1 : c ≠ 0x22) (h2 : c ≠ 0x5c) (h3 : ¬ c < 0x20) :
    scanAux p (c :: r) = flushPending p (consChar c (scanAux none r)) := by
  rw [scanAux.eq_def]; simp [h1, h2, h3]

theorem joinSurr_split (c : Nat) (hc : c < 0x110000) (h9 : ¬ c < 0x10000) :
    joinSurr (0xD800 + (c - 0x10000) / 1024 % 1024) (0xDC00 + (c - 0x10000) % 1024) = c := by
  unfold joinSurr
  omega

/-- The pending high-surrogate escape may stay pending only in front of a string that does not
start with a low surrogate. -/
def PendingOk (p : Option Nat) (s : Str) : Prop :=
  ∀ hi, p = some hi → isHigh hi = true ∧ ∀ c s', s = c :: s' → isLow c = false

theorem validStr_cons {c : Nat} {s : Str} (h : validStr (c :: s) = true) : c < 0x110000 ∧ validStr s = true := by
  simpa [validStr] using h

theorem noAdjSurr_tail {c : Nat} {s : Str} (h : noAdjSurr (c :: s) = true) : noAdjSurr s = true := by
  cases s with
  | nil => rfl
  | cons d t => simp [noAdjSurr] at h; exact h.2

theorem noAdjSurr_head {c : Nat} {s : Str} (h : noAdjSurr (c :: s) = true) (hc : isHigh c = true) :
    ∀ d t, s = d :: t → isLow d = false := by
  intro d t e
  subst e
  simp [noAdjSurr, hc] at h
  exact h.1

theorem flushPending_consChar (p : Option Nat) (c : Nat) (s : Str) (r : List Nat) :
    flushPending p (consChar c (.ok (s, r))) = flushPending p (.ok (c :: s, r)) := rfl

/-- One encoded code point through the scanner, in front of any text `X`. -/
theorem scanAux_escChar (c : Nat) (hc : c < 0x110000) (p : Option Nat)
    (hlow : ∀ hi, p = some hi → isLow c = false) (X : List Nat) :
    scanAux p (escChar c ++ X) =
      if isHigh c then flushPending p (scanAux (some c) X)
      else flushPending p (consChar c (scanAux none X)) := by
  have simple : ∀ e x : Nat, e ≠ 0x75 → simpleEsc e = some x → isHigh x = false →
      scanAux p ([0x5c, e] ++ X) = if isHigh x then flushPending p (scanAux (some x) X)
        else flushPending p (consChar x (scanAux none X)) := by
    intro e x he hx hh
    simp only [List.cons_append, List.nil_append]
    rw [scanAux_simple p e x _ he hx, hh]; rfl
  unfold escChar
  split
  · subst c; exact simple 0x22 0x22 (by decide) (by decide) (by decide)
  split
  · subst c; exact simple 0x5c 0x5c (by decide) (by decide) (by decide)
  split
  · subst c; exact simple 0x6e 0x0a (by decide) (by decide) (by decide)
  split
  · subst c; exact simple 0x72 0x0d (by decide) (by decide) (by decide)
  split
  · subst c; exact simple 0x74 0x09 (by decide) (by decide) (by decide)
  split
  · subst c; exact simple 0x62 0x08 (by decide) (by decide) (by decide)
  split
  · subst c; exact simple 0x66 0x0c (by decide) (by decide) (by decide)
  split
  · -- printable ASCII
    rename_i h1 h2 _ _ _ _ _ h8
    have h3 : ¬ c < 0x20 := by omega
    have hh : isHigh c = false := by simp [isHigh]; omega
    simp only [List.cons_append, List.nil_append]
    rw [scanAux_plain p c _ h1 h2 h3, hh]; rfl
  split
  · -- BMP: one escape
    rename_i h9
    rw [scanAux_uEsc c h9]
    cases p with
    | none => by_cases hh : isHigh c = true <;> simp [hh, flushPending]
    | some hi =>
      have hl := hlow hi rfl
      by_cases hh : isHigh c = true <;> simp [hl, hh, flushPending]
  · -- non-BMP: a surrogate pair of escapes
    rename_i h9
    have hH : isHigh (0xD800 + (c - 0x10000) / 1024 % 1024) = true := by
      simp [isHigh]; omega
    have hHl : isLow (0xD800 + (c - 0x10000) / 1024 % 1024) = false := by
      simp [isLow]; omega
    have hL : isLow (0xDC00 + (c - 0x10000) % 1024) = true := by
      simp [isLow]; omega
    have hj := joinSurr_split c hc h9
    have hh : isHigh c = false := by simp [isHigh]; omega
    have h2 := scanAux_uEsc (0xDC00 + (c - 0x10000) % 1024) (by omega)
      (some (0xD800 + (c - 0x10000) / 1024 % 1024)) X
    simp only [hL, if_true, hj] at h2
    rw [List.append_assoc, scanAux_uEsc (0xD800 + (c - 0x10000) / 1024 % 1024) (by omega), hh]
    cases p with
    | none => simp [hH, h2, flushPending]
    | some hi => simp [hH, hHl, h2, flushPending]

theorem flushPending_error (p : Option Nat) (e : Err) : flushPending p (.error e) = .error e := by
  cases p <;> rfl

/-- The scanner inverts the encoder on every valid string without an adjacent surrogate pair,
whatever follows the closing quote. -/
theorem scanAux_escape (s : Str) : ∀ (p : Option Nat) (rest : List Nat),
    validStr s = true → noAdjSurr s = true → PendingOk p s →
    scanAux p (escape s ++ 0x22 :: rest) = flushPending p (.ok (s, rest)) := by
  induction s with
  | nil =>
    intro p rest _ _ _
    simp [escape, scanAux_quote]
  | cons c s ih =>
    intro p rest hv hn hp
    obtain ⟨hc, hv'⟩ := validStr_cons hv
    have hn' := noAdjSurr_tail hn
    have ih0 : scanAux none (escape s ++ 0x22 :: rest) = .ok (s, rest) :=
      ih none rest hv' hn' (fun hi h => by cases h)
    have ihH : isHigh c = true → scanAux (some c) (escape s ++ 0x22 :: rest) = .ok (c :: s, rest) := fun hh =>
      ih (some c) rest hv' hn' (fun hi h => by cases h; exact ⟨hh, noAdjSurr_head hn hh⟩)
    have hlow : ∀ hi, p = some hi → isLow c = false := fun hi h => (hp hi h).2 c s rfl
    simp only [escape, List.append_assoc]
    rw [scanAux_escChar c hc p hlow]
    by_cases hh : isHigh c = true
    · cases p <;> simp [hh, ihH hh, flushPending, consChar]
    · cases p <;> simp [hh, ih0, flushPending, consChar]

theorem scanStr_quote (s : Str) (rest : List Nat) (h : goodStr s = true) :
    scanStr (escape s ++ 0x22 :: rest) = .ok (s, rest) := by
  simp only [goodStr, Bool.and_eq_true] at h
  exact scanAux_escape s none rest h.1 h.2 (fun hi e => by cases e)

theorem unescape_escape (s : Str) (h : goodStr s = true) : unescape (escape s) = .ok s := by
  simp [unescape, scanStr_quote s [] h]


/-! ## decimal digits -/

theorem isDigit_iff (c : Nat) : isDigit c = true ↔ 48 ≤ c ∧ c ≤ 57 := by
  simp [isDigit]

theorem natDigits_all (n : Nat) : ∀ c ∈ natDigits n, isDigit c = true := by
  fun_induction natDigits n with
  | case1 n h => intro c hc; simp at hc; subst hc; simp [isDigit]; omega
  | case2 n h ih =>
    intro c hc
    rcases List.mem_append.mp hc with h1 | h1
    · exact ih c h1
    · simp at h1; subst h1; simp [isDigit]; omega

theorem natDigits_ne_nil (n : Nat) : natDigits n ≠ [] := by
  rw [natDigits]; split <;> simp

theorem ofDigits_append_single (xs : List Nat) (d : Nat) : ofDigits (xs ++ [d]) = ofDigits xs * 10 + (d - 48) := by
  simp [ofDigits, List.foldl_append]

theorem ofDigits_natDigits (n : Nat) : ofDigits (natDigits n) = n := by
  fun_induction natDigits n with
  | case1 n h => simp [ofDigits]
  | case2 n h ih => rw [ofDigits_append_single, ih]; omega

/-- The first digit is `0` only for the number zero. -/
theorem natDigits_head (n : Nat) : ∃ d ds, natDigits n = d :: ds ∧ (d = 48 → n = 0 ∧ ds = []) ∧ 48 ≤ d ∧ d ≤ 57 := by
  fun_induction natDigits n with
  | case1 n h => exact ⟨48 + n, [], rfl, fun hd => ⟨by omega, rfl⟩, by omega, by omega⟩
  | case2 n h ih =>
    obtain ⟨d, ds, e, hz, h1, h2⟩ := ih
    refine ⟨d, ds ++ [48 + n % 10], by rw [e]; rfl, ?_, h1, h2⟩
    intro hd
    have := (hz hd).1
    omega

theorem spanDigits_append (ds rest : List Nat) (hd : ∀ c ∈ ds, isDigit c = true)
    (hr : ∀ c r, rest = c :: r → isDigit c = false) : spanDigits (ds ++ rest) = (ds, rest) := by
  induction ds with
  | nil =>
    cases rest with
    | nil => rfl
    | cons c r => simp [spanDigits, hr c r rfl]
  | cons d ds ih =>
    have := ih (fun c hc => hd c (List.mem_cons_of_mem _ hc))
    simp [spanDigits, hd d (List.mem_cons_self), this]


/-! ## whitespace, heads, dict -/

theorem skipWs_replicate (n : Nat) (X : List Nat) : skipWs (List.replicate n 0x20 ++ X) = skipWs X := by
  induction n with
  | zero => rfl
  | succ n ih => simp [List.replicate_succ, skipWs, isWs, ih]

theorem skipWs_nl (d : Nat) (X : List Nat) : skipWs (nl d ++ X) = skipWs X := by
  simp [nl, skipWs, isWs, skipWs_replicate]

theorem skipWs_nonws (c : Nat) (r : List Nat) (h : isWs c = false) : skipWs (c :: r) = c :: r := by
  simp [skipWs, h]

/-- What can follow a printed value inside a printed document: nothing, `,` or a newline. -/
def Follow (rest : List Nat) : Prop := ∀ c r, rest = c :: r → c = 0x2c ∨ c = 0x0a

theorem Follow.nil : Follow [] := fun _ _ h => by cases h
theorem Follow.comma (r : List Nat) : Follow (0x2c :: r) := fun _ _ h => by cases h; exact Or.inl rfl
theorem Follow.nl (d : Nat) (r : List Nat) : Follow (nl d ++ r) := fun _ _ h => by
  simp only [Ts.Json.nl, List.cons_append] at h; cases h; exact Or.inr rfl

theorem Follow.not_digit {rest : List Nat} (h : Follow rest) : ∀ c r, rest = c :: r → isDigit c = false := by
  intro c r e
  rcases h c r e with rfl | rfl <;> decide

theorem Follow.not_float {rest : List Nat} (h : Follow rest) : floatFollows rest = false := by
  cases rest with
  | nil => rfl
  | cons c r => rcases h c r rfl with rfl | rfl <;> simp [floatFollows]

theorem scanNat_natDigits (n : Nat) (rest : List Nat) (h : Follow rest) :
    scanNat (natDigits n ++ rest) = .ok (n, rest) := by
  obtain ⟨d, ds, e, hz, h1, h2⟩ := natDigits_head n
  have hall := natDigits_all n
  have hv := ofDigits_natDigits n
  rw [e] at hall hv ⊢
  simp only [List.cons_append, scanNat]
  by_cases hd : d = 48
  · obtain ⟨rfl, rfl⟩ := hz hd
    simp [hd, h.not_float]
  · have hdig : isDigit d = true := by simp [isDigit]; omega
    have hsp := spanDigits_append ds rest (fun c hc => hall c (List.mem_cons_of_mem _ hc)) h.not_digit
    simp [hd, hdig, hsp, h.not_float, hv]

theorem dictSet_notin (d : List (Str × Value)) (k : Str) (v : Value) (h : k ∉ d.map Prod.fst) :
    dictSet d k v = d ++ [(k, v)] := by
  induction d with
  | nil => rfl
  | cons kv d ih =>
    obtain ⟨k', v'⟩ := kv
    simp only [List.map_cons, List.mem_cons, not_or] at h
    simp [dictSet, Ne.symm h.1, ih h.2]

theorem foldl_dictSet (ms acc : List (Str × Value)) (h : ((acc ++ ms).map Prod.fst).Nodup) :
    ms.foldl (fun d kv => dictSet d kv.1 kv.2) acc = acc ++ ms := by
  induction ms generalizing acc with
  | nil => simp
  | cons kv ms ih =>
    have hk : kv.1 ∉ acc.map Prod.fst := by
      simp only [List.map_append, List.map_cons, List.nodup_append] at h
      intro hm
      exact h.2.2 _ hm _ (List.mem_cons_self) rfl
    simp only [List.foldl_cons, dictSet_notin acc kv.1 kv.2 hk]
    rw [ih (acc ++ [(kv.1, kv.2)]) (by simpa using h)]
    simp

theorem dictOf_nodup (ms : List (Str × Value)) (h : (ms.map Prod.fst).Nodup) : dictOf ms = ms := by
  simpa [dictOf] using foldl_dictSet ms [] (by simpa using h)

/-- A printed value starts with an ASCII character that is neither whitespace nor a closing bracket. -/
theorem printV_head (d : Nat) (v : Value) :
    ∃ c t, printV d v = c :: t ∧ isWs c = false ∧ c ≠ 0x5d ∧ c ≠ 0x7d ∧ c ≤ 0x7b := by
  match v with
  | .null => exact ⟨_, _, rfl, by decide, by decide, by decide, by decide⟩
  | .bool true => exact ⟨_, _, rfl, by decide, by decide, by decide, by decide⟩
  | .bool false => exact ⟨_, _, rfl, by decide, by decide, by decide, by decide⟩
  | .int (.ofNat n) =>
    obtain ⟨c, ds, e, _, h1, h2⟩ := natDigits_head n
    refine ⟨c, ds, by simp [printV, intDigits, e], ?_, by omega, by omega, by omega⟩
    simp [isWs]; omega
  | .int (.negSucc n) => exact ⟨0x2d, natDigits (n + 1), rfl, by decide, by decide, by decide, by decide⟩
  | .str s => exact ⟨0x22, escape s ++ [0x22], rfl, by decide, by decide, by decide, by decide⟩
  | .arr [] => exact ⟨0x5b, [0x5d], rfl, by decide, by decide, by decide, by decide⟩
  | .arr (v :: vs) => exact ⟨0x5b, _, by rw [printV], by decide, by decide, by decide, by decide⟩
  | .obj [] => exact ⟨0x7b, [0x7d], rfl, by decide, by decide, by decide, by decide⟩
  | .obj ((k, v) :: ms) => exact ⟨0x7b, _, by rw [printV], by decide, by decide, by decide, by decide⟩

theorem skipWs_printV (d : Nat) (v : Value) (X : List Nat) : skipWs (printV d v ++ X) = printV d v ++ X := by
  obtain ⟨c, t, e, hw, _, _⟩ := printV_head d v
  rw [e, List.cons_append, skipWs_nonws c _ hw]

theorem printV_length_pos (d : Nat) (v : Value) : 1 ≤ (printV d v).length := by
  obtain ⟨c, t, e, _⟩ := printV_head d v
  simp [e]


/-! ## reader ∘ printer -/

theorem parseV_arr_open (f d c : Nat) (t : List Nat) (hw : isWs c = false) (h : c ≠ 0x5d) :
    parseV (f + 1) (0x5b :: (nl d ++ (c :: t))) =
      match parseElems f (c :: t) with
      | .ok (vs, r') => .ok (.arr vs, r')
      | .error e => .error e := by
  rw [parseV.eq_def]; dsimp only
  simp only [show (0x5b : Nat) ≠ 0x22 by decide, show (0x5b : Nat) ≠ 0x7b by decide, if_false, if_true,
    skipWs_nl, skipWs_nonws c t hw, h]
  cases parseElems f (c :: t) <;> rfl

theorem parseV_obj_open (f d c : Nat) (t : List Nat) (hw : isWs c = false) (h : c ≠ 0x7d) :
    parseV (f + 1) (0x7b :: (nl d ++ (c :: t))) =
      match parseMembers f (c :: t) with
      | .ok (ms, r') => .ok (.obj (dictOf ms), r')
      | .error e => .error e := by
  rw [parseV.eq_def]; dsimp only
  simp only [show (0x7b : Nat) ≠ 0x22 by decide, if_false, if_true, skipWs_nl, skipWs_nonws c t hw, h]
  cases parseMembers f (c :: t) <;> rfl

/-- Text of a non-empty element list inside `[` … `]` (without the brackets and outer newlines). -/
def elemsText (d : Nat) : List Value → List Nat
  | [] => []
  | v :: vs => printV d v ++ printRest d vs

/-- Text of a non-empty member list inside `{` … `}`. -/
def membersText (d : Nat) : List (Str × Value) → List Nat
  | [] => []
  | (k, v) :: ms => quote k ++ (0x3a :: 0x20 :: (printV d v ++ printMembers d ms))

theorem nl_length (d : Nat) : (nl d).length = 2 * d + 1 := by simp [nl]

mutual
/-- The reader inverts the printer on every good value, at every indentation level, in front of any
continuation that starts like the rest of a printed document. -/
theorem parseV_print : (v : Value) → ∀ (d f : Nat) (rest : List Nat),
    goodV v = true → Follow rest → 2 * (printV d v).length ≤ f →
    parseV f (printV d v ++ rest) = .ok (v, rest)
  | .null, d, f, rest, _, _, hf => by
    obtain ⟨f, rfl⟩ : ∃ f', f = f' + 1 := ⟨f - 1, by simp [printV, litNull] at hf; omega⟩
    simp [printV, litNull, parseV, expectLit]
  | .bool true, d, f, rest, _, _, hf => by
    obtain ⟨f, rfl⟩ : ∃ f', f = f' + 1 := ⟨f - 1, by simp [printV, litTrue] at hf; omega⟩
    simp [printV, litTrue, parseV, expectLit]
  | .bool false, d, f, rest, _, _, hf => by
    obtain ⟨f, rfl⟩ : ∃ f', f = f' + 1 := ⟨f - 1, by simp [printV, litFalse] at hf; omega⟩
    simp [printV, litFalse, parseV, expectLit]
  | .int (.ofNat n), d, f, rest, _, hr, hf => by
    have hpos := printV_length_pos d (.int (.ofNat n))
    obtain ⟨f, rfl⟩ : ∃ f', f = f' + 1 := ⟨f - 1, by omega⟩
    obtain ⟨c, ds, e, _, h1, h2⟩ := natDigits_head n
    have hs := scanNat_natDigits n rest hr
    simp only [printV, intDigits]
    rw [e] at hs ⊢
    rw [List.cons_append] at hs ⊢
    rw [parseV.eq_def]; dsimp only
    have hdig : isDigit c = true := by simp [isDigit]; omega
    rw [if_neg (by omega), if_neg (by omega), if_neg (by omega), if_neg (by omega), if_neg (by omega),
      if_neg (by omega), if_neg (by omega), if_neg (by omega), if_neg (by omega), if_pos hdig, hs]
    rfl
  | .int (.negSucc n), d, f, rest, _, hr, hf => by
    have hpos := printV_length_pos d (.int (.negSucc n))
    obtain ⟨f, rfl⟩ : ∃ f', f = f' + 1 := ⟨f - 1, by omega⟩
    obtain ⟨c, ds, e, _, h1, h2⟩ := natDigits_head (n + 1)
    have hs := scanNat_natDigits (n + 1) rest hr
    simp only [printV, intDigits, List.cons_append]
    rw [e] at hs ⊢
    rw [List.cons_append] at hs ⊢
    rw [parseV.eq_def]; dsimp only
    simp only [show (0x2d : Nat) ≠ 0x22 by decide, show (0x2d : Nat) ≠ 0x7b by decide,
      show (0x2d : Nat) ≠ 0x5b by decide, show (0x2d : Nat) ≠ 0x6e by decide, show (0x2d : Nat) ≠ 0x74 by decide,
      show (0x2d : Nat) ≠ 0x66 by decide, show (0x2d : Nat) ≠ 0x4e by decide, show (0x2d : Nat) ≠ 0x49 by decide,
      if_false, if_true]
    rw [if_neg (by omega), hs]
    rfl
  | .str s, d, f, rest, hg, _, hf => by
    have hpos := printV_length_pos d (.str s)
    obtain ⟨f, rfl⟩ : ∃ f', f = f' + 1 := ⟨f - 1, by omega⟩
    have hs := scanStr_quote s rest (by simpa [goodV] using hg)
    simp only [printV, quote, List.cons_append, List.append_assoc, List.nil_append]
    rw [parseV.eq_def]; dsimp only
    simp only [if_true, hs]
  | .arr [], d, f, rest, _, _, hf => by
    obtain ⟨f, rfl⟩ : ∃ f', f = f' + 1 := ⟨f - 1, by simp [printV] at hf; omega⟩
    simp [printV, parseV, skipWs, isWs]
  | .arr (v :: vs), d, f, rest, hg, _, hf => by
    have hg' : goodVs (v :: vs) = true := by simpa [goodV] using hg
    have hp := printV_length_pos (d + 1) v
    simp only [printV, List.length_cons, List.length_append, nl_length] at hf
    obtain ⟨f, rfl⟩ : ∃ f', f = f' + 1 := ⟨f - 1, by omega⟩
    have key := parseElems_print (v :: vs) (d + 1) d f rest hg'
      (by simp only [elemsText, List.length_append]; omega) (by simp)
    obtain ⟨c, t, e, hw, h5d, _⟩ := printV_head (d + 1) v
    simp only [printV, List.cons_append, List.append_assoc, List.nil_append]
    simp only [elemsText, List.append_assoc] at key
    rw [e] at key ⊢
    rw [List.cons_append] at key ⊢
    rw [parseV_arr_open f (d + 1) c _ hw h5d, key]
  | .obj [], d, f, rest, _, _, hf => by
    obtain ⟨f, rfl⟩ : ∃ f', f = f' + 1 := ⟨f - 1, by simp [printV] at hf; omega⟩
    simp [printV, parseV, skipWs, isWs]
  | .obj ((k, v) :: ms), d, f, rest, hg, _, hf => by
    have hg' : goodMs ((k, v) :: ms) = true ∧ (((k, v) :: ms).map Prod.fst).Nodup := by
      simpa [goodV] using hg
    simp only [printV, List.length_cons, List.length_append, nl_length] at hf
    obtain ⟨f, rfl⟩ : ∃ f', f = f' + 1 := ⟨f - 1, by omega⟩
    have key := parseMembers_print ((k, v) :: ms) (d + 1) d f rest hg'.1
      (by simp only [membersText, List.length_append, List.length_cons]; omega) (by simp)
    simp only [printV, List.cons_append, List.append_assoc, List.nil_append]
    simp only [membersText, quote, List.cons_append, List.append_assoc, List.nil_append] at key
    simp only [quote, List.cons_append, List.append_assoc, List.nil_append]
    rw [parseV_obj_open f (d + 1) 0x22 _ (by decide) (by decide), key]
    simp only [dictOf_nodup _ hg'.2]
theorem parseElems_print : (l : List Value) → ∀ (d d' f : Nat) (rest : List Nat),
    goodVs l = true → 2 * (elemsText d l).length + 1 ≤ f → l ≠ [] →
    parseElems f (elemsText d l ++ (nl d' ++ 0x5d :: rest)) = .ok (l, rest)
  | [], _, _, _, _, _, _, hne => absurd rfl hne
  | [v], d, d', f, rest, hg, hf, _ => by
    have hgv : goodV v = true := by simpa [goodVs] using hg
    simp only [elemsText, printRest, List.append_nil] at hf ⊢
    obtain ⟨f, rfl⟩ : ∃ f', f = f' + 1 := ⟨f - 1, by omega⟩
    have hv := parseV_print v d f (nl d' ++ 0x5d :: rest) hgv (Follow.nl _ _) (by omega)
    rw [parseElems, hv]
    simp only [skipWs_nl, skipWs_nonws 0x5d rest (by decide)]
    simp
  | v :: v2 :: vs, d, d', f, rest, hg, hf, _ => by
    have hgv : goodV v = true ∧ goodVs (v2 :: vs) = true := by simpa [goodVs] using hg
    have hp := printV_length_pos d v
    simp only [elemsText, printRest, List.length_append, List.length_cons, nl_length] at hf
    obtain ⟨f, rfl⟩ : ∃ f', f = f' + 1 := ⟨f - 1, by omega⟩
    have ih := parseElems_print (v2 :: vs) d d' f rest hgv.2
      (by simp only [elemsText, List.length_append]; omega) (by simp)
    simp only [elemsText, List.append_assoc] at ih
    simp only [elemsText, printRest, List.cons_append, List.append_assoc]
    have hv := parseV_print v d f (0x2c :: (nl d ++ (printV d v2 ++ (printRest d vs ++ (nl d' ++ 0x5d :: rest)))))
      hgv.1 (Follow.comma _) (by omega)
    rw [parseElems, hv]
    simp only [skipWs_nonws 0x2c _ (by decide), skipWs_nl, skipWs_printV, if_true, ih]
theorem parseMembers_print : (l : List (Str × Value)) → ∀ (d d' f : Nat) (rest : List Nat),
    goodMs l = true → 2 * (membersText d l).length + 1 ≤ f → l ≠ [] →
    parseMembers f (membersText d l ++ (nl d' ++ 0x7d :: rest)) = .ok (l, rest)
  | [], _, _, _, _, _, _, hne => absurd rfl hne
  | [(k, v)], d, d', f, rest, hg, hf, _ => by
    have hgv : goodStr k = true ∧ goodV v = true := by simpa [goodMs] using hg
    simp only [membersText, printMembers, List.append_nil, List.length_append, List.length_cons] at hf
    obtain ⟨f, rfl⟩ : ∃ f', f = f' + 1 := ⟨f - 1, by omega⟩
    have hv := parseV_print v d f (nl d' ++ 0x7d :: rest) hgv.2 (Follow.nl _ _) (by omega)
    have hk := scanStr_quote k (0x3a :: 0x20 :: (printV d v ++ (nl d' ++ 0x7d :: rest))) hgv.1
    simp only [membersText, printMembers, quote, List.append_nil, List.cons_append, List.append_assoc, List.nil_append]
    rw [parseMembers]
    simp only [if_true, hk, skipWs_nonws 0x3a _ (by decide)]
    have h20 : skipWs (0x20 :: (printV d v ++ (nl d' ++ 0x7d :: rest))) = printV d v ++ (nl d' ++ 0x7d :: rest) := by
      rw [skipWs]; simp only [show isWs 0x20 = true by decide, if_true, skipWs_printV]
    simp only [h20, hv, skipWs_nl, skipWs_nonws 0x7d rest (by decide)]
    simp
  | (k, v) :: (k2, v2) :: ms, d, d', f, rest, hg, hf, _ => by
    have hgv : (goodStr k = true ∧ goodV v = true) ∧ goodMs ((k2, v2) :: ms) = true := by
      simpa [goodMs] using hg
    have hp := printV_length_pos d v
    simp only [membersText, printMembers, quote, List.length_append, List.length_cons, nl_length] at hf
    obtain ⟨f, rfl⟩ : ∃ f', f = f' + 1 := ⟨f - 1, by omega⟩
    have ih := parseMembers_print ((k2, v2) :: ms) d d' f rest hgv.2
      (by simp only [membersText, quote, List.length_append, List.length_cons]; omega) (by simp)
    simp only [membersText, quote, List.cons_append, List.append_assoc, List.nil_append] at ih
    have hv := parseV_print v d f
      (0x2c :: (nl d ++ (0x22 :: (escape k2 ++ (0x22 :: 0x3a :: 0x20 :: (printV d v2 ++ (printMembers d ms ++ (nl d' ++ 0x7d :: rest))))))))
      hgv.1.2 (Follow.comma _) (by omega)
    have hk := scanStr_quote k (0x3a :: 0x20 :: (printV d v ++
      (0x2c :: (nl d ++ (0x22 :: (escape k2 ++ (0x22 :: 0x3a :: 0x20 :: (printV d v2 ++ (printMembers d ms ++ (nl d' ++ 0x7d :: rest)))))))))) hgv.1.1
    simp only [membersText, printMembers, quote, List.cons_append, List.append_assoc, List.nil_append]
    rw [parseMembers]
    simp only [if_true, hk, skipWs_nonws 0x3a _ (by decide)]
    have h20 : ∀ X, skipWs (0x20 :: (printV d v ++ X)) = printV d v ++ X := by
      intro X; rw [skipWs]; simp only [show isWs 0x20 = true by decide, if_true, skipWs_printV]
    simp only [h20, hv, skipWs_nonws 0x2c _ (by decide), skipWs_nl, skipWs_nonws 0x22 _ (by decide), if_true, ih]
end


/-- `json.loads(json.dumps(v, indent=2)) == v` for every good value. -/
theorem parse_print (v : Value) (h : goodV v = true) : parse (print v) = .ok v := by
  obtain ⟨c, t, e, hw, _, _, hc⟩ := printV_head 0 v
  have hp := parseV_print v 0 (2 * (printV 0 v).length + 2) [] h Follow.nil (by omega)
  rw [List.append_nil] at hp
  simp only [print, parse]
  rw [e] at hp ⊢
  simp only
  rw [if_neg (by omega), skipWs_nonws c t hw, hp]
  simp [skipWs]

/-! ## strict prefixes -/

/-- `p` is a strict prefix of `full`. -/
def SP (p full : List Nat) : Prop := ∃ t, t ≠ [] ∧ p ++ t = full

theorem SP.not_nil {p : List Nat} : ¬ SP p [] := by
  rintro ⟨t, ht, e⟩
  cases p <;> simp_all

theorem SP_cons {p full : List Nat} {c : Nat} : SP p (c :: full) ↔ p = [] ∨ ∃ q, p = c :: q ∧ SP q full := by
  constructor
  · rintro ⟨t, ht, e⟩
    cases p with
    | nil => exact Or.inl rfl
    | cons x q =>
      simp only [List.cons_append, List.cons.injEq] at e
      exact Or.inr ⟨q, by rw [e.1], t, ht, e.2⟩
  · rintro (rfl | ⟨q, rfl, t, ht, e⟩)
    · exact ⟨c :: full, by simp, rfl⟩
    · exact ⟨t, ht, by simp [e]⟩

theorem SP_singleton {p : List Nat} {c : Nat} (h : SP p [c]) : p = [] := by
  rcases SP_cons.mp h with rfl | ⟨q, _, hq⟩
  · rfl
  · exact absurd hq SP.not_nil

theorem SP_append {p a b : List Nat} (h : SP p (a ++ b)) : SP p a ∨ ∃ q, p = a ++ q ∧ SP q b := by
  obtain ⟨t, ht, e⟩ := h
  rcases List.append_eq_append_iff.mp e with ⟨a', ha, hb⟩ | ⟨c', hp, hb⟩
  · -- a = p ++ a', t = a' ++ b
    cases a' with
    | nil => exact Or.inr ⟨[], by simp [ha], t, ht, by simp [hb]⟩
    | cons x a' => exact Or.inl ⟨x :: a', by simp, ha.symm⟩
  · exact Or.inr ⟨c', hp, t, ht, hb.symm⟩

theorem SP.length_lt {p full : List Nat} (h : SP p full) : p.length < full.length := by
  obtain ⟨t, ht, e⟩ := h
  subst e
  cases t with
  | nil => exact absurd rfl ht
  | cons x t => simp <;> omega

theorem SP.follow {q X : List Nat} (h : SP q X) (hX : Follow X) : Follow q := by
  obtain ⟨t, _, e⟩ := h
  intro c r hq
  subst hq e
  exact hX c (r ++ t) rfl

/-- A prefix of whitespace is whitespace. -/
theorem skipWs_prefix_nl {q t : List Nat} {d : Nat} (e : q ++ t = nl d) : skipWs q = [] := by
  have hall : ∀ c ∈ nl d, isWs c = true := by
    intro c hc
    simp only [nl, List.mem_cons, List.mem_replicate] at hc
    rcases hc with rfl | ⟨_, rfl⟩ <;> decide
  have hq : ∀ c ∈ q, isWs c = true := fun c hc => hall c (by rw [← e]; exact List.mem_append_left _ hc)
  clear e hall
  induction q with
  | nil => rfl
  | cons c q ih => simp [skipWs, hq c (List.mem_cons_self), ih (fun x hx => hq x (List.mem_cons_of_mem _ hx))]

theorem skipWs_SP_nl {q : List Nat} {d : Nat} (h : SP q (nl d)) : skipWs q = [] := by
  obtain ⟨t, _, e⟩ := h
  exact skipWs_prefix_nl e

theorem skipWs_nl_self (d : Nat) : skipWs (nl d) = [] := skipWs_prefix_nl (List.append_nil _)

/-- A prefix of a printed value (followed by anything) starts, if at all, with a non-blank. -/
theorem skipWs_SP_printV {q X : List Nat} {d : Nat} {v : Value} (h : SP q (printV d v ++ X)) : skipWs q = q := by
  obtain ⟨c, t, e, hw, _⟩ := printV_head d v
  rw [e, List.cons_append] at h
  rcases SP_cons.mp h with rfl | ⟨q', rfl, _⟩
  · rfl
  · exact skipWs_nonws c q' hw

/-! ## strings: every strict prefix of an encoded string is unterminated -/

theorem scanAux_nil (p : Option Nat) : scanAux p [] = .error .eof := by
  rw [scanAux.eq_def]

theorem consChar_error (c : Nat) (e : Err) : consChar c (.error e) = .error e := rfl

theorem scanAux_partial_uEsc (u : Nat) (p : Option Nat) (q : List Nat) (h : SP q (uEsc u)) :
    scanAux p q = .error .eof := by
  simp only [uEsc, hex4] at h
  rcases SP_cons.mp h with rfl | ⟨q1, rfl, h1⟩
  · exact scanAux_nil p
  rcases SP_cons.mp h1 with rfl | ⟨q2, rfl, h2⟩
  · rw [scanAux.eq_def]; simp
  rcases SP_cons.mp h2 with rfl | ⟨q3, rfl, h3⟩
  · rw [scanAux.eq_def]; simp
  rcases SP_cons.mp h3 with rfl | ⟨q4, rfl, h4⟩
  · rw [scanAux.eq_def]; simp
  rcases SP_cons.mp h4 with rfl | ⟨q5, rfl, h5⟩
  · rw [scanAux.eq_def]; simp
  rcases SP_cons.mp h5 with rfl | ⟨q6, rfl, h6⟩
  · rw [scanAux.eq_def]; simp
  exact absurd h6 SP.not_nil

theorem scanAux_partial_escChar (c : Nat) (hc : c < 0x110000) (p : Option Nat) (q : List Nat)
    (h : SP q (escChar c)) : scanAux p q = .error .eof := by
  have two : ∀ x : Nat, SP q [0x5c, x] → scanAux p q = .error .eof := by
    intro x h
    rcases SP_cons.mp h with rfl | ⟨q1, rfl, h1⟩
    · exact scanAux_nil p
    · rw [SP_singleton h1, scanAux.eq_def]; simp
  unfold escChar at h
  split at h
  · exact two _ h
  split at h
  · exact two _ h
  split at h
  · exact two _ h
  split at h
  · exact two _ h
  split at h
  · exact two _ h
  split at h
  · exact two _ h
  split at h
  · exact two _ h
  split at h
  · rw [SP_singleton h]; exact scanAux_nil p
  split at h
  · exact scanAux_partial_uEsc c p q h
  · rename_i h9
    have hH : isHigh (0xD800 + (c - 0x10000) / 1024 % 1024) = true := by
      simp [isHigh]; omega
    have hHl : isLow (0xD800 + (c - 0x10000) / 1024 % 1024) = false := by
      simp [isLow]; omega
    rcases SP_append h with h1 | ⟨q2, rfl, h2⟩
    · exact scanAux_partial_uEsc _ p q h1
    · have e2 := scanAux_partial_uEsc _ (some (0xD800 + (c - 0x10000) / 1024 % 1024)) q2 h2
      rw [scanAux_uEsc _ (by omega)]
      cases p with
      | none => simp [hH, e2]
      | some hi => simp [hH, hHl, e2, consChar]

/-- Every strict prefix of `escape s ++ '"'` leaves the scanner without a closing quote. -/
theorem scanAux_prefix (s : Str) : ∀ (p : Option Nat) (q : List Nat),
    validStr s = true → noAdjSurr s = true → PendingOk p s → SP q (escape s ++ [0x22]) →
    scanAux p q = .error .eof := by
  induction s with
  | nil =>
    intro p q _ _ _ h
    rw [escape, List.nil_append] at h
    rw [SP_singleton h]; exact scanAux_nil p
  | cons c s ih =>
    intro p q hv hn hp h
    obtain ⟨hc, hv'⟩ := validStr_cons hv
    have hn' := noAdjSurr_tail hn
    have hlow : ∀ hi, p = some hi → isLow c = false := fun hi h => (hp hi h).2 c s rfl
    rw [escape, List.append_assoc] at h
    rcases SP_append h with h1 | ⟨q2, rfl, h2⟩
    · exact scanAux_partial_escChar c hc p q h1
    · rw [scanAux_escChar c hc p hlow]
      by_cases hh : isHigh c = true
      · have := ih (some c) q2 hv' hn' (fun hi h => by cases h; exact ⟨hh, noAdjSurr_head hn hh⟩) h2
        simp [hh, this, flushPending_error]
      · have := ih none q2 hv' hn' (fun hi h => by cases h) h2
        simp [hh, this, flushPending_error, consChar_error]

theorem scanStr_prefix (s : Str) (q : List Nat) (h : goodStr s = true) (hq : SP q (escape s ++ [0x22])) :
    scanStr q = .error .eof := by
  simp only [goodStr, Bool.and_eq_true] at h
  exact scanAux_prefix s none q h.1 h.2 (fun hi e => by cases e) hq

/-! ## reader on strict prefixes of a printed value -/

theorem parseV_nil (f : Nat) (h : 1 ≤ f) : parseV f [] = .error .eof := by
  obtain ⟨f, rfl⟩ : ∃ f', f = f' + 1 := ⟨f - 1, by omega⟩
  rw [parseV.eq_def]

theorem parseElems_nil (f : Nat) (h : 2 ≤ f) : parseElems f [] = .error .eof := by
  obtain ⟨f, rfl⟩ : ∃ f', f = f' + 1 := ⟨f - 1, by omega⟩
  rw [parseElems, parseV_nil f (by omega)]

theorem parseMembers_nil (f : Nat) (h : 1 ≤ f) : parseMembers f [] = .error .eof := by
  obtain ⟨f, rfl⟩ : ∃ f', f = f' + 1 := ⟨f - 1, by omega⟩
  rw [parseMembers.eq_def]

theorem scanNat_all_digits (q : List Nat) (hne : q ≠ []) (hall : ∀ c ∈ q, isDigit c = true)
    (h0 : ∀ r, q ≠ 48 :: r) : scanNat q = .ok (ofDigits q, []) := by
  cases q with
  | nil => exact absurd rfl hne
  | cons c cs =>
    have hc : c ≠ 48 := fun e => h0 cs (by rw [e])
    have hsp := spanDigits_append cs [] (fun x hx => hall x (List.mem_cons_of_mem _ hx)) (fun _ _ e => by cases e)
    rw [List.append_nil] at hsp
    simp [scanNat, hc, hall c (List.mem_cons_self), hsp, floatFollows]

/-- A non-empty strict prefix of a decimal numeral is a numeral without a leading zero. -/
theorem SP_natDigits {q : List Nat} {n : Nat} (h : SP q (natDigits n)) (hne : q ≠ []) :
    (∀ c ∈ q, isDigit c = true) ∧ ∀ r, q ≠ 48 :: r := by
  obtain ⟨t, ht, e⟩ := h
  refine ⟨fun c hc => natDigits_all n c (by rw [← e]; exact List.mem_append_left _ hc), ?_⟩
  intro r hq
  obtain ⟨d, ds, e2, hz, _, _⟩ := natDigits_head n
  subst hq
  rw [e2] at e
  simp only [List.cons_append, List.cons.injEq] at e
  have := (hz e.1.symm).2
  rw [this] at e
  have : t = [] := by
    have := e.2
    cases r <;> simp_all
  exact ht this

/-- Outcome of the reader on a strict prefix of a printed value: it ran out of input, or — only inside
an integer literal — it read a shorter literal and nothing is left. -/
def IncV (v : Value) (r : Except Err (Value × List Nat)) : Prop :=
  r = .error .eof ∨ ((∃ i, v = .int i) ∧ ∃ v', r = .ok (v', []))

theorem parseV_prefix_lit (f : Nat) (p lit : List Nat) (c : Nat) (v : Value) (hf : 1 ≤ f)
    (h : SP p (c :: lit))
    (hstep : ∀ f cs, parseV (f + 1) (c :: cs) = match expectLit lit cs with
      | .ok r => .ok (v, r)
      | .error e => .error e) :
    parseV f p = .error .eof := by
  obtain ⟨f, rfl⟩ : ∃ f', f = f' + 1 := ⟨f - 1, by omega⟩
  rcases SP_cons.mp h with rfl | ⟨q, rfl, hq⟩
  · exact parseV_nil _ (by omega)
  · rw [hstep]
    have : expectLit lit q = .error .eof := by
      clear hstep h
      induction lit generalizing q with
      | nil => exact absurd hq SP.not_nil
      | cons l lit ih =>
        rcases SP_cons.mp hq with rfl | ⟨q', rfl, hq'⟩
        · rfl
        · simp [expectLit, ih q' hq']
    rw [this]

mutual
/-- On every strict prefix of a printed good value the reader runs out of input (`IncV`). -/
theorem parseV_prefix : (v : Value) → ∀ (d f : Nat) (p : List Nat),
    goodV v = true → SP p (printV d v) → 2 * p.length + 1 ≤ f → IncV v (parseV f p)
  | .null, d, f, p, _, h, hf => by
    refine Or.inl (parseV_prefix_lit f p [0x75, 0x6c, 0x6c] 0x6e .null (by omega) h ?_)
    intro f cs; rw [parseV.eq_def]; simp
    cases expectLit _ cs <;> rfl
  | .bool true, d, f, p, _, h, hf => by
    refine Or.inl (parseV_prefix_lit f p [0x72, 0x75, 0x65] 0x74 (.bool true) (by omega) h ?_)
    intro f cs; rw [parseV.eq_def]; simp
    cases expectLit _ cs <;> rfl
  | .bool false, d, f, p, _, h, hf => by
    refine Or.inl (parseV_prefix_lit f p [0x61, 0x6c, 0x73, 0x65] 0x66 (.bool false) (by omega) h ?_)
    intro f cs; rw [parseV.eq_def]; simp
    cases expectLit _ cs <;> rfl
  | .int (.ofNat n), d, f, p, _, h, hf => by
    obtain ⟨f, rfl⟩ : ∃ f', f = f' + 1 := ⟨f - 1, by omega⟩
    simp only [printV, intDigits] at h
    cases p with
    | nil => exact Or.inl (parseV_nil _ (by omega))
    | cons c q =>
      obtain ⟨hall, h0⟩ := SP_natDigits h (by simp)
      have hs := scanNat_all_digits (c :: q) (by simp) hall h0
      have hc := (isDigit_iff c).mp (hall c (List.mem_cons_self))
      refine Or.inr ⟨⟨_, rfl⟩, .int (ofDigits (c :: q) : Int), ?_⟩
      rw [parseV.eq_def]; dsimp only
      rw [if_neg (by omega), if_neg (by omega), if_neg (by omega), if_neg (by omega), if_neg (by omega),
        if_neg (by omega), if_neg (by omega), if_neg (by omega), if_neg (by omega),
        if_pos (hall c (List.mem_cons_self)), hs]
  | .int (.negSucc n), d, f, p, _, h, hf => by
    obtain ⟨f, rfl⟩ : ∃ f', f = f' + 1 := ⟨f - 1, by omega⟩
    simp only [printV, intDigits] at h
    rcases SP_cons.mp h with rfl | ⟨q, rfl, hq⟩
    · exact Or.inl (parseV_nil _ (by omega))
    · cases q with
      | nil => left; rw [parseV.eq_def]; simp
      | cons c q =>
        obtain ⟨hall, h0⟩ := SP_natDigits hq (by simp)
        have hs := scanNat_all_digits (c :: q) (by simp) hall h0
        have hc := (isDigit_iff c).mp (hall c (List.mem_cons_self))
        refine Or.inr ⟨⟨_, rfl⟩, .int (-(ofDigits (c :: q) : Int)), ?_⟩
        rw [parseV.eq_def]; dsimp only
        simp only [show (0x2d : Nat) ≠ 0x22 by decide, show (0x2d : Nat) ≠ 0x7b by decide,
          show (0x2d : Nat) ≠ 0x5b by decide, show (0x2d : Nat) ≠ 0x6e by decide, show (0x2d : Nat) ≠ 0x74 by decide,
          show (0x2d : Nat) ≠ 0x66 by decide, show (0x2d : Nat) ≠ 0x4e by decide, show (0x2d : Nat) ≠ 0x49 by decide,
          if_false, if_true]
        rw [if_neg (by omega), hs]
  | .str s, d, f, p, hg, h, hf => by
    obtain ⟨f, rfl⟩ : ∃ f', f = f' + 1 := ⟨f - 1, by omega⟩
    simp only [printV, quote] at h
    rcases SP_cons.mp h with rfl | ⟨q, rfl, hq⟩
    · exact Or.inl (parseV_nil _ (by omega))
    · left
      have := scanStr_prefix s q (by simpa [goodV] using hg) hq
      rw [parseV.eq_def]; dsimp only
      simp only [if_true, this]
  | .arr [], d, f, p, _, h, hf => by
    obtain ⟨f, rfl⟩ : ∃ f', f = f' + 1 := ⟨f - 1, by omega⟩
    simp only [printV] at h
    rcases SP_cons.mp h with rfl | ⟨q, rfl, hq⟩
    · exact Or.inl (parseV_nil _ (by omega))
    · left; rw [SP_singleton hq, parseV.eq_def]; simp [skipWs]
  | .arr (v :: vs), d, f, p, hg, h, hf => by
    have hg' : goodVs (v :: vs) = true := by simpa [goodV] using hg
    obtain ⟨f, rfl⟩ : ∃ f', f = f' + 1 := ⟨f - 1, by omega⟩
    have htext : printV d (.arr (v :: vs)) = 0x5b :: (nl (d + 1) ++ (elemsText (d + 1) (v :: vs) ++ (nl d ++ [0x5d]))) := by
      simp [printV, elemsText]
    rw [htext] at h
    left
    rcases SP_cons.mp h with rfl | ⟨q, rfl, hq⟩
    · exact parseV_nil _ (by omega)
    rcases SP_append hq with h1 | ⟨q2, rfl, h2⟩
    · rw [parseV.eq_def]; simp [skipWs_SP_nl h1]
    · have hsk : skipWs q2 = q2 := skipWs_SP_printV (d := d + 1) (v := v) (by simpa [elemsText] using h2)
      simp only [List.length_cons, List.length_append, nl_length] at hf
      have hel := parseElems_prefix (v :: vs) (d + 1) d f q2 hg' (by simp) h2 (by omega)
      obtain ⟨c, t, e, hw, h5d, _⟩ := printV_head (d + 1) v
      cases q2 with
      | nil => rw [parseV.eq_def]; simp [skipWs_nl_self]
      | cons c' t' =>
        have hc' : c' = c := by
          simp only [elemsText, e, List.cons_append] at h2
          rcases SP_cons.mp h2 with h0 | ⟨_, h0, _⟩
          · cases h0
          · cases h0; rfl
        subst hc'
        rw [parseV_arr_open f (d + 1) c' t' hw h5d, hel]
  | .obj [], d, f, p, _, h, hf => by
    obtain ⟨f, rfl⟩ : ∃ f', f = f' + 1 := ⟨f - 1, by omega⟩
    simp only [printV] at h
    rcases SP_cons.mp h with rfl | ⟨q, rfl, hq⟩
    · exact Or.inl (parseV_nil _ (by omega))
    · left; rw [SP_singleton hq, parseV.eq_def]; simp [skipWs]
  | .obj ((k, v) :: ms), d, f, p, hg, h, hf => by
    have hg' : goodMs ((k, v) :: ms) = true ∧ (((k, v) :: ms).map Prod.fst).Nodup := by
      simpa [goodV] using hg
    obtain ⟨f, rfl⟩ : ∃ f', f = f' + 1 := ⟨f - 1, by omega⟩
    have htext : printV d (.obj ((k, v) :: ms)) =
        0x7b :: (nl (d + 1) ++ (membersText (d + 1) ((k, v) :: ms) ++ (nl d ++ [0x7d]))) := by
      simp [printV, membersText]
    rw [htext] at h
    left
    rcases SP_cons.mp h with rfl | ⟨q, rfl, hq⟩
    · exact parseV_nil _ (by omega)
    rcases SP_append hq with h1 | ⟨q2, rfl, h2⟩
    · rw [parseV.eq_def]; simp [skipWs_SP_nl h1]
    · simp only [List.length_cons, List.length_append, nl_length] at hf
      have hel := parseMembers_prefix ((k, v) :: ms) (d + 1) d f q2 hg'.1 (by simp) h2 (by omega)
      cases q2 with
      | nil => rw [parseV.eq_def]; simp [skipWs_nl_self]
      | cons c' t' =>
        have hc' : c' = 0x22 := by
          simp only [membersText, quote, List.cons_append] at h2
          rcases SP_cons.mp h2 with h0 | ⟨_, h0, _⟩
          · cases h0
          · cases h0; rfl
        subst hc'
        rw [parseV_obj_open f (d + 1) 0x22 t' (by decide) (by decide), hel]
/-- …and the element loop of an array runs out of input on every strict prefix that stops before `]`. -/
theorem parseElems_prefix : (l : List Value) → ∀ (d d' f : Nat) (p : List Nat),
    goodVs l = true → l ≠ [] → SP p (elemsText d l ++ (nl d' ++ [0x5d])) → 2 * p.length + 2 ≤ f →
    parseElems f p = .error .eof
  | [], _, _, _, _, _, hne, _, _ => absurd rfl hne
  | [v], d, d', f, p, hg, _, h, hf => by
    have hgv : goodV v = true := by simpa [goodVs] using hg
    obtain ⟨f, rfl⟩ : ∃ f', f = f' + 1 := ⟨f - 1, by omega⟩
    simp only [elemsText, printRest, List.append_nil] at h
    rw [parseElems]
    rcases SP_append h with h1 | ⟨q, rfl, h2⟩
    · rcases parseV_prefix v d f p hgv h1 (by omega) with e | ⟨_, v', e⟩
      · rw [e]
      · rw [e]; simp [skipWs]
    · simp only [List.length_append] at hf
      rw [parseV_print v d f q hgv (h2.follow (Follow.nl _ _)) (by omega)]
      have : skipWs q = [] := by
        rcases SP_append h2 with h3 | ⟨q2, rfl, h4⟩
        · exact skipWs_SP_nl h3
        · rw [SP_singleton h4, List.append_nil]; exact skipWs_nl_self _
      simp [this]
  | v :: v2 :: vs, d, d', f, p, hg, _, h, hf => by
    have hgv : goodV v = true ∧ goodVs (v2 :: vs) = true := by simpa [goodVs] using hg
    obtain ⟨f, rfl⟩ : ∃ f', f = f' + 1 := ⟨f - 1, by omega⟩
    have htext : elemsText d (v :: v2 :: vs) ++ (nl d' ++ [0x5d]) =
        printV d v ++ (0x2c :: (nl d ++ (elemsText d (v2 :: vs) ++ (nl d' ++ [0x5d])))) := by
      simp [elemsText, printRest]
    rw [htext] at h
    rw [parseElems]
    rcases SP_append h with h1 | ⟨q, rfl, h2⟩
    · rcases parseV_prefix v d f p hgv.1 h1 (by omega) with e | ⟨_, v', e⟩
      · rw [e]
      · rw [e]; simp [skipWs]
    · simp only [List.length_append] at hf
      have hp := printV_length_pos d v
      rw [parseV_print v d f q hgv.1 (h2.follow (Follow.comma _)) (by omega)]
      rcases SP_cons.mp h2 with rfl | ⟨q3, rfl, h3⟩
      · simp [skipWs]
      · have : parseElems f (skipWs q3) = .error .eof := by
          simp only [List.length_cons] at hf
          rcases SP_append h3 with h4 | ⟨q4, rfl, h5⟩
          · rw [skipWs_SP_nl h4]; exact parseElems_nil f (by omega)
          · have hsk : skipWs q4 = q4 := skipWs_SP_printV (d := d) (v := v2) (by simpa [elemsText] using h5)
            simp only [List.length_append, nl_length] at hf
            rw [skipWs_nl, hsk]
            exact parseElems_prefix (v2 :: vs) d d' f q4 hgv.2 (by simp) h5 (by omega)
        simp [skipWs_nonws 0x2c q3 (by decide), this]
/-- …and the member loop of an object runs out of input on every strict prefix that stops before `}`. -/
theorem parseMembers_prefix : (l : List (Str × Value)) → ∀ (d d' f : Nat) (p : List Nat),
    goodMs l = true → l ≠ [] → SP p (membersText d l ++ (nl d' ++ [0x7d])) → 2 * p.length + 2 ≤ f →
    parseMembers f p = .error .eof
  | [], _, _, _, _, _, hne, _, _ => absurd rfl hne
  | [(k, v)], d, d', f, p, hg, _, h, hf => by
    have hgv : goodStr k = true ∧ goodV v = true := by simpa [goodMs] using hg
    obtain ⟨f, rfl⟩ : ∃ f', f = f' + 1 := ⟨f - 1, by omega⟩
    have htext : membersText d [(k, v)] ++ (nl d' ++ [0x7d]) =
        0x22 :: ((escape k ++ [0x22]) ++ (0x3a :: 0x20 :: (printV d v ++ (nl d' ++ [0x7d])))) := by
      simp [membersText, printMembers, quote]
    rw [htext] at h
    rcases SP_cons.mp h with rfl | ⟨q, rfl, hq⟩
    · exact parseMembers_nil _ (by omega)
    rw [parseMembers.eq_def]; dsimp only
    simp only [if_true]
    rcases SP_append hq with h1 | ⟨q2, rfl, h2⟩
    · rw [scanStr_prefix k q hgv.1 h1]
    rw [List.append_assoc, List.singleton_append, scanStr_quote k q2 hgv.1]
    dsimp only
    rcases SP_cons.mp h2 with rfl | ⟨q3, rfl, h3⟩
    · simp [skipWs]
    rw [skipWs_nonws 0x3a q3 (by decide)]
    dsimp only
    simp only [if_true]
    simp only [List.length_cons, List.length_append] at hf
    rcases SP_cons.mp h3 with rfl | ⟨q4, rfl, h4⟩
    · simp [skipWs, parseV_nil f (by omega)]
    have hsk : skipWs (0x20 :: q4) = q4 := by
      rw [skipWs]; simp only [show isWs 0x20 = true by decide, if_true]
      exact skipWs_SP_printV h4
    rw [hsk]
    simp only [List.length_cons] at hf
    rcases SP_append h4 with h5 | ⟨q5, rfl, h6⟩
    · rcases parseV_prefix v d f q4 hgv.2 h5 (by omega) with e | ⟨_, v', e⟩
      · rw [e]
      · rw [e]; simp [skipWs]
    · simp only [List.length_append] at hf
      rw [parseV_print v d f q5 hgv.2 (h6.follow (Follow.nl _ _)) (by omega)]
      have : skipWs q5 = [] := by
        rcases SP_append h6 with h7 | ⟨q6, rfl, h8⟩
        · exact skipWs_SP_nl h7
        · rw [SP_singleton h8, List.append_nil]; exact skipWs_nl_self _
      simp [this]
  | (k, v) :: (k2, v2) :: ms, d, d', f, p, hg, _, h, hf => by
    have hgv : (goodStr k = true ∧ goodV v = true) ∧ goodMs ((k2, v2) :: ms) = true := by
      simpa [goodMs] using hg
    obtain ⟨f, rfl⟩ : ∃ f', f = f' + 1 := ⟨f - 1, by omega⟩
    have htext : membersText d ((k, v) :: (k2, v2) :: ms) ++ (nl d' ++ [0x7d]) =
        0x22 :: ((escape k ++ [0x22]) ++ (0x3a :: 0x20 :: (printV d v ++
          (0x2c :: (nl d ++ (membersText d ((k2, v2) :: ms) ++ (nl d' ++ [0x7d]))))))) := by
      simp [membersText, printMembers, quote]
    rw [htext] at h
    rcases SP_cons.mp h with rfl | ⟨q, rfl, hq⟩
    · exact parseMembers_nil _ (by omega)
    rw [parseMembers.eq_def]; dsimp only
    simp only [if_true]
    rcases SP_append hq with h1 | ⟨q2, rfl, h2⟩
    · rw [scanStr_prefix k q hgv.1.1 h1]
    rw [List.append_assoc, List.singleton_append, scanStr_quote k q2 hgv.1.1]
    dsimp only
    rcases SP_cons.mp h2 with rfl | ⟨q3, rfl, h3⟩
    · simp [skipWs]
    rw [skipWs_nonws 0x3a q3 (by decide)]
    dsimp only
    simp only [if_true]
    simp only [List.length_cons, List.length_append] at hf
    rcases SP_cons.mp h3 with rfl | ⟨q4, rfl, h4⟩
    · simp [skipWs, parseV_nil f (by omega)]
    have hsk : skipWs (0x20 :: q4) = q4 := by
      rw [skipWs]; simp only [show isWs 0x20 = true by decide, if_true]
      exact skipWs_SP_printV h4
    rw [hsk]
    simp only [List.length_cons] at hf
    rcases SP_append h4 with h5 | ⟨q5, rfl, h6⟩
    · rcases parseV_prefix v d f q4 hgv.1.2 h5 (by omega) with e | ⟨_, v', e⟩
      · rw [e]
      · rw [e]; simp [skipWs]
    · simp only [List.length_append] at hf
      have hp := printV_length_pos d v
      rw [parseV_print v d f q5 hgv.1.2 (h6.follow (Follow.comma _)) (by omega)]
      rcases SP_cons.mp h6 with rfl | ⟨q6, rfl, h7⟩
      · simp [skipWs]
      · have : parseMembers f (skipWs q6) = .error .eof := by
          simp only [List.length_cons] at hf
          rcases SP_append h7 with h8 | ⟨q7, rfl, h9⟩
          · rw [skipWs_SP_nl h8]; exact parseMembers_nil f (by omega)
          · have hsk7 : skipWs q7 = q7 := by
              cases q7 with
              | nil => rfl
              | cons c t =>
                have hc : c = 0x22 := by
                  simp only [membersText, quote, List.cons_append] at h9
                  rcases SP_cons.mp h9 with h0 | ⟨_, h0, _⟩
                  · cases h0
                  · cases h0; rfl
                subst hc; exact skipWs_nonws 0x22 t (by decide)
            simp only [List.length_append, nl_length] at hf
            rw [skipWs_nl, hsk7]
            exact parseMembers_prefix ((k2, v2) :: ms) d d' f q7 hgv.2 (by simp) h9 (by omega)
        simp [skipWs_nonws 0x2c q6 (by decide), this]
end

/-- `json.loads` on a strict prefix of `json.dumps(v, indent=2)` for a good array or object `v`:
"unexpected end of input". -/
theorem parse_prefix (v : Value) (h : goodV v = true) (hc : ∀ i, v ≠ .int i) (p : List Nat) (hp : SP p (print v)) :
    parse p = .error .eof := by
  cases p with
  | nil => rfl
  | cons c t =>
    obtain ⟨c0, t0, e, hw, _, _, hc0⟩ := printV_head 0 v
    have hcc : c = c0 := by
      simp only [print, e] at hp
      rcases SP_cons.mp hp with h0 | ⟨_, h0, _⟩
      · cases h0
      · cases h0; rfl
    subst hcc
    simp only [parse]
    rw [if_neg (by omega), skipWs_nonws c t hw]
    rcases parseV_prefix v 0 (2 * (c :: t).length + 2) (c :: t) h hp (by omega) with e1 | ⟨⟨i, hi⟩, _⟩
    · rw [e1]
    · exact absurd hi (hc i)

/-! ## the reader's recursion budget is never exhausted -/

theorem consChar_ok {c : Nat} {res : Except Err (Str × List Nat)} {x : Str} {r : List Nat}
    (h : consChar c res = .ok (x, r)) : ∃ x', res = .ok (x', r) := by
  cases res with
  | error e => cases h
  | ok p => obtain ⟨a, b⟩ := p; simp only [consChar, Except.ok.injEq, Prod.mk.injEq] at h; exact ⟨a, by rw [h.2]⟩

theorem flushPending_ok {p : Option Nat} {res : Except Err (Str × List Nat)} {x : Str} {r : List Nat}
    (h : flushPending p res = .ok (x, r)) : ∃ x', res = .ok (x', r) := by
  cases p with
  | none => exact ⟨x, h⟩
  | some hi => exact consChar_ok h

theorem scanAux_length (p : Option Nat) (s : List Nat) : ∀ x r, scanAux p s = .ok (x, r) → r.length < s.length := by
  fun_induction scanAux p s <;> intro x r h
  all_goals first
    | (cases h; done)
    | (obtain ⟨_, h1⟩ := consChar_ok h; obtain ⟨_, h2⟩ := consChar_ok h1
       have := ‹∀ (x : Str) (r : List Nat), scanAux _ _ = Except.ok (x, r) → r.length < _› _ _ h2
       simp only [List.length_cons]; omega)
    | (obtain ⟨_, h1⟩ := consChar_ok h
       have := ‹∀ (x : Str) (r : List Nat), scanAux _ _ = Except.ok (x, r) → r.length < _› _ _ h1
       simp only [List.length_cons]; omega)
    | (obtain ⟨_, h1⟩ := flushPending_ok h; obtain ⟨_, h2⟩ := consChar_ok h1
       have := ‹∀ (x : Str) (r : List Nat), scanAux _ _ = Except.ok (x, r) → r.length < _› _ _ h2
       simp only [List.length_cons]; omega)
    | (obtain ⟨_, h1⟩ := flushPending_ok h; cases h1; simp; done)
    | (have := ‹∀ (x : Str) (r : List Nat), scanAux _ _ = Except.ok (x, r) → r.length < _› _ _ h
       simp only [List.length_cons]; omega)

theorem skipWs_length_le (s : List Nat) : (skipWs s).length ≤ s.length := by
  induction s with
  | nil => simp [skipWs]
  | cons c s ih => simp only [skipWs]; split <;> simp <;> omega

theorem expectLit_length (l s r : List Nat) (h : expectLit l s = .ok r) : r.length ≤ s.length := by
  induction l generalizing s with
  | nil => simp [expectLit] at h; subst h; exact Nat.le_refl _
  | cons x l ih =>
    cases s with
    | nil => simp [expectLit] at h
    | cons c s =>
      simp only [expectLit] at h
      split at h
      · have := ih s h; simp; omega
      · cases h

theorem spanDigits_length (s : List Nat) : (spanDigits s).2.length ≤ s.length := by
  induction s with
  | nil => simp [spanDigits]
  | cons c s ih => simp only [spanDigits]; split <;> simp <;> omega

theorem scanNat_length (s : List Nat) (n : Nat) (r : List Nat) (h : scanNat s = .ok (n, r)) : r.length < s.length := by
  cases s with
  | nil => simp [scanNat] at h
  | cons c s =>
    simp only [scanNat] at h
    have := spanDigits_length s
    split at h
    · split at h
      · cases h
      · cases h; simp
    · split at h
      · split at h
        · cases h
        · cases h; simp; omega
      · cases h

theorem consChar_ne_fuel {c : Nat} {res : Except Err (Str × List Nat)} (h : res ≠ .error .fuel) :
    consChar c res ≠ .error .fuel := by
  cases res with
  | error e => simpa [consChar] using h
  | ok p => obtain ⟨a, b⟩ := p; simp [consChar]

theorem flushPending_ne_fuel {p : Option Nat} {res : Except Err (Str × List Nat)} (h : res ≠ .error .fuel) :
    flushPending p res ≠ .error .fuel := by
  cases p with
  | none => exact h
  | some hi => exact consChar_ne_fuel h

theorem scanAux_ne_fuel (p : Option Nat) (s : List Nat) : scanAux p s ≠ .error .fuel := by
  fun_induction scanAux p s
  all_goals first
    | (intro h; cases h; done)
    | (apply consChar_ne_fuel; apply consChar_ne_fuel; assumption)
    | (apply consChar_ne_fuel; assumption)
    | (apply flushPending_ne_fuel; apply consChar_ne_fuel; assumption)
    | (apply flushPending_ne_fuel; intro h; cases h; done)
    | assumption

theorem expectLit_ne_fuel (l s : List Nat) : expectLit l s ≠ .error .fuel := by
  induction l generalizing s with
  | nil => simp [expectLit]
  | cons x l ih =>
    cases s with
    | nil => simp [expectLit]
    | cons c s => simp only [expectLit]; split; exact ih s; simp

theorem scanNat_ne_fuel (s : List Nat) : scanNat s ≠ .error .fuel := by
  cases s with
  | nil => simp [scanNat]
  | cons c s => simp only [scanNat]; repeat' split
                all_goals simp

/-- Result of a sub-parser on an input of length `n`: never "out of budget", and success consumes input. -/
def FuelOk {α : Type} (n : Nat) (res : Except Err (α × List Nat)) : Prop :=
  res ≠ .error .fuel ∧ ∀ a r, res = .ok (a, r) → r.length < n

theorem FuelOk.of_cases {α β : Type} (n m : Nat) (res : Except Err (α × List Nat)) (res' : Except Err (β × List Nat))
    (h : FuelOk n res) (hnm : n ≤ m) (hok : ∀ a r, res = .ok (a, r) → ∃ b, res' = .ok (b, r))
    (herr : ∀ e, res = .error e → res' = .error e) : FuelOk m res' := by
  cases hres : res with
  | error e =>
    rw [herr e hres]
    exact ⟨by have := h.1; rw [hres] at this; simpa using this, by simp⟩
  | ok p =>
    obtain ⟨a, r⟩ := p
    obtain ⟨b, hb⟩ := hok a r hres
    rw [hb]
    refine ⟨by simp, ?_⟩
    intro b' r' e
    simp only [Except.ok.injEq, Prod.mk.injEq] at e
    have := h.2 a r hres
    rw [← e.2]; omega

theorem scanStr_fuelOk (cs : List Nat) : FuelOk cs.length (scanStr cs) :=
  ⟨scanAux_ne_fuel none cs, fun a r h => scanAux_length none cs a r h⟩

theorem scanNat_fuelOk (s : List Nat) : FuelOk s.length (scanNat s) :=
  ⟨scanNat_ne_fuel s, fun a r h => scanNat_length s a r h⟩

theorem expectLit_fuelOk {α : Type} (l cs : List Nat) (v : α) :
    FuelOk (cs.length + 1) (match expectLit l cs with | .ok r => .ok (v, r) | .error e => (.error e : Except Err (α × List Nat))) := by
  cases h : expectLit l cs with
  | error e => exact ⟨by have := expectLit_ne_fuel l cs; simpa [h] using this, by simp⟩
  | ok r =>
    refine ⟨by simp, ?_⟩
    intro a r' e
    simp only [Except.ok.injEq, Prod.mk.injEq] at e
    have := expectLit_length l cs r h
    rw [← e.2]; omega

theorem expectLit_float_fuelOk {α : Type} (l cs : List Nat) (n : Nat) :
    FuelOk n (match expectLit l cs with | .ok _ => .error .float | .error e => (.error e : Except Err (α × List Nat))) := by
  cases h : expectLit l cs with
  | error e => exact ⟨by have := expectLit_ne_fuel l cs; simpa [h] using this, by simp⟩
  | ok r => exact ⟨by simp, by simp⟩

theorem parseV_fuel_step (f : Nat)
    (ihE : ∀ s, 2 * s.length + 2 ≤ f → FuelOk s.length (parseElems f s))
    (ihM : ∀ s, 2 * s.length + 2 ≤ f → FuelOk s.length (parseMembers f s))
    (s : List Nat) (hs : 2 * s.length + 1 ≤ f + 1) : FuelOk s.length (parseV (f + 1) s) := by
  cases s with
  | nil => rw [parseV.eq_def]; simp [FuelOk]
  | cons c cs =>
    rw [parseV.eq_def]
    dsimp only
    have hsk := skipWs_length_le cs
    simp only [List.length_cons] at hs ⊢
    by_cases h1 : c = 0x22
    · rw [if_pos h1]
      refine FuelOk.of_cases cs.length _ _ _ (scanStr_fuelOk cs) (by omega) ?_ ?_
      · intro a r h; rw [h]; exact ⟨_, rfl⟩
      · intro e h; rw [h]
    rw [if_neg h1]
    by_cases h2 : c = 0x7b
    · rw [if_pos h2]
      cases hw : skipWs cs with
      | nil => simp [FuelOk]
      | cons c2 r =>
        rw [hw] at hsk
        simp only [List.length_cons] at hsk
        dsimp only
        by_cases h3 : c2 = 0x7d
        · rw [if_pos h3]; exact ⟨by simp, by intro a r' e; simp at e; rw [← e.2]; omega⟩
        · rw [if_neg h3]
          refine FuelOk.of_cases (c2 :: r).length _ _ _ (ihM (c2 :: r) (by simp only [List.length_cons]; omega))
            (by simp only [List.length_cons]; omega) ?_ ?_
          · intro a r h; rw [h]; exact ⟨_, rfl⟩
          · intro e h; rw [h]
    rw [if_neg h2]
    by_cases h4 : c = 0x5b
    · rw [if_pos h4]
      cases hw : skipWs cs with
      | nil => simp [FuelOk]
      | cons c2 r =>
        rw [hw] at hsk
        simp only [List.length_cons] at hsk
        dsimp only
        by_cases h3 : c2 = 0x5d
        · rw [if_pos h3]; exact ⟨by simp, by intro a r' e; simp at e; rw [← e.2]; omega⟩
        · rw [if_neg h3]
          refine FuelOk.of_cases (c2 :: r).length _ _ _ (ihE (c2 :: r) (by simp only [List.length_cons]; omega))
            (by simp only [List.length_cons]; omega) ?_ ?_
          · intro a r h; rw [h]; exact ⟨_, rfl⟩
          · intro e h; rw [h]
    rw [if_neg h4]
    by_cases h5 : c = 0x6e
    · rw [if_pos h5]; exact expectLit_fuelOk _ cs _
    rw [if_neg h5]
    by_cases h6 : c = 0x74
    · rw [if_pos h6]; exact expectLit_fuelOk _ cs _
    rw [if_neg h6]
    by_cases h7 : c = 0x66
    · rw [if_pos h7]; exact expectLit_fuelOk _ cs _
    rw [if_neg h7]
    by_cases h8 : c = 0x4e
    · rw [if_pos h8]; exact expectLit_float_fuelOk _ cs _
    rw [if_neg h8]
    by_cases h9 : c = 0x49
    · rw [if_pos h9]; exact expectLit_float_fuelOk _ cs _
    rw [if_neg h9]
    by_cases h10 : c = 0x2d
    · rw [if_pos h10]
      cases cs with
      | nil => simp [FuelOk]
      | cons c2 cs2 =>
        dsimp only
        by_cases h11 : c2 = 0x49
        · rw [if_pos h11]; exact expectLit_float_fuelOk _ cs2 _
        · rw [if_neg h11]
          refine FuelOk.of_cases (c2 :: cs2).length _ _ _ (scanNat_fuelOk (c2 :: cs2))
            (by simp only [List.length_cons]; omega) ?_ ?_
          · intro a r h; rw [h]; exact ⟨_, rfl⟩
          · intro e h; rw [h]
    rw [if_neg h10]
    by_cases h12 : isDigit c = true
    · rw [if_pos h12]
      refine FuelOk.of_cases (c :: cs).length _ _ _ (scanNat_fuelOk (c :: cs))
        (by simp only [List.length_cons]; omega) ?_ ?_
      · intro a r h; rw [h]; exact ⟨_, rfl⟩
      · intro e h; rw [h]
    · rw [if_neg h12]; simp [FuelOk]

theorem parseElems_fuel_step (f : Nat)
    (ihV : ∀ s, 2 * s.length + 1 ≤ f → FuelOk s.length (parseV f s))
    (ihE : ∀ s, 2 * s.length + 2 ≤ f → FuelOk s.length (parseElems f s))
    (s : List Nat) (hs : 2 * s.length + 2 ≤ f + 1) : FuelOk s.length (parseElems (f + 1) s) := by
  rw [parseElems]
  have hv := ihV s (by omega)
  cases hp : parseV f s with
  | error e => rw [hp] at hv; exact ⟨by simpa using hv.1, by simp⟩
  | ok p =>
    obtain ⟨v, r⟩ := p
    have hr := hv.2 v r hp
    dsimp only
    have hsk := skipWs_length_le r
    cases hw : skipWs r with
    | nil => simp [FuelOk]
    | cons c r' =>
      rw [hw] at hsk
      simp only [List.length_cons] at hsk
      dsimp only
      by_cases h1 : c = 0x2c
      · rw [if_pos h1]
        have hsk2 := skipWs_length_le r'
        refine FuelOk.of_cases (skipWs r').length _ _ _ (ihE (skipWs r') (by omega)) (by omega) ?_ ?_
        · intro a r h; rw [h]; exact ⟨_, rfl⟩
        · intro e h; rw [h]
      · rw [if_neg h1]
        by_cases h2 : c = 0x5d
        · rw [if_pos h2]; exact ⟨by simp, by intro a r'' e; simp at e; rw [← e.2]; omega⟩
        · rw [if_neg h2]; simp [FuelOk]

theorem parseMembers_fuel_step (f : Nat)
    (ihV : ∀ s, 2 * s.length + 1 ≤ f → FuelOk s.length (parseV f s))
    (ihM : ∀ s, 2 * s.length + 2 ≤ f → FuelOk s.length (parseMembers f s))
    (s : List Nat) (hs : 2 * s.length + 2 ≤ f + 1) : FuelOk s.length (parseMembers (f + 1) s) := by
  cases s with
  | nil => rw [parseMembers.eq_def]; simp [FuelOk]
  | cons c cs =>
    rw [parseMembers.eq_def]
    dsimp only
    simp only [List.length_cons] at hs ⊢
    by_cases h1 : c = 0x22
    · rw [if_pos h1]
      have hk := scanStr_fuelOk cs
      cases hsc : scanStr cs with
      | error e => rw [hsc] at hk; exact ⟨by simpa using hk.1, by simp⟩
      | ok p =>
        obtain ⟨k, r⟩ := p
        have hr := hk.2 k r hsc
        dsimp only
        have hsk := skipWs_length_le r
        cases hw : skipWs r with
        | nil => simp [FuelOk]
        | cons c2 r2 =>
          rw [hw] at hsk
          simp only [List.length_cons] at hsk
          dsimp only
          by_cases h2 : c2 = 0x3a
          · rw [if_pos h2]
            have hsk2 := skipWs_length_le r2
            have hv := ihV (skipWs r2) (by omega)
            cases hp : parseV f (skipWs r2) with
            | error e => rw [hp] at hv; exact ⟨by simpa using hv.1, by simp⟩
            | ok p =>
              obtain ⟨v, r3⟩ := p
              have hr3 := hv.2 v r3 hp
              dsimp only
              have hsk3 := skipWs_length_le r3
              cases hw3 : skipWs r3 with
              | nil => simp [FuelOk]
              | cons c3 r4 =>
                rw [hw3] at hsk3
                simp only [List.length_cons] at hsk3
                dsimp only
                by_cases h3 : c3 = 0x2c
                · rw [if_pos h3]
                  have hsk4 := skipWs_length_le r4
                  refine FuelOk.of_cases (skipWs r4).length _ _ _ (ihM (skipWs r4) (by omega)) (by omega) ?_ ?_
                  · intro a r h; rw [h]; exact ⟨_, rfl⟩
                  · intro e h; rw [h]
                · rw [if_neg h3]
                  by_cases h4 : c3 = 0x7d
                  · rw [if_pos h4]; exact ⟨by simp, by intro a r'' e; simp at e; rw [← e.2]; omega⟩
                  · rw [if_neg h4]; simp [FuelOk]
          · rw [if_neg h2]; simp [FuelOk]
    · rw [if_neg h1]; simp [FuelOk]

theorem fuel_sufficient (f : Nat) :
    (∀ s, 2 * s.length + 1 ≤ f → FuelOk s.length (parseV f s)) ∧
    (∀ s, 2 * s.length + 2 ≤ f → FuelOk s.length (parseElems f s)) ∧
    (∀ s, 2 * s.length + 2 ≤ f → FuelOk s.length (parseMembers f s)) := by
  induction f with
  | zero => exact ⟨fun s h => by omega, fun s h => by omega, fun s h => by omega⟩
  | succ f ih =>
    exact ⟨parseV_fuel_step f ih.2.1 ih.2.2, parseElems_fuel_step f ih.1 ih.2.1, parseMembers_fuel_step f ih.1 ih.2.2⟩

/-- The recursion budget `parse` seeds its reader with is never exhausted: `parse` is a total,
budget-free function of the text. -/
theorem parse_ne_fuel (s : List Nat) : parse s ≠ .error .fuel := by
  cases s with
  | nil => simp [parse]
  | cons c t =>
    simp only [parse]
    split
    · simp
    · have hsk := skipWs_length_le (c :: t)
      have := (fuel_sufficient (2 * (c :: t).length + 2)).1 (skipWs (c :: t)) (by omega)
      cases hp : parseV (2 * (c :: t).length + 2) (skipWs (c :: t)) with
      | error e => rw [hp] at this; simpa using this.1
      | ok p => obtain ⟨v, r⟩ := p; dsimp only; split <;> simp

end Ts.Json
