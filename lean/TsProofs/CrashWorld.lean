import TsModel.CrashWorld
import TsProofs.Properties.C01World
import TsProofs.Properties.C02
/-! Crash atomicity composed with the job's data plane: whenever the snapshot can be opened after a crash, every
rank's full restore equals the saved state. -/
namespace Ts.World
open Ts.Storage (Bytes)
open Ts.Slab Ts.BatchRead Ts.Snapshot
open Ts.Commit (Ev Resolve Content payloadAt)

theorem indexIn_lt (a : Loc UnitId) : ∀ (l : List (Loc UnitId)) (w : Nat), indexIn a l = some w → w < l.length
  | [], _, h => by simp [indexIn] at h
  | b :: l, w, h => by
    unfold indexIn at h
    split at h
    · cases h; simp
    · cases hi : indexIn a l with
      | none => simp [hi] at h
      | some v =>
        simp only [hi, Option.map_some, Option.some.injEq] at h
        have := indexIn_lt a l v hi
        simp only [List.length_cons]; omega

theorem objectsOf_out_of_range (j : Job) (q : Nat) (hq : ¬ q < j.states.length) : objectsOf j q = [] := by
  have : j.states[q]? = none := by simp; omega
  simp [objectsOf, keptOf, this, placements, dedupLocs]

/-- If every payload write of every rank has completed at the cut, the store at the cut is the fault-free store. -/
theorem storeAtCut_complete (j : Job) (cut : List Ev) (res : Resolve) (tornLen : Nat → Nat → Nat)
    (nw : Nat → Nat) (hnw : ∀ r, r < j.states.length → nw r = (objectsOf j r).length)
    (hall : ∀ r w, r < j.states.length → w < nw r → payloadAt cut res r w = .complete) :
    storeAtCut j cut res tornLen = wstore j := by
  funext ql
  unfold storeAtCut
  cases hi : indexIn ql.2 (objectsOf j ql.1) with
  | none => rfl
  | some w =>
    simp only
    have hlt := indexIn_lt _ _ _ hi
    by_cases hq : ql.1 < j.states.length
    · rw [hall ql.1 w hq (by rw [hnw ql.1 hq]; exact hlt)]
    · rw [objectsOf_out_of_range j ql.1 hq] at hlt
      simp at hlt

end Ts.World
