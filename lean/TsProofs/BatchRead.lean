import TsModel.BatchRead
import TsProofs.Slab
/-! Helper lemmas for C16: `batch_read_requests` grouping, spanning range, sub-slices. -/
namespace Ts.BatchRead
open Ts.Storage (Bytes slice seekRead)
open Ts.Slab
open Ts.Chunk (slice_slice slice_length Consec slice_all slice_self)

section
variable {α : Type} [BEq α] [LawfulBEq α]

/-! ### grouping by key -/

theorem mem_dedup : ∀ (l : List α) (a : α), a ∈ dedup l ↔ a ∈ l := by
  intro l
  induction l with
  | nil => intro a; simp [dedup]
  | cons x xs ih =>
    intro a
    simp only [dedup, List.mem_cons, List.mem_filter, ih]
    constructor
    · rintro (h | ⟨h, _⟩)
      · exact Or.inl h
      · exact Or.inr h
    · rintro (h | h)
      · exact Or.inl h
      · by_cases e : a = x
        · exact Or.inl e
        · exact Or.inr ⟨h, by simpa using e⟩

theorem dedup_nodup : ∀ (l : List α), (dedup l).Nodup := by
  intro l
  induction l with
  | nil => simp [dedup]
  | cons x xs ih =>
    simp only [dedup, List.nodup_cons, List.mem_filter]
    refine ⟨fun h => by simpa using h.2, ?_⟩
    exact List.Pairwise.filter _ ih

theorem flatMap_congr' {β γ : Type} (f g : β → List γ) : ∀ (l : List β), (∀ x ∈ l, f x = g x) →
    l.flatMap f = l.flatMap g := by
  intro l
  induction l with
  | nil => intro _; rfl
  | cons x xs ih =>
    intro h
    simp only [List.flatMap_cons]
    rw [h x (by simp), ih (fun y hy => h y (by simp [hy]))]

/-- Grouping a list by a key (one bucket per distinct key, any key order) is a permutation of the list. -/
theorem perm_group {β : Type} (key : β → α) : ∀ (ks : List α) (l : List β), ks.Nodup →
    (∀ x ∈ l, key x ∈ ks) → (ks.flatMap (fun k => l.filter (fun x => key x == k))).Perm l := by
  intro ks
  induction ks with
  | nil =>
    intro l _ h
    cases l with
    | nil => simp
    | cons x xs => have := h x (by simp); simp at this
  | cons k ks ih =>
    intro l hnd hcov
    rw [List.nodup_cons] at hnd
    simp only [List.flatMap_cons]
    have hrest : ks.flatMap (fun k' => l.filter (fun x => key x == k'))
        = ks.flatMap (fun k' => (l.filter (fun x => !(key x == k))).filter (fun x => key x == k')) := by
      apply flatMap_congr'
      intro k' hk'
      rw [List.filter_filter]
      apply List.filter_congr
      intro x _
      by_cases e : key x == k'
      · have : key x = k' := eq_of_beq e
        have hne : (key x == k) = false := by
          apply beq_false_of_ne
          intro e2; rw [this] at e2; rw [e2] at hk'; exact hnd.1 hk'
        simp [e, hne]
      · simp [e]
    rw [hrest]
    have hih := ih (l.filter (fun x => !(key x == k))) hnd.2 (by
      intro x hx
      rw [List.mem_filter] at hx
      have := hcov x hx.1
      rcases List.mem_cons.mp this with h | h
      · rw [h] at hx; simp at hx
      · exact h)
    exact (List.Perm.append (List.Perm.refl _) hih).trans (List.filter_append_perm _ l)

/-! ### spanning range -/

theorem span_foldl : ∀ (rs : List (Nat × Nat)) (acc : Nat × Nat),
    let r := rs.foldl (fun acc x => (min acc.1 x.1, max acc.2 x.2)) acc
    r.1 ≤ acc.1 ∧ acc.2 ≤ r.2 ∧ (∀ x ∈ rs, r.1 ≤ x.1 ∧ x.2 ≤ r.2) ∧
    ∀ L, acc.2 ≤ L → (∀ x ∈ rs, x.2 ≤ L) → r.2 ≤ L := by
  intro rs
  induction rs with
  | nil => intro acc; simp
  | cons x xs ih =>
    intro acc
    simp only [List.foldl_cons]
    obtain ⟨h1, h2, h3, h4⟩ := ih (min acc.1 x.1, max acc.2 x.2)
    simp only at h1 h2 h3 h4
    refine ⟨by omega, by omega, ?_, ?_⟩
    · intro y hy
      rcases List.mem_cons.mp hy with rfl | hy
      · omega
      · exact h3 y hy
    · intro L hL hall
      apply h4 L
      · have := hall x (by simp); omega
      · intro y hy; exact hall y (by simp [hy])

/-- The spanning range of a non-empty list of ranges contains each of them and exceeds no common bound. -/
theorem span_spec (rs : List (Nat × Nat)) (hne : rs ≠ []) :
    ∃ sp, span rs = some sp ∧ (∀ x ∈ rs, sp.1 ≤ x.1 ∧ x.2 ≤ sp.2) ∧
      ∀ L, (∀ x ∈ rs, x.2 ≤ L) → sp.2 ≤ L := by
  cases rs with
  | nil => exact absurd rfl hne
  | cons r rs =>
    obtain ⟨h1, h2, h3, h4⟩ := span_foldl rs r
    refine ⟨_, rfl, ?_, ?_⟩
    · intro x hx
      rcases List.mem_cons.mp hx with rfl | hx
      · omega
      · exact h3 x hx
    · intro L hall
      exact h4 L (hall r (by simp)) (fun y hy => hall y (by simp [hy]))

/-! ### sub-slices -/

theorem readFile_range (f : Bytes) (a b : Nat) (hab : a ≤ b) : readFile f (some (a, b)) = slice f a b := by
  have : ¬ ((b : Int) - (a : Int) < 0) := by omega
  simp only [readFile, seekRead, this, ↓reduceIte, slice]
  congr 1
  omega

/-- The sub-consumer's `buf[lo - lower : hi - lower]` of the spanning read is exactly `file[lo:hi]`. -/
theorem pySlice_adjust (f : Bytes) (a b lo hi : Nat) (h1 : a ≤ lo) (h2 : lo ≤ hi) (h3 : hi ≤ b)
    (h4 : b ≤ f.length) :
    pySlice (readFile f (some (a, b))) (adjust a (lo, hi)).1 (adjust a (lo, hi)).2 = slice f lo hi := by
  rw [readFile_range f a b (by omega)]
  have hl : (slice f a b).length = b - a := slice_length f a b h4
  have n1 : normIdx (b - a) ((lo : Int) - (a : Int)) = lo - a := by
    simp only [normIdx]; rw [if_neg (by omega)]; omega
  have n2 : normIdx (b - a) ((hi : Int) - (a : Int)) = hi - a := by
    simp only [normIdx]; rw [if_neg (by omega)]; omega
  simp only [pySlice, adjust, hl, n1, n2]
  rw [slice_slice f a b (lo - a) (hi - a) (by omega) (by omega)]
  congr 1 <;> omega

theorem adjust_inj (a : Nat) (x y : Nat × Nat) (h : adjust a x = adjust a y) : x = y := by
  simp only [adjust, Prod.mk.injEq] at h
  apply Prod.ext <;> omega

/-! ### executing plans -/

theorem exec_append (store : α → Option Bytes) : ∀ (xs ys : List (OutRR α)) (d1 d2 : List (Nat × Bytes)),
    exec store xs = some d1 → exec store ys = some d2 → exec store (xs ++ ys) = some (d1 ++ d2) := by
  intro xs
  induction xs with
  | nil => intro ys d1 d2 h1 h2; simp [exec] at h1; subst h1; simpa using h2
  | cons x xs ih =>
    intro ys d1 d2 h1 h2
    cases x with
    | pass r =>
      simp only [exec, List.cons_append] at h1 ⊢
      cases hs : store r.path with
      | none => simp [hs] at h1
      | some f =>
        cases hx : exec store xs with
        | none => simp [hs, hx] at h1
        | some ds =>
          simp only [hs, hx, Option.some.injEq] at h1
          subst h1
          rw [ih ys ds d2 hx h2]
          simp
    | merged p range subs sz =>
      simp only [exec, List.cons_append] at h1 ⊢
      cases hs : store p with
      | none => simp [hs] at h1
      | some f =>
        cases hx : exec store xs with
        | none => simp [hs, hx] at h1
        | some ds =>
          simp only [hs, hx, Option.some.injEq] at h1
          subst h1
          rw [ih ys ds d2 hx h2]
          simp

/-! ### the merged plan -/

/-- The bytes request `r` asks for: the whole object, or `file[lo:hi]`. -/
def want (store : α → Option Bytes) (r : RReq α) : Bytes :=
  match store r.path, r.range with
  | some f, none => f
  | some f, some (lo, hi) => slice f lo hi
  | none, _ => []

/-- Domain of `C16_batchread_slices`: every requested object exists and is long enough for the (not
inverted) range, and no two ranged requests have the same `(location, range)`. -/
def InDomain (store : α → Option Bytes) (reqs : List (RReq α)) : Prop :=
  (∀ r ∈ reqs, ∃ f, store r.path = some f ∧ ∀ lo hi, r.range = some (lo, hi) → lo ≤ hi ∧ hi ≤ f.length) ∧
  reqs.Pairwise (fun a b => a.range ≠ none → ¬ (a.path = b.path ∧ a.range = b.range))

/-- The ranged requests of one location. -/
def rangedAt (reqs : List (RReq α)) (loc : α) : List (RReq α) :=
  reqs.filter (fun r => r.range.isSome && r.path == loc)

theorem group_eq (loc : α) : ∀ (reqs : List (RReq α)),
    group reqs loc = (rangedAt reqs loc).map (fun r => (r.range.getD (0, 0), r.consumer)) := by
  intro reqs
  induction reqs with
  | nil => rfl
  | cons r rs ih =>
    simp only [group, rangedAt, List.filterMap_cons, List.filter_cons] at ih ⊢
    cases hr : r.range with
    | none => simpa [hr] using ih
    | some br =>
      by_cases hp : r.path == loc
      · simp [hr, hp, ← ih]
      · simp [hr, hp, ← ih]

theorem exec_pass (store : α → Option Bytes) : ∀ (l : List (RReq α)),
    (∀ r ∈ l, ∃ f, store r.path = some f) → (∀ r ∈ l, r.range = none) →
    exec store (l.map OutRR.pass) = some (l.map (fun r => (r.consumer, want store r))) := by
  intro l
  induction l with
  | nil => intros; rfl
  | cons r rs ih =>
    intro h1 h2
    obtain ⟨f, hf⟩ := h1 r (by simp)
    have hr := h2 r (by simp)
    simp only [List.map_cons, exec, hf]
    rw [ih (fun x hx => h1 x (by simp [hx])) (fun x hx => h2 x (by simp [hx]))]
    simp [want, hf, hr, readFile]

/-- One merged request delivers to each of its sub-consumers exactly the bytes it asked for. -/
theorem exec_mergeLoc (store : α → Option Bytes) (reqs : List (RReq α)) (loc : α)
    (hd : InDomain store reqs) (hne : rangedAt reqs loc ≠ []) :
    exec store (mergeLoc reqs loc)
      = some ((rangedAt reqs loc).map (fun r => (r.consumer, want store r))) := by
  -- facts about members
  have hmem : ∀ r ∈ rangedAt reqs loc, r ∈ reqs ∧ r.path = loc ∧ ∃ br, r.range = some br := by
    intro r hr
    simp only [rangedAt, List.mem_filter, Bool.and_eq_true] at hr
    refine ⟨hr.1, eq_of_beq hr.2.2, ?_⟩
    cases h : r.range with
    | none => simp [h] at hr
    | some br => exact ⟨br, rfl⟩
  obtain ⟨r0, hr0⟩ := List.exists_mem_of_ne_nil _ hne
  obtain ⟨f, hf, _⟩ := hd.1 r0 (hmem r0 hr0).1
  rw [(hmem r0 hr0).2.1] at hf
  have hg := group_eq loc reqs
  have hgne : group reqs loc ≠ [] := by rw [hg]; simpa using hne
  have hmapne : (group reqs loc).map (·.1) ≠ [] := by simpa using hgne
  obtain ⟨sp, hsp, hcont, hbound⟩ := span_spec _ hmapne
  obtain ⟨last, hlast⟩ : ∃ last, (group reqs loc).getLast? = some last := by
    cases hgl : (group reqs loc).getLast? with
    | none => rw [List.getLast?_eq_none_iff] at hgl; exact absurd hgl hgne
    | some l => exact ⟨l, rfl⟩
  -- ranges of the members, with bounds
  have hrng : ∀ r ∈ rangedAt reqs loc, ∃ lo hi, r.range = some (lo, hi) ∧ sp.1 ≤ lo ∧ lo ≤ hi ∧ hi ≤ sp.2 := by
    intro r hr
    obtain ⟨hin, _, ⟨lo, hi⟩, hbr⟩ := hmem r hr
    obtain ⟨f', _, hb⟩ := hd.1 r hin
    have hx : (lo, hi) ∈ (group reqs loc).map (·.1) := by
      rw [hg, List.map_map]
      exact List.mem_map.mpr ⟨r, hr, by simp [hbr]⟩
    have := hcont _ hx
    exact ⟨lo, hi, hbr, this.1, (hb lo hi hbr).1, this.2⟩
  have hsp2 : sp.2 ≤ f.length := by
    apply hbound
    intro x hx
    rw [hg, List.map_map] at hx
    obtain ⟨r, hr, rfl⟩ := List.mem_map.mp hx
    obtain ⟨hin, hp, ⟨lo, hi⟩, hbr⟩ := hmem r hr
    obtain ⟨f', hf', hb⟩ := hd.1 r hin
    rw [hp, hf] at hf'
    have : f' = f := by simpa using hf'.symm
    subst this
    simpa [hbr] using (hb lo hi hbr).2
  -- the dict keeps every sub-consumer: adjusted ranges are pairwise distinct
  have hpw : (rangedAt reqs loc).Pairwise (fun a b => a.range ≠ b.range) := by
    have h1 : (rangedAt reqs loc).Pairwise
        (fun a b => a.range ≠ none → ¬ (a.path = b.path ∧ a.range = b.range)) := List.Pairwise.filter _ hd.2
    refine h1.imp_of_mem ?_
    intro a b ha hb hab
    obtain ⟨_, hpa, bra, hra⟩ := hmem a ha
    obtain ⟨_, hpb, _⟩ := hmem b hb
    intro e
    exact hab (by simp [hra]) ⟨by rw [hpa, hpb], e⟩
  have hkeys : ((group reqs loc).map (fun e => (adjust sp.1 e.1, e.2))).Pairwise (fun a b => a.1 ≠ b.1) := by
    rw [hg, List.map_map, List.pairwise_map]
    refine hpw.imp_of_mem ?_
    intro a b ha hb hne' e
    simp only [Function.comp] at e
    have := adjust_inj _ _ _ e
    obtain ⟨lo, hi, hra, _⟩ := hrng a ha
    obtain ⟨lo', hi', hrb, _⟩ := hrng b hb
    rw [hra, hrb] at hne' this
    simp only [Option.getD_some] at this
    exact hne' (by rw [this])
  simp only [mergeLoc, hsp, hlast, exec, hf]
  rw [dictOfList_eq_self _ hkeys, hg, List.map_map]
  simp only [consume, List.map_map, List.append_nil, Option.some.injEq]
  apply List.map_congr_left
  intro r hr
  obtain ⟨lo, hi, hra, h1, h2, h3⟩ := hrng r hr
  have hp := (hmem r hr).2.1
  simp only [Function.comp, hra, Option.getD_some, want, hp, hf]
  have := pySlice_adjust f sp.1 sp.2 lo hi h1 h2 h3 hsp2
  simp only [adjust] at this ⊢
  rw [this]

theorem exec_flatMap (store : α → Option Bytes) (reqs : List (RReq α)) (hd : InDomain store reqs) :
    ∀ (locs : List α), (∀ loc ∈ locs, rangedAt reqs loc ≠ []) →
    exec store (locs.flatMap (mergeLoc reqs))
      = some (locs.flatMap (fun loc => (rangedAt reqs loc).map (fun r => (r.consumer, want store r)))) := by
  intro locs
  induction locs with
  | nil => intro _; rfl
  | cons loc locs ih =>
    intro h
    simp only [List.flatMap_cons]
    exact exec_append store _ _ _ _ (exec_mergeLoc store reqs loc hd (h loc (by simp)))
      (ih (fun l hl => h l (by simp [hl])))

/-- `batch_read_requests` followed by `BatchedBufferConsumer` slicing hands every consumer exactly the bytes
its original request asked for (as a multiset of deliveries; the order of deliveries is the plan's). -/
theorem exec_merge (store : α → Option Bytes) (reqs : List (RReq α)) (hd : InDomain store reqs) :
    ∃ ds, exec store (merge reqs) = some ds ∧
      ds.Perm (reqs.map (fun r => (r.consumer, want store r))) := by
  let F := fun r : RReq α => (r.consumer, want store r)
  let whole := reqs.filter (fun r => r.range.isNone)
  let ranged := reqs.filter (fun r => r.range.isSome)
  let locs := dedup (ranged.map (·.path))
  have hw := exec_pass store whole
    (fun r hr => by
      obtain ⟨f, hf, _⟩ := hd.1 r (List.mem_filter.mp hr).1
      exact ⟨f, hf⟩)
    (fun r hr => by simpa using (List.mem_filter.mp hr).2)
  have hat : ∀ loc, rangedAt reqs loc = ranged.filter (fun r => r.path == loc) := by
    intro loc
    simp only [rangedAt, ranged, List.filter_filter]
    apply List.filter_congr
    intro x _
    exact Bool.and_comm _ _
  have hlocs : ∀ loc ∈ locs, rangedAt reqs loc ≠ [] := by
    intro loc hloc
    rw [mem_dedup] at hloc
    obtain ⟨r, hr, rfl⟩ := List.mem_map.mp hloc
    rw [hat]
    exact List.ne_nil_of_mem (List.mem_filter.mpr ⟨hr, by simp⟩)
  have hm := exec_flatMap store reqs hd locs hlocs
  refine ⟨_, exec_append store _ _ _ _ hw hm, ?_⟩
  have e1 : locs.flatMap (fun loc => (rangedAt reqs loc).map F)
      = (locs.flatMap (fun loc => ranged.filter (fun r => r.path == loc))).map F := by
    rw [List.map_flatMap]
    apply flatMap_congr'
    intro loc _
    rw [hat]
  have hp : (locs.flatMap (fun loc => ranged.filter (fun r => r.path == loc))).Perm ranged :=
    perm_group (fun r : RReq α => r.path) locs ranged (dedup_nodup _)
      (fun x hx => by rw [mem_dedup]; exact List.mem_map_of_mem hx)
  show (whole.map F ++ locs.flatMap (fun loc => (rangedAt reqs loc).map F)).Perm (reqs.map F)
  rw [e1, ← List.map_append]
  apply List.Perm.map
  have hsplit : (whole ++ ranged).Perm reqs := by
    have := List.filter_append_perm (fun r : RReq α => r.range.isNone) reqs
    have e : (fun r : RReq α => !r.range.isNone) = (fun r => r.range.isSome) := by
      funext r; cases r.range <;> rfl
    rw [e] at this
    exact this
  exact (List.Perm.append (List.Perm.refl _) hp).trans hsplit

/-! ### write plan, then read plan -/

/-- The `(location, byte_range)` an entry records after `batch_write_requests` (cf. `Slab.rewrite`). -/
def entryOf (r : WReq α) : Option Place → Loc α × Option (Nat × Nat)
  | none => (.orig r.path, none)
  | some p => (.slab p.slab, some (p.lo, p.hi))

/-- Members of slab `k` as `(byte range, bytes the member's stager exports)`, in placement order. -/
def memberBytes (wb : List (WReq α × Bytes)) (pl : List (Option Place)) (k : Nat) : List ((Nat × Nat) × Bytes) :=
  (wb.zip pl).filterMap (fun e => match e.2 with
    | some p => if p.slab = k then some ((p.lo, p.hi), e.1.2) else none
    | none => none)

/-- Storage contents after executing the write plan: a passed-through request's bytes at its own path, the
staged slab (concatenation of the members' bytes, `C16_slab_stage`) at the slab's location. -/
def written (wb : List (WReq α × Bytes)) (pl : List (Option Place)) : Loc α → Option Bytes
  | .orig p => ((wb.zip pl).find? (fun e => e.2.isNone && e.1.1.path == p)).map (·.1.2)
  | .slab k => some ((memberBytes wb pl k).map (·.2)).flatten

theorem memberBytes_ranges (k : Nat) : ∀ (wb : List (WReq α × Bytes)) (pl : List (Option Place)),
    wb.length = pl.length → (memberBytes wb pl k).map (·.1) = rangesOf pl k := by
  intro wb
  induction wb with
  | nil => intro pl h; cases pl with
    | nil => rfl
    | cons _ _ => simp at h
  | cons x wb ih =>
    intro pl h
    cases pl with
    | nil => simp at h
    | cons o pl =>
      have := ih pl (by simpa using h)
      simp only [memberBytes] at this
      cases o with
      | none => simp [memberBytes, rangesOf_none, this]
      | some p =>
        rw [rangesOf_some]
        by_cases hk : p.slab = k <;> simp [memberBytes, hk, this]

theorem mem_zip_map_fst (wb : List (WReq α × Bytes)) (pl : List (Option Place)) (e : (WReq α × Bytes) × Option Place)
    (he : e ∈ wb.zip pl) : (e.1.1, e.2) ∈ (wb.map (·.1)).zip pl := by
  rw [List.zip_map_left]
  exact List.mem_map.mpr ⟨e, he, rfl⟩

/-- Everything about one slab of the written store. -/
theorem slab_written (wb : List (WReq α × Bytes)) (thr : Nat) (hthr : 1 ≤ thr)
    (hsz : ∀ x ∈ wb, batchable x.1 = true → x.2.length = x.1.size) (k : Nat) :
    ∃ size, Consec 0 ((memberBytes wb (place thr (wb.map (·.1)) 0 0) k).map (·.1)) size ∧
      (∀ m ∈ memberBytes wb (place thr (wb.map (·.1)) 0 0) k, m.2.length = m.1.2 - m.1.1) := by
  have hlen : wb.length = (place thr (wb.map (·.1)) 0 0).length := by
    rw [place_length]; simp
  have h := place_ranges (α := α) thr hthr (wb.map (·.1)) 0 0 k
  have hc : ∃ e, Consec 0 (rangesOf (place thr (wb.map (·.1)) 0 0) k) e := by
    rcases Nat.eq_zero_or_pos k with h0 | h0
    · obtain ⟨e, he, _⟩ := h.2.1 h0; exact ⟨e, he⟩
    · obtain ⟨e, he, _⟩ := h.2.2 h0; exact ⟨e, he⟩
  obtain ⟨size, hc⟩ := hc
  refine ⟨size, by rw [memberBytes_ranges k wb _ hlen]; exact hc, ?_⟩
  intro m hm
  simp only [memberBytes, List.mem_filterMap] at hm
  obtain ⟨e, he, hf⟩ := hm
  cases ho : e.2 with
  | none => simp [ho] at hf
  | some p =>
    by_cases hk : p.slab = k
    · simp only [ho, hk, ↓reduceIte, Option.some.injEq] at hf
      subst hf
      have hcl := place_classify thr (wb.map (·.1)) 0 0 _ (mem_zip_map_fst wb _ e he)
      have hp : p.hi = p.lo + e.1.1.size := (hcl.2 p ho).1
      have hb : batchable e.1.1 = true := by
        have : ¬ (e.2 = none) := by simp [ho]
        have := (not_congr hcl.1).mp this
        simp only [not_or] at this
        simpa using this.1
      have hl := hsz e.1 (List.of_mem_zip (a := e.1) (b := e.2) he).1 hb
      show e.1.2.length = p.hi - p.lo
      rw [hl, hp]; omega
    · simp [ho, hk] at hf

/-- Reading an entry's recorded `(location, byte range)` from the written store returns exactly the bytes its
stager exported. -/
theorem entry_read (wb : List (WReq α × Bytes)) (thr : Nat) (hthr : 1 ≤ thr)
    (hpaths : (wb.map (·.1.path)).Nodup)
    (hsz : ∀ x ∈ wb, batchable x.1 = true → x.2.length = x.1.size)
    (e : (WReq α × Bytes) × Option Place) (he : e ∈ wb.zip (place thr (wb.map (·.1)) 0 0)) (c : Nat) :
    ∃ f, written wb (place thr (wb.map (·.1)) 0 0) (entryOf e.1.1 e.2).1 = some f ∧
      (∀ lo hi, (entryOf e.1.1 e.2).2 = some (lo, hi) → lo ≤ hi ∧ hi ≤ f.length ∧ hi - lo = e.1.2.length) ∧
      want (written wb (place thr (wb.map (·.1)) 0 0)) ⟨(entryOf e.1.1 e.2).1, (entryOf e.1.1 e.2).2, c⟩ = e.1.2 := by
  generalize hpl : place thr (wb.map (·.1)) 0 0 = pl at *
  cases ho : e.2 with
  | none =>
    -- passed through: the store holds its bytes at its own path (paths are distinct)
    have hlen : wb.length ≤ pl.length := by rw [← hpl, place_length]; simp
    have hpw : (wb.zip pl).Pairwise (fun a b => a.1.1.path ≠ b.1.1.path) := by
      have h1 : (wb.zip pl).map (·.1) = wb := List.map_fst_zip hlen
      have h2 : ((wb.zip pl).map (·.1)).Pairwise (fun a b => a.1.path ≠ b.1.path) := by
        rw [h1]; simpa [List.Nodup, List.pairwise_map] using hpaths
      rwa [List.pairwise_map] at h2
    have hsome : ((wb.zip pl).find? (fun x => x.2.isNone && x.1.1.path == e.1.1.path)).isSome := by
      rw [List.find?_isSome]; exact ⟨e, he, by simp [ho]⟩
    obtain ⟨x, hx⟩ := Option.isSome_iff_exists.mp hsome
    have hxm := List.mem_of_find?_eq_some hx
    have hxp := List.find?_some hx
    simp only [Bool.and_eq_true, beq_iff_eq] at hxp
    have hxe : x = e := by
      rcases pairwise_mem hpw x hxm e he with h | h | h
      · exact h
      · exact absurd hxp.2 h
      · exact absurd hxp.2.symm h
    subst hxe
    refine ⟨x.1.2, by simp [entryOf, written, hx], by simp [entryOf], ?_⟩
    simp [entryOf, want, written, hx]
  | some p =>
    obtain ⟨size, hc, hl⟩ := slab_written wb thr hthr hsz p.slab
    rw [hpl] at hc hl
    obtain ⟨slab, _, hslen, hflat, hsl⟩ := stage_spec size (memberBytes wb pl p.slab) _ hc hl (List.Perm.refl _)
    have hm : ((p.lo, p.hi), e.1.2) ∈ memberBytes wb pl p.slab := by
      simp only [memberBytes, List.mem_filterMap]
      exact ⟨e, he, by simp [ho]⟩
    have hr := Consec.mem hc (p.lo, p.hi) (List.mem_map.mpr ⟨_, hm, rfl⟩)
    have hsl' := hsl _ hm
    have hlm := hl _ hm
    simp only at hr hsl' hlm
    refine ⟨slab, by simp [entryOf, written, hflat], ?_, ?_⟩
    · intro lo hi h
      simp only [entryOf, Option.some.injEq, Prod.mk.injEq] at h
      obtain ⟨rfl, rfl⟩ := h
      omega
    · simp only [entryOf, want, written, ← hflat]
      exact hsl'

/-- Reading an entry through any consecutive tiling of its stored range and concatenating the tiles returns
the bytes its stager exported. -/
theorem tiled_read (wb : List (WReq α × Bytes)) (thr : Nat) (hthr : 1 ≤ thr)
    (hpaths : (wb.map (·.1.path)).Nodup)
    (hsz : ∀ x ∈ wb, batchable x.1 = true → x.2.length = x.1.size)
    (e : (WReq α × Bytes) × Option Place) (he : e ∈ wb.zip (place thr (wb.map (·.1)) 0 0))
    (ts : List (Nat × Nat))
    (hts : Consec (Ts.Chunk.baseOf (entryOf e.1.1 e.2).2) ts (Ts.Chunk.baseOf (entryOf e.1.1 e.2).2 + e.1.2.length))
    (c : Nat → Nat) :
    ((ts.zipIdx.map (fun t => want (written wb (place thr (wb.map (·.1)) 0 0))
        ⟨(entryOf e.1.1 e.2).1, some t.1, c t.2⟩))).flatten = e.1.2 := by
  obtain ⟨f, hf, hb, hw⟩ := entry_read wb thr hthr hpaths hsz e he 0
  have hmap : ts.zipIdx.map (fun t => want (written wb (place thr (wb.map (·.1)) 0 0))
        ⟨(entryOf e.1.1 e.2).1, some t.1, c t.2⟩) = ts.map (fun r => slice f r.1 r.2) := by
    have : ts.map (fun r => slice f r.1 r.2) = (ts.zipIdx.map Prod.fst).map (fun r => slice f r.1 r.2) := by
      rw [List.zipIdx_map_fst]
    rw [this, List.map_map]
    apply List.map_congr_left
    intro t _
    simp [want, hf]
  rw [hmap, Consec.flatten_slices f hts]
  obtain ⟨⟨r, b⟩, o⟩ := e
  cases o with
  | none =>
    simp only [entryOf] at hf
    simp only [entryOf, want, hf] at hw
    simp only [entryOf, Ts.Chunk.baseOf, Nat.zero_add]
    subst hw
    exact slice_all f
  | some p =>
    simp only [entryOf] at hf
    simp only [entryOf, want, hf] at hw
    have := hb p.lo p.hi rfl
    simp only [entryOf, Ts.Chunk.baseOf]
    simp only at this
    rw [← this.2.2, ← hw]
    congr 1
    omega

/-- The read request `prepare_read` issues for a relocated (or passed-through) entry, for consumer `c`. -/
def entryReq (e : (WReq α × Bytes) × Option Place) (c : Nat) : RReq (Loc α) :=
  ⟨(entryOf e.1.1 e.2).1, (entryOf e.1.1 e.2).2, c⟩

theorem execPlain_want (store : α → Option Bytes) : ∀ (reqs : List (RReq α)),
    (∀ r ∈ reqs, ∃ f, store r.path = some f ∧ ∀ lo hi, r.range = some (lo, hi) → lo ≤ hi ∧ hi ≤ f.length) →
    execPlain store reqs = some (reqs.map (fun r => (r.consumer, want store r))) := by
  intro reqs
  induction reqs with
  | nil => intro _; rfl
  | cons r rs ih =>
    intro h
    obtain ⟨f, hf, hb⟩ := h r (by simp)
    simp only [execPlain, hf, List.map_cons]
    rw [ih (fun x hx => h x (by simp [hx]))]
    cases hr : r.range with
    | none => simp [want, hf, hr, readFile]
    | some br =>
      obtain ⟨lo, hi⟩ := br
      have := (hb lo hi hr).1
      simp [want, hf, hr, readFile_range f lo hi this]

/-- The read plan over any selection of entries whose relocated members are non-empty is in the domain of
`exec_merge`, and every request wants exactly the bytes its stager exported. -/
theorem plan_domain (wb : List (WReq α × Bytes)) (thr : Nat) (hthr : 1 ≤ thr)
    (hpaths : (wb.map (·.1.path)).Nodup)
    (hsz : ∀ x ∈ wb, batchable x.1 = true → x.2.length = x.1.size)
    (sel : List ((WReq α × Bytes) × Option Place))
    (hsel : sel.Sublist (wb.zip (place thr (wb.map (·.1)) 0 0)))
    (hpos : ∀ e ∈ sel, ∀ p, e.2 = some p → 0 < e.1.1.size)
    (rr : List (RReq (Loc α))) (hrr : rr.Perm (sel.zipIdx.map (fun x => entryReq x.1 x.2))) :
    InDomain (written wb (place thr (wb.map (·.1)) 0 0)) rr ∧
    (rr.map (fun r => (r.consumer, want (written wb (place thr (wb.map (·.1)) 0 0)) r))).Perm
      (sel.zipIdx.map (fun x => (x.2, x.1.1.2))) := by
  have hwant : ∀ x ∈ sel.zipIdx, want (written wb (place thr (wb.map (·.1)) 0 0)) (entryReq x.1 x.2) = x.1.1.2 := by
    intro x hx
    have hm : x.1 ∈ sel := by
      have := List.mem_map_of_mem (f := Prod.fst) hx
      rwa [List.zipIdx_map_fst] at this
    obtain ⟨f, _, _, hw⟩ := entry_read wb thr hthr hpaths hsz x.1 (hsel.subset hm) x.2
    exact hw
  refine ⟨⟨?_, ?_⟩, ?_⟩
  · intro r hr
    obtain ⟨x, hx, rfl⟩ := List.mem_map.mp (hrr.mem_iff.mp hr)
    have hm : x.1 ∈ sel := by
      have := List.mem_map_of_mem (f := Prod.fst) hx
      rwa [List.zipIdx_map_fst] at this
    obtain ⟨f, hf, hb, _⟩ := entry_read wb thr hthr hpaths hsz x.1 (hsel.subset hm) x.2
    exact ⟨f, hf, fun lo hi h => ⟨(hb lo hi h).1, (hb lo hi h).2.1⟩⟩
  · -- pairwise distinct (location, range)
    have hsym : ∀ {a b : RReq (Loc α)}, (a.range ≠ none → ¬ (a.path = b.path ∧ a.range = b.range)) →
        (b.range ≠ none → ¬ (b.path = a.path ∧ b.range = a.range)) := by
      intro a b h hb e
      exact h (by rw [← e.2]; exact hb) ⟨e.1.symm, e.2.symm⟩
    refine (List.Perm.pairwise_iff hsym hrr).mpr ?_
    rw [List.pairwise_map]
    have hlen : (place thr (wb.map (·.1)) 0 0).length ≤ wb.length := by rw [place_length]; simp
    have hzip : (wb.zip (place thr (wb.map (·.1)) 0 0)).Pairwise
        (fun a b => ∀ p q, a.2 = some p → b.2 = some q → p.slab = q.slab → p.hi ≤ q.lo) := by
      have h1 := place_pairwise thr (wb.map (·.1)) 0 0
      rw [← List.map_snd_zip hlen, List.pairwise_map] at h1
      exact h1
    have hS : sel.Pairwise (fun a b => (entryOf a.1.1 a.2).2 ≠ none →
        ¬ ((entryOf a.1.1 a.2).1 = (entryOf b.1.1 b.2).1 ∧ (entryOf a.1.1 a.2).2 = (entryOf b.1.1 b.2).2)) := by
      refine (List.Pairwise.sublist hsel hzip).imp_of_mem ?_
      intro a b ha hb hT hne hsame
      cases hao : a.2 with
      | none => simp [entryOf, hao] at hne
      | some p =>
        cases hbo : b.2 with
        | none => simp [entryOf, hao, hbo] at hsame
        | some q =>
          simp only [entryOf, hao, hbo, Loc.slab.injEq, Option.some.injEq, Prod.mk.injEq] at hsame
          have h1 := hT p q hao hbo hsame.1
          have hcl := place_classify thr (wb.map (·.1)) 0 0 _ (mem_zip_map_fst wb _ a (hsel.subset ha))
          have h2 : p.hi = p.lo + a.1.1.size := (hcl.2 p hao).1
          have h3 := hpos a ha p hao
          omega
    have : (sel.zipIdx.map Prod.fst).Pairwise (fun a b => (entryOf a.1.1 a.2).2 ≠ none →
        ¬ ((entryOf a.1.1 a.2).1 = (entryOf b.1.1 b.2).1 ∧ (entryOf a.1.1 a.2).2 = (entryOf b.1.1 b.2).2)) := by
      rw [List.zipIdx_map_fst]; exact hS
    rw [List.pairwise_map] at this
    exact this
  · have h1 := hrr.map (fun r => (r.consumer, want (written wb (place thr (wb.map (·.1)) 0 0)) r))
    refine h1.trans ?_
    rw [List.map_map]
    apply List.Perm.of_eq
    apply List.map_congr_left
    intro x hx
    simp only [Function.comp, hwant x hx]
    rfl

end
end Ts.BatchRead
