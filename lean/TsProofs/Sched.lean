import TsModel.Sched
/-! Helper lemmas for the scheduler model (C10, C11). -/
namespace Ts.Sched

/-! ### Lists -/

theorem snoc_induction {α : Type} {P : List α → Prop} (hnil : P [])
    (hsnoc : ∀ l a, P l → P (l ++ [a])) : ∀ l, P l := by
  have h : ∀ l : List α, P l.reverse := by
    intro l
    induction l with
    | nil => simpa using hnil
    | cons a l ih => simpa [List.reverse_cons] using hsnoc _ a ih
  intro l
  simpa using h l.reverse

theorem sumBy_set {α : Type} (g : α → Nat) (l : List α) (i : Nat) (a b : α)
    (h : l[i]? = some a) : sumBy g (l.set i b) + g a = sumBy g l + g b := by
  induction l generalizing i with
  | nil => simp at h
  | cons x xs ih =>
    cases i with
    | zero =>
      simp at h
      subst h
      simp only [List.set, sumBy]
      omega
    | succ i =>
      simp at h
      have := ih i h
      simp only [List.set, sumBy]
      omega

theorem sumBy_map {α β : Type} (g : β → Nat) (f : α → β) (l : List α) :
    sumBy g (l.map f) = sumBy (fun a => g (f a)) l := by
  induction l with
  | nil => rfl
  | cons x xs ih => simp [sumBy, ih]

theorem sumBy_eq_zero {α : Type} (g : α → Nat) (l : List α) :
    sumBy g l = 0 ↔ ∀ a ∈ l, g a = 0 := by
  induction l with
  | nil => simp [sumBy]
  | cons x xs ih => simp [sumBy, ih]

theorem sumBy_le_sumBy {α : Type} (g h : α → Nat) (l : List α) (hle : ∀ a ∈ l, g a ≤ h a) :
    sumBy g l ≤ sumBy h l := by
  induction l with
  | nil => simp [sumBy]
  | cons x xs ih =>
    have h1 := hle x (List.mem_cons_self)
    have h2 := ih (fun a ha => hle a (List.mem_cons_of_mem _ ha))
    simp only [sumBy]
    omega

theorem sumBy_const_le {α : Type} (g : α → Nat) (l : List α) (c : Nat) (hle : ∀ a ∈ l, g a ≤ c) :
    sumBy g l ≤ l.length * c := by
  induction l with
  | nil => simp [sumBy]
  | cons x xs ih =>
    have h1 := hle x (List.mem_cons_self)
    have h2 := ih (fun a ha => hle a (List.mem_cons_of_mem _ ha))
    simp only [sumBy, List.length_cons, Nat.succ_mul]
    omega

theorem mem_of_getElem? {α : Type} {l : List α} {i : Nat} {a : α} (h : l[i]? = some a) : a ∈ l :=
  List.mem_of_getElem? h

theorem mem_set_cases {α : Type} {l : List α} {i : Nat} {a b : α} (h : a ∈ l.set i b) :
    a ∈ l ∨ a = b := by
  rcases List.mem_or_eq_of_mem_set h with h | h
  · exact Or.inl h
  · exact Or.inr h

/-! ### Write pipeline: one step -/

theorem wstep_ok {cap : Nat} {s s' : WState} {e : WEvent} (h : wstep cap s e = .ok s') :
    s.failed = false ∧ ∃ sl, s.slots[e.req]? = some sl ∧ sl.stage = e.kind.src ∧
      wguard cap s sl e.kind ∧
      ((e.kind.dst = none ∧ s' = { s with failed := true }) ∨
       (∃ d, e.kind.dst = some d ∧
         s' = { slots := s.slots.set e.req { sl with stage := d },
                budget := s.budget + wdelta sl e.kind, failed := false })) := by
  unfold wstep at h
  split at h
  · simp at h
  · rename_i hf
    refine ⟨by simpa using hf, ?_⟩
    split at h
    · simp at h
    · rename_i sl hsl
      refine ⟨sl, hsl, ?_⟩
      split at h
      · simp at h
      · rename_i hst
        split at h
        · simp at h
        · rename_i hg
          refine ⟨by simpa using hst, by simpa using hg, ?_⟩
          split at h
          · rename_i hd
            left
            exact ⟨hd, by simpa using h.symm⟩
          · rename_i d hd
            right
            exact ⟨d, hd, by simpa using h.symm⟩

theorem wstep_eq {cap : Nat} {s : WState} {e : WEvent} {sl : WSlot} (hf : s.failed = false)
    (hsl : s.slots[e.req]? = some sl) (hst : sl.stage = e.kind.src) (hg : wguard cap s sl e.kind) :
    wstep cap s e = .ok (match e.kind.dst with
      | none => { s with failed := true }
      | some d => { slots := s.slots.set e.req { sl with stage := d },
                    budget := s.budget + wdelta sl e.kind, failed := false }) := by
  unfold wstep
  simp [hf, hsl, hst, hg]
  split <;> simp_all

/-- What a non-failure step does, in the form used by all invariants. -/
theorem wstep_move {cap : Nat} {s s' : WState} {k : WKind} {r : Nat}
    (h : wstep cap s ⟨k, r⟩ = .ok s') :
    s.failed = false ∧ ∃ sl, s.slots[r]? = some sl ∧ sl.stage = k.src ∧ wguard cap s sl k ∧
      ((k.dst = none ∧ s' = { s with failed := true }) ∨
       (∃ d, k.dst = some d ∧ s'.slots = s.slots.set r { sl with stage := d } ∧
          s'.budget = s.budget + wdelta sl k ∧ s'.failed = false ∧
          ∀ g : WSlot → Nat, sumBy g s'.slots + g sl = sumBy g s.slots + g { sl with stage := d })) := by
  obtain ⟨hf, sl, hsl, hst, hg, hcase⟩ := wstep_ok h
  refine ⟨hf, sl, hsl, hst, hg, ?_⟩
  rcases hcase with ⟨hd, hs'⟩ | ⟨d, hd, hs'⟩
  · exact Or.inl ⟨hd, hs'⟩
  · right
    refine ⟨d, hd, ?_, ?_, ?_, ?_⟩
    · simp [hs']
    · simp [hs']
    · simp [hs']
    · intro g
      simp only [hs']
      exact sumBy_set g s.slots r sl _ hsl

theorem wstep_conservation {cap : Nat} {s s' : WState} {e : WEvent} (h : wstep cap s e = .ok s') :
    s'.budget + (s'.accounted : Int) = s.budget + (s.accounted : Int) := by
  obtain ⟨k, r⟩ := e
  obtain ⟨-, sl, -, hst, -, hcase⟩ := wstep_move h
  rcases hcase with ⟨-, hs'⟩ | ⟨d, hd, -, hb, -, hsum⟩
  · simp [hs', WState.accounted]
  · have := hsum WSlot.held
    simp only [WState.accounted]
    cases k <;> simp [WKind.src, WKind.dst] at hst hd <;> subst hd <;>
      simp [WSlot.held, hst, wdelta] at this hb ⊢ <;> omega

theorem wstep_nIo {cap : Nat} {s s' : WState} {e : WEvent} (h : wstep cap s e = .ok s')
    (hc : s.nIo ≤ cap) : s'.nIo ≤ cap := by
  obtain ⟨k, r⟩ := e
  obtain ⟨-, sl, -, hst, hg, hcase⟩ := wstep_move h
  rcases hcase with ⟨-, hs'⟩ | ⟨d, hd, -, -, -, hsum⟩
  · simpa [hs', WState.nIo] using hc
  · have := hsum (fun sl => sl.stage.isIo)
    simp only [WState.nIo] at hc ⊢
    have hg' : k = .ioStart → sumBy (fun sl => sl.stage.isIo) s.slots < cap := by
      intro hk; subst hk; simpa [wguard, WState.nIo] using hg
    generalize sumBy (fun sl => sl.stage.isIo) s'.slots = A at *
    generalize sumBy (fun sl => sl.stage.isIo) s.slots = B at *
    cases k <;> simp [WKind.src, WKind.dst] at hst hd <;> subst hd <;>
      simp [WStage.isIo, hst] at this hg' <;> omega


theorem wstep_reqs {cap : Nat} {s s' : WState} {e : WEvent} (h : wstep cap s e = .ok s')
    (P : Req → Prop) (hP : ∀ sl ∈ s.slots, P sl.req) : ∀ sl ∈ s'.slots, P sl.req := by
  obtain ⟨k, r⟩ := e
  obtain ⟨-, sl, hsl, -, -, hcase⟩ := wstep_move h
  rcases hcase with ⟨-, hs'⟩ | ⟨d, -, hslots, -, -, -⟩
  · simpa [hs'] using hP
  · intro x hx
    rw [hslots] at hx
    rcases mem_set_cases hx with hx | hx
    · exact hP x hx
    · subst hx
      exact hP sl (mem_of_getElem? hsl)

theorem wstep_bound {cap : Nat} {B : Int} {s s' : WState} {e : WEvent}
    (h : wstep cap s e = .ok s') (hcons : s.budget + (s.accounted : Int) = B)
    (hle : ∀ sl ∈ s.slots, sl.req.buf ≤ sl.req.cost)
    (hb : (s.accounted : Int) ≤ B ∨ s.inflight ≤ 1) :
    (s'.accounted : Int) ≤ B ∨ s'.inflight ≤ 1 := by
  obtain ⟨k, r⟩ := e
  obtain ⟨-, sl, hsl, hst, hg, hcase⟩ := wstep_move h
  rcases hcase with ⟨-, hs'⟩ | ⟨d, hd, -, -, -, hsum⟩
  · simpa [hs', WState.accounted, WState.inflight] using hb
  · have h1 := hsum WSlot.held
    have h2 := hsum (fun sl => sl.stage.live)
    have hbc := hle sl (mem_of_getElem? hsl)
    have hg' : k = .stageStart → s.inflight = 0 ∨ (sl.req.cost : Int) < s.budget := by
      intro hk; subst hk; exact hg.2
    simp only [WState.accounted, WState.inflight] at hcons hb hg' ⊢
    generalize sumBy WSlot.held s'.slots = A' at *
    generalize sumBy WSlot.held s.slots = A at *
    generalize sumBy (fun sl => sl.stage.live) s'.slots = L' at *
    generalize sumBy (fun sl => sl.stage.live) s.slots = L at *
    cases k <;> simp [WKind.src, WKind.dst] at hst hd <;> subst hd <;>
      simp [WSlot.held, WStage.live, hst] at h1 h2 hg' <;> omega

/-- Every non-failure event lowers the stage weight of its request by one; a failure clears the
"not failed" unit. -/
theorem wstep_measure {cap : Nat} {s s' : WState} {e : WEvent} (h : wstep cap s e = .ok s') :
    s'.measure < s.measure := by
  obtain ⟨k, r⟩ := e
  obtain ⟨hf, sl, -, hst, -, hcase⟩ := wstep_move h
  rcases hcase with ⟨-, hs'⟩ | ⟨d, hd, -, -, hf', hsum⟩
  · simp [hs', WState.measure, hf]; omega
  · have h1 := hsum (fun sl => sl.stage.weight)
    simp only [WState.measure, hf, hf']
    generalize sumBy (fun sl => sl.stage.weight) s'.slots = A' at *
    generalize sumBy (fun sl => sl.stage.weight) s.slots = A at *
    cases k <;> simp [WKind.src, WKind.dst] at hst hd <;> subst hd <;>
      simp [WStage.weight, hst] at h1 ⊢ <;> omega

/-! ### Write pipeline: runs -/

theorem wrun_cons {cap : Nat} {s s' : WState} {e : WEvent} {tr : List WEvent}
    (h : wrun cap s (e :: tr) = .ok s') : ∃ s1, wstep cap s e = .ok s1 ∧ wrun cap s1 tr = .ok s' := by
  simp only [wrun] at h
  split at h
  · rename_i s1 h1
    exact ⟨s1, h1, h⟩
  · simp at h

theorem wrun_append {cap : Nat} (s : WState) (t1 t2 : List WEvent) :
    wrun cap s (t1 ++ t2) = (match wrun cap s t1 with
      | .ok s1 => wrun cap s1 t2
      | .error x => .error x) := by
  induction t1 generalizing s with
  | nil => simp [wrun]
  | cons e t1 ih =>
    simp only [List.cons_append, wrun]
    cases wstep cap s e with
    | ok s1 => simp [ih]
    | error x => simp

theorem wrun_snoc {cap : Nat} {s s' : WState} {tr : List WEvent} {e : WEvent}
    (h : wrun cap s (tr ++ [e]) = .ok s') : ∃ s1, wrun cap s tr = .ok s1 ∧ wstep cap s1 e = .ok s' := by
  rw [wrun_append] at h
  split at h
  · rename_i s1 h1
    refine ⟨s1, h1, ?_⟩
    simp only [wrun] at h
    split at h
    · rename_i s2 h2
      simp at h
      rw [h2, h]
    · simp at h
  · simp at h

/-- Invariant rule: a predicate that holds initially and is preserved by every step holds after
every accepted trace. -/
theorem wrun_invariant {cap : Nat} (P : WState → Prop)
    (hstep : ∀ s e s', P s → wstep cap s e = .ok s' → P s') :
    ∀ (tr : List WEvent) (s s' : WState), P s → wrun cap s tr = .ok s' → P s' := by
  intro tr
  induction tr with
  | nil => intro s s' hP h; simp [wrun] at h; subst h; exact hP
  | cons e tr ih =>
    intro s s' hP h
    obtain ⟨s1, h1, h2⟩ := wrun_cons h
    exact ih s1 s' (hstep s e s1 hP h1) h2

theorem wInit_sum (cfg : Config) (g : WSlot → Nat) (hg : ∀ r, g ⟨r, .rfs⟩ = 0) :
    sumBy g (wInit cfg).slots = 0 := by
  simp only [wInit, sumBy_map]
  rw [sumBy_eq_zero]
  intro a _
  exact hg a


/-! ### Write pipeline: progress of a request and event counts -/

def WStage.prog : WStage → Nat
  | .rfs => 0 | .stg => 1 | .rfi => 2 | .io => 3 | .done => 4

def WKind.isFail : WKind → Bool
  | .stageFail => true | .ioFail => true | _ => false

/-- How far request `r` has come (0 = not admitted … 4 = written). -/
def wprog (s : WState) (r : Nat) : Nat :=
  match s.slots[r]? with
  | some sl => sl.stage.prog
  | none => 0

theorem wkind_dst_prog {k : WKind} {d : WStage} (h : k.dst = some d) :
    k.isFail = false ∧ d.prog = k.src.prog + 1 := by
  cases k <;> simp [WKind.dst] at h <;> subst h <;> simp [WKind.isFail, WKind.src, WStage.prog]

theorem wkind_dst_none {k : WKind} (h : k.dst = none) : k.isFail = true := by
  cases k <;> simp [WKind.dst] at h <;> rfl

theorem wkind_level_inj {k k' : WKind} (h : k.isFail = false) (h' : k'.isFail = false)
    (hl : k.src.prog = k'.src.prog) : k = k' := by
  cases k <;> cases k' <;> simp [WKind.isFail, WKind.src, WStage.prog] at h h' hl ⊢

theorem wstep_prog {cap : Nat} {s s' : WState} {k : WKind} {r : Nat}
    (h : wstep cap s ⟨k, r⟩ = .ok s') :
    (k.isFail = true ∧ s' = { s with failed := true }) ∨
    (k.isFail = false ∧ s'.failed = false ∧ wprog s r = k.src.prog ∧ wprog s' r = k.src.prog + 1 ∧
      r < s.slots.length ∧ s'.slots.length = s.slots.length ∧
      ∀ r', r' ≠ r → wprog s' r' = wprog s r') := by
  obtain ⟨-, sl, hsl, hst, -, hcase⟩ := wstep_move h
  rcases hcase with ⟨hd, hs'⟩ | ⟨d, hd, hslots, -, hf', -⟩
  · exact Or.inl ⟨wkind_dst_none hd, hs'⟩
  · right
    obtain ⟨hnf, hdp⟩ := wkind_dst_prog hd
    have hlt : r < s.slots.length := by
      rcases Nat.lt_or_ge r s.slots.length with h | h
      · exact h
      · rw [List.getElem?_eq_none h] at hsl; simp at hsl
    refine ⟨hnf, hf', ?_, ?_, hlt, ?_, ?_⟩
    · simp [wprog, hsl, hst]
    · simp [wprog, hslots, hlt, hdp]
    · simp [hslots]
    · intro r' hne
      have : ¬ r = r' := fun e => hne e.symm
      simp [wprog, hslots, this]

theorem wrun_failed {cap : Nat} {s s' : WState} {tr : List WEvent} (hf : s.failed = true)
    (h : wrun cap s tr = .ok s') : tr = [] ∧ s' = s := by
  cases tr with
  | nil => simp [wrun] at h; exact ⟨rfl, h.symm⟩
  | cons e tr =>
    obtain ⟨s1, h1, -⟩ := wrun_cons h
    simp [wstep, hf] at h1

theorem wrun_counts {cap : Nat} : ∀ (tr : List WEvent) (s s' : WState), wrun cap s tr = .ok s' →
    s'.slots.length = s.slots.length ∧
    (∀ r, wprog s r ≤ wprog s' r) ∧
    (∀ k r, k.isFail = false →
      tr.count ⟨k, r⟩ = if wprog s r ≤ k.src.prog ∧ k.src.prog < wprog s' r then 1 else 0) ∧
    (s'.failed = false → ∀ e ∈ tr, e.kind.isFail = false) := by
  intro tr
  induction tr with
  | nil =>
    intro s s' h
    simp [wrun] at h
    subst h
    refine ⟨rfl, fun _ => Nat.le_refl _, ?_, by simp⟩
    intro k r _
    have : ¬ (wprog s r ≤ k.src.prog ∧ k.src.prog < wprog s r) := by omega
    simp [this]
  | cons e tr ih =>
    intro s s' h
    obtain ⟨s1, h1, h2⟩ := wrun_cons h
    obtain ⟨k0, r0⟩ := e
    rcases wstep_prog h1 with ⟨hfail, hs1⟩ | ⟨hnf, hf1, hp, hp1, -, hlen, hoth⟩
    · have hf1 : s1.failed = true := by simp [hs1]
      obtain ⟨htr, hs'⟩ := wrun_failed hf1 h2
      subst htr
      rw [hs']
      have hpe : ∀ r, wprog s1 r = wprog s r := by intro r; simp [wprog, hs1]
      refine ⟨by simp [hs1], fun r => by rw [hpe]; exact Nat.le_refl _, ?_, by simp [hs1]⟩
      intro k r hk
      have hne : ¬ ((⟨k0, r0⟩ : WEvent) = ⟨k, r⟩) := by
        intro e; injection e with e1 _; subst e1; simp [hfail] at hk
      have : ¬ (wprog s r ≤ k.src.prog ∧ k.src.prog < wprog s1 r) := by rw [hpe]; omega
      rw [if_neg this]
      simp [hne]
    · obtain ⟨ihlen, ihmono, ihcount, ihfail⟩ := ih s1 s' h2
      have hmono1 : ∀ r, wprog s r ≤ wprog s1 r := by
        intro r
        by_cases hr : r = r0
        · subst hr; omega
        · rw [hoth r hr]; exact Nat.le_refl _
      refine ⟨by omega, fun r => Nat.le_trans (hmono1 r) (ihmono r), ?_, ?_⟩
      · intro k r hk
        rw [List.count_cons, ihcount k r hk]
        by_cases hr : r = r0
        · subst hr
          have hm := ihmono r
          by_cases hkk : k = k0
          · subst hkk
            have h1 : ¬ (wprog s1 r ≤ k.src.prog ∧ k.src.prog < wprog s' r) := by omega
            have h2 : (wprog s r ≤ k.src.prog ∧ k.src.prog < wprog s' r) := by omega
            rw [if_neg h1, if_pos h2]
            simp
          · have hne : ¬ ((⟨k0, r⟩ : WEvent) = ⟨k, r⟩) := by
              intro e; injection e with e1 _; exact hkk e1.symm
            have hl : k.src.prog ≠ k0.src.prog := fun e => hkk (wkind_level_inj hk hnf e)
            have hiff : (wprog s1 r ≤ k.src.prog ∧ k.src.prog < wprog s' r) ↔
                (wprog s r ≤ k.src.prog ∧ k.src.prog < wprog s' r) := by omega
            simp only [hiff]
            simp [hne]
        · have hne : ¬ ((⟨k0, r0⟩ : WEvent) = ⟨k, r⟩) := by
            intro e; injection e with _ e2; exact hr e2.symm
          rw [hoth r hr]
          simp [hne]
      · intro hf' e he
        rcases List.mem_cons.mp he with rfl | he
        · exact hnf
        · exact ihfail hf' e he


/-! ### Write pipeline: progress (no stuck state) and the greedy scheduler -/

theorem sumBy_ne_zero {α : Type} (g : α → Nat) (l : List α) (h : sumBy g l ≠ 0) :
    ∃ a ∈ l, g a ≠ 0 := by
  apply Classical.byContradiction
  intro hn
  apply h
  rw [sumBy_eq_zero]
  intro a ha
  apply Classical.byContradiction
  intro hne
  exact hn ⟨a, ha, hne⟩

theorem exists_idx_of_mem {α : Type} {l : List α} {a : α} (h : a ∈ l) : ∃ i : Nat, l[i]? = some a :=
  List.mem_iff_getElem?.mp h

/-- The four stage-emptiness facts of a state in which no non-failure event is enabled. -/
theorem w_dead_allDone {cap : Nat} (hcap : 1 ≤ cap) (s : WState) (hf : s.failed = false)
    (hdead : ∀ k r, k.isFail = false → ∀ s', wstep cap s ⟨k, r⟩ ≠ .ok s') :
    s.allDone = true := by
  -- dispatch_io cannot start anything
  have hio : s.ioSaturated cap := by
    apply Classical.byContradiction
    intro hn
    simp only [WState.ioSaturated, not_or, Nat.not_le] at hn
    obtain ⟨sl, hmem, hsl⟩ := sumBy_ne_zero _ _ hn.1
    obtain ⟨r, hr⟩ := exists_idx_of_mem hmem
    have hst : sl.stage = WStage.rfi := by
      cases hs : sl.stage <;> simp [hs, WStage.isRfi] at hsl ⊢
    exact hdead .ioStart r rfl _ (wstep_eq (e := ⟨.ioStart, r⟩) hf hr hst hn.2)
  -- dispatch_staging cannot start anything
  have hst : s.stSaturated := by
    intro sl hmem hrfs hadm
    obtain ⟨r, hr⟩ := exists_idx_of_mem hmem
    exact hdead .stageStart r rfl _ (wstep_eq (e := ⟨.stageStart, r⟩) hf hr hrfs ⟨hio, hadm⟩)
  have hq : s.quiescent cap := ⟨hio, hst⟩
  -- nothing is staging, nothing is being written
  have hnostg : ∀ sl ∈ s.slots, sl.stage ≠ .stg := by
    intro sl hmem hs
    obtain ⟨r, hr⟩ := exists_idx_of_mem hmem
    exact hdead .stageDone r rfl _ (wstep_eq (e := ⟨.stageDone, r⟩) hf hr hs hq)
  have hnoio : ∀ sl ∈ s.slots, sl.stage ≠ .io := by
    intro sl hmem hs
    obtain ⟨r, hr⟩ := exists_idx_of_mem hmem
    exact hdead .ioDone r rfl _ (wstep_eq (e := ⟨.ioDone, r⟩) hf hr hs hq)
  have hnIo : s.nIo = 0 := by
    simp only [WState.nIo]
    rw [sumBy_eq_zero]
    intro sl hmem
    have := hnoio sl hmem
    cases hs : sl.stage <;> simp [hs, WStage.isIo] at this ⊢
  -- hence ready_for_io is empty (cap ≥ 1)
  have hnRfi : s.nRfi = 0 := by
    rcases hio with h | h
    · exact h
    · omega
  have hnorfi : ∀ sl ∈ s.slots, sl.stage ≠ .rfi := by
    intro sl hmem hs
    simp only [WState.nRfi] at hnRfi
    have := (sumBy_eq_zero _ _).mp hnRfi sl hmem
    simp [hs, WStage.isRfi] at this
  -- the pipeline is empty, so every remaining request would be admitted
  have hinf : s.inflight = 0 := by
    simp only [WState.inflight]
    rw [sumBy_eq_zero]
    intro sl hmem
    have h1 := hnostg sl hmem
    have h2 := hnorfi sl hmem
    have h3 := hnoio sl hmem
    cases hs : sl.stage <;> simp [hs, WStage.live] at h1 h2 h3 ⊢
  simp only [WState.allDone, List.all_eq_true]
  intro sl hmem
  have h0 : sl.stage ≠ .rfs := fun hs => hst sl hmem hs (Or.inl hinf)
  have h1 := hnostg sl hmem
  have h2 := hnorfi sl hmem
  have h3 := hnoio sl hmem
  cases hs : sl.stage <;> simp [hs, WStage.isDone] at h0 h1 h2 h3 ⊢

theorem wstep_idx {cap : Nat} {s s' : WState} {e : WEvent} (h : wstep cap s e = .ok s') :
    e.req < s.slots.length := by
  obtain ⟨-, sl, hsl, -⟩ := wstep_ok h
  rcases Nat.lt_or_ge e.req s.slots.length with h | h
  · exact h
  · rw [List.getElem?_eq_none h] at hsl; simp at hsl

theorem mem_wCandidates {n : Nat} {k : WKind} {r : Nat} (hk : k.isFail = false) (hr : r < n) :
    (⟨k, r⟩ : WEvent) ∈ wCandidates n := by
  cases k <;> simp [WKind.isFail] at hk <;> simp [wCandidates, hr]

theorem wCandidates_nofail {n : Nat} {e : WEvent} (h : e ∈ wCandidates n) : e.kind.isFail = false := by
  simp only [wCandidates, List.mem_append, List.mem_map] at h
  rcases h with ((⟨_, _, rfl⟩ | ⟨_, _, rfl⟩) | ⟨_, _, rfl⟩) | ⟨_, _, rfl⟩ <;> rfl

theorem isOk_iff {ε α : Type} (x : Except ε α) : isOk x = true ↔ ∃ a, x = .ok a := by
  cases x <;> simp [isOk]

theorem wGreedyNext_none {cap : Nat} {s : WState} (h : wGreedyNext cap s = none) :
    ∀ k r, k.isFail = false → ∀ s', wstep cap s ⟨k, r⟩ ≠ .ok s' := by
  intro k r hk s' hs'
  have hr := wstep_idx hs'
  simp only [wGreedyNext, List.find?_eq_none] at h
  have := h ⟨k, r⟩ (mem_wCandidates hk hr)
  simp [hs', isOk] at this

theorem wGreedyNext_some {cap : Nat} {s : WState} {e : WEvent} (h : wGreedyNext cap s = some e) :
    e.kind.isFail = false ∧ ∃ s', wstep cap s e = .ok s' := by
  simp only [wGreedyNext] at h
  have h1 := List.find?_some h
  have h2 := List.mem_of_find?_eq_some h
  exact ⟨wCandidates_nofail h2, (isOk_iff _).mp h1⟩

theorem measure_le_one_allDone {s : WState} (hf : s.failed = false) (h : s.measure ≤ 1) :
    s.allDone = true := by
  simp only [WState.measure, hf] at h
  have h0 : sumBy (fun sl => sl.stage.weight) s.slots = 0 := by
    simp at h; omega
  simp only [WState.allDone, List.all_eq_true]
  intro sl hmem
  have := (sumBy_eq_zero _ _).mp h0 sl hmem
  cases hs : sl.stage <;> simp [hs, WStage.weight, WStage.isDone] at this ⊢

/-- The greedy scheduler produces an accepted trace that ends with every request done. -/
theorem wRunGreedyAux_spec {cap : Nat} (hcap : 1 ≤ cap) : ∀ (fuel : Nat) (s : WState),
    s.failed = false → s.measure ≤ fuel + 1 →
    wrun cap s (wRunGreedyAux cap fuel s).1 = .ok (wRunGreedyAux cap fuel s).2 ∧
    (wRunGreedyAux cap fuel s).2.failed = false ∧ (wRunGreedyAux cap fuel s).2.allDone = true := by
  intro fuel
  induction fuel with
  | zero =>
    intro s hf hm
    simp only [wRunGreedyAux, wrun]
    exact ⟨trivial, hf, measure_le_one_allDone hf hm⟩
  | succ fuel ih =>
    intro s hf hm
    simp only [wRunGreedyAux]
    cases hn : wGreedyNext cap s with
    | none =>
      simp only [wrun]
      exact ⟨trivial, hf, w_dead_allDone hcap s hf (wGreedyNext_none hn)⟩
    | some e =>
      obtain ⟨hnf, s', hs'⟩ := wGreedyNext_some hn
      simp only [hs']
      have hf' : s'.failed = false := by
        obtain ⟨k, r⟩ := e
        rcases wstep_prog hs' with ⟨hfail, -⟩ | ⟨-, hf', -⟩
        · simp [hnf] at hfail
        · exact hf'
      have hm' : s'.measure ≤ fuel + 1 := by
        have := wstep_measure hs'
        omega
      obtain ⟨h1, h2, h3⟩ := ih s' hf' hm'
      refine ⟨?_, h2, h3⟩
      simp only [wrun, hs', h1]


/-! ### Read pipeline: one step -/

theorem rstep_ok {cap : Nat} {s s' : RState} {e : REvent} (h : rstep cap s e = .ok s') :
    s.failed = false ∧ ∃ sl, s.slots[e.req]? = some sl ∧ sl.stage = e.kind.src ∧
      rguard cap s sl e.kind ∧
      ((e.kind.dst = none ∧ s' = { s with failed := true }) ∨
       (∃ d, e.kind.dst = some d ∧
         s' = { slots := s.slots.set e.req { sl with stage := d },
                budget := s.budget + rdelta sl e.kind, failed := false,
                scanning := e.kind.isStart })) := by
  unfold rstep at h
  split at h
  · simp at h
  · rename_i hf
    refine ⟨by simpa using hf, ?_⟩
    split at h
    · simp at h
    · rename_i sl hsl
      refine ⟨sl, hsl, ?_⟩
      split at h
      · simp at h
      · rename_i hst
        split at h
        · simp at h
        · rename_i hg
          refine ⟨by simpa using hst, by simpa using hg, ?_⟩
          split at h
          · rename_i hd
            left
            exact ⟨hd, by simpa using h.symm⟩
          · rename_i d hd
            right
            exact ⟨d, hd, by simpa using h.symm⟩

theorem rstep_eq {cap : Nat} {s : RState} {e : REvent} {sl : RSlot} (hf : s.failed = false)
    (hsl : s.slots[e.req]? = some sl) (hst : sl.stage = e.kind.src) (hg : rguard cap s sl e.kind) :
    rstep cap s e = .ok (match e.kind.dst with
      | none => { s with failed := true }
      | some d => { slots := s.slots.set e.req { sl with stage := d },
                    budget := s.budget + rdelta sl e.kind, failed := false,
                    scanning := e.kind.isStart }) := by
  unfold rstep
  simp [hf, hsl, hst, hg]
  split <;> simp_all

theorem rstep_move {cap : Nat} {s s' : RState} {k : RKind} {r : Nat}
    (h : rstep cap s ⟨k, r⟩ = .ok s') :
    s.failed = false ∧ ∃ sl, s.slots[r]? = some sl ∧ sl.stage = k.src ∧ rguard cap s sl k ∧
      ((k.dst = none ∧ s' = { s with failed := true }) ∨
       (∃ d, k.dst = some d ∧ s'.slots = s.slots.set r { sl with stage := d } ∧
          s'.budget = s.budget + rdelta sl k ∧ s'.failed = false ∧ s'.scanning = k.isStart ∧
          ∀ g : RSlot → Nat, sumBy g s'.slots + g sl = sumBy g s.slots + g { sl with stage := d })) := by
  obtain ⟨hf, sl, hsl, hst, hg, hcase⟩ := rstep_ok h
  refine ⟨hf, sl, hsl, hst, hg, ?_⟩
  rcases hcase with ⟨hd, hs'⟩ | ⟨d, hd, hs'⟩
  · exact Or.inl ⟨hd, hs'⟩
  · right
    refine ⟨d, hd, ?_, ?_, ?_, ?_, ?_⟩
    · simp [hs']
    · simp [hs']
    · simp [hs']
    · simp [hs']
    · intro g
      simp only [hs']
      exact sumBy_set g s.slots r sl _ hsl

theorem rstep_conservation {cap : Nat} {s s' : RState} {e : REvent} (h : rstep cap s e = .ok s') :
    s'.budget + (s'.accounted : Int) = s.budget + (s.accounted : Int) := by
  obtain ⟨k, r⟩ := e
  obtain ⟨-, sl, -, hst, -, hcase⟩ := rstep_move h
  rcases hcase with ⟨-, hs'⟩ | ⟨d, hd, -, hb, -, -, hsum⟩
  · simp [hs', RState.accounted]
  · have := hsum RSlot.held
    simp only [RState.accounted]
    generalize sumBy RSlot.held s'.slots = A' at *
    generalize sumBy RSlot.held s.slots = A at *
    cases k <;> simp [RKind.src, RKind.dst] at hst hd <;> subst hd <;>
      simp [RSlot.held, hst, rdelta] at this hb ⊢ <;> omega

theorem rstep_nIo {cap : Nat} {s s' : RState} {e : REvent} (h : rstep cap s e = .ok s')
    (hc : s.nIo ≤ cap) : s'.nIo ≤ cap := by
  obtain ⟨k, r⟩ := e
  obtain ⟨-, sl, -, hst, hg, hcase⟩ := rstep_move h
  rcases hcase with ⟨-, hs'⟩ | ⟨d, hd, -, -, -, -, hsum⟩
  · simpa [hs', RState.nIo] using hc
  · have := hsum (fun sl => sl.stage.isIo)
    simp only [RState.nIo] at hc ⊢
    have hg' : k = .ioStart → sumBy (fun sl => sl.stage.isIo) s.slots < cap := by
      intro hk; subst hk; simpa [rguard, RState.nIo] using hg.1
    generalize sumBy (fun sl => sl.stage.isIo) s'.slots = A at *
    generalize sumBy (fun sl => sl.stage.isIo) s.slots = B at *
    cases k <;> simp [RKind.src, RKind.dst] at hst hd <;> subst hd <;>
      simp [RStage.isIo, hst] at this hg' <;> omega

theorem rstep_reqs {cap : Nat} {s s' : RState} {e : REvent} (h : rstep cap s e = .ok s')
    (P : Req → Prop) (hP : ∀ sl ∈ s.slots, P sl.req) : ∀ sl ∈ s'.slots, P sl.req := by
  obtain ⟨k, r⟩ := e
  obtain ⟨-, sl, hsl, -, -, hcase⟩ := rstep_move h
  rcases hcase with ⟨-, hs'⟩ | ⟨d, -, hslots, -, -, -, -⟩
  · simpa [hs'] using hP
  · intro x hx
    rw [hslots] at hx
    rcases mem_set_cases hx with hx | hx
    · exact hP x hx
    · subst hx
      exact hP sl (mem_of_getElem? hsl)

theorem rstep_bound {cap : Nat} {B : Int} {s s' : RState} {e : REvent}
    (h : rstep cap s e = .ok s') (hcons : s.budget + (s.accounted : Int) = B)
    (hb : (s.accounted : Int) ≤ B ∨ s.inflight ≤ 1) :
    (s'.accounted : Int) ≤ B ∨ s'.inflight ≤ 1 := by
  obtain ⟨k, r⟩ := e
  obtain ⟨-, sl, hsl, hst, hg, hcase⟩ := rstep_move h
  rcases hcase with ⟨-, hs'⟩ | ⟨d, hd, -, -, -, -, hsum⟩
  · simpa [hs', RState.accounted, RState.inflight] using hb
  · have h1 := hsum RSlot.held
    have h2 := hsum (fun sl => sl.stage.live)
    have hg' : k = .ioStart → s.inflight = 0 ∨ (sl.req.cost : Int) < s.budget := by
      intro hk; subst hk; exact hg.2
    simp only [RState.accounted, RState.inflight] at hcons hb hg' ⊢
    generalize sumBy RSlot.held s'.slots = A' at *
    generalize sumBy RSlot.held s.slots = A at *
    generalize sumBy (fun sl => sl.stage.live) s'.slots = L' at *
    generalize sumBy (fun sl => sl.stage.live) s.slots = L at *
    cases k <;> simp [RKind.src, RKind.dst] at hst hd <;> subst hd <;>
      simp [RSlot.held, RStage.live, hst] at h1 h2 hg' <;> omega

theorem accountedReal_le {s : RState} (hle : ∀ sl ∈ s.slots, sl.req.buf ≤ sl.req.cost) :
    s.accountedReal ≤ s.accounted := by
  simp only [RState.accountedReal, RState.accounted]
  apply sumBy_le_sumBy
  intro sl hmem
  have := hle sl hmem
  cases hs : sl.stage <;> simp [RSlot.heldReal, RSlot.held, hs, this]

theorem rstep_measure {cap : Nat} {s s' : RState} {e : REvent} (h : rstep cap s e = .ok s') :
    s'.measure < s.measure := by
  obtain ⟨k, r⟩ := e
  obtain ⟨hf, sl, -, hst, -, hcase⟩ := rstep_move h
  rcases hcase with ⟨-, hs'⟩ | ⟨d, hd, -, -, hf', -, hsum⟩
  · simp [hs', RState.measure, hf]; omega
  · have h1 := hsum (fun sl => sl.stage.weight)
    simp only [RState.measure, hf, hf']
    generalize sumBy (fun sl => sl.stage.weight) s'.slots = A' at *
    generalize sumBy (fun sl => sl.stage.weight) s.slots = A at *
    cases k <;> simp [RKind.src, RKind.dst] at hst hd <;> subst hd <;>
      simp [RStage.weight, hst] at h1 ⊢ <;> omega

/-! ### Read pipeline: runs -/

theorem rrun_cons {cap : Nat} {s s' : RState} {e : REvent} {tr : List REvent}
    (h : rrun cap s (e :: tr) = .ok s') : ∃ s1, rstep cap s e = .ok s1 ∧ rrun cap s1 tr = .ok s' := by
  simp only [rrun] at h
  split at h
  · rename_i s1 h1
    exact ⟨s1, h1, h⟩
  · simp at h

theorem rrun_append {cap : Nat} (s : RState) (t1 t2 : List REvent) :
    rrun cap s (t1 ++ t2) = (match rrun cap s t1 with
      | .ok s1 => rrun cap s1 t2
      | .error x => .error x) := by
  induction t1 generalizing s with
  | nil => simp [rrun]
  | cons e t1 ih =>
    simp only [List.cons_append, rrun]
    cases rstep cap s e with
    | ok s1 => simp [ih]
    | error x => simp

theorem rrun_snoc {cap : Nat} {s s' : RState} {tr : List REvent} {e : REvent}
    (h : rrun cap s (tr ++ [e]) = .ok s') : ∃ s1, rrun cap s tr = .ok s1 ∧ rstep cap s1 e = .ok s' := by
  rw [rrun_append] at h
  split at h
  · rename_i s1 h1
    refine ⟨s1, h1, ?_⟩
    simp only [rrun] at h
    split at h
    · rename_i s2 h2
      simp at h
      rw [h2, h]
    · simp at h
  · simp at h

theorem rrun_invariant {cap : Nat} (P : RState → Prop)
    (hstep : ∀ s e s', P s → rstep cap s e = .ok s' → P s') :
    ∀ (tr : List REvent) (s s' : RState), P s → rrun cap s tr = .ok s' → P s' := by
  intro tr
  induction tr with
  | nil => intro s s' hP h; simp [rrun] at h; subst h; exact hP
  | cons e tr ih =>
    intro s s' hP h
    obtain ⟨s1, h1, h2⟩ := rrun_cons h
    exact ih s1 s' (hstep s e s1 hP h1) h2

theorem rInit_sum (cfg : Config) (g : RSlot → Nat) (hg : ∀ r, g ⟨r, .pending⟩ = 0) :
    sumBy g (rInit cfg).slots = 0 := by
  simp only [rInit, sumBy_map]
  rw [sumBy_eq_zero]
  intro a _
  exact hg a


/-! ### Read pipeline: progress of a request and event counts -/

def RStage.prog : RStage → Nat
  | .pending => 0 | .io => 1 | .consuming => 2 | .done => 3

def RKind.isFail : RKind → Bool
  | .ioFail => true | .consumeFail => true | _ => false

def rprog (s : RState) (r : Nat) : Nat :=
  match s.slots[r]? with
  | some sl => sl.stage.prog
  | none => 0

theorem rkind_dst_prog {k : RKind} {d : RStage} (h : k.dst = some d) :
    k.isFail = false ∧ d.prog = k.src.prog + 1 := by
  cases k <;> simp [RKind.dst] at h <;> subst h <;> simp [RKind.isFail, RKind.src, RStage.prog]

theorem rkind_dst_none {k : RKind} (h : k.dst = none) : k.isFail = true := by
  cases k <;> simp [RKind.dst] at h <;> rfl

theorem rkind_level_inj {k k' : RKind} (h : k.isFail = false) (h' : k'.isFail = false)
    (hl : k.src.prog = k'.src.prog) : k = k' := by
  cases k <;> cases k' <;> simp [RKind.isFail, RKind.src, RStage.prog] at h h' hl ⊢

theorem rstep_prog {cap : Nat} {s s' : RState} {k : RKind} {r : Nat}
    (h : rstep cap s ⟨k, r⟩ = .ok s') :
    (k.isFail = true ∧ s' = { s with failed := true }) ∨
    (k.isFail = false ∧ s'.failed = false ∧ rprog s r = k.src.prog ∧ rprog s' r = k.src.prog + 1 ∧
      r < s.slots.length ∧ s'.slots.length = s.slots.length ∧
      ∀ r', r' ≠ r → rprog s' r' = rprog s r') := by
  obtain ⟨-, sl, hsl, hst, -, hcase⟩ := rstep_move h
  rcases hcase with ⟨hd, hs'⟩ | ⟨d, hd, hslots, -, hf', -, -⟩
  · exact Or.inl ⟨rkind_dst_none hd, hs'⟩
  · right
    obtain ⟨hnf, hdp⟩ := rkind_dst_prog hd
    have hlt : r < s.slots.length := by
      rcases Nat.lt_or_ge r s.slots.length with h | h
      · exact h
      · rw [List.getElem?_eq_none h] at hsl; simp at hsl
    refine ⟨hnf, hf', ?_, ?_, hlt, ?_, ?_⟩
    · simp [rprog, hsl, hst]
    · simp [rprog, hslots, hlt, hdp]
    · simp [hslots]
    · intro r' hne
      have : ¬ r = r' := fun e => hne e.symm
      simp [rprog, hslots, this]

theorem rrun_failed {cap : Nat} {s s' : RState} {tr : List REvent} (hf : s.failed = true)
    (h : rrun cap s tr = .ok s') : tr = [] ∧ s' = s := by
  cases tr with
  | nil => simp [rrun] at h; exact ⟨rfl, h.symm⟩
  | cons e tr =>
    obtain ⟨s1, h1, -⟩ := rrun_cons h
    simp [rstep, hf] at h1

theorem rrun_counts {cap : Nat} : ∀ (tr : List REvent) (s s' : RState), rrun cap s tr = .ok s' →
    s'.slots.length = s.slots.length ∧
    (∀ r, rprog s r ≤ rprog s' r) ∧
    (∀ k r, k.isFail = false →
      tr.count ⟨k, r⟩ = if rprog s r ≤ k.src.prog ∧ k.src.prog < rprog s' r then 1 else 0) ∧
    (s'.failed = false → ∀ e ∈ tr, e.kind.isFail = false) := by
  intro tr
  induction tr with
  | nil =>
    intro s s' h
    simp [rrun] at h
    subst h
    refine ⟨rfl, fun _ => Nat.le_refl _, ?_, by simp⟩
    intro k r _
    have : ¬ (rprog s r ≤ k.src.prog ∧ k.src.prog < rprog s r) := by omega
    simp [this]
  | cons e tr ih =>
    intro s s' h
    obtain ⟨s1, h1, h2⟩ := rrun_cons h
    obtain ⟨k0, r0⟩ := e
    rcases rstep_prog h1 with ⟨hfail, hs1⟩ | ⟨hnf, hf1, hp, hp1, -, hlen, hoth⟩
    · have hf1 : s1.failed = true := by simp [hs1]
      obtain ⟨htr, hs'⟩ := rrun_failed hf1 h2
      subst htr
      rw [hs']
      have hpe : ∀ r, rprog s1 r = rprog s r := by intro r; simp [rprog, hs1]
      refine ⟨by simp [hs1], fun r => by rw [hpe]; exact Nat.le_refl _, ?_, by simp [hs1]⟩
      intro k r hk
      have hne : ¬ ((⟨k0, r0⟩ : REvent) = ⟨k, r⟩) := by
        intro e; injection e with e1 _; subst e1; simp [hfail] at hk
      have : ¬ (rprog s r ≤ k.src.prog ∧ k.src.prog < rprog s1 r) := by rw [hpe]; omega
      rw [if_neg this]
      simp [hne]
    · obtain ⟨ihlen, ihmono, ihcount, ihfail⟩ := ih s1 s' h2
      have hmono1 : ∀ r, rprog s r ≤ rprog s1 r := by
        intro r
        by_cases hr : r = r0
        · subst hr; omega
        · rw [hoth r hr]; exact Nat.le_refl _
      refine ⟨by omega, fun r => Nat.le_trans (hmono1 r) (ihmono r), ?_, ?_⟩
      · intro k r hk
        rw [List.count_cons, ihcount k r hk]
        by_cases hr : r = r0
        · subst hr
          have hm := ihmono r
          by_cases hkk : k = k0
          · subst hkk
            have h1 : ¬ (rprog s1 r ≤ k.src.prog ∧ k.src.prog < rprog s' r) := by omega
            have h2 : (rprog s r ≤ k.src.prog ∧ k.src.prog < rprog s' r) := by omega
            rw [if_neg h1, if_pos h2]
            simp
          · have hne : ¬ ((⟨k0, r⟩ : REvent) = ⟨k, r⟩) := by
              intro e; injection e with e1 _; exact hkk e1.symm
            have hl : k.src.prog ≠ k0.src.prog := fun e => hkk (rkind_level_inj hk hnf e)
            have hiff : (rprog s1 r ≤ k.src.prog ∧ k.src.prog < rprog s' r) ↔
                (rprog s r ≤ k.src.prog ∧ k.src.prog < rprog s' r) := by omega
            simp only [hiff]
            simp [hne]
        · have hne : ¬ ((⟨k0, r0⟩ : REvent) = ⟨k, r⟩) := by
            intro e; injection e with _ e2; exact hr e2.symm
          rw [hoth r hr]
          simp [hne]
      · intro hf' e he
        rcases List.mem_cons.mp he with rfl | he
        · exact hnf
        · exact ihfail hf' e he

/-! ### Read pipeline: progress (no stuck state) and the greedy scheduler -/

theorem r_dead_allDone {cap : Nat} (hcap : 1 ≤ cap) (s : RState) (hf : s.failed = false)
    (hdead : ∀ k r, k.isFail = false → ∀ s', rstep cap s ⟨k, r⟩ ≠ .ok s') :
    s.allDone = true := by
  -- the guard of completions holds: otherwise the scan could still start a read
  have hguard : s.scanning = true → s.saturated cap := by
    intro _
    apply Classical.byContradiction
    intro hn
    simp only [RState.saturated, not_or, Nat.not_le] at hn
    obtain ⟨hlt, hex⟩ := hn
    have : ∃ sl ∈ s.slots, sl.stage = .pending ∧ s.admissible sl := by
      apply Classical.byContradiction
      intro hne
      apply hex
      intro sl hmem hp hadm
      exact hne ⟨sl, hmem, hp, hadm⟩
    obtain ⟨sl, hmem, hp, hadm⟩ := this
    obtain ⟨r, hr⟩ := exists_idx_of_mem hmem
    exact hdead .ioStart r rfl _ (rstep_eq (e := ⟨.ioStart, r⟩) hf hr hp ⟨hlt, hadm⟩)
  have hnoio : ∀ sl ∈ s.slots, sl.stage ≠ .io := by
    intro sl hmem hs
    obtain ⟨r, hr⟩ := exists_idx_of_mem hmem
    exact hdead .ioDone r rfl _ (rstep_eq (e := ⟨.ioDone, r⟩) hf hr hs hguard)
  have hnocons : ∀ sl ∈ s.slots, sl.stage ≠ .consuming := by
    intro sl hmem hs
    obtain ⟨r, hr⟩ := exists_idx_of_mem hmem
    exact hdead .consumeDone r rfl _ (rstep_eq (e := ⟨.consumeDone, r⟩) hf hr hs hguard)
  have hnIo : s.nIo = 0 := by
    simp only [RState.nIo]
    rw [sumBy_eq_zero]
    intro sl hmem
    have := hnoio sl hmem
    cases hs : sl.stage <;> simp [hs, RStage.isIo] at this ⊢
  have hinf : s.inflight = 0 := by
    simp only [RState.inflight]
    rw [sumBy_eq_zero]
    intro sl hmem
    have h1 := hnoio sl hmem
    have h2 := hnocons sl hmem
    cases hs : sl.stage <;> simp [hs, RStage.live] at h1 h2 ⊢
  simp only [RState.allDone, List.all_eq_true]
  intro sl hmem
  have h0 : sl.stage ≠ .pending := by
    intro hs
    obtain ⟨r, hr⟩ := exists_idx_of_mem hmem
    exact hdead .ioStart r rfl _
      (rstep_eq (e := ⟨.ioStart, r⟩) hf hr hs ⟨by omega, Or.inl hinf⟩)
  have h1 := hnoio sl hmem
  have h2 := hnocons sl hmem
  cases hs : sl.stage <;> simp [hs, RStage.isDone] at h0 h1 h2 ⊢

theorem rstep_idx {cap : Nat} {s s' : RState} {e : REvent} (h : rstep cap s e = .ok s') :
    e.req < s.slots.length := by
  obtain ⟨-, sl, hsl, -⟩ := rstep_ok h
  rcases Nat.lt_or_ge e.req s.slots.length with h | h
  · exact h
  · rw [List.getElem?_eq_none h] at hsl; simp at hsl

theorem mem_rCandidates {n : Nat} {k : RKind} {r : Nat} (hk : k.isFail = false) (hr : r < n) :
    (⟨k, r⟩ : REvent) ∈ rCandidates n := by
  cases k <;> simp [RKind.isFail] at hk <;> simp [rCandidates, hr]

theorem rCandidates_nofail {n : Nat} {e : REvent} (h : e ∈ rCandidates n) : e.kind.isFail = false := by
  simp only [rCandidates, List.mem_append, List.mem_map] at h
  rcases h with (⟨_, _, rfl⟩ | ⟨_, _, rfl⟩) | ⟨_, _, rfl⟩ <;> rfl

theorem rGreedyNext_none {cap : Nat} {s : RState} (h : rGreedyNext cap s = none) :
    ∀ k r, k.isFail = false → ∀ s', rstep cap s ⟨k, r⟩ ≠ .ok s' := by
  intro k r hk s' hs'
  have hr := rstep_idx hs'
  simp only [rGreedyNext, List.find?_eq_none] at h
  have := h ⟨k, r⟩ (mem_rCandidates hk hr)
  simp [hs', isOk] at this

theorem rGreedyNext_some {cap : Nat} {s : RState} {e : REvent} (h : rGreedyNext cap s = some e) :
    e.kind.isFail = false ∧ ∃ s', rstep cap s e = .ok s' := by
  simp only [rGreedyNext] at h
  have h1 := List.find?_some h
  have h2 := List.mem_of_find?_eq_some h
  exact ⟨rCandidates_nofail h2, (isOk_iff _).mp h1⟩

theorem rmeasure_le_one_allDone {s : RState} (hf : s.failed = false) (h : s.measure ≤ 1) :
    s.allDone = true := by
  simp only [RState.measure, hf] at h
  have h0 : sumBy (fun sl => sl.stage.weight) s.slots = 0 := by
    simp at h; omega
  simp only [RState.allDone, List.all_eq_true]
  intro sl hmem
  have := (sumBy_eq_zero _ _).mp h0 sl hmem
  cases hs : sl.stage <;> simp [hs, RStage.weight, RStage.isDone] at this ⊢

theorem rRunGreedyAux_spec {cap : Nat} (hcap : 1 ≤ cap) : ∀ (fuel : Nat) (s : RState),
    s.failed = false → s.measure ≤ fuel + 1 →
    rrun cap s (rRunGreedyAux cap fuel s).1 = .ok (rRunGreedyAux cap fuel s).2 ∧
    (rRunGreedyAux cap fuel s).2.failed = false ∧ (rRunGreedyAux cap fuel s).2.allDone = true := by
  intro fuel
  induction fuel with
  | zero =>
    intro s hf hm
    simp only [rRunGreedyAux, rrun]
    exact ⟨trivial, hf, rmeasure_le_one_allDone hf hm⟩
  | succ fuel ih =>
    intro s hf hm
    simp only [rRunGreedyAux]
    cases hn : rGreedyNext cap s with
    | none =>
      simp only [rrun]
      exact ⟨trivial, hf, r_dead_allDone hcap s hf (rGreedyNext_none hn)⟩
    | some e =>
      obtain ⟨hnf, s', hs'⟩ := rGreedyNext_some hn
      simp only [hs']
      have hf' : s'.failed = false := by
        obtain ⟨k, r⟩ := e
        rcases rstep_prog hs' with ⟨hfail, -⟩ | ⟨-, hf', -⟩
        · simp [hnf] at hfail
        · exact hf'
      have hm' : s'.measure ≤ fuel + 1 := by
        have := rstep_measure hs'
        omega
      obtain ⟨h1, h2, h3⟩ := ih s' hf' hm'
      refine ⟨?_, h2, h3⟩
      simp only [rrun, hs', h1]



/-! ### Step lemmas for the "oversized request only from the empty pipeline" argument -/

/-- An admission either starts from the empty pipeline (and then exactly one request is in flight)
or leaves the accounted bytes strictly below the total budget. -/
theorem wstep_stageStart {cap : Nat} {B : Int} {s s' : WState} {r : Nat}
    (h : wstep cap s ⟨.stageStart, r⟩ = .ok s') (hcons : s.budget + (s.accounted : Int) = B) :
    (s.inflight = 0 ∧ s'.inflight = 1) ∨ (s'.accounted : Int) < B := by
  obtain ⟨-, sl, hsl, hst, hg, hcase⟩ := wstep_move h
  rcases hcase with ⟨hd, -⟩ | ⟨d, hd, -, -, -, hsum⟩
  · simp [WKind.dst] at hd
  · have h1 := hsum WSlot.held
    have h2 := hsum (fun sl => sl.stage.live)
    have hg' : s.inflight = 0 ∨ (sl.req.cost : Int) < s.budget := hg.2
    simp only [WState.accounted, WState.inflight] at hcons hg' ⊢
    generalize sumBy WSlot.held s'.slots = A' at *
    generalize sumBy WSlot.held s.slots = A at *
    generalize sumBy (fun sl => sl.stage.live) s'.slots = L' at *
    generalize sumBy (fun sl => sl.stage.live) s.slots = L at *
    simp [WKind.src, WKind.dst] at hst hd
    subst hd
    simp [WSlot.held, WStage.live, hst] at h1 h2
    omega

/-- Every other event neither raises the accounted bytes (given `buf ≤ cost`) nor the number of
requests in flight. -/
theorem wstep_nonStageStart {cap : Nat} {s s' : WState} {k : WKind} {r : Nat}
    (h : wstep cap s ⟨k, r⟩ = .ok s') (hk : k ≠ .stageStart)
    (hle : ∀ sl ∈ s.slots, sl.req.buf ≤ sl.req.cost) :
    s'.accounted ≤ s.accounted ∧ s'.inflight ≤ s.inflight := by
  obtain ⟨-, sl, hsl, hst, -, hcase⟩ := wstep_move h
  rcases hcase with ⟨-, hs'⟩ | ⟨d, hd, -, -, -, hsum⟩
  · simp [hs', WState.accounted, WState.inflight]
  · have h1 := hsum WSlot.held
    have h2 := hsum (fun sl => sl.stage.live)
    have hbc := hle sl (mem_of_getElem? hsl)
    simp only [WState.accounted, WState.inflight]
    generalize sumBy WSlot.held s'.slots = A' at *
    generalize sumBy WSlot.held s.slots = A at *
    generalize sumBy (fun sl => sl.stage.live) s'.slots = L' at *
    generalize sumBy (fun sl => sl.stage.live) s.slots = L at *
    cases k <;> simp [WKind.src, WKind.dst] at hst hd hk <;> subst hd <;>
      simp [WSlot.held, WStage.live, hst] at h1 h2 <;> omega

theorem rstep_start {cap : Nat} {B : Int} {s s' : RState} {r : Nat}
    (h : rstep cap s ⟨.ioStart, r⟩ = .ok s') (hcons : s.budget + (s.accounted : Int) = B) :
    (s.inflight = 0 ∧ s'.inflight = 1) ∨ (s'.accounted : Int) < B := by
  obtain ⟨-, sl, hsl, hst, hg, hcase⟩ := rstep_move h
  rcases hcase with ⟨hd, -⟩ | ⟨d, hd, -, -, -, -, hsum⟩
  · simp [RKind.dst] at hd
  · have h1 := hsum RSlot.held
    have h2 := hsum (fun sl => sl.stage.live)
    have hg' : s.inflight = 0 ∨ (sl.req.cost : Int) < s.budget := hg.2
    simp only [RState.accounted, RState.inflight] at hcons hg' ⊢
    generalize sumBy RSlot.held s'.slots = A' at *
    generalize sumBy RSlot.held s.slots = A at *
    generalize sumBy (fun sl => sl.stage.live) s'.slots = L' at *
    generalize sumBy (fun sl => sl.stage.live) s.slots = L at *
    simp [RKind.src, RKind.dst] at hst hd
    subst hd
    simp [RSlot.held, RStage.live, hst] at h1 h2
    omega

theorem rstep_nonstart {cap : Nat} {s s' : RState} {k : RKind} {r : Nat}
    (h : rstep cap s ⟨k, r⟩ = .ok s') (hk : k ≠ .ioStart) :
    s'.accounted ≤ s.accounted ∧ s'.inflight ≤ s.inflight := by
  obtain ⟨-, sl, hsl, hst, -, hcase⟩ := rstep_move h
  rcases hcase with ⟨-, hs'⟩ | ⟨d, hd, -, -, -, -, hsum⟩
  · simp [hs', RState.accounted, RState.inflight]
  · have h1 := hsum RSlot.held
    have h2 := hsum (fun sl => sl.stage.live)
    simp only [RState.accounted, RState.inflight]
    generalize sumBy RSlot.held s'.slots = A' at *
    generalize sumBy RSlot.held s.slots = A at *
    generalize sumBy (fun sl => sl.stage.live) s'.slots = L' at *
    generalize sumBy (fun sl => sl.stage.live) s.slots = L at *
    cases k <;> simp [RKind.src, RKind.dst] at hst hd hk <;> subst hd <;>
      simp [RSlot.held, RStage.live, hst] at h1 h2 <;> omega

/-! ### Reachable-state invariants packaged for the property files -/

theorem wreach_conservation (cfg : Config) (tr : List WEvent) (s : WState)
    (h : wrun cfg.cap (wInit cfg) tr = .ok s) : s.budget + (s.accounted : Int) = cfg.budget := by
  refine wrun_invariant (cap := cfg.cap) (fun s => s.budget + (s.accounted : Int) = cfg.budget)
    ?_ tr (wInit cfg) s ?_ h
  · intro s e s' hP hs
    rw [wstep_conservation hs]; exact hP
  · have : (wInit cfg).accounted = 0 := wInit_sum cfg _ (fun r => rfl)
    show (wInit cfg).budget + ((wInit cfg).accounted : Int) = cfg.budget
    rw [this]; simp [wInit]

theorem rreach_conservation (cfg : Config) (tr : List REvent) (s : RState)
    (h : rrun cfg.cap (rInit cfg) tr = .ok s) : s.budget + (s.accounted : Int) = cfg.budget := by
  refine rrun_invariant (cap := cfg.cap) (fun s => s.budget + (s.accounted : Int) = cfg.budget)
    ?_ tr (rInit cfg) s ?_ h
  · intro s e s' hP hs
    rw [rstep_conservation hs]; exact hP
  · have : (rInit cfg).accounted = 0 := rInit_sum cfg _ (fun r => rfl)
    show (rInit cfg).budget + ((rInit cfg).accounted : Int) = cfg.budget
    rw [this]; simp [rInit]

theorem wreach_reqs (cfg : Config) (P : Req → Prop) (hP : ∀ q ∈ cfg.reqs, P q)
    (tr : List WEvent) (s : WState) (h : wrun cfg.cap (wInit cfg) tr = .ok s) :
    ∀ sl ∈ s.slots, P sl.req := by
  refine wrun_invariant (cap := cfg.cap) (fun s => ∀ sl ∈ s.slots, P sl.req) ?_ tr (wInit cfg) s ?_ h
  · intro s e s' hs hstep
    exact wstep_reqs hstep P hs
  · intro sl hmem
    simp only [wInit, List.mem_map] at hmem
    obtain ⟨q, hq, rfl⟩ := hmem
    exact hP q hq

theorem rreach_reqs (cfg : Config) (P : Req → Prop) (hP : ∀ q ∈ cfg.reqs, P q)
    (tr : List REvent) (s : RState) (h : rrun cfg.cap (rInit cfg) tr = .ok s) :
    ∀ sl ∈ s.slots, P sl.req := by
  refine rrun_invariant (cap := cfg.cap) (fun s => ∀ sl ∈ s.slots, P sl.req) ?_ tr (rInit cfg) s ?_ h
  · intro s e s' hs hstep
    exact rstep_reqs hstep P hs
  · intro sl hmem
    simp only [rInit, List.mem_map] at hmem
    obtain ⟨q, hq, rfl⟩ := hmem
    exact hP q hq

theorem allDone_accounted_w {s : WState} (h : s.allDone = true) : s.accounted = 0 := by
  simp only [WState.allDone, List.all_eq_true] at h
  simp only [WState.accounted]
  rw [sumBy_eq_zero]
  intro sl hmem
  have := h sl hmem
  cases hs : sl.stage <;> simp [hs, WStage.isDone, WSlot.held] at this ⊢

theorem allDone_accounted_r {s : RState} (h : s.allDone = true) : s.accounted = 0 := by
  simp only [RState.allDone, List.all_eq_true] at h
  simp only [RState.accounted]
  rw [sumBy_eq_zero]
  intro sl hmem
  have := h sl hmem
  cases hs : sl.stage <;> simp [hs, RStage.isDone, RSlot.held] at this ⊢

theorem woutcome_ok {s : WState} (h : s.outcome = .ok) : s.failed = false ∧ s.allDone = true := by
  simp only [WState.outcome] at h
  split at h
  · simp at h
  · split at h
    · rename_i hf ha; exact ⟨by simpa using hf, ha⟩
    · simp at h

theorem routcome_ok {s : RState} (h : s.outcome = .ok) : s.failed = false ∧ s.allDone = true := by
  simp only [RState.outcome] at h
  split at h
  · simp at h
  · split at h
    · rename_i hf ha; exact ⟨by simpa using hf, ha⟩
    · simp at h

theorem eq_ok_of_toOption {ε α : Type} {x : Except ε α} {a : α} (h : x.toOption = some a) :
    x = .ok a := by
  cases x <;> simp [Except.toOption] at h
  subst h; rfl

theorem wstep_isOk_iff {cap : Nat} {s : WState} {e : WEvent} :
    isOk (wstep cap s e) = true ↔
      s.failed = false ∧ ∃ sl, s.slots[e.req]? = some sl ∧ sl.stage = e.kind.src ∧
        wguard cap s sl e.kind := by
  constructor
  · intro h
    obtain ⟨s', hs'⟩ := (isOk_iff _).mp h
    obtain ⟨hf, sl, hsl, hst, hg, -⟩ := wstep_ok hs'
    exact ⟨hf, sl, hsl, hst, hg⟩
  · rintro ⟨hf, sl, hsl, hst, hg⟩
    rw [wstep_eq hf hsl hst hg]; rfl

theorem rstep_isOk_iff {cap : Nat} {s : RState} {e : REvent} :
    isOk (rstep cap s e) = true ↔
      s.failed = false ∧ ∃ sl, s.slots[e.req]? = some sl ∧ sl.stage = e.kind.src ∧
        rguard cap s sl e.kind := by
  constructor
  · intro h
    obtain ⟨s', hs'⟩ := (isOk_iff _).mp h
    obtain ⟨hf, sl, hsl, hst, hg, -⟩ := rstep_ok hs'
    exact ⟨hf, sl, hsl, hst, hg⟩
  · rintro ⟨hf, sl, hsl, hst, hg⟩
    rw [rstep_eq hf hsl hst hg]; rfl

theorem sumBy_const {α : Type} (c : Nat) (l : List α) : sumBy (fun _ => c) l = c * l.length := by
  induction l with
  | nil => rfl
  | cons a l ih => simp only [sumBy, ih, List.length_cons, Nat.mul_succ]; omega

end Ts.Sched
