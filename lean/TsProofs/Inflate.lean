import TsProofs.Flatten
/-! Helper lemmas for `inflate` on the image of `flatten` (C15). -/
namespace Ts.Flatten
open Ts.Path

/-! ## `split` / `pop` / `join` of a path -/

theorem popLast_snoc {α : Type} (l : List α) (a : α) : popLast (l ++ [a]) = some (l, a) := by
  induction l with
  | nil => rfl
  | cons b l ih =>
    cases l with
    | nil => simp [popLast]
    | cons c l =>
      simp only [List.cons_append] at ih ⊢
      simp [popLast, ih]

theorem popLast_eq_some {α : Type} (l i : List α) (a : α) (h : popLast l = some (i, a)) :
    l = i ++ [a] := by
  induction l generalizing i with
  | nil => simp [popLast] at h
  | cons b l ih =>
    cases l with
    | nil => simp [popLast] at h; obtain ⟨h1, h2⟩ := h; subst h1; subst h2; rfl
    | cons c l =>
      simp only [popLast, Option.map_eq_some_iff] at h
      obtain ⟨⟨i', a'⟩, h1, h2⟩ := h
      simp at h2
      obtain ⟨h2, h3⟩ := h2
      subst h2; subst h3
      have := ih i' (by simpa [popLast] using h1)
      simp [this]

theorem join_split (s : Str) : joinSlash (splitSlash s) = s := by
  induction s with
  | nil => rfl
  | cons c s ih =>
    unfold splitSlash
    by_cases hc : c = 47
    · subst hc
      simp only [if_true]
      cases hs : splitSlash s with
      | nil => exact absurd hs (splitSlash_ne_nil s)
      | cons h t => rw [hs] at ih; simp [joinSlash, ih]
    · simp only [hc, if_false]
      cases hs : splitSlash s with
      | nil => exact absurd hs (splitSlash_ne_nil s)
      | cons h t =>
        rw [hs] at ih
        cases t with
        | nil => simp [joinSlash] at ih ⊢; exact ih
        | cons b r => simp [joinSlash] at ih ⊢; exact ih

/-- A path with a parent is `parent + "/" + last token`. -/
theorem parentKey_eq_some (s par k : Str) (h : parentKey s = some (par, k)) : s = par ++ 47 :: k := by
  unfold parentKey at h
  cases hp : popLast (splitSlash s) with
  | none => simp [hp] at h
  | some ia =>
    obtain ⟨i, a⟩ := ia
    simp only [hp] at h
    by_cases hi : i = []
    · simp [hi] at h
    · simp only [hi, if_false, Option.some.injEq, Prod.mk.injEq] at h
      have := popLast_eq_some _ _ _ hp
      rw [← join_split s, this, joinSlash_snoc i hi, h.1, h.2]

theorem parentKey_join_snoc (c : CPath) (k : Str) (hc : c ≠ []) (hs : SlashFree (c ++ [k])) :
    parentKey (joinSlash (c ++ [k])) = some (joinSlash c, k) := by
  unfold parentKey
  rw [split_join _ (by simp) hs, popLast_snoc]
  simp [hc]

theorem parentKey_join_single (k : Str) (hk : 47 ∉ k) : parentKey (joinSlash [k]) = none := by
  unfold parentKey
  rw [split_join [k] (by simp) (SlashFree.singleton hk)]
  simp [popLast]

theorem exists_snoc {α : Type} (l : List α) (h : l ≠ []) : ∃ i a, l = i ++ [a] :=
  ⟨l.dropLast, l.getLast h, (List.dropLast_concat_getLast h).symm⟩

/-! ## Sorting the children of a list container -/

/-- The `(token, child)` pairs a list `xs` (first index `i`) should contribute. -/
def idxChildren (f : Nat → Tree → Child) : Nat → List Tree → List (Str × Child)
  | _, [] => []
  | i, x :: xs => (natStr i, f i x) :: idxChildren f (i + 1) xs

theorem mem_idxChildren (f : Nat → Tree → Child) (i : Nat) (xs : List Tree) (kc : Str × Child) :
    kc ∈ idxChildren f i xs ↔ ∃ j y, xs[j]? = some y ∧ kc = (natStr (i + j), f (i + j) y) := by
  induction xs generalizing i with
  | nil => simp [idxChildren]
  | cons a xs ih =>
    simp only [idxChildren, List.mem_cons, ih]
    constructor
    · rintro (h | ⟨j, y, hj, hx⟩)
      · exact ⟨0, a, by simp, by simpa using h⟩
      · exact ⟨j + 1, y, by simpa using hj, by
          have : i + 1 + j = i + (j + 1) := by omega
          rwa [this] at hx⟩
    · rintro ⟨j, y, hj, hx⟩
      cases j with
      | zero =>
        simp at hj; subst hj
        exact Or.inl (by simpa using hx)
      | succ j =>
        refine Or.inr ⟨j, y, by simpa using hj, ?_⟩
        have : i + 1 + j = i + (j + 1) := by omega
        rwa [this]

/-- The integer sort key of a `(token, child)` pair whose token is a decimal string. -/
def intOf (kc : Str × Child) : Int × Child := ((digitsVal kc.1 : Nat), kc.2)

theorem idxChildren_sorted (f : Nat → Tree → Child) (i : Nat) (xs : List Tree) :
    ((idxChildren f i xs).map intOf).Pairwise (fun a b => a.1 < b.1) := by
  induction xs generalizing i with
  | nil => simp [idxChildren]
  | cons a xs ih =>
    simp only [idxChildren, List.map_cons, List.pairwise_cons]
    refine ⟨?_, ih (i + 1)⟩
    intro b hb
    obtain ⟨kc, hkc, rfl⟩ := List.mem_map.1 hb
    obtain ⟨j, y, _, rfl⟩ := (mem_idxChildren f (i + 1) xs kc).1 hkc
    simp only [intOf, digitsVal_natStr]
    omega

theorem intKeys_of_decimal (L : List (Str × Child)) (h : ∀ kc ∈ L, ∃ n, kc.1 = natStr n) :
    intKeys L = .ok (L.map intOf) := by
  unfold intKeys
  apply mapE_eq_map
  intro kc hkc
  obtain ⟨n, hn⟩ := h kc hkc
  simp [intOf, hn, pyInt_natStr, digitsVal_natStr, Except.map]

theorem sort_children (f : Nat → Tree → Child) (i : Nat) (xs : List Tree) (L : List (Str × Child))
    (hperm : L.Perm (idxChildren f i xs)) :
    intKeys L = .ok (L.map intOf) ∧
      (sortByInt (L.map intOf)).map (·.2) = (idxChildren f i xs).map (·.2) := by
  have hdec : ∀ kc ∈ L, ∃ n, kc.1 = natStr n := by
    intro kc hkc
    obtain ⟨j, y, _, rfl⟩ := (mem_idxChildren f i xs kc).1 (hperm.subset hkc)
    exact ⟨_, rfl⟩
  refine ⟨intKeys_of_decimal L hdec, ?_⟩
  have hT := idxChildren_sorted f i xs
  have hT' : ((idxChildren f i xs).map intOf).Pairwise
      (fun a b => (fun a b : Int × Child => decide (a.1 ≤ b.1)) a b = true) :=
    hT.imp (fun {a b} h => by simp; omega)
  have hS : (sortByInt (L.map intOf)).Pairwise
      (fun a b => (fun a b : Int × Child => decide (a.1 ≤ b.1)) a b = true) := by
    unfold sortByInt
    apply List.pairwise_mergeSort
    · intro a b c hab hbc; simp at hab hbc ⊢; omega
    · intro a b; simp; omega
  have hp : (sortByInt (L.map intOf)).Perm ((idxChildren f i xs).map intOf) :=
    (List.mergeSort_perm _ _).trans (hperm.map intOf)
  have heq : sortByInt (L.map intOf) = (idxChildren f i xs).map intOf := by
    apply List.Perm.eq_of_pairwise (le := fun a b => (fun a b : Int × Child => decide (a.1 ≤ b.1)) a b = true) _ hS hT' hp
    intro a b ha hb hab hba
    have ha' := hp.subset ha
    obtain ⟨ka, hka, rfl⟩ := List.mem_map.1 ha'
    obtain ⟨kb, hkb, rfl⟩ := List.mem_map.1 hb
    obtain ⟨j, y, hj, rfl⟩ := (mem_idxChildren f i xs ka).1 hka
    obtain ⟨j', y', hj', rfl⟩ := (mem_idxChildren f i xs kb).1 hkb
    simp only [intOf, digitsVal_natStr, decide_eq_true_eq] at hab hba
    have : j = j' := by omega
    subst this
    rw [hj] at hj'; cases hj'
    rfl
  rw [heq, List.map_map, List.map_congr_left]
  intro kc _
  rfl

/-! ## The items `inflate` groups -/

/-- What the parent will hold for a node of `flatC`. -/
def childOf (x : CPath × Node) : Child :=
  match x.2 with
  | .cont _ => .cont (joinSlash x.1)
  | .leaf s => .leaf s

@[simp] theorem childOf_cont (c : CPath) (e : Entry) : childOf (c, .cont e) = .cont (joinSlash c) := rfl
@[simp] theorem childOf_leaf (c : CPath) (s : Tree) : childOf (c, .leaf s) = .leaf s := rfl

/-- `chain(containers.items(), flattened.items())` for `M = conts D`, `F = leaves D`. -/
def itemsOf (D : Items) : List (Str × Child) :=
  (conts D).map (fun e => (e.1, Child.cont e.1)) ++ (leaves D).map (fun e => (e.1, Child.leaf e.2))

theorem mem_itemsOf (D : Items) (it : Str × Child) :
    it ∈ itemsOf D ↔ ∃ x ∈ D, it = (joinSlash x.1, childOf x) := by
  induction D with
  | nil => simp [itemsOf]
  | cons x D ih =>
    obtain ⟨c, nd⟩ := x
    simp only [itemsOf, List.mem_append] at ih
    cases nd with
    | cont e =>
      simp only [itemsOf, conts_cons_cont, leaves_cons_cont, List.map_cons, List.mem_append,
        List.mem_cons]
      constructor
      · rintro ((h | h) | h)
        · exact ⟨_, Or.inl rfl, by simpa using h⟩
        · obtain ⟨x, hx, hit⟩ := ih.1 (Or.inl h); exact ⟨x, Or.inr hx, hit⟩
        · obtain ⟨x, hx, hit⟩ := ih.1 (Or.inr h); exact ⟨x, Or.inr hx, hit⟩
      · rintro ⟨x, hx | hx, hit⟩
        · subst hx; exact Or.inl (Or.inl (by simpa using hit))
        · rcases ih.2 ⟨x, hx, hit⟩ with h | h
          · exact Or.inl (Or.inr h)
          · exact Or.inr h
    | leaf s =>
      simp only [itemsOf, conts_cons_leaf, leaves_cons_leaf, List.map_cons, List.mem_append,
        List.mem_cons]
      constructor
      · rintro (h | h | h)
        · obtain ⟨x, hx, hit⟩ := ih.1 (Or.inl h); exact ⟨x, Or.inr hx, hit⟩
        · exact ⟨_, Or.inl rfl, by simpa using h⟩
        · obtain ⟨x, hx, hit⟩ := ih.1 (Or.inr h); exact ⟨x, Or.inr hx, hit⟩
      · rintro ⟨x, hx | hx, hit⟩
        · subst hx; exact Or.inr (Or.inl (by simpa using hit))
        · rcases ih.2 ⟨x, hx, hit⟩ with h | h
          · exact Or.inl h
          · exact Or.inr (Or.inr h)

theorem itemsOf_keys_perm (D : Items) :
    ((itemsOf D).map (·.1)).Perm (D.map (fun x => joinSlash x.1)) := by
  induction D with
  | nil => simp [itemsOf]
  | cons x D ih =>
    obtain ⟨c, nd⟩ := x
    simp only [itemsOf, List.map_append, List.map_map] at ih ⊢
    cases nd with
    | cont e =>
      simp only [conts_cons_cont, leaves_cons_cont, List.map_cons, List.cons_append]
      exact List.Perm.cons _ ih
    | leaf s =>
      simp only [conts_cons_leaf, leaves_cons_leaf, List.map_cons]
      exact List.perm_middle.trans (List.Perm.cons _ ih)

theorem itemsOf_keys_nodup (D : Items) (h : PathsOK D) : ((itemsOf D).map (·.1)).Nodup :=
  (itemsOf_keys_perm D).nodup_iff.2 h.strPaths_nodup

/-! ## The children `inflate` files under a parent path -/

theorem selOne_some (pre par : Str) (it b : Str × Child) (h : selOne pre par it = some b) :
    it.1 = par ++ 47 :: b.1 ∧ b.2 = it.2 := by
  unfold selOne at h
  by_cases h1 : it.1 = pre
  · simp [h1] at h
  · simp only [h1, if_false] at h
    cases hpk : parentKey it.1 with
    | none => simp [hpk] at h
    | some pk =>
      obtain ⟨p', k'⟩ := pk
      simp only [hpk] at h
      by_cases h2 : p' = par
      · simp only [h2, if_true, Option.some.injEq] at h
        subst h
        subst h2
        exact ⟨parentKey_eq_some _ _ _ hpk, rfl⟩
      · simp [h2] at h

theorem sel_keys_nodup (pre par : Str) (items : List (Str × Child))
    (h : (items.map (·.1)).Nodup) : ((sel pre par items).map (·.1)).Nodup := by
  rw [List.Nodup, List.pairwise_map] at h ⊢
  unfold sel
  refine List.Pairwise.filterMap (selOne pre par) ?_ h
  intro a a' hne b hb b' hb' e
  have h1 := (selOne_some pre par a b hb).1
  have h2 := (selOne_some pre par a' b' hb').1
  exact hne (by rw [h1, h2, e])

theorem mem_sel (D : Items) (hD : PathsOK D) (p : Str) (hp : 47 ∉ p) (c : CPath) (hc : c ≠ [])
    (hcs : SlashFree c) (k : Str) (ch : Child) :
    (k, ch) ∈ sel p (joinSlash c) (itemsOf D) ↔ ∃ x ∈ D, x.1 = c ++ [k] ∧ ch = childOf x := by
  constructor
  · intro h
    simp only [sel, List.mem_filterMap] at h
    obtain ⟨it, hit, hsel⟩ := h
    obtain ⟨x, hx, rfl⟩ := (mem_itemsOf D it).1 hit
    have hxok := hD.2 x hx
    obtain ⟨hpath, hch⟩ := selOne_some _ _ _ _ hsel
    simp only at hpath hch
    obtain ⟨i, a, hia⟩ := exists_snoc x.1 hxok.1
    have hsel' := hsel
    unfold selOne at hsel'
    by_cases h1 : joinSlash x.1 = p
    · simp [h1] at hsel'
    · simp only [h1, if_false] at hsel'
      by_cases hi : i = []
      · subst hi
        simp only [List.nil_append] at hia
        have hk : 47 ∉ a := hxok.2 a (by rw [hia]; simp)
        rw [hia, parentKey_join_single a hk] at hsel'
        simp at hsel'
      · have hs : SlashFree (i ++ [a]) := by rw [← hia]; exact hxok.2
        rw [hia, parentKey_join_snoc i a hi hs] at hsel'
        by_cases h2 : joinSlash i = joinSlash c
        · simp only [h2, if_true, Option.some.injEq, Prod.mk.injEq] at hsel'
          have : i = c := joinSlash_injective hi hc hs.left hcs h2
          subst this
          exact ⟨x, hx, by rw [hia, hsel'.1], hsel'.2.symm⟩
        · simp [h2] at hsel'
  · rintro ⟨x, hx, hpath, rfl⟩
    simp only [sel, List.mem_filterMap]
    refine ⟨(joinSlash x.1, childOf x), (mem_itemsOf D _).2 ⟨x, hx, rfl⟩, ?_⟩
    have hxok := hD.2 x hx
    have hs : SlashFree (c ++ [k]) := by rw [← hpath]; exact hxok.2
    unfold selOne
    have h1 : joinSlash x.1 ≠ p := by
      intro e
      have e' : joinSlash x.1 = joinSlash [p] := by simpa [joinSlash] using e
      have := joinSlash_injective hxok.1 (by simp) hxok.2 (SlashFree.singleton hp) e'
      rw [hpath] at this
      have := congrArg List.length this
      simp at this
      exact hc this
    simp only [h1, if_false]
    rw [hpath, parentKey_join_snoc c k hc hs]
    simp

theorem lookup_groups (D : Items) (hD : PathsOK D) (p : Str) (G : Groups)
    (hall : ∀ it ∈ itemsOf D, it.1 ≠ p → ∃ pk, parentKey it.1 = some pk)
    (hG : groupAux p (itemsOf D) [] = .ok G) (par : Str) :
    lookup G par =
      if sel p par (itemsOf D) = [] then none else some (sel p par (itemsOf D)) := by
  obtain ⟨G', hG', hspec⟩ := groupAux_spec p (itemsOf D) [] hall
  rw [hG] at hG'
  cases hG'
  rw [hspec par]
  simp only [mergeSel, lookup, Option.getD_none]
  by_cases hs : sel p par (itemsOf D) = []
  · simp [hs]
  · simp only [hs, if_false]
    congr 1
    have := update_eq_append ([] : List (Str × Child)) (sel p par (itemsOf D))
      (by simpa using sel_keys_nodup p par _ (itemsOf_keys_nodup D hD))
    simpa using this

theorem lookup_conts (D : Items) (hD : PathsOK D) (c : CPath) (e : Entry) (h : (c, Node.cont e) ∈ D) :
    lookup (conts D) (joinSlash c) = some e := by
  apply lookup_of_mem _ _ _ _ hD.conts_nodup
  simp only [conts, List.mem_filterMap]
  exact ⟨(c, .cont e), h, rfl⟩

theorem lookup_leaves (D : Items) (hD : PathsOK D) (c : CPath) (s : Tree) (h : (c, Node.leaf s) ∈ D) :
    lookup (leaves D) (joinSlash c) = some s := by
  apply lookup_of_mem _ _ _ _ hD.leaves_nodup
  simp only [leaves, List.mem_filterMap]
  exact ⟨(c, .leaf s), h, rfl⟩

/-- Two nodes of `D` with the same path are the same node. -/
theorem PathsOK.unique {D : Items} (hD : PathsOK D) {x y : CPath × Node} (hx : x ∈ D) (hy : y ∈ D)
    (h : x.1 = y.1) : x = y := by
  have hn := hD.1
  clear hD
  induction D with
  | nil => simp at hx
  | cons a D ih =>
    simp only [List.map_cons, List.nodup_cons] at hn
    rcases List.mem_cons.1 hx with hx' | hx' <;> rcases List.mem_cons.1 hy with hy' | hy'
    · rw [hx', hy']
    · subst hx'
      exact absurd (List.mem_map.2 ⟨y, hy', h.symm⟩ : x.1 ∈ D.map (·.1)) hn.1
    · subst hy'
      exact absurd (List.mem_map.2 ⟨x, hx', h⟩ : y.1 ∈ D.map (·.1)) hn.1
    · exact ih hx' hy' hn.2

theorem lookup_leaves_none (D : Items) (hD : PathsOK D) (c : CPath) (e : Entry)
    (h : (c, Node.cont e) ∈ D) : lookup (leaves D) (joinSlash c) = none := by
  apply lookup_none_of_not_mem
  intro hm
  obtain ⟨kv, hkv, hk⟩ := List.mem_map.1 hm
  simp only [leaves, List.mem_filterMap] at hkv
  obtain ⟨x, hx, hxl⟩ := hkv
  obtain ⟨c', nd⟩ := x
  cases nd with
  | cont e' => simp at hxl
  | leaf s =>
    simp at hxl
    subst hxl
    simp only at hk
    have := joinSlash_injective (hD.2 _ hx).1 (hD.2 _ h).1 (hD.2 _ hx).2 (hD.2 _ h).2 hk
    simp only at this
    subst this
    have := hD.unique hx h rfl
    cases this

end Ts.Flatten
