import TsProofs.Partition
import TsProofs.Properties.C07
import TsProofs.Glob   -- fnmatch model: which paths a replication glob selects
import TsProofs.Properties.C01World   -- whole-job theorems (C06_world_*, C07_world_*) audited with this property too
/-!
# C06 — Replicated objects are written once, by one rank, with balanced load

Property theorems only. Model: `TsModel.Partition` (mirrors `partitioner.py` and
`snapshot.py:_calculate_replicated_entries/_gather_manifest`), `TsModel.ManifestOps` for the views.

`ranks` is what the ranks contribute to the partitioner's all-gather: their replicated entries, the
write loads (path, request index, size) of those entries and their non-replicated byte count. `order`
is the order in which Python happens to iterate the `partitionables` *set*: every theorem holds for every
order. World size, number of objects, chunk counts and sizes are unbounded.
-/
namespace Ts.Partition
open Ts.ManifestOps

/-- **Exactly once.** If every replicated path of rank 0 is present on all ranks (`Present`, verified by
`_calculate_replicated_entries`) and every rank declares the same write loads for it (`Uniform`: the
objects are replicated, i.e. identical on all ranks), then for *every* iteration order of the
partitionables the partitioner succeeds and the per-rank result lists, taken together, are a permutation
of the declared write loads (one per object / tensor, one per chunk): each write unit is in the lists of
the ranks exactly as often as it is declared — once — and the replicated bytes to be written by the whole
job equal the sum of the unit sizes (not `W` times it). -/
theorem C06_exactly_once (r0 : RankInput) (rs : List RankInput) (order : List WriteLoad)
    (hpres : Present (r0 :: rs) (akeys r0.entries)) (huni : Uniform (r0 :: rs) r0.loads)
    (hperm : ∀ parts, partitionables (r0 :: rs) = .ok parts → order.Perm parts) :
    ∃ res, assign (r0 :: rs) order = .ok res ∧ res.length = (r0 :: rs).length ∧
      res.flatten.Perm (allLoads (r0 :: rs)) ∧
      (∀ wl, (res.map (fun l => l.count wl)).sum = (allLoads (r0 :: rs)).count wl) ∧
      (res.map sumSizes).sum = sumSizes (allLoads (r0 :: rs)) := by
  obtain ⟨st, hst, hlen, hp, _⟩ := assignState_total r0 rs order hpres huni hperm
  refine ⟨st.result, by simp [assign, hst, Except.map], hlen, hp, fun wl => ?_, ?_⟩
  · rw [← List.count_flatten]; exact hp.count_eq wl
  · rw [← sumSizes_flatten]; exact sumSizes_perm _ _ hp

/-- **Balance.** In every successful run (any inputs, any order), with each rank's non-replicated bytes as
its starting load: the final load of rank `r` is its starting load plus what it was given; and every rank
`r` that received a unit — `s` being the size of the *last* unit it received — ends with
`load r ≤ load q + s` for every rank `q`. So no rank that received replicated work ends more than one
work unit (its own last one) above the least-loaded rank. Under the hypotheses of `C06_exactly_once` the
amount given to a rank is exactly the byte size of its result list. -/
theorem C06_balance (ranks : List RankInput) (order : List WriteLoad) (st : State)
    (h : assignState ranks order = .ok st) :
    st.loads.length = ranks.length ∧
    (∀ (r : Nat) (ri : RankInput), ranks[r]? = some ri → st.loads[r]? = some (ri.size + given st.log r)) ∧
    (∀ (r s lr : Nat), lastSize st.log r = some s → st.loads[r]? = some lr →
        ∀ (q lq : Nat), st.loads[q]? = some lq → lr ≤ lq + s) ∧
    (∀ (r : Nat) (l : List WriteLoad), st.result[r]? = some l → l ≠ [] → ∃ s, lastSize st.log r = some s) := by
  have hi := assignState_inv ranks order st h
  refine ⟨hi.wf_loads, fun r ri hr => ?_, hi.bal, ?_⟩
  · exact hi.acc.2 r ri.size (by simp [hr])
  · exact assignState_received ranks order st h

/-- the link between the ghost log and the real result under the hypotheses of `C06_exactly_once`:
what was accounted to a rank is the byte size of the write loads it was given -/
theorem C06_balance_bytes (r0 : RankInput) (rs : List RankInput) (order : List WriteLoad)
    (hpres : Present (r0 :: rs) (akeys r0.entries)) (huni : Uniform (r0 :: rs) r0.loads)
    (hperm : ∀ parts, partitionables (r0 :: rs) = .ok parts → order.Perm parts) :
    ∃ st, assignState (r0 :: rs) order = .ok st ∧
      ∀ (r : Nat) (ri : RankInput), (r0 :: rs)[r]? = some ri →
        st.loads[r]? = some (ri.size + sumSizes ((st.result[r]?).getD [])) := by
  obtain ⟨st, hst, _, _, hg⟩ := assignState_total r0 rs order hpres huni hperm
  refine ⟨st, hst, fun r ri hr => ?_⟩
  rw [← hg r]
  exact (C06_balance _ _ _ hst).2.1 r ri hr

/-- **Restore is complete.** `ms` are the per-rank manifests as gathered by `_gather_manifest` (after
partitioning, each rank lists only the chunks it writes), `cs` their consolidation, committed as the
global manifest `gather cs` of a `ms.length`-rank snapshot. Then for **every** restoring rank index
(ranks of the job and ranks `≥ W` alike):
* at every path where some rank holds a replicated chunked entry, the rank's view holds one chunked
  entry whose chunk list is a permutation of *all* chunks held by all ranks (sorted by offsets) — by
  `C06_exactly_once` / `C06_partition_chunks` that is every chunk of the tensor, once;
* every other replicated entry (object, tensor, primitive), held by whichever rank wrote it, is in the
  view with exactly its saved entry. -/
theorem C06_restore_complete (ms cs : List Manifest) (hn : ∀ m ∈ ms, (akeys m).Nodup)
    (hs : ∀ m ∈ ms, NoLeadSlash m) (hc : consolidate ms = .ok cs)
    (rank : Nat) (v merged : Manifest) (hv : viewFor ms.length (gather cs) rank = .ok (v, merged)) :
    (∀ p, ms.any (fun m => hasRepChunkedAt m p) = true →
        alookup v p = some (.chunked true (firstMeta ms p) (sortShards (savedChunks ms p))) ∧
        (sortShards (savedChunks ms p)).Perm (savedChunks ms p)) ∧
    (∀ (q : Nat) (m : Manifest) (p : Str) (e : Entry), ms[q]? = some m → alookup m p = some e →
        isReplicated e = true → ms.any (fun m => hasRepChunkedAt m p) = false → alookup v p = some e) := by
  have C := consolidate_spec ms cs hn hc
  have hcs_slash : ∀ c ∈ cs, NoLeadSlash c := by
    intro c hcm q hq t
    obtain ⟨m, hm, hqm⟩ := C.paths c hcm q hq
    exact hs m hm q hqm t
  have hsplit : rankToManifest ms.length (gather cs) = .ok cs := by
    rw [← C.length_eq]; exact rankToManifest_gather cs C.nodup hcs_slash
  refine ⟨fun p hany => ?_, fun q m p e hmq hp hre hany => ?_⟩
  · obtain ⟨c0, hc0, hl⟩ := C.chunked p hany
    exact ⟨(C07_replicated_everywhere ms.length (gather cs) rank cs c0 v merged hsplit hc0 hv p _ hl rfl).1,
      sortShards_perm _⟩
  · obtain ⟨c0, hc0, hl⟩ := C.replicated q m p e hmq hp hre hany
    exact (C07_replicated_everywhere ms.length (gather cs) rank cs c0 v merged hsplit hc0 hv p e hl hre).1

/-- **The chunks written by all ranks together are the tensor's chunks.** `res` partitions the declared
write loads `all` (that is `C06_exactly_once`), the loads declared for the chunked path `p` carry its request
indices `0 … n-1`, and `news[i]` is what rank `i` rebuilds from its assignment (`partition_write_reqs`,
lines 194-213): then the chunk lists of all ranks, concatenated, are a permutation of the tensor's chunk list
— no chunk is lost or duplicated on the way into the per-rank manifests. -/
theorem C06_partition_chunks (E : Manifest) (p : Str) (r : Bool) (md : Nat) (cs : List Shard)
    (hE : alookup E p = some (.chunked r md cs)) (res : List (List WriteLoad)) (all : List WriteLoad)
    (hperm : res.flatten.Perm all) (hidx : (loadIdxs all p).Perm (List.range cs.length))
    (news : List Manifest) (hnews : AllNew E res news) :
    (news.flatMap (fun N => chunksOf N p)).Perm cs :=
  partition_chunks E p r md cs hE res all hperm hidx news hnews

/-- **End to end: partition → per-rank entries → consolidation → any rank's view.** All ranks hold the same
replicated entries `E` and declare the same write loads `L` (replicated = identical everywhere); `p` is a
chunked tensor of `E` with chunk list `cks` whose loads carry the request indices `0 … n-1`. `res` is the
partitioner's result for an arbitrary iteration `order`, `news` the entries each rank rebuilds from it, `ms`
any per-rank manifests that agree with `news` at `p` (they also hold containers, private and primitive
entries), `cs` their consolidation. Then **every** restoring rank index sees at `p` one chunked entry whose
chunks are a permutation of `cks`: the complete tensor, each chunk once. -/
theorem C06_restore_complete_partitioned
    (E : Manifest) (L : AList (List WriteLoad)) (r0 : RankInput) (rs : List RankInput)
    (hsame : ∀ r ∈ r0 :: rs, r.entries = E ∧ r.loads = L) (hEn : (akeys E).Nodup)
    (hpath : ∀ q, ∀ w ∈ loadsOf L q, w.path = q)
    (order : List WriteLoad) (hperm : ∀ parts, partitionables (r0 :: rs) = .ok parts → order.Perm parts)
    (p : Str) (md : Nat) (cks : List Shard) (hE : alookup E p = some (.chunked true md cks)) (hne : cks ≠ [])
    (hLp : (loadsOf L p).map (·.idx) = List.range cks.length)
    (res : List (List WriteLoad)) (hres : assign (r0 :: rs) order = .ok res)
    (news : List Manifest) (hnews : AllNew E res news)
    (ms : List Manifest) (hlen : ms.length = news.length)
    (hms : ∀ (i : Nat) (N m : Manifest), news[i]? = some N → ms[i]? = some m → alookup m p = alookup N p)
    (hn : ∀ m ∈ ms, (akeys m).Nodup) (hs : ∀ m ∈ ms, NoLeadSlash m)
    (cs : List Manifest) (hc : consolidate ms = .ok cs)
    (rank : Nat) (v merged : Manifest) (hv : viewFor ms.length (gather cs) rank = .ok (v, merged)) :
    ∃ chunks, alookup v p = some (.chunked true md chunks) ∧ chunks.Perm cks := by
  obtain ⟨he0, hl0⟩ := hsame r0 (by simp)
  have hpres : Present (r0 :: rs) (akeys r0.entries) := by
    intro q hq r hr
    rw [(hsame r hr).1, ← he0]
    exact (alookup_isSome_iff _ _).mpr hq
  have huni : Uniform (r0 :: rs) r0.loads := by
    intro r hr q; rw [(hsame r hr).2, hl0]
  obtain ⟨res', hres', _, hp', _, _⟩ := C06_exactly_once r0 rs order hpres huni hperm
  rw [hres] at hres'; injection hres' with hres'; subst hres'
  have hall : allLoads (r0 :: rs) = (akeys E).flatMap (loadsOf L) := by simp [allLoads, he0, hl0]
  rw [hall] at hp'
  have hidx : (loadIdxs ((akeys E).flatMap (loadsOf L)) p).Perm (List.range cks.length) := by
    rw [loadIdxs_allLoads L (akeys E) p hEn (mem_akeys_of_alookup hE) hpath, hLp]
  have hchunks := partition_chunks E p true md cks hE res _ hp' hidx news hnews
  -- what each rank's gathered manifest holds at p
  have hN : ∀ (i : Nat) (N : Manifest), news[i]? = some N →
      (alookup N p = none ∨ ∃ c, alookup N p = some (.chunked true md c)) := by
    intro i N hi
    obtain ⟨A, _, hA⟩ := allNew_get E res news hnews i N hi
    exact (newEntries_chunks E A N p true md cks hE hA).1
  have hsaved : savedChunks ms p = news.flatMap (fun N => chunksOf N p) := by
    unfold savedChunks
    apply flatMap_congr_index ms news _ _ hlen
    intro i m N hm hNi
    have e := hms i N m hNi hm
    unfold chunksAt chunksOf
    rw [e]
    rcases hN i N hNi with h | ⟨c, h⟩ <;> rw [h]
  have hsp : (savedChunks ms p).Perm cks := by rw [hsaved]; exact hchunks
  have hany : ms.any (fun m => hasRepChunkedAt m p) = true := by
    have hne' : savedChunks ms p ≠ [] := by
      intro e; rw [e] at hsp; exact hne (List.Perm.nil_eq hsp).symm
    unfold savedChunks at hne'
    obtain ⟨m, hm, hx⟩ := exists_of_flatMap_ne_nil ms _ hne'
    exact List.any_eq_true.mpr ⟨m, hm, hasRepChunked_of_chunksAt m p hx⟩
  have hmeta : firstMeta ms p = md := by
    apply firstMeta_eq ms p md _ hany
    intro m hm md' cs' hl
    obtain ⟨i, hi, hmi⟩ := List.mem_iff_getElem.mp hm
    have hi' : i < news.length := by omega
    have hNi : news[i]? = some news[i] := List.getElem?_eq_getElem hi'
    have e := hms i news[i] m hNi (by rw [← hmi]; exact List.getElem?_eq_getElem hi)
    rw [hl] at e
    rcases hN i news[i] hNi with h | ⟨c, h⟩
    · rw [h] at e; simp at e
    · rw [h] at e; simp at e; exact e.1
  obtain ⟨hv1, hv2⟩ := (C06_restore_complete ms cs hn hs hc rank v merged hv).1 p hany
  rw [hmeta] at hv1
  exact ⟨_, hv1, hv2.trans hsp⟩

/-- **Partial presence stays private.** A path that matches a replication glob but is absent from some
rank's flattened state is not in the replicated path set. Hence its entries are not flagged replicated, its
storage location is the per-rank one (`<rank>/<path>`), and — for any per-rank manifests whose entries at
`p` carry the flag `p ∈ replicatedPaths` — consolidation leaves each rank's entry at `p` in that rank's own
manifest (`C07_private_stays` then delivers it to that rank only). -/
theorem C06_partial_presence_private (g : Str → Bool) (rankFlat : List (List (Str × Bool)))
    (hnd : ∀ f ∈ rankFlat, (f.map (·.1)).Nodup) (p : Str) (f : List (Str × Bool)) (hf : f ∈ rankFlat)
    (habs : p ∉ f.map (·.1)) :
    p ∉ replicatedPaths g rankFlat ∧
    (∀ (r : Nat), (∀ t, p ≠ 47 :: t) →
        storagePath false (decide (p ∈ replicatedPaths g rankFlat)) r p = natStr r ++ 47 :: p) ∧
    (∀ ms cs : List Manifest, (∀ m ∈ ms, (akeys m).Nodup) → consolidate ms = .ok cs →
        (∀ m ∈ ms, ∀ e, alookup m p = some e → isReplicated e = decide (p ∈ replicatedPaths g rankFlat)) →
        ∀ (r : Nat) (m : Manifest) (e : Entry), ms[r]? = some m → alookup m p = some e →
          ∃ c, cs[r]? = some c ∧ alookup c p = some e) := by
  have hnot : p ∉ replicatedPaths g rankFlat := by
    intro hmem
    have := ((replicatedPaths_spec g rankFlat hnd p).mp hmem).2.2 f hf
    exact habs (List.mem_map.mpr ⟨(p, false), this, rfl⟩)
  refine ⟨hnot, fun r hslash => ?_, fun ms cs hn hc hflag r m e hmr hp => ?_⟩
  · simp [storagePath, hnot, pathJoin_eq _ _ hslash]
  · refine (consolidate_spec ms cs hn hc).private_kept r m p e hmr hp ?_
    intro m' hm' e' he'
    rw [hflag m' hm' e' he']; simp [hnot]

/-! ## Non-vacuity: a concrete two-rank job satisfies the hypotheses -/
namespace Example

def pw : Str := [97, 47, 119]    -- "a/w": replicated chunked tensor, 3 chunks
def po : Str := [97, 47, 111]    -- "a/o": replicated object
def pp : Str := [97, 47, 112]    -- "a/p": private tensor
def c0 : Shard := ⟨[0], [2], 10⟩
def c1 : Shard := ⟨[2], [2], 11⟩
def c2 : Shard := ⟨[4], [1], 12⟩
def E : Manifest := [(pw, .chunked true 1 [c0, c1, c2]), (po, .leaf true 7)]
def L : AList (List WriteLoad) := [(pw, [⟨pw, 0, 8⟩, ⟨pw, 1, 8⟩, ⟨pw, 2, 4⟩]), (po, [⟨po, 0, 5⟩])]
/-- rank 0 has 6 private bytes, rank 1 none -/
def ranks : List RankInput := [⟨E, L, 6⟩, ⟨E, L, 0⟩]
/-- one of the 6 possible set-iteration orders -/
def order : List WriteLoad := [⟨pw, 2, 4⟩, ⟨pw, 0, 8⟩, ⟨pw, 1, 8⟩]

example : Present ranks (akeys E) := by unfold Present; decide
example : Uniform ranks L := by
  intro r hr p; simp only [ranks, List.mem_cons, List.not_mem_nil, or_false] at hr
  rcases hr with rfl | rfl <;> rfl
example : partitionables ranks = .ok [⟨pw, 0, 8⟩, ⟨pw, 1, 8⟩, ⟨pw, 2, 4⟩] := by rfl
example : order.Perm [⟨pw, 0, 8⟩, ⟨pw, 1, 8⟩, ⟨pw, 2, 4⟩] := List.isPerm_iff.mp (by decide)
/-- the object goes to rank 1 (least loaded), then chunk 2 to rank 1, chunk 0 to rank 0, chunk 1 to rank 1:
final loads 14 and 17, and `17 ≤ 14 + 8` (rank 1's last unit) -/
example : assignState ranks order = .ok
    { loads := [14, 17],
      result := [[⟨pw, 0, 8⟩], [⟨po, 0, 5⟩, ⟨pw, 2, 4⟩, ⟨pw, 1, 8⟩]],
      log := [(1, 5), (1, 4), (0, 8), (1, 8)] } := by rfl

def app : Str := [97]            -- "a": the state dict {"w": …, "o": …, "p": …}
def kw : Key := .str [119]
def ko : Key := .str [111]
def kp : Key := .str [112]
/-- the manifests the two ranks gather: the container, their part of the replicated entries, a private tensor each -/
def ms : List Manifest :=
  [[(app, .dict [kw, ko, kp]), (pw, .chunked true 1 [c0]), (pp, .leaf false 100)],
   [(app, .dict [kw, ko, kp]), (po, .leaf true 7), (pw, .chunked true 1 [c1, c2]), (pp, .leaf false 101)]]
def cs : List Manifest :=
  [[(app, .dict [kw, ko, kp]), (pp, .leaf false 100), (pw, .chunked true 1 [c0, c1, c2]), (po, .leaf true 7)],
   [(app, .dict [kw, ko, kp]), (pp, .leaf false 101)]]

example : newEntries E [⟨pw, 0, 8⟩] = .ok [(pw, .chunked true 1 [c0])] := by rfl
example : newEntries E [⟨po, 0, 5⟩, ⟨pw, 2, 4⟩, ⟨pw, 1, 8⟩] =
    .ok [(po, .leaf true 7), (pw, .chunked true 1 [c1, c2])] := by rfl
example : ∀ m ∈ ms, (akeys m).Nodup := by decide
example : ∀ m ∈ ms, NoLeadSlash m := by
  intro m hm p hp t
  simp only [ms, List.mem_cons, List.not_mem_nil, or_false] at hm
  rcases hm with rfl | rfl <;> simp [akeys, app, pw, pp, po] at hp <;> rcases hp with rfl | rfl | rfl | rfl <;> simp
example : consolidate ms = .ok cs := by rfl
/-- a rank beyond the saved world size sees the whole tensor (all three chunks) and the object, no private leaf -/
example : (viewFor 2 (gather cs) 5).map (·.1) =
    .ok [(app, .dict [kw, ko]), (pw, .chunked true 1 [c0, c1, c2]), (po, .leaf true 7)] := by rfl
/-- rank 1 sees the whole tensor, the object and its own private leaf -/
example : (viewFor 2 (gather cs) 1).map (·.1) =
    .ok [(app, .dict [kw, ko, kp]), (pp, .leaf false 101), (pw, .chunked true 1 [c0, c1, c2]), (po, .leaf true 7)] := by rfl
/-- a glob-matching path missing on rank 1 is not replicated -/
example : replicatedPaths (fun _ => true) [[(pw, false), (pp, false)], [(pw, false)]] = [pw] := by rfl

end Example

end Ts.Partition
