import TsProofs.World
/-!
# C01 / C06 / C07 at the level of the whole job

`TsModel/World.lean` composes the per-rank data plane into a job: W ranks prepare their write units, replicated
units are partitioned (any assignment of units to existing ranks), every rank packs what it kept into slabs and
writes it, the committed manifest records each unit at its writer's location, and any rank restores from the
job-wide store.  The theorems below are stated for every world size, every state, every partition, every knob
setting with chunk ≥ 1 and slab ≥ 1, every completion order of chunk consumers and every read budget ≥ 1.
-/
namespace Ts.World
open Ts.Storage (Bytes)
open Ts.Slab Ts.BatchRead Ts.Snapshot

/-- **C01, whole job.** Every rank restores every leaf of its own state exactly — with `restore` (one ranged read
per unit) and with `read_object` under any memory budget (tiled reads) — from the snapshot the W ranks wrote
together, wherever the partitioner sent the replicated units and however each writer packed its slabs. -/
theorem C01_world_roundtrip (j : Job) (wf : j.WF)
    (order : List ((Nat × Nat) × ULoc WLoc) → List ((Nat × Nat) × ULoc WLoc)) (horder : ∀ cs, (order cs).Perm cs)
    (r : Nat) (st : RankState) (hr : j.states[r]? = some st) (p : PathId) (l : Leaf) (hpl : (p, l) ∈ st) :
    ∃ en, worldEntry j r p l = .ok en ∧ worldRestore j order en = .ok l ∧
      ∀ budget, 1 ≤ budget → readObjectBudget (wstore j) budget order en = .ok l := by
  obtain ⟨en, hen, hres⟩ := world_roundtrip j wf (fun _ _ u => readUnit (wstore j) u)
    (fun u bs _ _ h _ => readUnit_of_stored _ u bs h) order horder r st hr p l hpl
  refine ⟨en, hen, hres, ?_⟩
  intro budget hb
  obtain ⟨en', hen', hres'⟩ := world_roundtrip j wf (readTiled (wstore j) budget)
    (fun u bs es shape h hl => readTiled_of_stored _ budget hb u bs h es shape hl) order horder r st hr p l hpl
  rw [hen] at hen'
  cases hen'
  exact hres'

/-- **C01, restore targets.** The same for every restore target: no target (restore allocates), a pre-allocated tensor
of the saved dtype and shape with arbitrary old contents (filled in place — a chunked tensor chunk by chunk through
dim-0 views, in any completion order), or a tensor of a different dtype or shape (replaced by a fresh one). -/
theorem C01_world_roundtrip_any_target (j : Job) (wf : j.WF)
    (order : List ((Nat × Nat) × ULoc WLoc) → List ((Nat × Nat) × ULoc WLoc)) (horder : ∀ cs, (order cs).Perm cs)
    (r : Nat) (st : RankState) (hr : j.states[r]? = some st) (p : PathId) (l : Leaf) (hpl : (p, l) ∈ st)
    (dst : Option Ts.Serial.Tensor) (hdst : ∀ t, dst = some t → t.WF) :
    ∃ en, worldEntry j r p l = .ok en ∧
      restoreLeafInto (wstore j) (fun _ _ u => readUnit (wstore j) u) order dst en = .ok l :=
  world_roundtrip_into j wf (fun _ _ u => readUnit (wstore j) u)
    (fun u bs _ _ h _ => readUnit_of_stored _ u bs h) order horder r st hr p l hpl dst hdst

/-- **C07 / C06, whole job: replicated objects are complete on every restoring rank.** The consolidated entry of a
replicated leaf is the same whichever rank's view it is read through — ranks with index ≥ W included — and it
restores the saved value although its units (chunks) may have been written by different ranks. -/
theorem C07_world_replicated_everywhere (j : Job) (wf : j.WF)
    (order : List ((Nat × Nat) × ULoc WLoc) → List ((Nat × Nat) × ULoc WLoc)) (horder : ∀ cs, (order cs).Perm cs)
    (st0 : RankState) (h0 : j.states[0]? = some st0) (p : PathId) (l : Leaf) (hpl : (p, l) ∈ st0)
    (hrep : j.rep p = true) (r' : Nat) :
    ∃ en, worldEntry j r' p l = .ok en ∧ worldRestore j order en = .ok l := by
  obtain ⟨en, hen, hres, _⟩ := C01_world_roundtrip j wf order horder 0 st0 h0 p l hpl
  have hl := wf.leaves st0 (List.mem_of_getElem? h0) (p, l) hpl
  exact ⟨en, by rw [worldEntry_rep_indep j p l hrep wf.chunk hl r' 0]; exact hen, hres⟩

/-- **C06, whole job: written once.** A replicated unit is executed by the rank the partition names and by no
other rank; a private unit only by its own rank's plan. -/
theorem C06_world_written_once (j : Job) (q : Nat) (all : List (WReq UnitId × Bytes)) (x : WReq UnitId × Bytes)
    (hx : x ∈ kept j q all) (hrep : j.rep x.1.path.1 = true) : j.owner x.1.path = q := by
  have := ((mem_kept j q all x).mp hx).2
  simpa [hrep] using this

/-- what a rank keeps is a sub-collection of its own units with distinct names: nothing is written twice by a rank -/
theorem C06_world_kept_nodup (j : Job) (wf : j.WF) (q : Nat) (st : RankState) (hq : j.states[q]? = some st) :
    ∃ k, keptOf j q = .ok k ∧ (k.map (·.1.path)).Nodup := by
  obtain ⟨us, _, hk, _, _, hnd, _⟩ := keptOf_spec j wf.chunk wf.leaves wf.paths q st hq
  exact ⟨_, hk, hnd⟩

/-- **C06, whole job: replicated bytes are written once.** Summed over all ranks, the replicated payload bytes
written equal the bytes of ONE copy of the replicated units, not world-size times it, for every partition. -/
theorem C06_world_replicated_bytes_once (j : Job) (wf : j.WF) (st0 : RankState) (h0 : j.states[0]? = some st0)
    (us0 : List ((PathId × Leaf) × List (WReq UnitId × Bytes))) (hus0 : rankUnits j.cfg st0 = .ok us0) :
    ((List.range j.states.length).map (repBytesOfRank j)).sum
      = (((flat us0).filter (fun x => j.rep x.1.path.1)).map (fun x => x.2.length)).sum :=
  world_replicated_bytes_once j wf st0 h0 us0 hus0

/-- **C06, whole job: the partition does not change how much is written.** Two jobs that differ only in the partition
(`owner`) — e.g. the greedy partition computed from two different load snapshots, or a repartition after an elastic
restart — write the same total of replicated payload bytes: the partitioner moves work between ranks, it never
duplicates or drops any. -/
theorem C06_world_partition_independent_bytes (j j' : Job) (wf : j.WF) (wf' : j'.WF)
    (hcfg : j'.cfg = j.cfg) (hst : j'.states = j.states) (hrep : j'.rep = j.rep)
    (st0 : RankState) (h0 : j.states[0]? = some st0)
    (us0 : List ((PathId × Leaf) × List (WReq UnitId × Bytes))) (hus0 : rankUnits j.cfg st0 = .ok us0) :
    ((List.range j.states.length).map (repBytesOfRank j)).sum
      = ((List.range j'.states.length).map (repBytesOfRank j')).sum := by
  rw [C06_world_replicated_bytes_once j wf st0 h0 us0 hus0,
    C06_world_replicated_bytes_once j' wf' st0 (by rw [hst]; exact h0) us0 (by rw [hcfg]; exact hus0), hrep]

/-- **C01 / C06, whole job: the partition does not change what is restored.** Whatever two partitions send the
replicated units to, every rank restores the same (namely the saved) value of every leaf from either snapshot. -/
theorem C06_world_partition_independent_restore (j j' : Job) (wf : j.WF) (wf' : j'.WF)
    (hst : j'.states = j.states)
    (order : List ((Nat × Nat) × ULoc WLoc) → List ((Nat × Nat) × ULoc WLoc)) (horder : ∀ cs, (order cs).Perm cs)
    (r : Nat) (st : RankState) (hr : j.states[r]? = some st) (p : PathId) (l : Leaf) (hpl : (p, l) ∈ st) :
    ∃ en en', worldEntry j r p l = .ok en ∧ worldEntry j' r p l = .ok en' ∧
      worldRestore j order en = .ok l ∧ worldRestore j' order en' = .ok l := by
  obtain ⟨en, hen, hres, _⟩ := C01_world_roundtrip j wf order horder r st hr p l hpl
  obtain ⟨en', hen', hres', _⟩ := C01_world_roundtrip j' wf' order horder r st (by rw [hst]; exact hr) p l hpl
  exact ⟨en, en', hen, hen', hres, hres'⟩

/-! ## Non-vacuity: a concrete two-rank job with a chunked replicated tensor split across the ranks -/
def exTA : Ts.Serial.Tensor := ⟨"float32", [3, 2], List.range 24⟩
def exTB : Ts.Serial.Tensor := ⟨"bfloat16", [3], [1, 2, 3, 4, 5, 6]⟩
def exTC : Ts.Serial.Tensor := ⟨"int8", [2, 0], []⟩

def exJob : Job where
  cfg := ⟨8, 16, true⟩
  states := [[(1, .tensor exTA), (2, .blob [9, 9, 9]), (5, .tensor exTB)], [(1, .tensor exTA), (3, .tensor exTC), (5, .tensor exTB)]]
  rep := fun p => p == 1 || p == 5
  owner := fun u => if u = (1, some (1, 1)) ∨ u = (5, none) then 1 else 0

theorem exJob_wf : exJob.WF where
  chunk := by decide
  slab := by decide
  leaves := by
    intro st hst x hx
    simp only [exJob, List.mem_cons, List.not_mem_nil, or_false] at hst
    rcases hst with rfl | rfl <;> simp only [List.mem_cons, List.not_mem_nil, or_false] at hx <;>
      rcases hx with rfl | rfl | rfl <;> simp [LeafOk] <;> decide
  paths := by
    intro st hst
    simp only [exJob, List.mem_cons, List.not_mem_nil, or_false] at hst
    rcases hst with rfl | rfl <;> decide
  repAll := by
    intro p hp st hst
    simp only [exJob, Bool.or_eq_true, beq_iff_eq] at hp
    simp only [exJob, List.mem_cons, List.not_mem_nil, or_false] at hst
    rcases hp with rfl | rfl <;> rcases hst with rfl | rfl
    · exact ⟨.tensor exTA, by simp⟩
    · exact ⟨.tensor exTA, by simp⟩
    · exact ⟨.tensor exTB, by simp⟩
    · exact ⟨.tensor exTB, by simp⟩
  repSame := by
    intro p hp st₁ h₁ st₂ h₂ l₁ l₂ m₁ m₂
    simp only [exJob, Bool.or_eq_true, beq_iff_eq] at hp
    simp only [exJob, List.mem_cons, List.not_mem_nil, or_false] at h₁ h₂
    rcases hp with rfl | rfl <;> rcases h₁ with rfl | rfl <;> rcases h₂ with rfl | rfl <;>
      simp at m₁ m₂ <;> rw [m₁, m₂]
  owner := by
    intro u
    simp only [exJob]
    split <;> simp

/-- rank 1 restores the replicated chunked tensor whose middle chunk it wrote itself and whose other chunks rank 0 wrote -/
example : ∃ en, worldEntry exJob 1 1 (.tensor exTA) = .ok en ∧ worldRestore exJob id en = .ok (.tensor exTA) := by
  obtain ⟨en, h1, h2, _⟩ := C01_world_roundtrip exJob exJob_wf id (fun _ => List.Perm.refl _) 1 _ rfl 1 (.tensor exTA) (by simp)
  exact ⟨en, h1, h2⟩

/-- the same job with everything replicated sent to rank 0 (another partition) -/
def exJob0 : Job := { exJob with owner := fun _ => 0 }

theorem exJob0_wf : exJob0.WF :=
  { chunk := exJob_wf.chunk, slab := exJob_wf.slab, leaves := exJob_wf.leaves, paths := exJob_wf.paths,
    repAll := exJob_wf.repAll, repSame := exJob_wf.repSame, owner := by intro u; simp [exJob0, exJob] }

/-- non-vacuity of the partition-independence theorems: the split partition and the all-on-rank-0 partition write the
same number of replicated bytes (here 24 + 6 = 30), checked by evaluation as well -/
example : ((List.range exJob.states.length).map (repBytesOfRank exJob)).sum
    = ((List.range exJob0.states.length).map (repBytesOfRank exJob0)).sum := by
  obtain ⟨us0, hus0⟩ : ∃ us0, rankUnits exJob.cfg [(1, .tensor exTA), (2, .blob [9, 9, 9]), (5, .tensor exTB)] = .ok us0 :=
    ⟨_, rfl⟩
  exact C06_world_partition_independent_bytes exJob exJob0 exJob_wf exJob0_wf rfl rfl rfl _ rfl us0 hus0
example : ((List.range exJob.states.length).map (repBytesOfRank exJob)).sum = 30 := by decide +kernel
example : ((List.range exJob0.states.length).map (repBytesOfRank exJob0)).sum = 30 := by decide +kernel

end Ts.World
