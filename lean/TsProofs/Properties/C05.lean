import TsProofs.Location
import TsProofs.Properties.C15
import TsProofs.Properties.C16
/-!
# C05 — Committed manifest entries exist, fit, are disjoint, written once, confined

Model: `TsModel.Location` (storage-path naming of `io_preparer.get_storage_path`, chunk/shard
suffixes, `posixpath.join` / `normpath` as the filesystem plugin resolves paths).

Full-strength statement (FALSE on the current tree, finding D13 — see the `C05_witness_*`
theorems below, each replayed on the implementation by the check):

    for every application state, every location written by `take` resolves inside the snapshot
    root, and distinct write units resolve to distinct files.

What is proved is the statement restricted by two decidable hypotheses on the key set:

* `safePath logical` — no path component of a logical path is "", "." or ".."
* `noSuffixAlias bases` — no storage path equals another one extended by "_" and a string over
  `[0-9_]` (the shape of a chunk / shard offset suffix).
-/
namespace Ts.Location

/-- The snapshot root as the plugin sees it: absolute or relative, normalised, literal components. -/
def Root (abs : Bool) (rc : List Str) : Str := rootPrefix abs ++ joinSlash rc

/-- Components of a unit's location: owner directory, the logical path's components, and the
offset suffix glued to the last one. -/
def locComps (u : WriteUnit) : List Str :=
  match u.offs with
  | none => ownerStr u.owner :: splitSlash u.logical
  | some o =>
    let cs := ownerStr u.owner :: splitSlash u.logical
    cs.dropLast ++ [cs.getLast (by simp [cs]) ++ cUnder :: offsetSuffix o]

theorem joinSlash_snoc_append (cs : List Str) (c x : Str) :
    joinSlash (cs ++ [c]) ++ x = joinSlash (cs ++ [c ++ x]) := by
  induction cs with
  | nil => simp [joinSlash]
  | cons a rest ih =>
    cases rest with
    | nil => simp [joinSlash]
    | cons b bs =>
      have := ih
      simp only [List.cons_append, joinSlash] at this ⊢
      simp only [List.append_assoc, List.cons_append]
      rw [this]

theorem goodComp_suffix (c : Str) (o : List Nat) (h : goodComp c) :
    goodComp (c ++ cUnder :: offsetSuffix o) := by
  obtain ⟨h1, _, _, h4⟩ := h
  refine ⟨by simp, ?_, ?_, ?_⟩
  · intro e
    cases c with
    | nil => exact h1 rfl
    | cons x xs => simp [dotStr] at e
  · intro e
    cases c with
    | nil => exact h1 rfl
    | cons x xs =>
      cases xs with
      | nil => simp [dotdotStr, cUnder, cDot] at e
      | cons y ys => simp [dotdotStr] at e
  · intro hm
    rcases List.mem_append.mp hm with hm | hm
    · exact h4 hm
    · rcases List.mem_cons.mp hm with e | hm
      · simp [cSlash, cUnder] at e
      · have := List.all_eq_true.mp (offsetSuffix_chars o) _ hm
        simp [isSuffixChar, cSlash, cUnder] at this

theorem locComps_spec (u : WriteUnit) (hs : safePath u.logical = true) :
    u.location = joinSlash (locComps u) ∧ (∀ c ∈ locComps u, goodComp c) ∧ locComps u ≠ [] := by
  have hbase := storagePath_safe u.owner u.logical hs
  have hgood : ∀ c ∈ ownerStr u.owner :: splitSlash u.logical, goodComp c := by
    intro c hc
    rcases List.mem_cons.mp hc with rfl | h
    · exact ownerStr_good _
    · exact safePath_good _ hs c h
  cases ho : u.offs with
  | none =>
    refine ⟨?_, ?_, ?_⟩
    · simp [WriteUnit.location, WriteUnit.base, unitLocation, ho, hbase, locComps]
    · simpa [locComps, ho] using hgood
    · simp [locComps, ho]
  | some o =>
    have hne : ownerStr u.owner :: splitSlash u.logical ≠ [] := by simp
    have hdl := List.dropLast_concat_getLast hne
    refine ⟨?_, ?_, ?_⟩
    · simp only [WriteUnit.location, WriteUnit.base, unitLocation, ho, hbase, locComps]
      conv => lhs; rw [← hdl]
      exact joinSlash_snoc_append _ _ _
    · intro c hc
      simp only [locComps, ho] at hc
      rcases List.mem_append.mp hc with h | h
      · exact hgood c (List.dropLast_subset _ h)
      · simp only [List.mem_singleton] at h
        subst h
        exact goodComp_suffix _ _ (hgood _ (List.getLast_mem hne))
    · simp [locComps, ho]

/-- **Confinement.** For a safe logical path, what the filesystem plugin opens for the unit is
literally `root/location`: the resolved path starts with `root/` and the remainder consists of
literal components only (nothing collapsed, no "..", no absolute override). -/
theorem C05_confined_partial (abs : Bool) (rc : List Str) (hrc : ∀ c ∈ rc, goodComp c) (hr : rc ≠ [])
    (u : WriteUnit) (hs : safePath u.logical = true) :
    fsPath (Root abs rc) u.location = Root abs rc ++ cSlash :: u.location
    ∧ ∃ comps, u.location = joinSlash comps ∧ comps ≠ [] ∧ ∀ c ∈ comps, goodComp c := by
  obtain ⟨hloc, hgood, hne⟩ := locComps_spec u hs
  refine ⟨?_, locComps u, hloc, hne, hgood⟩
  rw [hloc, Root, fsPath_good abs rc (locComps u) hrc hgood hr hne, joinSlash_append rc _ hr hne]
  simp

/-- splitting at the first slash is unambiguous -/
theorem split_first_slash (a b r1 r2 : Str) (ha : cSlash ∉ a) (hb : cSlash ∉ b)
    (h : a ++ cSlash :: r1 = b ++ cSlash :: r2) : a = b ∧ r1 = r2 := by
  induction a generalizing b with
  | nil =>
    cases b with
    | nil => simpa using h
    | cons y ys =>
      simp only [List.nil_append, List.cons_append, List.cons.injEq] at h
      exact absurd (by simp [h.1]) hb
  | cons x xs ih =>
    cases b with
    | nil =>
      simp only [List.nil_append, List.cons_append, List.cons.injEq] at h
      exact absurd (by simp [h.1]) ha
    | cons y ys =>
      simp only [List.cons_append, List.cons.injEq] at h
      obtain ⟨rfl, h2⟩ := h
      obtain ⟨e1, e2⟩ := ih ys (fun m => ha (by simp [m])) (fun m => hb (by simp [m])) h2
      exact ⟨by rw [e1], e2⟩

theorem base_inj (u v : WriteUnit) (hu : safePath u.logical = true) (hv : safePath v.logical = true)
    (h : u.base = v.base) : u.owner = v.owner ∧ u.logical = v.logical := by
  have e1 : u.base = ownerStr u.owner ++ cSlash :: u.logical := by
    rw [WriteUnit.base, storagePath_safe _ _ hu]
    cases hsp : splitSlash u.logical with
    | nil => exact absurd hsp (splitSlash_ne_nil _)
    | cons a b => have := joinSlash_splitSlash u.logical; rw [hsp] at this; simp [joinSlash, this]
  have e2 : v.base = ownerStr v.owner ++ cSlash :: v.logical := by
    rw [WriteUnit.base, storagePath_safe _ _ hv]
    cases hsp : splitSlash v.logical with
    | nil => exact absurd hsp (splitSlash_ne_nil _)
    | cons a b => have := joinSlash_splitSlash v.logical; rw [hsp] at this; simp [joinSlash, this]
  rw [e1, e2] at h
  obtain ⟨ho, hl⟩ := split_first_slash _ _ _ _ (ownerStr_good _).2.2.2 (ownerStr_good _).2.2.2 h
  exact ⟨ownerStr_inj _ _ ho, hl⟩

/-- **Written once.** Distinct write units (different owner, logical path or chunk/shard offsets)
of safe, alias-free key sets resolve to pairwise distinct files under the root — for any number
of units, ranks, chunks. -/
theorem C05_written_once_partial (abs : Bool) (rc : List Str) (hrc : ∀ c ∈ rc, goodComp c) (hr : rc ≠ [])
    (us : List WriteUnit)
    (hsafe : ∀ u ∈ us, safePath u.logical = true)
    (hdist : us.Pairwise (fun u v => u.key ≠ v.key))
    (halias : noSuffixAlias (us.map WriteUnit.base) = true) :
    (us.map (fun u => fsPath (Root abs rc) u.location)).Pairwise (· ≠ ·) := by
  rw [List.pairwise_map]
  refine List.Pairwise.imp_of_mem ?_ hdist
  intro u v hu hv hkey heq
  rw [(C05_confined_partial abs rc hrc hr u (hsafe u hu)).1,
      (C05_confined_partial abs rc hrc hr v (hsafe v hv)).1] at heq
  have hloc : u.location = v.location := by simpa using heq
  have hal := List.all_eq_true.mp halias
  have huv : suffixAlias u.base v.base = false := by
    have := List.all_eq_true.mp (hal u.base (List.mem_map_of_mem hu)) v.base (List.mem_map_of_mem hv)
    simpa using this
  have hvu : suffixAlias v.base u.base = false := by
    have := List.all_eq_true.mp (hal v.base (List.mem_map_of_mem hv)) u.base (List.mem_map_of_mem hu)
    simpa using this
  obtain ⟨hb, ho⟩ := unitLocation_inj u.base v.base u.offs v.offs huv hvu hloc
  obtain ⟨h1, h2⟩ := base_inj u v (hsafe u hu) (hsafe v hv) hb
  exact hkey (by simp [WriteUnit.key, h1, h2, ho])

theorem storeAfter_of_nodup (ws : List (Str × List Nat)) (hd : ws.Pairwise (fun a b => a.1 ≠ b.1))
    (w : Str × List Nat) (hw : w ∈ ws) : storeAfter ws w.1 = some w.2 := by
  unfold storeAfter
  have hd' : ws.reverse.Pairwise (fun a b => a.1 ≠ b.1) :=
    List.pairwise_reverse.mpr (hd.imp (fun h e => h e.symm))
  have hw' : w ∈ ws.reverse := List.mem_reverse.mpr hw
  generalize ws.reverse = l at hd' hw'
  induction l with
  | nil => cases hw'
  | cons x xs ih =>
    rw [List.pairwise_cons] at hd'
    rcases List.mem_cons.mp hw' with rfl | hm
    · simp [List.find?]
    · have : x.1 ≠ w.1 := hd'.1 w hm
      simp [List.find?, this, ih hd'.2 hm]

/-- **Exists and fits.** After the writes of a take have completed in *any* order, every unit's
resolved location exists in storage and holds exactly that unit's staged bytes (so its size is the
staged length — `element size × element count` for raw tensors by C17). -/
theorem C05_exists_fits_partial (abs : Bool) (rc : List Str) (hrc : ∀ c ∈ rc, goodComp c) (hr : rc ≠ [])
    (us order : List WriteUnit) (hperm : order.Perm us)
    (hsafe : ∀ u ∈ us, safePath u.logical = true)
    (hdist : us.Pairwise (fun u v => u.key ≠ v.key))
    (halias : noSuffixAlias (us.map WriteUnit.base) = true)
    (u : WriteUnit) (hu : u ∈ us) :
    storeAfter (order.map (fun w => (fsPath (Root abs rc) w.location, w.bytes)))
      (fsPath (Root abs rc) u.location) = some u.bytes := by
  have hnd := C05_written_once_partial abs rc hrc hr us hsafe hdist halias
  have hnd' : (order.map (fun w => (fsPath (Root abs rc) w.location, w.bytes))).Pairwise
      (fun a b => a.1 ≠ b.1) := by
    rw [List.pairwise_map]
    rw [List.pairwise_map] at hnd
    exact hperm.symm.pairwise hnd (fun h e => h e.symm)
  exact storeAfter_of_nodup _ hnd' (fsPath (Root abs rc) u.location, u.bytes)
    (List.mem_map.mpr ⟨u, hperm.symm.subset hu, rfl⟩)

/-- **Disjoint byte ranges.** Inside every slab written by `batch_write_requests` (any request list, any
threshold ≥ 1) the members' byte ranges are consecutive from 0, hence pairwise disjoint, and add up to the
slab's size — so byte ranges of distinct saved objects never overlap (objects in different files are disjoint
by `C05_written_once_partial`). Re-export of `C16_slab_ranges`. -/
theorem C05_disjoint {α : Type} (reqs : List (Ts.Slab.WReq α)) (thr : Nat) (hthr : 1 ≤ thr) (j : Nat) :
    ∃ size, Ts.Chunk.Consec 0 ((Ts.Slab.slabMembers (Ts.Slab.place thr reqs 0 0).zipIdx j).map (·.1)) size ∧
      ((Ts.Slab.slabMembers (Ts.Slab.place thr reqs 0 0).zipIdx j).map (·.1)).Pairwise (fun p q => p.2 ≤ q.1) := by
  obtain ⟨size, hc, _, _, hpw⟩ := (Ts.C16.C16_slab_ranges reqs thr hthr).2.2.2 j
  exact ⟨size, hc, hpw⟩

/-- **Every leaf exactly once.** All logical paths produced by flattening a stateful's state (containers and
leaves together) are pairwise distinct, for every nesting and key set — so the manifest built from them
lists each leaf exactly once per rank (the per-rank prefix and the replicated/consolidated view are C07's).
Re-export of `C15_flatten_paths_unique`. -/
theorem C05_manifest_complete (t : Ts.Flatten.Tree) (pre : Ts.Path.Str) :
    ((Ts.Flatten.flatten t pre).1.map (·.1) ++ (Ts.Flatten.flatten t pre).2.map (·.1)).Nodup :=
  Ts.Flatten.C15_flatten_paths_unique t pre

/-- **Key safety is a condition on the user's keys.** A logical path is the `/`-join of the escaped (`_encode`d)
string forms of the keys on the way to the leaf (C15's `Path.encode`). It is `safePath` exactly when none of those
keys is `""`, `"."` or `".."` — escaping neither creates nor removes these three (it only rewrites `%` and `/`). -/
theorem C05_safe_keys_iff (keys : List Ts.Path.Str) (hne : keys ≠ []) :
    safePath (joinSlash (keys.map Ts.Path.encode)) = true ↔
      ∀ k ∈ keys, k ≠ [] ∧ k ≠ dotStr ∧ k ≠ dotdotStr := by
  have hnoslash : ∀ c ∈ keys.map Ts.Path.encode, cSlash ∉ c := by
    intro c hc
    obtain ⟨k, _, rfl⟩ := List.mem_map.mp hc
    exact Ts.Flatten.C15_encode_no_slash k
  have hsplit := splitSlash_joinSlash (keys.map Ts.Path.encode) hnoslash (by simpa using hne)
  have henc : ∀ k : Ts.Path.Str, ∀ lit : Ts.Path.Str, Ts.Path.encode lit = lit →
      (Ts.Path.encode k = lit ↔ k = lit) := by
    intro k lit hl
    constructor
    · intro h; exact Ts.Flatten.C15_encode_injective k lit (by rw [h, hl])
    · intro h; rw [h, hl]
  have e0 : Ts.Path.encode [] = [] := by decide
  have e1 : Ts.Path.encode dotStr = dotStr := by decide
  have e2 : Ts.Path.encode dotdotStr = dotdotStr := by decide
  unfold safePath
  rw [hsplit, List.all_eq_true]
  constructor
  · intro h k hk
    have := h (Ts.Path.encode k) (List.mem_map_of_mem hk)
    simp only [safeComp, decide_eq_true_eq] at this
    refine ⟨fun e => this.1 (by rw [e, e0]), fun e => this.2.1 (by rw [e, e1]), fun e => this.2.2 (by rw [e, e2])⟩
  · intro h c hc
    obtain ⟨k, hk, rfl⟩ := List.mem_map.mp hc
    obtain ⟨h0, h1, h2⟩ := h k hk
    simp only [safeComp, decide_eq_true_eq]
    exact ⟨fun e => h0 ((henc k [] e0).1 e), fun e => h1 ((henc k dotStr e1).1 e), fun e => h2 ((henc k dotdotStr e2).1 e)⟩

/-! ## Witnesses: the full-strength statement fails on the current tree (finding D13) -/

private def s (x : String) : Str := x.toList.map Char.toNat

/-- chunked tensor under key "a" (offset 0) and a sibling key "a_0": one file. -/
theorem C05_witness_suffix :
    (WriteUnit.mk (.rank 0) (s "s/a") (some [0]) [1]).location
      = (WriteUnit.mk (.rank 0) (s "s/a_0") none [2]).location := by decide

/-- a key "." collapses: `0/s/a/./b` and `0/s/a/b` are the same file. -/
theorem C05_witness_dot :
    fsPath (s "/root/snap") (WriteUnit.mk (.rank 0) (s "s/a/./b") none []).location
      = fsPath (s "/root/snap") (WriteUnit.mk (.rank 0) (s "s/a/b") none []).location := by decide

/-- keys ".." escape the snapshot root. -/
theorem C05_witness_dotdot :
    fsPath (s "/root/snap") (WriteUnit.mk (.rank 0) (s "../../x") none []).location = s "/root/x" := by
  decide

/-- an application key "" yields logical path "/x": `os.path.join` discards rank and root. -/
theorem C05_witness_emptykey :
    fsPath (s "/root/snap") (WriteUnit.mk (.rank 0) (s "/x") none []).location = s "/x" := by decide

/-- an inner key "" gives `a//b`, the same file as `a/b`. -/
theorem C05_witness_inner_empty :
    fsPath (s "/root/snap") (WriteUnit.mk (.rank 0) (s "s/a//b") none []).location
      = fsPath (s "/root/snap") (WriteUnit.mk (.rank 0) (s "s/a/b") none []).location := by decide

/-! ## Non-vacuity -/
example : safePath (s "s/layer%2F1/weight") = true := by decide
example : noSuffixAlias [s "0/s/a", s "0/s/b_1x", s "replicated/s/a"] = true := by decide
example : noSuffixAlias [s "0/s/a", s "0/s/a_0"] = false := by decide
example : (∀ c ∈ [s "root", s "snap"], goodComp c) := by
  intro c hc; simp at hc; rcases hc with rfl | rfl <;> (simp [goodComp, s, dotStr, dotdotStr, cDot, cSlash])
example : fsPath (Root true [s "root", s "snap"]) (WriteUnit.mk (.rank 3) (s "s/w") (some [4, 0]) []).location
    = s "/root/snap/3/s/w_4_0" := by decide

end Ts.Location
