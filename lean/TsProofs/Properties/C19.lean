import TsProofs.Rng
/-!
# C19 — take has no side effects on app state or RNG; RNG resumes identically

Property theorems only. Model: `TsModel.Rng` (mirrors snapshot.py `_take_impl`, `restore`,
`_load_stateful`, `_pop_rng_state`, `_gather_keys`; rng_state.py; the CPU staging path of
io_preparers/tensor.py). The RNG state type `σ` is abstract and every stateful's effect on it is an
arbitrary function, so the theorems hold for every generator, every drawing pattern and every
application. `extra` is the list of keys gathered from other ranks (arbitrary).
-/
namespace Ts.Rng
variable {σ : Type}

/-- No item of the dict is an RNGState. -/
def NoRng (app : App σ) : Prop := ∀ kv ∈ app, kv.2.isRng = false

/-- **With an RNGState in the app state, `take` leaves the global RNG exactly as it found it** —
for every family of draw functions of the other statefuls, every key `k` of the RNGState (so every
position in the sorted key order) and every position in the dict (`pre`/`post`), and whatever keys
other ranks contribute. The snapshot remembers the RNG state at entry. -/
theorem C19_take_rng_neutral_with_rngstate (pre post : App σ) (k : Key) (extra : List Key) (s : σ)
    (hpre : NoRng pre) (hpost : NoRng post) (hwf : WF (pre ++ (k, Stateful.rng) :: post)) :
    ∃ r, take extra (pre ++ (k, Stateful.rng) :: post) s = .ok r ∧ r.run.rng = s
      ∧ r.snap.rng = some (k, s) := by
  simp [take, popRng_one pre post k hpre hpost hwf]

/-- **Without an RNGState, the RNG after `take` is the RNG before, advanced by exactly the
application's own `state_dict()` draws, each registered key once, in ascending key order** (`ks'` is
*any* strictly ascending list with the same members as the dict's keys — there is only one).
torchsnapshot adds no draw of its own. -/
theorem C19_take_rng_without (app : App σ) (extra : List Key) (s : σ) (hno : NoRng app)
    (ks' : List Key) (hs : ks'.Pairwise (· < ·)) (hm : ∀ k, k ∈ ks' ↔ k ∈ app.map (·.1)) :
    ∃ r, take extra app s = .ok r ∧ r.run.rng = ks'.foldl (fun s k => sdDrawOf app k s) s
      ∧ r.snap.rng = none := by
  refine ⟨_, by simp only [take, popRng_noRng app hno]; rfl, ?_, rfl⟩
  exact sdLoop_sorted app extra ks' hs hm ⟨s, []⟩

/-- **The RNG immediately after `restore` equals the RNG immediately after the `take` that
produced the snapshot**, from *any* RNG state `s'` at restore time (so after any interposed draws,
in the same or another process), for every drawing `state_dict()`/`load_state_dict()` of the
statefuls being restored (which may be different objects from those saved), provided the restoring
app state holds the RNGState under the same key and only keys this rank saved. -/
theorem C19_restore_resumes
    (preT postT : App σ) (k : Key) (extraT : List Key) (s₀ : σ) (rT : TakeResult σ)
    (hT : take extraT (preT ++ (k, Stateful.rng) :: postT) s₀ = .ok rT)
    (hpreT : NoRng preT) (hpostT : NoRng postT) (hwfT : WF (preT ++ (k, Stateful.rng) :: postT))
    (preR postR : App σ) (extraR : List Key) (s' : σ)
    (hpreR : NoRng preR) (hpostR : NoRng postR) (hwfR : WF (preR ++ (k, Stateful.rng) :: postR))
    (hsub : ∀ x ∈ (preR ++ postR).map (·.1), x ∈ (preT ++ postT).map (·.1)) :
    ∃ rR, restore rT.snap extraR (preR ++ (k, Stateful.rng) :: postR) s' = .ok rR
      ∧ rR.rng = rT.run.rng := by
  -- what take produced
  have hT' : rT.run.rng = s₀ ∧ rT.snap.rng = some (k, s₀) ∧ rT.snap.keys = (preT ++ postT).map (·.1) := by
    simp only [take, popRng_one preT postT k hpreT hpostT hwfT] at hT
    injection hT with hT; subst hT; exact ⟨rfl, rfl, rfl⟩
  obtain ⟨h1, h2, h3⟩ := hT'
  have hnoR : ∀ kv ∈ preR ++ postR, kv.2.isRng = false := by
    intro kv hkv
    rcases List.mem_append.mp hkv with h | h
    · exact hpreR kv h
    · exact hpostR kv h
  obtain ⟨r', hr'⟩ := loadLoop_ok rT.snap (preR ++ postR) hnoR (by rw [h3]; exact hsub)
    (sortKeys ((preR ++ postR).map (·.1) ++ extraR)) ⟨s', []⟩
  simp only [restore, popRng_one preR postR k hpreR hpostR hwfR, hr', loadStateful, h2, ite_true, h1]
  exact ⟨_, rfl, rfl⟩

/-- The same, spelled with an explicit interposed sequence of arbitrary draws `ds` between the
`take` and the `restore`. -/
theorem C19_restore_resumes_after_draws
    (preT postT : App σ) (k : Key) (extraT : List Key) (s₀ : σ) (rT : TakeResult σ)
    (hT : take extraT (preT ++ (k, Stateful.rng) :: postT) s₀ = .ok rT)
    (hpreT : NoRng preT) (hpostT : NoRng postT) (hwfT : WF (preT ++ (k, Stateful.rng) :: postT))
    (ds : List (σ → σ))
    (preR postR : App σ) (extraR : List Key)
    (hpreR : NoRng preR) (hpostR : NoRng postR) (hwfR : WF (preR ++ (k, Stateful.rng) :: postR))
    (hsub : ∀ x ∈ (preR ++ postR).map (·.1), x ∈ (preT ++ postT).map (·.1)) :
    ∃ rR, restore rT.snap extraR (preR ++ (k, Stateful.rng) :: postR)
        (ds.foldl (fun s d => d s) rT.run.rng) = .ok rR ∧ rR.rng = rT.run.rng :=
  C19_restore_resumes preT postT k extraT s₀ rT hT hpreT hpostT hwfT preR postR extraR _
    hpreR hpostR hwfR hsub

/-- **Staging never writes to an application buffer** (model level: the CPU write path only reads
through a view, or clones into a fresh buffer and reads the clone). For every set `appAddrs` of
application buffers, every order `ops` in which the scheduler stages the leaves and both the sync
and the async choice per leaf: if the clone targets are fresh, every application buffer holds the
same bytes afterwards, and the bytes handed to storage for each leaf are its contents at call time. -/
theorem C19_state_untouched (appAddrs : List Addr) (ops : List LeafOp) (h : Heap)
    (hsrc : ∀ op ∈ ops, op.src ∈ appAddrs)
    (hfresh : ∀ op ∈ ops, ∀ x f, op = LeafOp.cloneThenView x f → f ∉ appAddrs) :
    (∀ a ∈ appAddrs, (stageAll h ops).1.get a = h.get a)
      ∧ (stageAll h ops).2 = ops.map (fun op => h.get op.src) := by
  induction ops generalizing h with
  | nil => exact ⟨fun _ _ => rfl, rfl⟩
  | cons op ops ih =>
    have hkeep : ∀ a ∈ appAddrs, (stageLeaf h op).1.get a = h.get a := by
      intro a ha
      apply stageLeaf_get
      intro x f he hfa
      exact hfresh op (by simp) x f he (hfa ▸ ha)
    obtain ⟨ih1, ih2⟩ := ih (stageLeaf h op).1 (fun o ho => hsrc o (List.mem_cons_of_mem _ ho))
      (fun o ho => hfresh o (List.mem_cons_of_mem _ ho))
    constructor
    · intro a ha
      simp only [stageAll]
      rw [ih1 a ha, hkeep a ha]
    · simp only [stageAll, List.map_cons]
      rw [ih2]
      congr 1
      · cases op <;> simp [stageLeaf, LeafOp.src] <;> split <;> simp_all
      · apply List.map_congr_left
        intro o ho
        exact hkeep _ (hsrc o (List.mem_cons_of_mem _ ho))

/-! ## Non-vacuity: concrete instances (σ := draw history; a draw appends its tag) -/

private def dr (n : Nat) : List Nat → List Nat := fun s => s ++ [n]
/-- keys "b" (98), "m" (109), "z" (122); the RNGState under "m" sorts *between* the others. -/
private def appEx : App (List Nat) :=
  [([122], .other (dr 1) (dr 10)), ([109], .rng), ([98], .other (dr 2) (dr 20))]

example : WF appEx := by decide
example : (take [] appEx [7]).toOption.map (fun r => (r.run.rng, r.run.evs, r.snap.rng)) =
    some ([7], [.sd [109], .getRng, .sd [98], .sd [122], .load [109], .setRng], some ([109], [7])) := by
  decide
/-- without the RNGState: the draws of "b" then "z", in key order although "z" was registered first -/
example : (take [] [([122], .other (dr 1) (dr 10)), ([98], .other (dr 2) (dr 20))] [7]).toOption.map
    (fun r => (r.run.rng, r.run.evs)) = some ([7, 2, 1], [.sd [98], .sd [122]]) := by decide
/-- take → draws → restore: each restored stateful calls `state_dict` then `load_state_dict`,
the RNGState comes last and resets the RNG to the state after take (`[7]`). -/
example : ((take [] appEx [7]).toOption.bind (fun r => (restore r.snap [] appEx [7, 99, 98]).toOption)).map
    (fun r => (r.rng, r.evs)) =
    some ([7], [.sd [98], .load [98], .sd [122], .load [122], .sd [109], .getRng, .load [109], .setRng]) := by
  decide
/-- two RNGStates are rejected -/
example : (take [] [([1], .rng), ([2], (.rng : Stateful (List Nat)))] []).toOption.isNone = true := by decide
example : (stageAll [(1, [5, 6]), (2, [7])] [.cloneThenView 1 10, .view 2, .cloneThenView 2 11]).2
    = [some [5, 6], some [7], some [7]] := by decide

end Ts.Rng
