import TsProofs.Sched
/-!
# C11 — Pipelines always finish and perform every request exactly once

Property theorems only. Model: `TsModel.Sched`. A *run* is an event list accepted from the initial
state; it is *maximal* when no event is enabled in its final state. Request lists, budgets (any
integer), caps (≥ 1 where stated) and event orders are arbitrary. What is assumed, not proved:
asyncio fairness (every created task eventually completes or fails, `asyncio.wait` returns a
non-empty `done` set) — i.e. that the environment eventually offers one of the enabled completion
events.
-/
namespace Ts.Sched

/-- No stuck state (write and read pipeline, cap ≥ 1, any budget, any state — reachable or not):
if no event at all is enabled, the pipeline is not `running`: either it has raised, or every
request is done. So whenever requests are unfinished and nothing has failed, the scheduler can
start something or is waiting for an operation that is really in flight. -/
theorem C11_no_stuck (cap : Nat) (hcap : 1 ≤ cap) :
    (∀ s : WState, (∀ e s', wstep cap s e ≠ .ok s') → s.outcome ≠ .running) ∧
    (∀ s : RState, (∀ e s', rstep cap s e ≠ .ok s') → s.outcome ≠ .running) := by
  constructor
  · intro s hdead
    cases hf : s.failed with
    | true => simp [WState.outcome, hf]
    | false =>
      have := w_dead_allDone hcap s hf (fun k r _ s' => hdead ⟨k, r⟩ s')
      simp [WState.outcome, hf, this]
  · intro s hdead
    cases hf : s.failed with
    | true => simp [RState.outcome, hf]
    | false =>
      have := r_dead_allDone hcap s hf (fun k r _ s' => hdead ⟨k, r⟩ s')
      simp [RState.outcome, hf, this]

/-- Every event strictly decreases a natural-number measure (write: 4/3/2/1/0 per request not yet
admitted / staging / staged / being written / done, plus 1 while nothing has failed; read: 3/2/1/0),
hence every run from the initial state has at most `4·n + 1` (read: `3·n + 1`) events: all runs are
finite, whatever the budget, the cap and the completion order. -/
theorem C11_measure (cfg : Config) :
    (∀ s e s', wstep cfg.cap s e = .ok s' → s'.measure < s.measure) ∧
    (∀ s e s', rstep cfg.cap s e = .ok s' → s'.measure < s.measure) ∧
    (∀ tr s, wrun cfg.cap (wInit cfg) tr = .ok s → tr.length ≤ 4 * cfg.reqs.length + 1) ∧
    (∀ tr s, rrun cfg.cap (rInit cfg) tr = .ok s → tr.length ≤ 3 * cfg.reqs.length + 1) := by
  refine ⟨fun s e s' h => wstep_measure h, fun s e s' h => rstep_measure h, ?_, ?_⟩
  · have key : ∀ (tr : List WEvent) (s s' : WState), wrun cfg.cap s tr = .ok s' →
        tr.length + s'.measure ≤ s.measure := by
      intro tr
      induction tr with
      | nil => intro s s' h; simp [wrun] at h; subst h; simp
      | cons e tr ih =>
        intro s s' h
        obtain ⟨s1, h1, h2⟩ := wrun_cons h
        have := wstep_measure h1
        have := ih s1 s' h2
        simp only [List.length_cons]; omega
    intro tr s h
    have h1 := key tr _ _ h
    have h2 : (wInit cfg).measure = 1 + 4 * cfg.reqs.length := by
      simp only [WState.measure, wInit, sumBy_map]
      simp [WStage.weight, sumBy_const]
    omega
  · have key : ∀ (tr : List REvent) (s s' : RState), rrun cfg.cap s tr = .ok s' →
        tr.length + s'.measure ≤ s.measure := by
      intro tr
      induction tr with
      | nil => intro s s' h; simp [rrun] at h; subst h; simp
      | cons e tr ih =>
        intro s s' h
        obtain ⟨s1, h1, h2⟩ := rrun_cons h
        have := rstep_measure h1
        have := ih s1 s' h2
        simp only [List.length_cons]; omega
    intro tr s h
    have h1 := key tr _ _ h
    have h2 : (rInit cfg).measure = 1 + 3 * cfg.reqs.length := by
      simp only [RState.measure, rInit, sumBy_map]
      simp [RStage.weight, sumBy_const]
    omega

/-- Write pipeline, cap ≥ 1: every maximal run in which nothing failed ends with outcome `ok`, and
its event list contains, for every request `r` of the input, exactly one `stageStart r` (admission: staging
started), one `stageDone r`, one `ioStart r` (write started) and one `ioDone r` — and no event for
any other id, and no failure event. -/
theorem C11_exactly_once_write (cfg : Config) (hcap : 1 ≤ cfg.cap) (tr : List WEvent) (s : WState)
    (h : wrun cfg.cap (wInit cfg) tr = .ok s) (hmax : ∀ e s', wstep cfg.cap s e ≠ .ok s')
    (hf : s.failed = false) :
    s.outcome = .ok ∧
    (∀ k r, k.isFail = false → tr.count ⟨k, r⟩ = if r < cfg.reqs.length then 1 else 0) ∧
    (∀ e ∈ tr, e.kind.isFail = false) := by
  have hdone := w_dead_allDone hcap s hf (fun k r _ s' => hmax ⟨k, r⟩ s')
  obtain ⟨hlen, -, hcount, hnofail⟩ := wrun_counts tr _ _ h
  refine ⟨by simp [WState.outcome, hf, hdone], ?_, hnofail hf⟩
  intro k r hk
  rw [hcount k r hk]
  have hlen' : s.slots.length = cfg.reqs.length := by rw [hlen]; simp [wInit]
  have h0 : wprog (wInit cfg) r = 0 := by
    simp only [wprog, wInit, List.getElem?_map]
    cases cfg.reqs[r]? <;> simp [WStage.prog]
  have hk4 : k.src.prog < 4 := by cases k <;> simp [WKind.isFail] at hk <;> simp [WKind.src, WStage.prog]
  by_cases hr : r < cfg.reqs.length
  · have : wprog s r = 4 := by
      have hlt : r < s.slots.length := by omega
      simp only [wprog, List.getElem?_eq_getElem hlt]
      simp only [WState.allDone, List.all_eq_true] at hdone
      have := hdone s.slots[r] (List.getElem_mem hlt)
      cases hs : s.slots[r].stage <;> simp [hs, WStage.isDone, WStage.prog] at this ⊢
    simp [h0, this, hr, hk4]
  · have : wprog s r = 0 := by
      have : s.slots.length ≤ r := by omega
      simp [wprog, List.getElem?_eq_none this]
    simp [h0, this, hr]

/-- Read pipeline, cap ≥ 1: every maximal run in which nothing failed ends with outcome `ok`, and
contains for every request exactly one `ioStart r` (read started), one `ioDone r` (read finished,
consumption started) and one `consumeDone r`; nothing else. -/
theorem C11_exactly_once_read (cfg : Config) (hcap : 1 ≤ cfg.cap) (tr : List REvent) (s : RState)
    (h : rrun cfg.cap (rInit cfg) tr = .ok s) (hmax : ∀ e s', rstep cfg.cap s e ≠ .ok s')
    (hf : s.failed = false) :
    s.outcome = .ok ∧
    (∀ k r, k.isFail = false → tr.count ⟨k, r⟩ = if r < cfg.reqs.length then 1 else 0) ∧
    (∀ e ∈ tr, e.kind.isFail = false) := by
  have hdone := r_dead_allDone hcap s hf (fun k r _ s' => hmax ⟨k, r⟩ s')
  obtain ⟨hlen, -, hcount, hnofail⟩ := rrun_counts tr _ _ h
  refine ⟨by simp [RState.outcome, hf, hdone], ?_, hnofail hf⟩
  intro k r hk
  rw [hcount k r hk]
  have hlen' : s.slots.length = cfg.reqs.length := by rw [hlen]; simp [rInit]
  have h0 : rprog (rInit cfg) r = 0 := by
    simp only [rprog, rInit, List.getElem?_map]
    cases cfg.reqs[r]? <;> simp [RStage.prog]
  have hk3 : k.src.prog < 3 := by cases k <;> simp [RKind.isFail] at hk <;> simp [RKind.src, RStage.prog]
  by_cases hr : r < cfg.reqs.length
  · have : rprog s r = 3 := by
      have hlt : r < s.slots.length := by omega
      simp only [rprog, List.getElem?_eq_getElem hlt]
      simp only [RState.allDone, List.all_eq_true] at hdone
      have := hdone s.slots[r] (List.getElem_mem hlt)
      cases hs : s.slots[r].stage <;> simp [hs, RStage.isDone, RStage.prog] at this ⊢
    simp [h0, this, hr, hk3]
  · have : rprog s r = 0 := by
      have : s.slots.length ≤ r := by omega
      simp [rprog, List.getElem?_eq_none this]
    simp [h0, this, hr]

/-- Maximal runs exist for every input (cap ≥ 1): the greedy scheduler's event list is accepted and
ends with every request done, nothing failed — so the two theorems above are not vacuous for any
request list, budget or cap. -/
theorem C11_complete_run_exists (cfg : Config) (hcap : 1 ≤ cfg.cap) :
    (wrun cfg.cap (wInit cfg) (wRunGreedy cfg).1 = .ok (wRunGreedy cfg).2 ∧
      (wRunGreedy cfg).2.outcome = .ok) ∧
    (rrun cfg.cap (rInit cfg) (rRunGreedy cfg).1 = .ok (rRunGreedy cfg).2 ∧
      (rRunGreedy cfg).2.outcome = .ok) := by
  constructor
  · obtain ⟨h1, h2, h3⟩ := wRunGreedyAux_spec hcap (wInit cfg).measure (wInit cfg) rfl (by omega)
    exact ⟨h1, by simp [WState.outcome, wRunGreedy, h2, h3]⟩
  · obtain ⟨h1, h2, h3⟩ := rRunGreedyAux_spec hcap (rInit cfg).measure (rInit cfg) rfl (by omega)
    exact ⟨h1, by simp [RState.outcome, rRunGreedy, h2, h3]⟩

/-- Failures. (1) Processing a failed operation puts the pipeline in outcome `error`, and no further
event is possible (the coroutine has raised: it is neither `ok` nor waiting). (2) A failure is
processed under exactly the same conditions as the corresponding completion, so a failed operation
cannot be overlooked in a state where its success would have been processed. (3) A run that
contains a failure event ends in `error`; a run that ends in `ok` contains none. Both pipelines.
(4) A batched stager / consumer succeeds only if every sub-operation succeeds (D1). -/
theorem C11_failure_raises (cap : Nat) :
    (∀ (s s' : WState) (e : WEvent), e.kind.isFail = true → wstep cap s e = .ok s' →
        s'.outcome = .error ∧ ∀ e', wstep cap s' e' = .error .finished) ∧
    (∀ (s s' : RState) (e : REvent), e.kind.isFail = true → rstep cap s e = .ok s' →
        s'.outcome = .error ∧ ∀ e', rstep cap s' e' = .error .finished) ∧
    (∀ (s : WState) (r : Nat),
        isOk (wstep cap s ⟨.stageFail, r⟩) = isOk (wstep cap s ⟨.stageDone, r⟩) ∧
        isOk (wstep cap s ⟨.ioFail, r⟩) = isOk (wstep cap s ⟨.ioDone, r⟩)) ∧
    (∀ (s : RState) (r : Nat),
        isOk (rstep cap s ⟨.ioFail, r⟩) = isOk (rstep cap s ⟨.ioDone, r⟩) ∧
        isOk (rstep cap s ⟨.consumeFail, r⟩) = isOk (rstep cap s ⟨.consumeDone, r⟩)) ∧
    (∀ (s0 s : WState) (tr : List WEvent), wrun cap s0 tr = .ok s →
        ((∃ e ∈ tr, e.kind.isFail = true) → s.outcome = .error) ∧
        (s.outcome = .ok → ∀ e ∈ tr, e.kind.isFail = false)) ∧
    (∀ (s0 s : RState) (tr : List REvent), rrun cap s0 tr = .ok s →
        ((∃ e ∈ tr, e.kind.isFail = true) → s.outcome = .error) ∧
        (s.outcome = .ok → ∀ e ∈ tr, e.kind.isFail = false)) ∧
    (∀ subOk : List Bool, batchSucceeds subOk = true ↔ ∀ b ∈ subOk, b = true) := by
  refine ⟨?_, ?_, ?_, ?_, ?_, ?_, ?_⟩
  · intro s s' e hfail h
    obtain ⟨k, r⟩ := e
    rcases wstep_prog h with ⟨-, hs'⟩ | ⟨hnf, -⟩
    · subst hs'
      exact ⟨by simp [WState.outcome], fun e' => by simp [wstep]⟩
    · simp at hfail; simp [hfail] at hnf
  · intro s s' e hfail h
    obtain ⟨k, r⟩ := e
    rcases rstep_prog h with ⟨-, hs'⟩ | ⟨hnf, -⟩
    · subst hs'
      exact ⟨by simp [RState.outcome], fun e' => by simp [rstep]⟩
    · simp at hfail; simp [hfail] at hnf
  · intro s r
    constructor <;>
    · rw [Bool.eq_iff_iff, wstep_isOk_iff, wstep_isOk_iff]
      simp only [WKind.src, wguard]
  · intro s r
    constructor <;>
    · rw [Bool.eq_iff_iff, rstep_isOk_iff, rstep_isOk_iff]
      simp only [RKind.src, rguard]
  · intro s0 s tr h
    have hno := (wrun_counts tr _ _ h).2.2.2
    constructor
    · rintro ⟨e, he, hfail⟩
      cases hf : s.failed with
      | true => simp [WState.outcome, hf]
      | false => have := hno hf e he; simp [hfail] at this
    · intro hok
      exact hno (woutcome_ok hok).1
  · intro s0 s tr h
    have hno := (rrun_counts tr _ _ h).2.2.2
    constructor
    · rintro ⟨e, he, hfail⟩
      cases hf : s.failed with
      | true => simp [RState.outcome, hf]
      | false => have := hno hf e he; simp [hfail] at this
    · intro hok
      exact hno (routcome_ok hok).1
  · intro subOk
    simp [batchSucceeds]

/-! Non-vacuity: concrete maximal runs and failure runs. -/

example : let cfg : Config := { reqs := [⟨1, 1⟩, ⟨3, 2⟩, ⟨4, 4⟩, ⟨9, 9⟩, ⟨0, 0⟩], budget := 4, cap := 2 }
    (1 ≤ cfg.cap) ∧ waccepts cfg (wRunGreedy cfg).1 = true ∧ (wRunGreedy cfg).1.length = 20 ∧
    (wRunGreedy cfg).2.outcome = .ok ∧ wGreedyNext cfg.cap (wRunGreedy cfg).2 = none ∧
    raccepts cfg (rRunGreedy cfg).1 = true ∧ (rRunGreedy cfg).1.length = 15 ∧
    (rRunGreedy cfg).2.outcome = .ok := by
  decide

/-- a failure event is enabled exactly where the completion is; afterwards nothing is. -/
example : let cfg : Config := { reqs := [⟨1, 1⟩, ⟨2, 2⟩], budget := 4, cap := 1 }
    waccepts cfg [⟨.stageStart, 0⟩, ⟨.stageStart, 1⟩, ⟨.stageFail, 1⟩] = true ∧
    waccepts cfg [⟨.stageStart, 0⟩, ⟨.stageStart, 1⟩, ⟨.stageFail, 1⟩, ⟨.stageDone, 0⟩] = false ∧
    waccepts cfg [⟨.stageStart, 0⟩, ⟨.stageStart, 1⟩, ⟨.stageDone, 1⟩, ⟨.ioStart, 1⟩, ⟨.ioFail, 1⟩] = true ∧
    raccepts cfg [⟨.ioStart, 0⟩, ⟨.ioDone, 0⟩, ⟨.ioStart, 1⟩, ⟨.consumeFail, 0⟩] = true ∧
    raccepts cfg [⟨.ioStart, 0⟩, ⟨.ioFail, 0⟩, ⟨.ioStart, 1⟩] = false := by
  decide

end Ts.Sched
