import TsProofs.Damage
/-!
# C04 — Restore never silently returns wrong data when stored payload is damaged

Model: `TsModel.Damage`. A payload object with original contents `orig` is deleted or truncated to its
first `n < |orig|` bytes. A read request needs the byte range `[lo, hi)` of it (or the whole object).
The statements decide, for every object, damage, range and batching plan, exactly when the request
errors: iff the needed range reaches into the missing part. "ok" always carries the *saved* bytes.
-/
namespace Ts.Damage
open Ts.Storage

/-- A deleted object makes every request on it raise — ranged or whole, any consumer. -/
theorem C04_deleted_raises (orig : Bytes) (r : Req) : runReq orig none r = .error .missing := by
  simp [runReq, readObj, bind, Except.bind]

/-- …also through the batched reader. -/
theorem C04_deleted_raises_batched (orig : Bytes) (subs : List ((Nat × Nat) × Consumer)) :
    runBatched orig none subs = .error .missing := by
  simp [runBatched, readObj, bind, Except.bind]

/-- Ranged read of a raw tensor (slab member, chunk, tile) from an object truncated to `n` bytes:
it succeeds with exactly the saved bytes when the range lies in the surviving prefix (or is empty),
and raises otherwise — it never returns other bytes. -/
theorem C04_truncated_ranged_raw (orig : Bytes) (n lo hi : Nat) (h1 : lo ≤ hi) (h2 : hi ≤ orig.length) :
    runReq orig (some (orig.take n)) ⟨some (lo, hi), .raw (hi - lo)⟩
      = if hi ≤ n ∨ lo = hi then .ok (slice orig lo hi) else .error .badBuffer := by
  simp only [runReq, readObj_range _ _ _ h1, bind, Except.bind]
  exact consume_raw_trunc orig n lo hi h1 h2 _

/-- Whole-object read of a raw tensor from a truncated object always raises. -/
theorem C04_truncated_whole_raw (orig : Bytes) (n : Nat) (hn : n < orig.length) :
    runReq orig (some (orig.take n)) ⟨none, .raw orig.length⟩ = .error .badBuffer := by
  have : (orig.take n).length ≠ orig.length := by rw [List.length_take]; omega
  simp only [runReq, readObj, consume, bind, Except.bind, this, if_false]

/-- Objects / torch_save tensors (decoder rejects everything but the saved stream): whole-object read of
a truncated object raises. -/
theorem C04_truncated_whole_codec (orig : Bytes) (n : Nat) (hn : n < orig.length) :
    runReq orig (some (orig.take n)) ⟨none, .codec⟩ = .error .badBuffer := by
  have : orig.take n ≠ orig := by
    intro e; have := congrArg List.length e; simp at this; omega
  simp [runReq, readObj, consume, Req.want, this, bind, Except.bind]

/-- …and a ranged read through the codec behaves like the raw one. -/
theorem C04_truncated_ranged_codec (orig : Bytes) (n lo hi : Nat) (h1 : lo ≤ hi) (h2 : hi ≤ orig.length) :
    runReq orig (some (orig.take n)) ⟨some (lo, hi), .codec⟩
      = if hi ≤ n ∨ lo = hi then .ok (slice orig lo hi) else .error .badBuffer := by
  simp only [runReq, readObj_range _ _ _ h1, bind, Except.bind, Req.want]
  exact consume_codec_trunc orig n lo hi h1 h2

/-- No damage: every request returns the saved bytes. -/
theorem C04_undamaged_ok (orig : Bytes) (lo hi : Nat) (h1 : lo ≤ hi) (h2 : hi ≤ orig.length) (c : Consumer)
    (hc : c = .raw (hi - lo) ∨ c = .codec) :
    runReq orig (some orig) ⟨some (lo, hi), c⟩ = .ok (slice orig lo hi) := by
  simp only [runReq, readObj_range _ _ _ h1, bind, Except.bind, Req.want]
  rcases hc with rfl | rfl
  · have : (slice orig lo hi).length = hi - lo := by rw [slice_length]; omega
    simp [consume, this]
  · simp [consume]

/-- well-formed batched plan: every member range lies inside the object and has a raw consumer of its size -/
def SubsOk (orig : Bytes) (subs : List ((Nat × Nat) × Consumer)) : Prop :=
  ∀ s ∈ subs, s.1.1 ≤ s.1.2 ∧ s.1.2 ≤ orig.length ∧ s.2 = .raw (s.1.2 - s.1.1)

/-- **Batched reads** (`batch_read_requests` merges all ranged reads of one location into one spanning
read): with the object truncated to `n` bytes the merged request delivers to every member exactly its
saved bytes when *all* members lie in the surviving prefix, and raises as soon as *any* member reaches
into the missing part — for any number of members in any order. (Before fix D1 the sub-consumer errors
were dropped and the restore returned normally.) -/
theorem C04_batched_truncated (orig : Bytes) (n : Nat) (subs : List ((Nat × Nat) × Consumer))
    (hne : subs ≠ []) (hok : SubsOk orig subs) :
    runBatched orig (some (orig.take n)) subs
      = if ∀ s ∈ subs, s.1.2 ≤ n ∨ s.1.1 = s.1.2
        then .ok (subs.map (fun s => slice orig s.1.1 s.1.2))
        else .error .badBuffer := by
  have hspan : spanLo (subs.map (·.1)) ≤ spanHi (subs.map (·.1)) := by
    cases subs with
    | nil => exact absurd rfl hne
    | cons s rest =>
      have a := spanLo_le (List.map (·.1) (s :: rest)) s.1 (by simp)
      have b := le_spanHi (List.map (·.1) (s :: rest)) s.1 (by simp)
      have := (hok s (by simp)).1
      omega
  simp only [runBatched, readObj_range _ _ _ hspan, bind, Except.bind]
  -- each member sees exactly what a direct ranged read would give it
  have hsub : ∀ s ∈ subs,
      consume s.2 (slice orig s.1.1 s.1.2)
        (slice (slice (orig.take n) (spanLo (subs.map (·.1))) (spanHi (subs.map (·.1))))
          (s.1.1 - spanLo (subs.map (·.1))) (s.1.2 - spanLo (subs.map (·.1))))
      = if s.1.2 ≤ n ∨ s.1.1 = s.1.2 then .ok (slice orig s.1.1 s.1.2) else .error .badBuffer := by
    intro s hs
    obtain ⟨h1, h2, h3⟩ := hok s hs
    have hm : s.1 ∈ subs.map (·.1) := List.mem_map_of_mem hs
    rw [slice_slice _ _ _ _ _ (spanLo_le _ _ hm) (le_spanHi _ _ hm), h3]
    exact consume_raw_trunc orig n s.1.1 s.1.2 h1 h2 _
  by_cases hall : ∀ s ∈ subs, s.1.2 ≤ n ∨ s.1.1 = s.1.2
  · rw [if_pos hall]
    apply mapM_ok (g := fun (s : (Nat × Nat) × Consumer) => slice orig s.1.1 s.1.2)
    intro s hs
    rw [hsub s hs]; simp [hall s hs]
  · rw [if_neg hall]
    apply mapM_err
    · intro s hs
      rw [hsub s hs]
      by_cases h : s.1.2 ≤ n ∨ s.1.1 = s.1.2
      · left; exact ⟨slice orig s.1.1 s.1.2, by simp [h]⟩
      · right; simp [h]
    · have : ∃ s ∈ subs, ¬ (s.1.2 ≤ n ∨ s.1.1 = s.1.2) := by
        simpa using hall
      obtain ⟨s, hs, hns⟩ := this
      exact ⟨s, hs, by rw [hsub s hs]; simp [hns]⟩

/-- Pre-fix (D1) behaviour, as a witness of why the repair was needed: dropping sub-consumer errors makes
a truncated slab "succeed". `runBatchedSwallow` is the old `asyncio.wait` without result retrieval. -/
def runBatchedSwallow (f : Option Bytes) (subs : List ((Nat × Nat) × Consumer)) : Except RErr Unit := do
  let ranges := subs.map (·.1)
  let _ ← readObj f (some (spanLo ranges, spanHi ranges))
  pure ()

theorem C04_witness_swallowed :
    runBatchedSwallow (some ([1,2,3,4,5,6,7,8].take 4)) [((0, 4), .raw 4), ((4, 8), .raw 4)] = .ok ()
    ∧ runBatched [1,2,3,4,5,6,7,8] (some ([1,2,3,4,5,6,7,8].take 4)) [((0, 4), .raw 4), ((4, 8), .raw 4)]
        = .error .badBuffer := by constructor <;> rfl

/-! Non-vacuity -/
example : SubsOk [1,2,3,4,5,6] [((0, 2), .raw 2), ((2, 6), .raw 4), ((3, 3), .raw 0)] := by
  intro s hs; simp at hs; rcases hs with rfl | rfl | rfl <;> simp
example : runBatched [1,2,3,4,5,6] (some ([1,2,3,4,5,6].take 6)) [((0, 2), .raw 2), ((2, 6), .raw 4)]
    = .ok [[1,2],[3,4,5,6]] := by rfl
example : runBatched [1,2,3,4,5,6] (some ([1,2,3,4,5,6].take 5)) [((0, 2), .raw 2), ((2, 6), .raw 4)]
    = .error .badBuffer := by rfl

end Ts.Damage
