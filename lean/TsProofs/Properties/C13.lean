import TsProofs.CommitMeasure
/-!
# C13 — Async commit barrier: commit after all arrive; errors reach every rank

Property theorems only. Model: `TsModel.Commit` (`actl?` mirrors `PendingSnapshot._complete_snapshot`,
snapshot.py, over `TsModel.Barrier`, dist_store.py `LinearBarrier`). All statements hold for every
world size `cfg.n`, every workload `cfg.nw`, every fault plan (`cfg.pfail`, `cfg.mfail`), every
schedule (list of labels; disabled labels are no-ops) and every initial store in which the keys of
this attempt's barrier prefix are absent (`Fresh`). Because the schedule is arbitrary and a cut of a
run is itself a run (`acut_reachable`), a statement about "the state after `sched`" is a statement
about every reachable state and every prefix of every history.
-/
namespace Ts.Commit
open Ts.Barrier

/-- **The leader writes metadata only after every rank has finished its writes.**
In every prefix (`cut`) of the linearised history of every run: if the metadata write has begun,
then `sync_complete` has already returned on every rank of the job. -/
theorem C13_commit_after_all_arrive (cfg : Cfg) (st : Store) (hf : Fresh st cfg.pfx)
    (sched : List Lbl) (cut : List Ev)
    (hc : cut <+: (arun cfg (AState.init st) sched).trace) :
    Ev.mBegin ∈ cut → ∀ r, r < cfg.n → Ev.ioComplete r ∈ cut := by
  obtain ⟨sched', rfl⟩ := acut_reachable cfg st sched cut hc
  have h := ainv_reach cfg st hf sched'
  intro hm r hr
  rw [amem_trace] at hm ⊢
  exact a_commit_all h hm r hr

/-- The same, as an explicit happens-before: whatever precedes the `mBegin` event contains the
I/O completion of every rank. -/
theorem C13_commit_after_all_arrive_before (cfg : Cfg) (st : Store) (hf : Fresh st cfg.pfx)
    (sched : List Lbl) (pre : List Ev)
    (hc : pre ++ [Ev.mBegin] <+: (arun cfg (AState.init st) sched).trace) :
    ∀ r, r < cfg.n → Ev.ioComplete r ∈ pre := by
  intro r hr
  have := C13_commit_after_all_arrive cfg st hf sched _ hc (by simp) r hr
  simpa using this

/-- **No rank reports completion before the leader has committed.** In every prefix of every
history: if rank r's background thread ended successfully (`wait()` returns), the metadata write
has returned. -/
theorem C13_no_early_completion (cfg : Cfg) (st : Store) (hf : Fresh st cfg.pfx)
    (sched : List Lbl) (cut : List Ev)
    (hc : cut <+: (arun cfg (AState.init st) sched).trace) (r : Nat) :
    Ev.waitOk r ∈ cut → Ev.mEnd ∈ cut := by
  obtain ⟨sched', rfl⟩ := acut_reachable cfg st sched cut hc
  have h := ainv_reach cfg st hf sched'
  intro hw
  rw [amem_trace] at hw ⊢
  exact a_waitOk_mEnd h r hw

/-- Some rank failed before the commit: `sync_complete` raised somewhere, or the leader's metadata
write raised. -/
def Failed (t : List Ev) : Prop := (∃ r, Ev.ioFail r ∈ t) ∨ Ev.mFail ∈ t

/-- **An error on any rank makes every rank's `wait()` raise, with nothing committed.**
For every reachable state `s` (run of any schedule):
1. if a failure has occurred, no rank has ended — or will ever end, the failure stays in the
   history — with `waitOk`, and the metadata write has not returned (nothing committed);
2. after a payload failure on any rank the metadata write is never even begun;
3. *no deadlock*: unless every thread has ended, some rank has an enabled step (so under weak
   fairness every thread does end);
4. once every thread has ended after a failure, every rank ended with `waitRaise`. -/
theorem C13_error_reaches_all (cfg : Cfg) (st : Store) (hf : Fresh st cfg.pfx) (sched : List Lbl) :
    let s := arun cfg (AState.init st) sched
    (Failed s.trace → (∀ r, Ev.waitOk r ∉ s.trace) ∧ Ev.mEnd ∉ s.trace) ∧
    (∀ r, Ev.ioFail r ∈ s.trace → Ev.mBegin ∉ s.trace) ∧
    (s.allTerminal cfg = false → ∃ l, (astep? cfg s l).isSome = true) ∧
    (Failed s.trace → s.allTerminal cfg = true → ∀ r, r < cfg.n → Ev.waitRaise r ∈ s.trace) := by
  intro s
  have h : AInv cfg s := ainv_reach cfg st hf sched
  have hlt : ∀ r, Ev.ioFail r ∈ s.hist → r < cfg.n := fun r hr => a_ioFail_rank cfg st hf sched r hr
  have hno : Failed s.trace → Ev.mEnd ∉ s.hist := by
    rintro (⟨r, hr⟩ | hm)
    · rw [amem_trace] at hr
      exact fun he => a_ioFail_no_mBegin h r (hlt r hr) hr (a_mEnd_mBegin h he)
    · rw [amem_trace] at hm
      exact a_mFail_no_mEnd h hm
  refine ⟨?_, ?_, ?_, ?_⟩
  · intro hfail
    refine ⟨fun r hw => ?_, fun he => hno hfail ((amem_trace _ _).1 he)⟩
    rw [amem_trace] at hw
    exact hno hfail (a_waitOk_mEnd h r hw)
  · intro r hr
    rw [amem_trace] at hr ⊢
    exact a_ioFail_no_mBegin h r (hlt r hr) hr
  · exact a_progress_lbl h
  · intro hfail ht r hr
    obtain ⟨b, hb⟩ := a_terminal ht r hr
    rw [amem_trace]
    cases b with
    | false => exact (h.m.wRaise r).2 hb
    | true =>
      exact absurd (a_waitOk_mEnd h r ((h.m.wOk r).2 hb)) (hno hfail)

/-- **Every execution is finite.** Along any schedule the number of labels that were enabled when
their turn came (`effective`) is at most `Σ_r (9 + n + 2·nw r)`: an attempt cannot run forever. With
no-deadlock (clause 3 of `C13_error_reaches_all`) every maximal execution — in particular every
weakly fair one — therefore ends with all threads finished, and then clause 4 applies: after a
failure every rank's `wait()` raises. -/
theorem C13_bounded_executions (cfg : Cfg) (st : Store) (sched : List Lbl) :
    effective cfg (AState.init st) sched ≤ sumTo cfg.n (fun r => 9 + cfg.n + 2 * cfg.nw r) := by
  have := effective_bound cfg sched (AState.init st)
  rw [ameasure_init] at this
  omega

/-- What C13 demands of one attempt (state `s` reached by the attempt's schedule). -/
def RoundOK (cfg : Cfg) (s : AState) : Prop :=
  (Ev.mBegin ∈ s.trace → ∀ r, r < cfg.n → Ev.ioComplete r ∈ s.trace) ∧
  (∀ r, Ev.waitOk r ∈ s.trace → Ev.mEnd ∈ s.trace) ∧
  (Failed s.trace → (∀ r, Ev.waitOk r ∉ s.trace) ∧ Ev.mEnd ∉ s.trace) ∧
  (∀ r, Ev.ioFail r ∈ s.trace → Ev.mBegin ∉ s.trace) ∧
  (s.allTerminal cfg = false → ∃ l, (astep? cfg s l).isSome = true) ∧
  (Failed s.trace → s.allTerminal cfg = true → ∀ r, r < cfg.n → Ev.waitRaise r ∈ s.trace)

theorem roundOK_of_fresh (cfg : Cfg) (st : Store) (hf : Fresh st cfg.pfx) (sched : List Lbl) :
    RoundOK cfg (arun cfg (AState.init st) sched) := by
  obtain ⟨h1, h2, h3, h4⟩ := C13_error_reaches_all cfg st hf sched
  exact ⟨C13_commit_after_all_arrive cfg st hf sched _ (List.prefix_refl _),
         fun r => C13_no_early_completion cfg st hf sched _ (List.prefix_refl _) r,
         h1, h2, h3, h4⟩

/-- **Histories.** For every history of attempts in one job — any number of rounds, each with its
own world size, workload, fault plan and (complete or abandoned) schedule, all sharing the store,
*including rounds that write to the same path* — if the barrier prefixes are pairwise distinct (the
per-snapshot id broadcast by rank 0, D7 repair) and none of them is in the store at the start, then
every round satisfies all C13 statements, whatever the earlier rounds did (succeeded, failed at any
rank, or were abandoned half-way). -/
theorem C13_histories (rounds : List Round) (st : Store)
    (hd : rounds.Pairwise (fun a b => a.cfg.pfx ≠ b.cfg.pfx))
    (hf : ∀ rd, rd ∈ rounds → Fresh st rd.cfg.pfx) :
    ∀ p, p ∈ rounds.zip (runHistory st rounds) → RoundOK p.1.cfg p.2 := by
  induction rounds generalizing st with
  | nil => intro p hp; simp [runHistory] at hp
  | cons rd rest ih =>
    intro p hp
    simp only [runHistory, List.zip_cons_cons, List.mem_cons] at hp
    rcases hp with rfl | hp
    · exact roundOK_of_fresh rd.cfg st (hf rd (by simp)) rd.sched
    · rw [List.pairwise_cons] at hd
      refine ih _ hd.2 ?_ p hp
      intro rd' hrd' k
      rw [arun_store_other rd.cfg rd.sched (AState.init st) rd'.cfg.pfx k
            (fun e => hd.1 rd' hrd' e.symm)]
      exact hf rd' (by simp [hrd']) k

set_option maxRecDepth 20000

/-! ## Why the prefixes must differ (the D7 defect): witnesses by `decide`

Two ranks, one payload write each. `fair k` is a round-robin schedule; disabled labels are no-ops. -/

def wCfg (pfx : Nat) (pf : Nat → Nat → Bool) (mf : Bool) : Cfg :=
  { n := 2, pfx := pfx, nw := fun _ => 1, pfail := pf, mfail := mf }

/-- Round-robin over all labels of all ranks, `k` times. -/
def fair (cfg : Cfg) (k : Nat) : List Lbl :=
  (List.replicate k ((List.range cfg.n).flatMap (lblsOf cfg))).flatten

/-- Leader only: its write, `sync_complete`, `wait`, `get key_1`, metadata begin. Rank 1 never runs. -/
def leaderOnly : List Lbl :=
  [⟨0, .wBegin 0⟩, ⟨0, .wEnd 0⟩, ⟨0, .ctl⟩, ⟨0, .ctl⟩, ⟨0, .ctl⟩, ⟨0, .ctl⟩]

def noFault : Nat → Nat → Bool := fun _ _ => false
def rank1Fails : Nat → Nat → Bool := fun r _ => r == 1

/-- **Stale success.** With a reused prefix (what `f"torchsnapshot_{path}"` gave for a second
snapshot to the same path), after one successful round (first triple: committed, rank 1 completed
its I/O and wrote) the leader of the next round begins the metadata write although rank 1 has
neither completed its I/O nor written a byte (second triple): `C13_commit_after_all_arrive` fails. -/
theorem C13_witness_stale_success :
    (runHistory Store.empty [⟨wCfg 0 noFault false, fair (wCfg 0 noFault false) 12⟩,
                             ⟨wCfg 0 noFault false, leaderOnly⟩]).map
      (fun s => (decide (Ev.mBegin ∈ s.trace), decide (Ev.ioComplete 1 ∈ s.trace),
                 decide (Ev.wBegin 1 0 ∈ s.trace)))
      = [(true, true, true), (true, false, false)] := by
  decide

/-- What is observed of a round: [all threads ended, ioComplete 0, ioComplete 1, ioFail 0, ioFail 1,
mFail, mBegin, mEnd, waitOk 0, waitRaise 0, waitOk 1, waitRaise 1]. -/
def observe (cfg : Cfg) (s : AState) : List Bool :=
  [s.allTerminal cfg,
   decide (Ev.ioComplete 0 ∈ s.trace), decide (Ev.ioComplete 1 ∈ s.trace),
   decide (Ev.ioFail 0 ∈ s.trace), decide (Ev.ioFail 1 ∈ s.trace), decide (Ev.mFail ∈ s.trace),
   decide (Ev.mBegin ∈ s.trace), decide (Ev.mEnd ∈ s.trace),
   decide (Ev.waitOk 0 ∈ s.trace), decide (Ev.waitRaise 0 ∈ s.trace),
   decide (Ev.waitOk 1 ∈ s.trace), decide (Ev.waitRaise 1 ∈ s.trace)]

/-- **Stale error.** With a reused prefix, after a round in which rank 1's write failed (both keys
hold an error string), a later *fault-free* round goes wrong although no failure occurs in it
(both ranks complete their I/O; no `ioFail`, no `mFail`):
* if the leader runs first it reads rank 1's stale error: the metadata write is never begun and
  both `wait()`s raise — a failed attempt makes every later one fail;
* under a round-robin schedule rank 1 overwrites its key in time, the leader commits and reports
  success, but rank 1 reads the leader's stale error and its `wait()` raises. -/
theorem C13_witness_stale_error :
    ((runHistory Store.empty [⟨wCfg 0 rank1Fails false, fair (wCfg 0 rank1Fails false) 12⟩,
        ⟨wCfg 0 noFault false, leaderOnly ++ fair (wCfg 0 noFault false) 12⟩]).drop 1).map
      (observe (wCfg 0 noFault false))
      = [[true, true, true, false, false, false, false, false, false, true, false, true]] ∧
    ((runHistory Store.empty [⟨wCfg 0 rank1Fails false, fair (wCfg 0 rank1Fails false) 12⟩,
        ⟨wCfg 0 noFault false, fair (wCfg 0 noFault false) 12⟩]).drop 1).map
      (observe (wCfg 0 noFault false))
      = [[true, true, true, false, false, false, true, true, true, false, false, true]] := by
  decide

/-! ## Non-vacuity: concrete runs satisfying the hypotheses -/

/-- Three ranks, two writes each, distinct prefixes over the same store: both rounds commit and
every rank reports success. -/
example :
    let c1 : Cfg := { n := 3, pfx := 7, nw := fun _ => 2, pfail := noFault, mfail := false }
    let c2 : Cfg := { c1 with pfx := 8 }
    (runHistory Store.empty [⟨c1, fair c1 18⟩, ⟨c2, fair c2 18⟩]).all
      (fun s => s.allTerminal c1 && decide (Ev.waitOk 0 ∈ s.trace) && decide (Ev.waitOk 2 ∈ s.trace)
                && decide (Ev.mEnd ∈ s.trace)) = true := by
  decide

/-- A failing payload write on rank 2 of 3: every rank ends with `waitRaise`, metadata never begun;
the next round (fresh prefix, same store) succeeds. -/
example :
    let c1 : Cfg := { n := 3, pfx := 7, nw := fun _ => 1, pfail := fun r _ => r == 2, mfail := false }
    let c2 : Cfg := { c1 with pfx := 8, pfail := noFault }
    (runHistory Store.empty [⟨c1, fair c1 16⟩, ⟨c2, fair c2 16⟩]).map
      (fun s => (s.allTerminal c1, decide (Ev.waitRaise 0 ∈ s.trace), decide (Ev.waitRaise 1 ∈ s.trace),
                 decide (Ev.mBegin ∈ s.trace), decide (Ev.waitOk 1 ∈ s.trace)))
      = [(true, true, true, false, false), (true, false, false, true, true)] := by
  decide

/-- The leader's metadata write fails: every rank ends with `waitRaise`. -/
example :
    let c : Cfg := { n := 2, pfx := 1, nw := fun _ => 1, pfail := noFault, mfail := true }
    let s := arun c (AState.init Store.empty) (fair c 14)
    s.allTerminal c = true ∧ Ev.mFail ∈ s.trace ∧ Ev.waitRaise 0 ∈ s.trace ∧ Ev.waitRaise 1 ∈ s.trace := by
  decide

example : Fresh Store.empty 7 := fun _ => rfl

end Ts.Commit
