import TsProofs.Properties.C14
import TsProofs.CommitFacts
/-!
# C02 — Metadata is committed last: a crash leaves no snapshot or a complete one

Property theorems only. Model: `TsModel.Commit` — `sstep?` mirrors `Snapshot.take`
(snapshot.py:166-229: payload writes, barrier, rank-0 metadata write, barrier), `astep?` mirrors
`async_take` + `PendingSnapshot._complete_snapshot`. Quantified over every world size, workload
(`cfg.nw`), fault plan, schedule and *cut* (prefix of the linearised history = crash instant).
For the async protocol the barrier keys of the attempt must be absent from the store at its start
(`Fresh`; guaranteed by the per-snapshot id, see C13_histories).

Crash semantics (`payloadAt`, `metaAt`): a write that returned is durable and complete; a write in
flight (or one that raised) leaves the object absent, partial or complete as the adversary
`res : Resolve` decides; an object whose write never began is absent (the path is fresh — the
API's precondition "path must not point to an existing snapshot"). A torn metadata file is a
prefix of the serialized text; that the reader rejects every strict prefix is C14's theorem and
enters here as the hypothesis `hTorn`.
-/
namespace Ts.Commit
open Ts.Barrier

/-- **Metadata is written last.** In every cut of every run, sync and async: if the metadata write
has begun, every payload write of every rank has already returned. -/
theorem C02_commit_last (cfg : Cfg) (sched : List Lbl) (cut : List Ev) :
    (cut <+: (srun cfg SState.init sched).trace →
      Ev.mBegin ∈ cut → ∀ r w, r < cfg.n → w < cfg.nw r → Ev.wEnd r w ∈ cut) ∧
    (∀ st, Fresh st cfg.pfx → cut <+: (arun cfg (AState.init st) sched).trace →
      Ev.mBegin ∈ cut → ∀ r w, r < cfg.n → w < cfg.nw r → Ev.wEnd r w ∈ cut) := by
  constructor
  · intro hc hm r w hr hw
    obtain ⟨sched', rfl⟩ := scut_reachable cfg sched cut hc
    rw [smem_trace] at hm ⊢
    exact s_payload_done (sinv_reach cfg sched') hm r w hr hw
  · intro st hf hc hm r w hr hw
    obtain ⟨sched', rfl⟩ := acut_reachable cfg st sched cut hc
    rw [amem_trace] at hm ⊢
    exact a_payload_done (ainv_reach cfg st hf sched') hm r w hr hw

/-- Crash atomicity from "commit last", for any history with that property. -/
theorem crash_atomic_of_commit_last (cfg : Cfg) (cut : List Ev)
    (hlast : Ev.mBegin ∈ cut → ∀ r w, r < cfg.n → w < cfg.nw r → Ev.wEnd r w ∈ cut)
    (hbe : Ev.mEnd ∈ cut → Ev.mBegin ∈ cut)
    (reader : List Nat → Bool) (text : List Nat)
    (hTorn : ∀ k, k < text.length → reader (text.take k) = false) (res : Resolve) :
    readableAt reader text cut res = false ∨
    (readableAt reader text cut res = true ∧ metaAt text cut res = some text ∧
      ∀ r w, r < cfg.n → w < cfg.nw r → payloadAt cut res r w = .complete) := by
  cases hr : readableAt reader text cut res with
  | false => exact .inl rfl
  | true =>
    refine .inr ⟨rfl, ?_, ?_⟩
    · -- the bytes in storage are the whole text: absent and strict prefixes are unreadable
      unfold readableAt at hr
      unfold metaAt at hr ⊢
      by_cases hE : Ev.mEnd ∈ cut
      · simp [hE]
      · by_cases hB : Ev.mBegin ∈ cut
        · simp only [hE, hB, if_true, if_false] at hr ⊢
          cases hk : res.metaBytes with
          | none => simp [hk] at hr
          | some k =>
            simp only [hk, Option.map_some] at hr ⊢
            by_cases hlt : k < text.length
            · rw [hTorn k hlt] at hr; cases hr
            · rw [List.take_of_length_le (by omega)]
        · simp [hE, hB] at hr
    · have hB : Ev.mBegin ∈ cut := by
        unfold readableAt metaAt at hr
        by_cases hE : Ev.mEnd ∈ cut
        · exact hbe hE
        · by_cases hB : Ev.mBegin ∈ cut
          · exact hB
          · simp [hE, hB] at hr
      intro r w hr' hw
      simp [payloadAt, hlast hB r w hr' hw]

/-- **A crash leaves no snapshot or a complete one.** Kill every process at any instant (any cut of
any run, sync or async) and let every in-flight write leave its object absent, partial or complete:
either `.snapshot_metadata` cannot be read (opening the snapshot raises), or it can — and then it is
exactly the serialized metadata and every payload object of every rank is completely written. -/
theorem C02_crash_atomic (cfg : Cfg) (sched : List Lbl) (cut : List Ev)
    (reader : List Nat → Bool) (text : List Nat)
    (hTorn : ∀ k, k < text.length → reader (text.take k) = false) (res : Resolve) :
    (cut <+: (srun cfg SState.init sched).trace →
      readableAt reader text cut res = false ∨
      (readableAt reader text cut res = true ∧ metaAt text cut res = some text ∧
        ∀ r w, r < cfg.n → w < cfg.nw r → payloadAt cut res r w = .complete)) ∧
    (∀ st, Fresh st cfg.pfx → cut <+: (arun cfg (AState.init st) sched).trace →
      readableAt reader text cut res = false ∨
      (readableAt reader text cut res = true ∧ metaAt text cut res = some text ∧
        ∀ r w, r < cfg.n → w < cfg.nw r → payloadAt cut res r w = .complete)) := by
  constructor
  · intro hc
    refine crash_atomic_of_commit_last cfg cut ((C02_commit_last cfg sched cut).1 hc) ?_
      reader text hTorn res
    obtain ⟨sched', rfl⟩ := scut_reachable cfg sched cut hc
    intro he; rw [smem_trace] at he ⊢
    exact s_mEnd_mBegin (sinv_reach cfg sched') he
  · intro st hf hc
    refine crash_atomic_of_commit_last cfg cut ((C02_commit_last cfg sched cut).2 st hf hc) ?_
      reader text hTorn res
    obtain ⟨sched', rfl⟩ := acut_reachable cfg st sched cut hc
    intro he; rw [amem_trace] at he ⊢
    exact a_mEnd_mBegin (ainv_reach cfg st hf sched') he

/-- **Returning normally implies committed.** In every cut of every run: if `take` has returned on
some rank (sync), or a rank's background thread ended successfully so that `wait()` returns
(async), then the metadata write has returned before — the snapshot is committed and durable. -/
theorem C02_return_implies_committed (cfg : Cfg) (sched : List Lbl) (cut : List Ev) (r : Nat) :
    (cut <+: (srun cfg SState.init sched).trace → Ev.returnOk r ∈ cut → Ev.mEnd ∈ cut) ∧
    (∀ st, Fresh st cfg.pfx → cut <+: (arun cfg (AState.init st) sched).trace →
      Ev.waitOk r ∈ cut → Ev.mEnd ∈ cut) := by
  constructor
  · intro hc hw
    obtain ⟨sched', rfl⟩ := scut_reachable cfg sched cut hc
    rw [smem_trace] at hw ⊢
    have h := sinv_reach cfg sched'
    exact s_returnOk_mEnd h r (s_returnOk_lt h r hw) hw
  · intro st hf hc hw
    obtain ⟨sched', rfl⟩ := acut_reachable cfg st sched cut hc
    rw [amem_trace] at hw ⊢
    exact a_waitOk_mEnd (ainv_reach cfg st hf sched') r hw

/-! ## Non-vacuity -/

set_option maxRecDepth 20000

def exCfg : Cfg := { n := 3, pfx := 5, nw := fun r => r + 1, pfail := fun _ _ => false, mfail := false }

def exFair (cfg : Cfg) (k : Nat) : List Lbl :=
  (List.replicate k ((List.range cfg.n).flatMap (lblsOf cfg))).flatten

/-- A 3-rank sync run (1, 2, 3 payload writes) commits and returns everywhere; cutting it right
after `mBegin`, with the metadata torn after 2 of 4 bytes and a reader that accepts only the whole
text, leaves an unreadable snapshot; cutting after `mEnd` leaves a readable, complete one. -/
example :
    let s := srun exCfg SState.init (exFair exCfg 12)
    let text := [1, 2, 3, 4]
    let reader : List Nat → Bool := fun b => b == text
    let res : Resolve := ⟨fun _ _ => .torn, some 2⟩
    Ev.returnOk 0 ∈ s.trace ∧ Ev.returnOk 2 ∈ s.trace ∧ Ev.wEnd 2 2 ∈ s.trace ∧
    readableAt reader text (s.trace.takeWhile (· != Ev.mEnd)) res = false ∧
    readableAt reader text s.trace res = true ∧ payloadAt s.trace res 2 2 = .complete := by
  decide

/-- The same workload through the async protocol. -/
example :
    let s := arun exCfg (AState.init Store.empty) (exFair exCfg 18)
    s.allTerminal exCfg = true ∧ Ev.waitOk 1 ∈ s.trace ∧ Ev.wEnd 2 2 ∈ s.trace ∧ Ev.mEnd ∈ s.trace := by
  decide

example : ∀ k, k < [1, 2, 3, 4].length → (fun b => b == [1, 2, 3, 4]) (List.take k [1, 2, 3, 4]) = false := by
  decide

/-- The metadata reader of C14 as the `reader` parameter of the crash model: a cut store's metadata object
is readable iff the JSON reader accepts it. -/
def jsonReadable (bytes : List Nat) : Bool :=
  match Ts.Manifest.readMetadata bytes with
  | .ok _ => true
  | .error _ => false

/-- **Crash atomicity with the real metadata format.** `C02_crash_atomic` instantiated with the metadata
printer / reader of C14: the "every torn prefix is rejected" premise is discharged by
`C14_strict_prefix_rejected` (every strict prefix of the serialized metadata makes the reader run out of
input), for every well-formed metadata object. So at every crash instant of every sync or async run, with
in-flight writes resolved adversarially, either the snapshot cannot be opened, or its metadata is the complete
document and every payload object of every rank is completely written. -/
theorem C02_crash_atomic_json (cfg : Cfg) (sched : List Lbl) (cut : List Ev)
    (md : Ts.Manifest.SnapshotMetadata) (hwf : md.wf = true) (res : Resolve) :
    (cut <+: (srun cfg SState.init sched).trace →
      readableAt jsonReadable (Ts.Manifest.printMetadata md) cut res = false ∨
      (readableAt jsonReadable (Ts.Manifest.printMetadata md) cut res = true ∧
        metaAt (Ts.Manifest.printMetadata md) cut res = some (Ts.Manifest.printMetadata md) ∧
        ∀ r w, r < cfg.n → w < cfg.nw r → payloadAt cut res r w = .complete)) ∧
    (∀ st, Fresh st cfg.pfx → cut <+: (arun cfg (AState.init st) sched).trace →
      readableAt jsonReadable (Ts.Manifest.printMetadata md) cut res = false ∨
      (readableAt jsonReadable (Ts.Manifest.printMetadata md) cut res = true ∧
        metaAt (Ts.Manifest.printMetadata md) cut res = some (Ts.Manifest.printMetadata md) ∧
        ∀ r w, r < cfg.n → w < cfg.nw r → payloadAt cut res r w = .complete)) := by
  apply C02_crash_atomic cfg sched cut jsonReadable (Ts.Manifest.printMetadata md) _ res
  intro k hk
  have hsplit : (Ts.Manifest.printMetadata md).take k ++ (Ts.Manifest.printMetadata md).drop k
      = Ts.Manifest.printMetadata md := List.take_append_drop k _
  have hne : (Ts.Manifest.printMetadata md).drop k ≠ [] := by
    intro h
    have := congrArg List.length h
    simp at this
    omega
  simp [jsonReadable, Ts.Manifest.C14_strict_prefix_rejected md hwf _ _ hne hsplit]

end Ts.Commit
