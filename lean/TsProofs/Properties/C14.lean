import TsProofs.Json
import TsProofs.Primitive
import TsProofs.Entry
import TsGen.Tables
/-!
# C14 — Snapshot metadata serialization is lossless for every manifest

Property theorems only. Models: `TsModel.Json` (json.dumps' ASCII string encoder and indent=2 printer,
json.loads' string scanner and reader), `TsModel.Primitive` (`PrimitiveEntry._serialize/get_value`,
base64, `struct.pack('d')`), `TsModel.Entry` (the nine entry classes, `asdict`, the `from_yaml_obj`
methods and the `type` dispatch of `SnapshotMetadata.from_yaml`). Helper lemmas: `TsProofs.Json`,
`TsProofs.Primitive`, `TsProofs.Entry`.

Full statement of the string clause (kept visible; it is FALSE for the code as it is, see the witness):
  `∀ s, validStr s → unescape (escape s) = .ok s`.
The code joins a `\uD8xx` escape followed by a `\uDCxx` escape into one character, so a `str` that holds
those two code points *as two characters* cannot be told apart from the one non-BMP character (D17).
The theorems below therefore carry the exact excluding hypothesis `noAdjSurr` (inside `goodStr` /
`SnapshotMetadata.wf`) and the failure is proved on a concrete input.
-/
namespace Ts.Manifest
open Ts.Json Ts.Primitive

/-- For every string of code points (`< 0x110000`: controls, U+2028/2029, quotes, backslashes, lone
surrogates in any position, non-BMP characters, …) that has no high surrogate immediately followed by a
low surrogate, `json.loads`' string scanner applied to `json.dumps`' ASCII encoding returns exactly the
string. -/
theorem C14_string_roundtrip (s : Str) (hv : validStr s = true) (hn : noAdjSurr s = true) :
    unescape (escape s) = .ok s :=
  unescape_escape s (by simp [goodStr, hv, hn])

/-- …and, more generally, the scanner started right after an opening quote reads the encoded string up to
its closing quote and leaves whatever follows untouched. -/
theorem C14_string_scan (s : Str) (rest : List Nat) (hv : validStr s = true) (hn : noAdjSurr s = true) :
    scanStr (escape s ++ 0x22 :: rest) = .ok (s, rest) :=
  scanStr_quote s rest (by simp [goodStr, hv, hn])

/-- D17 (known finding): the two-code-point string `U+D83D U+DE00` is a valid Python `str`, is excluded
by `noAdjSurr` only, and is read back as the single character `U+1F600`. -/
theorem C14_witness_adjacent_surrogates :
    validStr [0xD83D, 0xDE00] = true ∧ noAdjSurr [0xD83D, 0xDE00] = false ∧
    escape [0xD83D, 0xDE00] = escape [0x1F600] ∧
    unescape (escape [0xD83D, 0xDE00]) = .ok [0x1F600] := by decide

/-- `base64.b64decode(base64.b64encode(b)) == b` for every byte string. -/
theorem C14_b64_roundtrip (b : Bytes) (h : ∀ x ∈ b, x < 256) : b64decode (b64encode b) = .ok b :=
  b64decode_encode b h

/-- `PrimitiveEntry.from_object(x).get_value() == x` (bit for bit) for every `int` of any magnitude,
every `str`, both `bool`s, every `bytes` and every one of the 2^64 float bit patterns (NaN payloads,
±0, ±inf, subnormals), whatever `str(float)` put into `readable`. -/
theorem C14_primitive_roundtrip (repr : Nat → Str) (v : PrimVal) (h : v.wf = true) :
    getValue (fromObject repr v) = .ok v := by
  cases v with
  | int i => simp [fromObject, PrimVal.ty, serialize, getValue, pyInt_intDigits]
  | str s => rfl
  | bool b => cases b <;> rfl
  | bytes b =>
    have hb : ∀ x ∈ b, x < 256 := by simpa [PrimVal.wf] using h
    simp [fromObject, PrimVal.ty, serialize, getValue, b64decode_encode b hb]
  | float bits =>
    have hb : bits < 2 ^ 64 := by simpa [PrimVal.wf] using h
    simp [fromObject, PrimVal.ty, serialize, getValue, b64decode_encode _ (leBytes_lt bits 8), packD,
      unpackD, leBytes_length, ofLE_leBytes bits 8 (by omega)]

/-- The serialized form of every non-`str` primitive is plain ASCII, hence a `goodStr`: only a `str`
primitive can put the D17 class into a document. -/
theorem C14_primitive_serialized_good (repr : Nat → Str) (v : PrimVal) (h : v.wf = true)
    (hs : ∀ s, v = .str s → goodStr s = true) : goodStr (fromObject repr v).serialized = true := by
  have ascii_good : ∀ l : List Nat, (∀ c ∈ l, c < 128) → goodStr l = true := by
    intro l hl
    induction l with
    | nil => rfl
    | cons c l ih =>
      have hc := hl c (List.mem_cons_self)
      have ih' := ih (fun x hx => hl x (List.mem_cons_of_mem _ hx))
      simp only [goodStr, Bool.and_eq_true] at ih' ⊢
      refine ⟨by simp [validStr] at ih' ⊢; exact ⟨by omega, ih'.1⟩, ?_⟩
      cases l with
      | nil => rfl
      | cons d t =>
        have : isHigh c = false := by simp [isHigh]; omega
        simp [noAdjSurr, this, ih'.2]
  cases v with
  | str s => exact hs s rfl
  | int i =>
    apply ascii_good
    intro c hc
    cases i with
    | ofNat n =>
      have := (isDigit_iff c).mp (natDigits_all n c hc); omega
    | negSucc n =>
      rcases List.mem_cons.mp hc with rfl | hc
      · decide
      · have := (isDigit_iff c).mp (natDigits_all (n + 1) c hc); omega
  | bool b =>
    cases b
    · show goodStr sFalse = true; decide
    · show goodStr sTrue = true; decide
  | bytes b =>
    exact ascii_good _ (b64encode_ascii b (by simpa [PrimVal.wf] using h))
  | float bits =>
    exact ascii_good _ (b64encode_ascii _ (leBytes_lt bits 8))

/-- For every entry of each of the nine kinds (Tensor, ShardedTensor, ChunkedTensor, DTensor, object,
list, dict, OrderedDict, primitive), `from_yaml`'s `type` dispatch and `from_yaml_obj` applied to
`asdict(entry)` return the entry, equal in every field except the informational `readable`, which the
reader discards by design. -/
theorem C14_entry_roundtrip (e : Entry) : entryOfValue e.toValue = .ok (some e.eraseReadable) :=
  entryOfValue_toValue e

/-- `readable` is the only thing that is lost, and it never feeds `get_value`. -/
theorem C14_entry_value_kept (p : PrimEntry) : getValue { p with readable := none } = getValue p := rfl

/-- `from_yaml(to_yaml(md)) == md` (modulo `readable`) for every metadata object: any version string,
any world size, any manifest — any number of entries of any mix of kinds under any distinct paths, with
dict keys that are `str`, `int` of any magnitude or `bool` — provided every string it carries is
`goodStr` (code points without an adjacent high+low surrogate pair; `SnapshotMetadata.wf`). -/
theorem C14_metadata_roundtrip (md : SnapshotMetadata) (h : md.wf = true) :
    readMetadata (printMetadata md) = .ok md.eraseReadable := by
  simp only [readMetadata, printMetadata, parse_print md.toValue (goodV_metadata md h),
    metadataOfValue_toValue]

/-- Every strict prefix of `to_yaml(md)` — every truncation point, for every metadata object as above —
makes the reader run out of input (`json.loads`: the text is structurally unterminated: an open `{`, `[`,
string, escape or literal); in particular no truncated document is ever accepted. -/
theorem C14_strict_prefix_rejected (md : SnapshotMetadata) (h : md.wf = true) (p t : List Nat)
    (ht : t ≠ []) (e : p ++ t = printMetadata md) : readMetadata p = .error (.json .eof) := by
  have hp : parse p = .error .eof :=
    parse_prefix md.toValue (goodV_metadata md h) (fun i hi => by simp [SnapshotMetadata.toValue] at hi) p ⟨t, ht, e⟩
  simp [readMetadata, hp]

/-- The model's `json.loads` is a total function of the text alone: the internal recursion budget
(`2·len+2`) that makes its definition structurally recursive is never exhausted, on any input whatsoever
(well-formed or not). -/
theorem C14_reader_budget_never_exhausted (text : List Nat) : Ts.Json.parse text ≠ .error .fuel :=
  parse_ne_fuel text

/-- The five primitive type names the model dispatches on are exactly `PrimitiveType`'s values in
manifest.py (re-extracted from the source on every run into `TsGen.Tables`). -/
theorem C14_primitive_types_table :
    Ts.Gen.primitiveTypes.map (fun p => p.2.toList.map Char.toNat) =
      [PrimType.int, .str, .bool, .bytes, .float].map primTypeName := by decide

/-! ## Non-vacuity: concrete instances satisfying the hypotheses -/

/-- controls, quote, backslash, DEL, U+2028, a lone low then a lone high surrogate (in this order they are
not a pair), a non-BMP character, the last code point. -/
example : validStr [0, 0x1f, 0x22, 0x5c, 0x7f, 0x2028, 0xDE00, 0xD83D, 0x41, 0x1F600, 0x10FFFF] = true ∧
    noAdjSurr [0, 0x1f, 0x22, 0x5c, 0x7f, 0x2028, 0xDE00, 0xD83D, 0x41, 0x1F600, 0x10FFFF] = true := by decide

example : unescape (escape [0, 0x1f, 0x22, 0x5c, 0x7f, 0x2028, 0xDE00, 0xD83D, 0x41, 0x1F600, 0x10FFFF])
    = .ok [0, 0x1f, 0x22, 0x5c, 0x7f, 0x2028, 0xDE00, 0xD83D, 0x41, 0x1F600, 0x10FFFF] := by decide

example : (PrimVal.float 0x7FF8000000000001).wf = true ∧ (PrimVal.bytes [0, 255, 254]).wf = true := by decide

/-- One entry of every kind, awkward paths and keys, a lone surrogate in a primitive. -/
def exampleMetadata : SnapshotMetadata :=
  let t : TensorEntry := { location := [0x30, 0x2f, 0x1F600], serializer := [0x62], dtype := [0x66], shape := [2, -3],
                           replicated := true, byteRange := some [0, 24] }
  { version := [0x30, 0x2e, 0x31], worldSize := 2 ^ 70,
    manifest := [
      ([0x30, 0x2f, 0x0a, 0x22], .tensor t),
      ([0x30, 0x2f, 0xD800], .sharded [{ offsets := [0], sizes := [6], tensor := t }]),
      ([0x31], .chunked [0x66] [6] [{ offsets := [0], sizes := [6], tensor := t }] false),
      ([0x32], .dtensor [] (.list [.list [.int 0, .int 1], .int 2]) [[0], [-1]]),
      ([0x33], .object [0x6c] [0x73] [0x6f] false),
      ([0x34], .list),
      ([0x35], .dict [.str [0x1F600], .int (-(2 ^ 80)), .bool true, .int 1]),
      ([0x36], .odict []),
      ([], .prim { ty := .str, serialized := [0xDE00, 0xD83D], replicated := false, readable := none }),
      ([0x37], .prim (fromObject (fun _ => [0x6e, 0x61, 0x6e]) (.float 0x7FF8000000000001))) ] }

example : exampleMetadata.wf = true := by decide

/-- the printed example (2389 characters by `#eval`) has strict prefixes: the prefix theorem is not vacuous -/
example : ∃ p t, t ≠ [] ∧ p ++ t = printMetadata exampleMetadata :=
  ⟨[], printMetadata exampleMetadata,
    by simp [printMetadata, Ts.Json.print, SnapshotMetadata.toValue, printV], rfl⟩

end Ts.Manifest
