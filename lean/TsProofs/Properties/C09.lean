import TsModel.Stage
import TsModel.Sched
/-!
# C09 — async_take captures the state at call time and equals a synchronous take

Model: `TsModel.Stage`. `mem` is application memory when the request is staged (all requests are
staged before `async_take` returns: the staging loop of `execute_write_reqs` exits only when
`ready_for_staging` and `staging_tasks` are empty — see C10/C11's pipeline model); `mem'` is
application memory at the arbitrary later instant when the buffer is handed to storage.
-/
namespace Ts.Stage

/-- After staging for an async snapshot no buffer refers to application memory. -/
theorem C09_no_alias_after_return (codec : Bytes → Bytes) (l : Leaf) (mem : Mem) :
    ∃ b, stage codec true l mem = .fresh b := by
  cases l with | mk a s c =>
  cases s <;> cases c <;> simp [stage, stageWith, shouldCopy]

/-- Whatever the application does to its state after `async_take` returned (`mem'` arbitrary), the
bytes written for every leaf are its serialisation at staging time. -/
theorem C09_mutation_invisible (codec : Bytes → Bytes) (l : Leaf) (mem mem' : Mem) :
    resolve mem' (stage codec true l mem) = content codec l mem := by
  cases l with | mk a s c =>
  cases s <;> cases c <;> simp [stage, stageWith, shouldCopy, resolve, content]

/-- The same for a slab of any number of batched members. -/
theorem C09_slab_mutation_invisible (codec : Bytes → Bytes) (ms : List Leaf) (mem mem' : Mem) :
    resolve mem' (stageSlab codec true ms mem) = (ms.map (fun l => content codec l mem)).flatten := by
  simp only [stageSlab, resolve]
  congr 1
  apply List.map_congr_left
  intro l _
  exact C09_mutation_invisible codec l mem mem

/-- A synchronous take (memory unchanged while it runs) writes the same bytes as an async one. -/
theorem C09_equiv_sync (codec : Bytes → Bytes) (l : Leaf) (mem : Mem) :
    resolve mem (stage codec false l mem) = resolve mem (stage codec true l mem) := by
  cases l with | mk a s c =>
  cases s <;> cases c <;> simp [stage, stageWith, shouldCopy, resolve]

/-- Pre-fix (D2) witness: with the always-false copy predicate a contiguous raw tensor is aliased, and a
later mutation changes what is written. -/
theorem C09_witness_alias_prefix :
    let l : Leaf := ⟨0, .bufferProtocol, true⟩
    let mem : Mem := fun _ => [1, 2, 3, 4]
    let mem' : Mem := fun _ => [9, 9, 9, 9]
    resolve mem' (stageWith shouldCopyPreFix id true l mem) ≠ content id l mem := by
  decide

/-! ### Hand-over point: why "memory at staging time" is "memory when async_take returned"

`execute_write_reqs` returns its `PendingIOWork` exactly when `ready_for_staging` and `staging_tasks` are empty
(scheduler.py:299, the `while` condition). In the pipeline model (`Ts.Sched`, the subject of C10/C11) that is the
predicate below; from then on no request is ever staged again, so every buffer the background thread writes was
staged before `async_take` returned. -/

/-- `len(ready_for_staging) + len(staging_tasks) == 0` -/
def handedOver (s : Ts.Sched.WState) : Prop :=
  ∀ sl ∈ s.slots, sl.stage ≠ .rfs ∧ sl.stage ≠ .stg

/-- After the hand-over no staging event is enabled (nothing is re-staged or staged late). -/
theorem C09_no_staging_after_handover (cap : Nat) (s : Ts.Sched.WState) (h : handedOver s) (r : Nat)
    (k : Ts.Sched.WKind) (hk : k = .stageStart ∨ k = .stageDone ∨ k = .stageFail) :
    ∀ s', Ts.Sched.wstep cap s ⟨k, r⟩ ≠ .ok s' := by
  intro s' hs
  unfold Ts.Sched.wstep at hs
  split at hs
  · cases hs
  · split at hs
    · cases hs
    · rename_i sl hget
      have hm : sl ∈ s.slots := List.mem_of_getElem? hget
      obtain ⟨h1, h2⟩ := h sl hm
      have hne : sl.stage ≠ k.src := by
        rcases hk with rfl | rfl | rfl <;> simp [Ts.Sched.WKind.src] <;> assumption
      simp [hne] at hs

/-- …and the hand-over condition is stable: every later scheduler action keeps it. -/
theorem C09_handover_stable (cap : Nat) (s s' : Ts.Sched.WState) (e : Ts.Sched.WEvent)
    (h : handedOver s) (hs : Ts.Sched.wstep cap s e = .ok s') : handedOver s' := by
  unfold Ts.Sched.wstep at hs
  split at hs
  · cases hs
  · split at hs
    · cases hs
    · rename_i sl hget
      have hm : sl ∈ s.slots := List.mem_of_getElem? hget
      obtain ⟨ha, hb⟩ := h sl hm
      split at hs
      · cases hs
      · rename_i hsrc
        split at hs
        · cases hs
        · split at hs
          · -- failure event: slots unchanged
            simp only [Except.ok.injEq] at hs
            subst hs
            exact h
          · rename_i d hd
            simp only [Except.ok.injEq] at hs
            subst hs
            intro x hx
            rcases List.mem_or_eq_of_mem_set hx with hx | rfl
            · exact h x hx
            · have hsrc' : sl.stage = e.kind.src := by simpa using hsrc
              cases hkind : e.kind <;> rw [hkind] at hsrc' hd <;>
                simp only [Ts.Sched.WKind.src, Ts.Sched.WKind.dst, Option.some.injEq] at hsrc' hd
              all_goals first
                | exact absurd hsrc' ha
                | exact absurd hsrc' hb
                | (subst hd; simp)
                | cases hd

/-! Non-vacuity: the theorem's conclusion is non-trivial (staged bytes really are the old ones). -/
example : resolve (fun _ => [9]) (stage id true ⟨0, .bufferProtocol, true⟩ (fun _ => [1, 2])) = [1, 2] := by decide
example : resolve (fun _ => [9]) (stage id false ⟨0, .bufferProtocol, true⟩ (fun _ => [1, 2])) = [9] := by decide

end Ts.Stage
