import TsModel.Stage
import TsModel.Sched
/-!
# C09 — async_take captures the state at call time and equals a synchronous take

Model: `TsModel.Stage`. `mem` is application memory when the request is staged (all requests are
staged before `async_take` returns: the staging loop of `execute_write_reqs` exits only when
`ready_for_staging` and `staging_tasks` are empty — see C10/C11's pipeline model); `mem'` is
application memory at the arbitrary later instant when the buffer is handed to storage.
-/
namespace Ts.Stage

/-- After staging for an async snapshot no buffer refers to application memory. -/
theorem C09_no_alias_after_return (codec : Bytes → Bytes) (l : Leaf) (mem : Mem) :
    ∃ b, stage codec true l mem = .fresh b := by
  cases l with | mk a s c =>
  cases s <;> cases c <;> simp [stage, stageWith, shouldCopy]

/-- Whatever the application does to its state after `async_take` returned (`mem'` arbitrary), the
bytes written for every leaf are its serialisation at staging time. -/
theorem C09_mutation_invisible (codec : Bytes → Bytes) (l : Leaf) (mem mem' : Mem) :
    resolve mem' (stage codec true l mem) = content codec l mem := by
  cases l with | mk a s c =>
  cases s <;> cases c <;> simp [stage, stageWith, shouldCopy, resolve, content]

/-- The same for a slab of any number of batched members. -/
theorem C09_slab_mutation_invisible (codec : Bytes → Bytes) (ms : List Leaf) (mem mem' : Mem) :
    resolve mem' (stageSlab codec true ms mem) = (ms.map (fun l => content codec l mem)).flatten := by
  simp only [stageSlab, resolve]
  congr 1
  apply List.map_congr_left
  intro l _
  exact C09_mutation_invisible codec l mem mem

/-- A synchronous take (memory unchanged while it runs) writes the same bytes as an async one. -/
theorem C09_equiv_sync (codec : Bytes → Bytes) (l : Leaf) (mem : Mem) :
    resolve mem (stage codec false l mem) = resolve mem (stage codec true l mem) := by
  cases l with | mk a s c =>
  cases s <;> cases c <;> simp [stage, stageWith, shouldCopy, resolve]

/-- Pre-fix (D2) witness: with the always-false copy predicate a contiguous raw tensor is aliased, and a
later mutation changes what is written. -/
theorem C09_witness_alias_prefix :
    let l : Leaf := ⟨0, .bufferProtocol, true⟩
    let mem : Mem := fun _ => [1, 2, 3, 4]
    let mem' : Mem := fun _ => [9, 9, 9, 9]
    resolve mem' (stageWith shouldCopyPreFix id true l mem) ≠ content id l mem := by
  decide

/-! ### Hand-over point: why "memory at staging time" is "memory when async_take returned"

`execute_write_reqs` returns its `PendingIOWork` exactly when `ready_for_staging` and `staging_tasks` are empty
(scheduler.py:299, the `while` condition). In the pipeline model (`Ts.Sched`, the subject of C10/C11) that is the
predicate below; from then on no request is ever staged again, so every buffer the background thread writes was
staged before `async_take` returned. -/

/-- `len(ready_for_staging) + len(staging_tasks) == 0` -/
def handedOver (s : Ts.Sched.WState) : Prop :=
  ∀ sl ∈ s.slots, sl.stage ≠ .rfs ∧ sl.stage ≠ .stg

/-- After the hand-over no staging event is enabled (nothing is re-staged or staged late). -/
theorem C09_no_staging_after_handover (cap : Nat) (s : Ts.Sched.WState) (h : handedOver s) (r : Nat)
    (k : Ts.Sched.WKind) (hk : k = .stageStart ∨ k = .stageDone ∨ k = .stageFail) :
    ∀ s', Ts.Sched.wstep cap s ⟨k, r⟩ ≠ .ok s' := by
  intro s' hs
  unfold Ts.Sched.wstep at hs
  split at hs
  · cases hs
  · split at hs
    · cases hs
    · rename_i sl hget
      have hm : sl ∈ s.slots := List.mem_of_getElem? hget
      obtain ⟨h1, h2⟩ := h sl hm
      have hne : sl.stage ≠ k.src := by
        rcases hk with rfl | rfl | rfl <;> simp [Ts.Sched.WKind.src] <;> assumption
      simp [hne] at hs

/-- …and the hand-over condition is stable: every later scheduler action keeps it. -/
theorem C09_handover_stable (cap : Nat) (s s' : Ts.Sched.WState) (e : Ts.Sched.WEvent)
    (h : handedOver s) (hs : Ts.Sched.wstep cap s e = .ok s') : handedOver s' := by
  unfold Ts.Sched.wstep at hs
  split at hs
  · cases hs
  · split at hs
    · cases hs
    · rename_i sl hget
      have hm : sl ∈ s.slots := List.mem_of_getElem? hget
      obtain ⟨ha, hb⟩ := h sl hm
      split at hs
      · cases hs
      · rename_i hsrc
        split at hs
        · cases hs
        · split at hs
          · -- failure event: slots unchanged
            simp only [Except.ok.injEq] at hs
            subst hs
            exact h
          · rename_i d hd
            simp only [Except.ok.injEq] at hs
            subst hs
            intro x hx
            rcases List.mem_or_eq_of_mem_set hx with hx | rfl
            · exact h x hx
            · have hsrc' : sl.stage = e.kind.src := by simpa using hsrc
              cases hkind : e.kind <;> rw [hkind] at hsrc' hd <;>
                simp only [Ts.Sched.WKind.src, Ts.Sched.WKind.dst, Option.some.injEq] at hsrc' hd
              all_goals first
                | exact absurd hsrc' ha
                | exact absurd hsrc' hb
                | (subst hd; simp)
                | cases hd

/-! Non-vacuity: the theorem's conclusion is non-trivial (staged bytes really are the old ones). -/
example : resolve (fun _ => [9]) (stage id true ⟨0, .bufferProtocol, true⟩ (fun _ => [1, 2])) = [1, 2] := by decide
example : resolve (fun _ => [9]) (stage id false ⟨0, .bufferProtocol, true⟩ (fun _ => [1, 2])) = [9] := by decide

end Ts.Stage

/-! ### Histories: overlapping pending snapshots -/
namespace Ts.Stage

/-- invariant: every staged buffer of every pending snapshot is a private copy of the leaf's content at the time
`async_take` returned -/
def PendOk (codec : Bytes → Bytes) (p : Pending) : Prop :=
  p.bufs = p.leaves.map (fun l => Buf.fresh (content codec l p.memAtCall))

def WrittenOk (codec : Bytes → Bytes) (s : HState) : Prop :=
  ∀ w ∈ s.written, ∃ p l, s.pend[w.1]? = some p ∧ p.leaves[w.2.1]? = some l ∧ w.2.2 = content codec l p.memAtCall

theorem stage_async_fresh (codec : Bytes → Bytes) (l : Leaf) (mem : Mem) :
    stage codec true l mem = .fresh (content codec l mem) := by
  cases l with | mk a s c =>
  cases s <;> cases c <;> simp [stage, stageWith, shouldCopy, content]

theorem hstep_inv (codec : Bytes → Bytes) (s : HState) (op : Op)
    (hp : ∀ p ∈ s.pend, PendOk codec p) (hw : WrittenOk codec s) :
    (∀ p ∈ (hstepWith (stage codec true) s op).pend, PendOk codec p) ∧ WrittenOk codec (hstepWith (stage codec true) s op) := by
  cases op with
  | mutate f => exact ⟨hp, hw⟩
  | asyncTake ls =>
    constructor
    · intro p hpm
      simp only [hstepWith, List.mem_append, List.mem_singleton] at hpm
      rcases hpm with h | rfl
      · exact hp p h
      · simp only [PendOk]
        apply List.map_congr_left
        intro l _
        exact stage_async_fresh codec l s.mem
    · intro w hwm
      obtain ⟨p, l, h1, h2, h3⟩ := hw w hwm
      refine ⟨p, l, ?_, h2, h3⟩
      simp only [hstepWith]
      rw [List.getElem?_append_left]
      · exact h1
      · exact (List.getElem?_eq_some_iff.mp h1).1
  | write k i =>
    cases hk : s.pend[k]? with
    | none =>
      have : hstepWith (stage codec true) s (.write k i) = s := by simp [hstepWith, hk]
      rw [this]; exact ⟨hp, hw⟩
    | some p =>
      cases hb : p.bufs[i]? with
      | none =>
        have : hstepWith (stage codec true) s (.write k i) = s := by simp [hstepWith, hk, hb]
        rw [this]; exact ⟨hp, hw⟩
      | some b =>
        have : hstepWith (stage codec true) s (.write k i)
            = { s with written := s.written ++ [(k, i, resolve s.mem b)] } := by simp [hstepWith, hk, hb]
        rw [this]
        refine ⟨hp, ?_⟩
        intro w hwm
        simp only [List.mem_append, List.mem_singleton] at hwm
        rcases hwm with h | rfl
        · exact hw w h
        · have hpo := hp p (List.mem_of_getElem? hk)
          simp only [PendOk] at hpo
          rw [hpo, List.getElem?_map] at hb
          cases hl : p.leaves[i]? with
          | none => simp [hl] at hb
          | some l =>
            simp only [hl, Option.map_some, Option.some.injEq] at hb
            exact ⟨p, l, hk, hl, by rw [← hb]; rfl⟩

/-- **Every history.** Whatever the application does — any number of `async_take` calls whose background I/O
overlaps, any in-place mutations between and after them, background writes of the pending snapshots in any order and
at any time — every buffer that reaches storage for snapshot `k` holds the serialisation of its leaf as it was when
that snapshot's `async_take` returned. -/
theorem C09_history_mutation_invisible (codec : Bytes → Bytes) (mem0 : Mem) (ops : List Op) :
    WrittenOk codec (hrun codec (HState.init mem0) ops) := by
  have key : ∀ (ops : List Op) (s : HState), (∀ p ∈ s.pend, PendOk codec p) → WrittenOk codec s →
      WrittenOk codec (hrunWith (stage codec true) s ops) := by
    intro ops
    induction ops with
    | nil => intro s _ hw; exact hw
    | cons op ops ih =>
      intro s hp hw
      obtain ⟨hp', hw'⟩ := hstep_inv codec s op hp hw
      exact ih _ hp' hw'
  exact key ops _ (by simp [HState.init]) (by intro w hw; simp [HState.init] at hw)

/-- Witness that the history model can exhibit the failure: with a staging buffer recycled per tensor across snapshots
(`stagePooled`), take #1 — mutate — take #2 — write of #1 stores the *second* state under the first snapshot. -/
theorem C09_witness_pooled_staging :
    let l : Leaf := ⟨0, .bufferProtocol, true⟩
    let s := hrunWith stagePooled (HState.init (fun _ => [1, 1])) [.asyncTake [l], .mutate (fun _ _ => [2, 2]), .asyncTake [l], .write 0 0]
    s.written = [(0, 0, [2, 2])] ∧ content id l (fun _ => [1, 1]) = [1, 1] := by
  decide

/-- non-vacuity: two overlapping snapshots of one tensor, mutated in between; both writes happen after the second
mutation; each snapshot stores the state at its own call -/
example :
    let l : Leaf := ⟨0, .bufferProtocol, true⟩
    (hrun id (HState.init (fun _ => [1, 1]))
      [.asyncTake [l], .mutate (fun _ _ => [2, 2]), .asyncTake [l], .mutate (fun _ _ => [3, 3]), .write 1 0, .write 0 0]).written
      = [(1, 0, [2, 2]), (0, 0, [1, 1])] := by
  decide

end Ts.Stage
