import TsProofs.Storage
/-!
# C20 — Filesystem plugin and memoryview stream preserve bytes exactly

Property theorems only. Model: `TsModel.Storage` (mirrors `storage_plugins/fs.py`,
`memoryview_stream.py`); `BytesIO` is the independent specification.
-/
namespace Ts.Storage

/-- A completed write followed by a whole-object read returns exactly the written bytes,
for every store, path and byte string (including the empty one). -/
theorem C20_read_after_write (fs : FS) (p : String) (b : Bytes) :
    (fs.write p b).read p none = .ok b := by
  simp [FS.read, lookup_write_same]

/-- A ranged read `[a, c)` with `a ≤ c ≤ len` returns exactly `b[a:c]`. -/
theorem C20_ranged_read (fs : FS) (p : String) (b : Bytes) (a c : Nat)
    (hac : a ≤ c) (hc : c ≤ b.length) :
    (fs.write p b).read p (some (a, c)) = .ok (slice b a c) := by
  have : ¬ ((c : Int) - (a : Int) < 0) := by omega
  simp only [FS.read, lookup_write_same, seekRead, this, ite_false, slice]
  congr 2
  omega

/-- …and `b[a:c]` has exactly `c - a` bytes, the `i`-th being byte `a + i` of the object. -/
theorem C20_ranged_read_bytes (b : Bytes) (a c : Nat) (hac : a ≤ c) (hc : c ≤ b.length) :
    (slice b a c).length = c - a ∧ ∀ i, i < c - a → (slice b a c)[i]? = b[a + i]? := by
  constructor
  · simp [slice]; omega
  · intro i hi
    simp [slice, List.getElem?_take, hi]

/-- Reading a path that was never written raises. -/
theorem C20_missing_raises (p : String) (r : Option (Nat × Nat)) :
    FS.empty.read p r = .error .fileNotFound := by
  simp [FS.read, FS.empty, FS.lookup]

/-- A write never disturbs another path. -/
theorem C20_other_path_untouched (fs : FS) (p q : String) (b : Bytes) (r) (h : q ≠ p) :
    (fs.write p b).read q r = fs.read q r := by
  simp [FS.read, lookup_write_other fs p q b h]

/-- Any number of concurrent writes to pairwise-distinct paths, completing in *any* order
(`ws'` is any permutation of `ws`), leave every written path with exactly its bytes and every
other path untouched — so the final store is independent of the completion order. -/
theorem C20_concurrent_distinct_paths (fs : FS) (ws ws' : List (String × Bytes))
    (hperm : ws'.Perm ws) (hd : ws.Pairwise (fun a b => a.1 ≠ b.1)) (q : String)
    (r : Option (Nat × Nat)) :
    (writeAll fs ws').read q r = (writeAll fs ws).read q r := by
  have hd' : ws'.Pairwise (fun a b => a.1 ≠ b.1) :=
    hperm.symm.pairwise hd (fun h => fun e => h e.symm)
  have hl : (writeAll fs ws').lookup q = (writeAll fs ws).lookup q := by
    by_cases hq : ∃ w ∈ ws, w.1 = q
    · obtain ⟨w, hw, rfl⟩ := hq
      rw [lookup_writeAll_mem ws fs w hw hd,
          lookup_writeAll_mem ws' fs w (hperm.symm.subset hw) hd']
    · have h1 : ∀ w ∈ ws, w.1 ≠ q := fun w hw e => hq ⟨w, hw, e⟩
      have h2 : ∀ w ∈ ws', w.1 ≠ q := fun w hw => h1 w (hperm.subset hw)
      rw [lookup_writeAll_notin ws fs q h1, lookup_writeAll_notin ws' fs q h2]
  simp [FS.read, hl]


/-- Number of bytes a `read(size)` returns at position `pos` of a `len`-byte stream. -/
def readCount (len pos : Nat) (size : Option Int) : Nat :=
  match size with
  | none => len - pos
  | some k => if k < 0 then len - pos else min k.toNat (len - pos)

theorem bytesio_read_eq (s : BytesIO) (size : Option Int) :
    s.read size = (⟨s.buf, s.pos + readCount s.buf.length s.pos size⟩,
                   (s.buf.drop s.pos).take (readCount s.buf.length s.pos size)) := by
  cases s with | mk sb sp =>
  cases size with
  | none =>
    have h : (if (sb.length : Int) - (sp : Int) < 0 then 0 else ((sb.length : Int) - (sp : Int)).toNat)
        = sb.length - sp := by split <;> omega
    simp only [BytesIO.read, slice, readCount, h]
    simp
  | some k =>
    have h : (if (if k < 0 ∨ k > (sb.length : Int) - (sp : Int) then (sb.length : Int) - (sp : Int) else k) < 0
              then 0 else
              (if k < 0 ∨ k > (sb.length : Int) - (sp : Int) then (sb.length : Int) - (sp : Int) else k).toNat)
        = (if k < 0 then sb.length - sp else min k.toNat (sb.length - sp)) := by
      split <;> split <;> (try split) <;> omega
    simp only [BytesIO.read, slice, readCount, h]
    simp

theorem mv_read_eq (s : MvStream) (size : Option Int) :
    s.read size = (⟨s.mv, s.pos + readCount s.mv.length s.pos size⟩,
                   (s.mv.drop s.pos).take (readCount s.mv.length s.pos size)) := by
  cases s with | mk mv mp =>
  by_cases hle : mv.length ≤ mp
  · have h0 : readCount mv.length mp size = 0 := by
      cases size with
      | none => simp only [readCount]; omega
      | some k => simp only [readCount]; split <;> omega
    simp [MvStream.read, hle, h0]
  · cases size with
    | none =>
      have h : min mv.length (mp + (mv.length : Int).toNat) = mp + (mv.length - mp) := by omega
      simp [MvStream.read, hle, readCount, h]; omega
    | some k =>
      by_cases hk : k < 0
      · have h : min mv.length (mp + (mv.length : Int).toNat) = mp + (mv.length - mp) := by omega
        simp [MvStream.read, hle, readCount, hk, h]; omega
      · have h : min mv.length (mp + k.toNat) = mp + min k.toNat (mv.length - mp) := by omega
        simp [MvStream.read, hle, readCount, hk, h]

/-- Simulation relation between the stream and BytesIO: equal data and position. -/
def StreamRel (m : MvStream) (s : BytesIO) : Prop := m.mv = s.buf ∧ m.pos = s.pos

theorem step_refines (m : MvStream) (s : BytesIO) (h : StreamRel m s) (c : Call) :
    (m.step c).2 = (s.step c).2 ∧ StreamRel (m.step c).1 (s.step c).1 := by
  obtain ⟨hb, hp⟩ := h
  cases m with | mk mv mp =>
  cases s with | mk sb sp =>
  simp only at hb hp
  subst hb hp
  cases c with
  | tell => simp [MvStream.step, BytesIO.step, MvStream.tell, BytesIO.tell, StreamRel]
  | seek p w =>
    simp only [MvStream.step, BytesIO.step, MvStream.seek, BytesIO.seek]
    by_cases h0 : w = 0
    · subst h0; by_cases hp : p < 0 <;> simp [hp, StreamRel]
    · by_cases h1 : w = 1
      · subst h1
        simp only [h0, ite_false, ite_true, true_or, StreamRel]
        have : (max 0 ((mp : Int) + p)).toNat = (if (mp : Int) + p < 0 then 0 else ((mp:Int) + p).toNat) := by
          split <;> omega
        simp [this]
      · by_cases h2 : w = 2
        · subst h2
          simp only [h0, h1, ite_false, ite_true, or_true, false_or, StreamRel]
          have : (max 0 ((mv.length : Int) + p)).toNat = (if (mv.length : Int) + p < 0 then 0 else ((mv.length:Int) + p).toNat) := by
            split <;> omega
          simp [this]
        · simp [h0, h1, h2, StreamRel]
  | read n =>
    -- both machines return `(drop pos).take N` and advance by `N`, for the same `N`
    have hB := bytesio_read_eq ⟨mv, mp⟩ n
    have hM := mv_read_eq ⟨mv, mp⟩ n
    simp only [MvStream.step, BytesIO.step, hB, hM, StreamRel]
    simp

/-- For every byte string and every finite sequence of `read(n)` (any integer or `None`),
`seek(pos, whence)` (negative, past-the-end, bad `whence` included) and `tell`, the outputs and
errors of `MemoryviewStream` equal those of `BytesIO`. -/
theorem C20_stream_refines_bytesio (b : Bytes) (calls : List Call) :
    MvStream.run (MvStream.init b) calls = BytesIO.run (BytesIO.init b) calls := by
  have key : ∀ (calls : List Call) (m : MvStream) (s : BytesIO), StreamRel m s →
      MvStream.run m calls = BytesIO.run s calls := by
    intro calls
    induction calls with
    | nil => intros; rfl
    | cons c cs ih =>
      intro m s h
      obtain ⟨ho, hr⟩ := step_refines m s h c
      simp only [MvStream.run, BytesIO.run]
      rw [ho, ih _ _ hr]
  exact key calls _ _ ⟨rfl, rfl⟩

/-! Non-vacuity: concrete instances of the hypotheses. -/
example : (2 : Nat) ≤ 5 ∧ 5 ≤ ([1,2,3,4,5,6] : Bytes).length := by decide
example : ([("a/b", [1]), ("a/c", [2,3]), ("d", [])] : List (String × Bytes)).Pairwise
    (fun a b => a.1 ≠ b.1) := by decide
example : MvStream.run (MvStream.init [1,2,3,4,5])
    [.read (some 2), .seek (-1) 1, .tell, .read none, .seek 9 0, .read (some 1), .seek (-1) 0, .seek 0 7]
  = [.bytes [1,2], .pos 1, .pos 1, .bytes [2,3,4,5], .pos 9, .bytes [], .err .valueError, .err .valueError] := by
  decide

end Ts.Storage

/-! ## Short writes -/
namespace Ts.Storage

theorem bufferedWrite_ok (os : Os) : ∀ (fuel : Nat) (file data out : Bytes),
    bufferedWrite os fuel file data = .ok out → out = file ++ data
  | _, file, [], out, h => by simp [bufferedWrite] at h; simp [h]
  | 0, file, _ :: _, out, h => by simp [bufferedWrite] at h
  | fuel + 1, file, d :: ds, out, h => by
    unfold bufferedWrite at h
    split at h
    · cases h
    · rename_i n _
      have := bufferedWrite_ok os fuel _ _ out h
      rw [this, List.append_assoc, List.take_append_drop]

/-- **A write that returns has stored the whole buffer.** For every operating-system behaviour — any pattern of short
writes and failures — if `FSStoragePlugin.write` returns normally the file holds exactly the buffer; a short write is
never mistaken for a completed one. -/
theorem C20_write_returns_complete (os : Os) (data out : Bytes)
    (h : pluginWrite os data = .ok out) : out = data := by
  have := bufferedWrite_ok os _ [] data out h
  simpa using this

theorem bufferedWrite_progress (os : Os) (hl : os.Lawful) (hnf : ∀ off k, os off k ≠ .failed) :
    ∀ (fuel : Nat) (file data : Bytes), data.length < fuel → ∃ out, bufferedWrite os fuel file data = .ok out
  | _, file, [], _ => ⟨file, by simp [bufferedWrite]⟩
  | 0, _, _ :: _, h => by simp at h
  | fuel + 1, file, d :: ds, h => by
    unfold bufferedWrite
    cases hos : os file.length (d :: ds).length with
    | failed => exact absurd hos (hnf _ _)
    | accepted n =>
      simp only
      have hn := hl _ _ _ (by simp) hos
      apply bufferedWrite_progress os hl hnf fuel
      simp only [List.length_drop, List.length_cons] at h hn ⊢
      omega

/-- and when the OS never fails, the write does return (so the theorem above is not vacuous), however short the
individual writes are -/
theorem C20_write_succeeds_despite_short_writes (os : Os) (hl : os.Lawful) (hnf : ∀ off k, os off k ≠ .failed)
    (data : Bytes) : pluginWrite os data = .ok data := by
  obtain ⟨out, h⟩ := bufferedWrite_progress os hl hnf (data.length + 1) [] data (by omega)
  have := C20_write_returns_complete os data out h
  unfold pluginWrite
  rw [h, this]

theorem osLimit_lawful (limit : Nat) : (osLimit limit).Lawful := by
  intro off k n hk h
  unfold osLimit at h
  split at h
  · cases h
  · simp only [OsWrite.accepted.injEq] at h
    omega

theorem limit_fits (limit : Nat) : ∀ (fuel : Nat) (file data : Bytes),
    file.length + data.length ≤ limit → data.length < fuel →
    bufferedWrite (osLimit limit) fuel file data = .ok (file ++ data)
  | _, file, [], _, _ => by simp [bufferedWrite]
  | 0, _, _ :: _, _, h => by simp at h
  | fuel + 1, file, d :: ds, hfit, _ => by
    unfold bufferedWrite
    simp only [List.length_cons] at hfit
    have hoff : ¬ file.length ≥ limit := by omega
    have hmin : min (d :: ds).length (limit - file.length) = (d :: ds).length := by
      simp only [List.length_cons]; omega
    simp only [osLimit, hoff, if_false, hmin, List.take_length, List.drop_length]
    cases fuel with
    | zero => simp [bufferedWrite]
    | succ f => simp [bufferedWrite]

theorem limit_exceeded (limit : Nat) : ∀ (fuel : Nat) (file data : Bytes),
    limit < file.length + data.length → file.length ≤ limit → data ≠ [] → data.length < fuel →
    ∃ part, bufferedWrite (osLimit limit) fuel file data = .error (.osError, part)
  | _, _, [], _, _, hne, _ => absurd rfl hne
  | 0, _, _ :: _, _, _, _, h => by simp at h
  | fuel + 1, file, d :: ds, hex, hle, _, hf => by
    unfold bufferedWrite
    by_cases hoff : file.length ≥ limit
    · exact ⟨file, by simp [osLimit, hoff]⟩
    · simp only [List.length_cons] at hex hf
      have hmin : min (d :: ds).length (limit - file.length) = limit - file.length := by
        simp only [List.length_cons]; omega
      simp only [osLimit, hoff, if_false, hmin]
      apply limit_exceeded limit fuel
      · simp only [List.length_append, List.length_take, List.length_drop, List.length_cons]; omega
      · simp only [List.length_append, List.length_take, List.length_cons]; omega
      · intro h
        have := congrArg List.length h
        simp only [List.length_drop, List.length_cons, List.length_nil] at this
        omega
      · simp only [List.length_drop, List.length_cons]; omega

/-- under a file-size limit (`RLIMIT_FSIZE`, a quota, a full disk): data that fits is written completely; data that
does not makes the write raise — it never returns — and leaves a partial file behind -/
theorem C20_write_under_size_limit (limit : Nat) (data : Bytes) :
    (data.length ≤ limit → pluginWrite (osLimit limit) data = .ok data) ∧
    (limit < data.length → ∃ part, pluginWrite (osLimit limit) data = .error (.osError, part)) := by
  constructor
  · intro hle
    have := limit_fits limit (data.length + 1) [] data (by simpa using hle) (by omega)
    simpa [pluginWrite] using this
  · intro hlt
    have hne : data ≠ [] := by intro h; rw [h] at hlt; simp at hlt
    exact limit_exceeded limit (data.length + 1) [] data (by simpa using hlt) (by simp) hne (by omega)

/-- witness: the same data through an unbuffered raw file whose return value is ignored is reported as written although
only the first `limit` bytes are in the file -/
theorem C20_witness_unchecked_short_write :
    rawWriteUnchecked (osLimit 4) [1, 2, 3, 4, 5, 6] = .ok [1, 2, 3, 4] ∧
    (∃ part, pluginWrite (osLimit 4) [1, 2, 3, 4, 5, 6] = .error (.osError, part)) := by
  refine ⟨rfl, ⟨[1, 2, 3, 4], rfl⟩⟩

end Ts.Storage
