import TsProofs.Chunk
import TsProofs.Slab
import TsProofs.BatchRead
import TsProofs.Properties.C08
/-!
# C16 — Chunking, subdivision, batching and tiling never change logical content

Property theorems only. Models: `TsModel.Chunk` (`torch.chunk`, `chunk_tensor`, chunked `prepare_write`,
`prepare_read_tiled`), `TsModel.Slab` (`batch_write_requests`, `BatchedBufferStager`), `TsModel.BatchRead`
(`batch_read_requests`, `BatchedBufferConsumer`). Shard subdivision is proved in C08 and re-exported
there as `C16_subdivide_partition`.

`Consec a rs b` (TsProofs/Chunk.lean) says: the half-open ranges `rs`, in list order, start at `a`, each
starts where the previous one ends, none is inverted, and the last ends at `b` — an exact partition of
`[a, b)` into consecutive intervals. `Consec.pairwise`, `Consec.sum`, `Consec.cover_unique` spell out
disjointness, Σ lengths = b − a, and "every position lies in exactly one range".
-/
namespace Ts.C16
open Ts.Chunk Ts.Storage Ts.Slab Ts.BatchRead

/-- `torch.chunk(t, n, dim)` for every dim length `d` (including 0) and every `n ≥ 1`: it returns at least
one and at most `n` chunk sizes, they sum to `d`, and unless `d = 0` none of them is empty. -/
theorem C16_torch_chunk_partition (d n : Nat) (hn : 1 ≤ n) :
    ∃ sizes, torchChunk d n = .ok sizes ∧ sizes.sum = d ∧ sizes ≠ [] ∧ sizes.length ≤ n ∧
      (0 < d → ∀ s ∈ sizes, 0 < s) := by
  obtain ⟨sizes, h1, h2, h3, h4, h5⟩ := torchChunk_spec d n hn
  exact ⟨sizes, h1, h2, h3, h4, fun hd s hs => (h5 hd s hs).1⟩

/-- `chunk_tensor` for every shape (0-d included, handled as `[1]`), element size and threshold ≥ 1 —
below one element, between, or above the whole tensor — on a tensor with at least one byte:
it succeeds; the chunks are `toChunk` of dim-0 pieces `(offset, size)`; the pieces are consecutive from 0,
never inverted and end exactly at the dim-0 length (so they are pairwise disjoint, their sizes sum to the
dim-0 length, and every row lies in exactly one chunk); no chunk is empty; every chunk spans all other
dims at offset 0; and a chunk's byte size is `size · rowBytes`. -/
theorem C16_chunk_partition (shape : List Nat) (es maxBytes : Nat) (hthr : 1 ≤ maxBytes)
    (hpos : 0 < numel shape * es) :
    ∃ ps : List (Nat × Nat),
      chunkTensor shape es maxBytes = .ok (ps.map (toChunk (normShape shape).2)) ∧
      ps ≠ [] ∧
      Consec 0 (ps.map (fun p => (p.1, p.1 + p.2))) (normShape shape).1 ∧
      (ps.map (·.2)).sum = (normShape shape).1 ∧
      (ps.map (fun p => (p.1, p.1 + p.2))).Pairwise (fun p q => p.2 ≤ q.1) ∧
      (∀ x, x < (normShape shape).1 →
        ((ps.map (fun p => (p.1, p.1 + p.2))).filter (fun r => decide (r.1 ≤ x ∧ x < r.2))).length = 1) ∧
      ∀ p ∈ ps, 0 < p.2 ∧
        (toChunk (normShape shape).2 p).offsets = p.1 :: List.replicate (normShape shape).2.length 0 ∧
        (toChunk (normShape shape).2 p).sizes = p.2 :: (normShape shape).2 ∧
        (toChunk (normShape shape).2 p).nbytes es = p.2 * rowBytes shape es := by
  obtain ⟨ps, he, hne, hc, hall⟩ := pieces_spec shape es maxBytes hthr hpos
  refine ⟨ps, by simp [chunkTensor, he], hne, hc, ?_, hc.pairwise, ?_, ?_⟩
  · have := hc.sum
    simp only [List.map_map] at this
    have e : ((fun r : Nat × Nat => r.2 - r.1) ∘ fun p : Nat × Nat => (p.1, p.1 + p.2)) = (·.2) := by
      funext p; simp
    rw [e] at this
    simpa using this
  · intro x hx
    exact hc.cover_unique x (Nat.zero_le _) hx
  · intro p hp
    refine ⟨(hall p hp).1, rfl, rfl, ?_⟩
    simp [Chunk.nbytes, numel_toChunk, rowBytes, Nat.mul_assoc]

/-- The bytes exported for the chunks (row-major dim-0 slices of the tensor's bytes `b`) have exactly the
recorded byte sizes and, concatenated in chunk order, are exactly the tensor's bytes. -/
theorem C16_chunk_bytes_concat (shape : List Nat) (es maxBytes : Nat) (b : Bytes) (hthr : 1 ≤ maxBytes)
    (hpos : 0 < numel shape * es) (hb : b.length = numel shape * es) :
    ∃ ps : List (Nat × Nat), pieces shape es maxBytes = .ok ps ∧
      (ps.map (pieceBytes shape es b)).flatten = b ∧
      ∀ p ∈ ps, (pieceBytes shape es b p).length = (toChunk (normShape shape).2 p).nbytes es := by
  obtain ⟨ps, he, _, hc, _⟩ := pieces_spec shape es maxBytes hthr hpos
  have hsc := consec_scale (rowBytes shape es) ps 0 _ hc
  have htot : (normShape shape).1 * rowBytes shape es = b.length := by
    rw [hb, ← numel_normShape shape]; simp [rowBytes, Nat.mul_assoc]
  rw [Nat.zero_mul, htot] at hsc
  refine ⟨ps, he, ?_, ?_⟩
  · have := Consec.flatten_slices b hsc
    rw [List.map_map, slice_all] at this
    exact this
  · intro p hp
    have hm := Consec.mem hsc (p.1 * rowBytes shape es, (p.1 + p.2) * rowBytes shape es)
      (List.mem_map_of_mem (f := fun p : Nat × Nat => (p.1 * rowBytes shape es, (p.1 + p.2) * rowBytes shape es)) hp)
    simp only [pieceBytes, pieceRange]
    rw [slice_length _ _ _ hm.2.2]
    simp only [Chunk.nbytes, numel_toChunk, rowBytes, Nat.add_mul, Nat.mul_assoc]
    omega

/-- No chunk exceeds the threshold by a whole dim-0 row: `chunk bytes < maxBytes + rowBytes`
(so a chunk is at most the threshold whenever the threshold is a multiple of the row size). -/
theorem C16_chunk_size_bound (shape : List Nat) (es maxBytes : Nat) (hthr : 1 ≤ maxBytes)
    (hpos : 0 < numel shape * es) :
    ∃ ps : List (Nat × Nat), pieces shape es maxBytes = .ok ps ∧
      ∀ p ∈ ps, (toChunk (normShape shape).2 p).nbytes es < maxBytes + rowBytes shape es := by
  obtain ⟨ps, he, _, _, hall⟩ := pieces_spec shape es maxBytes hthr hpos
  refine ⟨ps, he, fun p hp => ?_⟩
  have hn := numel_normShape shape
  have hrow : 0 < rowBytes shape es := by
    rcases Nat.eq_zero_or_pos (rowBytes shape es) with h | h
    · simp only [rowBytes] at h
      rw [← hn, Nat.mul_assoc, h] at hpos; simp at hpos
    · exact h
  have hd : 0 < (normShape shape).1 := by
    rcases Nat.eq_zero_or_pos (normShape shape).1 with h | h
    · rw [← hn, h] at hpos; simp at hpos
    · exact h
  have hb := split_bound (normShape shape).1 (rowBytes shape es) maxBytes hthr hd hrow
  have hle := (hall p hp).2
  have e : (normShape shape).1 * numel (normShape shape).2 * es = (normShape shape).1 * rowBytes shape es := by
    simp [rowBytes, Nat.mul_assoc]
  rw [e] at hle
  have : (toChunk (normShape shape).2 p).nbytes es = p.2 * rowBytes shape es := by
    simp [Chunk.nbytes, numel_toChunk, rowBytes, Nat.mul_assoc]
  rw [this]
  exact Nat.lt_of_le_of_lt (Nat.mul_le_mul_right _ hle) hb

/-- `io_preparer.prepare_write` for a plain tensor never fails for a chunk knob ≥ 1, whatever the shape
(zero-element tensors are never sent to `chunk_tensor`, which would raise on them), and when it chunks
the result is `chunk_tensor`'s. -/
theorem C16_plan_tensor_write_total (shape : List Nat) (es maxBytes : Nat) (hthr : 1 ≤ maxBytes) :
    (numel shape * es ≤ maxBytes ∧ planTensorWrite shape es maxBytes = .ok none) ∨
    (maxBytes < numel shape * es ∧ ∃ cs, chunkTensor shape es maxBytes = .ok cs ∧ cs ≠ [] ∧
      planTensorWrite shape es maxBytes = .ok (some cs)) := by
  by_cases h : numel shape * es > maxBytes
  · right
    obtain ⟨ps, he, hne, _⟩ := C16_chunk_partition shape es maxBytes hthr (by omega)
    refine ⟨h, _, he, by simpa using hne, ?_⟩
    simp [planTensorWrite, h, he, Except.map]
  · left
    exact ⟨by omega, by simp [planTensorWrite, h]⟩

/-- `prepare_read_tiled` (after D4) for every entry shape (0-d, zero-length dims), element size, buffer
limit ≥ 1 (below one element or above the tensor), base byte range, flattened or not (`flat = false` needs a
tensor with at least one dim): it succeeds with at least one tile; the tile byte ranges are consecutive
from the entry's base offset, not inverted, and end exactly at `base + size` (exact cover of
`[base, base+size)`, pairwise disjoint); each tile's range length is its element count times the element size;
and the tiles' element counts sum to the tensor's. -/
theorem C16_tile_partition (shape : List Nat) (flat : Bool) (es limit : Nat) (base : Option (Nat × Nat))
    (hlim : 1 ≤ limit) (hflat : flat = true ∨ shape ≠ []) :
    ∃ ts : List Tile, tile shape flat es limit base = .ok ts ∧ ts ≠ [] ∧
      Consec (baseOf base) (ts.map (fun t => (t.lo, t.hi)))
        ((baseOf base) + es * numel shape) ∧
      (ts.map (fun t => numel t.shape)).sum = numel shape ∧
      (∀ t ∈ ts, t.hi = t.lo + numel t.shape * es) ∧
      (ts.map (fun t => (t.lo, t.hi))).Pairwise (fun p q => p.2 ≤ q.1) := by
  have hn : 0 < max (ceilDiv (es * numel shape) limit) 1 := by omega
  generalize hb : baseOf base = b0
  have key : ∀ (rest : List Nat) (d : Nat), d * numel rest = numel shape →
      ∃ sizes : List Nat, torchChunk d (max (ceilDiv (es * numel shape) limit) 1) = .ok sizes ∧
        tilesFrom rest es b0 0 sizes ≠ [] ∧
        Consec b0 ((tilesFrom rest es b0 0 sizes).map (fun t => (t.lo, t.hi))) (b0 + es * numel shape) ∧
        ((tilesFrom rest es b0 0 sizes).map (fun t => numel t.shape)).sum = numel shape ∧
        (∀ t ∈ tilesFrom rest es b0 0 sizes, t.hi = t.lo + numel t.shape * es) := by
    intro rest d hd
    obtain ⟨sizes, he, hsum, hne, _, _⟩ := torchChunk_spec d _ hn
    obtain ⟨h1, h2, h3, h4⟩ := tilesFrom_spec rest es b0 sizes 0
    refine ⟨sizes, he, ?_, ?_, ?_, fun t ht => (h3 t ht).1⟩
    · intro h
      have := congrArg List.length h
      rw [h4] at this
      cases sizes with
      | nil => exact hne rfl
      | cons _ _ => simp at this
    · rw [hsum, hd, Nat.add_zero, Nat.mul_comm (numel shape) es] at h1; exact h1
    · rw [h2, hsum, hd]
  cases flat with
  | true =>
    obtain ⟨sizes, he, h2, h3, h4, h5⟩ := key [] (numel shape) (by simp [numel])
    refine ⟨_, ?_, h2, h3, h4, h5, h3.pairwise⟩
    simp only [tile, hb]
    rw [if_neg (by omega)]
    simp [he]
  | false =>
    cases shape with
    | nil => simp at hflat
    | cons d rest =>
      obtain ⟨sizes, he, h2, h3, h4, h5⟩ := key rest d (by simp [numel])
      refine ⟨_, ?_, h2, h3, h4, h5, h3.pairwise⟩
      simp only [tile, hb]
      rw [if_neg (by omega)]
      simp [he]

/-- Reading the tiles' byte ranges from the stored object `f` and concatenating the results in tile order
gives exactly the entry's stored bytes `f[base : base+size]`. -/
theorem C16_tile_bytes_concat (shape : List Nat) (flat : Bool) (es limit : Nat) (base : Option (Nat × Nat))
    (f : Bytes) (hlim : 1 ≤ limit) (hflat : flat = true ∨ shape ≠ []) :
    ∃ ts : List Tile, tile shape flat es limit base = .ok ts ∧
      (ts.map (fun t => slice f t.lo t.hi)).flatten =
        slice f (baseOf base)
          ((baseOf base) + es * numel shape) := by
  obtain ⟨ts, he, _, hc, _⟩ := C16_tile_partition shape flat es limit base hlim hflat
  refine ⟨ts, he, ?_⟩
  have := Consec.flatten_slices f hc
  rw [List.map_map] at this
  exact this

/-- The packing loop of `batch_write_requests`, for every request list (any order, any sizes including 0),
and every threshold ≥ 1. With `pl = place thr reqs 0 0` the per-request placements:
* one placement per request; a request passes through (`none`) exactly when it is not batchable or its size
  is ≥ the threshold; a placed request's range has exactly the tensor's byte size;
* request `i` is a member of slab `j` with range `r` exactly when its placement is `(j, r)` — so every
  batchable request below the threshold is relocated exactly once, into one slab, and nothing else is;
* within every slab the member ranges, in order, are consecutive from 0 (hence pairwise disjoint and not
  inverted), the slab size is their end = the sum of their lengths, and it stays below the threshold. -/
theorem C16_slab_ranges {α : Type} (reqs : List (WReq α)) (thr : Nat) (hthr : 1 ≤ thr) :
    (place thr reqs 0 0).length = reqs.length ∧
    (∀ e ∈ reqs.zip (place thr reqs 0 0),
      (e.2 = none ↔ (batchable e.1 = false ∨ thr ≤ e.1.size)) ∧
      ∀ p, e.2 = some p → p.hi = p.lo + e.1.size ∧ p.slab ≤ lastSlab (place thr reqs 0 0)) ∧
    (∀ j r i, (r, i) ∈ slabMembers (place thr reqs 0 0).zipIdx j ↔
      (place thr reqs 0 0)[i]? = some (some ⟨j, r.1, r.2⟩)) ∧
    ∀ j, ∃ size, Consec 0 ((slabMembers (place thr reqs 0 0).zipIdx j).map (·.1)) size ∧ size < thr ∧
      ((slabMembers (place thr reqs 0 0).zipIdx j).map (fun m => m.1.2 - m.1.1)).sum = size ∧
      ((slabMembers (place thr reqs 0 0).zipIdx j).map (·.1)).Pairwise (fun p q => p.2 ≤ q.1) := by
  refine ⟨place_length thr reqs 0 0, ?_, ?_, ?_⟩
  · intro e he
    have h := place_classify thr reqs 0 0 e he
    refine ⟨h.1, fun p hp => ⟨(h.2 p hp).1, ?_⟩⟩
    have : e.2 ∈ place thr reqs 0 0 := (List.of_mem_zip (a := e.1) (b := e.2) he).2
    exact le_lastSlab _ p (hp ▸ this)
  · intro j r i
    simp only [slabMembers, List.mem_filterMap]
    constructor
    · rintro ⟨⟨o, i'⟩, hmem, hf⟩
      have hg := List.mem_zipIdx_iff_getElem?.mp hmem
      cases o with
      | none => simp at hf
      | some p =>
        by_cases hs : p.slab = j
        · simp only [hs, ↓reduceIte, Option.some.injEq, Prod.mk.injEq] at hf
          obtain ⟨hr, hi⟩ := hf
          subst hi
          simp only at hg
          rw [hg, ← hr, ← hs]
        · simp [hs] at hf
    · intro h
      exact ⟨(some ⟨j, r.1, r.2⟩, i), List.mem_zipIdx_iff_getElem?.mpr h, by simp⟩
  · intro j
    have h := place_ranges (α := α) thr hthr reqs 0 0 j
    rw [slabMembers_ranges]
    have hc : ∃ e, Consec 0 (rangesOf (place thr reqs 0 0) j) e ∧ e < thr := by
      rcases Nat.eq_zero_or_pos j with h0 | h0
      · obtain ⟨e, he, hlt⟩ := h.2.1 h0
        exact ⟨e, he, hlt hthr⟩
      · exact h.2.2 h0
    obtain ⟨e, he, hlt⟩ := hc
    refine ⟨e, he, hlt, ?_, he.pairwise⟩
    have hs := he.sum
    have hm := slabMembers_ranges (place thr reqs 0 0) 0 j
    rw [← hm, List.map_map] at hs
    exact hs

/-- `Slab.build` / `BatchedBufferStager.__init__` inside `batch_write_requests`: for every request list and
threshold ≥ 1 the contiguity check never fires; exactly the non-empty slabs become write requests, in
creation order; each records `dict(zip(byte_ranges, stagers))` of its members and a size equal to the end of
its consecutive member ranges. -/
theorem C16_slab_build_ok {α : Type} (reqs : List (WReq α)) (thr : Nat) (hthr : 1 ≤ thr) (ks : List Nat) :
    ∃ slabs, buildSlabs (place thr reqs 0 0).zipIdx ks = .ok slabs ∧
      slabs.map (·.slab) = ks.filter (fun k => !(slabMembers (place thr reqs 0 0).zipIdx k).isEmpty) ∧
      ∀ s ∈ slabs, s.members = dictOfList (slabMembers (place thr reqs 0 0).zipIdx s.slab) ∧
        Consec 0 ((slabMembers (place thr reqs 0 0).zipIdx s.slab).map (·.1)) s.size := by
  apply buildSlabs_ok
  intro j
  obtain ⟨e, he, _⟩ := (C16_slab_ranges reqs thr hthr).2.2.2 j
  exact ⟨e, he⟩

/-- Entry relocation by `batch_write_requests`, for a well-formed plan — request paths pairwise distinct,
entry locations pairwise distinct, every batchable request below the threshold has its tensor entry (directly,
or as a chunk / shard) — any request order, any threshold ≥ 1. The call succeeds (no `RuntimeError`, no
`AssertionError`); it returns the untouched pass-through requests followed by one write request per
non-empty slab; the entries keep their structure and each tensor entry is rewritten by `relocSlot`:
* the entry at the path of a placed request records exactly that request's slab and byte range;
* the entry at the path of a passed-through request, and every entry no request writes, is unchanged. -/
theorem C16_slab_relocation {α : Type} [BEq α] [LawfulBEq α] (entries : List (Entry α))
    (reqs : List (WReq α)) (thr : Nat) (hthr : 1 ≤ thr)
    (hpaths : (reqs.map (·.path)).Nodup) (hlocs : ((slots entries).map (·.loc)).Nodup)
    (hcover : ∀ r ∈ reqs, batchable r = true → r.size < thr → r.path ∈ (slots entries).map (·.loc)) :
    ∃ slabs,
      buildSlabs (place thr reqs 0 0).zipIdx (List.range (lastSlab (place thr reqs 0 0) + 1)) = .ok slabs ∧
      batchWrite entries reqs thr = .ok
        (mapEntries (fun _ t => relocSlot (placedList reqs (place thr reqs 0 0)) t) 0 entries,
         (reqs.zipIdx.zip (place thr reqs 0 0)).filterMap
            (fun e => match e.2 with | none => some (OutReq.pass e.1.2 e.1.1) | some _ => none)
          ++ slabs.map OutReq.slab) ∧
      (∀ e ∈ reqs.zip (place thr reqs 0 0), ∀ t ∈ slots entries, t.loc = e.1.path →
        relocSlot (placedList reqs (place thr reqs 0 0)) t =
          match e.2 with
          | some p => ⟨.slab p.slab, some (p.lo, p.hi)⟩
          | none => ⟨.orig t.loc, t.range⟩) ∧
      (∀ t ∈ slots entries, t.loc ∉ reqs.map (·.path) →
        relocSlot (placedList reqs (place thr reqs 0 0)) t = ⟨.orig t.loc, t.range⟩) := by
  generalize hpl : place thr reqs 0 0 = pl
  have hlen : reqs.length ≤ pl.length := by rw [← hpl, place_length]; exact Nat.le_refl _
  obtain ⟨slabs, hslabs, _, _⟩ := C16_slab_build_ok reqs thr hthr (List.range (lastSlab pl + 1))
  rw [hpl] at hslabs
  have hzpw := zip_paths_pairwise reqs pl hlen hpaths
  have hLpw := placedList_pairwise reqs pl hlen hpaths
  have hLmem : ∀ x ∈ placedList reqs pl, ∃ e ∈ reqs.zip pl, e.2 = some x.2 ∧ e.1.path = x.1 := by
    intro x hx
    simp only [placedList, List.mem_filterMap] at hx
    obtain ⟨e, he, hf⟩ := hx
    cases ho : e.2 with
    | none => simp [ho] at hf
    | some p =>
      simp only [ho, Option.map_some, Option.some.injEq] at hf
      subst hf
      exact ⟨e, he, ho, rfl⟩
  -- every relocation record finds its entry object
  have hfound : ∀ x ∈ placedList reqs pl, ∃ i,
      dictGet (dictOfList ((slots entries).zipIdx.map (fun e => (e.1.loc, e.2)))) x.1 = some i := by
    intro x hx
    obtain ⟨e, he, ho, hp⟩ := hLmem x hx
    have hcl := place_classify thr reqs 0 0 e (hpl ▸ he)
    have hnn : ¬ (e.2 = none) := by simp [ho]
    have := (not_congr hcl.1).mp hnn
    simp only [not_or] at this
    have hin := hcover e.1 (List.of_mem_zip (a := e.1) (b := e.2) he).1 (by simpa using this.1) (by omega)
    obtain ⟨t, ht, hloc⟩ := List.mem_map.mp hin
    obtain ⟨i, hi⟩ := List.mem_iff_getElem?.mp ht
    have hz : (t, i) ∈ (slots entries).zipIdx := List.mem_zipIdx_iff_getElem?.mpr hi
    exact ⟨i, by rw [← hp, ← hloc]; exact l2e_get _ hlocs t i hz⟩
  obtain ⟨ts, hts, hget⟩ := targets_spec _ _ hfound
  refine ⟨slabs, hslabs, ?_, ?_, ?_⟩
  · simp only [batchWrite, hpl, hslabs, relocation_eq reqs pl hlen hpaths, hts]
    congr 2
    apply mapEntries_congr
    intro x hx
    obtain ⟨t, i⟩ := x
    simp only [Nat.zero_add] at hx ⊢
    simp only [rewrite, relocSlot, hget i]
    have hpred : (fun x : α × Place =>
        dictGet (dictOfList ((slots entries).zipIdx.map (fun e => (e.1.loc, e.2)))) x.1 == some i)
        = (fun x : α × Place => x.1 == t.loc) := by
      funext x
      exact l2e_get_iff _ hlocs t i hx x.1
    rw [hpred]
    cases List.find? (fun x : α × Place => x.1 == t.loc) (placedList reqs pl) <;> rfl
  · intro e he t _ hloc
    cases ho : e.2 with
    | some p =>
      have hm : (e.1.path, p) ∈ placedList reqs pl := by
        simp only [placedList, List.mem_filterMap]
        exact ⟨e, he, by simp [ho]⟩
      have := find?_unique (fun x : α × Place => x.1) _ hLpw _ hm
      simp only [relocSlot, hloc, this]
    | none =>
      have : (placedList reqs pl).find? (fun x => x.1 == t.loc) = none := by
        rw [List.find?_eq_none]
        intro x hx hb
        obtain ⟨e', he', ho', hp'⟩ := hLmem x hx
        have hpe : e'.1.path = e.1.path := by rw [hp', ← hloc]; exact eq_of_beq hb
        rcases pairwise_mem hzpw e' he' e he with h | h | h
        · rw [h, ho] at ho'; simp at ho'
        · exact h hpe
        · exact h hpe.symm
      simp only [relocSlot, this]
  · intro t _ hnot
    have : (placedList reqs pl).find? (fun x => x.1 == t.loc) = none := by
      rw [List.find?_eq_none]
      intro x hx hb
      obtain ⟨e', he', _, hp'⟩ := hLmem x hx
      apply hnot
      rw [← eq_of_beq hb, ← hp']
      exact List.mem_map_of_mem (List.of_mem_zip (a := e'.1) (b := e'.2) he').1
    simp only [relocSlot, this]

/-- `BatchedBufferStager.stage_buffer`. Let `ms` be a slab's members in placement order — `(byte range,
bytes its stager exports)` with consecutive ranges from 0 to `size` and each export as long as its range —
and let `done` be the sub-stager results of the built `dict` in **any completion order**. Then the length
check never fires, the staged slab is exactly the concatenation of all members' bytes, and slicing the slab
at any member's recorded range returns that member's bytes. (Members dropped by the dict on a repeated
key are empty ranges, so nothing is lost.) -/
theorem C16_slab_stage (size : Nat) (ms done : List ((Nat × Nat) × Bytes))
    (hc : Consec 0 (ms.map (·.1)) size) (hlen : ∀ m ∈ ms, m.2.length = m.1.2 - m.1.1)
    (hperm : done.Perm (dictOfList ms)) :
    ∃ slab, stage size done = .ok slab ∧ slab.length = size ∧
      slab = (ms.map (·.2)).flatten ∧ ∀ m ∈ ms, slice slab m.1.1 m.1.2 = m.2 :=
  stage_spec size ms done hc hlen hperm

/-- `batch_read_requests` + `BatchedBufferConsumer`. For every request list (any order) in which every
requested object exists and is long enough for each (not inverted) range, and no two ranged requests have the
same `(location, range)`: executing the merged plan hands every consumer exactly the bytes its request asked
for — the whole object, or `file[lo:hi]` — each exactly once (the deliveries are a permutation of one
delivery per request), which is also what the un-batched plan delivers. -/
theorem C16_batchread_slices {α : Type} [BEq α] [LawfulBEq α] (store : α → Option Bytes)
    (reqs : List (RReq α))
    (hfiles : ∀ r ∈ reqs, ∃ f, store r.path = some f ∧
      ∀ lo hi, r.range = some (lo, hi) → lo ≤ hi ∧ hi ≤ f.length)
    (hdistinct : reqs.Pairwise (fun a b => a.range ≠ none → ¬ (a.path = b.path ∧ a.range = b.range))) :
    ∃ ds, exec store (merge reqs) = some ds ∧
      ds.Perm (reqs.map (fun r => (r.consumer, want store r))) ∧
      execPlain store reqs = some (reqs.map (fun r => (r.consumer, want store r))) := by
  obtain ⟨ds, h1, h2⟩ := exec_merge store reqs ⟨hfiles, hdistinct⟩
  exact ⟨ds, h1, h2, execPlain_want store reqs hfiles⟩

/-- Executing a slab write request built by `batch_write_requests`: whatever the order in which the
sub-stagers finish (`done` is any permutation of the built dict with each stager's exported bytes), the
staged slab is the concatenation of the bytes of **all** requests placed in that slab, in request order —
the object `written` puts at the slab's location. -/
theorem C16_write_plan_store {α : Type} [BEq α] [LawfulBEq α] (wb : List (WReq α × Bytes)) (thr : Nat)
    (hthr : 1 ≤ thr) (hsz : ∀ x ∈ wb, batchable x.1 = true → x.2.length = x.1.size) (k : Nat)
    (done : List ((Nat × Nat) × Bytes))
    (hdone : done.Perm (dictOfList (memberBytes wb (place thr (wb.map (·.1)) 0 0) k))) :
    ∃ size, Consec 0 ((memberBytes wb (place thr (wb.map (·.1)) 0 0) k).map (·.1)) size ∧
      Ts.Slab.stage size done = .ok ((memberBytes wb (place thr (wb.map (·.1)) 0 0) k).map (·.2)).flatten ∧
      written wb (place thr (wb.map (·.1)) 0 0) (.slab k)
        = some ((memberBytes wb (place thr (wb.map (·.1)) 0 0) k).map (·.2)).flatten := by
  obtain ⟨size, hc, hl⟩ := slab_written wb thr hthr hsz k
  obtain ⟨slab, hs, _, hflat, _⟩ := stage_spec size _ done hc hl hdone
  exact ⟨size, hc, by rw [← hflat]; exact hs, rfl⟩

/-- Write plan, then read plan. `wb` is any list (any order) of write requests with pairwise distinct paths,
each with the bytes its stager exports (as long as the tensor for batchable requests); `thr ≥ 1`;
`pl` the placements and `written wb pl` the storage after the write plan (see `C16_write_plan_store`). Then
1. reading any request's recorded `(location, byte range)` returns exactly its staged bytes;
2. so does reading it through **any** consecutive tiling of its stored range (in particular the one of
   `prepare_read_tiled`, `C16_tile_partition`) and concatenating the tiles in order;
3. for any selection of entries whose relocated members are non-empty, and **every order** `rr` of their read
   requests: the plan merged by `batch_read_requests` and the un-merged plan both deliver to the consumer of
   each selected entry exactly its staged bytes, once. -/
theorem C16_plan_roundtrip {α : Type} [DecidableEq α] (wb : List (WReq α × Bytes)) (thr : Nat)
    (hthr : 1 ≤ thr) (hpaths : (wb.map (·.1.path)).Nodup)
    (hsz : ∀ x ∈ wb, batchable x.1 = true → x.2.length = x.1.size) :
    (∀ e ∈ wb.zip (place thr (wb.map (·.1)) 0 0), ∀ c,
      want (written wb (place thr (wb.map (·.1)) 0 0)) (entryReq e c) = e.1.2) ∧
    (∀ e ∈ wb.zip (place thr (wb.map (·.1)) 0 0), ∀ (ts : List (Nat × Nat)) (c : Nat → Nat),
      Consec (baseOf (entryOf e.1.1 e.2).2) ts (baseOf (entryOf e.1.1 e.2).2 + e.1.2.length) →
      (ts.zipIdx.map (fun t => want (written wb (place thr (wb.map (·.1)) 0 0))
        ⟨(entryOf e.1.1 e.2).1, some t.1, c t.2⟩)).flatten = e.1.2) ∧
    (∀ (sel : List ((WReq α × Bytes) × Option Place)) (rr : List (RReq (Loc α))),
      sel.Sublist (wb.zip (place thr (wb.map (·.1)) 0 0)) →
      (∀ e ∈ sel, ∀ p, e.2 = some p → 0 < e.1.1.size) →
      rr.Perm (sel.zipIdx.map (fun x => entryReq x.1 x.2)) →
      ∃ ds ds', exec (written wb (place thr (wb.map (·.1)) 0 0)) (merge rr) = some ds ∧
        execPlain (written wb (place thr (wb.map (·.1)) 0 0)) rr = some ds' ∧
        ds.Perm (sel.zipIdx.map (fun x => (x.2, x.1.1.2))) ∧
        ds'.Perm (sel.zipIdx.map (fun x => (x.2, x.1.1.2)))) := by
  refine ⟨?_, ?_, ?_⟩
  · intro e he c
    obtain ⟨_, _, _, hw⟩ := entry_read wb thr hthr hpaths hsz e he c
    exact hw
  · intro e he ts c hts
    exact tiled_read wb thr hthr hpaths hsz e he ts hts c
  · intro sel rr hsel hpos hrr
    obtain ⟨hd, hwant⟩ := plan_domain wb thr hthr hpaths hsz sel hsel hpos rr hrr
    obtain ⟨ds, h1, h2⟩ := exec_merge _ rr hd
    exact ⟨ds, _, h1, execPlain_want _ rr hd.1, h2.trans hwant, hwant⟩

/-- **Shard subdivision** (`subdivide_shard`, shared with C08): for every shard of positive sizes (any rank),
every `dim`, element size ≥ 1 and max-shard-size ≥ 1 the sub-shards are non-empty, change only dimension `dim`,
and exactly partition the shard (cover iff, pairwise disjoint). Re-export of `C08_subdivide_partition`. -/
theorem C16_subdivide_partition (elemSize : Nat) (b : Ts.Shard.Box) (dim : Nat) (maxShardSzBytes : Int)
    (hwf : b.WF) (hdim : dim < b.rank) (hpos : Ts.Shard.allPos b.sizes)
    (he : 0 < elemSize) (hm : 0 < maxShardSzBytes) :
    ∃ subs sz off, Ts.Shard.subdivide elemSize b dim maxShardSzBytes = .ok subs ∧
      b.sizes[dim]? = some sz ∧ b.offsets[dim]? = some off ∧ subs ≠ [] ∧
      (∀ sub ∈ subs,
          sub.box = ⟨b.offsets.set dim (off + sub.start), b.sizes.set dim sub.len⟩ ∧
          0 < sub.len ∧ sub.start + sub.len ≤ sz ∧ sub.box.WF ∧ Ts.Shard.allPos sub.box.sizes) ∧
      (∀ g, b.contains g = true ↔ ∃ sub ∈ subs, sub.box.contains g = true) ∧
      subs.Pairwise (fun a c => a.box.Disjoint c.box) :=
  Ts.Shard.C08_subdivide_partition elemSize b dim maxShardSzBytes hwf hdim hpos he hm

/-! ## Non-vacuity: concrete, non-trivial instances of the hypotheses (and what the model computes) -/

-- chunking a [5,2] float32 tensor (40 bytes) with a 12-byte threshold: three chunks, the last one shorter
example : (1 ≤ 12) ∧ 0 < numel [5, 2] * 4 := by decide
example : chunkTensor [5, 2] 4 12 = .ok [⟨[0, 0], [2, 2]⟩, ⟨[2, 0], [2, 2]⟩, ⟨[4, 0], [1, 2]⟩] := by rfl
-- threshold below one element, 0-d tensor, threshold above the tensor
example : chunkTensor [3] 8 1 = .ok [⟨[0], [1]⟩, ⟨[1], [1]⟩, ⟨[2], [1]⟩] := by rfl
example : chunkTensor [] 4 1 = .ok [⟨[0], [1]⟩] := by rfl
example : chunkTensor [5, 2] 4 1000 = .ok [⟨[0, 0], [5, 2]⟩] := by rfl
-- zero-element tensors are rejected by torch.chunk(chunks = 0) (and never reach chunk_tensor: planTensorWrite)
example : chunkTensor [0, 3] 2 4 = .error .chunksNotPositive ∧ planTensorWrite [0, 3] 2 4 = .ok none := ⟨rfl, rfl⟩
-- tiling [3,4] int16 (24 bytes) stored at [10,34) with a 7-byte limit; flattened and not flattened
example : (1 ≤ 7) ∧ ((true = true) ∨ [3, 4] ≠ ([] : List Nat)) := by decide
example : tile [3, 4] true 2 7 (some (10, 34)) =
    .ok [⟨10, 16, [3]⟩, ⟨16, 22, [3]⟩, ⟨22, 28, [3]⟩, ⟨28, 34, [3]⟩] := by rfl
example : tile [3, 4] false 2 7 none = .ok [⟨0, 8, [1, 4]⟩, ⟨8, 16, [1, 4]⟩, ⟨16, 24, [1, 4]⟩] := by rfl
example : tile [2, 0] true 4 1 (some (8, 8)) = .ok [⟨8, 8, [0]⟩] := by rfl
-- packing five requests with threshold 10: two slabs, one oversize and one non-tensor request pass through
example : place 10 ([⟨1, true, true, false, 4⟩, ⟨2, true, true, false, 4⟩, ⟨3, true, true, false, 20⟩,
      ⟨4, false, false, false, 0⟩, ⟨5, true, true, false, 3⟩, ⟨6, true, true, false, 0⟩] : List (WReq Nat)) 0 0
    = [some ⟨0, 0, 4⟩, some ⟨0, 4, 8⟩, none, none, some ⟨1, 0, 3⟩, some ⟨1, 3, 3⟩] := by decide
-- a well-formed plan for C16_slab_relocation
example : ([1, 2, 3].map id).Nodup ∧ ((slots [Entry.tensor ⟨1, none⟩, .chunked [⟨2, none⟩, ⟨3, none⟩], .other]).map (·.loc)).Nodup := by
  decide
-- staging a slab from out-of-order sub-stager results
example : Consec 0 ([((0, 2), [1, 2]), ((2, 2), []), ((2, 5), [3, 4, 5])].map (·.1)) 5 := by
  simp [Consec]
example : Ts.Slab.stage 5 [((2, 5), [3, 4, 5]), ((0, 2), [1, 2]), ((2, 2), [])] = .ok [1, 2, 3, 4, 5] := by rfl
-- a merged read inside the domain of C16_batchread_slices
example :
    let store : Nat → Option Bytes := fun p => if p = 7 then some [1, 2, 3, 4, 5, 6, 7, 8, 9] else if p = 8 then some [7] else none
    let reqs : List (RReq Nat) := [⟨7, some (4, 8), 0⟩, ⟨8, none, 1⟩, ⟨7, some (1, 4), 2⟩]
    InDomain store reqs ∧ exec store (merge reqs) = some [(1, [7]), (0, [5, 6, 7, 8]), (2, [2, 3, 4])] := by
  refine ⟨⟨?_, ?_⟩, by decide⟩
  · intro r hr
    simp only [List.mem_cons, List.not_mem_nil, or_false] at hr
    rcases hr with rfl | rfl | rfl
    · exact ⟨_, rfl, fun lo hi h => by simp at h; obtain ⟨rfl, rfl⟩ := h; decide⟩
    · exact ⟨_, rfl, fun lo hi h => by simp at h⟩
    · exact ⟨_, rfl, fun lo hi h => by simp at h; obtain ⟨rfl, rfl⟩ := h; decide⟩
  · decide
-- hypotheses of C16_plan_roundtrip: distinct paths, exported bytes as long as the tensors
example :
    let wb : List (WReq Nat × Bytes) := [(⟨1, true, true, false, 2⟩, [9, 8]), (⟨2, true, true, false, 3⟩, [7, 6, 5]),
      (⟨3, false, false, false, 0⟩, [1, 1, 1, 1])]
    (wb.map (·.1.path)).Nodup ∧ (∀ x ∈ wb, batchable x.1 = true → x.2.length = x.1.size) ∧
    written wb (place 8 (wb.map (·.1)) 0 0) (.slab 0) = some [9, 8, 7, 6, 5] ∧
    written wb (place 8 (wb.map (·.1)) 0 0) (.orig 3) = some [1, 1, 1, 1] := by
  decide

end Ts.C16
