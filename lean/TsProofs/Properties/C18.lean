import TsProofs.Properties.C01
import TsProofs.Properties.C10
/-!
# C18 — read_object returns what restore would, under any memory budget

`read_object(path, memory_budget_bytes = b)` prepares the read of one manifest entry with
`buffer_size_limit_bytes = b`: every raw tensor unit (a plain tensor, or each chunk of a chunked tensor) is read
in tiles (`prepare_read_tiled`, model `Chunk.tile`) and the tiles are laid out in the (flattened, fresh or
contiguous) output; objects and torch_save tensors are read whole. The value half of the property is proved
here on the data-plane model of C01; the budget half combines the tile-size bound below with the read
pipeline's admission invariant (`C10_bound_read`): tiles are admitted while their declared cost fits the
remaining budget, and a tile larger than the budget only when nothing else is in flight.
-/
namespace Ts.Snapshot
open Ts.Storage (Bytes)
open Ts.Slab Ts.BatchRead Ts.Chunk

/-- **Value under any budget.** For every committed take (any leaves, chunk / slab knobs, batching), every
memory budget `b ≥ 1` — down to one byte, up to larger than the object — and every completion order of chunk
consumers, reading each entry through the tiled reader returns exactly the saved leaf: same dtype, shape and
bits for plain and chunked tensors, the saved payload for objects. It therefore equals what `restore` returns
(`C01_dataplane_roundtrip`). -/
theorem C18_value (cfg : Cfg) (hc : 1 ≤ cfg.chunk) (hs : 1 ≤ cfg.slab)
    (leaves : List Leaf) (hok : ∀ l ∈ leaves, LeafOk l) (budget : Nat) (hb : 1 ≤ budget)
    (order : List ((Nat × Nat) × UnitLoc) → List ((Nat × Nat) × UnitLoc)) (horder : ∀ cs, (order cs).Perm cs) :
    ∃ pw ens, perLeaf cfg 0 leaves = .ok pw ∧
      entriesWalk pw (placements cfg (allWrites pw)) = .ok ens ∧
      mapE (readObjectBudget (written (allWrites pw) (placements cfg (allWrites pw))) budget order) ens = .ok leaves ∧
      mapE (restoreLeaf (written (allWrites pw) (placements cfg (allWrites pw))) order) ens = .ok leaves := by
  obtain ⟨pw, hpw, hmap, _, hnd, hsz, hall⟩ := perLeaf_spec cfg hc leaves 0 hok
  have hst := storedAll cfg hs (allWrites pw) hnd hsz
  obtain ⟨ens, hens, hres⟩ := walk_ok cfg hc _ (readTiled _ budget)
    (fun u bs es shape h hl => readTiled_of_stored _ budget hb u bs h es shape hl) order horder
    (allWrites pw) (placements cfg (allWrites pw)) hst
    pw [] [] (placements cfg (allWrites pw)) (by simp) (by simp) rfl (placements_length cfg _) hall
  obtain ⟨ens', hens', hres'⟩ := walk_ok cfg hc _ (fun _ _ u => readUnit _ u)
    (fun u bs _ _ h _ => readUnit_of_stored _ u bs h) order horder
    (allWrites pw) (placements cfg (allWrites pw)) hst
    pw [] [] (placements cfg (allWrites pw)) (by simp) (by simp) rfl (placements_length cfg _) hall
  rw [hens] at hens'; cases hens'
  exact ⟨pw, ens, hpw, hens, by rw [← hmap]; exact hres, by rw [← hmap]; exact hres'⟩

/-- **Tile size.** No tile of `prepare_read_tiled` exceeds the buffer limit by a whole element:
`tile bytes < limit + element size` (so tiles fit the budget whenever it is a multiple of the element size, and
a tile can exceed it only by less than one element — the "single oversized tile" of the property). -/
theorem C18_tile_size_bound (shape : List Nat) (es limit : Nat) (base : Option (Nat × Nat))
    (hlim : 1 ≤ limit) (hes : 0 < es) (hpos : 0 < numel shape) :
    ∃ ts, tile shape true es limit base = .ok ts ∧ ∀ t ∈ ts, t.hi - t.lo < limit + es := by
  obtain ⟨ts, hts, _, _, _, hlen, _⟩ := Ts.C16.C16_tile_partition shape true es limit base hlim (Or.inl rfl)
  refine ⟨ts, hts, ?_⟩
  -- unfold the flat tiling: sizes come from torch.chunk(numel, max(ceil(es*numel/limit), 1))
  have hn : 0 < max (ceilDiv (es * numel shape) limit) 1 := by omega
  obtain ⟨sizes, he, _, _, _, hall⟩ := torchChunk_spec (numel shape) _ hn
  have htile : ts = tilesFrom [] es (baseOf base) 0 sizes := by
    have : tile shape true es limit base = .ok (tilesFrom [] es (baseOf base) 0 sizes) := by
      simp only [tile]
      rw [if_neg (by omega)]
      simp [he]
    rw [hts] at this; cases this; rfl
  obtain ⟨_, _, h3, _⟩ := tilesFrom_spec [] es (baseOf base) sizes 0
  intro t ht
  rw [htile] at ht
  obtain ⟨hhi, s, hs, hsh⟩ := h3 t ht
  have hbound := split_bound (numel shape) es limit hlim hpos hes
  have hsle := (hall hpos s hs).2
  -- ceil(es*numel/limit) >= 1 here, so the max is the ceil
  have hceil : 1 ≤ ceilDiv (es * numel shape) limit :=
    ceilDiv_pos _ _ hlim (Nat.mul_pos hes hpos)
  have hmax : max (ceilDiv (es * numel shape) limit) 1 = ceilDiv (numel shape * es) limit := by
    have hcm : es * numel shape = numel shape * es := Nat.mul_comm _ _
    rw [hcm] at hceil ⊢; omega
  rw [hmax] at hsle
  rw [hhi, hsh]
  simp only [numel, Nat.mul_one, Nat.add_sub_cancel_left]
  exact Nat.lt_of_le_of_lt (Nat.mul_le_mul_right _ hsle) hbound

/-- The read requests `read_object(path, memory_budget_bytes = b)` hands to the read pipeline for one raw
unit: one request per tile, declared cost = buffer size = the tile's byte length
(`TensorBufferConsumer.get_consuming_cost_bytes` of the tile's entry). -/
def tileReqs (ts : List Tile) : List Ts.Sched.Req := ts.map (fun t => ⟨t.hi - t.lo, t.hi - t.lo⟩)

/-- **In-flight bytes under the budget.** Run the read pipeline (any I/O concurrency, any completion order of
reads and consumers — `tr` is any accepted event trace) on the tiles of any number of raw units with
`memory_budget_bytes = b`: in every reachable state the bytes accounted to in-flight buffers are at most `b`,
or at most one tile is in flight and it was started when nothing else was (the single oversized tile; by
`C18_tile_size_bound` it exceeds `b` by less than one element). Instance of `C10_bound_read`. -/
theorem C18_budget (units : List (List Tile)) (b cap : Nat) (tr : List Ts.Sched.REvent) :
    ∀ s, Ts.Sched.rrun cap (Ts.Sched.rInit ⟨(units.map tileReqs).flatten, b, cap⟩) tr = .ok s →
      (s.accountedReal : Int) ≤ b ∨
      (s.inflight ≤ 1 ∧ ∃ pre r post s0, tr = pre ++ ⟨.ioStart, r⟩ :: post ∧
        (∀ e ∈ post, e.kind ≠ .ioStart) ∧
        Ts.Sched.rrun cap (Ts.Sched.rInit ⟨(units.map tileReqs).flatten, b, cap⟩) pre = .ok s0 ∧ s0.inflight = 0) := by
  have := Ts.Sched.C10_bound_read ⟨(units.map tileReqs).flatten, b, cap⟩ (by simp) ?_ tr
  · exact this
  · intro q hq
    simp only [List.mem_flatten, List.mem_map] at hq
    obtain ⟨l, ⟨u, _, rfl⟩, hq⟩ := hq
    simp only [tileReqs, List.mem_map] at hq
    obtain ⟨t, _, rfl⟩ := hq
    exact Nat.le_refl _

/-! ## Non-vacuity -/
example : tile [3, 4] true 2 7 (some (10, 34)) = .ok [⟨10, 16, [3]⟩, ⟨16, 22, [3]⟩, ⟨22, 28, [3]⟩, ⟨28, 34, [3]⟩] := by rfl
example : (1 : Nat) ≤ 7 ∧ 0 < (2 : Nat) ∧ 0 < numel [3, 4] := by decide

end Ts.Snapshot
