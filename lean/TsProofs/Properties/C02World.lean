import TsProofs.CrashWorld
/-!
# C02 end to end: a crash leaves no snapshot, or one from which every rank restores the saved state

`C02_crash_atomic_json` (commit protocol + the real metadata reader) says that at every crash instant the metadata is
unreadable or every payload write of every rank has completed.  `C01_world_roundtrip` says that from the complete
job-wide store every rank restores every leaf exactly.  Here the two models are joined: payload write `w` of rank
`q` in the protocol is the `w`-th storage object of rank `q`'s write plan in the job model.
-/
namespace Ts.World
open Ts.Storage (Bytes)
open Ts.Slab Ts.BatchRead Ts.Snapshot
open Ts.Commit

/-- **Crash atomicity, end to end.** For every well-formed job, every schedule of the sync or async commit protocol
run by its ranks (the protocol's workload being the job's write plan), every crash cut, every adversarial fate of
in-flight writes (absent / torn at any length / complete) and every well-formed metadata document: if the snapshot
can be opened at all after the crash, then every rank restores every leaf of its saved state exactly, from what is
in storage at the crash instant. -/
theorem C02_world_crash_restore (j : Job) (wf : j.WF) (cfg : Ts.Commit.Cfg) (hn : cfg.n = j.states.length)
    (hnw : ∀ r, r < j.states.length → cfg.nw r = (objectsOf j r).length)
    (sched : List Lbl) (cut : List Ev) (md : Ts.Manifest.SnapshotMetadata) (hwf : md.wf = true)
    (res : Resolve) (tornLen : Nat → Nat → Nat)
    (hcut : cut <+: (srun cfg SState.init sched).trace ∨
            ∃ st, Fresh st cfg.pfx ∧ cut <+: (arun cfg (AState.init st) sched).trace)
    (hread : readableAt jsonReadable (Ts.Manifest.printMetadata md) cut res = true)
    (order : List ((Nat × Nat) × ULoc WLoc) → List ((Nat × Nat) × ULoc WLoc)) (horder : ∀ cs, (order cs).Perm cs)
    (r : Nat) (st : RankState) (hr : j.states[r]? = some st) (p : PathId) (l : Leaf) (hpl : (p, l) ∈ st) :
    ∃ en, worldEntry j r p l = .ok en ∧ restoreLeaf (storeAtCut j cut res tornLen) order en = .ok l := by
  have hall : ∀ r w, r < j.states.length → w < cfg.nw r → payloadAt cut res r w = .complete := by
    have h := C02_crash_atomic_json cfg sched cut md hwf res
    rcases hcut with hc | ⟨st', hf, hc⟩
    · rcases h.1 hc with hno | ⟨_, _, hcomp⟩
      · rw [hno] at hread; cases hread
      · intro r w hr' hw; exact hcomp r w (by rw [hn]; exact hr') hw
    · rcases h.2 st' hf hc with hno | ⟨_, _, hcomp⟩
      · rw [hno] at hread; cases hread
      · intro r w hr' hw; exact hcomp r w (by rw [hn]; exact hr') hw
  rw [storeAtCut_complete j cut res tornLen cfg.nw hnw hall]
  obtain ⟨en, hen, hres, _⟩ := C01_world_roundtrip j wf order horder r st hr p l hpl
  exact ⟨en, hen, hres⟩

/-- the complementary half, stated for completeness: in every other case opening the snapshot raises -/
theorem C02_world_crash_unreadable_or_complete (j : Job) (cfg : Ts.Commit.Cfg) (hn : cfg.n = j.states.length)
    (hnw : ∀ r, r < j.states.length → cfg.nw r = (objectsOf j r).length)
    (sched : List Lbl) (cut : List Ev) (md : Ts.Manifest.SnapshotMetadata) (hwf : md.wf = true)
    (res : Resolve) (tornLen : Nat → Nat → Nat)
    (hcut : cut <+: (srun cfg SState.init sched).trace ∨
            ∃ st, Fresh st cfg.pfx ∧ cut <+: (arun cfg (AState.init st) sched).trace) :
    readableAt jsonReadable (Ts.Manifest.printMetadata md) cut res = false ∨
      storeAtCut j cut res tornLen = wstore j := by
  have h := C02_crash_atomic_json cfg sched cut md hwf res
  rcases hcut with hc | ⟨st', hf, hc⟩
  · rcases h.1 hc with hno | ⟨_, _, hcomp⟩
    · exact Or.inl hno
    · exact Or.inr (storeAtCut_complete j cut res tornLen cfg.nw hnw
        (fun r w hr' hw => hcomp r w (by rw [hn]; exact hr') hw))
  · rcases h.2 st' hf hc with hno | ⟨_, _, hcomp⟩
    · exact Or.inl hno
    · exact Or.inr (storeAtCut_complete j cut res tornLen cfg.nw hnw
        (fun r w hr' hw => hcomp r w (by rw [hn]; exact hr') hw))

/-! ## Non-vacuity: the two-rank example job of `C01World.lean` run through the sync protocol to completion -/

set_option maxRecDepth 100000

def exCfgW : Ts.Commit.Cfg :=
  { n := 2, pfx := 5, nw := fun r => if r = 0 then 3 else 1, pfail := fun _ _ => false, mfail := false }

example : ∀ r, r < exJob.states.length → exCfgW.nw r = (objectsOf exJob r).length := by
  intro r hr
  have : r = 0 ∨ r = 1 := by simp [exJob] at hr; omega
  rcases this with rfl | rfl <;> decide

/-- after the complete run, with every in-flight fate adversarial, rank 1 restores the replicated chunked tensor -/
example : ∃ en, worldEntry exJob 1 1 (.tensor exTA) = .ok en ∧
    restoreLeaf (storeAtCut exJob (srun exCfgW SState.init (exFair exCfgW 12)).trace ⟨fun _ _ => .torn, some 2⟩ (fun _ _ => 1)) id en
      = .ok (.tensor exTA) := by
  have hnw : ∀ r, r < exJob.states.length → exCfgW.nw r = (objectsOf exJob r).length := by
    intro r hr
    have : r = 0 ∨ r = 1 := by simp [exJob] at hr; omega
    rcases this with rfl | rfl <;> decide
  have hm : Ev.mEnd ∈ (srun exCfgW SState.init (exFair exCfgW 12)).trace := by decide
  have hread : readableAt jsonReadable (Ts.Manifest.printMetadata Ts.Manifest.exampleMetadata)
      (srun exCfgW SState.init (exFair exCfgW 12)).trace ⟨fun _ _ => .torn, some 2⟩ = true := by
    simp only [readableAt, metaAt, hm, if_true, jsonReadable,
      Ts.Manifest.C14_metadata_roundtrip Ts.Manifest.exampleMetadata (by decide)]
  exact C02_world_crash_restore exJob exJob_wf exCfgW rfl hnw (exFair exCfgW 12) _ Ts.Manifest.exampleMetadata (by decide)
    ⟨fun _ _ => .torn, some 2⟩ (fun _ _ => 1) (Or.inl (List.prefix_refl _)) hread id (fun _ => List.Perm.refl _)
    1 _ rfl 1 (.tensor exTA) (by simp)

end Ts.World
