import TsProofs.Shard
/-!
# C08 — Resharding: any saved sharding loads correctly into any target sharding

Property theorems only. Model: `TsModel.Shard` (mirrors `io_preparers/sharded_tensor.py`;
`io_preparers/dtensor.py` calls the same overlap kernel). All statements hold for **any number of
dimensions**, any box sizes, any number of shards; an index is a `List Nat`.

Vocabulary (definitions in `TsProofs.Shard`):
* `b.WF` — one size per offset;  `allPos l` — all sizes positive (non-empty box);
* `b.contains g` — the global index `g` lies in box `b`;  `a.Disjoint c` — no common index;
* `Holds G b t` — tensor `t` has shape `b.sizes` and `t[i] = G[b.offsets + i]` for every local `i`;
* `Good G s` — shard `s` has a well-formed non-empty box and `Holds G s.box s.tensor`;
* `wrote s d dsizes j` — ghost observation: the copy for the pair (saved `s`, local `d`) writes
  local element `j` (i.e. the pair overlaps and `j` lies inside the narrowed destination view).

Domain note (D16): boxes with a zero size are outside C08 (`subdivide_shard` divides by zero,
`C08_witness_empty_shard_raises`); `C08_reshard` itself does not need non-emptiness.
-/
namespace Ts.Shard

/-- **Overlap region.** If torch's pair predicate says the local box `d` and the saved box `s`
overlap, then `_shards_get_overlap_region_wrt_saved_tensor(s, d)` has one tuple per dimension and in
every dimension `k`: the tuple is tagged with `k`; its length is `min(ends) − max(starts)`, never
negative, and positive when both sizes are positive (torch's predicate also answers `True` for an
empty box strictly inside the other one — D16, outside the domain); the source narrow `[srcOff, srcOff+len)` lies inside the saved shard and the destination
narrow `[dstOff, dstOff+len)` inside the local shard; and source index `srcOff + p` and destination
index `dstOff + p` (same region position `p`) denote the same global coordinate, the region
starting at `max(starts)`. -/
theorem C08_region_correct (s d : Box) (hs : s.WF) (hd : d.WF) (hr : d.rank = s.rank)
    (hov : overlaps d s = .ok true) :
    (overlapRegion s d).length = s.rank ∧
    ∀ (k : Nat) (n : Narrow), (overlapRegion s d)[k]? = some n →
      ∃ so ss co cs, s.offsets[k]? = some so ∧ s.sizes[k]? = some ss ∧
        d.offsets[k]? = some co ∧ d.sizes[k]? = some cs ∧
        n.dim = k ∧
        n.len = ((min (so + ss) (co + cs) : Nat) : Int) - ((max so co : Nat) : Int) ∧
        0 ≤ n.len ∧ (0 < ss → 0 < cs → 0 < n.len) ∧
        (n.srcOff : Int) + n.len ≤ ss ∧ (n.dstOff : Int) + n.len ≤ cs ∧
        so + n.srcOff = max so co ∧
        ∀ p : Nat, so + (n.srcOff + p) = co + (n.dstOff + p) := by
  have hs' : s.sizes.length = s.offsets.length := hs
  have hd' : d.sizes.length = d.offsets.length := hd
  have hr' : d.offsets.length = s.offsets.length := hr
  refine ⟨regionAux_length _ _ _ _ 0 hr' hs' (by rw [hd', hr']), ?_⟩
  intro k n hn
  obtain ⟨o, z, c, y, e1, e2, e3, e4, a1, a2, e5⟩ :=
    regionAux_getElem? s.offsets d.offsets s.sizes d.sizes 0 k n hr' hs' (by rw [hd', hr']) hov hn
  refine ⟨o, z, c, y, e1, e2, e3, e4, ?_⟩
  subst e5
  refine ⟨by simp, by simp only []; omega, by simp only []; omega, by simp only []; omega,
    by simp only []; omega, by simp only []; omega, by simp only []; omega,
    fun p => by simp only []; omega⟩

/-- **Subdivision.** For every shard with a well-formed box of positive sizes (any rank), every
`dim` inside the rank, every element size ≥ 1 and every threshold `max_shard_sz_bytes ≥ 1`,
`subdivide_shard` does not raise and returns a non-empty list of sub-shards such that: each
sub-box is the shard's box with only dimension `dim` replaced by `[off + start, off + start + len)`,
`len > 0` (all sizes stay positive), `start + len` stays within the shard (so the `torch.narrow`
is legal); a global index lies in the shard iff it lies in some sub-box; and the sub-boxes are
pairwise disjoint — an exact partition along `dim`. -/
theorem C08_subdivide_partition (elemSize : Nat) (b : Box) (dim : Nat) (maxShardSzBytes : Int)
    (hwf : b.WF) (hdim : dim < b.rank) (hpos : allPos b.sizes)
    (he : 0 < elemSize) (hm : 0 < maxShardSzBytes) :
    ∃ subs sz off, subdivide elemSize b dim maxShardSzBytes = .ok subs ∧
      b.sizes[dim]? = some sz ∧ b.offsets[dim]? = some off ∧ subs ≠ [] ∧
      (∀ sub ∈ subs,
          sub.box = ⟨b.offsets.set dim (off + sub.start), b.sizes.set dim sub.len⟩ ∧
          0 < sub.len ∧ sub.start + sub.len ≤ sz ∧ sub.box.WF ∧ allPos sub.box.sizes) ∧
      (∀ g, b.contains g = true ↔ ∃ sub ∈ subs, sub.box.contains g = true) ∧
      subs.Pairwise (fun a c => a.box.Disjoint c.box) :=
  subdivide_spec elemSize b dim maxShardSzBytes hwf hdim hpos he hm

/-- **Writing.** `prepare_write` of a sharded tensor whose local shards are `Good` (non-empty boxes
holding `G`) and pairwise disjoint, for any sharding `dim` inside the rank, element size ≥ 1 and
threshold ≥ 1, persists shards that are again `Good` for the same `G`, pairwise disjoint, of the
same rank, and cover exactly the same global indices as the local shards. -/
theorem C08_write_preserves (α : Type) (G : List Nat → α) (elemSize dim : Nat)
    (maxShardSzBytes : Int) (locals : List (Shard α))
    (hl : ∀ l ∈ locals, Good G l ∧ dim < l.box.rank)
    (he : 0 < elemSize) (hm : 0 < maxShardSzBytes)
    (hdisj : locals.Pairwise (fun a c => a.box.Disjoint c.box)) :
    ∃ saved, prepareWrite elemSize dim maxShardSzBytes locals = .ok saved ∧
      (∀ s ∈ saved, Good G s) ∧
      (∀ g, (∃ l ∈ locals, l.box.contains g = true) ↔ ∃ s ∈ saved, s.box.contains g = true) ∧
      saved.Pairwise (fun a c => a.box.Disjoint c.box) ∧
      (∀ s ∈ saved, ∃ l ∈ locals, s.box.rank = l.box.rank) :=
  prepareWrite_spec G elemSize dim maxShardSzBytes locals hl he hm hdisj

/-- **Resharding into one local shard of a sharded destination.** Let the persisted shards `saved`
(any list: any layout, any subdivision, any placement/order) have well-formed boxes of the
destination's rank, each storing the global tensor `G` on its box, and be pairwise disjoint. Let
`d` be a local shard (any box) whose tensor `t` has the box's shape. Then loading never raises, keeps
the shape, and for every local element `j` with global index `g = d.offsets + j`:
* if some saved shard `s` contains `g`, the element equals `G g` afterwards and `s` is the one and
  only persisted shard that wrote it;
* if no saved shard contains `g`, the element is unchanged and nothing wrote it. -/
theorem C08_reshard (α : Type) (G : List Nat → α) (saved : List (Shard α)) (d : Box) (t : Tensor α)
    (hd : d.WF) (ht : t.sizes = d.sizes)
    (hs : ∀ s ∈ saved, s.box.WF ∧ d.rank = s.box.rank ∧ Holds G s.box s.tensor)
    (hdisj : saved.Pairwise (fun a c => a.box.Disjoint c.box)) :
    ∃ t', loadInto d saved t = .ok t' ∧ t'.sizes = t.sizes ∧
      ∀ j, inSizes d.sizes j = true →
        (∀ s ∈ saved, s.box.contains (vadd d.offsets j) = true →
            t'.get j = G (vadd d.offsets j) ∧
            saved.filter (fun x => wrote x.box d d.sizes j) = [s]) ∧
        ((∀ s ∈ saved, s.box.contains (vadd d.offsets j) = false) →
            t'.get j = t.get j ∧ saved.filter (fun x => wrote x.box d d.sizes j) = []) := by
  obtain ⟨t', e, z, hg⟩ := loadInto_spec G d hd saved hs t ht
  refine ⟨t', e, z.trans ht.symm, ?_⟩
  intro j hj
  have hw := filter_wrote_eq saved d j hd (fun s h => ⟨(hs s h).1, (hs s h).2.1⟩) hj
  constructor
  · intro s hsm hc
    have hany : saved.any (fun s => s.box.contains (vadd d.offsets j)) = true :=
      List.any_eq_true.mpr ⟨s, hsm, hc⟩
    refine ⟨by rw [hg j hj]; simp [hany], ?_⟩
    rw [hw]
    exact eq_singleton_of_mem_of_length_le_one (List.mem_filter.mpr ⟨hsm, hc⟩)
      (filter_contains_le_one saved _ hdisj)
  · intro hnone
    have hany : saved.any (fun s => s.box.contains (vadd d.offsets j)) = false := by
      rw [List.any_eq_false]
      intro s hsm
      simp [hnone s hsm]
    refine ⟨by rw [hg j hj]; simp [hany], ?_⟩
    rw [hw, List.filter_eq_nil_iff]
    intro s hsm
    simp [hnone s hsm]

/-- **All local shards of a sharded destination** (`prepare_read` with a ShardedTensor target,
any destination partition — the destination boxes need not even be disjoint or cover anything):
`reshard` never raises, returns one shard per local shard (paired up by `zip`) with the same box,
and each result satisfies the element-wise statement of `C08_reshard`. -/
theorem C08_reshard_all (α : Type) (G : List Nat → α) (saved dsts : List (Shard α))
    (hd : ∀ d ∈ dsts, d.box.WF ∧ d.tensor.sizes = d.box.sizes ∧
            ∀ s ∈ saved, d.box.rank = s.box.rank)
    (hs : ∀ s ∈ saved, s.box.WF ∧ Holds G s.box s.tensor)
    (hdisj : saved.Pairwise (fun a c => a.box.Disjoint c.box)) :
    ∃ out, reshard saved dsts = .ok out ∧ out.length = dsts.length ∧
      ∀ p ∈ dsts.zip out, (fun (d o : Shard α) => o.box = d.box ∧ o.tensor.sizes = d.tensor.sizes ∧
        ∀ j, inSizes d.box.sizes j = true →
          (∀ s ∈ saved, s.box.contains (vadd d.box.offsets j) = true →
              o.tensor.get j = G (vadd d.box.offsets j) ∧
              saved.filter (fun x => wrote x.box d.box d.box.sizes j) = [s]) ∧
          ((∀ s ∈ saved, s.box.contains (vadd d.box.offsets j) = false) →
              o.tensor.get j = d.tensor.get j ∧
              saved.filter (fun x => wrote x.box d.box d.box.sizes j) = [])) p.1 p.2 := by
  induction dsts with
  | nil => exact ⟨[], rfl, rfl, by simp⟩
  | cons d r ih =>
    obtain ⟨h1, h2, h3⟩ := hd d List.mem_cons_self
    obtain ⟨t', e, z, hg⟩ := C08_reshard α G saved d.box d.tensor h1 h2
      (fun s h => ⟨(hs s h).1, h3 s h, (hs s h).2⟩) hdisj
    obtain ⟨out, e2, hlen, f⟩ := ih (fun x hx => hd x (List.mem_cons_of_mem _ hx))
    refine ⟨⟨d.box, t'⟩ :: out, by simp only [reshard, e, e2], by simp [hlen], ?_⟩
    intro p hp
    simp only [List.zip_cons_cons, List.mem_cons] at hp
    rcases hp with rfl | hp
    · exact ⟨rfl, z, hg⟩
    · exact f p hp

/-- **Dense destination of any shape** (`prepare_read` with a `torch.Tensor` target: one box at
the origin; the tensor may be smaller or larger than the saved global shape). Element `j` (global
index `j` itself) equals `G j` and was written by exactly the one saved shard containing `j`, or is
unchanged and was written by none. -/
theorem C08_dense (α : Type) (G : List Nat → α) (saved : List (Shard α)) (t : Tensor α)
    (hs : ∀ s ∈ saved, s.box.WF ∧ t.sizes.length = s.box.rank ∧ Holds G s.box s.tensor)
    (hdisj : saved.Pairwise (fun a c => a.box.Disjoint c.box)) :
    ∃ t', loadDense saved t = .ok t' ∧ t'.sizes = t.sizes ∧
      ∀ j, inSizes t.sizes j = true →
        (∀ s ∈ saved, s.box.contains j = true →
            t'.get j = G j ∧
            saved.filter (fun x => wrote x.box (denseBox t.sizes) t.sizes j) = [s]) ∧
        ((∀ s ∈ saved, s.box.contains j = false) →
            t'.get j = t.get j ∧
            saved.filter (fun x => wrote x.box (denseBox t.sizes) t.sizes j) = []) := by
  have hwf : (denseBox t.sizes).WF := by simp [denseBox, Box.WF]
  obtain ⟨t', e, z, hg⟩ := C08_reshard α G saved (denseBox t.sizes) t hwf rfl
    (fun s h => ⟨(hs s h).1, by simpa [denseBox, Box.rank] using (hs s h).2.1, (hs s h).2.2⟩) hdisj
  refine ⟨t', e, z, ?_⟩
  intro j hj
  have hz : vadd (denseBox t.sizes).offsets j = j :=
    vadd_zeros j _ (inSizes_length hj)
  have := hg j hj
  rw [hz] at this
  exact this

/-- **Dense destination, full cover.** If moreover the saved boxes cover the destination's whole
shape, the loaded dense tensor equals the global tensor on every element. -/
theorem C08_dense_full (α : Type) (G : List Nat → α) (saved : List (Shard α)) (t : Tensor α)
    (hs : ∀ s ∈ saved, s.box.WF ∧ t.sizes.length = s.box.rank ∧ Holds G s.box s.tensor)
    (hdisj : saved.Pairwise (fun a c => a.box.Disjoint c.box))
    (hcover : ∀ j, inSizes t.sizes j = true → ∃ s ∈ saved, s.box.contains j = true) :
    ∃ t', loadDense saved t = .ok t' ∧ t'.sizes = t.sizes ∧
      ∀ j, inSizes t.sizes j = true → t'.get j = G j := by
  obtain ⟨t', e, z, hg⟩ := C08_dense α G saved t hs hdisj
  refine ⟨t', e, z, ?_⟩
  intro j hj
  obtain ⟨s, hsm, hc⟩ := hcover j hj
  exact ((hg j hj).1 s hsm hc).1

/-- **End to end: any saved sharding into any target sharding.** Source local shards (on any
ranks, concatenated in `locals`) are `Good` for `G` and pairwise disjoint; they are written with any
sharding `dim`, element size and `max_shard_sz_bytes ≥ 1`; the manifest lists the persisted shards in
*any* order (`saved` is a permutation of what was written). Loading into any local shard `d` of the
same rank never raises, and element `j` equals `G` at its global index iff that index lies in some
*source* box — otherwise it keeps its old value. -/
theorem C08_write_then_load (α : Type) (G : List Nat → α) (elemSize dim : Nat)
    (maxShardSzBytes : Int) (locals written saved : List (Shard α)) (d : Box) (t : Tensor α)
    (hl : ∀ l ∈ locals, Good G l ∧ dim < l.box.rank ∧ d.rank = l.box.rank)
    (he : 0 < elemSize) (hm : 0 < maxShardSzBytes)
    (hdisj : locals.Pairwise (fun a c => a.box.Disjoint c.box))
    (hw : prepareWrite elemSize dim maxShardSzBytes locals = .ok written)
    (hperm : saved.Perm written)
    (hd : d.WF) (ht : t.sizes = d.sizes) :
    ∃ t', loadInto d saved t = .ok t' ∧ t'.sizes = t.sizes ∧
      ∀ j, inSizes d.sizes j = true →
        ((∃ l ∈ locals, l.box.contains (vadd d.offsets j) = true) → t'.get j = G (vadd d.offsets j)) ∧
        ((∀ l ∈ locals, l.box.contains (vadd d.offsets j) = false) → t'.get j = t.get j) := by
  obtain ⟨w, e, hg, hc, hp, hrk⟩ := C08_write_preserves α G elemSize dim maxShardSzBytes locals
    (fun l h => ⟨(hl l h).1, (hl l h).2.1⟩) he hm hdisj
  rw [hw] at e
  cases e
  have hs : ∀ s ∈ saved, s.box.WF ∧ d.rank = s.box.rank ∧ Holds G s.box s.tensor := by
    intro s h
    have hm' := hperm.subset h
    obtain ⟨l, hlm, er⟩ := hrk s hm'
    exact ⟨(hg s hm').1, by rw [er]; exact (hl l hlm).2.2, (hg s hm').2.2⟩
  have hp' : saved.Pairwise (fun a c => a.box.Disjoint c.box) :=
    hperm.symm.pairwise hp (fun h => h.symm)
  obtain ⟨t', e', z, hres⟩ := C08_reshard α G saved d t hd ht hs hp'
  refine ⟨t', e', z, ?_⟩
  intro j hj
  constructor
  · intro hex
    obtain ⟨s, hsm, hcs⟩ := (hc _).mp hex
    exact ((hres j hj).1 s (hperm.symm.subset hsm) hcs).1
  · intro hnone
    refine ((hres j hj).2 ?_).1
    intro s hsm
    cases hcs : s.box.contains (vadd d.offsets j) with
    | false => rfl
    | true =>
      obtain ⟨l, hlm, hcl⟩ := (hc _).mpr ⟨s, hperm.subset hsm, hcs⟩
      rw [hnone l hlm] at hcl
      exact absurd hcl (by simp)

/-- The order in which the read requests are executed does not matter: any two orders of the same
pairwise-disjoint saved shards give the same value at every element. -/
theorem C08_order_independent (α : Type) (G : List Nat → α) (saved saved' : List (Shard α))
    (d : Box) (t : Tensor α) (hd : d.WF) (ht : t.sizes = d.sizes)
    (hs : ∀ s ∈ saved, s.box.WF ∧ d.rank = s.box.rank ∧ Holds G s.box s.tensor)
    (hperm : saved'.Perm saved) :
    ∃ t1 t2, loadInto d saved t = .ok t1 ∧ loadInto d saved' t = .ok t2 ∧
      ∀ j, inSizes d.sizes j = true → t1.get j = t2.get j := by
  obtain ⟨t1, e1, _, g1⟩ := loadInto_spec G d hd saved hs t ht
  obtain ⟨t2, e2, _, g2⟩ := loadInto_spec G d hd saved' (fun s h => hs s (hperm.subset h)) t ht
  refine ⟨t1, t2, e1, e2, ?_⟩
  intro j hj
  rw [g1 j hj, g2 j hj]
  have : saved.any (fun s => s.box.contains (vadd d.offsets j))
       = saved'.any (fun s => s.box.contains (vadd d.offsets j)) := by
    rw [Bool.eq_iff_iff, List.any_eq_true, List.any_eq_true]
    constructor
    · rintro ⟨s, h, c⟩; exact ⟨s, hperm.symm.subset h, c⟩
    · rintro ⟨s, h, c⟩; exact ⟨s, hperm.subset h, c⟩
  rw [this]

/-- **Shape of the tensor created for `obj_out=None`.** If every persisted box lies inside `shape`
(its far corner `offsets + sizes` is ≤ `shape` in every dimension, same rank) and some persisted box
reaches the far corner of `shape` (true whenever the boxes cover a non-empty `shape`),
`ShardedTensorEntry.get_tensor_shape` returns exactly `shape`, whatever the order of the shards. -/
theorem C08_tensor_shape (shape : List Nat) (boxes : List Box)
    (hin : ∀ b ∈ boxes, (farCorner b).length = shape.length ∧ geAll shape (farCorner b) = true)
    (hfar : ∃ b ∈ boxes, farCorner b = shape) :
    tensorShape boxes = .ok shape := by
  cases boxes with
  | nil => obtain ⟨b, hb, _⟩ := hfar; simp at hb
  | cons b0 rest =>
    simp only [tensorShape]
    congr 1
    obtain ⟨h1, h2⟩ := hin b0 List.mem_cons_self
    apply tensorShape_fold shape rest _ (fun b hb => hin b (List.mem_cons_of_mem _ hb)) h1 h2
    obtain ⟨b, hb, e⟩ := hfar
    rcases List.mem_cons.mp hb with rfl | h
    · left; exact e
    · right; exact ⟨b, h, e⟩

/-- torch's pair predicate is sound for disjointness: when it answers `False`, the two boxes share
no index (so a skipped pair has nothing to copy). -/
theorem C08_skip_sound (a c : Box) (h : overlaps a c = .ok false) : a.Disjoint c :=
  disjoint_of_overlaps_false a c h

/-- D16 (outside the domain): an empty shard makes `subdivide_shard` raise `ZeroDivisionError`. -/
theorem C08_witness_empty_shard_raises :
    subdivide 4 ⟨[0, 0], [0, 3]⟩ 0 512 = .error .zeroDivision ∧
    subdivide 4 ⟨[0, 0], [3, 0]⟩ 0 512 = .error .zeroDivision := ⟨rfl, rfl⟩

/-! ## Non-vacuity: a concrete, non-trivial instance satisfies the hypotheses -/

section NonVacuity

/-- global 4×5 tensor, `G[r, c] = 10·r + c` -/
def exG : List Nat → Nat
  | [r, c] => 10 * r + c
  | _ => 0

/-- the slice of `exG` on a box, as a tensor -/
def exT (b : Box) : Tensor Nat := ⟨b.sizes, fun i => exG (vadd b.offsets i)⟩

/-- uneven source layout: a 1×5 strip, a 3×2 block, a 3×3 block -/
def exLocals : List (Shard Nat) :=
  [⟨⟨[0, 0], [1, 5]⟩, exT ⟨[0, 0], [1, 5]⟩⟩, ⟨⟨[1, 0], [3, 2]⟩, exT ⟨[1, 0], [3, 2]⟩⟩,
   ⟨⟨[1, 2], [3, 3]⟩, exT ⟨[1, 2], [3, 3]⟩⟩]

theorem exT_good (b : Box) (h : b.WF) (hp : allPos b.sizes) : Good exG ⟨b, exT b⟩ :=
  ⟨h, hp, rfl, fun _ _ => rfl⟩

example : ∀ l ∈ exLocals, Good exG l ∧ 0 < l.box.rank := by
  intro l hl
  simp only [exLocals, List.mem_cons, List.not_mem_nil, or_false] at hl
  rcases hl with rfl | rfl | rfl <;>
    exact ⟨exT_good _ (by simp [Box.WF]) (by simp [allPos]), by simp [Box.rank]⟩

example : exLocals.Pairwise (fun a c => a.box.Disjoint c.box) := by
  simp only [exLocals, List.pairwise_cons, List.mem_cons, List.not_mem_nil, or_false,
    forall_eq_or_imp, forall_eq, List.Pairwise.nil, and_true]
  refine ⟨⟨?_, ?_⟩, ?_, fun _ h => h.elim⟩ <;> (apply C08_skip_sound; rfl)

/-- overlapping pair with an unaligned cut: region correct hypotheses hold -/
example : overlaps ⟨[0, 1], [3, 3]⟩ ⟨[1, 2], [3, 3]⟩ = .ok true := rfl

/-- `get_tensor_shape` on the instance, far-corner shard listed first -/
example : tensorShape [⟨[1, 2], [3, 3]⟩, ⟨[0, 0], [1, 5]⟩, ⟨[1, 0], [3, 2]⟩] = .ok [4, 5] := rfl

/-- the model, run on the instance: threshold 8 bytes splits the blocks row by row (7 persisted
shards); a smaller 3×6 dense destination filled with 99 receives rows 0..2 and keeps column 5 -/
example :
    (match prepareWrite 4 0 8 exLocals with
     | .ok saved =>
        (saved.map (fun s => (s.box.offsets, s.box.sizes)),
         (loadDense saved ⟨[3, 6], fun _ => 99⟩).toOption.map Tensor.toFlat)
     | .error _ => ([], none))
    = ([([0, 0], [1, 5]), ([1, 0], [1, 2]), ([2, 0], [1, 2]), ([3, 0], [1, 2]),
        ([1, 2], [1, 3]), ([2, 2], [1, 3]), ([3, 2], [1, 3])],
       some [0, 1, 2, 3, 4, 99, 10, 11, 12, 13, 14, 99, 20, 21, 22, 23, 24, 99]) := by
  decide

end NonVacuity

end Ts.Shard
