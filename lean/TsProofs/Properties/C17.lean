import TsProofs.Serial
/-!
# C17 — Tensor (de)serialization is bit-exact for every supported dtype and layout

Property theorems only. Model: `TsModel.Serial` (mirrors `serialization.py` and the serializer /
stager / consumer code of `io_preparers/tensor.py`); tables: `TsGen.Tables`, regenerated from the
repository source on every run, so every `decide` below is a check of the *current* source.

A tensor value is `(dtype, shape, bytes)` with `bytes` its row-major contents and torch's invariant
`|bytes| = itemsize · numel` (`Tensor.WF`). Memory layouts (strides, storage offset, broadcast) are
`Strided` views; `contiguous` specifies torch's `Tensor.contiguous()` (trusted, tied by the
correspondence check). `torch.save`/`torch.load` is an abstract codec with the stated assumption
`Codec.Lawful` (load ∘ save = id).
-/
namespace Ts.Serial

/-- The dtype tables are consistent and bijective, checked on the generated tables:
(1) the supported-dtype list and the keys of `_DTYPE_TO_STRING` have no duplicates and are the same
set; (2) for every supported dtype `dtype_to_string` succeeds, returns PyTorch's `str(dtype)`
and `string_to_dtype` maps it back (so `string_to_dtype ∘ dtype_to_string = id`);
(3) `dtype_to_string` is injective on supported dtypes; (4) every string accepted by
`string_to_dtype` is the string of the supported dtype it returns (surjectivity: bijection);
(5) every supported dtype has an element size; (6) buffer-protocol and quantized dtypes are
supported dtypes. -/
theorem C17_tables_bijective :
    Gen.allSupportedDtypes.Nodup ∧ (Gen.dtypeToString.map (·.1)).Nodup ∧
    (∀ p ∈ Gen.dtypeToString, p.1 ∈ Gen.allSupportedDtypes) ∧
    (∀ d ∈ Gen.allSupportedDtypes,
        dtypeToString d = .ok (torchStr d) ∧ stringToDtype (torchStr d) = .ok d) ∧
    (∀ d₁ ∈ Gen.allSupportedDtypes, ∀ d₂ ∈ Gen.allSupportedDtypes,
        dtypeToString d₁ = dtypeToString d₂ → d₁ = d₂) ∧
    (∀ p ∈ Gen.stringToDtype,
        p.2 ∈ Gen.allSupportedDtypes ∧ stringToDtype p.1 = .ok p.2 ∧ dtypeToString p.2 = .ok p.1) ∧
    (∀ d ∈ Gen.allSupportedDtypes, ∃ n, dtypeToElementSize d = .ok n ∧ 0 < n) ∧
    (∀ d ∈ Gen.bufferProtocolDtypes, d ∈ Gen.allSupportedDtypes) ∧
    (∀ d ∈ Gen.quantizedDtypes, d ∈ Gen.allSupportedDtypes) := by
  refine ⟨by decide, by decide, by decide, by decide, by decide, by decide, ?_, by decide, by decide⟩
  intro d hd
  obtain ⟨es, f⟩ := supported_facts hd
  exact ⟨es, f.table, f.pos⟩

/-- The recorded element sizes (`_DTYPE_TO_ELEMENT_SIZE`) equal PyTorch's `element_size()` for
every supported dtype (PyTorch's values: `torchItemsizes`, compared with the installed torch on
every run). -/
theorem C17_element_sizes_equal_torch :
    ∀ d ∈ Gen.allSupportedDtypes, ∃ n, torchItemsize d = some n ∧ dtypeToElementSize d = .ok n := by
  intro d hd
  obtain ⟨es, f⟩ := supported_facts hd
  exact ⟨es, f.itemsize, f.table⟩

/-- The serializer choice of `prepare_write`: buffer protocol exactly for the listed dtypes,
`torch.save` for every other supported dtype; the two enum values exist and differ. -/
theorem C17_serializer_choice (t : Tensor) (hd : t.dtype ∈ Gen.allSupportedDtypes) :
    ∃ ts bp, serializerValue "TORCH_SAVE" = .ok ts ∧ serializerValue "BUFFER_PROTOCOL" = .ok bp ∧
      ts ≠ bp ∧
      prepareWrite t = .ok ⟨if t.dtype ∈ Gen.bufferProtocolDtypes then bp else ts,
                            torchStr t.dtype, t.shape⟩ := by
  obtain ⟨ts, bp, h1, h2, hne⟩ := serializer_values_ok
  obtain ⟨es, f⟩ := supported_facts hd
  refine ⟨ts, bp, h1, h2, hne, ?_⟩
  unfold prepareWrite
  by_cases hb : t.dtype ∈ Gen.bufferProtocolDtypes
  · simp [hb, h2, f.toStr]
  · simp [hb, h1, f.toStr]

/-- **Round trip.** For every buffer-protocol dtype (bfloat16 with any element count included),
every shape (scalars `[]`, zero-length dimensions) and every contents of the right length:
`tensor_as_memoryview` succeeds and `tensor_from_memoryview` of its output with the recorded dtype
and shape returns the identical tensor (same dtype, shape and bits). -/
theorem C17_roundtrip (t : Tensor) (hd : t.dtype ∈ Gen.bufferProtocolDtypes) (hwf : t.WF) :
    ∃ buf, asMemoryview t = .ok buf ∧ fromMemoryview t.dtype t.shape buf = .ok t := by
  obtain ⟨es, f⟩ := bp_facts hd
  refine ⟨t.bytes, asMemoryview_eq hd hwf, ?_⟩
  exact fromMemoryview_ok f.itemsize f.pos t.shape t.bytes ((wf_iff f.itemsize).1 hwf)

/-- **Serialized length.** For buffer-protocol dtypes the serialized buffer has exactly
(recorded element size) × (element count) bytes — and they are the tensor's row-major bytes. -/
theorem C17_length (t : Tensor) (hd : t.dtype ∈ Gen.bufferProtocolDtypes) (hwf : t.WF) :
    ∃ buf es, asMemoryview t = .ok buf ∧ dtypeToElementSize t.dtype = .ok es ∧
      buf.length = es * numel t.shape ∧ buf = t.bytes := by
  obtain ⟨es, f⟩ := bp_facts hd
  exact ⟨t.bytes, es, asMemoryview_eq hd hwf, f.table, (wf_iff f.itemsize).1 hwf, rfl⟩

/-- Dtypes outside `BUFFER_PROTOCOL_SUPPORTED_DTYPES` are rejected by `tensor_as_memoryview`
(ValueError), never exported wrongly. -/
theorem C17_unsupported_rejected (t : Tensor) (hd : t.dtype ∉ Gen.bufferProtocolDtypes) :
    asMemoryview t = .error .valueError :=
  asMemoryview_unsupported hd

/-- **Wrong length is rejected** (used by C04): for every supported dtype and every shape,
`tensor_from_memoryview` succeeds *iff* the buffer has exactly `element size × numel` bytes, in
which case it returns exactly those bytes; any other length (shorter, longer, not a multiple of
the element size, empty for a non-empty shape, non-empty for a zero-element shape) raises
`ValueError`/`RuntimeError`. -/
theorem C17_wrong_length_rejected (d : String) (hd : d ∈ Gen.allSupportedDtypes)
    (shape : List Nat) (buf : Bytes) :
    ∃ es, dtypeToElementSize d = .ok es ∧
      (buf.length = es * numel shape → fromMemoryview d shape buf = .ok ⟨d, shape, buf⟩) ∧
      (buf.length ≠ es * numel shape →
        fromMemoryview d shape buf = .error .valueError ∨
        fromMemoryview d shape buf = .error .runtimeError) := by
  obtain ⟨es, f⟩ := supported_facts hd
  exact ⟨es, f.table, fromMemoryview_ok f.itemsize f.pos shape buf,
    fromMemoryview_error f.itemsize shape buf⟩

/-- **Every memory layout.** For every strided view torch can construct (any strides incl. 0 for
broadcast, any storage offset, transposed, with zero-length dimensions) of a buffer-protocol dtype:
`tensor_as_memoryview` returns the row-major gather of the view's elements, of length
`element size × numel`, and `tensor_from_memoryview` of it is the contiguous tensor value. -/
theorem C17_roundtrip_strided (v : Strided) (hd : v.dtype ∈ Gen.bufferProtocolDtypes)
    (t : Tensor) (hv : contiguous v = .ok t) :
    ∃ es, dtypeToElementSize v.dtype = .ok es ∧
      asMemoryviewStrided v = .ok t.bytes ∧ t.bytes.length = es * numel v.shape ∧
      fromMemoryview v.dtype v.shape t.bytes = .ok t := by
  obtain ⟨hdt, hsh, hwf⟩ := contiguous_wf hv
  obtain ⟨es, f⟩ := bp_facts hd
  have hd' : t.dtype ∈ Gen.bufferProtocolDtypes := hdt ▸ hd
  have hes : torchItemsize t.dtype = some es := hdt ▸ f.itemsize
  have hl := (wf_iff hes).1 hwf
  refine ⟨es, f.table, ?_, hsh ▸ hl, ?_⟩
  · unfold asMemoryviewStrided
    simp only [contains_iff.2 hd, Bool.not_true, Bool.false_eq_true, ite_false, hv]
    exact asMemoryview_eq hd' hwf
  · rw [← hdt, ← hsh]
    exact fromMemoryview_ok hes f.pos t.shape t.bytes hl

/-- The reading of a view is element-exact: the gathered bytes have one `es`-byte element per
logical index, `|offsets| = numel`, in row-major order. -/
theorem C17_gather_shape (shape strides : List Nat) (off : Nat)
    (h : shape.length = strides.length) :
    (offsets shape strides off).length = numel shape :=
  offsets_length shape strides off h

/-- A tensor that is already contiguous (offset 0, row-major strides) is read back unchanged by
the layout specification: `contiguous` is the identity on tensor values, so the strided and the
plain statements agree. -/
theorem C17_contiguous_identity (t : Tensor) (hwf : t.WF) :
    contiguous t.toStrided = .ok t ∧
    (t.dtype ∈ Gen.bufferProtocolDtypes → asMemoryviewStrided t.toStrided = asMemoryview t) := by
  refine ⟨contiguous_toStrided t hwf, ?_⟩
  intro hd
  unfold asMemoryviewStrided
  have : t.toStrided.dtype = t.dtype := rfl
  simp only [this, contains_iff.2 hd, Bool.not_true, Bool.false_eq_true, ite_false,
    contiguous_toStrided t hwf]

/-- **torch.save path.** Under the codec assumption (`load (save t) = t`), staging a tensor of any
dtype with the `torch_save` serializer and deserializing the staged buffer returns the identical
tensor value. -/
theorem C17_torch_save_roundtrip (c : Codec) (hc : c.Lawful) (t : Tensor) (ts : String)
    (hts : serializerValue "TORCH_SAVE" = .ok ts) (e : Entry) (he : e.serializer = ts) :
    ∃ buf, stageBuffer c e t = .ok buf ∧ deserializeTensor c e buf = .ok t := by
  obtain ⟨ts', bp, h1, h2, _⟩ := serializer_values_ok
  have : ts' = ts := by rw [h1] at hts; injection hts
  subst this
  refine ⟨c.save t, ?_, ?_⟩
  · simp [stageBuffer, h1, h2, he]
  · simp [deserializeTensor, h1, h2, he, hc t]

/-- **End to end** (`prepare_write` → `stage_buffer` → `prepare_read` → `consume_buffer`).
For every supported dtype — buffer protocol or `torch.save` as `prepare_write` chooses — every
shape and contents, and every destination (none, a preallocated tensor of matching dtype/shape
with arbitrary old contents, or a mismatching one that is replaced by a fresh tensor): the
destination ends up with exactly the saved dtype, shape and bits. -/
theorem C17_stage_consume_roundtrip (c : Codec) (hc : c.Lawful) (t : Tensor)
    (hd : t.dtype ∈ Gen.allSupportedDtypes) (hwf : t.WF) (tensorOut : Option Tensor) :
    saveThenLoad c t tensorOut = .ok t := by
  obtain ⟨ts, bp, h1, h2, hne, hpw⟩ := C17_serializer_choice t hd
  obtain ⟨es, f⟩ := supported_facts hd
  have hl := (wf_iff f.itemsize).1 hwf
  -- the destination has the entry's dtype and shape whatever `tensorOut` is
  have hdst : ∀ ser, ∃ old, destination ⟨ser, torchStr t.dtype, t.shape⟩ tensorOut
      = .ok ⟨t.dtype, t.shape, old⟩ := by
    intro ser
    cases tensorOut with
    | none => exact ⟨List.replicate (es * numel t.shape) 0,
        by simp [destination, emptyTensorFromEntry, f.ofStr, f.itemsize]⟩
    | some o =>
      by_cases hm : t.dtype = o.dtype ∧ t.shape = o.shape
      · refine ⟨o.bytes, ?_⟩
        cases o with | mk od os ob =>
        obtain ⟨rfl, rfl⟩ := hm
        simp [destination, f.ofStr]
      · exact ⟨List.replicate (es * numel t.shape) 0,
          by simp [destination, emptyTensorFromEntry, f.ofStr, f.itemsize, hm]⟩
  unfold saveThenLoad
  rw [hpw]
  simp only
  by_cases hb : t.dtype ∈ Gen.bufferProtocolDtypes
  · obtain ⟨old, ho⟩ := hdst bp
    simp only [hb, ite_true]
    have hs : stageBuffer c ⟨bp, torchStr t.dtype, t.shape⟩ t = .ok t.bytes := by
      have hne' : (bp == ts) = false := by simpa using fun h => hne h.symm
      simp [stageBuffer, h1, h2, hne', asMemoryview_eq hb hwf]
    rw [hs, ho]
    have hne' : (bp == ts) = false := by simpa using fun h => hne h.symm
    simp [consumeBuffer, deserializeTensor, h1, h2, hne', f.ofStr,
      fromMemoryview_ok f.itemsize f.pos t.shape t.bytes hl, tensorCopy]
  · obtain ⟨old, ho⟩ := hdst ts
    simp only [hb, ite_false]
    have hs : stageBuffer c ⟨ts, torchStr t.dtype, t.shape⟩ t = .ok (c.save t) := by
      simp [stageBuffer, h1, h2]
    rw [hs, ho]
    simp [consumeBuffer, deserializeTensor, h1, h2, hc t, tensorCopy]

/-- The untyped-storage export (`contiguous_view_as_untyped_storage`, used for bfloat16) returns
exactly the tensor's bytes wherever the contiguous tensor sits in its storage (any storage
offset, any trailing storage), and viewing them as `uint8` keeps every byte. -/
theorem C17_untyped_storage_exact (pre c post : Bytes) (off n es : Nat)
    (hpre : pre.length = off * es) (hc : c.length = n * es) :
    viewStorageAs untypedViewDtype (untypedStorageSlice (pre ++ c ++ post) off n es) = .ok c := by
  rw [untypedStorageSlice_mid pre c post off n es hpre hc, viewStorageAs_uint8]

/-- The codec assumption is satisfiable: the reference codec is lawful. -/
theorem C17_codec_assumption_satisfiable : ∃ c : Codec, c.Lawful := ⟨refCodec, refCodec_lawful⟩

/-! ### Pre-repair behaviour, kept as proved witnesses (D3, D4; both fixed in the tree)

Before fix 7481c7a the untyped storage was viewed as `float32`: a bfloat16 tensor with an odd
element count lost its last two bytes. Before fix b53fac0 an empty buffer was handed to
`torch.frombuffer`, which rejects it. -/

/-- D3 witness: with a `float32` view, one bfloat16 element exports as the empty buffer and three
elements lose the last one. -/
theorem C17_witness_float32_view :
    viaUntypedStorageWith "float32" ⟨"bfloat16", [1], [0x80, 0x3f]⟩ = .ok [] ∧
    viaUntypedStorageWith "float32" ⟨"bfloat16", [3], [1, 2, 3, 4, 5, 6]⟩ = .ok [1, 2, 3, 4] ∧
    viaUntypedStorage ⟨"bfloat16", [3], [1, 2, 3, 4, 5, 6]⟩ = .ok [1, 2, 3, 4, 5, 6] := by
  decide

/-! ### Non-vacuity: concrete instances of the hypotheses -/

example : (⟨"bfloat16", [3], [1, 2, 3, 4, 5, 6]⟩ : Tensor).WF ∧
    "bfloat16" ∈ Gen.bufferProtocolDtypes := by decide
example : (⟨"float64", [], [0, 0, 0, 0, 0, 0, 0xf8, 0x7f]⟩ : Tensor).WF := by decide
example : (⟨"int32", [2, 0, 3], []⟩ : Tensor).WF := by decide
example : (⟨"complex64", [1], [1, 2, 3, 4, 5, 6, 7, 8]⟩ : Tensor).WF ∧
    "complex64" ∈ Gen.allSupportedDtypes ∧ "complex64" ∉ Gen.bufferProtocolDtypes := by decide
example : saveThenLoad refCodec ⟨"complex64", [1], [1, 2, 3, 4, 5, 6, 7, 8]⟩
    (some ⟨"complex64", [1], [9, 9, 9, 9, 9, 9, 9, 9]⟩)
    = .ok ⟨"complex64", [1], [1, 2, 3, 4, 5, 6, 7, 8]⟩ := by decide
-- a transposed 2×3 int16 view with storage offset 1: logical order is column-major in storage
example : contiguous ⟨"int16", [9, 9, 10, 0, 11, 0, 12, 0, 13, 0, 14, 0, 15, 0], 1, [3, 2], [1, 3]⟩
    = .ok ⟨"int16", [3, 2], [10, 0, 13, 0, 11, 0, 14, 0, 12, 0, 15, 0]⟩ := by decide
-- a broadcast (stride 0) view
example : asMemoryviewStrided ⟨"uint8", [7, 8], 0, [2, 2], [0, 1]⟩ = .ok [7, 8, 7, 8] := by decide
-- wrong lengths
example : fromMemoryview "float32" [2] [1, 2, 3, 4, 5, 6, 7] = .error .valueError ∧
    fromMemoryview "float32" [2] [1, 2, 3, 4] = .error .runtimeError ∧
    fromMemoryview "float32" [2] [] = .error .runtimeError ∧
    fromMemoryview "float32" [0] [1, 2, 3, 4] = .error .runtimeError ∧
    fromMemoryview "float32" [2, 0] [] = .ok ⟨"float32", [2, 0], []⟩ := by decide

end Ts.Serial
