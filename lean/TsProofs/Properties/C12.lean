import TsProofs.Collective
/-!
# C12 — all ranks issue the same collective sequence whatever their local state

Property theorems only. Model: `TsModel.Collective` (every `PGWrapper` call site reachable from
`Snapshot.take`, `async_take`, `restore`: snapshot.py, partitioner.py `partition_write_reqs`,
scheduler.py `get_process_memory_budget_bytes`, dist_store.py `create_store`).

Domain. `Local.Valid` = the rank's app state registers at most one `RNGState`. With two, the rank's
`_pop_rng_state` raises (an application error reported by exception on that rank); that case is
outside the property's quantifier ("with/without RNGState") and is shown below as a remark.
Collectives issued by user `state_dict()` / `load_state_dict()` methods are outside the model.
-/
namespace Ts.Collective
open Ts.Rng (Key)

/-- **take / async_take.** Two ranks with *any* valid local states — different keys, key orders,
an RNGState or none, different leaf kinds, different replicated leaves, rank 0 or not — and the same
global inputs (world size, global key list, budget override, batching / partitioner flags, store
bootstrap) perform the same sequence of collectives (same call sites, hence same kinds). -/
theorem C12_take_uniform (isAsync : Bool) (l₁ l₂ : Local) (g : Global)
    (h₁ : l₁.Valid) (h₂ : l₂.Valid) :
    takeTrace isAsync l₁ g = takeTrace isAsync l₂ g := by
  rw [takeTrace_eq_canon isAsync l₁ g h₁, takeTrace_eq_canon isAsync l₂ g h₂]

/-- **restore** (the repaired code: memory budget computed once before the key loop). Same statement. -/
theorem C12_restore_uniform (l₁ l₂ : Local) (g : Global) (h₁ : l₁.Valid) (h₂ : l₂.Valid) :
    restoreTrace l₁ g = restoreTrace l₂ g := by
  rw [restoreTrace_eq_canon l₁ g h₁, restoreTrace_eq_canon l₂ g h₂]

/-- The sequences themselves: one barrier per *global* key (not per local key), and the hostname
all-gather exactly when the override is unset — once per take, once per restore. -/
theorem C12_trace_shape (isAsync : Bool) (l : Local) (g : Global) (h : l.Valid) :
    takeTrace isAsync l g =
      [.bcastPath, .gatherReplicatedGlobs] ++ (if isAsync then [.bcastBarrierId] else []) ++
      [.gatherKeys] ++ g.keys.map .keyBarrier ++ [.gatherReplicatedPaths, .bcastReplicatedPaths] ++
      (if g.partitionerDisabled then [] else
        [.gatherWriteLoads, .bcastPartition, .gatherManifest] ++
        (if g.overrideSet then [] else [.gatherHostnames]) ++
        (if isAsync then (if g.storeBootstrap then [.bcastStoreAddr] else [])
         else [.commitBarrierPre, .commitBarrierPost]))
    ∧ restoreTrace l g =
      [.gatherKeys] ++ (if g.overrideSet then [] else [.gatherHostnames]) ++ g.keys.map .keyBarrier := by
  rw [takeTrace_eq_canon isAsync l g h, restoreTrace_eq_canon l g h]
  exact ⟨rfl, rfl⟩

/-- **A whole job.** When the global key list is what `_gather_keys` computes from the ranks' own
key lists (`sorted(set(union))`), any two ranks of the job agree on the collective sequence of
take, async_take and restore — for every world size and every assignment of local states. -/
theorem C12_world_uniform (locals : List Local) (c : Config) (hv : ∀ l ∈ locals, l.Valid)
    (l₁ l₂ : Local) (h₁ : l₁ ∈ locals) (h₂ : l₂ ∈ locals) (isAsync : Bool) :
    takeTrace isAsync l₁ (globalOf locals c) = takeTrace isAsync l₂ (globalOf locals c)
    ∧ restoreTrace l₁ (globalOf locals c) = restoreTrace l₂ (globalOf locals c) :=
  ⟨C12_take_uniform isAsync l₁ l₂ _ (hv l₁ h₁) (hv l₂ h₂),
   C12_restore_uniform l₁ l₂ _ (hv l₁ h₁) (hv l₂ h₂)⟩

/-- **State registered on only some ranks is saved by, and restored to, exactly those ranks.**
In a job with any local states, a rank calls `state_dict()` for key `k` during take / async_take
(and therefore flattens, prepares and lists it under its own rank prefix) exactly once if it
registered `k` — as a stateful or as its RNGState — and never otherwise; on restore it calls
`load_state_dict()` for `k` exactly once if it registered `k`, never otherwise. -/
theorem C12_saved_by_exactly_those (locals : List Local) (c : Config) (l : Local) (hl : l ∈ locals)
    (hv : l.Valid) (hwf : (l.rngKeys ++ l.keys).Nodup) (k : Key) (isAsync : Bool) :
    (takeEvents isAsync l (globalOf locals c)).count (.stateDict k)
        = (if k ∈ l.rngKeys ++ l.keys then 1 else 0)
    ∧ (restoreEvents l (globalOf locals c)).count (.load k)
        = (if k ∈ l.rngKeys ++ l.keys then 1 else 0) := by
  have hv' : ¬ 1 < l.rngKeys.length := by unfold Local.Valid at hv; omega
  have hnd := List.nodup_append.mp hwf
  have hg : ∀ x, x ∈ l.keys → x ∈ (globalOf locals c).keys :=
    fun x hx => mem_globalKeys_of_mem locals l hl x hx
  have hgn : (globalOf locals c).keys.Nodup := globalKeys_nodup locals
  -- the pieces that never contain `stateDict` / `load`
  have c0 : ∀ isAsync, (takeTail isAsync l (globalOf locals c)).count (.stateDict k) = 0 :=
    fun a => List.count_eq_zero.mpr (stateDict_notMem_takeTail a l _ k)
  have c1 : (prepareEvs l).count (.stateDict k) = 0 :=
    List.count_eq_zero.mpr (stateDict_notMem_prepareEvs l k)
  have c2 : (l.rngKeys.map Ev.load).count (.stateDict k) = 0 := by
    apply List.count_eq_zero.mpr; simp
  have c3 : (budgetEvs (globalOf locals c)).count (.load k) = 0 := by
    apply List.count_eq_zero.mpr; unfold budgetEvs; split <;> simp
  have c4 : (List.count (Ev.stateDict k) (if isAsync = true then [Ev.coll Op.bcastBarrierId] else [])) = 0 := by
    cases isAsync <;> simp
  have hrk : l.rngKeys.count k = if k ∈ l.rngKeys then 1 else 0 := hnd.1.count
  constructor
  · simp only [takeEvents, hv', ite_false, List.count_append, count_map_stateDict,
      count_stateDict_takeKeyLoop l k _ hgn, c0, c1, c2, c4, hrk]
    by_cases h1 : k ∈ l.rngKeys
    · have h2 : k ∉ l.keys := fun h2 => hnd.2.2 k h1 k h2 rfl
      simp [h1, h2]
    · by_cases h2 : k ∈ l.keys
      · simp [h1, h2, hg k h2]
      · simp [h1, h2]
  · simp only [restoreEvents, hv', ite_false, List.count_append, count_flatMap_load,
      count_load_restoreKeyLoop l k _ hgn, c3, hrk]
    by_cases h1 : k ∈ l.rngKeys
    · have h2 : k ∉ l.keys := fun h2 => hnd.2.2 k h1 k h2 rfl
      simp [h1, h2]
    · by_cases h2 : k ∈ l.keys
      · simp [h1, h2, hg k h2]
      · simp [h1, h2]

/-! ## Why the D8 repair is needed (the code before `fix: compute the restore memory budget once`) -/

/-- keys "a" = [97], "b" = [98] -/
private def rankA : Local := ⟨0, [[97]], [], [([97], [.tensor])], 0⟩
private def rankB : Local := ⟨1, [[98]], [], [([98], [.tensor])], 0⟩
private def rankRng : Local := ⟨1, [], [[114]], [([114], [.tensor])], 0⟩
private def rankEmpty : Local := ⟨0, [], [], [], 0⟩
private def cfgNoOverride : Config := ⟨false, false, false, false⟩

/-- **Witness (pre-D8 restore).** Two ranks with disjoint key sets and no budget override: the old
`_load_stateful` issued the hostname all-gather *after* its early return, so rank 0 is in an
all-gather while rank 1 is in the barrier of key "a" — the kinds differ at position 1. -/
theorem C12_witness :
    rankA.Valid ∧ rankB.Valid ∧
    (restoreTracePreD8 rankA (globalOf [rankA, rankB] cfgNoOverride)).map Op.kind
      = [.allGather, .allGather, .barrier, .barrier] ∧
    (restoreTracePreD8 rankB (globalOf [rankA, rankB] cfgNoOverride)).map Op.kind
      = [.allGather, .barrier, .allGather, .barrier] := by
  decide

/-- **Witness (pre-D8 restore, RNGState on one rank only).** The rank holding the RNGState issued a
lone trailing all-gather nobody else joined (here the other rank registers nothing). -/
theorem C12_witness_rng :
    restoreTracePreD8 rankEmpty (globalOf [rankEmpty, rankRng] cfgNoOverride) = [.gatherKeys] ∧
    restoreTracePreD8 rankRng (globalOf [rankEmpty, rankRng] cfgNoOverride)
      = [.gatherKeys, .gatherHostnames] := by
  decide

/-- The repaired restore on the same two jobs: identical traces (instances of `C12_restore_uniform`). -/
example : restoreTrace rankA (globalOf [rankA, rankB] cfgNoOverride)
    = restoreTrace rankB (globalOf [rankA, rankB] cfgNoOverride) := by decide
example : restoreTrace rankA (globalOf [rankA, rankRng] cfgNoOverride)
    = [.gatherKeys, .gatherHostnames, .keyBarrier [97]] := by decide

/-! ## Why the per-key barrier must not depend on what the stateful holds -/

/-- key "m" = [109] registered on both ranks; on rank 0 its state dict is empty, on rank 1 it holds a tensor -/
private def rankHollow : Local := ⟨0, [[109]], [], [([109], [])], 0⟩
private def rankFull : Local := ⟨1, [[109]], [], [([109], [.tensor])], 0⟩

/-- **Witness (barrier skipped for an empty state dict).** With the "skip the iteration when nothing was flattened"
variant of the key loop, the rank whose module has no parameters issues no barrier for key "m" while the other rank
does: the collective sequences differ (the real loop issues the barrier on both, `C12_take_uniform`). -/
theorem C12_witness_skip_barrier_on_empty :
    rankHollow.Valid ∧ rankFull.Valid ∧
    (takeKeyLoopSkipEmpty rankHollow [[109]]).filterMap Ev.op? = [] ∧
    (takeKeyLoopSkipEmpty rankFull [[109]]).filterMap Ev.op? = [.keyBarrier [109]] ∧
    (takeKeyLoop rankHollow [[109]]).filterMap Ev.op? = (takeKeyLoop rankFull [[109]]).filterMap Ev.op? := by
  decide

/-! ## Non-vacuity and the domain remark -/

example : rankA.Valid ∧ rankRng.Valid ∧ (rankRng.rngKeys ++ rankRng.keys).Nodup := by decide
example : (takeTrace false rankB (globalOf [rankA, rankB] cfgNoOverride)).map Op.kind =
    [.broadcast, .allGather, .allGather, .barrier, .barrier, .allGather, .broadcast, .allGather,
     .broadcast, .allGather, .allGather, .barrier, .barrier] := by decide
example : (takeEvents true rankB (globalOf [rankA, rankB] cfgNoOverride)).count (.stateDict [97]) = 0
    ∧ (takeEvents true rankA (globalOf [rankA, rankB] cfgNoOverride)).count (.stateDict [97]) = 1 := by
  decide
/-- Outside the domain: a rank registering two RNGStates raises in `_pop_rng_state` after the two
collectives of `_coalesce_path_and_replicated` and never joins the third. -/
example : takeTrace false ⟨1, [], [[1], [2]], [], 0⟩ (globalOf [rankA] cfgNoOverride)
    = [.bcastPath, .gatherReplicatedGlobs] := by decide

end Ts.Collective
