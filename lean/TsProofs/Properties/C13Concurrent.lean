import TsProofs.Concurrent
import TsProofs.Properties.C02
/-!
# C13 for overlapping pending snapshots

`async_take` may be called again while an earlier pending snapshot is still completing. The two background
completions share only the job-wide store, under different barrier prefixes. `C13_concurrent_independent` shows that
each of them then behaves exactly as if it ran alone, so every single-attempt theorem of C02 / C03 / C13 applies to
each of them.
-/
namespace Ts.Commit
open Ts.Barrier

/-- **Overlapping pending snapshots are independent.** For two attempts with different barrier prefixes interleaved in
any way over the shared store: each attempt's chronological event history equals the history of the run it would have
had alone with its own labels, and so do its program points, write states and the store under its own prefix. -/
theorem C13_concurrent_independent (ca cb : Cfg) (hne : ca.pfx ≠ cb.pfx) (st : Store) (sched : List (Bool × Lbl)) :
    (crun ca cb (CState.init st) sched).a.trace = (arun ca (AState.init st) (proj true sched)).trace ∧
    (crun ca cb (CState.init st) sched).b.trace = (arun cb (AState.init st) (proj false sched)).trace ∧
    Agree ca.pfx (crun ca cb (CState.init st) sched).a (arun ca (AState.init st) (proj true sched)) ∧
    Agree cb.pfx (crun ca cb (CState.init st) sched).b (arun cb (AState.init st) (proj false sched)) := by
  obtain ⟨h1, h2⟩ := concurrent_independent ca cb hne st sched
  exact ⟨by simp [AState.trace, h1.hist], by simp [AState.trace, h2.hist], h1, h2⟩

/-- consequence, spelled out for the commit rule: in any interleaving of two pending snapshots, whenever attempt A's
metadata write has begun, every payload write of every rank of attempt A has returned (and likewise for B) -/
theorem C13_concurrent_commit_last (ca cb : Cfg) (hne : ca.pfx ≠ cb.pfx) (st : Store) (hf : Fresh st ca.pfx)
    (sched : List (Bool × Lbl)) (hm : Ev.mBegin ∈ (crun ca cb (CState.init st) sched).a.trace) :
    ∀ r w, r < ca.n → w < ca.nw r → Ev.wEnd r w ∈ (crun ca cb (CState.init st) sched).a.trace := by
  rw [(C13_concurrent_independent ca cb hne st sched).1] at hm ⊢
  exact (C02_commit_last ca (proj true sched) _).2 st hf (List.prefix_refl _) hm

/-! non-vacuity: two 2-rank attempts, labels alternating, both complete and every rank's wait() returns -/
set_option maxRecDepth 20000 in
example :
    let ca : Cfg := { n := 2, pfx := 5, nw := fun _ => 1, pfail := fun _ _ => false, mfail := false }
    let cb : Cfg := { n := 2, pfx := 6, nw := fun _ => 2, pfail := fun _ _ => false, mfail := false }
    let sched := ((exFair ca 14).map (fun l => (true, l))).zip ((exFair cb 14).map (fun l => (false, l))) |>.flatMap (fun p => [p.1, p.2])
    let s := crun ca cb (CState.init Store.empty) (sched ++ (exFair cb 14).map (fun l => (false, l)))
    Ev.waitOk 1 ∈ s.a.trace ∧ Ev.waitOk 0 ∈ s.a.trace ∧ Ev.waitOk 1 ∈ s.b.trace ∧ Ev.mEnd ∈ s.b.trace := by
  decide

end Ts.Commit
