import TsProofs.CommitFacts
/-!
# C03 — A failed write never yields a committed snapshot, and the failure is reported

Property theorems only. Model: `TsModel.Commit` with a fault plan: `cfg.pfail r w` — payload write
w of rank r raises; `cfg.mfail` — the metadata write raises. Quantifying over all plans covers "the
k-th storage write issued by rank r raises" for every issue order. All statements hold for every
world size, workload, schedule and every reachable state (the schedule is arbitrary and may stop
anywhere).

Scope note (not hidden in a hypothesis): the async statements are about the background completion
(`_complete_snapshot`); a write that already raises while `async_take` itself is still staging in
the foreground makes `async_take` raise on that rank (reported there) and is outside this model.
"Raises rather than hangs" is stated as absence of deadlock; wall-clock timeouts are not modelled.
-/
namespace Ts.Commit
open Ts.Barrier

/-- **A payload fault never yields a commit.** If some payload write of some rank is planned to
raise, the metadata write is never begun — in any state of any run, sync or async. -/
theorem C03_payload_fault_no_commit (cfg : Cfg) (sched : List Lbl) (r w : Nat)
    (hr : r < cfg.n) (hw : w < cfg.nw r) (hf : cfg.pfail r w = true) :
    Ev.mBegin ∉ (srun cfg SState.init sched).trace ∧
    (∀ st, Fresh st cfg.pfx → Ev.mBegin ∉ (arun cfg (AState.init st) sched).trace) := by
  constructor
  · rw [smem_trace]
    exact s_planned_fault_no_mBegin (sinv_reach cfg sched) r w hr hw hf
  · intro st hfr
    rw [amem_trace]
    exact a_planned_fault_no_mBegin (ainv_reach cfg st hfr sched) r w hr hw hf

/-- **Sync: the failing rank's `take` raises.**
(a) A rank with a failing payload write never returns normally, never enters the first barrier,
and is never blocked: in every reachable state it has raised or has an enabled step.
(b) If only the metadata write fails, rank 0 never returns normally (indeed no rank does), and until
`take` has raised on rank 0 some rank has an enabled step. (The other ranks then stay in the second
barrier — the property only demands the exception on the failing rank.) -/
theorem C03_fault_reported_sync (cfg : Cfg) (sched : List Lbl) :
    let s := srun cfg SState.init sched
    (∀ r w, r < cfg.n → w < cfg.nw r → cfg.pfail r w = true →
      Ev.returnOk r ∉ s.trace ∧ Ev.ioComplete r ∉ s.trace ∧
      (Ev.returnRaise r ∈ s.trace ∨ ∃ a, (sstep? cfg s ⟨r, a⟩).isSome = true)) ∧
    (cfg.mfail = true → (∀ r w, r < cfg.n → w < cfg.nw r → cfg.pfail r w = false) → 0 < cfg.n →
      (∀ r, Ev.returnOk r ∉ s.trace) ∧
      (Ev.returnRaise 0 ∈ s.trace ∨ ∃ l, (sstep? cfg s l).isSome = true)) := by
  intro s
  have h : SInv cfg s := sinv_reach cfg sched
  constructor
  · intro r w hr hw hf
    have hne : entered1 (s.pc r) = false := by
      cases he : entered1 (s.pc r) with
      | false => rfl
      | true =>
        have hd := h.a.s_io r he w hw
        have := h.w.done_ok r w hd
        simp [hf] at this
    refine ⟨?_, ?_, ?_⟩
    · rw [smem_trace]
      intro hok
      have := (h.a.rOk r).1 hok
      simp [this, entered1] at hne
    · rw [smem_trace]
      intro hio
      have := (h.a.s_ioC r).1 hio
      simp [this] at hne
    · rcases sfaulty_rank_progress h r w hr hw hf with hp | hp
      · left; rw [smem_trace]; exact (h.a.rRaise r).2 (.inl hp)
      · exact .inr hp
  · intro hmf hnf hn
    have hnoE : Ev.mEnd ∉ s.hist := by
      intro he
      have := h.a.m_ok (h.a.mE.1 he)
      simp [hmf] at this
    refine ⟨?_, ?_⟩
    · intro r hok
      rw [smem_trace] at hok
      exact hnoE (s_returnOk_mEnd h r (s_returnOk_lt h r hok) hok)
    · by_cases hrm : s.pc 0 = .raisedM
      · left; rw [smem_trace]; exact (h.a.rRaise 0).2 (.inr hrm)
      · right
        have hnt : s.pc 0 ≠ .retOk ∧ s.pc 0 ≠ .raisedIO ∧ s.pc 0 ≠ .raisedM := by
          refine ⟨?_, ?_, hrm⟩
          · intro hp
            have := h.a.s_post (by simp [hp, spostMeta])
            exact hnoE (h.a.mE.2 this)
          · intro hp
            have : entered1 (s.pc 0) = false := by simp [hp, entered1]
            have := not_entered1_io h hnf 0 hn this
            simp [hp] at this
        obtain ⟨k, _, a, ha⟩ := sprogress h hnf 0 hn hnt hrm
        exact ⟨⟨k, a⟩, ha⟩

/-- **Async: every rank's `wait()` raises**, for payload faults and for the metadata fault. If the
plan contains any fault, then in every reachable state: no rank has ended with `waitOk` and nothing
is committed; unless every thread has ended some rank has an enabled step (no deadlock); and once
every thread has ended, every rank ended with `waitRaise`. -/
theorem C03_fault_reported_async (cfg : Cfg) (st : Store) (hfr : Fresh st cfg.pfx) (sched : List Lbl)
    (hfault : (∃ r w, r < cfg.n ∧ w < cfg.nw r ∧ cfg.pfail r w = true) ∨ cfg.mfail = true) :
    let s := arun cfg (AState.init st) sched
    (∀ r, Ev.waitOk r ∉ s.trace) ∧ Ev.mEnd ∉ s.trace ∧
    (s.allTerminal cfg = false → ∃ l, (astep? cfg s l).isSome = true) ∧
    (s.allTerminal cfg = true → ∀ r, r < cfg.n → Ev.waitRaise r ∈ s.trace) := by
  intro s
  have h : AInv cfg s := ainv_reach cfg st hfr sched
  have hnoE : Ev.mEnd ∉ s.hist := by
    intro he
    rcases hfault with ⟨r, w, hr, hw, hf⟩ | hmf
    · exact a_planned_fault_no_mBegin h r w hr hw hf (a_mEnd_mBegin h he)
    · have := h.m.m_ok (h.m.mE.1 he)
      simp [hmf] at this
  refine ⟨?_, ?_, a_progress_lbl h, ?_⟩
  · intro r hok
    rw [amem_trace] at hok
    exact hnoE (a_waitOk_mEnd h r hok)
  · rw [amem_trace]; exact hnoE
  · intro ht r hr
    obtain ⟨b, hb⟩ := a_terminal ht r hr
    rw [amem_trace]
    cases b with
    | false => exact (h.m.wRaise r).2 hb
    | true => exact absurd (a_waitOk_mEnd h r ((h.m.wOk r).2 hb)) hnoE

/-- **No rank reports success for a snapshot that is not committed.** In every reachable state of
every run: `take` returned on rank r (sync) / rank r's `wait()` returns (async) only if the metadata
write has returned. -/
theorem C03_no_false_success (cfg : Cfg) (sched : List Lbl) (r : Nat) :
    (Ev.returnOk r ∈ (srun cfg SState.init sched).trace → Ev.mEnd ∈ (srun cfg SState.init sched).trace) ∧
    (∀ st, Fresh st cfg.pfx → Ev.waitOk r ∈ (arun cfg (AState.init st) sched).trace →
      Ev.mEnd ∈ (arun cfg (AState.init st) sched).trace) := by
  constructor
  · intro hw
    rw [smem_trace] at hw ⊢
    have h := sinv_reach cfg sched
    exact s_returnOk_mEnd h r (s_returnOk_lt h r hw) hw
  · intro st hf hw
    rw [amem_trace] at hw ⊢
    exact a_waitOk_mEnd (ainv_reach cfg st hf sched) r hw

/-- Without any planned fault nothing ever fails (the model has no spurious failures): no write
raises, `sync_complete` never raises, nobody's `take`/`wait()` raises. -/
theorem C03_no_fault_no_failure (cfg : Cfg) (sched : List Lbl)
    (hnf : ∀ r w, cfg.pfail r w = false) (hmf : cfg.mfail = false) :
    (∀ r, Ev.returnRaise r ∉ (srun cfg SState.init sched).trace) ∧
    (∀ st, Fresh st cfg.pfx → ∀ r, Ev.ioFail r ∉ (arun cfg (AState.init st) sched).trace ∧
      Ev.mFail ∉ (arun cfg (AState.init st) sched).trace) := by
  constructor
  · intro r hr
    rw [smem_trace] at hr
    have h := sinv_reach cfg sched
    rcases (h.a.rRaise r).1 hr with hp | hp
    · obtain ⟨w, _, hfl⟩ := h.a.s_rio r hp
      have := h.w.failed_plan r w hfl
      simp [hnf r w] at this
    · have := h.a.m_fail (h.a.s_exc (.inr (by
        have := h.a.s_lead r (by simp [hp, sleaderPC])
        subst this; exact hp)))
      simp [hmf] at this
  · intro st hf r
    have h := ainv_reach cfg st hf sched
    refine ⟨?_, ?_⟩
    · rw [amem_trace]; intro hr
      obtain ⟨w, _, hp⟩ := a_ioFail_lt h r hr
      simp [hnf r w] at hp
    · rw [amem_trace]; intro hm
      have := h.m.m_fail (h.m.mF.1 hm)
      simp [hmf] at this

/-! ## Non-vacuity -/

set_option maxRecDepth 20000

def c3Fair (cfg : Cfg) (k : Nat) : List Lbl :=
  (List.replicate k ((List.range cfg.n).flatMap (lblsOf cfg))).flatten

/-- Sync, 3 ranks, rank 1's second write fails: rank 1 raises, nobody returns, metadata never begun,
ranks 0 and 2 sit in the first barrier. -/
example :
    let c : Cfg := { n := 3, pfx := 0, nw := fun _ => 2, pfail := fun r w => r == 1 && w == 1, mfail := false }
    let s := srun c SState.init (c3Fair c 12)
    Ev.returnRaise 1 ∈ s.trace ∧ Ev.mBegin ∉ s.trace ∧ Ev.returnOk 0 ∉ s.trace ∧
    s.pc 0 = .in1 ∧ s.pc 2 = .in1 ∧ senabled c s = [] := by
  decide

/-- Sync, metadata write fails: rank 0 raises, rank 1 stays in the second barrier. -/
example :
    let c : Cfg := { n := 2, pfx := 0, nw := fun _ => 1, pfail := fun _ _ => false, mfail := true }
    let s := srun c SState.init (c3Fair c 12)
    Ev.returnRaise 0 ∈ s.trace ∧ Ev.mFail ∈ s.trace ∧ s.pc 1 = .in2 ∧ Ev.returnOk 1 ∉ s.trace := by
  decide

/-- Async, rank 0's (the leader's) payload write fails: every rank's `wait()` raises. -/
example :
    let c : Cfg := { n := 3, pfx := 0, nw := fun _ => 1, pfail := fun r _ => r == 0, mfail := false }
    let s := arun c (AState.init Store.empty) (c3Fair c 16)
    s.allTerminal c = true ∧ Ev.waitRaise 0 ∈ s.trace ∧ Ev.waitRaise 1 ∈ s.trace ∧
    Ev.waitRaise 2 ∈ s.trace ∧ Ev.mBegin ∉ s.trace := by
  decide

end Ts.Commit
