import TsProofs.InflateMain
/-!
# C15 — Flatten/inflate is an exact inverse for every nested container

Property theorems only.  Model: `TsModel.Path` (`_encode`/`_decode`, split/join, `str(int)`,
`int(str)`) and `TsModel.Flatten` (`flatten`, `inflate`, `_should_flatten_dict`,
`_populate_container`, container entries) mirroring `torchsnapshot/flatten.py` after the D9 repair
(`fd32cc5`: dict keys are matched by their `str()` form).  Helper lemmas: `TsProofs.Path`,
`TsProofs.Flatten`, `TsProofs.Inflate`, `TsProofs.InflateMain`.
-/
namespace Ts.Flatten
open Ts.Path

/-- `_decode(_encode(s)) == s` for every string (any code points, incl. `%`, `/`, existing
percent-escapes, surrogates). -/
theorem C15_decode_encode (s : Str) : decode (encode s) = .ok s := decode_encode s

/-- `_encode` is injective: two different keys never give the same path component. -/
theorem C15_encode_injective (a b : Str) (h : encode a = encode b) : a = b := encode_injective h

/-- The image of `_encode` never contains `/`, so `/` only ever separates path components. -/
theorem C15_encode_no_slash (s : Str) : 47 ∉ encode s := encode_no_slash s

/-- `"/".join(l).split("/") == l` for every non-empty list of `/`-free components: a path
determines its components. -/
theorem C15_split_join (l : List Str) (hne : l ≠ []) (hl : ∀ c ∈ l, 47 ∉ c) :
    splitSlash (joinSlash l) = l := split_join l hne hl

/-- `int(str(i)) == i` for every list index `i`, and `str` is injective on indices. -/
theorem C15_int_of_str_nat (i : Nat) :
    pyInt (natStr i) = .ok (i : Int) ∧ ∀ j, natStr i = natStr j → i = j :=
  ⟨pyInt_natStr i, fun _ h => natStr_injective h⟩

/-- `_should_flatten_dict(d)` holds exactly when every key is a `str` or an `int` (incl. `bool`)
and the `str()` forms of the keys are pairwise distinct. -/
theorem C15_should_flatten_iff (keys : List Key) :
    shouldFlatten keys = true ↔
      (∀ k ∈ keys, k.isStrOrInt = true) ∧ (keys.map Key.toStr).Nodup :=
  shouldFlatten_iff keys

/-- A dict that must not be flattened (a key that is neither `str` nor `int`, or two keys with
the same `str()`) is stored whole, as one opaque leaf under its own path. -/
theorem C15_unflattenable_kept_whole (k : Kind) (kvs : List (Key × Tree)) (pre : Str)
    (h : shouldFlatten (kvs.map (·.1)) = false) :
    flatten (.dict k kvs) pre = ([], [(encode pre, .dict k kvs)]) := by
  simp [flatten, flattenT, h]

/-- For every tree and prefix, all paths `flatten` emits (container manifest and leaf map
together) are pairwise distinct: no `dict.update` in `_flatten` ever overwrites an entry. -/
theorem C15_flatten_paths_unique (t : Tree) (pre : Str) :
    ((flatten t pre).1.map (·.1) ++ (flatten t pre).2.map (·.1)).Nodup :=
  flatten_paths_nodup t pre

/-- **Exact inverse.** For every prefix and every tree that is a Python object (each dict has
keys pairwise distinct under `==`, `True ≡ 1`), of any depth and any sizes, over any keys
(`str` of arbitrary code points, `int` of any magnitude and sign, `bool`, tuples),
`inflate(*flatten(t, prefix), prefix)` returns exactly `t`: same container kinds (list / dict /
OrderedDict), same keys with their original types, same key order, same leaf under each key;
dicts that cannot be flattened come back as the very object that was stored. -/
theorem C15_inverse (t : Tree) (pre : Str) (hwf : t.wf = true) :
    inflate (flatten t pre).1 (flatten t pre).2 pre = .ok t :=
  inflate_flatten t pre hwf

/-- The same after the container manifest has gone through metadata serialization, for any
writer/reader pair that returns the manifest it was given.  The hypothesis `hC14` is exactly the
conclusion of property C14 (`read (print md) = ok md`) for this manifest; the JSON round trip
itself is proved there, not here. -/
theorem C15_inverse_after_metadata {ε σ : Type} (write : Manifest → σ)
    (read : σ → Except ε Manifest) (t : Tree) (pre : Str) (hwf : t.wf = true)
    (hC14 : read (write (flatten t pre).1) = .ok (flatten t pre).1) :
    ∃ m', read (write (flatten t pre).1) = .ok m' ∧ inflate m' (flatten t pre).2 pre = .ok t :=
  ⟨_, hC14, C15_inverse t pre hwf⟩

/-! ## Non-vacuity: concrete adversarial instances satisfy the hypotheses -/

/-- `{1: [L1, OrderedDict({"01": L2, False: L3})], "+1": L4, "a/b": {1: L5, "1": L6}, "": L7, "%2F": [], -3: None}`
— int vs int-like strings, a bool key, `/` and `%` in keys, the empty key, an unflattenable dict
(`1` and `"1"` collide) kept as a leaf, nesting depth 3. -/
def exampleTree : Tree :=
  .dict .dict [
    (.int 1, .list [.leaf 1, .dict .odict [(.str [48, 49], .leaf 2), (.bool false, .leaf 3)]]),
    (.str [43, 49], .leaf 4),
    (.str [97, 47, 98], .dict .dict [(.int 1, .leaf 5), (.str [49], .leaf 6)]),
    (.str [], .leaf 7),
    (.str [37, 50, 70], .list []),
    (.int (-3), .leaf 0) ]

example : exampleTree.wf = true := by decide

/-- `{1: _, "1": _}` is not flattened (colliding `str()`), `{1, "01", "+1", True, ""}` is. -/
example : shouldFlatten [.int 1, .str [49]] = false := by
  have h : natStr 1 = [49] := by rw [natStr]; rfl
  simp [shouldFlatten, Key.isStrOrInt, Key.toStr, intStr, h, dedupStr]

example : shouldFlatten [.int 1, .str [48, 49], .str [43, 49], .bool true, .str []] = true := by
  have h : natStr 1 = [49] := by rw [natStr]; rfl
  simp [shouldFlatten, Key.isStrOrInt, Key.toStr, intStr, h, dedupStr]

/-- The inverse theorem applies to the adversarial example, with a prefix containing `/` and `%`. -/
example : inflate (flatten exampleTree [109, 47, 37]).1 (flatten exampleTree [109, 47, 37]).2 [109, 47, 37]
    = .ok exampleTree :=
  C15_inverse exampleTree [109, 47, 37] (by decide)

/-- `hC14` of `C15_inverse_after_metadata` is satisfiable (identity writer/reader). -/
example : ∃ m', (Except.ok (ε := Unit) ((flatten exampleTree []).1)) = .ok m' ∧
    inflate m' (flatten exampleTree []).2 [] = .ok exampleTree :=
  C15_inverse_after_metadata (ε := Unit) id (fun m => .ok m) exampleTree [] (by decide) rfl

/-- The well-formedness hypothesis only excludes association lists that are not Python dicts:
`1` and `True` are the same dict key. -/
example : (Tree.dict .dict [(.int 1, .leaf 1), (.bool true, .leaf 2)]).wf = false := by decide

end Ts.Flatten
