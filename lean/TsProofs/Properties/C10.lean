import TsProofs.Sched
/-!
# C10 — I/O pipelines respect the memory budget and the concurrency cap

Property theorems only. Model: `TsModel.Sched` (mirrors `scheduler.py`: `execute_write_reqs`,
`PendingIOWork.complete`, `execute_read_reqs`, `get_process_memory_budget_bytes`).
A *reachable state* is the result `s` of replaying any event list `tr` from the initial state
(`wrun cfg.cap (wInit cfg) tr = .ok s`, read side `rrun … (rInit cfg) …`): request lists, budgets,
caps and event orders are arbitrary; all proofs are inductions over `tr`.

Known finding D15 (stays): the bound theorems need `buf ≤ cost` for every request, which real stagers
violate (`ObjectBufferStager` uses `sys.getsizeof`, `torch.save` overhead, merged read requests).
The unrestricted statement
  `∀ cfg tr s, wrun cfg.cap (wInit cfg) tr = .ok s → accounted s ≤ B ∨ inflight s ≤ 1`
is false: `C10_witness_underdeclared`.
-/
namespace Ts.Sched

/-- In every reachable state of either pipeline, the remaining budget plus the bytes the scheduler
accounts to in-flight requests (write: declared cost while staging, buffer size until written; read:
declared cost from admission until consumption ends) equals the budget the pipeline was given. No
hypothesis on the requests, the budget (any integer) or the cap. -/
theorem C10_conservation (cfg : Config) :
    (∀ tr s, wrun cfg.cap (wInit cfg) tr = .ok s → s.budget + (s.accounted : Int) = cfg.budget) ∧
    (∀ tr s, rrun cfg.cap (rInit cfg) tr = .ok s → s.budget + (s.accounted : Int) = cfg.budget) :=
  ⟨wreach_conservation cfg, rreach_conservation cfg⟩

/-- Write pipeline, requests whose buffer is not larger than the declared cost, budget ≥ 0: in
every reachable state the accounted bytes are within the budget, or at most one request is in
flight, and that request was admitted by a `stageStart` event that found the pipeline empty and after
which nothing else was admitted. -/
theorem C10_bound_write (cfg : Config) (hB : 0 ≤ cfg.budget)
    (hle : ∀ q ∈ cfg.reqs, q.buf ≤ q.cost) (tr : List WEvent) :
    ∀ s, wrun cfg.cap (wInit cfg) tr = .ok s →
      (s.accounted : Int) ≤ cfg.budget ∨
      (s.inflight ≤ 1 ∧ ∃ pre r post s0, tr = pre ++ ⟨.stageStart, r⟩ :: post ∧
        (∀ e ∈ post, e.kind ≠ .stageStart) ∧ wrun cfg.cap (wInit cfg) pre = .ok s0 ∧ s0.inflight = 0) := by
  induction tr using snoc_induction with
  | hnil =>
    intro s h
    simp [wrun] at h
    subst h
    left
    have : (wInit cfg).accounted = 0 := wInit_sum cfg _ (fun r => rfl)
    rw [this]; simpa using hB
  | hsnoc tr e ih =>
    intro s h
    obtain ⟨s1, h1, hstep⟩ := wrun_snoc h
    have hcons := wreach_conservation cfg tr s1 h1
    have hreq := wreach_reqs cfg (fun q => q.buf ≤ q.cost) hle tr s1 h1
    obtain ⟨k, r⟩ := e
    by_cases hk : k = .stageStart
    · subst hk
      rcases wstep_stageStart hstep hcons with ⟨h0, h1'⟩ | hlt
      · right
        exact ⟨by omega, tr, r, [], s1, rfl, by simp, h1, h0⟩
      · left; omega
    · obtain ⟨hacc, hinf⟩ := wstep_nonStageStart hstep hk hreq
      rcases ih s1 h1 with hl | ⟨hi, pre, r0, post, s0, htr, hpost, hpre, h0⟩
      · left; omega
      · right
        refine ⟨by omega, pre, r0, post ++ [⟨k, r⟩], s0, ?_, ?_, hpre, h0⟩
        · simp [htr]
        · intro e he
          rcases List.mem_append.mp he with he | he
          · exact hpost e he
          · simp at he; subst he; exact hk

/-- Read pipeline (with the D5 repair), same hypotheses: the bytes accounted as the property counts
them (declared cost while the read is in flight, buffer size while it is consumed) are within the
budget, or at most one request is in flight and it was started from the empty pipeline, with no
other read started since. -/
theorem C10_bound_read (cfg : Config) (hB : 0 ≤ cfg.budget)
    (hle : ∀ q ∈ cfg.reqs, q.buf ≤ q.cost) (tr : List REvent) :
    ∀ s, rrun cfg.cap (rInit cfg) tr = .ok s →
      (s.accountedReal : Int) ≤ cfg.budget ∨
      (s.inflight ≤ 1 ∧ ∃ pre r post s0, tr = pre ++ ⟨.ioStart, r⟩ :: post ∧
        (∀ e ∈ post, e.kind ≠ .ioStart) ∧ rrun cfg.cap (rInit cfg) pre = .ok s0 ∧ s0.inflight = 0) := by
  have key : ∀ s, rrun cfg.cap (rInit cfg) tr = .ok s →
      (s.accounted : Int) ≤ cfg.budget ∨
      (s.inflight ≤ 1 ∧ ∃ pre r post s0, tr = pre ++ ⟨.ioStart, r⟩ :: post ∧
        (∀ e ∈ post, e.kind ≠ .ioStart) ∧ rrun cfg.cap (rInit cfg) pre = .ok s0 ∧ s0.inflight = 0) := by
    induction tr using snoc_induction with
    | hnil =>
      intro s h
      simp [rrun] at h
      subst h
      left
      have : (rInit cfg).accounted = 0 := rInit_sum cfg _ (fun r => rfl)
      rw [this]; simpa using hB
    | hsnoc tr e ih =>
      intro s h
      obtain ⟨s1, h1, hstep⟩ := rrun_snoc h
      have hcons := rreach_conservation cfg tr s1 h1
      obtain ⟨k, r⟩ := e
      by_cases hk : k = .ioStart
      · subst hk
        rcases rstep_start hstep hcons with ⟨h0, h1'⟩ | hlt
        · right
          exact ⟨by omega, tr, r, [], s1, rfl, by simp, h1, h0⟩
        · left; omega
      · obtain ⟨hacc, hinf⟩ := rstep_nonstart hstep hk
        rcases ih s1 h1 with hl | ⟨hi, pre, r0, post, s0, htr, hpost, hpre, h0⟩
        · left; omega
        · right
          refine ⟨by omega, pre, r0, post ++ [⟨k, r⟩], s0, ?_, ?_, hpre, h0⟩
          · simp [htr]
          · intro e he
            rcases List.mem_append.mp he with he | he
            · exact hpost e he
            · simp at he; subst he; exact hk
  intro s h
  have hreal := accountedReal_le (rreach_reqs cfg (fun q => q.buf ≤ q.cost) hle tr s h)
  rcases key s h with hl | hr
  · left; omega
  · exact Or.inr hr

/-- In every reachable state of either pipeline the number of storage operations in flight
(`len(io_tasks)`) is at most the configured per-rank I/O concurrency. -/
theorem C10_concurrency (cfg : Config) :
    (∀ tr s, wrun cfg.cap (wInit cfg) tr = .ok s → s.nIo ≤ cfg.cap) ∧
    (∀ tr s, rrun cfg.cap (rInit cfg) tr = .ok s → s.nIo ≤ cfg.cap) := by
  constructor
  · intro tr s h
    refine wrun_invariant (cap := cfg.cap) (fun s => s.nIo ≤ cfg.cap) ?_ tr (wInit cfg) s ?_ h
    · intro s e s' hP hs; exact wstep_nIo hs hP
    · have : (wInit cfg).nIo = 0 := wInit_sum cfg _ (fun r => rfl)
      show (wInit cfg).nIo ≤ cfg.cap
      omega
  · intro tr s h
    refine rrun_invariant (cap := cfg.cap) (fun s => s.nIo ≤ cfg.cap) ?_ tr (rInit cfg) s ?_ h
    · intro s e s' hP hs; exact rstep_nIo hs hP
    · have : (rInit cfg).nIo = 0 := rInit_sum cfg _ (fun r => rfl)
      show (rInit cfg).nIo ≤ cfg.cap
      omega

/-- When a pipeline has finished (every request done, nothing raised) the remaining budget is
exactly the budget it was given: everything taken has been returned. -/
theorem C10_returned (cfg : Config) :
    (∀ tr s, wrun cfg.cap (wInit cfg) tr = .ok s → s.outcome = .ok → s.budget = cfg.budget) ∧
    (∀ tr s, rrun cfg.cap (rInit cfg) tr = .ok s → s.outcome = .ok → s.budget = cfg.budget) := by
  constructor
  · intro tr s h ho
    have hc := wreach_conservation cfg tr s h
    have := allDone_accounted_w (woutcome_ok ho).2
    rw [this] at hc; simpa using hc
  · intro tr s h ho
    have hc := rreach_conservation cfg tr s h
    have := allDone_accounted_r (routcome_ok ho).2
    rw [this] at hc; simpa using hc

/-- Automatic budgets. `ranks` lists (hostname, available memory sampled by that rank) for the whole
job. For any host `h` on which every rank sampled at most `A` available bytes: the budgets chosen by
the ranks of `h` (each divides its own share by the number of ranks that reported hostname `h`)
sum to at most the configured fraction (`_AVAILABLE_MEMORY_MULTIPLIER` = 3/5) of `A`, and every
budget is at most `_MAX_PER_RANK_MEMORY_BUDGET_BYTES`. -/
theorem C10_auto_budget {α : Type} [DecidableEq α] (ranks : List (α × Nat)) (h : α) (A : Nat)
    (hA : ∀ p ∈ ranks, p.1 = h → p.2 ≤ A) :
    sumBy (fun p => Budget.autoVal p.2 (Budget.localWorldSize (ranks.map (·.1)) h))
        (ranks.filter (fun p => p.1 = h)) ≤ Budget.availableShare A ∧
    (∀ avail lws v, Budget.auto avail lws = .ok v → v ≤ Ts.Gen.maxPerRankMemoryBudgetBytes) ∧
    (∀ avail lws, 0 < lws → Budget.auto avail lws = .ok (Budget.autoVal avail lws)) := by
  refine ⟨?_, ?_, ?_⟩
  · have hlen : (ranks.filter (fun p => p.1 = h)).length
        = Budget.localWorldSize (ranks.map (·.1)) h := by
      simp only [Budget.localWorldSize]
      induction ranks with
      | nil => simp
      | cons p ps ih =>
        have ih' := ih (fun q hq => hA q (List.mem_cons_of_mem _ hq))
        by_cases hp : p.1 = h
        · simp [List.filter, hp, ih']
        · simp [List.filter, hp, ih']
    generalize Budget.localWorldSize (ranks.map (·.1)) h = lws at *
    have hterm : ∀ p ∈ ranks.filter (fun p => p.1 = h),
        Budget.autoVal p.2 lws ≤ Budget.availableShare A / lws := by
      intro p hp
      simp only [List.mem_filter, decide_eq_true_eq] at hp
      have hle := hA p hp.1 hp.2
      have hshare : Budget.availableShare p.2 ≤ Budget.availableShare A := by
        simp only [Budget.availableShare]
        exact Nat.div_le_div_right (Nat.mul_le_mul_right _ hle)
      have : Budget.availableShare p.2 / lws ≤ Budget.availableShare A / lws :=
        Nat.div_le_div_right hshare
      simp only [Budget.autoVal]
      omega
    have := sumBy_const_le (fun p : α × Nat => Budget.autoVal p.2 lws) _ _ hterm
    rw [hlen] at this
    exact Nat.le_trans this (Nat.mul_div_le _ _)
  · intro avail lws v hv
    simp only [Budget.auto] at hv
    split at hv
    · simp at hv
    · simp at hv
      subst hv
      simp only [Budget.autoVal]
      omega
  · intro avail lws hl
    simp only [Budget.auto]
    have : ¬ lws = 0 := by omega
    simp [this]

/-- An override that `int()` parses is returned verbatim, whatever the machine state; an absent or
unparseable one falls back to the automatic rule. -/
theorem C10_override {α : Type} [DecidableEq α] (v : Int) (avail : Nat) (hosts : List α) (mine : α) :
    Budget.processBudget (.value v) avail hosts mine = .ok v ∧
    Budget.processBudget .absent avail hosts mine
      = Budget.processBudget .unparseable avail hosts mine ∧
    (0 < Budget.localWorldSize hosts mine →
      Budget.processBudget .absent avail hosts mine
        = .ok (Budget.autoVal avail (Budget.localWorldSize hosts mine) : Int)) := by
  refine ⟨rfl, rfl, ?_⟩
  intro h
  have : ¬ Budget.localWorldSize hosts mine = 0 := by omega
  simp [Budget.processBudget, Budget.auto, this]

/-- D15 (known finding): without `buf ≤ cost` the bound fails. Two requests that declare 1 byte and
produce 5, budget 4, cap 2: after both are staged 10 bytes are accounted with two requests in
flight, and the remaining budget is −6. -/
theorem C10_witness_underdeclared :
    ∃ s, wrun 2 (wInit { reqs := [⟨1, 5⟩, ⟨1, 5⟩], budget := 4, cap := 2 })
        [⟨.stageStart, 0⟩, ⟨.stageStart, 1⟩, ⟨.stageDone, 0⟩, ⟨.ioStart, 0⟩, ⟨.stageDone, 1⟩] = .ok s ∧
      s.accounted = 10 ∧ s.inflight = 2 ∧ s.budget = -6 ∧
      ¬ ((s.accounted : Int) ≤ 4 ∨ s.inflight ≤ 1) :=
  ⟨⟨[⟨⟨1, 5⟩, .io⟩, ⟨⟨1, 5⟩, .rfi⟩], -6, false⟩, eq_ok_of_toOption (by decide), by decide, by decide,
    by decide, by decide⟩

/-! Non-vacuity: concrete instances. -/

/-- costs below / equal to / above the budget, `buf ≤ cost`, an oversized request runs alone. -/
example : let cfg : Config := { reqs := [⟨1, 1⟩, ⟨3, 2⟩, ⟨4, 4⟩, ⟨9, 9⟩, ⟨0, 0⟩], budget := 4, cap := 2 }
    (∀ q ∈ cfg.reqs, q.buf ≤ q.cost) ∧ (0 : Int) ≤ cfg.budget ∧
    (wRunGreedy cfg).2.outcome = .ok ∧ (wRunGreedy cfg).2.budget = 4 ∧
    waccepts cfg (wRunGreedy cfg).1 = true ∧
    waccepts cfg [⟨.stageStart, 3⟩] = true ∧          -- 9 > 4 admitted from the empty pipeline
    waccepts cfg [⟨.stageStart, 0⟩, ⟨.stageStart, 3⟩] = false ∧ -- … but not next to another request
    waccepts cfg [⟨.stageStart, 0⟩, ⟨.stageStart, 1⟩] = false ∧ -- 3 < 3 is false (strict comparison)
    waccepts cfg [⟨.stageStart, 0⟩, ⟨.stageStart, 4⟩, ⟨.stageDone, 0⟩, ⟨.stageDone, 4⟩] = false := by  -- skipped dispatch_io
  decide

example : let cfg : Config := { reqs := [⟨6, 6⟩, ⟨20, 20⟩, ⟨1, 1⟩], budget := 10, cap := 1 }
    (rRunGreedy cfg).2.outcome = .ok ∧ (rRunGreedy cfg).2.budget = 10 ∧
    raccepts cfg (rRunGreedy cfg).1 = true ∧
    -- D5: an over-budget read is not admitted while another request is still being consumed
    raccepts cfg [⟨.ioStart, 0⟩, ⟨.ioDone, 0⟩, ⟨.ioStart, 1⟩] = false := by
  decide

example : (Budget.processBudget .absent 1000 ["a", "b", "a"] "a").toOption = some 300 ∧
    (Budget.processBudget .absent (10 ^ 12) ["a"] "a").toOption = some 34359738368 ∧
    isOk (Budget.processBudget .absent 1000 ["a"] "b") = false := by
  decide

end Ts.Sched
