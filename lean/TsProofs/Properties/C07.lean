import TsProofs.ManifestOps
import TsProofs.Partition
import TsProofs.Glob   -- fnmatch model: which paths a replication glob selects
import TsProofs.Properties.C01World   -- whole-job theorems (C06_world_*, C07_world_*) audited with this property too
/-!
# C07 — Who can load what: replicated everywhere, sharded reshards, private stays put

Property theorems only. Model: `TsModel.ManifestOps` (mirrors `manifest_ops.py` after the D14 repair).
`W` is the world size of the snapshot, `gm` its global manifest (`"rank/logical_path" → entry`), `rank`
the index of the restoring rank — any natural number, so every restoring world size `W'` and every
`rank < W'` is covered, in particular `rank ≥ W`. Nothing is assumed about `gm`, the number of entries
or the nesting depth. `viewFor` is `get_manifest_for_rank`; `handleElasticity` is
`handle_sharded_tensor_elasticity`.
-/
namespace Ts.ManifestOps
open Ts.Partition

/-- Every replicated entry in rank 0's part of the snapshot (that is where consolidation puts them,
see `C07_replicated_everywhere_saved`) is in the view of **every** restoring rank — ranks that took the
snapshot and ranks with index `≥ W` alike — with exactly its saved entry, and it is still there after
the sharded-tensor elasticity pass, whatever is requested. -/
theorem C07_replicated_everywhere (W : Nat) (gm : Manifest) (rank : Nat) (rtm : List Manifest) (m0 v merged : Manifest)
    (hsplit : rankToManifest W gm = .ok rtm) (h0 : rtm[0]? = some m0)
    (hv : viewFor W gm rank = .ok (v, merged)) (p : Str) (e : Entry)
    (hp : alookup m0 p = some e) (hrep : isReplicated e = true) :
    alookup v p = some e ∧
    ∀ requests final, handleElasticity false v merged requests = .ok final → alookup final p = some e := by
  obtain ⟨hlen, hn⟩ := rankToManifest_inv W gm rtm hsplit
  simp only [viewFor, hsplit] at hv
  have hns : isSharded e = false := by cases e <;> simp [isReplicated, isSharded] at hrep ⊢
  have hnd : isDict e = false := by cases e <;> simp [isReplicated, isDict] at hrep ⊢
  have hnc : isContainer e = false := by cases e <;> simp [isReplicated, isContainer] at hrep ⊢
  have hvp : alookup v p = some e ∧ (akeys v).Nodup ∧ merged = mergeSharded rtm := by
    by_cases hr : rank < rtm.length
    · obtain ⟨own, hown⟩ : ∃ own, rtm[rank]? = some own := ⟨rtm[rank], List.getElem?_eq_getElem hr⟩
      obtain ⟨hm, hnv, hl⟩ := viewOf_existing rtm hn rank v merged own m0 hr hown h0 hv
      refine ⟨?_, hnv, hm⟩
      rw [hl p]; simp [ownOrReplicated, hp, hrep, hns]
    · obtain ⟨hm, hnv, hl⟩ := viewOf_new rtm hn rank v merged m0 hr h0 hv
      refine ⟨?_, hnv, hm⟩
      have : removable m0 p = false := by simp [removable, hp, hrep]
      rw [hl p, this, hp]
      cases e <;> simp [newRankEntry, isReplicated] at hrep ⊢
  refine ⟨hvp.1, fun requests final hf => ?_⟩
  have hall : AllSharded merged := by
    rw [hvp.2.2]; exact fun p e h => mergeSharded_all_sharded rtm p e h
  exact (handleElasticity_spec v merged final requests hall hvp.2.1 hf).keep p e hvp.1 hns hnd

/-- A non-replicated, non-sharded leaf (the rank's private state) is delivered only to the rank index
that saved it: whatever private leaf a restoring rank sees at a path is the entry that *this* rank
saved there — so a rank with index `≥ W` sees none at all and no rank ever sees another rank's private
leaf; and a rank `< W` does see each of its own private leaves (unless rank 0 holds a replicated entry
under the same path). The elasticity pass neither adds nor removes private leaves. -/
theorem C07_private_stays (W : Nat) (gm : Manifest) (rank : Nat) (rtm : List Manifest) (v merged : Manifest)
    (hsplit : rankToManifest W gm = .ok rtm) (hv : viewFor W gm rank = .ok (v, merged)) :
    (∀ p e, alookup v p = some e → isPrivateLeaf e = true →
        rank < W ∧ ∃ own, rtm[rank]? = some own ∧ alookup own p = some e) ∧
    (∀ own m0 p e, rtm[rank]? = some own → rtm[0]? = some m0 → alookup own p = some e → isPrivateLeaf e = true →
        (∀ e0, alookup m0 p = some e0 → isReplicated e0 = false) → alookup v p = some e) ∧
    (∀ requests final, handleElasticity false v merged requests = .ok final →
        ∀ p e, isPrivateLeaf e = true → (alookup final p = some e ↔ alookup v p = some e)) := by
  obtain ⟨hlen, hn⟩ := rankToManifest_inv W gm rtm hsplit
  simp only [viewFor, hsplit] at hv
  have priv_flags : ∀ e, isPrivateLeaf e = true → isSharded e = false ∧ isDict e = false ∧ isReplicated e = false ∧
      isContainer e = false := by
    intro e he; cases e <;> simp_all [isPrivateLeaf, isSharded, isDict, isReplicated, isContainer]
  by_cases hr : rank < rtm.length
  · obtain ⟨own, hown⟩ : ∃ own, rtm[rank]? = some own := ⟨rtm[rank], List.getElem?_eq_getElem hr⟩
    obtain ⟨m0, h0⟩ : ∃ m0, rtm[0]? = some m0 := ⟨rtm[0], List.getElem?_eq_getElem (by omega)⟩
    obtain ⟨hm, hnv, hl⟩ := viewOf_existing rtm hn rank v merged own m0 hr hown h0 hv
    have hall : AllSharded merged := by rw [hm]; exact fun p e h => mergeSharded_all_sharded rtm p e h
    refine ⟨?_, ?_, ?_⟩
    · intro p e hp he
      obtain ⟨hs, _, hrp, _⟩ := priv_flags e he
      refine ⟨by omega, own, hown, ?_⟩
      rw [hl p] at hp
      -- the entry comes from `ownOrReplicated`; it is not replicated, so it is the rank's own
      cases ho : ownOrReplicated m0 own p with
      | none => rw [ho] at hp; simp at hp
      | some e' =>
        rw [ho] at hp; simp only at hp
        cases hs' : isSharded e' with
        | true =>
          rw [hs'] at hp; simp only [ite_true] at hp
          have := hall p e hp; rw [hs] at this; simp at this
        | false =>
          rw [hs'] at hp; simp only [Bool.false_eq_true, ite_false] at hp
          injection hp with hp; subst hp
          unfold ownOrReplicated at ho
          cases h0p : alookup m0 p with
          | none => rw [h0p] at ho; exact ho
          | some e0 =>
            rw [h0p] at ho; simp only at ho
            split at ho
            · rename_i hr0; injection ho with ho; subst ho; rw [hrp] at hr0; simp at hr0
            · exact ho
    · intro own' m0' p e hown' h0' hp he hno
      rw [hown] at hown'; injection hown' with hown'; subst hown'
      rw [h0] at h0'; injection h0' with h0'; subst h0'
      obtain ⟨hs, _, _, _⟩ := priv_flags e he
      have : ownOrReplicated m0 own p = some e := by
        unfold ownOrReplicated
        cases h0p : alookup m0 p with
        | none => exact hp
        | some e0 => simp [hno e0 h0p, hp]
      rw [hl p, this]; simp [hs]
    · intro requests final hf p e he
      obtain ⟨hs, hd, _, _⟩ := priv_flags e he
      have E := handleElasticity_spec v merged final requests hall hnv hf
      exact ⟨fun h => E.nothing_new p e h hs hd, fun h => E.keep p e h hs hd⟩
  · refine ⟨?_, ?_, ?_⟩
    · intro p e hp he
      obtain ⟨_, _, hrp, hc⟩ := priv_flags e he
      cases h0 : rtm[0]? with
      | none => simp [viewOf, hr, viewNew, h0, Except.map] at hv
      | some m0 =>
        obtain ⟨hm, hnv, hl⟩ := viewOf_new rtm hn rank v merged m0 hr h0 hv
        rw [hl p] at hp
        split at hp
        · simp at hp
        · rename_i hrm
          cases h0p : alookup m0 p with
          | none => rw [h0p] at hp; simp at hp
          | some e0 =>
            rw [h0p] at hp; simp only [Option.map_some, Option.some.injEq] at hp
            -- the surviving entry is a container or replicated: never a private leaf
            have hflag : (isContainer e0 || isReplicated e0) = true := by
              cases hb : (isContainer e0 || isReplicated e0)
              · simp [removable, h0p, hb] at hrm
              · rfl
            have : (isContainer e || isReplicated e) = true := by
              rw [← hp, isContainer_newRankEntry, isReplicated_newRankEntry]; exact hflag
            rw [hc, hrp] at this; simp at this
    · intro own m0 p e hown
      have : rtm[rank]? = none := List.getElem?_eq_none (by omega)
      rw [this] at hown; simp at hown
    · intro requests final hf p e he
      obtain ⟨hs, hd, _, _⟩ := priv_flags e he
      cases h0 : rtm[0]? with
      | none => simp [viewOf, hr, viewNew, h0, Except.map] at hv
      | some m0 =>
        obtain ⟨hm, hnv, hl⟩ := viewOf_new rtm hn rank v merged m0 hr h0 hv
        have hall : AllSharded merged := by rw [hm]; exact fun p e h => mergeSharded_all_sharded rtm p e h
        have E := handleElasticity_spec v merged final requests hall hnv hf
        exact ⟨fun h => E.nothing_new p e h hs hd, fun h => E.keep p e h hs hd⟩

/-- Sharded tensors. The merged table holds, for every path at which some rank saved a sharded entry,
one entry with **every** saved shard of that path (a permutation of the concatenation over all ranks,
sorted by offsets) and nothing for other paths; whatever sharded entry a rank's view holds is that merged
entry. After the elasticity pass, every requesting rank — whether it saved the tensor or not, `rank < W` or
not — holds the merged entry at the requested path (provided the rank does not hold a non-sharded entry
there), and a rank that does not request a path holds no sharded entry there. -/
theorem C07_sharded_available (W : Nat) (gm : Manifest) (rank : Nat) (rtm : List Manifest) (v merged : Manifest)
    (hsplit : rankToManifest W gm = .ok rtm) (hv : viewFor W gm rank = .ok (v, merged)) :
    (∀ p, alookup merged p =
        if rtm.any (fun m => hasShardedAt m p) then some (.sharded (sortShards (savedShards rtm p))) else none) ∧
    (∀ p, (sortShards (savedShards rtm p)).Perm (savedShards rtm p)) ∧
    (∀ p e, alookup v p = some e → isSharded e = true → alookup merged p = some e) ∧
    (∀ requests final, handleElasticity false v merged requests = .ok final →
      (∀ p, p ∈ requests → ∀ me, alookup merged p = some me →
          (∀ e, alookup v p = some e → isSharded e = true) → alookup final p = some me) ∧
      (∀ p e, alookup final p = some e → isSharded e = true → p ∈ requests)) := by
  obtain ⟨hlen, hn⟩ := rankToManifest_inv W gm rtm hsplit
  simp only [viewFor, hsplit] at hv
  -- facts that hold for both kinds of rank
  have base : merged = mergeSharded rtm ∧ (akeys v).Nodup ∧
      (∀ p e, alookup v p = some e → isSharded e = true → alookup merged p = some e) := by
    by_cases hr : rank < rtm.length
    · obtain ⟨own, hown⟩ : ∃ own, rtm[rank]? = some own := ⟨rtm[rank], List.getElem?_eq_getElem hr⟩
      obtain ⟨m0, h0⟩ : ∃ m0, rtm[0]? = some m0 := ⟨rtm[0], List.getElem?_eq_getElem (by omega)⟩
      obtain ⟨hm, hnv, hl⟩ := viewOf_existing rtm hn rank v merged own m0 hr hown h0 hv
      refine ⟨hm, hnv, fun p e hp hs => ?_⟩
      rw [hl p] at hp
      cases ho : ownOrReplicated m0 own p with
      | none => rw [ho] at hp; simp at hp
      | some e' =>
        rw [ho] at hp; simp only at hp
        split at hp
        · exact hp
        · rename_i hns; injection hp with hp; subst hp; exact absurd hs hns
    · cases h0 : rtm[0]? with
      | none => simp [viewOf, hr, viewNew, h0, Except.map] at hv
      | some m0 =>
        obtain ⟨hm, hnv, hl⟩ := viewOf_new rtm hn rank v merged m0 hr h0 hv
        refine ⟨hm, hnv, fun p e hp hs => ?_⟩
        rw [hl p] at hp
        split at hp
        · simp at hp
        · rename_i hrm
          cases h0p : alookup m0 p with
          | none => rw [h0p] at hp; simp at hp
          | some e0 =>
            rw [h0p] at hp; simp only [Option.map_some, Option.some.injEq] at hp
            have hflag : (isContainer e0 || isReplicated e0) = true := by
              cases hb : (isContainer e0 || isReplicated e0)
              · simp [removable, h0p, hb] at hrm
              · rfl
            have : (isContainer e || isReplicated e) = true := by
              rw [← hp, isContainer_newRankEntry, isReplicated_newRankEntry]; exact hflag
            cases e <;> simp [isSharded, isContainer, isReplicated] at hs this
  obtain ⟨hm, hnv, hsh⟩ := base
  have hall : AllSharded merged := by rw [hm]; exact fun p e h => mergeSharded_all_sharded rtm p e h
  refine ⟨fun p => by rw [hm]; exact mergeSharded_spec rtm hn p, fun p => sortShards_perm _, hsh, ?_⟩
  intro requests final hf
  have E := handleElasticity_spec v merged final requests hall hnv hf
  refine ⟨fun p hp me hme hvs => ?_, E.unrequested⟩
  apply E.deliver p hp me hme
  cases hvp : alookup v p with
  | none => exact Or.inl rfl
  | some e =>
    have := hsh p e hvp (hvs e hvp)
    rw [hme] at this; injection this with this; subst this
    exact Or.inr rfl

/-- `C07_sharded_available` says the entry is in the restoring rank's manifest. It reaches the state passed
to `load_state_dict` only if the parent dict lists a key whose path component is the entry's last path
component (`deliveredUnderKey`, the rule of `flatten._populate_container`). When the entry had to be
(re-)added — the rank did not save it, or its index is `≥ W` — the code appends the *escaped component as
a str*; so delivery is proved under the hypothesis that the component needs no escaping
(`encode comp = comp`). The unrestricted statement

  `… → deliveredUnderKey final p = true`

is false for the current code: see `C07_witness_sharded_escaped_key` (known finding). -/
theorem C07_sharded_delivered_partial (W : Nat) (gm : Manifest) (rank : Nat) (v merged final : Manifest)
    (requests : List Str) (hv : viewFor W gm rank = .ok (v, merged))
    (hf : handleElasticity false v merged requests = .ok final)
    (p : Str) (hp : p ∈ requests) (me : Entry) (hme : alookup merged p = some me) (hvp : alookup v p = none)
    (parent comp : Str) (hs : splitLast p = (parent, comp)) (hplain : encode comp = comp) :
    alookup final p = some me ∧ deliveredUnderKey final p = true := by
  cases hsplit : rankToManifest W gm with
  | error e => simp [viewFor, hsplit] at hv
  | ok rtm =>
    obtain ⟨_, _, _, hel⟩ := C07_sharded_available W gm rank rtm v merged hsplit hv
    have hall : AllSharded merged := by
      have : merged = mergeSharded rtm := by
        simp only [viewFor, hsplit, viewOf] at hv
        split at hv
        · cases h1 : viewExisting rtm (mergeSharded rtm) rank with
          | error e => rw [h1] at hv; simp [Except.map] at hv
          | ok x => rw [h1] at hv; simp only [Except.map] at hv; injection hv with hv; injection hv with _ h2; exact h2.symm
        · cases h1 : viewNew rtm with
          | error e => rw [h1] at hv; simp [Except.map] at hv
          | ok x => rw [h1] at hv; simp only [Except.map] at hv; injection hv with hv; injection hv with _ h2; exact h2.symm
      rw [this]; exact fun p e h => mergeSharded_all_sharded rtm p e h
    refine ⟨(hel requests final hf).1 p hp me hme (by intro e he; rw [hvp] at he; simp at he), ?_⟩
    exact delivered_of_plain v merged final requests hall hf p hp me hme hvp parent comp hs hplain

/-- Known finding (witness). Snapshot of one rank: `{"app": {"a/b": <ShardedTensor>}}`. Rank 1 (`≥ W`)
requests `app/a%2Fb`. The merged entry is put into its manifest, but the parent dict's keys become
`["a%2Fb"]` — the escaped component — so no key of the dict maps to the entry's path component and
`inflate` drops it: the sharded tensor is not in the state handed to `load_state_dict`. -/
theorem C07_witness_sharded_escaped_key :
    let app : Str := [97, 112, 112]
    let path : Str := [97, 112, 112, 47, 97, 37, 50, 70, 98]          -- "app/a%2Fb"
    let gm : Manifest := [([48, 47] ++ app, .dict [Key.str [97, 47, 98]]),          -- "0/app": keys ["a/b"]
                          ([48, 47] ++ path, .sharded [⟨[0], [2], 7⟩])]
    let final : Manifest := [(app, .dict [Key.str [97, 37, 50, 70, 98]]),           -- keys ["a%2Fb"]
                             (path, .sharded [⟨[0], [2], 7⟩])]
    restoreView 1 gm 1 false [path] = .ok final ∧ deliveredUnderKey final path = false := by
  exact ⟨by rfl, by rfl⟩

/-- Containers keep their kind and their surviving keys in saved order. A rank that took the snapshot
sees each of its own container entries unchanged (unless rank 0 holds a replicated leaf under that very
path). A rank with index `≥ W` sees each container of rank 0 with the same kind; a dict / OrderedDict
keeps exactly the keys whose child was not dropped (`removable`: rank 0's entry there is a private leaf
or a sharded entry), in the saved order. The elasticity pass keeps every container's kind and keys and
only appends keys (those of re-added sharded entries). -/
theorem C07_containers (W : Nat) (gm : Manifest) (rank : Nat) (rtm : List Manifest) (v merged : Manifest)
    (hsplit : rankToManifest W gm = .ok rtm) (hv : viewFor W gm rank = .ok (v, merged)) :
    (rank < W → ∀ own m0 p e, rtm[rank]? = some own → rtm[0]? = some m0 → alookup own p = some e →
        isContainer e = true → (∀ e0, alookup m0 p = some e0 → isReplicated e0 = false) → alookup v p = some e) ∧
    (¬ rank < W → ∀ m0 p, rtm[0]? = some m0 → p ≠ [] →
        (alookup m0 p = some .list → alookup v p = some .list) ∧
        (∀ ks, alookup m0 p = some (.dict ks) →
          alookup v p = some (.dict (ks.filter (fun k => !removable m0 (p ++ 47 :: keyComp k))))) ∧
        (∀ ks, alookup m0 p = some (.odict ks) →
          alookup v p = some (.odict (ks.filter (fun k => !removable m0 (p ++ 47 :: keyComp k)))))) ∧
    (∀ requests final, handleElasticity false v merged requests = .ok final →
        ∀ p e, alookup v p = some e → isContainer e = true → ∃ ex, alookup final p = some (appendKeys e ex)) := by
  obtain ⟨hlen, hn⟩ := rankToManifest_inv W gm rtm hsplit
  simp only [viewFor, hsplit] at hv
  have cont_flags : ∀ e, isContainer e = true → isSharded e = false := by
    intro e he; cases e <;> simp_all [isContainer, isSharded]
  refine ⟨?_, ?_, ?_⟩
  · intro hr own m0 p e hown h0 hp hc hno
    obtain ⟨hm, hnv, hl⟩ := viewOf_existing rtm hn rank v merged own m0 (by omega) hown h0 hv
    have : ownOrReplicated m0 own p = some e := by
      unfold ownOrReplicated
      cases h0p : alookup m0 p with
      | none => exact hp
      | some e0 => simp [hno e0 h0p, hp]
    rw [hl p, this]; simp [cont_flags e hc]
  · intro hr m0 p h0 hpne
    obtain ⟨hm, hnv, hl⟩ := viewOf_new rtm hn rank v merged m0 (by omega) h0 hv
    refine ⟨?_, ?_, ?_⟩
    · intro hp
      have : removable m0 p = false := by simp [removable, hp, isContainer]
      rw [hl p, this, hp]; rfl
    · intro ks hp
      have : removable m0 p = false := by simp [removable, hp, isContainer]
      rw [hl p, this, hp]; simp [newRankEntry, hpne, keptKeys]
    · intro ks hp
      have : removable m0 p = false := by simp [removable, hp, isContainer]
      rw [hl p, this, hp]; simp [newRankEntry, hpne, keptKeys]
  · intro requests final hf p e hp hc
    have hnvm : (akeys v).Nodup ∧ merged = mergeSharded rtm := by
      by_cases hr : rank < rtm.length
      · obtain ⟨own, hown⟩ : ∃ own, rtm[rank]? = some own := ⟨rtm[rank], List.getElem?_eq_getElem hr⟩
        obtain ⟨m0, h0⟩ : ∃ m0, rtm[0]? = some m0 := ⟨rtm[0], List.getElem?_eq_getElem (by omega)⟩
        obtain ⟨hm, hnv, _⟩ := viewOf_existing rtm hn rank v merged own m0 hr hown h0 hv
        exact ⟨hnv, hm⟩
      · cases h0 : rtm[0]? with
        | none => simp [viewOf, hr, viewNew, h0, Except.map] at hv
        | some m0 =>
          obtain ⟨hm, hnv, _⟩ := viewOf_new rtm hn rank v merged m0 hr h0 hv
          exact ⟨hnv, hm⟩
    have hall : AllSharded merged := by rw [hnvm.2]; exact fun p e h => mergeSharded_all_sharded rtm p e h
    have E := handleElasticity_spec v merged final requests hall hnvm.1 hf
    cases hd : isDict e with
    | true => exact E.dict p e hp hd
    | false =>
      refine ⟨[], ?_⟩
      rw [appendKeys_nil]
      exact E.keep p e hp (cont_flags e hc) hd

/-- The committed global manifest determines the per-rank manifests: splitting what `_gather_manifest`
built (`"<rank>/<logical path>"` keys) gives back exactly the per-rank manifests it was built from — for any
number of ranks and entries, provided each rank's manifest is a dict (distinct paths) and no logical path
starts with `/` (non-empty app-state keys). This ties the views above to the saved job. -/
theorem C07_saved_manifests_roundtrip (ms : List Manifest) (hn : ∀ m ∈ ms, (akeys m).Nodup)
    (hs : ∀ m ∈ ms, NoLeadSlash m) : rankToManifest ms.length (gather ms) = .ok ms :=
  rankToManifest_gather ms hn hs

/-- Replicated leaves of the *saved job*: `ms` are the manifests the `W = ms.length` ranks contributed when
the snapshot was taken, `cs` their consolidation (what `_gather_manifest` commits). Whichever rank `q` held a
replicated entry `e` at `p` (the one rank that wrote it, after partitioning), **every** restoring rank —
any index, so any `W'` and also indices `≥ W` — sees exactly `e` at `p`. (Replicated *chunked* entries are
merged first; they are the subject of `C06_restore_complete`.) -/
theorem C07_replicated_everywhere_saved (ms cs : List Manifest) (hn : ∀ m ∈ ms, (akeys m).Nodup)
    (hs : ∀ m ∈ ms, NoLeadSlash m) (hc : consolidate ms = .ok cs)
    (rank : Nat) (v merged : Manifest) (hv : viewFor ms.length (gather cs) rank = .ok (v, merged))
    (q : Nat) (m : Manifest) (p : Str) (e : Entry) (hmq : ms[q]? = some m) (hp : alookup m p = some e)
    (hre : isReplicated e = true) (hany : ms.any (fun m => hasRepChunkedAt m p) = false) :
    alookup v p = some e := by
  have C := consolidate_spec ms cs hn hc
  have hcs_slash : ∀ c ∈ cs, NoLeadSlash c := by
    intro c hcm q hq t
    obtain ⟨m, hm, hqm⟩ := C.paths c hcm q hq
    exact hs m hm q hqm t
  have hsplit : rankToManifest ms.length (gather cs) = .ok cs := by
    rw [← C.length_eq]; exact rankToManifest_gather cs C.nodup hcs_slash
  obtain ⟨c0, hc0, hl⟩ := C.replicated q m p e hmq hp hre hany
  exact (C07_replicated_everywhere ms.length (gather cs) rank cs c0 v merged hsplit hc0 hv p e hl hre).1

/-! ## Non-vacuity: a concrete two-rank snapshot -/
namespace Example

def app : Str := [97]                 -- "a"
def pr : Str := [97, 47, 114]         -- "a/r"   replicated leaf (kept in rank 0's part)
def pp : Str := [97, 47, 112]         -- "a/p"   private leaf of each rank
def ps : Str := [97, 47, 115]         -- "a/s"   sharded tensor, one shard per rank
def px : Str := [97, 47, 99, 37, 50, 70, 100]   -- "a/c%2Fd": private leaf of rank 0 under the key "c/d"
def kr : Key := .str [114]
def kp : Key := .str [112]
def ks : Key := .str [115]
def kx : Key := .str [99, 47, 100]    -- "c/d"
def s0 : Shard := ⟨[0, 0], [2, 3], 20⟩
def s1 : Shard := ⟨[2, 0], [2, 3], 21⟩
/-- global manifest of a 2-rank snapshot -/
def gm : Manifest :=
  [([48, 47] ++ app, .dict [kr, kp, kx, ks]), ([48, 47] ++ pr, .leaf true 1), ([48, 47] ++ pp, .leaf false 2),
   ([48, 47] ++ px, .leaf false 3), ([48, 47] ++ ps, .sharded [s1]),
   ([49, 47] ++ app, .odict [ks, kr, kp]), ([49, 47] ++ pp, .leaf false 4), ([49, 47] ++ ps, .sharded [s0])]

example : rankToManifest 2 gm = .ok
    [[(app, .dict [kr, kp, kx, ks]), (pr, .leaf true 1), (pp, .leaf false 2), (px, .leaf false 3), (ps, .sharded [s1])],
     [(app, .odict [ks, kr, kp]), (pp, .leaf false 4), (ps, .sharded [s0])]] := by rfl
/-- rank 1: own container (OrderedDict, own key order), own private leaf, rank 0's replicated leaf, merged shards -/
example : viewFor 2 gm 1 = .ok
    ([(app, .odict [ks, kr, kp]), (pp, .leaf false 4), (ps, .sharded [s0, s1]), (pr, .leaf true 1)],
     [(ps, .sharded [s0, s1])]) := by rfl
/-- rank 7 (≥ W): rank 0's container with the keys of the dropped private / sharded children removed (also the
key "c/d" whose path component is escaped), the replicated leaf, nothing private -/
example : viewFor 2 gm 7 = .ok ([(app, .dict [kr]), (pr, .leaf true 1)], [(ps, .sharded [s0, s1])]) := by rfl
/-- rank 7 requests the sharded tensor: it gets the merged entry, the key is appended -/
example : restoreView 2 gm 7 false [ps] = .ok
    [(app, .dict [kr, ks]), (pr, .leaf true 1), (ps, .sharded [s0, s1])] := by rfl
/-- rank 1 does not request it: the entry is withheld -/
example : restoreView 2 gm 1 false [] = .ok
    [(app, .odict [ks, kr, kp]), (pp, .leaf false 4), (pr, .leaf true 1)] := by rfl

end Example

end Ts.ManifestOps
