import TsProofs.Snapshot
import TsProofs.Properties.C15
/-!
# C01 — Take then restore reproduces the application state exactly

The end-to-end statement is assembled from four machine-checked pieces, each about its own model of the
code and each tied to the implementation by its own correspondence suite:

* **structure** — `C15_inverse`: flatten → (container manifest, leaf map) → inflate returns the same nested
  containers, key types, key order and leaves (re-exported below as `C01_structure_roundtrip`);
* **bytes** — `C01_dataplane_roundtrip` (this file): for every list of flattened payload leaves, every
  chunk-size / slab-size / batching setting, and every completion order of chunk consumers, what `restore`
  rebuilds from the manifest entries and the stored objects equals the saved leaves (dtype, shape, bits);
  `C01_knob_independence`: the restored value does not depend on the knobs;
* **serialization** — `C17_roundtrip_strided` (any memory layout exports the row-major bytes) and
  `C17_stage_consume_roundtrip` (in-place / fresh / mismatching destinations);
* **metadata** — `C14_metadata_roundtrip` (the manifest survives the metadata file) and C07 (each rank sees its
  own entries).

Location naming is abstracted here by unit identities with pairwise distinct storage locations; that distinct
units get distinct files is `C05_written_once_partial` (so C01 inherits C05's key-safety hypotheses, finding D13).
Scheduling is abstracted by "every request is executed exactly once" (C11).
-/
namespace Ts.Snapshot
open Ts.Storage (Bytes)
open Ts.Slab Ts.BatchRead

/-- every unit's recorded location holds the bytes its stager exported, with batching on or off -/
theorem storedAll (cfg : Cfg) (hs : 1 ≤ cfg.slab) (wb : List (WReq UnitId × Bytes))
    (hpaths : (wb.map (·.1.path)).Nodup)
    (hsz : ∀ x ∈ wb, batchable x.1 = true → x.2.length = x.1.size) :
    ∀ e ∈ wb.zip (placements cfg wb),
      UnitStored (written wb (placements cfg wb)) (unitLoc e.1.1 e.2) e.1.2 := by
  intro e he
  unfold placements at he ⊢
  by_cases hb : cfg.batching = true
  · simp only [hb, if_true] at he ⊢
    exact stored_batched wb cfg.slab hs hpaths hsz e he
  · simp only [hb] at he ⊢
    exact stored_plain wb hpaths e he

theorem placements_length (cfg : Cfg) (wb : List (WReq UnitId × Bytes)) : (placements cfg wb).length = wb.length := by
  unfold placements
  split
  · rw [place_length]; simp
  · simp

/-- **Data-plane round trip.** For every list of admissible leaves (tensors of any buffer-protocol dtype, any
shape incl. scalars and zero-length dims, any contents; objects / torch_save tensors as opaque blobs), every
max-chunk-size ≥ 1, slab threshold ≥ 1, batching on or off, and every completion order of chunk consumers:
`take` succeeds, records one entry per leaf, and restoring those entries from the written storage returns
exactly the saved leaves, in order. -/
theorem C01_dataplane_roundtrip (cfg : Cfg) (hc : 1 ≤ cfg.chunk) (hs : 1 ≤ cfg.slab)
    (leaves : List Leaf) (hok : ∀ l ∈ leaves, LeafOk l)
    (order : List ((Nat × Nat) × UnitLoc) → List ((Nat × Nat) × UnitLoc)) (horder : ∀ cs, (order cs).Perm cs) :
    ∃ pw ens, perLeaf cfg 0 leaves = .ok pw ∧
      entriesWalk pw (placements cfg (allWrites pw)) = .ok ens ∧
      mapE (restoreLeaf (written (allWrites pw) (placements cfg (allWrites pw))) order) ens = .ok leaves := by
  obtain ⟨pw, hpw, hmap, _, hnd, hsz, hall⟩ := perLeaf_spec cfg hc leaves 0 hok
  have hst := storedAll cfg hs (allWrites pw) hnd hsz
  obtain ⟨ens, hens, hres⟩ := walk_ok cfg hc _ (fun _ _ u => readUnit _ u)
    (fun u bs _ _ h _ => readUnit_of_stored _ u bs h) order horder (allWrites pw) (placements cfg (allWrites pw)) hst
    pw [] [] (placements cfg (allWrites pw)) (by simp) (by simp) rfl (placements_length cfg _) hall
  exact ⟨pw, ens, hpw, hens, by rw [← hmap]; exact hres⟩

/-- **Knob independence.** Two takes of the same leaves under any two knob settings (and any two consumer
orders) restore to the same values. -/
theorem C01_knob_independence (cfg₁ cfg₂ : Cfg) (h1 : 1 ≤ cfg₁.chunk ∧ 1 ≤ cfg₁.slab) (h2 : 1 ≤ cfg₂.chunk ∧ 1 ≤ cfg₂.slab)
    (leaves : List Leaf) (hok : ∀ l ∈ leaves, LeafOk l)
    (o₁ o₂ : List ((Nat × Nat) × UnitLoc) → List ((Nat × Nat) × UnitLoc))
    (ho₁ : ∀ cs, (o₁ cs).Perm cs) (ho₂ : ∀ cs, (o₂ cs).Perm cs) :
    ∃ pw₁ ens₁ pw₂ ens₂, perLeaf cfg₁ 0 leaves = .ok pw₁ ∧ perLeaf cfg₂ 0 leaves = .ok pw₂ ∧
      entriesWalk pw₁ (placements cfg₁ (allWrites pw₁)) = .ok ens₁ ∧
      entriesWalk pw₂ (placements cfg₂ (allWrites pw₂)) = .ok ens₂ ∧
      mapE (restoreLeaf (written (allWrites pw₁) (placements cfg₁ (allWrites pw₁))) o₁) ens₁
        = mapE (restoreLeaf (written (allWrites pw₂) (placements cfg₂ (allWrites pw₂))) o₂) ens₂ := by
  obtain ⟨pw₁, ens₁, a1, a2, a3⟩ := C01_dataplane_roundtrip cfg₁ h1.1 h1.2 leaves hok o₁ ho₁
  obtain ⟨pw₂, ens₂, b1, b2, b3⟩ := C01_dataplane_roundtrip cfg₂ h2.1 h2.2 leaves hok o₂ ho₂
  exact ⟨pw₁, ens₁, pw₂, ens₂, a1, b1, a2, b2, by rw [a3, b3]⟩

/-- **Structure round trip** (re-export of C15): flattening a well-formed nested container and inflating the
container manifest with the leaf map returns the same tree — container kinds, keys with their types, key
order, leaves. Together with the data-plane theorem (leaves are restored exactly) this is take → restore. -/
theorem C01_structure_roundtrip (t : Ts.Flatten.Tree) (pre : Ts.Path.Str) (hwf : t.wf = true) :
    Ts.Flatten.inflate (Ts.Flatten.flatten t pre).1 (Ts.Flatten.flatten t pre).2 pre = .ok t :=
  Ts.Flatten.C15_inverse t pre hwf

/-! ## Non-vacuity -/
private def tA : Ts.Serial.Tensor := ⟨"float32", [3, 2], List.range 24⟩
private def tB : Ts.Serial.Tensor := ⟨"bfloat16", [3], [1, 2, 3, 4, 5, 6]⟩
private def tC : Ts.Serial.Tensor := ⟨"int8", [2, 0], []⟩

example : ∀ l ∈ [Leaf.tensor tA, .blob [9, 9, 9], .tensor tB, .tensor tC], LeafOk l := by
  intro l hl; simp at hl
  rcases hl with rfl | rfl | rfl | rfl <;> simp [LeafOk] <;> decide

-- chunk threshold 8 bytes: tA (24 bytes, rows of 8) is split in 3 chunks; slab threshold 16 packs small pieces
example : (perLeaf ⟨8, 16, true⟩ 0 [Leaf.tensor tA, .blob [9, 9, 9], .tensor tB, .tensor tC]).toOption.map
    (fun pw => (allWrites pw).map (fun x => (x.1.path, x.2.length)))
    = some [((0, some (0, 1)), 8), ((0, some (1, 1)), 8), ((0, some (2, 1)), 8), ((1, none), 3), ((2, none), 6), ((3, none), 0)] := by
  decide

end Ts.Snapshot
