import TsModel.Damage
/-! Helper lemmas for the damage model (C04). -/
namespace Ts.Damage
open Ts.Storage

theorem readObj_range (b : Bytes) (lo hi : Nat) (h : lo ≤ hi) :
    readObj (some b) (some (lo, hi)) = .ok (slice b lo hi) := by
  have : ¬ ((hi : Int) - (lo : Int) < 0) := by omega
  simp only [readObj, seekRead, this, ite_false, slice]
  congr 2; omega

theorem slice_take (b : Bytes) (n lo hi : Nat) :
    slice (b.take n) lo hi = (b.drop lo).take (min (hi - lo) (n - lo)) := by
  simp only [slice, List.drop_take, List.take_take]

theorem slice_take_length (b : Bytes) (n lo hi : Nat) :
    (slice (b.take n) lo hi).length = min (min (hi - lo) (n - lo)) (b.length - lo) := by
  rw [slice_take]; simp

theorem slice_length (b : Bytes) (lo hi : Nat) : (slice b lo hi).length = min (hi - lo) (b.length - lo) := by
  simp [slice]

theorem slice_take_of_le (b : Bytes) (n lo hi : Nat) (h : hi ≤ n) :
    slice (b.take n) lo hi = slice b lo hi := by
  rw [slice_take]; simp only [slice]; congr 1; omega

theorem slice_take_empty (b : Bytes) (n lo : Nat) : slice (b.take n) lo lo = slice b lo lo := by
  simp [slice]

/-- sub-slicing the spanning read gives the same bytes as reading the sub-range directly -/
theorem slice_slice (b : Bytes) (L H lo hi : Nat) (h1 : L ≤ lo) (h2 : hi ≤ H) :
    slice (slice b L H) (lo - L) (hi - L) = slice b lo hi := by
  simp only [slice, List.drop_take, List.take_take, List.drop_drop]
  have e1 : L + (lo - L) = lo := by omega
  have e2 : min (hi - L - (lo - L)) (H - L - (lo - L)) = hi - lo := by omega
  rw [e2, e1]

/-- Outcome of a raw-tensor consumer on the bytes delivered for `[lo, hi)` from an object truncated to `n`. -/
theorem consume_raw_trunc (orig : Bytes) (n lo hi : Nat) (h1 : lo ≤ hi) (h2 : hi ≤ orig.length) (want : Bytes) :
    consume (.raw (hi - lo)) want (slice (orig.take n) lo hi)
      = if hi ≤ n ∨ lo = hi then .ok (slice orig lo hi) else .error .badBuffer := by
  simp only [consume, slice_take_length]
  by_cases hc : hi ≤ n ∨ lo = hi
  · have hl : min (min (hi - lo) (n - lo)) (orig.length - lo) = hi - lo := by omega
    simp only [hl, if_true, hc]
    rcases hc with h | h
    · rw [slice_take_of_le _ _ _ _ h]
    · subst h; rw [slice_take_empty]
  · have hl : min (min (hi - lo) (n - lo)) (orig.length - lo) ≠ hi - lo := by omega
    simp only [hc, if_false]
    split
    · rename_i h; exact absurd h hl
    · rfl

theorem consume_codec_trunc (orig : Bytes) (n lo hi : Nat) (h1 : lo ≤ hi) (h2 : hi ≤ orig.length) :
    consume .codec (slice orig lo hi) (slice (orig.take n) lo hi)
      = if hi ≤ n ∨ lo = hi then .ok (slice orig lo hi) else .error .badBuffer := by
  by_cases hc : hi ≤ n ∨ lo = hi
  · have : slice (orig.take n) lo hi = slice orig lo hi := by
      rcases hc with h | h
      · exact slice_take_of_le _ _ _ _ h
      · subst h; exact slice_take_empty _ _ _
    simp [consume, this, hc]
  · have hne : slice (orig.take n) lo hi ≠ slice orig lo hi := by
      intro e
      have := congrArg List.length e
      rw [slice_take_length, slice_length] at this
      omega
    simp [consume, hne, hc]

theorem mapM_ok {α β ε : Type} (f : α → Except ε β) (g : α → β) (l : List α)
    (h : ∀ x ∈ l, f x = .ok (g x)) : l.mapM f = .ok (l.map g) := by
  induction l with
  | nil => rfl
  | cons x xs ih =>
    have hx := h x (by simp)
    have := ih (fun y hy => h y (by simp [hy]))
    simp [List.mapM_cons, hx, this, bind, Except.bind, pure, Except.pure]

theorem mapM_err {α β ε : Type} (f : α → Except ε β) (e : ε) (l : List α)
    (hall : ∀ x ∈ l, (∃ v, f x = .ok v) ∨ f x = .error e) (hex : ∃ x ∈ l, f x = .error e) :
    l.mapM f = .error e := by
  induction l with
  | nil => obtain ⟨x, hx, _⟩ := hex; cases hx
  | cons x xs ih =>
    rcases hall x (by simp) with ⟨v, hv⟩ | he
    · obtain ⟨y, hy, hye⟩ := hex
      have hy' : y ∈ xs := by
        rcases List.mem_cons.mp hy with rfl | h
        · rw [hv] at hye; cases hye
        · exact h
      have := ih (fun z hz => hall z (by simp [hz])) ⟨y, hy', hye⟩
      simp [List.mapM_cons, hv, this, bind, Except.bind]
    · simp [List.mapM_cons, he, bind, Except.bind]

theorem spanLo_le (rs : List (Nat × Nat)) (r : Nat × Nat) (h : r ∈ rs) : spanLo rs ≤ r.1 := by
  unfold spanLo
  have key : ∀ (l : List (Nat × Nat)) (m : Nat), (l.foldl (fun m r => min m r.1) m ≤ m) ∧
      (∀ r ∈ l, l.foldl (fun m r => min m r.1) m ≤ r.1) := by
    intro l
    induction l with
    | nil => intro m; simp
    | cons x xs ih =>
      intro m
      obtain ⟨a, b⟩ := ih (min m x.1)
      refine ⟨by simp only [List.foldl]; omega, ?_⟩
      intro r hr
      simp only [List.foldl]
      rcases List.mem_cons.mp hr with rfl | hm
      · omega
      · exact b r hm
  exact (key rs _).2 r h

theorem le_spanHi (rs : List (Nat × Nat)) (r : Nat × Nat) (h : r ∈ rs) : r.2 ≤ spanHi rs := by
  unfold spanHi
  have key : ∀ (l : List (Nat × Nat)) (m : Nat), (m ≤ l.foldl (fun m r => max m r.2) m) ∧
      (∀ r ∈ l, r.2 ≤ l.foldl (fun m r => max m r.2) m) := by
    intro l
    induction l with
    | nil => intro m; simp
    | cons x xs ih =>
      intro m
      obtain ⟨a, b⟩ := ih (max m x.2)
      refine ⟨by simp only [List.foldl]; omega, ?_⟩
      intro r hr
      simp only [List.foldl]
      rcases List.mem_cons.mp hr with rfl | hm
      · omega
      · exact b r hm
  exact (key rs _).2 r h

end Ts.Damage
