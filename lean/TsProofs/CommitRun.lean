import TsProofs.Commit
/-! Async protocol: the invariant holds in every reachable state; cuts; progress. -/
namespace Ts.Commit
open Ts.Barrier
set_option linter.unusedSimpArgs false
set_option linter.unusedVariables false

/-- A control step only appends a non-write event and leaves the write states alone. -/
theorem actl_ws {cfg : Cfg} {s s' : AState} {r : Nat} (hs : actl? cfg s r = some s') :
    s'.ws = s.ws ∧ ∃ e, s'.hist = e :: s.hist ∧
      ∀ r w, e ≠ .wBegin r w ∧ e ≠ .wEnd r w ∧ e ≠ .wFail r w := by
  unfold actl? at hs
  repeat' (split at hs)
  all_goals (first | contradiction | skip)
  all_goals (injection hs with hs; subst hs; simp)

theorem ainv_ctl {cfg : Cfg} {s s' : AState} {r : Nat} (h : AInv cfg s) (hr : r < cfg.n)
    (hs : actl? cfg s r = some s') : AInv cfg s' := by
  obtain ⟨hw, hio, hm, hb⟩ := h
  have hw' : WInv cfg s'.ws s'.hist := by
    obtain ⟨h1, e, h2, h3⟩ := actl_ws hs
    rw [h1, h2]; exact winv_other hw h3
  cases hpc : s.pc r with
  | io => exact ⟨hw', ioinv_ctl_io hio hpc hs, minv_ctl_io hm hpc hs, binv_ctl_io hio hm hb hr hpc hs⟩
  | arrive => exact ⟨hw', ioinv_ctl_arrive hio hpc hs, minv_ctl_arrive hm hpc hs, binv_ctl_arrive hio hm hb hr hpc hs⟩
  | arriveGet j => exact ⟨hw', ioinv_ctl_arriveGet hio hpc hs, minv_ctl_arriveGet hm hpc hs, binv_ctl_arriveGet hio hm hb hr hpc hs⟩
  | arriveErr => exact ⟨hw', ioinv_ctl_arriveErr hio hpc hs, minv_ctl_arriveErr hm hpc hs, binv_ctl_arriveErr hio hm hb hr hpc hs⟩
  | mBegin => exact ⟨hw', ioinv_ctl_mBegin hio hpc hs, minv_ctl_mBegin hm hpc hs, binv_ctl_mBegin hio hm hb hr hpc hs⟩
  | mEnd => exact ⟨hw', ioinv_ctl_mEnd hio hpc hs, minv_ctl_mEnd hm hpc hs, binv_ctl_mEnd hio hm hb hr hpc hs⟩
  | depart => exact ⟨hw', ioinv_ctl_depart hio hpc hs, minv_ctl_depart hm hpc hs, binv_ctl_depart hio hm hb hr hpc hs⟩
  | departGet => exact ⟨hw', ioinv_ctl_departGet hio hpc hs, minv_ctl_departGet hm hpc hs, binv_ctl_departGet hio hm hb hr hpc hs⟩
  | exc => exact ⟨hw', ioinv_ctl_exc hio hpc hs, minv_ctl_exc hm hpc hs, binv_ctl_exc hio hm hb hr hpc hs⟩
  | fin b =>
    cases b with
    | true => exact ⟨hw', ioinv_ctl_finT hio hpc hs, minv_ctl_finT hm hpc hs, binv_ctl_finT hio hm hb hr hpc hs⟩
    | false => exact ⟨hw', ioinv_ctl_finF hio hpc hs, minv_ctl_finF hm hpc hs, binv_ctl_finF hio hm hb hr hpc hs⟩
  | done b => simp [actl?, hpc] at hs

/-- What a payload-write step can change: completed / failed writes stay so, and the event is a
write event. -/
theorem wstep_frame {cfg : Cfg} {ws ws' : Nat → Nat → WSt} {r : Nat} {a : Act} {e : Ev}
    (hs : wstep? cfg ws r a = some (ws', e)) :
    (∀ r' w', ws r' w' = .done → ws' r' w' = .done) ∧
    (∀ r' w', ws r' w' = .failed → ws' r' w' = .failed) ∧
    (∃ w, e = .wBegin r w ∨ e = .wEnd r w ∨ e = .wFail r w) := by
  cases a <;> simp only [wstep?] at hs <;> repeat' (split at hs)
  all_goals (first | contradiction | skip)
  all_goals (simp only [Option.some.injEq, Prod.mk.injEq] at hs; obtain ⟨rfl, rfl⟩ := hs)
  all_goals
    refine ⟨?_, ?_, ⟨_, by first | exact .inl rfl | exact .inr (.inl rfl) | exact .inr (.inr rfl)⟩⟩
  all_goals (intro r' w'; simp only [upd2]; grind)

/-- A storage event of a payload write preserves the three control groups. -/
theorem ainv_w {cfg : Cfg} {s : AState} {r : Nat} {a : Act} {ws' : Nat → Nat → WSt} {e : Ev}
    (h : AInv cfg s) (hs : wstep? cfg s.ws r a = some (ws', e)) :
    AInv cfg { s with ws := ws', hist := e :: s.hist } := by
  obtain ⟨hw, hio, hm, hb⟩ := h
  obtain ⟨f1, f2, w0, f3⟩ := wstep_frame hs
  refine ⟨winv_wstep hw hs, ?_, ?_, ?_⟩
  · have ⟨h1, h2, h3, h4, h5⟩ := hio
    refine ⟨?_, ?_, ?_, ?_, ?_⟩
    · intros; grind
    · intros; grind
    · intros; grind
    · intros; grind
    · intro r' hmem
      have hmem' : Ev.ioFail r' ∈ s.hist := by grind
      obtain ⟨w', hw1, hw2⟩ := h5 r' hmem'
      exact ⟨w', hw1, f2 _ _ hw2⟩
  · have ⟨h1, h2, h3, h4, h5, h6, h7, h8, h9, h10⟩ := hm
    constructor <;> intros <;> grind
  · have ⟨h1, h2, h3, h4, h5, h6, h7, h8, h9, h10, h11, h12, h13⟩ := hb
    constructor <;> intros <;> grind

theorem ainv_step {cfg : Cfg} {s s' : AState} {l : Lbl} (h : AInv cfg s)
    (hs : astep? cfg s l = some s') : AInv cfg s' := by
  unfold astep? at hs
  split at hs
  · rename_i hr
    split at hs
    · exact ainv_ctl h hr hs
    · split at hs
      · injection hs with hs; subst hs
        rename_i hw
        exact ainv_w h hw
      · contradiction
  · contradiction

theorem ainv_run {cfg : Cfg} (sched : List Lbl) {s : AState} (h : AInv cfg s) :
    AInv cfg (arun cfg s sched) := by
  induction sched generalizing s with
  | nil => exact h
  | cons l rest ih =>
    simp only [arun, List.foldl_cons]
    cases hs : astep? cfg s l with
    | none => exact ih h
    | some s' => exact ih (ainv_step h hs)

/-- Every state reachable from a store in which this attempt's keys are absent satisfies the invariant. -/
theorem ainv_reach (cfg : Cfg) (st : Store) (hf : Fresh st cfg.pfx) (sched : List Lbl) :
    AInv cfg (arun cfg (AState.init st) sched) :=
  ainv_run sched (ainv_init cfg st hf)

end Ts.Commit
