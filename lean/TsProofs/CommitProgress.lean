import TsProofs.CommitSyncRun
/-! No deadlock: in a reachable state, unless every rank has finished, some label is enabled. -/
namespace Ts.Commit
open Ts.Barrier
set_option linter.unusedSimpArgs false
set_option linter.unusedVariables false

/-- While a rank is writing payload and `sync_complete` can neither return nor raise yet, one of
its writes can begin or end. -/
theorem io_write_enabled (cfg : Cfg) (ws : Nat → Nat → WSt) (r : Nat)
    (hnf : anyFailed cfg.nw ws r = false) (hnd : allDone cfg.nw ws r = false) :
    ∃ a, (wstep? cfg ws r a).isSome = true := by
  have h1 : ¬ ∀ w, w < cfg.nw r → ws r w = .done := by
    intro h; rw [← allDone_iff] at h; simp [h] at hnd
  have h2 : ¬ ∃ w, w < cfg.nw r ∧ ws r w = .failed := by
    intro h; rw [← anyFailed_iff] at h; simp [h] at hnf
  simp only [Classical.not_forall] at h1
  obtain ⟨w, hw, hne⟩ := h1
  cases hws : ws r w with
  | idle => exact ⟨.wBegin w, by simp [wstep?, hw, hws]⟩
  | inflight => exact ⟨.wEnd w, by cases hp : cfg.pfail r w <;> simp [wstep?, hw, hws, hp]⟩
  | done => exact absurd hws hne
  | failed => exact absurd ⟨w, hw, hws⟩ h2

/-- Some label of rank r is enabled. -/
def ACan (cfg : Cfg) (s : AState) (r : Nat) : Prop := ∃ a, (astep? cfg s ⟨r, a⟩).isSome = true

theorem acan_io {cfg : Cfg} {s : AState} {r : Nat} (hr : r < cfg.n) (hpc : s.pc r = .io) :
    ACan cfg s r := by
  cases hf : anyFailed cfg.nw s.ws r with
  | true => exact ⟨.ctl, by simp [astep?, actl?, hr, hpc, hf]⟩
  | false =>
    cases hd : allDone cfg.nw s.ws r with
    | true => exact ⟨.ctl, by simp [astep?, actl?, hr, hpc, hf, hd]⟩
    | false =>
      obtain ⟨a, ha⟩ := io_write_enabled cfg s.ws r hf hd
      refine ⟨a, ?_⟩
      cases a with
      | ctl => simp [wstep?] at ha
      | wBegin w =>
        simp only [astep?, hr, if_true]
        cases hh : wstep? cfg s.ws r (.wBegin w) with
        | none => simp [hh] at ha
        | some p => simp
      | wEnd w =>
        simp only [astep?, hr, if_true]
        cases hh : wstep? cfg s.ws r (.wEnd w) with
        | none => simp [hh] at ha
        | some p => simp

/-- Progress of every rank except a non-leader waiting in `depart`. -/
theorem acan_main {cfg : Cfg} {s : AState} (h : AInv cfg s) (r : Nat) (hr : r < cfg.n)
    (hnd : ∀ b, s.pc r ≠ .done b) (hdep : ¬ (r ≠ 0 ∧ s.pc r = .depart)) :
    ∃ k, k < cfg.n ∧ ACan cfg s k := by
  obtain ⟨hw, hio, hm, hb⟩ := h
  cases hpc : s.pc r with
  | io => exact ⟨r, hr, acan_io hr hpc⟩
  | arrive =>
    by_cases h0 : r = 0
    · subst h0
      cases hp : s.store.peersPresent cfg.pfx cfg.n with
      | true => exact ⟨0, hr, .ctl, by simp [astep?, actl?, hr, hpc, hp]⟩
      | false =>
        have : ¬ ∀ k, 0 < k → k < cfg.n → (s.store cfg.pfx k).isSome = true := by
          intro hall; rw [← peersPresent_iff] at hall; simp [hall] at hp
        simp only [Classical.not_forall] at this
        obtain ⟨k, hk0, hkn, hnone⟩ := this
        have hnone' : s.store cfg.pfx k = none := by
          cases hv : s.store cfg.pfx k with
          | none => rfl
          | some v => simp [hv] at hnone
        have hk0' : ¬ k = 0 := by omega
        rcases hb.key_none k hk0 hnone' with hk | hk | hk
        · exact ⟨k, hkn, acan_io hkn hk⟩
        · exact ⟨k, hkn, .ctl, by simp [astep?, actl?, hkn, hk, hk0']⟩
        · exact ⟨k, hkn, .ctl, by simp [astep?, actl?, hkn, hk]⟩
    · exact ⟨r, hr, .ctl, by simp [astep?, actl?, hr, hpc, h0]⟩
  | arriveGet j =>
    have h0 : r = 0 := hm.leader r (by simp [hpc, leaderPC])
    subst h0
    obtain ⟨hj0, hjn⟩ := hb.get_lt j hpc
    have hp := hb.get_present j hpc j hj0 hjn
    cases hv : s.store cfg.pfx j with
    | none => simp [hv] at hp
    | some v =>
      cases v with
      | empty => exact ⟨0, hr, .ctl, by simp [astep?, actl?, hr, hpc, hv]⟩
      | err => exact ⟨0, hr, .ctl, by simp [astep?, actl?, hr, hpc, hv]⟩
  | arriveErr => exact ⟨r, hr, .ctl, by simp [astep?, actl?, hr, hpc]⟩
  | mBegin => exact ⟨r, hr, .ctl, by simp [astep?, actl?, hr, hpc]⟩
  | mEnd => exact ⟨r, hr, .ctl, by cases hmf : cfg.mfail <;> simp [astep?, actl?, hr, hpc, hmf]⟩
  | depart =>
    have h0 : r = 0 := Classical.byContradiction (fun hne => hdep ⟨hne, hpc⟩)
    subst h0
    exact ⟨0, hr, .ctl, by simp [astep?, actl?, hr, hpc]⟩
  | departGet =>
    have hp := hb.dg_present r hpc
    cases hv : s.store cfg.pfx 0 with
    | none => simp [hv] at hp
    | some v =>
      cases v with
      | empty => exact ⟨r, hr, .ctl, by simp [astep?, actl?, hr, hpc, hv]⟩
      | err => exact ⟨r, hr, .ctl, by simp [astep?, actl?, hr, hpc, hv]⟩
  | exc => exact ⟨r, hr, .ctl, by simp [astep?, actl?, hr, hpc]⟩
  | fin b => cases b <;> exact ⟨r, hr, .ctl, by simp [astep?, actl?, hr, hpc]⟩
  | done b => exact absurd hpc (hnd b)

/-- **No deadlock (async).** In a state satisfying the invariant, if some rank's background thread
has not ended, some rank has an enabled step. -/
theorem aprogress {cfg : Cfg} {s : AState} (h : AInv cfg s) (r : Nat) (hr : r < cfg.n)
    (hnd : ∀ b, s.pc r ≠ .done b) : ∃ k, k < cfg.n ∧ ACan cfg s k := by
  by_cases hdep : r ≠ 0 ∧ s.pc r = .depart
  · obtain ⟨h0, hpc⟩ := hdep
    cases hv : s.store cfg.pfx 0 with
    | some v => exact ⟨r, hr, .ctl, by simp [astep?, actl?, hr, hpc, h0, hv]⟩
    | none =>
      have hk := h.b.key0_none hv
      have hn0 : 0 < cfg.n := by omega
      refine acan_main h 0 hn0 (fun b => (hk b).2) (by simp)
  · exact acan_main h r hr hnd hdep

/-! ## sync protocol -/

def SCan (cfg : Cfg) (s : SState) (r : Nat) : Prop := ∃ a, (sstep? cfg s ⟨r, a⟩).isSome = true

theorem scan_io {cfg : Cfg} {s : SState} {r : Nat} (hr : r < cfg.n) (hpc : s.pc r = .io) :
    SCan cfg s r := by
  cases hf : anyFailed cfg.nw s.ws r with
  | true => exact ⟨.ctl, by simp [sstep?, sctl?, hr, hpc, hf]⟩
  | false =>
    cases hd : allDone cfg.nw s.ws r with
    | true => exact ⟨.ctl, by simp [sstep?, sctl?, hr, hpc, hf, hd]⟩
    | false =>
      obtain ⟨a, ha⟩ := io_write_enabled cfg s.ws r hf hd
      refine ⟨a, ?_⟩
      cases a with
      | ctl => simp [wstep?] at ha
      | wBegin w =>
        simp only [sstep?, hr, if_true]
        cases hh : wstep? cfg s.ws r (.wBegin w) with
        | none => simp [hh] at ha
        | some p => simp
      | wEnd w =>
        simp only [sstep?, hr, if_true]
        cases hh : wstep? cfg s.ws r (.wEnd w) with
        | none => simp [hh] at ha
        | some p => simp

/-- A rank whose plan contains a failing payload write is never blocked before `take` raises. -/
theorem sfaulty_rank_progress {cfg : Cfg} {s : SState} (h : SInv cfg s) (r w : Nat) (hr : r < cfg.n)
    (hw : w < cfg.nw r) (hf : cfg.pfail r w = true) : s.pc r = .raisedIO ∨ SCan cfg s r := by
  cases hpc : s.pc r with
  | io => exact .inr (scan_io hr hpc)
  | raisedIO => exact .inl rfl
  | _ =>
    exfalso
    have hd := h.a.s_io r (by simp [hpc, entered1]) w hw
    have := h.w.done_ok r w hd
    simp [hf] at this

/-- Ranks that have not entered the first barrier, when no payload write is planned to fail, are
still writing. -/
theorem not_entered1_io {cfg : Cfg} {s : SState} (h : SInv cfg s)
    (hnf : ∀ r w, r < cfg.n → w < cfg.nw r → cfg.pfail r w = false)
    (k : Nat) (hk : k < cfg.n) (hne : entered1 (s.pc k) = false) : s.pc k = .io := by
  cases hpc : s.pc k with
  | io => rfl
  | raisedIO =>
    obtain ⟨w, hw, hfl⟩ := h.a.s_rio k hpc
    have := h.w.failed_plan k w hfl
    simp [hnf k w hk hw] at this
  | _ => simp [hpc, entered1] at hne

/-- **No deadlock (sync), fault-free payload.** While rank r has neither returned nor raised and rank 0
has not raised, some rank has an enabled step. -/
theorem sprogress {cfg : Cfg} {s : SState} (h : SInv cfg s)
    (hnf : ∀ r w, r < cfg.n → w < cfg.nw r → cfg.pfail r w = false)
    (r : Nat) (hr : r < cfg.n) (hnt : s.pc r ≠ .retOk ∧ s.pc r ≠ .raisedIO ∧ s.pc r ≠ .raisedM)
    (h0 : s.pc 0 ≠ .raisedM) : ∃ k, k < cfg.n ∧ SCan cfg s k := by
  have hin1 : ∀ k, k < cfg.n → s.pc k = .in1 → ∃ k, k < cfg.n ∧ SCan cfg s k := by
    intro k hk hpc
    cases hall : allB cfg.n (fun k => entered1 (s.pc k)) with
    | true => exact ⟨k, hk, .ctl, by simp [sstep?, sctl?, hk, hpc, hall]⟩
    | false =>
      have : ¬ ∀ j, j < cfg.n → entered1 (s.pc j) = true := by
        intro hh; rw [← allB_iff] at hh; simp [hh] at hall
      simp only [Classical.not_forall] at this
      obtain ⟨j, hj, hne⟩ := this
      have hjio := not_entered1_io h hnf j hj (by simpa using hne)
      exact ⟨j, hj, scan_io hj hjio⟩
  cases hpc : s.pc r with
  | io => exact ⟨r, hr, scan_io hr hpc⟩
  | in1 => exact hin1 r hr hpc
  | mBegin => exact ⟨r, hr, .ctl, by simp [sstep?, sctl?, hr, hpc]⟩
  | mEnd => exact ⟨r, hr, .ctl, by cases hmf : cfg.mfail <;> simp [sstep?, sctl?, hr, hpc, hmf]⟩
  | excM => exact ⟨r, hr, .ctl, by simp [sstep?, sctl?, hr, hpc]⟩
  | pre2 => exact ⟨r, hr, .ctl, by simp [sstep?, sctl?, hr, hpc]⟩
  | in2 =>
    cases hall : allB cfg.n (fun k => entered2 (s.pc k)) with
    | true => exact ⟨r, hr, .ctl, by simp [sstep?, sctl?, hr, hpc, hall]⟩
    | false =>
      have : ¬ ∀ j, j < cfg.n → entered2 (s.pc j) = true := by
        intro hh; rw [← allB_iff] at hh; simp [hh] at hall
      simp only [Classical.not_forall] at this
      obtain ⟨j, hj, hne⟩ := this
      have he1 := h.b.s_b1 r hr (by simp [hpc, past1]) j hj
      cases hpj : s.pc j with
      | io => simp [hpj, entered1] at he1
      | raisedIO => simp [hpj, entered1] at he1
      | in1 => exact hin1 j hj hpj
      | mBegin => exact ⟨j, hj, .ctl, by simp [sstep?, sctl?, hj, hpj]⟩
      | mEnd => exact ⟨j, hj, .ctl, by cases hmf : cfg.mfail <;> simp [sstep?, sctl?, hj, hpj, hmf]⟩
      | excM => exact ⟨j, hj, .ctl, by simp [sstep?, sctl?, hj, hpj]⟩
      | pre2 => exact ⟨j, hj, .ctl, by simp [sstep?, sctl?, hj, hpj]⟩
      | in2 => simp [hpj, entered2] at hne
      | retOk => simp [hpj, entered2] at hne
      | raisedM =>
        have := h.a.s_lead j (by simp [hpj, sleaderPC])
        subst this
        exact absurd hpj h0
  | retOk => exact absurd hpc hnt.1
  | raisedIO => exact absurd hpc hnt.2.1
  | raisedM => exact absurd hpc hnt.2.2

end Ts.Commit
