import TsModel.Slab
import TsProofs.Chunk
/-! Helper lemmas for C16: Python-dict model, slab packing (`place`), contiguity check, staging. -/
namespace Ts.Slab
open Ts.Storage (Bytes slice)
open Ts.Chunk (Consec slice_length slice_append_slice slice_self slice_all)

/-! ### dict -/

section dict
variable {κ ν : Type} [BEq κ] [LawfulBEq κ]

def keys (d : List (κ × ν)) : List κ := d.map (·.1)

theorem keys_dictInsert (d : List (κ × ν)) (k : κ) (v : ν) :
    keys (dictInsert d k v) = if k ∈ keys d then keys d else keys d ++ [k] := by
  induction d with
  | nil => simp [dictInsert, keys]
  | cons e t ih =>
    obtain ⟨k', v'⟩ := e
    by_cases h : k' == k
    · have : k' = k := eq_of_beq h
      subst this
      simp [dictInsert, keys]
    · have hne : ¬ k = k' := fun e => h (by rw [e]; exact beq_self_eq_true _)
      have e1 : keys (dictInsert ((k', v') :: t) k v) = k' :: keys (dictInsert t k v) := by
        simp [dictInsert, h, keys]
      rw [e1, ih]
      have hm : (k ∈ keys ((k', v') :: t)) ↔ k ∈ keys t := by simp [keys, hne]
      by_cases hk : k ∈ keys t
      · rw [if_pos hk, if_pos (hm.mpr hk)]; simp [keys]
      · rw [if_neg hk, if_neg (fun x => hk (hm.mp x))]; simp [keys]

/-- With pairwise distinct keys, building a dict from a list of pairs changes nothing. -/
theorem dictOfList_eq_self_aux (l : List (κ × ν)) : ∀ (d : List (κ × ν)),
    (d ++ l).Pairwise (fun a b => a.1 ≠ b.1) →
    l.foldl (fun d kv => dictInsert d kv.1 kv.2) d = d ++ l := by
  induction l with
  | nil => intro d _; simp
  | cons e l ih =>
    intro d hp
    have hins : dictInsert d e.1 e.2 = d ++ [e] := by
      have hk : ∀ x ∈ d, x.1 ≠ e.1 := by
        intro x hx
        have := List.pairwise_append.mp hp
        exact this.2.2 x hx e (by simp)
      clear hp ih
      induction d with
      | nil => simp [dictInsert]
      | cons x t iht =>
        have hx : (x.1 == e.1) = false := by
          have := hk x (by simp)
          simpa using this
        simp only [dictInsert, hx, List.cons_append]
        rw [iht (fun y hy => hk y (by simp [hy]))]
        simp
    simp only [List.foldl_cons, hins]
    rw [ih (d ++ [e]) (by simpa using hp)]
    simp

theorem dictOfList_eq_self (l : List (κ × ν)) (h : l.Pairwise (fun a b => a.1 ≠ b.1)) :
    dictOfList l = l := by
  have := dictOfList_eq_self_aux l [] (by simpa using h)
  simpa [dictOfList] using this

theorem mem_dictInsert_old (d : List (κ × ν)) (k k' : κ) (v v' : ν) (h : (k, v) ∈ d) (hne : k ≠ k') :
    (k, v) ∈ dictInsert d k' v' := by
  induction d with
  | nil => cases h
  | cons e t ih =>
    by_cases he : e.1 == k'
    · have ek : e.1 = k' := eq_of_beq he
      simp only [dictInsert, he, ↓reduceIte, List.mem_cons]
      rcases List.mem_cons.mp h with h | h
      · exfalso; apply hne; rw [← ek, ← h]
      · exact Or.inr h
    · simp only [dictInsert, he, Bool.false_eq_true, ↓reduceIte, List.mem_cons]
      rcases List.mem_cons.mp h with h | h
      · exact Or.inl h
      · exact Or.inr (ih h)

theorem mem_dictInsert_new (d : List (κ × ν)) (k : κ) (v : ν) : (k, v) ∈ dictInsert d k v := by
  induction d with
  | nil => simp [dictInsert]
  | cons e t ih =>
    by_cases he : e.1 == k
    · have ek : e.1 = k := eq_of_beq he
      simp [dictInsert, he, ek]
    · simp only [dictInsert, he, Bool.false_eq_true, ↓reduceIte, List.mem_cons]
      exact Or.inr ih

theorem mem_of_mem_dictInsert (d : List (κ × ν)) (k : κ) (v : ν) (x : κ × ν) (h : x ∈ dictInsert d k v) :
    x ∈ d ∨ x = (k, v) ∨ (x.1 = k ∧ x.2 = v) := by
  induction d with
  | nil => simp [dictInsert] at h; exact Or.inr (Or.inl h)
  | cons e t ih =>
    by_cases he : e.1 == k
    · have ek : e.1 = k := eq_of_beq he
      simp only [dictInsert, he, ↓reduceIte, List.mem_cons] at h
      rcases h with h | h
      · right; right; rw [h]; exact ⟨ek, rfl⟩
      · left; simp [h]
    · simp only [dictInsert, he, Bool.false_eq_true, ↓reduceIte, List.mem_cons] at h
      rcases h with h | h
      · left; simp [h]
      · rcases ih h with h | h
        · left; simp [h]
        · right; exact h

/-- A pair whose key carries a single value in the list survives into the dict. -/
theorem mem_foldl_dictInsert (l : List (κ × ν)) (k : κ) (v : ν) : ∀ (d : List (κ × ν)),
    ((k, v) ∈ d ∨ (k, v) ∈ l) → (∀ v', (k, v') ∈ l → v' = v) →
    (k, v) ∈ l.foldl (fun d kv => dictInsert d kv.1 kv.2) d := by
  induction l with
  | nil => intro d h _; simpa using h
  | cons e l ih =>
    intro d h huniq
    simp only [List.foldl_cons]
    apply ih
    · by_cases hk : e.1 = k
      · have : e.2 = v := huniq e.2 (by rw [← hk]; simp)
        left; rw [← hk, ← this]; exact mem_dictInsert_new d e.1 e.2
      · rcases h with h | h
        · left; exact mem_dictInsert_old d k e.1 v e.2 h (fun x => hk x.symm)
        · rcases List.mem_cons.mp h with h | h
          · exfalso; apply hk; rw [← h]
          · right; exact h
    · intro v' hv'; exact huniq v' (List.mem_cons_of_mem _ hv')

theorem mem_dictOfList_of_unique (l : List (κ × ν)) (k : κ) (v : ν) (h : (k, v) ∈ l)
    (huniq : ∀ v', (k, v') ∈ l → v' = v) : (k, v) ∈ dictOfList l :=
  mem_foldl_dictInsert l k v [] (Or.inr h) huniq

/-- Everything in the dict came from the list. -/
theorem mem_of_mem_foldl_dictInsert (l : List (κ × ν)) : ∀ (d : List (κ × ν)) (x : κ × ν),
    x ∈ l.foldl (fun d kv => dictInsert d kv.1 kv.2) d → x ∈ d ∨ x ∈ l := by
  induction l with
  | nil => intro d x h; left; simpa using h
  | cons e l ih =>
    intro d x h
    simp only [List.foldl_cons] at h
    rcases ih _ x h with h | h
    · rcases mem_of_mem_dictInsert d e.1 e.2 x h with h | h | h
      · left; exact h
      · right; rw [h]; simp
      · right
        have : x = e := Prod.ext h.1 h.2
        rw [this]; simp
    · right; exact List.mem_cons_of_mem _ h

theorem mem_of_mem_dictOfList (l : List (κ × ν)) (x : κ × ν) (h : x ∈ dictOfList l) : x ∈ l := by
  rcases mem_of_mem_foldl_dictInsert l [] x h with h | h
  · cases h
  · exact h

end dict

/-! ### the packing loop -/

/-- Byte ranges placed in slab `j`, in request order. -/
def rangesOf (pl : List (Option Place)) (j : Nat) : List (Nat × Nat) :=
  pl.filterMap (fun o => match o with
    | some p => if p.slab = j then some (p.lo, p.hi) else none
    | none => none)

theorem rangesOf_none (pl : List (Option Place)) (j : Nat) : rangesOf (none :: pl) j = rangesOf pl j := by
  simp [rangesOf]

theorem rangesOf_some (p : Place) (pl : List (Option Place)) (j : Nat) :
    rangesOf (some p :: pl) j = if p.slab = j then (p.lo, p.hi) :: rangesOf pl j else rangesOf pl j := by
  by_cases h : p.slab = j <;> simp [rangesOf, h]

theorem slabMembers_ranges (pl : List (Option Place)) : ∀ (n j : Nat),
    (slabMembers (pl.zipIdx n) j).map (·.1) = rangesOf pl j := by
  induction pl with
  | nil => intro n j; simp [slabMembers, rangesOf]
  | cons o pl ih =>
    intro n j
    have := ih (n + 1) j
    cases o with
    | none =>
      simp only [List.zipIdx_cons, rangesOf_none, ← this]
      simp [slabMembers]
    | some p =>
      rw [rangesOf_some, ← this]
      by_cases h : p.slab = j <;> simp [slabMembers, h]

theorem place_length {α : Type} (thr : Nat) : ∀ (reqs : List (WReq α)) (k cur : Nat),
    (place thr reqs k cur).length = reqs.length := by
  intro reqs
  induction reqs with
  | nil => intros; rfl
  | cons r rs ih =>
    intro k cur
    simp only [place]
    split
    · simp [ih]
    · split <;> simp [ih]

/-- Per-slab ranges produced by the packing loop from state `(k, cur)`: nothing for earlier slabs, the current
slab continues from `cur`, later slabs start from 0; every slab stays below the threshold. -/
theorem place_ranges {α : Type} (thr : Nat) (hthr : 0 < thr) : ∀ (reqs : List (WReq α)) (k cur j : Nat),
    (j < k → rangesOf (place thr reqs k cur) j = []) ∧
    (j = k → ∃ e, Consec cur (rangesOf (place thr reqs k cur) j) e ∧ (cur < thr → e < thr)) ∧
    (k < j → ∃ e, Consec 0 (rangesOf (place thr reqs k cur) j) e ∧ e < thr) := by
  intro reqs
  induction reqs with
  | nil =>
    intro k cur j
    refine ⟨fun _ => rfl, fun _ => ⟨cur, by simp [place, rangesOf, Consec], id⟩, fun _ => ⟨0, by simp [place, rangesOf, Consec], hthr⟩⟩
  | cons r rs ih =>
    intro k cur j
    simp only [place]
    split
    · rw [rangesOf_none]; exact ih k cur j
    · rename_i hb
      have hsz : r.size < thr := by
        simp only [Bool.or_eq_true, Bool.not_eq_true', decide_eq_true_eq, not_or] at hb
        omega
      split
      · -- a new slab k+1 starting at 0
        obtain ⟨i1, i2, i3⟩ := ih (k + 1) r.size j
        rw [rangesOf_some]
        refine ⟨fun h => ?_, fun h => ?_, fun h => ?_⟩
        · rw [if_neg (by simp; omega)]; exact i1 (by omega)
        · rw [if_neg (by simp; omega), i1 (by omega)]
          exact ⟨cur, by simp [Consec], id⟩
        · by_cases hj : k + 1 = j
          · rw [if_pos (by simpa using hj)]
            obtain ⟨e, he, hlt⟩ := i2 hj.symm
            exact ⟨e, ⟨rfl, by simp, he⟩, hlt hsz⟩
          · rw [if_neg (by simpa using hj)]
            exact i3 (by omega)
      · -- stays in slab k
        rename_i hfit
        obtain ⟨i1, i2, i3⟩ := ih k (cur + r.size) j
        rw [rangesOf_some]
        refine ⟨fun h => ?_, fun h => ?_, fun h => ?_⟩
        · rw [if_neg (by simp; omega)]; exact i1 h
        · rw [if_pos (by simp; omega)]
          obtain ⟨e, he, hlt⟩ := i2 h
          exact ⟨e, ⟨rfl, by simp, he⟩, fun _ => hlt (by omega)⟩
        · rw [if_neg (by simp; omega)]; exact i3 h

/-- Which requests are placed, and with which range length. -/
theorem place_classify {α : Type} (thr : Nat) : ∀ (reqs : List (WReq α)) (k cur : Nat),
    ∀ e ∈ reqs.zip (place thr reqs k cur),
      (e.2 = none ↔ (batchable e.1 = false ∨ thr ≤ e.1.size)) ∧
      ∀ p, e.2 = some p → p.hi = p.lo + e.1.size ∧ k ≤ p.slab := by
  intro reqs
  induction reqs with
  | nil => intro k cur e he; simp [place] at he
  | cons r rs ih =>
    intro k cur e he
    simp only [place] at he
    split at he
    · rename_i hb
      simp only [List.zip_cons_cons, List.mem_cons] at he
      rcases he with rfl | he
      · simp only [Bool.or_eq_true, Bool.not_eq_true', decide_eq_true_eq] at hb
        simp [hb]
      · exact ih k cur e he
    · rename_i hb
      simp only [Bool.or_eq_true, Bool.not_eq_true', decide_eq_true_eq, not_or] at hb
      split at he
      · simp only [List.zip_cons_cons, List.mem_cons] at he
        rcases he with rfl | he
        · refine ⟨by simp; exact ⟨by simpa using hb.1, by omega⟩, ?_⟩
          intro p hp; simp at hp; subst hp; simp
        · have := ih (k + 1) r.size e he
          exact ⟨this.1, fun p hp => ⟨(this.2 p hp).1, by have := (this.2 p hp).2; omega⟩⟩
      · simp only [List.zip_cons_cons, List.mem_cons] at he
        rcases he with rfl | he
        · refine ⟨by simp; exact ⟨by simpa using hb.1, by omega⟩, ?_⟩
          intro p hp; simp at hp; subst hp; simp
        · exact ih k (cur + r.size) e he

theorem le_lastSlab : ∀ (pl : List (Option Place)) (p : Place), some p ∈ pl → p.slab ≤ lastSlab pl := by
  intro pl
  induction pl with
  | nil => intro p h; cases h
  | cons o pl ih =>
    intro p h
    cases o with
    | none =>
      simp only [lastSlab]
      exact ih p (by simpa using h)
    | some q =>
      simp only [lastSlab]
      rcases List.mem_cons.mp h with h | h
      · have : p = q := by simpa using h
        subst this; omega
      · have := ih p h; omega

/-- Placements made from state `(k, cur)` go to slab `k` at or after `cur`, or to a later slab. -/
theorem place_later {α : Type} (thr : Nat) : ∀ (reqs : List (WReq α)) (k cur : Nat) (q : Place),
    some q ∈ place thr reqs k cur → k ≤ q.slab ∧ (q.slab = k → cur ≤ q.lo) := by
  intro reqs
  induction reqs with
  | nil => intro k cur q h; simp [place] at h
  | cons r rs ih =>
    intro k cur q h
    simp only [place] at h
    split at h
    · exact ih k cur q (by simpa using h)
    · split at h
      · rcases List.mem_cons.mp h with h | h
        · have : q = ⟨k + 1, 0, r.size⟩ := by simpa using h
          subst this; simp
        · have := ih (k + 1) r.size q h
          exact ⟨by omega, fun e => by omega⟩
      · rcases List.mem_cons.mp h with h | h
        · have : q = ⟨k, cur, cur + r.size⟩ := by simpa using h
          subst this; simp
        · have := ih k (cur + r.size) q h
          exact ⟨this.1, fun e => by have := this.2 e; omega⟩

/-- Two requests placed in the same slab: the earlier one's range ends before the later one's starts. -/
theorem place_pairwise {α : Type} (thr : Nat) : ∀ (reqs : List (WReq α)) (k cur : Nat),
    (place thr reqs k cur).Pairwise
      (fun o o' => ∀ p q, o = some p → o' = some q → p.slab = q.slab → p.hi ≤ q.lo) := by
  intro reqs
  induction reqs with
  | nil => intro k cur; simp [place]
  | cons r rs ih =>
    intro k cur
    simp only [place]
    split
    · exact List.Pairwise.cons (fun _ _ p q h => by simp at h) (ih k cur)
    · split
      · refine List.Pairwise.cons ?_ (ih (k + 1) r.size)
        intro o' ho' p q hp hq hs
        have hp' : p = ⟨k + 1, 0, r.size⟩ := by simpa using hp.symm
        subst hp' hq
        exact (place_later thr rs (k + 1) r.size q ho').2 hs.symm
      · refine List.Pairwise.cons ?_ (ih k (cur + r.size))
        intro o' ho' p q hp hq hs
        have hp' : p = ⟨k, cur, cur + r.size⟩ := by simpa using hp.symm
        subst hp' hq
        exact (place_later thr rs k (cur + r.size) q ho').2 hs.symm

/-! ### `_check_byte_ranges_contiguous` and `Slab.build` -/

theorem checkContiguous_go : ∀ (rs : List (Nat × Nat)) (e b : Nat), Consec e rs b →
    checkContiguous.go e rs = .ok b := by
  intro rs
  induction rs with
  | nil => intro e b h; simp [Consec] at h; simp [checkContiguous.go, h]
  | cons r rs ih =>
    intro e b h
    obtain ⟨h1, _, h3⟩ := h
    simp only [checkContiguous.go]
    rw [if_neg (by simp [h1])]
    exact ih _ _ h3

theorem checkContiguous_consec (ks : List (Nat × Nat)) (a b : Nat) (h : Consec a ks b) (hne : ks ≠ []) :
    checkContiguous ks = .ok b := by
  cases ks with
  | nil => exact absurd rfl hne
  | cons r rs =>
    obtain ⟨_, _, h3⟩ := h
    simp only [checkContiguous]
    exact checkContiguous_go rs _ _ h3

theorem foldl_dictInsert_consec {ν : Type} : ∀ (ms d : List ((Nat × Nat) × ν)) (a0 a b : Nat),
    Consec a0 (keys d) a → Consec a (ms.map (·.1)) b →
    Consec a0 (keys (ms.foldl (fun d kv => dictInsert d kv.1 kv.2) d)) b := by
  intro ms
  induction ms with
  | nil => intro d a0 a b h1 h2; simp [Consec] at h2; subst h2; simpa using h1
  | cons m ms ih =>
    intro d a0 a b h1 h2
    simp only [List.map_cons, Consec] at h2
    obtain ⟨e1, e2, e3⟩ := h2
    simp only [List.foldl_cons]
    apply ih _ a0 m.1.2 b _ e3
    rw [keys_dictInsert]
    split
    · rename_i hin
      have := (Consec.mem h1 m.1 hin).2.2
      have : m.1.2 = a := by omega
      rw [this]; exact h1
    · exact Consec.append h1 ⟨e1, e2, rfl⟩

theorem foldl_dictInsert_ne_nil {κ ν : Type} [BEq κ] : ∀ (l d : List (κ × ν)), (d ≠ [] ∨ l ≠ []) →
    l.foldl (fun d kv => dictInsert d kv.1 kv.2) d ≠ [] := by
  intro l
  induction l with
  | nil => intro d h; rcases h with h | h; exact h; exact absurd rfl h
  | cons e l ih =>
    intro d _
    simp only [List.foldl_cons]
    apply ih
    left
    cases d with
    | nil => simp [dictInsert]
    | cons x t => simp only [dictInsert]; split <;> simp

/-- `Slab.build` on consecutive member ranges: the contiguity check of `BatchedBufferStager.__init__` passes
and `slab_sz_bytes` is the end of the last range. -/
theorem buildSlab_ok (k : Nat) (ms : List ((Nat × Nat) × Nat)) (e : Nat) (hne : ms ≠ [])
    (hc : Consec 0 (ms.map (·.1)) e) : buildSlab k ms = .ok ⟨k, dictOfList ms, e⟩ := by
  have h1 : Consec 0 (keys (dictOfList ms)) e :=
    foldl_dictInsert_consec ms [] 0 0 e (by simp [keys, Consec]) hc
  have h2 : keys (dictOfList ms) ≠ [] := by
    have := foldl_dictInsert_ne_nil ms ([] : List ((Nat × Nat) × Nat)) (Or.inr hne)
    intro h
    apply this
    have h' : dictOfList ms = [] := by simpa [keys] using h
    simpa [dictOfList] using h'
  simp only [buildSlab]
  have := checkContiguous_consec _ 0 e h1 h2
  simp only [keys] at this
  rw [this]

theorem buildSlabs_ok (ipl : List (Option Place × Nat))
    (H : ∀ j, ∃ e, Consec 0 ((slabMembers ipl j).map (·.1)) e) : ∀ ks : List Nat,
    ∃ slabs, buildSlabs ipl ks = .ok slabs ∧
      (slabs.map (·.slab) = ks.filter (fun k => !(slabMembers ipl k).isEmpty)) ∧
      ∀ s ∈ slabs, s.members = dictOfList (slabMembers ipl s.slab) ∧
        Consec 0 ((slabMembers ipl s.slab).map (·.1)) s.size := by
  intro ks
  induction ks with
  | nil => exact ⟨[], rfl, rfl, by simp⟩
  | cons k ks ih =>
    obtain ⟨slabs, h1, h2, h3⟩ := ih
    simp only [buildSlabs]
    by_cases hem : (slabMembers ipl k).isEmpty
    · rw [if_pos hem]
      exact ⟨slabs, h1, by simp [List.filter_cons, hem, h2], h3⟩
    · rw [if_neg hem]
      obtain ⟨e, he⟩ := H k
      have hne : slabMembers ipl k ≠ [] := by simpa using hem
      rw [buildSlab_ok k _ e hne he, h1]
      refine ⟨_, rfl, by simp [List.filter_cons, hem, h2], ?_⟩
      intro s hs
      rcases List.mem_cons.mp hs with rfl | hs
      · exact ⟨rfl, he⟩
      · exact h3 s hs

/-! ### staging -/

theorem blit_length (s : Bytes) (lo hi : Nat) (buf : Bytes) (h1 : lo ≤ hi) (h2 : hi ≤ s.length)
    (h3 : buf.length + lo = hi) : (blit s lo hi buf).length = s.length := by
  simp [blit]; omega

theorem slice_blit_self (s : Bytes) (lo hi : Nat) (buf : Bytes) (h1 : lo ≤ hi) (h2 : hi ≤ s.length)
    (h3 : buf.length + lo = hi) : slice (blit s lo hi buf) lo hi = buf := by
  apply List.ext_getElem?
  intro i
  simp only [slice, blit, List.getElem?_take, List.getElem?_drop, List.getElem?_append, List.length_take,
    List.length_append]
  grind

theorem slice_blit_disj (s : Bytes) (lo hi a b : Nat) (buf : Bytes) (h1 : lo ≤ hi) (h2 : hi ≤ s.length)
    (h3 : buf.length + lo = hi) (hab : a ≤ b) (hd : b ≤ lo ∨ hi ≤ a) :
    slice (blit s lo hi buf) a b = slice s a b := by
  apply List.ext_getElem?
  intro i
  simp only [slice, blit, List.getElem?_take, List.getElem?_drop, List.getElem?_append, List.length_take,
    List.length_append]
  grind

/-- One pass of `stage_buffer` over sub-stager results that fit the slab and are pairwise disjoint: no
length check fires, the slab keeps its size, each result sits at its range, everything else is untouched. -/
theorem stage_fold (size : Nat) : ∀ (done : List ((Nat × Nat) × Bytes)) (init : Bytes),
    init.length = size →
    (∀ m ∈ done, m.1.1 ≤ m.1.2 ∧ m.1.2 ≤ size ∧ m.2.length + m.1.1 = m.1.2) →
    done.Pairwise (fun p q => p.1.2 ≤ q.1.1 ∨ q.1.2 ≤ p.1.1) →
    ∃ out, done.foldlM (fun slab m =>
        if m.2.length + m.1.1 ≠ m.1.2 then (.error .sizeMismatch : Except Err Bytes)
        else .ok (blit slab m.1.1 m.1.2 m.2)) init = .ok out ∧
      out.length = size ∧ (∀ m ∈ done, slice out m.1.1 m.1.2 = m.2) ∧
      ∀ a b, a ≤ b → (∀ m ∈ done, b ≤ m.1.1 ∨ m.1.2 ≤ a) → slice out a b = slice init a b := by
  intro done
  induction done with
  | nil => intro init hl _ _; exact ⟨init, rfl, hl, by simp, fun _ _ _ _ => rfl⟩
  | cons m rest ih =>
    intro init hl hfit hpw
    obtain ⟨hm1, hm2, hm3⟩ := hfit m (by simp)
    rw [List.pairwise_cons] at hpw
    have hl1 : (blit init m.1.1 m.1.2 m.2).length = size := by
      rw [blit_length _ _ _ _ hm1 (by omega) hm3]; exact hl
    obtain ⟨out, ho, hlen, hsl, hkeep⟩ := ih _ hl1 (fun x hx => hfit x (by simp [hx])) hpw.2
    refine ⟨out, ?_, hlen, ?_, ?_⟩
    · rw [List.foldlM_cons]
      simp only [ne_eq, hm3, not_true_eq_false, ↓reduceIte]
      exact ho
    · intro x hx
      rcases List.mem_cons.mp hx with rfl | hx
      · rw [hkeep _ _ hm1 (fun y hy => by
          rcases hpw.1 y hy with h | h
          · left; exact h
          · right; exact h)]
        exact slice_blit_self _ _ _ _ hm1 (by omega) hm3
      · exact hsl x hx
    · intro a b hab hd
      rw [hkeep a b hab (fun y hy => hd y (by simp [hy]))]
      exact slice_blit_disj _ _ _ _ _ _ hm1 (by omega) hm3 hab (hd m (by simp))

theorem pairwise_mem {α : Type} {R : α → α → Prop} : ∀ {l : List α}, l.Pairwise R → ∀ a ∈ l, ∀ b ∈ l,
    a = b ∨ R a b ∨ R b a := by
  intro l h
  induction h with
  | nil => intro a ha; cases ha
  | cons hx _ ih =>
    intro a ha b hb
    rcases List.mem_cons.mp ha with ha | ha <;> rcases List.mem_cons.mp hb with hb | hb
    · left; rw [ha, hb]
    · right; left; rw [ha]; exact hx b hb
    · right; right; rw [hb]; exact hx a ha
    · exact ih a ha b hb

theorem keys_foldl_nodup {κ ν : Type} [BEq κ] [LawfulBEq κ] : ∀ (l d : List (κ × ν)),
    (keys d).Nodup → (keys (l.foldl (fun d kv => dictInsert d kv.1 kv.2) d)).Nodup := by
  intro l
  induction l with
  | nil => intro d h; simpa using h
  | cons e l ih =>
    intro d h
    simp only [List.foldl_cons]
    apply ih
    rw [keys_dictInsert]
    split
    · exact h
    · rename_i hn
      rw [List.nodup_append]
      exact ⟨h, by simp, fun a ha b hb => by simp at hb; subst hb; exact fun e => hn (e ▸ ha)⟩

theorem keys_dictOfList_nodup {κ ν : Type} [BEq κ] [LawfulBEq κ] (l : List (κ × ν)) :
    (keys (dictOfList l)).Nodup :=
  keys_foldl_nodup l [] (by simp [keys])

/-- `stage_buffer` over the built dict in any completion order: see `C16_slab_stage`. -/
theorem stage_spec (size : Nat) (ms done : List ((Nat × Nat) × Bytes))
    (hc : Consec 0 (ms.map (·.1)) size) (hlen : ∀ m ∈ ms, m.2.length = m.1.2 - m.1.1)
    (hperm : done.Perm (dictOfList ms)) :
    ∃ slab, stage size done = .ok slab ∧ slab.length = size ∧
      slab = (ms.map (·.2)).flatten ∧ ∀ m ∈ ms, slice slab m.1.1 m.1.2 = m.2 := by
  have hin : ∀ m ∈ done, m ∈ ms := fun m hm => mem_of_mem_dictOfList ms m (hperm.mem_iff.mp hm)
  have hrange : ∀ m ∈ ms, m.1.1 ≤ m.1.2 ∧ m.1.2 ≤ size := fun m hm => by
    have := Consec.mem hc m.1 (List.mem_map_of_mem hm); omega
  have hpwms : ms.Pairwise (fun p q => p.1.2 ≤ q.1.1) := by
    have := hc.pairwise
    rwa [List.pairwise_map] at this
  -- the dict has pairwise distinct keys, hence pairwise disjoint ranges; so has any permutation of it
  have hpwd : (dictOfList ms).Pairwise (fun p q => p.1.2 ≤ q.1.1 ∨ q.1.2 ≤ p.1.1) := by
    have hk := keys_dictOfList_nodup ms
    simp only [keys, List.Nodup, List.pairwise_map] at hk
    refine hk.imp_of_mem ?_
    intro a b ha hb hne
    rcases pairwise_mem hpwms a (mem_of_mem_dictOfList ms a ha) b (mem_of_mem_dictOfList ms b hb) with h | h | h
    · exact absurd (congrArg (·.1) h) hne
    · exact Or.inl h
    · exact Or.inr h
  have hpw : done.Pairwise (fun p q => p.1.2 ≤ q.1.1 ∨ q.1.2 ≤ p.1.1) :=
    hperm.symm.pairwise hpwd (fun h => h.symm)
  obtain ⟨slab, hs, hl, hsl, _⟩ := stage_fold size done (List.replicate size 0) (by simp)
    (fun m hm => by
      have := hrange m (hin m hm); have := hlen m (hin m hm); omega) hpw
  have hall : ∀ m ∈ ms, slice slab m.1.1 m.1.2 = m.2 := by
    intro m hm
    by_cases hempty : m.1.1 = m.1.2
    · have : m.2 = [] := by
        have := hlen m hm; rw [hempty] at this; simpa using this
      rw [hempty, this]; exact slice_self _ _
    · -- a non-empty range occurs once, so the dict keeps it
      have huniq : ∀ v', (m.1, v') ∈ ms → v' = m.2 := by
        intro v' hv'
        rcases pairwise_mem hpwms m hm (m.1, v') hv' with h | h | h
        · exact (congrArg (·.2) h).symm
        · have := (hrange m hm).1; simp only at h; omega
        · have := (hrange m hm).1; simp only at h; omega
      have hmd : (m.1, m.2) ∈ dictOfList ms := mem_dictOfList_of_unique ms m.1 m.2 hm huniq
      exact hsl m (hperm.mem_iff.mpr hmd)
  refine ⟨slab, hs, hl, ?_, hall⟩
  have h1 := Consec.flatten_slices slab hc
  rw [List.map_map, ← hl, slice_all] at h1
  rw [← h1]
  congr 1
  apply List.map_congr_left
  intro m hm
  exact hall m hm

/-- the same onto any initial buffer of the right length: every byte is overwritten, old contents never survive -/
theorem stageOnto_spec (size : Nat) (init : Bytes) (hinit : init.length = size) (ms done : List ((Nat × Nat) × Bytes))
    (hc : Consec 0 (ms.map (·.1)) size) (hlen : ∀ m ∈ ms, m.2.length = m.1.2 - m.1.1)
    (hperm : done.Perm (dictOfList ms)) :
    ∃ slab, stageOnto init done = .ok slab ∧ slab.length = size ∧
      slab = (ms.map (·.2)).flatten ∧ ∀ m ∈ ms, slice slab m.1.1 m.1.2 = m.2 := by
  have hin : ∀ m ∈ done, m ∈ ms := fun m hm => mem_of_mem_dictOfList ms m (hperm.mem_iff.mp hm)
  have hrange : ∀ m ∈ ms, m.1.1 ≤ m.1.2 ∧ m.1.2 ≤ size := fun m hm => by
    have := Consec.mem hc m.1 (List.mem_map_of_mem hm); omega
  have hpwms : ms.Pairwise (fun p q => p.1.2 ≤ q.1.1) := by
    have := hc.pairwise
    rwa [List.pairwise_map] at this
  -- the dict has pairwise distinct keys, hence pairwise disjoint ranges; so has any permutation of it
  have hpwd : (dictOfList ms).Pairwise (fun p q => p.1.2 ≤ q.1.1 ∨ q.1.2 ≤ p.1.1) := by
    have hk := keys_dictOfList_nodup ms
    simp only [keys, List.Nodup, List.pairwise_map] at hk
    refine hk.imp_of_mem ?_
    intro a b ha hb hne
    rcases pairwise_mem hpwms a (mem_of_mem_dictOfList ms a ha) b (mem_of_mem_dictOfList ms b hb) with h | h | h
    · exact absurd (congrArg (·.1) h) hne
    · exact Or.inl h
    · exact Or.inr h
  have hpw : done.Pairwise (fun p q => p.1.2 ≤ q.1.1 ∨ q.1.2 ≤ p.1.1) :=
    hperm.symm.pairwise hpwd (fun h => h.symm)
  obtain ⟨slab, hs, hl, hsl, _⟩ := stage_fold size done init hinit
    (fun m hm => by
      have := hrange m (hin m hm); have := hlen m (hin m hm); omega) hpw
  have hall : ∀ m ∈ ms, slice slab m.1.1 m.1.2 = m.2 := by
    intro m hm
    by_cases hempty : m.1.1 = m.1.2
    · have : m.2 = [] := by
        have := hlen m hm; rw [hempty] at this; simpa using this
      rw [hempty, this]; exact slice_self _ _
    · -- a non-empty range occurs once, so the dict keeps it
      have huniq : ∀ v', (m.1, v') ∈ ms → v' = m.2 := by
        intro v' hv'
        rcases pairwise_mem hpwms m hm (m.1, v') hv' with h | h | h
        · exact (congrArg (·.2) h).symm
        · have := (hrange m hm).1; simp only at h; omega
        · have := (hrange m hm).1; simp only at h; omega
      have hmd : (m.1, m.2) ∈ dictOfList ms := mem_dictOfList_of_unique ms m.1 m.2 hm huniq
      exact hsl m (hperm.mem_iff.mpr hmd)
  refine ⟨slab, hs, hl, ?_, hall⟩
  have h1 := Consec.flatten_slices slab hc
  rw [List.map_map, ← hl, slice_all] at h1
  rw [← h1]
  congr 1
  apply List.map_congr_left
  intro m hm
  exact hall m hm

/-- Values do not influence which keys a dict keeps. -/
theorem dictInsert_map_val {κ ν μ : Type} [BEq κ] (g : ν → μ) : ∀ (d : List (κ × ν)) (k : κ) (v : ν),
    dictInsert (d.map (fun e => (e.1, g e.2))) k (g v) = (dictInsert d k v).map (fun e => (e.1, g e.2)) := by
  intro d
  induction d with
  | nil => intros; rfl
  | cons e t ih =>
    intro k v
    simp only [List.map_cons, dictInsert]
    split
    · simp
    · simp [ih]

theorem dictOfList_map_val {κ ν μ : Type} [BEq κ] (g : ν → μ) (l : List (κ × ν)) :
    dictOfList (l.map (fun e => (e.1, g e.2))) = (dictOfList l).map (fun e => (e.1, g e.2)) := by
  have : ∀ (l d : List (κ × ν)),
      (l.map (fun e => (e.1, g e.2))).foldl (fun d kv => dictInsert d kv.1 kv.2) (d.map (fun e => (e.1, g e.2)))
      = (l.foldl (fun d kv => dictInsert d kv.1 kv.2) d).map (fun e => (e.1, g e.2)) := by
    intro l
    induction l with
    | nil => intro d; rfl
    | cons e l ih =>
      intro d
      simp only [List.map_cons, List.foldl_cons]
      rw [dictInsert_map_val, ih]
  simpa [dictOfList] using this l []

/-! ### entry relocation -/

section reloc
variable {α : Type} [BEq α] [LawfulBEq α]

/-- The relocation records: `(path, placement)` of every placed request, in request order. -/
def placedList (reqs : List (WReq α)) (pl : List (Option Place)) : List (α × Place) :=
  (reqs.zip pl).filterMap (fun e => e.2.map (fun p => (e.1.path, p)))

/-- What batching does to one tensor entry: relocated to the slab and byte range of the request writing its
location, or left as it is. -/
def relocSlot (L : List (α × Place)) (t : TEntry α) : TEntry (Loc α) :=
  match L.find? (fun x => x.1 == t.loc) with
  | some x => ⟨.slab x.2.slab, some (x.2.lo, x.2.hi)⟩
  | none => ⟨.orig t.loc, t.range⟩

theorem find?_unique {β : Type} (key : β → α) : ∀ (l : List β), l.Pairwise (fun a b => key a ≠ key b) →
    ∀ x ∈ l, l.find? (fun y => key y == key x) = some x := by
  intro l
  induction l with
  | nil => intro _ x hx; cases hx
  | cons y ys ih =>
    intro hp x hx
    rw [List.pairwise_cons] at hp
    rcases List.mem_cons.mp hx with rfl | hx
    · simp [List.find?_cons]
    · have hne : (key y == key x) = false := by
        apply beq_false_of_ne
        exact hp.1 x hx
      rw [List.find?_cons, hne]
      exact ih hp.2 x hx

theorem zip_paths_pairwise (reqs : List (WReq α)) (pl : List (Option Place)) (hlen : reqs.length ≤ pl.length)
    (hpaths : (reqs.map (·.path)).Nodup) : (reqs.zip pl).Pairwise (fun a b => a.1.path ≠ b.1.path) := by
  have h1 : (reqs.zip pl).map (·.1) = reqs := List.map_fst_zip hlen
  have h2 : ((reqs.zip pl).map (·.1)).Pairwise (fun a b => a.path ≠ b.path) := by
    rw [h1]; simpa [List.Nodup, List.pairwise_map] using hpaths
  rwa [List.pairwise_map] at h2

theorem placedList_pairwise (reqs : List (WReq α)) (pl : List (Option Place)) (hlen : reqs.length ≤ pl.length)
    (hpaths : (reqs.map (·.path)).Nodup) : (placedList reqs pl).Pairwise (fun a b => a.1 ≠ b.1) := by
  rw [placedList, List.pairwise_filterMap]
  refine (zip_paths_pairwise reqs pl hlen hpaths).imp ?_
  intro a b hab x hx y hy
  cases ha : a.2 with
  | none => simp [ha] at hx
  | some p =>
    cases hb : b.2 with
    | none => simp [hb] at hy
    | some q =>
      simp only [ha, hb, Option.map_some, Option.some.injEq] at hx hy
      subst hx hy
      exact hab

theorem relocation_eq (reqs : List (WReq α)) (pl : List (Option Place)) (hlen : reqs.length ≤ pl.length)
    (hpaths : (reqs.map (·.path)).Nodup) : relocation reqs pl = placedList reqs pl :=
  dictOfList_eq_self _ (placedList_pairwise reqs pl hlen hpaths)

/-- `location_to_entry[t.loc]` is `t`'s own position when locations are pairwise distinct. -/
theorem l2e_get (S : List (TEntry α)) (hlocs : (S.map (·.loc)).Nodup) (t : TEntry α) (i : Nat)
    (h : (t, i) ∈ S.zipIdx) :
    dictGet (dictOfList (S.zipIdx.map (fun e => (e.1.loc, e.2)))) t.loc = some i := by
  have hpw : (S.zipIdx.map (fun e => (e.1.loc, e.2))).Pairwise (fun a b => a.1 ≠ b.1) := by
    rw [List.pairwise_map]
    have h2 : (S.zipIdx.map Prod.fst).Pairwise (fun a b => a.loc ≠ b.loc) := by
      rw [List.zipIdx_map_fst]; simpa [List.Nodup, List.pairwise_map] using hlocs
    rwa [List.pairwise_map] at h2
  rw [dictOfList_eq_self _ hpw]
  have := find?_unique (fun e : α × Nat => e.1) _ hpw (t.loc, i) (List.mem_map.mpr ⟨(t, i), h, rfl⟩)
  simp only [dictGet]
  rw [this]; rfl

theorem l2e_get_iff (S : List (TEntry α)) (hlocs : (S.map (·.loc)).Nodup) (t : TEntry α) (i : Nat)
    (h : (t, i) ∈ S.zipIdx) (p : α) :
    (dictGet (dictOfList (S.zipIdx.map (fun e => (e.1.loc, e.2)))) p == some i) = (p == t.loc) := by
  by_cases e : p = t.loc
  · subst e; rw [l2e_get S hlocs t i h]; simp
  · have hne : (p == t.loc) = false := beq_false_of_ne e
    rw [hne]
    apply beq_false_of_ne
    intro hg
    apply e
    -- the dict returned position i, whose entry is t
    have hpw : (S.zipIdx.map (fun e => (e.1.loc, e.2))).Pairwise (fun a b => a.1 ≠ b.1) := by
      rw [List.pairwise_map]
      have h2 : (S.zipIdx.map Prod.fst).Pairwise (fun a b => a.loc ≠ b.loc) := by
        rw [List.zipIdx_map_fst]; simpa [List.Nodup, List.pairwise_map] using hlocs
      rwa [List.pairwise_map] at h2
    rw [dictOfList_eq_self _ hpw] at hg
    simp only [dictGet, Option.map_eq_some_iff] at hg
    obtain ⟨x, hx, hxi⟩ := hg
    have hxm := List.mem_of_find?_eq_some hx
    have hxp := List.find?_some hx
    obtain ⟨y, hy, rfl⟩ := List.mem_map.mp hxm
    simp only at hxi hxp
    have e1 := (List.mem_zipIdx hy).2.2
    have e2 := (List.mem_zipIdx h).2.2
    have : y.1 = t := by
      rw [e1, e2]; simp only [hxi]
    rw [← this]
    exact (eq_of_beq hxp).symm

theorem dictGet_cons {κ ν : Type} [BEq κ] (k : κ) (v : ν) (t : List (κ × ν)) (i : κ) :
    dictGet ((k, v) :: t) i = if k == i then some v else dictGet t i := by
  simp only [dictGet, List.find?_cons]
  cases k == i <;> simp

theorem targets_spec (l2e : List (α × Nat)) : ∀ (L : List (α × Place)),
    (∀ x ∈ L, ∃ i, dictGet l2e x.1 = some i) →
    ∃ ts, targets l2e L = .ok ts ∧
      ∀ i, dictGet ts i = (L.find? (fun x => dictGet l2e x.1 == some i)).map (·.2) := by
  intro L
  induction L with
  | nil => intro _; exact ⟨[], rfl, fun i => rfl⟩
  | cons x L ih =>
    intro h
    obtain ⟨j, hj⟩ := h x (by simp)
    obtain ⟨ts, hts, hget⟩ := ih (fun y hy => h y (by simp [hy]))
    obtain ⟨p, pc⟩ := x
    refine ⟨(j, pc) :: ts, by simp only [targets]; simp only at hj; rw [hj, hts], ?_⟩
    intro i
    simp only at hj
    rw [dictGet_cons, List.find?_cons, hj]
    by_cases e : j = i
    · subst e; simp
    · have h1 : (j == i) = false := beq_false_of_ne e
      have h2 : (some j == some i) = false := by simp [e]
      rw [h1, h2]
      exact hget i

theorem mapFrom_congr {a b : Type} (f g : Nat → TEntry a → TEntry b) : ∀ (l : List (TEntry a)) (n : Nat),
    (∀ x ∈ l.zipIdx n, f x.2 x.1 = g x.2 x.1) → mapFrom f n l = mapFrom g n l := by
  intro l
  induction l with
  | nil => intros; rfl
  | cons t ts ih =>
    intro n h
    simp only [mapFrom]
    rw [h (t, n) (by simp [List.zipIdx_cons]), ih (n + 1) (fun x hx => h x (by simp [List.zipIdx_cons, hx]))]

theorem mapEntries_congr {a b : Type} (f g : Nat → TEntry a → TEntry b) : ∀ (es : List (Entry a)) (n : Nat),
    (∀ x ∈ (slots es).zipIdx n, f x.2 x.1 = g x.2 x.1) → mapEntries f n es = mapEntries g n es := by
  intro es
  induction es with
  | nil => intros; rfl
  | cons e es ih =>
    intro n h
    cases e with
    | tensor t =>
      simp only [mapEntries, slots, List.zipIdx_cons] at h ⊢
      rw [h (t, n) (by simp), ih (n + 1) (fun x hx => h x (by simp [hx]))]
    | chunked cs =>
      simp only [mapEntries, slots, List.zipIdx_append] at h ⊢
      rw [mapFrom_congr f g cs n (fun x hx => h x (by simp [hx])),
        ih (n + cs.length) (fun x hx => h x (by simp [hx]))]
    | sharded cs =>
      simp only [mapEntries, slots, List.zipIdx_append] at h ⊢
      rw [mapFrom_congr f g cs n (fun x hx => h x (by simp [hx])),
        ih (n + cs.length) (fun x hx => h x (by simp [hx]))]
    | other =>
      simp only [mapEntries, slots] at h ⊢
      rw [ih n h]

theorem slots_mapEntries {a b : Type} (f : TEntry a → TEntry b) : ∀ (es : List (Entry a)) (n : Nat),
    slots (mapEntries (fun _ t => f t) n es) = (slots es).map f := by
  have hmf : ∀ (l : List (TEntry a)) (n : Nat), mapFrom (fun _ t => f t) n l = l.map f := by
    intro l
    induction l with
    | nil => intro n; rfl
    | cons t ts ih => intro n; simp [mapFrom, ih]
  intro es
  induction es with
  | nil => intro n; rfl
  | cons e es ih =>
    intro n
    cases e <;> simp [mapEntries, slots, ih, hmf]

end reloc

end Ts.Slab
