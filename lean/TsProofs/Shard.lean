import TsModel.Shard
/-! Helper lemmas for the resharding model (C08). -/
namespace Ts.Shard

/-! ## index vectors -/

@[simp] theorem inRange_nil : inRange [] [] [] = true := rfl
@[simp] theorem inRange_cons (o s i : Nat) (os ss is : List Nat) :
    inRange (o :: os) (s :: ss) (i :: is)
      = (decide (o ≤ i) && decide (i < o + s) && inRange os ss is) := rfl
@[simp] theorem inSizes_nil : inSizes [] [] = true := rfl
@[simp] theorem inSizes_cons (s i : Nat) (ss is : List Nat) :
    inSizes (s :: ss) (i :: is) = (decide (i < s) && inSizes ss is) := rfl

theorem inRange_length {o s i : List Nat} (h : inRange o s i = true) :
    s.length = o.length ∧ i.length = o.length := by
  fun_induction inRange o s i <;> simp_all

theorem inSizes_length {s i : List Nat} (h : inSizes s i = true) : i.length = s.length := by
  fun_induction inSizes s i <;> simp_all

/-- all sizes positive (a non-empty box) -/
def allPos (l : List Nat) : Prop := ∀ x ∈ l, 0 < x

/-- well-formed box: one size per offset (`ShardMetadata.__post_init__`) -/
def Box.WF (b : Box) : Prop := b.sizes.length = b.offsets.length

/-! ## per-dimension region data (proof-side names for what the code computes) -/

/-- `length` of every dimension as a natural number -/
def lens : List Nat → List Nat → List Nat → List Nat → List Nat
  | so :: sos, co :: cos, ss :: sss, cs :: css =>
      (min (so + ss) (co + cs) - max co so) :: lens sos cos sss css
  | _, _, _, _ => []

theorem overlapsAux_total {co cs so ss : List Nat}
    (h1 : cs.length = co.length) (h2 : so.length = co.length) (h3 : ss.length = co.length) :
    ∃ b, overlapsAux co cs so ss = .ok b := by
  induction co generalizing cs so ss with
  | nil => exact ⟨true, by simp [overlapsAux]⟩
  | cons c co ih =>
    cases cs <;> cases so <;> cases ss <;> simp at h1 h2 h3
    simp only [overlapsAux]
    split
    · exact ⟨false, rfl⟩
    · split
      · exact ⟨false, rfl⟩
      · exact ih h1 h2 h3

/-- `get_views` on the code's region: both views are narrowed to the per-dimension
`(offset, length)` data, and no `narrow` raises. Generalised over the already-processed prefix. -/
theorem getViews_regionAux (so co ss cs pS qS pD qD : List Nat)
    (hqS : qS.length = pS.length) (hpD : pD.length = pS.length) (hqD : qD.length = pS.length)
    (h1 : co.length = so.length) (h2 : ss.length = so.length) (h3 : cs.length = so.length)
    (hov : overlapsAux co cs so ss = .ok true) :
    getViews (regionAux pS.length so co ss cs)
        ⟨pS ++ List.replicate so.length 0, qS ++ ss⟩ ⟨pD ++ List.replicate so.length 0, qD ++ cs⟩
      = .ok (⟨pS ++ vsub co so, qS ++ lens so co ss cs⟩,
             ⟨pD ++ vsub so co, qD ++ lens so co ss cs⟩) := by
  induction so generalizing co ss cs pS qS pD qD with
  | nil =>
    cases co <;> cases ss <;> cases cs <;> simp at h1 h2 h3
    simp [regionAux, getViews, vsub, lens]
  | cons s so ih =>
    cases co with
    | nil => simp at h1
    | cons c co =>
    cases ss with
    | nil => simp at h2
    | cons z ss =>
    cases cs with
    | nil => simp at h3
    | cons y cs =>
    simp only [List.length_cons, Nat.add_right_cancel_iff] at h1 h2 h3
    simp only [overlapsAux] at hov
    split at hov
    · simp at hov
    · split at hov
      · simp at hov
      · rename_i hA hB
        have hhead : (if s > c then (⟨pS.length, 0, s - c, (↑(min (s + z) (c + y)) : Int) - ↑(max c s)⟩ : Narrow)
              else ⟨pS.length, c - s, 0, (↑(min (s + z) (c + y)) : Int) - ↑(max c s)⟩)
            = ⟨pS.length, c - s, s - c, (↑(min (s + z) (c + y)) : Int) - ↑(max c s)⟩ := by
          split
          · congr 1; omega
          · congr 1; omega
        simp only [regionAux, hhead, getViews, View.narrow, List.length_cons, List.replicate_succ]
        have e1 : (pS ++ 0 :: List.replicate so.length 0)[pS.length]? = some 0 := by simp
        have e2 : (qS ++ z :: ss)[pS.length]? = some z := by simp [← hqS]
        have e3 : (pD ++ 0 :: List.replicate so.length 0)[pS.length]? = some 0 := by simp [← hpD]
        have e4 : (qD ++ y :: cs)[pS.length]? = some y := by simp [← hqD]
        have c1 : ¬ ((↑(min (s + z) (c + y)) : Int) - ↑(max c s) < 0 ∨
            ((c - s : Nat) : Int) + ((↑(min (s + z) (c + y)) : Int) - ↑(max c s)) > (z : Int)) := by omega
        have c2 : ¬ ((↑(min (s + z) (c + y)) : Int) - ↑(max c s) < 0 ∨
            ((s - c : Nat) : Int) + ((↑(min (s + z) (c + y)) : Int) - ↑(max c s)) > (y : Int)) := by omega
        have tn : ((↑(min (s + z) (c + y)) : Int) - ↑(max c s)).toNat = min (s + z) (c + y) - max c s := by omega
        simp only [e1, e2, e3, e4, c1, c2, if_false, tn, Nat.zero_add]
        have s1 : (pS ++ 0 :: List.replicate so.length 0).set pS.length (c - s)
            = (pS ++ [c - s]) ++ List.replicate so.length 0 := by simp
        have s2 : (qS ++ z :: ss).set pS.length (min (s + z) (c + y) - max c s)
            = (qS ++ [min (s + z) (c + y) - max c s]) ++ ss := by simp [← hqS]
        have s3 : (pD ++ 0 :: List.replicate so.length 0).set pS.length (s - c)
            = (pD ++ [s - c]) ++ List.replicate so.length 0 := by simp [← hpD]
        have s4 : (qD ++ y :: cs).set pS.length (min (s + z) (c + y) - max c s)
            = (qD ++ [min (s + z) (c + y) - max c s]) ++ cs := by simp [← hqD]
        rw [s1, s2, s3, s4]
        have hl : pS.length + 1 = (pS ++ [c - s]).length := by simp
        rw [hl, ih co ss cs (pS ++ [c - s]) _ _ _ (by simp [hqS]) (by simp [hpD]) (by simp [hqD]) h1 h2 h3 hov]
        simp [vsub, lens]

/-- top-level form: the views computed for an overlapping (saved, current) pair -/
theorem getViews_overlapRegion (s d : Box) (hs : s.WF) (hd : d.WF)
    (hr : d.offsets.length = s.offsets.length) (hov : overlaps d s = .ok true) :
    getViews (overlapRegion s d) (View.full s.sizes) (View.full d.sizes)
      = .ok (⟨vsub d.offsets s.offsets, lens s.offsets d.offsets s.sizes d.sizes⟩,
             ⟨vsub s.offsets d.offsets, lens s.offsets d.offsets s.sizes d.sizes⟩) := by
  have := getViews_regionAux s.offsets d.offsets s.sizes d.sizes [] [] [] [] rfl rfl rfl hr hs
    (by rw [hd, hr]) hov
  simp only [List.length_nil, List.nil_append] at this
  unfold Box.WF at hs hd
  simpa [overlapRegion, View.full, hs, hd, hr] using this

/-! ## what one copy does, per element -/

/-- destination element `j` lies in the destination view  ⇔  its global index lies in the saved box -/
theorem inRange_dstView (so co ss cs j : List Nat)
    (h1 : co.length = so.length) (h2 : ss.length = so.length) (h3 : cs.length = so.length)
    (hov : overlapsAux co cs so ss = .ok true) (hj : inSizes cs j = true) :
    inRange (vsub so co) (lens so co ss cs) j = inRange so ss (vadd co j) := by
  induction so generalizing co ss cs j with
  | nil =>
    cases co <;> cases ss <;> cases cs <;> simp at h1 h2 h3
    cases j with
    | nil => simp [vsub, lens, vadd]
    | cons i j => simp [inSizes] at hj
  | cons s so ih =>
    cases co with
    | nil => simp at h1
    | cons c co =>
    cases ss with
    | nil => simp at h2
    | cons z ss =>
    cases cs with
    | nil => simp at h3
    | cons y cs =>
    cases j with
    | nil => simp [inSizes] at hj
    | cons i j =>
    simp only [List.length_cons, Nat.add_right_cancel_iff] at h1 h2 h3
    simp only [overlapsAux] at hov
    split at hov
    · simp at hov
    · split at hov
      · simp at hov
      · rename_i hA hB
        simp only [inSizes_cons, Bool.and_eq_true, decide_eq_true_eq] at hj
        have := ih co ss cs j h1 h2 h3 hov hj.2
        simp only [vsub, vadd, List.zipWith_cons_cons, lens, inRange_cons] at this ⊢
        rw [this]
        congr 1
        have hj1 := hj.1
        by_cases hh : s ≤ c + i ∧ c + i < s + z
        · have a1 : s - c ≤ i := by omega
          have a2 : i < s - c + (min (s + z) (c + y) - max c s) := by omega
          simp [a1, a2, hh.1, hh.2]
        · by_cases a1 : s - c ≤ i
          · have a2 : ¬ (i < s - c + (min (s + z) (c + y) - max c s)) := by omega
            have : ¬ (c + i < s + z) := by omega
            simp [a2, this]
          · have : ¬ (s ≤ c + i) := by omega
            simp [a1, this]

/-- inside the saved box, the source index read is a valid local index of the saved shard and
denotes the same global coordinate as the destination index written -/
theorem srcIdx_correct (so co ss cs j : List Nat)
    (h1 : co.length = so.length) (h2 : ss.length = so.length) (h3 : cs.length = so.length)
    (hj : inSizes cs j = true) (hin : inRange so ss (vadd co j) = true) :
    inSizes ss (vadd (vsub co so) (vsub j (vsub so co))) = true ∧
    vadd so (vadd (vsub co so) (vsub j (vsub so co))) = vadd co j := by
  induction so generalizing co ss cs j with
  | nil =>
    cases co <;> cases ss <;> cases cs <;> simp at h1 h2 h3
    cases j <;> simp [vsub, vadd]
  | cons s so ih =>
    cases co with
    | nil => simp at h1
    | cons c co =>
    cases ss with
    | nil => simp at h2
    | cons z ss =>
    cases cs with
    | nil => simp at h3
    | cons y cs =>
    cases j with
    | nil => simp [inSizes] at hj
    | cons i j =>
    simp only [List.length_cons, Nat.add_right_cancel_iff] at h1 h2 h3
    simp only [inSizes_cons, Bool.and_eq_true, decide_eq_true_eq] at hj
    simp only [vadd, List.zipWith_cons_cons, inRange_cons, Bool.and_eq_true, decide_eq_true_eq] at hin
    have := ih co ss cs j h1 h2 h3 hj.2 hin.2
    simp only [vsub, vadd, List.zipWith_cons_cons, inSizes_cons, Bool.and_eq_true,
      decide_eq_true_eq] at this ⊢
    refine ⟨⟨by omega, this.1⟩, ?_⟩
    rw [this.2]
    congr 1
    omega

/-- boxes that do not overlap share no element -/
theorem not_inRange_of_not_overlaps (so co ss cs j : List Nat)
    (h1 : co.length = so.length) (h2 : ss.length = so.length) (h3 : cs.length = so.length)
    (hov : overlapsAux co cs so ss = .ok false) (hj : inSizes cs j = true) :
    inRange so ss (vadd co j) = false := by
  induction so generalizing co ss cs j with
  | nil =>
    cases co <;> cases ss <;> cases cs <;> simp at h1 h2 h3
    simp [overlapsAux] at hov
  | cons s so ih =>
    cases co with
    | nil => simp at h1
    | cons c co =>
    cases ss with
    | nil => simp at h2
    | cons z ss =>
    cases cs with
    | nil => simp at h3
    | cons y cs =>
    cases j with
    | nil => simp [inSizes] at hj
    | cons i j =>
    simp only [List.length_cons, Nat.add_right_cancel_iff] at h1 h2 h3
    simp only [inSizes_cons, Bool.and_eq_true, decide_eq_true_eq] at hj
    simp only [vadd, List.zipWith_cons_cons, inRange_cons]
    simp only [overlapsAux] at hov
    split at hov
    · have : ¬ (c + i < s + z) := by omega
      simp [this]
    · split at hov
      · have : ¬ (s ≤ c + i) := by omega
        simp [this]
      · have := ih co ss cs j h1 h2 h3 hov hj.2
        simp only [vadd] at this
        simp [this]

/-! ## one persisted shard into one local shard -/

/-- tensor `t` has the box's shape and stores the global tensor `G` restricted to the box -/
def Holds {α} (G : List Nat → α) (b : Box) (t : Tensor α) : Prop :=
  t.sizes = b.sizes ∧ ∀ i, inSizes b.sizes i = true → t.get i = G (vadd b.offsets i)

theorem overlaps_total (s d : Box) (hs : s.WF) (hd : d.WF)
    (hr : d.offsets.length = s.offsets.length) : ∃ b, overlaps d s = .ok b :=
  overlapsAux_total hd (by rw [hr]) (by rw [hs, hr])

theorem loadOne_spec {α} (G : List Nat → α) (s : Shard α) (d : Box) (t : Tensor α)
    (hs : s.box.WF) (hd : d.WF) (hr : d.offsets.length = s.box.offsets.length)
    (hG : Holds G s.box s.tensor) (ht : t.sizes = d.sizes) :
    ∃ t', loadOne s d t = .ok t' ∧ t'.sizes = t.sizes ∧
      ∀ j, inSizes d.sizes j = true →
        t'.get j = if s.box.contains (vadd d.offsets j) then G (vadd d.offsets j) else t.get j := by
  obtain ⟨b, hb⟩ := overlaps_total s.box d hs hd hr
  have hs' : s.box.sizes.length = s.box.offsets.length := hs
  have hd' : d.sizes.length = d.offsets.length := hd
  cases b with
  | false =>
    refine ⟨t, by simp [loadOne, hb], rfl, ?_⟩
    intro j hj
    have := not_inRange_of_not_overlaps s.box.offsets d.offsets s.box.sizes d.sizes j hr hs'
      (by rw [hd', hr]) hb hj
    simp [Box.contains, this]
  | true =>
    have hv := getViews_overlapRegion s.box d hs hd hr hb
    simp only [loadOne, hb, hG.1, ht, hv, copy, ne_eq, not_true_eq_false, if_false]
    refine ⟨_, rfl, rfl, ?_⟩
    intro j hj
    have e := inRange_dstView s.box.offsets d.offsets s.box.sizes d.sizes j hr hs'
      (by rw [hd', hr]) hb hj
    simp only [View.contains, e, Box.contains]
    by_cases hin : inRange s.box.offsets s.box.sizes (vadd d.offsets j) = true
    · have := srcIdx_correct s.box.offsets d.offsets s.box.sizes d.sizes j hr hs'
        (by rw [hd', hr]) hj hin
      simp only [hin, if_true]
      rw [hG.2 _ this.1, this.2]
    · simp [hin]

/-- ghost observation: shard `s` writes element `j`  ⇔  `s` contains the global index of `j` -/
theorem wrote_iff (s d : Box) (j : List Nat) (hs : s.WF) (hd : d.WF)
    (hr : d.offsets.length = s.offsets.length) (hj : inSizes d.sizes j = true) :
    wrote s d d.sizes j = s.contains (vadd d.offsets j) := by
  obtain ⟨b, hb⟩ := overlaps_total s d hs hd hr
  have hs' : s.sizes.length = s.offsets.length := hs
  have hd' : d.sizes.length = d.offsets.length := hd
  cases b with
  | false =>
    have := not_inRange_of_not_overlaps s.offsets d.offsets s.sizes d.sizes j hr hs'
      (by rw [hd', hr]) hb hj
    simp [wrote, hb, Box.contains, this]
  | true =>
    have hv := getViews_overlapRegion s d hs hd hr hb
    have e := inRange_dstView s.offsets d.offsets s.sizes d.sizes j hr hs'
      (by rw [hd', hr]) hb hj
    simp [wrote, hb, hv, View.contains, e, Box.contains]

/-! ## all persisted shards into one local shard -/

theorem loadInto_spec {α} (G : List Nat → α) (d : Box) (hd : d.WF) (saved : List (Shard α))
    (hs : ∀ s ∈ saved, s.box.WF ∧ d.offsets.length = s.box.offsets.length ∧ Holds G s.box s.tensor)
    (t : Tensor α) (ht : t.sizes = d.sizes) :
    ∃ t', loadInto d saved t = .ok t' ∧ t'.sizes = d.sizes ∧
      ∀ j, inSizes d.sizes j = true →
        t'.get j = if saved.any (fun s => s.box.contains (vadd d.offsets j))
                   then G (vadd d.offsets j) else t.get j := by
  induction saved generalizing t with
  | nil => exact ⟨t, rfl, ht, fun j _ => by simp⟩
  | cons s r ih =>
    obtain ⟨h1, h2, h3⟩ := hs s List.mem_cons_self
    obtain ⟨t1, e1, z1, g1⟩ := loadOne_spec G s d t h1 hd h2 h3 ht
    obtain ⟨t2, e2, z2, g2⟩ := ih (fun s' hs' => hs s' (List.mem_cons_of_mem _ hs')) t1 (z1.trans ht)
    refine ⟨t2, by simp [loadInto, e1, e2], z2, ?_⟩
    intro j hj
    rw [g2 j hj, g1 j hj]
    simp only [List.any_cons]
    by_cases ha : r.any (fun s => s.box.contains (vadd d.offsets j)) = true
    · simp [ha]
    · simp only [Bool.not_eq_true] at ha
      simp [ha]

/-! ## subdivide_shard: chunk arithmetic -/

theorem chunks_cover_le (sz c : Nat) (hc : 0 < c) : sz ≤ (sz + c - 1) / c * c := by
  have h1 := Nat.div_add_mod (sz + c - 1) c
  have h2 := Nat.mod_lt (sz + c - 1) hc
  have h3 : c * ((sz + c - 1) / c) = (sz + c - 1) / c * c := Nat.mul_comm _ _
  omega

theorem chunks_last_lt (sz c : Nat) (hc : 0 < c) (hsz : 0 < sz) :
    ((sz + c - 1) / c - 1) * c < sz := by
  have h1 := Nat.div_add_mod (sz + c - 1) c
  have h2 := Nat.mod_lt (sz + c - 1) hc
  have h3 : c * ((sz + c - 1) / c) = (sz + c - 1) / c * c := Nat.mul_comm _ _
  have h4 : ((sz + c - 1) / c - 1) * c = (sz + c - 1) / c * c - c := by
    rw [Nat.sub_mul, Nat.one_mul]
  omega

/-- every chunk index below `n_chunks` starts inside the shard -/
theorem chunk_start_lt (sz c i : Nat) (hc : 0 < c) (hsz : 0 < sz) (hi : i < (sz + c - 1) / c) :
    i * c < sz := by
  have h1 : i * c ≤ ((sz + c - 1) / c - 1) * c := Nat.mul_le_mul_right c (by omega)
  have h2 := chunks_last_lt sz c hc hsz
  omega

/-- 1-d partition: `x < sz` iff `x` lies in chunk `i` for some `i < n_chunks` -/
theorem chunk_cover (sz c x : Nat) (hc : 0 < c) :
    x < sz ↔ ∃ i, i < (sz + c - 1) / c ∧ i * c ≤ x ∧ x < i * c + (min ((i + 1) * c) sz - i * c) := by
  constructor
  · intro hx
    refine ⟨x / c, ?_, Nat.div_mul_le_self x c, ?_⟩
    · apply Nat.div_lt_of_lt_mul
      have := chunks_cover_le sz c hc
      have h3 : c * ((sz + c - 1) / c) = (sz + c - 1) / c * c := Nat.mul_comm _ _
      omega
    · have h1 := Nat.lt_mul_div_succ x hc
      have h2 : c * (x / c + 1) = (x / c + 1) * c := Nat.mul_comm _ _
      have h3 := Nat.div_mul_le_self x c
      omega
  · rintro ⟨i, _, h1, h2⟩
    omega

/-- chunks with different indices are disjoint -/
theorem chunk_disjoint (sz c i i' x : Nat) (hlt : i < i')
    (h1 : x < i * c + (min ((i + 1) * c) sz - i * c)) (h2 : i' * c ≤ x) : False := by
  have : (i + 1) * c ≤ i' * c := Nat.mul_le_mul_right c (by omega)
  have e : (i + 1) * c = i * c + c := by rw [Nat.add_mul, Nat.one_mul]
  omega

/-! ## `reduce(mul, sizes)` -/

theorem foldl_mul (a : Nat) (l : List Nat) : l.foldl (· * ·) a = a * l.foldl (· * ·) 1 := by
  induction l generalizing a with
  | nil => simp
  | cons x l ih => simp only [List.foldl_cons, Nat.one_mul]; rw [ih (a * x), ih x, Nat.mul_assoc]

theorem prod_cons (x : Nat) (l : List Nat) : prod (x :: l) = x * prod l := by
  simp only [prod, List.foldl_cons, Nat.one_mul]; exact foldl_mul x l

theorem prod_pos {l : List Nat} (h : allPos l) : 0 < prod l := by
  induction l with
  | nil => simp [prod]
  | cons x l ih =>
    rw [prod_cons]
    exact Nat.mul_pos (h x List.mem_cons_self) (ih (fun y hy => h y (List.mem_cons_of_mem _ hy)))

theorem dvd_prod_of_getElem? {l : List Nat} {k x : Nat} (h : l[k]? = some x) : x ∣ prod l := by
  induction l generalizing k with
  | nil => simp at h
  | cons y l ih =>
    rw [prod_cons]
    cases k with
    | zero => simp at h; subst h; exact Nat.dvd_mul_right _ _
    | succ k => simp at h; exact Nat.dvd_trans (ih h) (Nat.dvd_mul_left _ _)

theorem slice_pos {l : List Nat} {k x e : Nat} (h : l[k]? = some x) (hp : allPos l) (he : 0 < e) :
    0 < prod l / x * e := by
  have hx : 0 < x := hp x (List.mem_of_getElem? h)
  have hd := dvd_prod_of_getElem? h
  have := prod_pos hp
  exact Nat.mul_pos (Nat.div_pos (Nat.le_of_dvd this hd) hx) he

/-! ## boxes that differ in one dimension -/

/-- `inRange` ignoring dimension `dim` -/
def inRangeEx : Nat → List Nat → List Nat → List Nat → Bool
  | 0, _ :: os, _ :: ss, _ :: is => inRange os ss is
  | d + 1, o :: os, s :: ss, i :: is => decide (o ≤ i) && decide (i < o + s) && inRangeEx d os ss is
  | _, _, _, _ => false

theorem inRange_split (dim : Nat) (off sizes g : List Nat) (o s : Nat)
    (ho : off[dim]? = some o) (hs : sizes[dim]? = some s) :
    inRange off sizes g
      = (inRangeEx dim off sizes g && (decide (o ≤ g.getD dim 0) && decide (g.getD dim 0 < o + s))) := by
  induction dim generalizing off sizes g with
  | zero =>
    cases off <;> cases sizes <;> simp at ho hs
    subst ho; subst hs
    cases g with
    | nil => simp [inRange, inRangeEx]
    | cons i g => simp [inRangeEx, Bool.and_comm, Bool.and_assoc]
  | succ d ih =>
    cases off <;> cases sizes <;> simp at ho hs
    cases g with
    | nil => simp [inRange, inRangeEx]
    | cons i g =>
      simp only [inRange_cons, inRangeEx, List.getD_cons_succ]
      rw [ih _ _ _ ho hs]
      simp only [Bool.and_assoc]

theorem inRangeEx_set (dim : Nat) (off sizes g : List Nat) (a b : Nat) :
    inRangeEx dim (off.set dim a) (sizes.set dim b) g = inRangeEx dim off sizes g := by
  induction dim generalizing off sizes g with
  | zero => cases off <;> cases sizes <;> cases g <;> simp [inRangeEx]
  | succ d ih => cases off <;> cases sizes <;> cases g <;> simp [inRangeEx, ih]

/-- membership in a box whose dimension `dim` was replaced by `[a, a + b)` -/
theorem inRange_set (dim : Nat) (off sizes g : List Nat) (a b : Nat)
    (h1 : dim < off.length) (h2 : dim < sizes.length) :
    inRange (off.set dim a) (sizes.set dim b) g
      = (inRangeEx dim off sizes g && (decide (a ≤ g.getD dim 0) && decide (g.getD dim 0 < a + b))) := by
  rw [inRange_split dim _ _ g a b (by simp [h1]) (by simp [h2]), inRangeEx_set]

/-! ## subdivide_shard: explicit form and partition -/

/-- `chunk_length` -/
def chunkLen (elemSize : Nat) (b : Box) (sz : Nat) (maxBytes : Int) : Nat :=
  max (maxBytes.toNat / (prod b.sizes / sz * elemSize)) 1

/-- the `i`-th element produced by the loop -/
def mkSub (b : Box) (dim off sz c i : Nat) : Sub :=
  { start := i * c, len := min ((i + 1) * c) sz - i * c,
    box := ⟨b.offsets.set dim (off + i * c), b.sizes.set dim (min ((i + 1) * c) sz - i * c)⟩ }

theorem chunkLen_pos (e : Nat) (b : Box) (sz : Nat) (m : Int) : 0 < chunkLen e b sz m := by
  unfold chunkLen; omega

theorem subdivide_eq (elemSize : Nat) (b : Box) (dim : Nat) (maxBytes : Int) (sz off : Nat)
    (hm : 0 < maxBytes) (hsz : b.sizes[dim]? = some sz) (hoff : b.offsets[dim]? = some off)
    (hpos : allPos b.sizes) (he : 0 < elemSize) :
    subdivide elemSize b dim maxBytes
      = .ok ((List.range ((sz + chunkLen elemSize b sz maxBytes - 1) / chunkLen elemSize b sz maxBytes)).map
              (mkSub b dim off sz (chunkLen elemSize b sz maxBytes))) := by
  have h1 : ¬ maxBytes ≤ 0 := by omega
  have h2 : b.sizes ≠ [] := by intro h; rw [h] at hsz; simp at hsz
  have h3 : sz ≠ 0 := Nat.pos_iff_ne_zero.mp (hpos sz (List.mem_of_getElem? hsz))
  have h4 : prod b.sizes / sz * elemSize ≠ 0 := Nat.pos_iff_ne_zero.mp (slice_pos hsz hpos he)
  simp only [subdivide, h1, h2, hsz, h3, h4, hoff, if_false]
  rfl

theorem mem_set_pos {l : List Nat} {k v : Nat} (hl : allPos l) (hv : 0 < v) : allPos (l.set k v) := by
  intro x hx
  rcases List.mem_or_eq_of_mem_set hx with h | h
  · exact hl x h
  · exact h ▸ hv

/-- the boxes returned by `subdivide_shard`: well-formed, non-empty, exactly covering the shard,
pairwise disjoint; `start + len` stays inside the shard (so `torch.narrow` is valid) -/
theorem subdivide_spec (elemSize : Nat) (b : Box) (dim : Nat) (maxBytes : Int)
    (hwf : b.WF) (hdim : dim < b.offsets.length) (hpos : allPos b.sizes)
    (he : 0 < elemSize) (hm : 0 < maxBytes) :
    ∃ subs sz off, subdivide elemSize b dim maxBytes = .ok subs ∧
      b.sizes[dim]? = some sz ∧ b.offsets[dim]? = some off ∧ subs ≠ [] ∧
      (∀ sub ∈ subs, sub.box = ⟨b.offsets.set dim (off + sub.start), b.sizes.set dim sub.len⟩ ∧
          0 < sub.len ∧ sub.start + sub.len ≤ sz ∧ sub.box.WF ∧ allPos sub.box.sizes) ∧
      (∀ g, b.contains g = true ↔ ∃ sub ∈ subs, sub.box.contains g = true) ∧
      subs.Pairwise (fun a c => ∀ g, ¬ (a.box.contains g = true ∧ c.box.contains g = true)) := by
  have hwf' : b.sizes.length = b.offsets.length := hwf
  have hdim' : dim < b.sizes.length := by omega
  have hsz : b.sizes[dim]? = some b.sizes[dim] := List.getElem?_eq_getElem hdim'
  have hoff : b.offsets[dim]? = some b.offsets[dim] := List.getElem?_eq_getElem hdim
  generalize b.sizes[dim] = sz at hsz
  generalize b.offsets[dim] = off at hoff
  have hszpos : 0 < sz := hpos sz (List.mem_of_getElem? hsz)
  have hc := chunkLen_pos elemSize b sz maxBytes
  refine ⟨_, sz, off, subdivide_eq elemSize b dim maxBytes sz off hm hsz hoff hpos he, hsz, hoff, ?_, ?_, ?_, ?_⟩
  · generalize chunkLen elemSize b sz maxBytes = c at hc
    have : 0 < (sz + c - 1) / c := by
      apply Nat.div_pos <;> omega
    intro h
    have := congrArg List.length h
    simp at this
    omega
  · generalize chunkLen elemSize b sz maxBytes = c at hc
    intro sub hsub
    simp only [List.mem_map, List.mem_range] at hsub
    obtain ⟨i, hi, rfl⟩ := hsub
    have h1 := chunk_start_lt sz c i hc hszpos hi
    have e : (i + 1) * c = i * c + c := by rw [Nat.add_mul, Nat.one_mul]
    have hlen : 0 < min ((i + 1) * c) sz - i * c := by omega
    refine ⟨rfl, hlen, by simp only [mkSub]; omega, by simp [mkSub, Box.WF, hwf'], ?_⟩
    exact mem_set_pos hpos hlen
  · generalize chunkLen elemSize b sz maxBytes = c at hc
    intro g
    simp only [Box.contains, List.mem_map, List.mem_range]
    rw [inRange_split dim _ _ g off sz hoff hsz]
    constructor
    · intro h
      simp only [Bool.and_eq_true, decide_eq_true_eq] at h
      obtain ⟨hE, hlo, hhi⟩ := h
      have hx : g.getD dim 0 - off < sz := by omega
      obtain ⟨i, hi, a1, a2⟩ := (chunk_cover sz c _ hc).mp hx
      refine ⟨_, ⟨i, hi, rfl⟩, ?_⟩
      simp only [mkSub]
      rw [inRange_set dim _ _ g _ _ hdim hdim']
      simp only [Bool.and_eq_true, decide_eq_true_eq]
      exact ⟨hE, by omega, by omega⟩
    · rintro ⟨_, ⟨i, hi, rfl⟩, h⟩
      simp only [mkSub] at h
      rw [inRange_set dim _ _ g _ _ hdim hdim'] at h
      simp only [Bool.and_eq_true, decide_eq_true_eq] at h ⊢
      obtain ⟨hE, hlo, hhi⟩ := h
      have h1 := chunk_start_lt sz c i hc hszpos hi
      exact ⟨hE, by omega, by omega⟩
  · generalize chunkLen elemSize b sz maxBytes = c at hc
    rw [List.pairwise_map]
    refine List.Pairwise.imp ?_ List.pairwise_lt_range
    intro i i' hlt g
    simp only [mkSub, Box.contains]
    rw [inRange_set dim _ _ g _ _ hdim hdim', inRange_set dim _ _ g _ _ hdim hdim']
    simp only [Bool.and_eq_true, decide_eq_true_eq]
    rintro ⟨⟨_, _, a⟩, ⟨_, b', _⟩⟩
    exact chunk_disjoint sz c i i' (g.getD dim 0 - off) hlt (by omega) (by omega)

/-! ## prepare_write: every persisted shard stores `G` on its box -/

theorem vadd_zeros (xs : List Nat) (n : Nat) (h : xs.length = n) :
    vadd (List.replicate n 0) xs = xs := by
  induction xs generalizing n with
  | nil => simp [vadd]
  | cons x xs ih =>
    cases n with
    | zero => simp at h
    | succ n =>
      simp only [List.length_cons, Nat.add_right_cancel_iff] at h
      simp only [vadd, List.replicate_succ, List.zipWith_cons_cons, Nat.zero_add]
      have := ih n h
      simp only [vadd] at this
      rw [this]

theorem narrow_index (dim : Nat) (off sizes i : List Nat) (o sz start len : Nat)
    (hl : sizes.length = off.length) (ho : off[dim]? = some o) (hs : sizes[dim]? = some sz)
    (hle : start + len ≤ sz) (hi : inSizes (sizes.set dim len) i = true) :
    inSizes sizes (vadd ((List.replicate sizes.length 0).set dim start) i) = true ∧
    vadd off (vadd ((List.replicate sizes.length 0).set dim start) i)
      = vadd (off.set dim (o + start)) i := by
  induction dim generalizing off sizes i with
  | zero =>
    cases off <;> cases sizes <;> simp at ho hs hl
    subst ho; subst hs
    cases i with
    | nil => simp [inSizes] at hi
    | cons x xs =>
      simp only [List.set_cons_zero, inSizes_cons, Bool.and_eq_true, decide_eq_true_eq] at hi
      have hx := inSizes_length hi.2
      simp only [List.length_cons, List.replicate_succ, List.set_cons_zero, vadd,
        List.zipWith_cons_cons, inSizes_cons, Bool.and_eq_true, decide_eq_true_eq]
      have hz := vadd_zeros xs _ hx
      simp only [vadd] at hz
      rw [hz]
      exact ⟨⟨by omega, hi.2⟩, by congr 1; omega⟩
  | succ d ih =>
    cases off <;> cases sizes <;> simp at ho hs hl
    cases i with
    | nil => simp [inSizes] at hi
    | cons x xs =>
      simp only [List.set_cons_succ, inSizes_cons, Bool.and_eq_true, decide_eq_true_eq] at hi
      have := ih _ _ xs hl ho hs hi.2
      simp only [List.length_cons, List.replicate_succ, List.set_cons_succ, vadd,
        List.zipWith_cons_cons, inSizes_cons, Bool.and_eq_true, decide_eq_true_eq, Nat.zero_add] at this ⊢
      exact ⟨⟨hi.1, this.1⟩, by rw [this.2]⟩

theorem narrow_full (sizes : List Nat) (dim start len sz : Nat) (hs : sizes[dim]? = some sz)
    (hle : start + len ≤ sz) :
    (View.full sizes).narrow dim start (len : Int)
      = .ok ⟨(List.replicate sizes.length 0).set dim start, sizes.set dim len⟩ := by
  have hd : dim < sizes.length := by
    rcases Nat.lt_or_ge dim sizes.length with h | h
    · exact h
    · rw [List.getElem?_eq_none h] at hs; simp at hs
  have h0 : (List.replicate sizes.length 0)[dim]? = some 0 := by simp [hd]
  have c : ¬ ((len : Int) < 0 ∨ (start : Int) + (len : Int) > (sz : Int)) := by omega
  simp only [View.narrow, View.full, h0, hs, c, if_false, Nat.zero_add, Int.toNat_natCast]

theorem ofView_holds {α} (G : List Nat → α) (b : Box) (t : Tensor α) (dim o sz start len : Nat)
    (hwf : b.WF) (hG : Holds G b t) (ho : b.offsets[dim]? = some o) (hs : b.sizes[dim]? = some sz)
    (hle : start + len ≤ sz) :
    Holds G ⟨b.offsets.set dim (o + start), b.sizes.set dim len⟩
      (t.ofView ⟨(List.replicate b.sizes.length 0).set dim start, b.sizes.set dim len⟩) := by
  refine ⟨rfl, ?_⟩
  intro i hi
  have := narrow_index dim b.offsets b.sizes i o sz start len hwf ho hs hle hi
  simp only [Tensor.ofView]
  rw [hG.2 _ this.1, this.2]

/-- a shard: well-formed, non-empty box whose tensor stores `G` there -/
def Good {α} (G : List Nat → α) (s : Shard α) : Prop :=
  s.box.WF ∧ allPos s.box.sizes ∧ Holds G s.box s.tensor

theorem writeSubs_spec {α} (G : List Nat → α) (l : Shard α) (dim o sz : Nat) (hl : Good G l)
    (ho : l.box.offsets[dim]? = some o) (hs : l.box.sizes[dim]? = some sz) (subs : List Sub)
    (hsubs : ∀ sub ∈ subs, sub.box = ⟨l.box.offsets.set dim (o + sub.start), l.box.sizes.set dim sub.len⟩ ∧
          0 < sub.len ∧ sub.start + sub.len ≤ sz ∧ sub.box.WF ∧ allPos sub.box.sizes) :
    ∃ out, writeSubs l.tensor dim subs = .ok out ∧ out.map (·.box) = subs.map (·.box) ∧
      ∀ s ∈ out, Good G s := by
  induction subs with
  | nil => exact ⟨[], rfl, rfl, by simp⟩
  | cons sub r ih =>
    obtain ⟨out, e, hb, hg⟩ := ih (fun s hs' => hsubs s (List.mem_cons_of_mem _ hs'))
    obtain ⟨h1, _, h3, h4, h5⟩ := hsubs sub List.mem_cons_self
    have hn := narrow_full l.tensor.sizes dim sub.start sub.len sz (by rw [hl.2.2.1]; exact hs) h3
    refine ⟨⟨sub.box, l.tensor.ofView ⟨(List.replicate l.tensor.sizes.length 0).set dim sub.start,
      l.tensor.sizes.set dim sub.len⟩⟩ :: out, by simp only [writeSubs, hn, e], by simp [hb], ?_⟩
    intro s hs'
    rcases List.mem_cons.mp hs' with rfl | h
    · refine ⟨h4, h5, ?_⟩
      have := ofView_holds G l.box l.tensor dim o sz sub.start sub.len hl.1 hl.2.2 ho hs h3
      simp only [hl.2.2.1]
      rw [h1]
      exact this
    · exact hg s h

/-- the saved shards of one local shard -/
theorem writeShard_spec {α} (G : List Nat → α) (elemSize dim : Nat) (maxBytes : Int) (l : Shard α)
    (hl : Good G l) (hdim : dim < l.box.offsets.length) (he : 0 < elemSize) (hm : 0 < maxBytes) :
    ∃ out, writeShard elemSize dim maxBytes l = .ok out ∧ (∀ s ∈ out, Good G s) ∧
      (∀ g, l.box.contains g = true ↔ ∃ s ∈ out, s.box.contains g = true) ∧
      out.Pairwise (fun a c => ∀ g, ¬ (a.box.contains g = true ∧ c.box.contains g = true)) ∧
      (∀ s ∈ out, s.box.offsets.length = l.box.offsets.length) := by
  obtain ⟨subs, sz, off, e, hs, ho, _, h1, h2, h3⟩ :=
    subdivide_spec elemSize l.box dim maxBytes hl.1 hdim hl.2.1 he hm
  obtain ⟨out, e2, hb, hg⟩ := writeSubs_spec G l dim off sz hl ho hs subs h1
  refine ⟨out, by simp only [writeShard, e, e2], hg, ?_, ?_, ?_⟩
  · intro g
    rw [h2 g]
    constructor
    · rintro ⟨sub, hm', hc⟩
      have : sub.box ∈ out.map (·.box) := by rw [hb]; exact List.mem_map_of_mem hm'
      obtain ⟨s, hs', e'⟩ := List.mem_map.mp this
      exact ⟨s, hs', by rw [e']; exact hc⟩
    · rintro ⟨s, hs', hc⟩
      have : s.box ∈ subs.map (·.box) := by rw [← hb]; exact List.mem_map_of_mem hs'
      obtain ⟨sub, hm', e'⟩ := List.mem_map.mp this
      exact ⟨sub, hm', by rw [e']; exact hc⟩
  · have h3' : (subs.map (·.box)).Pairwise (fun a c => ∀ g, ¬ (a.contains g = true ∧ c.contains g = true)) :=
      List.pairwise_map.mpr h3
    rw [← hb] at h3'
    exact List.pairwise_map.mp h3'
  · intro s hs'
    have : s.box ∈ subs.map (·.box) := by rw [← hb]; exact List.mem_map_of_mem hs'
    obtain ⟨sub, hm', e'⟩ := List.mem_map.mp this
    rw [← e', (h1 sub hm').1]
    simp

/-- two boxes share no index -/
def Box.Disjoint (a c : Box) : Prop := ∀ g, ¬ (a.contains g = true ∧ c.contains g = true)

theorem Box.Disjoint.symm {a c : Box} (h : a.Disjoint c) : c.Disjoint a :=
  fun g hg => h g ⟨hg.2, hg.1⟩

/-- the persisted shards of a whole sharded tensor (any number of local shards) -/
theorem prepareWrite_spec {α} (G : List Nat → α) (elemSize dim : Nat) (maxBytes : Int)
    (locals : List (Shard α)) (hl : ∀ l ∈ locals, Good G l ∧ dim < l.box.offsets.length)
    (he : 0 < elemSize) (hm : 0 < maxBytes)
    (hdisj : locals.Pairwise (fun a c => a.box.Disjoint c.box)) :
    ∃ saved, prepareWrite elemSize dim maxBytes locals = .ok saved ∧ (∀ s ∈ saved, Good G s) ∧
      (∀ g, (∃ l ∈ locals, l.box.contains g = true) ↔ ∃ s ∈ saved, s.box.contains g = true) ∧
      saved.Pairwise (fun a c => a.box.Disjoint c.box) ∧
      (∀ s ∈ saved, ∃ l ∈ locals, s.box.offsets.length = l.box.offsets.length) := by
  induction locals with
  | nil => exact ⟨[], rfl, by simp, by simp, List.Pairwise.nil, by simp⟩
  | cons l r ih =>
    obtain ⟨hgl, hdl⟩ := hl l List.mem_cons_self
    obtain ⟨a, ea, ga, ca, pa, ra⟩ := writeShard_spec G elemSize dim maxBytes l hgl hdl he hm
    rw [List.pairwise_cons] at hdisj
    obtain ⟨b, eb, gb, cb, pb, rb⟩ := ih (fun x hx => hl x (List.mem_cons_of_mem _ hx)) hdisj.2
    refine ⟨a ++ b, by simp only [prepareWrite, ea, eb], ?_, ?_, ?_, ?_⟩
    · intro s hs
      rcases List.mem_append.mp hs with h | h
      · exact ga s h
      · exact gb s h
    · intro g
      constructor
      · rintro ⟨x, hx, hc⟩
        rcases List.mem_cons.mp hx with rfl | hx
        · obtain ⟨s, hs, hc'⟩ := (ca g).mp hc
          exact ⟨s, List.mem_append_left _ hs, hc'⟩
        · obtain ⟨s, hs, hc'⟩ := (cb g).mp ⟨x, hx, hc⟩
          exact ⟨s, List.mem_append_right _ hs, hc'⟩
      · rintro ⟨s, hs, hc⟩
        rcases List.mem_append.mp hs with h | h
        · exact ⟨l, List.mem_cons_self, (ca g).mpr ⟨s, h, hc⟩⟩
        · obtain ⟨x, hx, hc'⟩ := (cb g).mpr ⟨s, h, hc⟩
          exact ⟨x, List.mem_cons_of_mem _ hx, hc'⟩
    · rw [List.pairwise_append]
      refine ⟨pa, pb, ?_⟩
      intro x hx y hy g hg
      have h1 := (ca g).mpr ⟨x, hx, hg.1⟩
      obtain ⟨l', hl', hc'⟩ := (cb g).mpr ⟨y, hy, hg.2⟩
      exact hdisj.1 l' hl' g ⟨h1, hc'⟩
    · intro s hs
      rcases List.mem_append.mp hs with h | h
      · exact ⟨l, List.mem_cons_self, ra s h⟩
      · obtain ⟨x, hx, e⟩ := rb s h
        exact ⟨x, List.mem_cons_of_mem _ hx, e⟩

/-! ## unique writer -/

/-- among pairwise disjoint boxes at most one contains a given index -/
theorem filter_contains_le_one {α} (saved : List (Shard α)) (g : List Nat)
    (hdisj : saved.Pairwise (fun a c => a.box.Disjoint c.box)) :
    (saved.filter (fun s => s.box.contains g)).length ≤ 1 := by
  induction saved with
  | nil => simp
  | cons s r ih =>
    rw [List.pairwise_cons] at hdisj
    by_cases h : s.box.contains g = true
    · have : r.filter (fun s => s.box.contains g) = [] := by
        rw [List.filter_eq_nil_iff]
        intro x hx hc
        exact hdisj.1 x hx g ⟨h, hc⟩
      simp [h, this]
    · simp only [List.filter_cons, h]
      exact ih hdisj.2

theorem filter_wrote_eq {α} (saved : List (Shard α)) (d : Box) (j : List Nat) (hd : d.WF)
    (hs : ∀ s ∈ saved, s.box.WF ∧ d.offsets.length = s.box.offsets.length)
    (hj : inSizes d.sizes j = true) :
    saved.filter (fun s => wrote s.box d d.sizes j)
      = saved.filter (fun s => s.box.contains (vadd d.offsets j)) := by
  apply List.filter_congr
  intro s hs'
  exact wrote_iff s.box d j (hs s hs').1 hd (hs s hs').2 hj

theorem disjoint_of_overlapsAux_false (ao as co cs g : List Nat)
    (h : overlapsAux ao as co cs = .ok false) :
    ¬ (inRange ao as g = true ∧ inRange co cs g = true) := by
  induction ao generalizing as co cs g with
  | nil => simp [overlapsAux] at h
  | cons a ao ih =>
    cases as with
    | nil => simp [overlapsAux] at h
    | cons z as =>
    cases co with
    | nil => simp [overlapsAux] at h
    | cons c co =>
    cases cs with
    | nil => simp [overlapsAux] at h
    | cons y cs =>
    cases g with
    | nil => simp [inRange]
    | cons x g =>
      simp only [overlapsAux] at h
      simp only [inRange_cons, Bool.and_eq_true, decide_eq_true_eq]
      split at h
      · omega
      · split at h
        · omega
        · have := ih as co cs g h
          intro hh
          exact this ⟨hh.1.2, hh.2.2⟩

/-- torch's predicate answering `False` really means the boxes share no index -/
theorem disjoint_of_overlaps_false (a c : Box) (h : overlaps a c = .ok false) : a.Disjoint c :=
  fun g => disjoint_of_overlapsAux_false _ _ _ _ g h

/-! ## the region, dimension by dimension -/

theorem regionAux_getElem? (so co ss cs : List Nat) (k0 k : Nat) (n : Narrow)
    (h1 : co.length = so.length) (h2 : ss.length = so.length) (h3 : cs.length = so.length)
    (hov : overlapsAux co cs so ss = .ok true)
    (hn : (regionAux k0 so co ss cs)[k]? = some n) :
    ∃ o z c y, so[k]? = some o ∧ ss[k]? = some z ∧ co[k]? = some c ∧ cs[k]? = some y ∧
      c < o + z ∧ o < c + y ∧
      n = ⟨k0 + k, c - o, o - c, ((min (o + z) (c + y) : Nat) : Int) - ((max c o : Nat) : Int)⟩ := by
  induction so generalizing co ss cs k0 k with
  | nil => simp [regionAux] at hn
  | cons s so ih =>
    cases co with
    | nil => simp at h1
    | cons c co =>
    cases ss with
    | nil => simp at h2
    | cons z ss =>
    cases cs with
    | nil => simp at h3
    | cons y cs =>
    simp only [List.length_cons, Nat.add_right_cancel_iff] at h1 h2 h3
    simp only [overlapsAux] at hov
    split at hov
    · simp at hov
    · split at hov
      · simp at hov
      · cases k with
        | zero =>
          simp only [regionAux, List.getElem?_cons_zero, Option.some.injEq] at hn
          refine ⟨s, z, c, y, by simp, by simp, by simp, by simp, by omega, by omega, ?_⟩
          rw [← hn]
          split
          · congr 1; omega
          · congr 1; omega
        | succ k =>
          simp only [regionAux, List.getElem?_cons_succ] at hn
          obtain ⟨o', z', c', y', e1, e2, e3, e4, a1, a2, e5⟩ := ih co ss cs (k0 + 1) k h1 h2 h3 hov hn
          refine ⟨o', z', c', y', by simpa using e1, by simpa using e2, by simpa using e3,
            by simpa using e4, a1, a2, ?_⟩
          rw [e5]; congr 1; omega

theorem regionAux_length (so co ss cs : List Nat) (k0 : Nat)
    (h1 : co.length = so.length) (h2 : ss.length = so.length) (h3 : cs.length = so.length) :
    (regionAux k0 so co ss cs).length = so.length := by
  induction so generalizing co ss cs k0 with
  | nil => simp [regionAux]
  | cons s so ih =>
    cases co <;> cases ss <;> cases cs <;> simp at h1 h2 h3
    simp [regionAux, ih _ _ _ _ h1 h2 h3]

theorem eq_singleton_of_mem_of_length_le_one {α} {l : List α} {x : α} (hx : x ∈ l)
    (hl : l.length ≤ 1) : l = [x] := by
  match l, hx, hl with
  | [y], hx, _ => simp at hx; rw [hx]
  | _ :: _ :: _, _, hl => simp at hl

theorem vadd_zeros_left (j : List Nat) (n : Nat) (h : j.length = n) :
    vadd (List.replicate n 0) j = j := vadd_zeros j n h

/-! ## get_tensor_shape -/

theorem geAll_antisymm (a b : List Nat) (h1 : geAll a b = true) (h2 : geAll b a = true)
    (hl : a.length = b.length) : a = b := by
  induction a generalizing b with
  | nil => cases b <;> simp_all
  | cons x a ih =>
    cases b with
    | nil => simp at hl
    | cons y b =>
      simp only [geAll, Bool.and_eq_true, decide_eq_true_eq] at h1 h2
      simp only [List.length_cons, Nat.add_right_cancel_iff] at hl
      rw [ih b h1.2 h2.2 hl]
      congr 1
      omega

theorem tensorShape_fold (shape : List Nat) (l : List Box) (cur : List Nat)
    (hl : ∀ b ∈ l, (farCorner b).length = shape.length ∧ geAll shape (farCorner b) = true)
    (hc1 : cur.length = shape.length) (hc2 : geAll shape cur = true)
    (hhit : cur = shape ∨ ∃ b ∈ l, farCorner b = shape) :
    l.foldl (fun shape b => if geAll (farCorner b) shape then farCorner b else shape) cur = shape := by
  induction l generalizing cur with
  | nil =>
    rcases hhit with h | ⟨b, hb, _⟩
    · simpa using h
    · simp at hb
  | cons b l ih =>
    simp only [List.foldl_cons]
    obtain ⟨hb1, hb2⟩ := hl b List.mem_cons_self
    have hl' : ∀ b ∈ l, (farCorner b).length = shape.length ∧ geAll shape (farCorner b) = true :=
      fun x hx => hl x (List.mem_cons_of_mem _ hx)
    by_cases hge : geAll (farCorner b) cur = true
    · simp only [hge, if_true]
      apply ih _ hl' hb1 hb2
      rcases hhit with h | ⟨b', hb', e⟩
      · left
        subst h
        exact geAll_antisymm _ _ hge hb2 hb1
      · rcases List.mem_cons.mp hb' with rfl | h
        · left; exact e
        · right; exact ⟨b', h, e⟩
    · simp only [hge]
      apply ih _ hl' hc1 hc2
      rcases hhit with h | ⟨b', hb', e⟩
      · left; exact h
      · rcases List.mem_cons.mp hb' with rfl | h
        · rw [e] at hge
          exact absurd hc2 hge
        · right; exact ⟨b', h, e⟩
