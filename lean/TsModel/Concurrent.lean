/-
  TsModel.Concurrent — two pending async snapshots of one job at the same time.

  `async_take` returns while its background threads are still running, so a job may have several pending snapshots
  whose `_complete_snapshot` threads interleave arbitrarily; they share the job-wide key-value store and nothing else
  (each has its own barrier prefix `torchsnapshot_{path}_{uuid}`, its own write pipelines and metadata object).
-/
import TsModel.Commit

namespace Ts.Commit
open Ts.Barrier

/-- joint state of two attempts; the store is shared (kept identical in both components) -/
structure CState where
  a : AState
  b : AState

def CState.init (st : Store) : CState := ⟨AState.init st, AState.init st⟩

/-- one step of the interleaving: `(true, l)` = attempt A performs `l`, `(false, l)` = attempt B does; the store change
is seen by both -/
def cstep (ca cb : Cfg) (s : CState) (x : Bool × Lbl) : CState :=
  if x.1 then
    match astep? ca s.a x.2 with
    | some a' => ⟨a', { s.b with store := a'.store }⟩
    | none => s
  else
    match astep? cb s.b x.2 with
    | some b' => ⟨{ s.a with store := b'.store }, b'⟩
    | none => s

def crun (ca cb : Cfg) (s : CState) (sched : List (Bool × Lbl)) : CState := sched.foldl (cstep ca cb) s

/-- the labels one attempt performs in an interleaving -/
def proj (which : Bool) (sched : List (Bool × Lbl)) : List Lbl :=
  (sched.filter (fun x => x.1 == which)).map (·.2)

end Ts.Commit
