/-
  TsModel.Stage — what a staged write buffer refers to (aliasing), for C09.

  Mirrors:
    * `TensorBufferStager.stage_buffer` / `_should_copy_cpu_tensor`  (io_preparers/tensor.py)
    * `tensor_as_memoryview` : a contiguous CPU tensor is exported as a *view* of its own storage; a
      non-contiguous one is copied first (serialization.py)
    * `torch_save_as_bytes`, `ObjectBufferStager.stage_buffer` : serialise into a fresh `bytes`
    * `BatchedBufferStager.stage_buffer` : copies the members' buffers into a fresh slab `bytearray`

  Application memory is a function from an address (one per tensor/object) to its current bytes; a
  mutation of the application state is any other such function.
-/
namespace Ts.Stage

abbrev Bytes := List Nat
abbrev Addr := Nat
abbrev Mem := Addr → Bytes

inductive Serializer where
  | bufferProtocol
  | torchSave
  deriving DecidableEq, Repr

/-- A leaf that needs a write request. `codec` stands for `torch.save` (an arbitrary function). -/
structure Leaf where
  addr : Addr
  serializer : Serializer
  contiguous : Bool
  deriving Repr

/-- What the staged buffer is: a view into application memory, or bytes of its own. -/
inductive Buf where
  | alias (a : Addr)
  | fresh (b : Bytes)
  deriving Repr

/-- `_should_copy_cpu_tensor` (after fix D2: the comparison is made with `Serializer.….value`). -/
def shouldCopy (isAsync : Bool) (l : Leaf) : Bool :=
  l.serializer = .bufferProtocol && (isAsync || !l.contiguous)

/-- The pre-fix predicate: `entry.serializer == Serializer.BUFFER_PROTOCOL` compared a `str` with an
`Enum` member and was always `False`. -/
def shouldCopyPreFix (_isAsync : Bool) (_l : Leaf) : Bool := false

/-- `TensorBufferStager.stage_buffer` / `ObjectBufferStager.stage_buffer` on CPU. -/
def stageWith (copy : Bool → Leaf → Bool) (codec : Bytes → Bytes) (isAsync : Bool) (l : Leaf) (mem : Mem) : Buf :=
  match l.serializer with
  | .torchSave => .fresh (codec (mem l.addr))
  | .bufferProtocol =>
    if copy isAsync l then .fresh (mem l.addr)          -- cpu_tensor.clone(), then export the clone
    else if l.contiguous then .alias l.addr             -- tensor_as_memoryview: view of the live storage
    else .fresh (mem l.addr)                            -- tensor_as_memoryview copies non-contiguous input

def stage := stageWith shouldCopy

/-- Bytes that reach storage when the buffer is written while application memory is `mem`. -/
def resolve (mem : Mem) : Buf → Bytes
  | .alias a => mem a
  | .fresh b => b

/-- `BatchedBufferStager.stage_buffer`: members are staged, then copied into a fresh slab. -/
def stageSlab (codec : Bytes → Bytes) (isAsync : Bool) (members : List Leaf) (mem : Mem) : Buf :=
  .fresh ((members.map (fun l => resolve mem (stage codec isAsync l mem))).flatten)

/-- what the snapshot is supposed to contain for a leaf: its serialisation at staging time -/
def content (codec : Bytes → Bytes) (l : Leaf) (mem : Mem) : Bytes :=
  match l.serializer with
  | .torchSave => codec (mem l.addr)
  | .bufferProtocol => mem l.addr

end Ts.Stage
