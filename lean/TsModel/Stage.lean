/-
  TsModel.Stage — what a staged write buffer refers to (aliasing), for C09.

  Mirrors:
    * `TensorBufferStager.stage_buffer` / `_should_copy_cpu_tensor`  (io_preparers/tensor.py)
    * `tensor_as_memoryview` : a contiguous CPU tensor is exported as a *view* of its own storage; a
      non-contiguous one is copied first (serialization.py)
    * `torch_save_as_bytes`, `ObjectBufferStager.stage_buffer` : serialise into a fresh `bytes`
    * `BatchedBufferStager.stage_buffer` : copies the members' buffers into a fresh slab `bytearray`

  Application memory is a function from an address (one per tensor/object) to its current bytes; a
  mutation of the application state is any other such function.
-/
namespace Ts.Stage

abbrev Bytes := List Nat
abbrev Addr := Nat
abbrev Mem := Addr → Bytes

inductive Serializer where
  | bufferProtocol
  | torchSave
  deriving DecidableEq, Repr

/-- A leaf that needs a write request. `codec` stands for `torch.save` (an arbitrary function). -/
structure Leaf where
  addr : Addr
  serializer : Serializer
  contiguous : Bool
  deriving Repr

/-- What the staged buffer is: a view into application memory, or bytes of its own. -/
inductive Buf where
  | alias (a : Addr)
  | fresh (b : Bytes)
  deriving Repr

/-- `_should_copy_cpu_tensor` (after fix D2: the comparison is made with `Serializer.….value`). -/
def shouldCopy (isAsync : Bool) (l : Leaf) : Bool :=
  l.serializer = .bufferProtocol && (isAsync || !l.contiguous)

/-- The pre-fix predicate: `entry.serializer == Serializer.BUFFER_PROTOCOL` compared a `str` with an
`Enum` member and was always `False`. -/
def shouldCopyPreFix (_isAsync : Bool) (_l : Leaf) : Bool := false

/-- `TensorBufferStager.stage_buffer` / `ObjectBufferStager.stage_buffer` on CPU. -/
def stageWith (copy : Bool → Leaf → Bool) (codec : Bytes → Bytes) (isAsync : Bool) (l : Leaf) (mem : Mem) : Buf :=
  match l.serializer with
  | .torchSave => .fresh (codec (mem l.addr))
  | .bufferProtocol =>
    if copy isAsync l then .fresh (mem l.addr)          -- cpu_tensor.clone(), then export the clone
    else if l.contiguous then .alias l.addr             -- tensor_as_memoryview: view of the live storage
    else .fresh (mem l.addr)                            -- tensor_as_memoryview copies non-contiguous input

def stage := stageWith shouldCopy

/-- Bytes that reach storage when the buffer is written while application memory is `mem`. -/
def resolve (mem : Mem) : Buf → Bytes
  | .alias a => mem a
  | .fresh b => b

/-- `BatchedBufferStager.stage_buffer`: members are staged, then copied into a fresh slab. -/
def stageSlab (codec : Bytes → Bytes) (isAsync : Bool) (members : List Leaf) (mem : Mem) : Buf :=
  .fresh ((members.map (fun l => resolve mem (stage codec isAsync l mem))).flatten)

/-- what the snapshot is supposed to contain for a leaf: its serialisation at staging time -/
def content (codec : Bytes → Bytes) (l : Leaf) (mem : Mem) : Bytes :=
  match l.serializer with
  | .torchSave => codec (mem l.addr)
  | .bufferProtocol => mem l.addr

end Ts.Stage

/-! ## Histories: several pending snapshots, mutations and background writes interleaved (C09 over time) -/
namespace Ts.Stage

/-- One step of a job's life as far as staging is concerned. -/
inductive Op where
  | mutate (f : Mem → Mem)             -- the application changes its state in place, in any way
  | asyncTake (leaves : List Leaf)      -- `async_take` of these leaves returns (everything is staged at that point)
  | write (snap i : Nat)                -- the background thread of pending snapshot `snap` writes its `i`-th buffer

/-- A pending snapshot: its leaves, the staged buffers, and (ghost) the application memory when `async_take` returned. -/
structure Pending where
  leaves : List Leaf
  bufs : List Buf
  memAtCall : Mem

structure HState where
  mem : Mem
  pend : List Pending
  written : List (Nat × Nat × Bytes)      -- (snapshot, buffer index, bytes that reached storage)

def HState.init (mem : Mem) : HState := ⟨mem, [], []⟩

/-- the step function, with the staging function as a parameter (`stage codec true` in the code) -/
def hstepWith (stg : Leaf → Mem → Buf) (s : HState) : Op → HState
  | .mutate f => { s with mem := f s.mem }
  | .asyncTake ls => { s with pend := s.pend ++ [⟨ls, ls.map (fun l => stg l s.mem), s.mem⟩] }
  | .write k i =>
    match s.pend[k]? with
    | none => s
    | some p =>
      match p.bufs[i]? with
      | none => s
      | some b => { s with written := s.written ++ [(k, i, resolve s.mem b)] }

def hrunWith (stg : Leaf → Mem → Buf) (s : HState) (ops : List Op) : HState := ops.foldl (hstepWith stg) s

def hrun (codec : Bytes → Bytes) := hrunWith (stage codec true)

/-- a (hypothetical) staging function that recycles one staging buffer per tensor address across snapshots: what is
staged is a reference into a pool that the next staging of the same tensor overwrites -/
def stagePooled (l : Leaf) (_mem : Mem) : Buf := .alias l.addr

end Ts.Stage
