/-
  TsModel.Chunk — the integer arithmetic of
    * `torch.chunk` along dim 0 (ATen `chunk` / `split`),
    * `ChunkedTensorIOPreparer.chunk_tensor` / `.prepare_write` / `.prepare_read`
      (io_preparers/chunked_tensor.py:35-141),
    * `TensorIOPreparer.prepare_read_tiled` / `get_tensor_size_from_entry`
      (io_preparers/tensor.py:128-190, after fix D4: `num_chunks = max(ceil(..), 1)`),
    * the chunk-or-not decision of `io_preparer.prepare_write` (io_preparer.py:126-143).

  A tensor is `(shape, element size, row-major bytes)`; layout → contiguous bytes is torch's job
  (trusted, sampled by the byte-level part of the C16 check). `math.ceil(a / b)` on Python ints is
  modelled by exact integer arithmetic (valid for operands < 2^53).
-/
import TsModel.Storage
import TsGen.Tables

namespace Ts.Chunk
open Ts.Storage (Bytes slice)

inductive Err where
  | zeroDivision        -- ZeroDivisionError: a threshold / buffer limit of 0
  | chunksNotPositive   -- RuntimeError: torch.chunk(chunks = 0) ("expects `chunks` to be greater than 0")
  | zeroDim             -- RuntimeError: torch.chunk on a 0-d tensor
  deriving DecidableEq, Repr

/-- `math.ceil(a / b)` for non-negative ints, `b > 0`. -/
def ceilDiv (a b : Nat) : Nat := (a + b - 1) / b

/-- `tensor.numel()` / `reduce(mul, shape, 1)`; `numel [] = 1` (0-d tensor). -/
def numel : List Nat → Nat
  | [] => 1
  | d :: r => d * numel r

/-- Sizes along the chunked dim of `torch.chunk(t, chunks = n, dim)` where `t.shape[dim] = d`
(ATen `chunk`: `split_size = ceil(d / n)`; `d = 0` gives `n` empty chunks; otherwise `split`:
`num_splits = max(ceil(d / split_size), 1)`, the last one holds the remainder). -/
def torchChunk (d n : Nat) : Except Err (List Nat) :=
  if n = 0 then .error .chunksNotPositive
  else if d = 0 then .ok (List.replicate n 0)
  else
    let split := ceilDiv d n
    let num := max (ceilDiv d split) 1
    .ok (List.replicate (num - 1) split ++ [d - split * (num - 1)])

/-- Running offsets: `curr_offsets[dim] += size` (chunked_tensor.py:62); pairs `(offset, size)`. -/
def withOffsets : Nat → List Nat → List (Nat × Nat)
  | _, [] => []
  | off, s :: ss => (off, s) :: withOffsets (off + s) ss

/-- `if tensor.ndim == 0: tensor = tensor.view(-1)` (chunked_tensor.py:45-46): (dim-0 length, other dims). -/
def normShape : List Nat → Nat × List Nat
  | [] => (1, [])
  | d :: r => (d, r)

/-- Dim-0 pieces `(offset, size)` computed by `chunk_tensor` (chunked_tensor.py:43-50):
`n_chunks = ceil(numel * element_size / chunk_sz_bytes)`, then `torch.chunk`.
`maxBytes` is the resolved `chunk_sz_bytes or get_max_chunk_size_bytes()`. -/
def pieces (shape : List Nat) (es maxBytes : Nat) : Except Err (List (Nat × Nat)) :=
  let (d, rest) := normShape shape
  if maxBytes = 0 then .error .zeroDivision
  else
    match torchChunk d (ceilDiv (d * numel rest * es) maxBytes) with
    | .error e => .error e
    | .ok sizes => .ok (withOffsets 0 sizes)

/-- `Chunk(offsets, sizes, dtype)` (the dtype string is carried by the driver). -/
structure Chunk where
  offsets : List Nat
  sizes : List Nat
  deriving DecidableEq, Repr

/-- `Chunk(offsets=curr_offsets[:], sizes=list(tensor_chunks[i].shape))` (chunked_tensor.py:52-61). -/
def toChunk (rest : List Nat) (p : Nat × Nat) : Chunk :=
  ⟨p.1 :: List.replicate rest.length 0, p.2 :: rest⟩

/-- `ChunkedTensorIOPreparer.chunk_tensor(tensor, chunking_dim=0, chunk_sz_bytes)`. -/
def chunkTensor (shape : List Nat) (es maxBytes : Nat) : Except Err (List Chunk) :=
  match pieces shape es maxBytes with
  | .error e => .error e
  | .ok ps => .ok (ps.map (toChunk (normShape shape).2))

/-- Bytes of one row of dim 0. -/
def rowBytes (shape : List Nat) (es : Nat) : Nat := numel (normShape shape).2 * es

/-- Byte size of a chunk's tensor (`numel(sizes) * element_size`). -/
def Chunk.nbytes (c : Chunk) (es : Nat) : Nat := numel c.sizes * es

/-- Position of a dim-0 piece inside the tensor's row-major bytes
(`_get_subtensor_view` = `narrow(0, off, size)`, then the stager's contiguous export). -/
def pieceRange (shape : List Nat) (es : Nat) (p : Nat × Nat) : Nat × Nat :=
  (p.1 * rowBytes shape es, (p.1 + p.2) * rowBytes shape es)

/-- The bytes a chunk's stager exports, as a slice of the whole tensor's row-major bytes. -/
def pieceBytes (shape : List Nat) (es : Nat) (b : Bytes) (p : Nat × Nat) : Bytes :=
  slice b (pieceRange shape es p).1 (pieceRange shape es p).2

/-- `"_".join(str(x) for x in chunk.offsets)` (chunked_tensor.py:90). -/
def chunkSuffix (offsets : List Nat) : String := "_".intercalate (offsets.map toString)

/-- `f"{storage_path}_{suffix}"`. -/
def chunkLocation (path : String) (c : Chunk) : String := path ++ "_" ++ chunkSuffix c.offsets

/-- `TensorIOPreparer.prepare_write`: serializer chosen from the dtype (tensor.py:69-72).
`dtype` is the attribute name after `torch.` (key of the generated tables). -/
def serializerOf (dtype : String) : String :=
  if Ts.Gen.bufferProtocolDtypes.contains dtype then "buffer_protocol" else "torch_save"

/-- `io_preparer.prepare_write` for a plain tensor (io_preparer.py:126-143):
chunk iff `nelement * element_size > get_max_chunk_size_bytes()`. `none` = one `TensorEntry`. -/
def planTensorWrite (shape : List Nat) (es maxBytes : Nat) : Except Err (Option (List Chunk)) :=
  if numel shape * es > maxBytes then (chunkTensor shape es maxBytes).map some else .ok none

/-! ## Tiled reads -/

structure Tile where
  lo : Nat
  hi : Nat
  shape : List Nat      -- `list(chunk.shape)`: shape of the tile's consumer
  deriving DecidableEq, Repr

/-- Byte ranges produced by the loop of `prepare_read_tiled` (tensor.py:151-180): `offset` advances by
`chunk.nelement() * element_size`; `rest` are the trailing dims of each tile (`[]` when flattened). -/
def tilesFrom (rest : List Nat) (es base : Nat) : Nat → List Nat → List Tile
  | _, [] => []
  | off, s :: ss =>
    ⟨base + off, base + off + s * numel rest * es, s :: rest⟩ :: tilesFrom rest es base (off + s * numel rest * es) ss

/-- Start of the entry's stored bytes: `0` when `entry.byte_range is None`, else `byte_range[0]`
(tensor.py:165-175). -/
def baseOf : Option (Nat × Nat) → Nat
  | none => 0
  | some r => r.1

/-- `TensorIOPreparer.prepare_read_tiled(entry, tensor_out, buffer_size_limit_bytes)`.
`shape = entry.shape` (= `tensor_out.shape`, guaranteed by `can_load_inplace`/`empty_tensor_from_entry`),
`flat` = whether `tensor_out.view(-1)` succeeded (always for contiguous / 0-d / empty tensors),
`base` = `entry.byte_range`. -/
def tile (shape : List Nat) (flat : Bool) (es limit : Nat) (base : Option (Nat × Nat)) :
    Except Err (List Tile) :=
  if limit = 0 then .error .zeroDivision
  else
    let n := max (ceilDiv (es * numel shape) limit) 1
    let b := baseOf base
    if flat then
      match torchChunk (numel shape) n with
      | .error e => .error e
      | .ok sizes => .ok (tilesFrom [] es b 0 sizes)
    else
      match shape with
      | [] => .error .zeroDim
      | d :: rest =>
        match torchChunk d n with
        | .error e => .error e
        | .ok sizes => .ok (tilesFrom rest es b 0 sizes)

end Ts.Chunk
