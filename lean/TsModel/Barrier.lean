/-
  TsModel.Barrier — `dist_store.py` `LinearBarrier` over a job-wide key-value store.

  The store (`dist.Store`: TCPStore / the default store of the process group) is modelled as a
  linearizable map  key ↦ value  whose keys are never deleted (nothing in torchsnapshot deletes
  them; that persistence across snapshots is what C13's histories are about).

  A key is `f"{prefix}_{rank}"` (`LinearBarrier._key`, dist_store.py:195-196); the model keeps the
  two components apart: a *prefix id* (one `Nat` per distinct prefix string) and the rank.
  A value is either the empty string (arrival / departure mark) or a non-empty error string
  (`report_error` always writes `f"Rank {rank} encountered error: {err}"`, never empty).
-/
namespace Ts.Barrier

/-- Value stored under a barrier key: `""` or a non-empty error text. -/
inductive Val where
  | empty
  | err
  deriving DecidableEq, Repr

/-- The store: prefix id → rank → value; `none` = key absent (`store.wait` / `store.get` block). -/
abbrev Store := Nat → Nat → Option Val

/-- A fresh store (start of the job). -/
def Store.empty : Store := fun _ _ => none

/-- `store.set(f"{prefix}_{rank}", v)`. -/
def Store.set (st : Store) (p r : Nat) (v : Val) : Store :=
  fun p' r' => if p' = p ∧ r' = r then some v else st p' r'

/-- `[self._key(rank) for rank in range(world_size) if rank != leader_rank]` with `leader_rank = 0`
(dist_store.py:139-143), as the list of peer ranks `1 … n-1`. -/
def peers (n : Nat) : List Nat := List.range' 1 (n - 1)

/-- `store.wait(keys)` returns only once every key is present (no timeout in the model). -/
def Store.hasAll (st : Store) (p : Nat) (ks : List Nat) : Bool :=
  ks.all (fun k => (st p k).isSome)

/-- The leader's `store.wait(peer_keys)` in `arrive` (dist_store.py:144) is enabled. -/
def Store.peersPresent (st : Store) (p n : Nat) : Bool := st.hasAll p (peers n)

end Ts.Barrier
