import TsModel.Rng
/-
  TsModel.Collective — the sequence of process-group collectives one rank performs during
  `Snapshot.take`, `Snapshot.async_take` and `Snapshot.restore`, as a function of
    * its LOCAL state  (`Local`: rank, keys registered, RNGState objects, leaf kinds, replicated leaves)
    * the GLOBAL inputs every rank shares (`Global`: world size, sorted union of keys, knobs).

  Every `PGWrapper` call site reachable from the three entry points is mirrored, in program order:
    snapshot.py  `_coalesce_path_and_replicated` (897 broadcast, 909 all_gather)
                 `async_take` (290 broadcast of the barrier id)
                 `_gather_keys` (949 all_gather)
                 `_take_impl` per-key barrier (583), `restore` per-key barrier (381)
                 `_calculate_replicated_entries` (666 all_gather, 683 broadcast)
                 `_gather_manifest` (977 all_gather)
                 `take` commit barriers (203, 211)
    partitioner.py `_partition_replicated_write_reqs` (173 all_gather, 191 broadcast) — reached
                 unconditionally from `partition_write_reqs`, also with zero replicated entries
    scheduler.py `get_local_world_size` (38 all_gather) — reached from `get_process_memory_budget_bytes`
                 unless TORCHSNAPSHOT_PER_RANK_MEMORY_BUDGET_BYTES is set to an int
    dist_store.py `create_store` (76 broadcast) — reached from `PendingSnapshot.__init__` only when
                 there is no default store and none was cached for the group.
  `PendingSnapshot._complete_snapshot` uses the key-value store, not collectives (C13's subject).
  Local actions (state_dict / load_state_dict / prepare_write / raise) are kept in the event list so
  that "who saves / loads what" is expressible; `takeTrace`/`restoreTrace` project them away.
-/
namespace Ts.Collective
open Ts.Rng (Key sortKeys)

/-- The four `PGWrapper` collectives. -/
inductive Kind where
  | barrier | broadcast | allGather | scatter
  deriving DecidableEq, Repr

/-- A collective call site (what is exchanged). -/
inductive Op where
  | bcastPath               -- snapshot.py:897  broadcast_object_list([path], src=0)
  | gatherReplicatedGlobs   -- snapshot.py:909  all_gather_object(replicated globs)
  | bcastBarrierId          -- snapshot.py:290  broadcast_object_list([unique_id], src=0)   (async only)
  | gatherKeys              -- snapshot.py:949  all_gather_object(list(app_state.keys()))
  | keyBarrier (k : Key)    -- snapshot.py:583 / 381  barrier() after global key `k`
  | gatherReplicatedPaths   -- snapshot.py:666  all_gather_object(replicated_paths)
  | bcastReplicatedPaths    -- snapshot.py:683  broadcast_object_list(verified replicated paths)
  | gatherWriteLoads        -- partitioner.py:173 all_gather_object((entries, write_loads, size))
  | bcastPartition          -- partitioner.py:191 broadcast_object_list([partition_result])
  | gatherManifest          -- snapshot.py:977  all_gather_object(manifest)
  | gatherHostnames         -- scheduler.py:38  all_gather_object(hostname)
  | commitBarrierPre        -- snapshot.py:203  barrier() before rank 0 writes the metadata
  | commitBarrierPost       -- snapshot.py:211  barrier() after it
  | bcastStoreAddr          -- dist_store.py:76 broadcast_object_list([addr, port])
  deriving DecidableEq, Repr

def Op.kind : Op → Kind
  | .bcastPath | .bcastBarrierId | .bcastReplicatedPaths | .bcastPartition | .bcastStoreAddr => .broadcast
  | .gatherReplicatedGlobs | .gatherKeys | .gatherReplicatedPaths | .gatherWriteLoads
  | .gatherManifest | .gatherHostnames => .allGather
  | .keyBarrier _ | .commitBarrierPre | .commitBarrierPost => .barrier

/-- Kinds of flattened leaves (io_preparer.py `prepare_write` dispatch). -/
inductive LeafKind where
  | primitive | tensor | chunkedTensor | object
  deriving DecidableEq, Repr

inductive Err where
  | multipleRng       -- `_pop_rng_state` raises RuntimeError
  | notImplemented    -- `partition_write_reqs` with TORCH_SNAPSHOT_DISABLE_PARTITIONER set
  deriving DecidableEq, Repr

/-- One rank's local state: everything the code could branch on that differs between ranks. -/
structure Local where
  rank : Nat
  keys : List Key                       -- keys of the non-RNG statefuls, dict order
  rngKeys : List Key                    -- keys whose value is an RNGState (a valid app state has ≤ 1)
  leaves : List (Key × List LeafKind)   -- leaf kinds of each stateful's flattened state dict
  replicatedLeaves : Nat                -- how many local leaves match this rank's `replicated` globs
  deriving Repr

/-- A valid application state registers at most one RNGState (`_pop_rng_state` raises otherwise)
and, being a dict, has pairwise distinct keys. -/
def Local.Valid (l : Local) : Prop := l.rngKeys.length ≤ 1

instance (l : Local) : Decidable l.Valid := by unfold Local.Valid; exact inferInstance

/-- Inputs that are the same on every rank. -/
structure Global where
  world : Nat
  keys : List Key              -- `_gather_keys`: sorted(set(union of all ranks' non-RNG keys))
  overrideSet : Bool           -- TORCHSNAPSHOT_PER_RANK_MEMORY_BUDGET_BYTES set to something `int()` accepts
  batchingDisabled : Bool      -- TORCHSNAPSHOT_DISABLE_BATCHING
  partitionerDisabled : Bool   -- TORCH_SNAPSHOT_DISABLE_PARTITIONER set (partition_write_reqs raises)
  storeBootstrap : Bool        -- async only: no default store and none cached for this group
  deriving Repr

/-- Everything a rank does that this model records, in program order. -/
inductive Ev where
  | coll (o : Op)
  | stateDict (k : Key)                 -- `app_state[k].state_dict()`
  | load (k : Key)                      -- `app_state[k].load_state_dict(..)`
  | prepareWrite (k : Key) (lk : LeafKind)
  | partitionOnRank0                    -- `_partition_write_loads` (rank 0 only)
  | batchWrites                         -- `batch_write_requests` (unless batching is disabled)
  | writeMetadata                       -- rank 0 commits `.snapshot_metadata`
  | raise (e : Err)
  deriving DecidableEq, Repr

def Ev.op? : Ev → Option Op
  | .coll o => some o
  | _ => none

/-- scheduler.py `get_process_memory_budget_bytes`: the override short-circuits; otherwise
`get_local_world_size` all-gathers the hostnames. -/
def budgetEvs (g : Global) : List Ev :=
  if g.overrideSet then [] else [.coll .gatherHostnames]

/-- snapshot.py:577-583 — `for key in global_keys: if key in app_state: state_dict(); barrier()`. -/
def takeKeyLoop (l : Local) : List Key → List Ev
  | [] => []
  | k :: ks => (if k ∈ l.keys then [.stateDict k] else []) ++ [.coll (.keyBarrier k)] ++ takeKeyLoop l ks

/-- A tempting "optimisation" of that loop (not what the code does): skip the rest of the iteration — the barrier
included — when the stateful's state dict flattens to no leaves (a parameter-less module).  Kept only for the witness
`C12_witness_skip_barrier_on_empty`. -/
def takeKeyLoopSkipEmpty (l : Local) : List Key → List Ev
  | [] => []
  | k :: ks =>
    (if k ∈ l.keys then
      [.stateDict k] ++ (if (l.leaves.filter (fun kl => kl.1 == k)).all (fun kl => kl.2.isEmpty)
        then [] else [.coll (.keyBarrier k)])
     else [.coll (.keyBarrier k)]) ++ takeKeyLoopSkipEmpty l ks

/-- snapshot.py:599-618 — `prepare_write` for every flattened leaf (no collectives). -/
def prepareEvs (l : Local) : List Ev :=
  l.leaves.flatMap (fun kl => kl.2.map (Ev.prepareWrite kl.1))

/-- `_take_impl` from `partition_write_reqs` to the end, then the tail of `take` / `async_take`. -/
def takeTail (isAsync : Bool) (l : Local) (g : Global) : List Ev :=
  if g.partitionerDisabled then [.raise .notImplemented] else
  -- partitioner.py `_partition_replicated_write_reqs`
  [.coll .gatherWriteLoads] ++ (if l.rank = 0 then [.partitionOnRank0] else []) ++ [.coll .bcastPartition] ++
  (if g.batchingDisabled then [] else [.batchWrites]) ++
  -- `_gather_manifest`, then the memory budget for `sync_execute_write_reqs`
  [.coll .gatherManifest] ++ budgetEvs g ++
  (if isAsync then
    -- `PendingSnapshot.__init__` → `get_or_create_store`
    (if g.storeBootstrap then [.coll .bcastStoreAddr] else [])
   else
    -- `take`: barrier; rank 0 writes the metadata; barrier
    [.coll .commitBarrierPre] ++ (if l.rank = 0 then [.writeMetadata] else []) ++ [.coll .commitBarrierPost])

/-- `Snapshot.take` (`isAsync = false`) / `Snapshot.async_take` (`isAsync = true`) up to their return. -/
def takeEvents (isAsync : Bool) (l : Local) (g : Global) : List Ev :=
  -- `_coalesce_path_and_replicated`
  [.coll .bcastPath, .coll .gatherReplicatedGlobs] ++
  -- `async_take` only: agree on the commit-barrier id
  (if isAsync then [.coll .bcastBarrierId] else []) ++
  -- `_take_impl`: `_pop_rng_state` raises on more than one RNGState
  (if 1 < l.rngKeys.length then [.raise .multipleRng] else
    l.rngKeys.map .stateDict ++                      -- capture the RNG first
    [.coll .gatherKeys] ++
    takeKeyLoop l g.keys ++
    l.rngKeys.map .load ++                           -- re-apply the captured RNG state
    [.coll .gatherReplicatedPaths, .coll .bcastReplicatedPaths] ++   -- `_calculate_replicated_entries`
    prepareEvs l ++
    takeTail isAsync l g)

/-- The collective sequence of `take` / `async_take`. -/
def takeTrace (isAsync : Bool) (l : Local) (g : Global) : List Op :=
  (takeEvents isAsync l g).filterMap Ev.op?

/-- snapshot.py:371-381 — `for key in global_keys: _load_stateful(key, app_state.get(key)); barrier()`.
`_load_stateful` returns at once when the rank lacks the key; otherwise it calls `state_dict()`,
reads (the budget was computed before the loop) and calls `load_state_dict()`. -/
def restoreKeyLoop (l : Local) : List Key → List Ev
  | [] => []
  | k :: ks => (if k ∈ l.keys then [.stateDict k, .load k] else []) ++ [.coll (.keyBarrier k)]
      ++ restoreKeyLoop l ks

/-- `Snapshot.restore` (the repaired code: budget once, before the key loop). -/
def restoreEvents (l : Local) (g : Global) : List Ev :=
  if 1 < l.rngKeys.length then [.raise .multipleRng] else
  [.coll .gatherKeys] ++ budgetEvs g ++
  restoreKeyLoop l g.keys ++
  l.rngKeys.flatMap (fun k => [.stateDict k, .load k])   -- the RNGState last

def restoreTrace (l : Local) (g : Global) : List Op :=
  (restoreEvents l g).filterMap Ev.op?

/-! ### The code before `fix: compute the restore memory budget once` (D8), kept for the witness -/

/-- Old `_load_stateful`: the early return came first, the budget all-gather after it. -/
def restoreKeyLoopPreD8 (l : Local) (g : Global) : List Key → List Ev
  | [] => []
  | k :: ks => (if k ∈ l.keys then [.stateDict k] ++ budgetEvs g ++ [.load k] else [])
      ++ [.coll (.keyBarrier k)] ++ restoreKeyLoopPreD8 l g ks

def restoreEventsPreD8 (l : Local) (g : Global) : List Ev :=
  if 1 < l.rngKeys.length then [.raise .multipleRng] else
  [.coll .gatherKeys] ++
  restoreKeyLoopPreD8 l g g.keys ++
  l.rngKeys.flatMap (fun k => [.stateDict k] ++ budgetEvs g ++ [.load k])

def restoreTracePreD8 (l : Local) (g : Global) : List Op :=
  (restoreEventsPreD8 l g).filterMap Ev.op?

/-! ### A whole job: the global inputs are computed from the ranks' local states -/

/-- Knobs / environment shared by all ranks. -/
structure Config where
  overrideSet : Bool
  batchingDisabled : Bool
  partitionerDisabled : Bool
  storeBootstrap : Bool
  deriving Repr

/-- `_gather_keys`: `sorted(set(chain(all ranks' keys)))`. -/
def globalKeys (locals : List Local) : List Key :=
  sortKeys (locals.flatMap (·.keys))

def globalOf (locals : List Local) (c : Config) : Global :=
  { world := locals.length, keys := globalKeys locals, overrideSet := c.overrideSet,
    batchingDisabled := c.batchingDisabled, partitionerDisabled := c.partitionerDisabled,
    storeBootstrap := c.storeBootstrap }

end Ts.Collective
